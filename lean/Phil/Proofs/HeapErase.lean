/-
  Erasing identity: the value tree `extractT` reads off the heap (Phil/HeapExtract.lean), with the provenance
  of handed-out word lists forgotten (`erase`), is the value the pure extraction model
  `Phil.Fetch.extractObj` computes on the abstract tree the object denotes.

  The two models differ in one place only: `philJoinT` / `philSetT` look at the constructor of a `TVal`
  (`record`, `multi`, `pure none`), `philJoin` / `philSet` at the constructor of a `PVal`.  They agree on
  NORMAL value trees — `pure v` is never a scope_extract or a scope_extract_list — and every value tree an
  extraction builds is normal because no converter returns a scope_extract (`fromWords_atomic`).
-/
import Phil.HeapExtract
import Phil.Proofs.HeapLemmas
namespace Phil.Heap
open Phil

/-! ### converters return atomic values -/

/-- not a scope_extract, not a scope_extract_list -/
def _root_.Phil.PVal.atomic : PVal → Bool
  | .record _ => false
  | .multi _ _ => false
  | _ => true

theorem map_ok_atomic {α : Type} {r : R α} {f : α → PVal} {v : PVal} (hf : ∀ a, (f a).atomic = true)
    (h : r.map f = .ok v) : v.atomic = true := by
  cases r with
  | error e => cases h
  | ok a => cases h; exact hf a

theorem intFromNumber_atomic (ws : List Word) (raw v : PVal) (h : intFromNumber ws raw = .ok v) : v.atomic = true := by
  unfold intFromNumber at h
  split at h <;> (try split at h) <;> cases h <;> rfl

theorem floatFromNumber_atomic (ws : List Word) (raw v : PVal) (h : floatFromNumber ws raw = .ok v) : v.atomic = true := by
  unfold floatFromNumber at h
  split at h <;> (try split at h) <;> cases h <;> rfl

/-- no converter's `from_words` returns a scope_extract or a scope_extract_list -/
theorem fromWords_atomic (c : Conv) (env : EvalEnv) (opt : AttrVal) (ws : List Word) (v : PVal)
    (h : fromWords c env opt ws = .ok v) : v.atomic = true := by
  cases c <;> simp only [fromWords] at h
  all_goals (repeat' split at h)
  all_goals (first | (cases h; done) | (cases h; rfl) | (exact map_ok_atomic (fun _ => rfl) h) | skip)
  all_goals (first
    | (rename_i heq; cases h; simp only [↓reduceIte] at heq; exact intFromNumber_atomic _ _ _ heq)
    | (rename_i heq; cases h; simp only [Bool.false_eq_true, ↓reduceIte] at heq; exact floatFromNumber_atomic _ _ _ heq)
    | skip)

theorem extractDefn_atomic (e : Envs) (m : Meta) (ws : List Word) (v : PVal)
    (h : extractDefn e m ws = .ok v) : v.atomic = true := by
  unfold extractDefn at h
  split at h
  · exact fromWords_atomic _ _ _ _ _ h
  · exact fromWords_atomic _ _ _ _ _ h
  · cases h
  · cases h

/-! ### erasure and normal value trees -/

mutual
/-- forget which definition handed out a word list -/
def erase : TVal → PVal
  | .pure v => v
  | .handout _ ws => .words ws
  | .record fs => .record (eraseFields fs)
  | .multi o l => .multi o (eraseList l)
def eraseFields : List (Str × TVal) → List (Str × PVal)
  | [] => []
  | (k, v) :: rest => (k, erase v) :: eraseFields rest
def eraseList : List TVal → List PVal
  | [] => []
  | v :: rest => erase v :: eraseList rest
end

mutual
/-- `pure` holds atomic values only -/
def TVal.norm : TVal → Bool
  | .pure v => v.atomic
  | .handout _ _ => true
  | .record fs => normFields fs
  | .multi _ l => normList l
def normFields : List (Str × TVal) → Bool
  | [] => true
  | (_, v) :: rest => v.norm && normFields rest
def normList : List TVal → Bool
  | [] => true
  | v :: rest => v.norm && normList rest
end

def eraseX : XT → XVal
  | .disabled => .disabled
  | .val v => .val (erase v)

def XT.norm : XT → Bool
  | .disabled => true
  | .val v => v.norm

theorem eraseFields_append : ∀ (a b : List (Str × TVal)), eraseFields (a ++ b) = eraseFields a ++ eraseFields b
  | [], _ => rfl
  | (k, v) :: rest, b => by simp only [List.cons_append, eraseFields]; rw [eraseFields_append rest b]

theorem eraseList_append : ∀ (a b : List TVal), eraseList (a ++ b) = eraseList a ++ eraseList b
  | [], _ => rfl
  | v :: rest, b => by simp only [List.cons_append, eraseList]; rw [eraseList_append rest b]

theorem eraseFields_length : ∀ (a : List (Str × TVal)), (eraseFields a).length = a.length
  | [] => rfl
  | (k, v) :: rest => by simp only [eraseFields, List.length_cons]; rw [eraseFields_length rest]

theorem eraseList_length : ∀ (a : List TVal), (eraseList a).length = a.length
  | [] => rfl
  | v :: rest => by simp only [eraseList, List.length_cons]; rw [eraseList_length rest]

theorem normFields_append : ∀ (a b : List (Str × TVal)), normFields (a ++ b) = (normFields a && normFields b)
  | [], _ => by simp [normFields]
  | (k, v) :: rest, b => by simp only [List.cons_append, normFields]; rw [normFields_append rest b, Bool.and_assoc]

theorem normList_append : ∀ (a b : List TVal), normList (a ++ b) = (normList a && normList b)
  | [], _ => by simp [normList]
  | v :: rest, b => by simp only [List.cons_append, normList]; rw [normList_append rest b, Bool.and_assoc]

/-- on normal trees the `None` test of the two models agrees -/
theorem erase_isNone (t : TVal) (h : t.norm = true) :
    (match erase t with | .none => true | _ => false) = t.isNone := by
  cases t with
  | pure v => cases v <;> rfl
  | handout d ws => rfl
  | record fs => rfl
  | multi o l => rfl

theorem fieldGet_erase (k : Str) : ∀ (fs : List (Str × TVal)),
    fieldGet (eraseFields fs) k = (tGet fs k).map erase
  | [] => rfl
  | (k', v) :: rest => by
    have ih := fieldGet_erase k rest
    unfold fieldGet tGet at ih ⊢
    simp only [eraseFields, List.find?_cons]
    cases hk : (k' == k)
    · simpa using ih
    · simp

theorem tGet_norm (k : Str) : ∀ (fs : List (Str × TVal)) (t : TVal), normFields fs = true → tGet fs k = some t →
    t.norm = true
  | [], t, _, h => by simp [tGet] at h
  | (k', v) :: rest, t, hn, h => by
    rw [normFields, Bool.and_eq_true] at hn
    unfold tGet at h
    simp only [List.find?_cons] at h
    cases hk : (k' == k)
    · rw [hk] at h
      exact tGet_norm k rest t hn.2 h
    · rw [hk] at h
      simp only [Option.map_some, Option.some.injEq] at h
      rw [← h]; exact hn.1

theorem any_erase (k : Str) : ∀ (fs : List (Str × TVal)),
    (eraseFields fs).any (·.1 == k) = fs.any (·.1 == k)
  | [] => rfl
  | (k', v) :: rest => by simp only [eraseFields, List.any_cons]; rw [any_erase k rest]

theorem map_erase (k : Str) (v : TVal) : ∀ (fs : List (Str × TVal)),
    (eraseFields fs).map (fun p => if p.1 == k then (k, erase v) else p) =
      eraseFields (fs.map (fun p => if p.1 == k then (k, v) else p))
  | [] => rfl
  | (k', v') :: rest => by
    simp only [eraseFields, List.map_cons]
    rw [map_erase k v rest]
    cases hk : (k' == k) <;> simp

theorem map_norm (k : Str) (v : TVal) (hv : v.norm = true) : ∀ (fs : List (Str × TVal)), normFields fs = true →
    normFields (fs.map (fun p => if p.1 == k then (k, v) else p)) = true
  | [], _ => rfl
  | (k', v') :: rest, hn => by
    rw [normFields, Bool.and_eq_true] at hn
    simp only [List.map_cons]
    have ih := map_norm k v hv rest hn.2
    cases hk : (k' == k)
    · simp only [Bool.false_eq_true, ↓reduceIte, normFields, Bool.and_eq_true]
      exact ⟨hn.1, ih⟩
    · simp only [↓reduceIte, normFields, Bool.and_eq_true]
      exact ⟨hv, ih⟩

theorem fieldSet_erase (fs : List (Str × TVal)) (k : Str) (v : TVal) :
    fieldSet (eraseFields fs) k (erase v) = eraseFields (tSet fs k v) := by
  unfold fieldSet tSet
  rw [any_erase]
  cases fs.any (·.1 == k)
  · simp [eraseFields_append, eraseFields]
  · simp only [↓reduceIte]
    exact map_erase k v fs

theorem tSet_norm (fs : List (Str × TVal)) (k : Str) (v : TVal) (hn : normFields fs = true) (hv : v.norm = true) :
    normFields (tSet fs k v) = true := by
  unfold tSet
  cases fs.any (·.1 == k)
  · simp [normFields_append, normFields, hn, hv]
  · simp only [↓reduceIte]
    exact map_norm k v hv fs hn

/-! ### the two `__phil_join__` / `__phil_set__` models agree on normal value trees -/

/-- agreement of a heap-level result with a pure result -/
def RelF (rt : R (List (Str × TVal))) (rp : R (List (Str × PVal))) : Prop :=
  match rt with
  | .ok r => normFields r = true ∧ rp = .ok (eraseFields r)
  | .error e => rp = .error e

theorem RelF.ok {r : List (Str × TVal)} (h : normFields r = true) : RelF (.ok r) (.ok (eraseFields r)) := ⟨h, rfl⟩

theorem foldlM_relF (stepT : List (Str × TVal) → Str × TVal → R (List (Str × TVal)))
    (stepP : List (Str × PVal) → Str × PVal → R (List (Str × PVal)))
    (hstep : ∀ acc k v, normFields acc = true → v.norm = true →
      RelF (stepT acc (k, v)) (stepP (eraseFields acc) (k, erase v))) :
    ∀ (other acc : List (Str × TVal)), normFields acc = true → normFields other = true →
      RelF (other.foldlM stepT acc) ((eraseFields other).foldlM stepP (eraseFields acc))
  | [], acc, ha, _ => RelF.ok ha
  | (k, v) :: rest, acc, ha, ho => by
    rw [normFields, Bool.and_eq_true] at ho
    simp only [eraseFields, List.foldlM_cons]
    have hs := hstep acc k v ha ho.1
    cases hst : stepT acc (k, v) with
    | error e =>
      rw [hst] at hs
      simp only [RelF] at hs
      rw [hs]
      rfl
    | ok r =>
      rw [hst] at hs
      simp only [RelF] at hs
      rw [hs.2]
      exact foldlM_relF stepT stepP hstep rest r hs.1 ho.2

theorem RelF.map_set (acc : List (Str × TVal)) (k : Str) (hacc : normFields acc = true)
    {x : R (List (Str × TVal))} {y : R (List (Str × PVal))} (h : RelF x y) :
    RelF (x.map (fun r => tSet acc k (.record r))) (y.map (fun r => fieldSet (eraseFields acc) k (.record r))) := by
  cases x with
  | error e =>
    simp only [RelF] at h
    subst h
    rfl
  | ok r =>
    simp only [RelF] at h
    rw [h.2]
    simp only [Except.map]
    have := fieldSet_erase acc k (.record r)
    simp only [erase] at this
    rw [this]
    exact RelF.ok (tSet_norm acc k _ hacc (by simpa [TVal.norm] using h.1))

theorem filter_erase : ∀ (l2 : List TVal), normList l2 = true →
    (eraseList l2).filter (fun x => match x with | .none => false | _ => true) =
      eraseList (l2.filter (fun x => !x.isNone)) ∧ normList (l2.filter (fun x => !x.isNone)) = true
  | [], _ => ⟨rfl, rfl⟩
  | x :: rest, h => by
    rw [normList, Bool.and_eq_true] at h
    obtain ⟨ih1, ih2⟩ := filter_erase rest h.2
    have hx := erase_isNone x h.1
    simp only [eraseList, List.filter_cons]
    cases hn : x.isNone
    · rw [hn] at hx
      have : (match erase x with | PVal.none => false | _ => true) = true := by
        cases he : erase x <;> simp_all
      simp only [this, if_true, Bool.not_false, eraseList, ih1, normList, h.1, ih2, Bool.and_self, and_self]
    · rw [hn] at hx
      have : (match erase x with | PVal.none => false | _ => true) = false := by
        cases he : erase x <;> simp_all
      simp only [this, Bool.false_eq_true, if_false, Bool.not_true, ih1, ih2, and_self]

def headDropT (l' : List TVal) : List TVal :=
  match l' with
  | x :: r => if x.isNone && decide (l'.length > 1) then r else l'
  | _ => l'
def headDropP (L : List PVal) : List PVal :=
  match L with
  | PVal.none :: r => if L.length > 1 then r else L
  | _ => L

theorem headDrop_erase (l' : List TVal) (h : normList l' = true) :
    headDropP (eraseList l') = eraseList (headDropT l') ∧ normList (headDropT l') = true := by
  unfold headDropP headDropT
  cases l' with
  | nil => exact ⟨rfl, rfl⟩
  | cons x r =>
    rw [normList, Bool.and_eq_true] at h
    have hx := erase_isNone x h.1
    cases hn : x.isNone
    · rw [hn] at hx
      simp only [hn, eraseList, Bool.false_and, Bool.false_eq_true, if_false, normList, h.1, h.2, Bool.and_self, and_true]
      cases he : erase x <;> simp_all
    · rw [hn] at hx
      have he : erase x = .none := by
        cases he : erase x <;> simp_all
      simp only [hn, eraseList, he, Bool.true_and, List.length_cons, eraseList_length, decide_eq_true_eq]
      by_cases hl : r.length + 1 > 1
      · simp only [hl, if_true, h.2, and_self]
      · simp only [hl, if_false, eraseList, he, normList, h.1, h.2, Bool.and_self, and_self]

theorem philJoin_rel : ∀ (fuel : Nat) (a b : List (Str × TVal)), normFields a = true → normFields b = true →
    RelF (philJoinT fuel a b) (philJoin fuel (eraseFields a) (eraseFields b))
  | 0, _, _, _, _ => by simp only [philJoinT, philJoin, RelF]
  | fuel + 1, a, b, ha, hb => by
    rw [philJoinT, philJoin]
    apply foldlM_relF _ _ _ b a ha hb
    intro acc k v hacc hv
    dsimp only
    by_cases hres : isReserved k = true
    · simp only [hres, if_true]
      exact RelF.ok hacc
    · simp only [hres, Bool.false_eq_true, if_false]
      rw [fieldGet_erase]
      cases hg : tGet acc k with
      | none =>
        simp only [Option.map_none]
        rw [fieldSet_erase]
        exact RelF.ok (tSet_norm acc k v hacc hv)
      | some t =>
        have ht := tGet_norm k acc t hacc hg
        simp only [Option.map_some]
        cases t with
        | pure pv =>
          cases pv <;> simp only [erase] <;> first
            | (rw [fieldSet_erase]; exact RelF.ok (tSet_norm acc k v hacc hv))
            | (simp [TVal.norm, PVal.atomic] at ht)
        | handout d ws =>
          simp only [erase]
          rw [fieldSet_erase]; exact RelF.ok (tSet_norm acc k v hacc hv)
        | record sf =>
          simp only [erase]
          have hsf : normFields sf = true := by simpa [TVal.norm] using ht
          cases v with
          | record of_ =>
            simp only [erase]
            have hof : normFields of_ = true := by simpa [TVal.norm] using hv
            exact RelF.map_set acc k hacc (philJoin_rel fuel sf of_ hsf hof)
          | pure pv =>
            cases pv <;> simp only [erase, RelF] <;> simp [TVal.norm, PVal.atomic] at hv
          | handout d ws => simp only [erase, RelF]
          | multi o l => simp only [erase, RelF]
        | multi o l =>
          simp only [erase]
          have hl : normList l = true := by simpa [TVal.norm] using ht
          cases v with
          | multi o2 l2 =>
            simp only [erase]
            have hl2 : normList l2 = true := by simpa [TVal.norm] using hv
            obtain ⟨f1, f2⟩ := filter_erase l2 hl2
            erw [f1]
            rw [← eraseList_append]
            have hn' : normList (l ++ l2.filter (fun x => !x.isNone)) = true := by
              rw [normList_append, hl, f2]; rfl
            generalize l ++ List.filter (fun x => !x.isNone) l2 = l' at hn' ⊢
            obtain ⟨g1, g2⟩ := headDrop_erase l' hn'
            change RelF (.ok (tSet acc k (.multi o (headDropT l'))))
              (.ok (fieldSet (eraseFields acc) k (.multi o (headDropP (eraseList l')))))
            rw [g1]
            have := fieldSet_erase acc k (.multi o (headDropT l'))
            simp only [erase] at this
            rw [this]
            exact RelF.ok (tSet_norm acc k _ hacc (by simpa [TVal.norm] using g2))
          | pure pv =>
            cases pv <;> simp only [erase, RelF] <;> simp [TVal.norm, PVal.atomic] at hv
          | handout d ws => simp only [erase, RelF]
          | record of_ => simp only [erase, RelF]
theorem RelF.set (fs : List (Str × TVal)) (k : Str) (v : TVal) (hfs : normFields fs = true) (hv : v.norm = true) :
    RelF (.ok (tSet fs k v)) (.ok (fieldSet (eraseFields fs) k (erase v))) := by
  rw [fieldSet_erase]; exact RelF.ok (tSet_norm fs k v hfs hv)

def isNoneP : PVal → Bool
  | .none => true
  | _ => false
def optTrue : AttrVal → Bool
  | .bool true => true
  | _ => false

theorem isNoneP_erase (t : TVal) (h : t.norm = true) : isNoneP (erase t) = t.isNone := by
  cases t with
  | pure v => cases v <;> rfl
  | handout d ws => rfl
  | record fs => rfl
  | multi o l => rfl

theorem append_rel (fs0 : List (Str × TVal)) (name : Str) (o opt : AttrVal) (l : List TVal) (v : TVal)
    (hfs0 : normFields fs0 = true) (hl : normList l = true) (hv : v.norm = true) :
    RelF (if (!v.isNone || !optTrue opt) = true then .ok (tSet fs0 name (.multi o (l ++ [v]))) else .ok fs0)
      (if (!isNoneP (erase v) || !optTrue opt) = true
        then .ok (fieldSet (eraseFields fs0) name (.multi o (eraseList l ++ [erase v]))) else .ok (eraseFields fs0)) := by
  rw [isNoneP_erase v hv]
  by_cases hc : (!v.isNone || !optTrue opt) = true
  · rw [if_pos hc, if_pos hc]
    have hn : (TVal.multi o (l ++ [v])).norm = true := by
      simp [TVal.norm, normList_append, normList, hl, hv]
    have := RelF.set fs0 name (.multi o (l ++ [v])) hfs0 hn
    simp only [erase, eraseList_append, eraseList] at this
    exact this
  · rw [if_neg hc, if_neg hc]
    exact RelF.ok hfs0

theorem philSet_rel (fs : List (Str × TVal)) (name : Str) (opt : AttrVal) (mult : Bool) (x : XT)
    (hfs : normFields fs = true) (hx : x.norm = true) :
    RelF (philSetT fs name opt mult x) (philSet (eraseFields fs) name opt mult (eraseX x)) := by
  unfold philSetT philSet
  rw [fieldGet_erase]
  cases mult with
  | false =>
    simp only [Bool.not_false, if_true]
    have hv : ∀ v : TVal, v.norm = true → RelF
        (match tGet fs name, v with
          | some (.record node), .record val =>
            (philJoinT (node.length + val.length + 64) node val).map (fun r => tSet fs name (.record r))
          | _, _ => .ok (tSet fs name v))
        (match (tGet fs name).map erase, erase v with
          | some (.record node), .record val =>
            (philJoin (node.length + val.length + 64) node val).map (fun r => fieldSet (eraseFields fs) name (.record r))
          | _, _ => .ok (fieldSet (eraseFields fs) name (erase v))) := by
      intro v hv
      cases hg : tGet fs name with
      | none => exact RelF.set fs name v hfs hv
      | some t =>
        have ht := tGet_norm name fs t hfs hg
        simp only [Option.map_some]
        cases t with
        | pure pv =>
          cases pv <;> simp only [erase] <;> first
            | exact RelF.set fs name v hfs hv
            | (simp [TVal.norm, PVal.atomic] at ht)
        | handout d ws => simp only [erase]; exact RelF.set fs name v hfs hv
        | multi o l => simp only [erase]; exact RelF.set fs name v hfs hv
        | record node =>
          have hnode : normFields node = true := by simpa [TVal.norm] using ht
          cases v with
          | record val =>
            have hval : normFields val = true := by simpa [TVal.norm] using hv
            simp only [erase]
            have := RelF.map_set fs name hfs (philJoin_rel (node.length + val.length + 64) node val hnode hval)
            rw [eraseFields_length, eraseFields_length]
            exact this
          | pure pv =>
            cases pv <;> simp only [erase] <;> first
              | exact RelF.set fs name _ hfs hv
              | (simp [TVal.norm, PVal.atomic] at hv)
          | handout d ws => simp only [erase]; exact RelF.set fs name _ hfs hv
          | multi o l => simp only [erase]; exact RelF.set fs name _ hfs hv
    cases x with
    | disabled => exact hv (.pure .none) rfl
    | val v => exact hv v hx
  | true =>
    simp only [Bool.not_true, Bool.false_eq_true, if_false]
    cases hg : tGet fs name with
    | none =>
      simp only [Option.map_none]
      have e0 : fieldSet (eraseFields fs) name (.multi opt []) = eraseFields (tSet fs name (.multi opt [])) := by
        have := fieldSet_erase fs name (.multi opt [])
        simp only [erase, eraseList] at this
        exact this
      have n0 : normFields (tSet fs name (.multi opt [])) = true := tSet_norm fs name _ hfs rfl
      rw [e0]
      cases x with
      | disabled => exact RelF.ok n0
      | val v => exact append_rel (tSet fs name (.multi opt [])) name opt opt [] v n0 rfl hx
    | some t =>
      have ht := tGet_norm name fs t hfs hg
      simp only [Option.map_some]
      cases t with
      | multi o l =>
        have hl : normList l = true := by simpa [TVal.norm] using ht
        simp only [erase]
        cases x with
        | disabled => exact RelF.ok hfs
        | val v => exact append_rel fs name o opt l v hfs hl hx
      | pure pv =>
        cases pv <;> simp only [erase] <;> first
          | (simp [TVal.norm, PVal.atomic] at ht; done)
          | (cases x <;> first | exact RelF.ok hfs | simp only [eraseX, RelF])
      | handout d ws =>
        simp only [erase]
        cases x <;> first | exact RelF.ok hfs | simp only [eraseX, RelF]
      | record node =>
        simp only [erase]
        cases x <;> first | exact RelF.ok hfs | simp only [eraseX, RelF]

/-- agreement of a heap-level value with a pure value -/
def RelV (rt : R TVal) (rp : R PVal) : Prop :=
  match rt with
  | .ok t => t.norm = true ∧ rp = .ok (erase t)
  | .error e => rp = .error e

theorem extractDefnT_rel (e : Envs) (d : Nat) (m : Meta) (ws : List Word) :
    RelV (extractDefnT e d m ws) (extractDefn e m ws) := by
  unfold extractDefnT
  cases hd : extractDefn e m ws with
  | error err => rfl
  | ok v =>
    have hat := extractDefn_atomic e m ws v hd
    cases v <;> simp only [RelV, erase, TVal.norm, and_self] <;> first | exact hat | trivial

theorem RelV.of_fields {x : R (List (Str × TVal))} {y : R (List (Str × PVal))} (h : RelF x y) :
    RelV (x.map TVal.record) (y.map PVal.record) := by
  cases x with
  | error err => simp only [RelF] at h; subst h; rfl
  | ok r =>
    simp only [RelF] at h
    rw [h.2]
    simp only [Except.map, RelV, TVal.norm, erase, h.1, and_self]

theorem foldlM_rel2 (stepT : List (Str × TVal) → Nat → R (List (Str × TVal)))
    (stepP : List (Str × PVal) → Obj → R (List (Str × PVal))) (g : Nat → Option Obj)
    (hstep : ∀ acc k ok, normFields acc = true → g k = some ok → RelF (stepT acc k) (stepP (eraseFields acc) ok)) :
    ∀ (ks : List Nat) (os : List Obj) (acc : List (Str × TVal)), mapOpt g ks = some os → normFields acc = true →
      RelF (ks.foldlM stepT acc) (os.foldlM stepP (eraseFields acc))
  | [], os, acc, hm, ha => by
    simp only [mapOpt, Option.some.injEq] at hm
    subst hm
    exact RelF.ok ha
  | k :: ks, os, acc, hm, ha => by
    simp only [mapOpt] at hm
    cases hk : g k with
    | none => rw [hk] at hm; simp at hm
    | some ok =>
      cases hr : mapOpt g ks with
      | none => rw [hk, hr] at hm; simp at hm
      | some oks =>
        rw [hk, hr] at hm
        simp only [Option.some.injEq] at hm
        subst hm
        simp only [List.foldlM_cons]
        have hs := hstep acc k ok ha hk
        cases hst : stepT acc k with
        | error e =>
          rw [hst] at hs
          simp only [RelF] at hs
          rw [hs]
          rfl
        | ok r =>
          rw [hst] at hs
          simp only [RelF] at hs
          rw [hs.2]
          exact foldlM_rel2 stepT stepP g hstep ks oks r hr hs.1

theorem absF_meta {f : Nat} {h : Heap} {k : Nat} {o : Obj} (ha : absF f h k = some o) :
    ∃ n, h[k]? = some n ∧ n.meta = o.meta := by
  cases f with
  | zero => simp [absF] at ha
  | succ f =>
    rw [absF] at ha
    cases hk : h[k]? with
    | none => rw [hk] at ha; simp at ha
    | some n =>
      rw [hk] at ha
      cases n with
      | defn m ws p =>
        simp only [Option.some.injEq] at ha
        subst ha
        exact ⟨_, rfl, rfl⟩
      | scope m ks p =>
        simp only [Option.map_eq_some_iff] at ha
        obtain ⟨os, _, rfl⟩ := ha
        exact ⟨_, rfl, rfl⟩

/-- **erase ∘ extractT = extractObj ∘ abs**, errors included, at every fuel -/
theorem extractT_rel (e : Envs) : ∀ (fuel : Nat) (h : Heap) (x : Nat) (o : Obj) (f : Nat), absF f h x = some o →
    RelV (extractT e fuel h x) (extractObj e fuel o)
  | 0, _, _, _, _, _ => by simp only [extractT, extractObj, RelV]
  | fuel + 1, h, x, o, f, ha => by
    cases f with
    | zero => simp [absF] at ha
    | succ f =>
      rw [absF] at ha
      cases hx : h[x]? with
      | none => rw [hx] at ha; simp at ha
      | some n =>
        rw [hx] at ha
        cases n with
        | defn m ws p =>
          simp only [Option.some.injEq] at ha
          subst ha
          simp only [extractT, hx, extractObj]
          exact extractDefnT_rel e x m ws
        | scope m ks p =>
          simp only [Option.map_eq_some_iff] at ha
          obtain ⟨os, hos, rfl⟩ := ha
          simp only [extractT, hx, extractObj]
          apply RelV.of_fields
          apply foldlM_rel2 _ _ (absF f h) _ ks os [] hos rfl
          intro acc k ok hacc hk
          obtain ⟨n, hn, hmeta⟩ := absF_meta hk
          have ih := extractT_rel e fuel h k ok f hk
          simp only [hn, hmeta, Obj.name, Obj.attr, isMultiple]
          by_cases ht : ok.meta.tmpl < 0
          · rw [if_pos ht, if_pos ht]
            exact RelF.ok hacc
          · rw [if_neg ht, if_neg ht]
            by_cases hd : (ok.meta.disabled || decide (ok.meta.tmpl > 0)) = true
            · rw [if_pos hd, if_pos hd]
              exact philSet_rel acc _ _ _ .disabled hacc rfl
            · rw [if_neg hd, if_neg hd]
              cases hxt : extractT e fuel h k with
              | error err =>
                rw [hxt] at ih
                simp only [RelV] at ih
                rw [ih]
                rfl
              | ok t =>
                rw [hxt] at ih
                simp only [RelV] at ih
                rw [ih.2]
                exact philSet_rel acc _ _ _ (.val t) hacc ih.1


end Phil.Heap
