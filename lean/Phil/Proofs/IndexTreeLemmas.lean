/-
  Phil.Proofs.IndexTreeLemmas — the kernel laws of the parameter index (C20) for the concrete kernel
  (`Phil.concreteKernel`) on NESTED masters whose definitions may be `.multiple`
  (`TreeMultiMaster`, Phil/Proofs/FetchTreeMulti.lean).

    1. sources: `++` on `SrcTree` / `SrcNoDollar` / `KeysDefinedTree` / `noClash`;
    2. `TreeCtx`, `ReachedT` (working sets that are closed-form fetch results), what a reached
       working set satisfies as a source;
    3. `refetch w = w` on reached working sets;
    4. `merge` of an edit that names no `.multiple` parameter: closed form, `ReachedT` preserved;
    5. `ReachedT` is an invariant of histories;
    6. the same edit twice (absorption law of the closed form).
  All names carry the suffix `_itl`.
-/
import Phil.Proofs.FetchTreeMulti
import Phil.Proofs.IndexConcreteLemmas
set_option linter.unusedVariables false
namespace Phil

/-! ## 1. sources and `++` -/

theorem activeIn_append_itl {x : Obj} {a b : List Obj} (h : ActiveIn x (a ++ b)) :
    ActiveIn x a ∨ ActiveIn x b := by
  cases h with
  | here hm hd =>
    rcases List.mem_append.mp hm with h | h
    · exact .inl (.here h hd)
    · exact .inr (.here h hd)
  | deeper hm hd hk =>
    rcases List.mem_append.mp hm with h | h
    · exact .inl (.deeper h hd hk)
    · exact .inr (.deeper h hd hk)

theorem srcTree_append_itl {a b : List Obj} (ha : SrcTree a) (hb : SrcTree b) : SrcTree (a ++ b) := by
  constructor
  · intro x hx hd
    rcases activeIn_append_itl hx with h | h
    · exact ha.ok x h hd
    · exact hb.ok x h hd
  · intro m kids hx
    rcases activeIn_append_itl hx with h | h
    · exact ha.named m kids h
    · exact hb.named m kids h

theorem srcNoDollar_append_itl {a b : List Obj} (ha : SrcNoDollar a) (hb : SrcNoDollar b) :
    SrcNoDollar (a ++ b) := by
  intro x hx hd
  rcases activeIn_append_itl hx with h | h
  · exact ha x h hd
  · exact hb x h hd

theorem defsNamed_append_itl (n : Str) (a b : List Obj) :
    defsNamed n (a ++ b) = defsNamed n a ++ defsNamed n b := by
  unfold defsNamed; rw [List.filter_append]

theorem scopesNamed_append_itl (n : Str) (a b : List Obj) :
    scopesNamed n (a ++ b) = scopesNamed n a ++ scopesNamed n b := by
  unfold scopesNamed; rw [List.filter_append]

theorem srcStep_append_itl (n : Str) (a b : List Obj) :
    srcStep (a ++ b) n = srcStep a n ++ srcStep b n := by
  unfold srcStep; rw [scopesNamed_append_itl, List.flatMap_append]

theorem keysDefined_append_itl {e : Envs} {f : Nat} {mo : Obj} {a b : List Obj}
    (ha : KeysDefined e f mo a) (hb : KeysDefined e f mo b) : KeysDefined e f mo (a ++ b) := by
  refine ⟨ha.1, ?_⟩
  intro d hd
  rcases List.mem_append.mp hd with h | h
  · exact ha.2 d h
  · exact hb.2 d h

mutual
theorem keysDefinedObj_append_itl (e : Envs) : ∀ (mo : Obj) (a b : List Obj),
    KeysDefinedObj e mo a → KeysDefinedObj e mo b → KeysDefinedObj e mo (a ++ b)
  | .defn mm mws, a, b, ha, hb => by
    rw [KeysDefinedObj] at ha hb ⊢
    intro hm
    rw [defsNamed_append_itl]
    exact keysDefined_append_itl (ha hm) (hb hm)
  | .scope mm kids, a, b, ha, hb => by
    rw [KeysDefinedObj] at ha hb ⊢
    rw [srcStep_append_itl]
    exact keysDefinedTree_append_itl e kids _ _ ha hb
theorem keysDefinedTree_append_itl (e : Envs) : ∀ (l : List Obj) (a b : List Obj),
    KeysDefinedTree e l a → KeysDefinedTree e l b → KeysDefinedTree e l (a ++ b)
  | [], a, b, _, _ => by rw [KeysDefinedTree]; trivial
  | mo :: rest, a, b, ha, hb => by
    rw [KeysDefinedTree] at ha hb ⊢
    exact ⟨keysDefinedObj_append_itl e mo a b ha.1 hb.1, keysDefinedTree_append_itl e rest a b ha.2 hb.2⟩
end

mutual
theorem noClashObj_append_itl : ∀ (mo : Obj) (a b : List Obj),
    noClashObj mo (a ++ b) = (noClashObj mo a && noClashObj mo b)
  | .defn mm mws, a, b => by
    rw [noClashObj, noClashObj, noClashObj, scopesNamed_append_itl]
    cases scopesNamed mm.name a <;> cases scopesNamed mm.name b <;> rfl
  | .scope mm kids, a, b => by
    rw [noClashObj, noClashObj, noClashObj, defsNamed_append_itl, srcStep_append_itl,
      noClash_append_itl kids]
    cases defsNamed mm.name a <;> cases defsNamed mm.name b <;>
      simp [Bool.and_comm]
theorem noClash_append_itl : ∀ (l : List Obj) (a b : List Obj),
    noClash l (a ++ b) = (noClash l a && noClash l b)
  | [], a, b => by rw [noClash, noClash, noClash]; rfl
  | mo :: rest, a, b => by
    rw [noClash, noClash, noClash, noClashObj_append_itl mo a b, noClash_append_itl rest a b]
    cases noClashObj mo a <;> cases noClashObj mo b <;> cases noClash rest a <;> cases noClash rest b <;> rfl
end

/-! ## 2. contexts, good sources, reached working sets -/

/-- the contexts covered: the master is a `TreeMultiMaster` (enabled, non-multiple scopes to any depth
    ≤ 1000; definitions of any type, `.multiple` or not; sibling names distinct, dot-free), fit for
    re-fetching, no definition called `include` (`masterCheck_tm` is the executable test) -/
structure TreeCtx (c : IndexCtx) : Prop where
  ok : MasterOK_tm c.master

/-- source trees the closed form applies to: enabled definitions resolve, enabled scopes are named,
    resolved words are `$`-free — at every depth -/
structure GoodTreeSrc (D : List Obj) : Prop where
  tree : SrcTree D
  noDollar : SrcNoDollar D

theorem GoodTreeSrc.append_itl {a b : List Obj} (ha : GoodTreeSrc a) (hb : GoodTreeSrc b) :
    GoodTreeSrc (a ++ b) :=
  ⟨srcTree_append_itl ha.tree hb.tree, srcNoDollar_append_itl ha.noDollar hb.noDollar⟩

theorem not_activeIn_nil_itl {x : Obj} (h : ActiveIn x []) : False := by
  cases h with
  | here hm _ => cases hm
  | deeper hm _ _ => cases hm

theorem GoodTreeSrc.nil_itl : GoodTreeSrc [] :=
  ⟨⟨fun x hx _ => (not_activeIn_nil_itl hx).elim, fun m k hx => (not_activeIn_nil_itl hx).elim⟩,
   fun x hx _ => (not_activeIn_nil_itl hx).elim⟩

/-- **the invariant**: the working set is the closed-form result of fetching the master against some
    good source tree `D` (keys defined, no clash of kinds) -/
def ReachedT (c : IndexCtx) (w : List Obj) : Prop :=
  ∃ D, GoodTreeSrc D ∧ KeysDefinedTree c.envs c.master D ∧ noClash c.master D = true ∧
    w = treeMultiResult c.envs c.master D

/-- the fetch of one good source tree, in closed form -/
theorem fetchRoot_good_itl {c : IndexCtx} (hc : TreeCtx c) {D : List Obj} (hD : GoodTreeSrc D)
    (hk : KeysDefinedTree c.envs c.master D) :
    fetchRoot c.envs false c.master [D] =
      if noClash c.master D then
        .ok (.scope { name := [], id := some 0 } (treeMultiResult c.envs c.master D),
             treeMultiUsed c.master D)
      else .error incompatibleErr := by
  have h := fetchRoot_tree_multi c.envs c.master [D] hc.ok.tree hc.ok.depth
    (by rw [flatten_one_ick]; exact hD.tree) (by rw [flatten_one_ick]; exact hk)
  rw [flatten_one_ick] at h
  exact h

/-- a reached working set is the result of an actual fetch, and conversely -/
theorem reachedT_iff_fetch_itl {c : IndexCtx} (hc : TreeCtx c) (w : List Obj) :
    ReachedT c w ↔ ∃ D u, GoodTreeSrc D ∧ KeysDefinedTree c.envs c.master D ∧
      fetchRoot c.envs false c.master [D] = .ok (rootOf w, u) := by
  constructor
  · rintro ⟨D, hD, hk, hn, rfl⟩
    refine ⟨D, treeMultiUsed c.master D, hD, hk, ?_⟩
    rw [fetchRoot_good_itl hc hD hk, hn]
    rfl
  · rintro ⟨D, u, hD, hk, hf⟩
    rw [fetchRoot_good_itl hc hD hk] at hf
    cases hn : noClash c.master D with
    | false => rw [hn] at hf; cases hf
    | true =>
      rw [hn] at hf
      simp only [if_true] at hf
      injection hf with hf
      injection hf with h1 h2
      unfold rootOf at h1
      injection h1 with h3 h4
      exact ⟨D, hD, hk, hn, h4.symm⟩

/-- members of a block of a definition carry the master definition's variable record -/
theorem tmBlock_varRes_itl (e : Envs) (mm : Meta) (mws : List Word) (srcs : List Obj) :
    ∀ o ∈ tmBlock e (.defn mm mws) srcs, o.meta.varRes = mm.varRes := by
  intro o ho
  rw [tmBlock] at ho
  split at ho
  · rcases mem_multiBlock_tm ho with ⟨t, rfl⟩ | ⟨d, _, rfl⟩
    · rfl
    · rfl
  · rw [List.mem_singleton] at ho
    subst ho
    exact lastWins_varRes _ _

/-- the resolved words of the definitions of a result are `$`-free -/
theorem srcNoDollar_treeMultiResult_itl (e : Envs) (mkids srcs : List Obj) (hf : TreeMultiMaster mkids)
    (hr : RefetchTree mkids) (hdol : SrcNoDollar srcs) : SrcNoDollar (treeMultiResult e mkids srcs) := by
  intro x hx hdef
  have hok := (srcTree_treeMultiResult_tm e mkids srcs hf hr hdol).ok x hx hdef
  obtain ⟨mo, S, ha, hS, hxb⟩ := activeIn_treeMultiResult_tm e hx mkids srcs rfl hf.kids
  have hmem := tmBlock_member_tm e mo S x hxb
  rw [hdef] at hmem
  have hr' := hr mo ha hmem.2.2.symm
  cases mo with
  | scope mm mk => cases hmem.2.2
  | defn mm mws =>
    have hv : x.meta.varRes = none := by
      rw [tmBlock_varRes_itl e mm mws S x hxb]; exact hr'.2.1
    rcases hok with ⟨rws, refs, h⟩ | ⟨_, h⟩
    · rw [hv] at h; cases h
    · rw [srcWords_of_varRes_none x hv]; exact h

/-- what a reached working set satisfies, taken as a source -/
theorem reachedT_good_itl {c : IndexCtx} (hc : TreeCtx c) {w : List Obj} (h : ReachedT c w) :
    GoodTreeSrc w ∧ KeysDefinedTree c.envs c.master w ∧ noClash c.master w = true ∧
      treeMultiResult c.envs c.master w = w := by
  obtain ⟨D, hD, hk, hn, rfl⟩ := h
  exact ⟨⟨srcTree_treeMultiResult_tm _ _ _ hc.ok.tree hc.ok.refetch hD.noDollar,
      srcNoDollar_treeMultiResult_itl _ _ _ hc.ok.tree hc.ok.refetch hD.noDollar⟩,
    keysDefined_treeMultiResult_tm _ _ _ hc.ok.tree hc.ok.refetch hk,
    noClash_treeMultiResult_tm _ _ _ hc.ok.tree,
    treeMultiResult_idem_tm _ _ _ hc.ok.tree hc.ok.refetch⟩

/-- a reached working set is reached from itself -/
theorem reachedT_self_itl {c : IndexCtx} (hc : TreeCtx c) {w : List Obj} (h : ReachedT c w) :
    ReachedT c (treeMultiResult c.envs c.master w) := by
  obtain ⟨hg, hk, hn, _⟩ := reachedT_good_itl hc h
  exact ⟨w, hg, hk, hn, rfl⟩

/-! ## 3. re-fetching a reached working set gives it back -/

/-- **`refetch` is the identity on reached working sets** (C07 for nested masters) -/
theorem refetch_exact_itl {c : IndexCtx} (hc : TreeCtx c) {w : List Obj} (h : ReachedT c w) :
    (concreteKernel c).refetch w = w := by
  obtain ⟨hg, hk, hn, hid⟩ := reachedT_good_itl hc h
  rw [refetch_eq_ick, fetchRoot_good_itl hc hg hk, hn]
  simp only [if_true]
  exact hid

/-- the initial working set `master.fetch()` is reached (when the master's own keys are defined) -/
theorem init_reachedT_itl {c : IndexCtx} (hc : TreeCtx c) (hk : KeysDefinedTree c.envs c.master [])
    {r : Obj} {u : List Nat} (h : fetchRoot c.envs false c.master [] = .ok (r, u)) :
    ReachedT c r.children := by
  have h' : fetchRoot c.envs false c.master [[]] = .ok (r, u) := by
    rw [fetchRoot_eq] at h ⊢; simpa using h
  rw [fetchRoot_good_itl hc GoodTreeSrc.nil_itl hk] at h'
  cases hn : noClash c.master [] with
  | false => rw [hn] at h'; cases h'
  | true =>
    rw [hn] at h'
    simp only [if_true] at h'
    injection h' with h'
    injection h' with h1 _
    rw [← h1]
    exact ⟨[], GoodTreeSrc.nil_itl, hk, hn, rfl⟩

/-! ## 4. `merge` of an edit that names no `.multiple` parameter -/

/-- the edits covered: whenever the text parses, it parses to a good source tree whose candidate keys
    are defined (the values given to `.multiple` definitions convert under their declared type) -/
def TreeEdit (c : IndexCtx) (text : Str) : Prop :=
  ∀ edit, parseObjs text = .ok edit → GoodTreeSrc edit ∧ KeysDefinedTree c.envs c.master edit

/-- the edit names no path the index recorded as `.multiple` (`redundant_paths` of `merge_phil` is
    empty: nothing is deleted before the merge) -/
def PlainEdit (c : IndexCtx) (text : Str) : Prop :=
  ∀ edit, parseObjs text = .ok edit → redundantOf c edit = []

theorem oldOf_plain_itl (c : IndexCtx) (edit w : List Obj) (h : redundantOf c edit = []) :
    oldOf c edit w = w := by
  unfold oldOf; rw [h]; rfl

/-- a successful merge of a plain edit into a reached working set, in closed form -/
theorem merge_some_itl {c : IndexCtx} (hc : TreeCtx c) {w : List Obj} (hw : ReachedT c w)
    {text : Str} {edit : List Obj} (hp : parseObjs text = .ok edit) (he : GoodTreeSrc edit)
    (hke : KeysDefinedTree c.envs c.master edit) (hpl : redundantOf c edit = [])
    {w' : List Obj} (h : (concreteKernel c).merge w text = some w') :
    (∃ r, fetchRoot c.envs false c.master [edit] = .ok r) ∧ noClash c.master (w ++ edit) = true ∧
      w' = treeMultiResult c.envs c.master (w ++ edit) := by
  obtain ⟨hg, hk, hn, hid⟩ := reachedT_good_itl hc hw
  rw [merge_eq_ick, hp] at h
  simp only at h
  cases hr : fetchRoot c.envs false c.master [edit] with
  | error err => rw [hr] at h; cases h
  | ok r0 =>
    rw [hr] at h
    simp only at h
    rw [oldOf_plain_itl c edit w hpl, fetchRoot_two_ick,
      fetchRoot_good_itl hc (hg.append_itl he) (keysDefinedTree_append_itl _ _ _ _ hk hke)] at h
    cases hnc : noClash c.master (w ++ edit) with
    | false => rw [hnc] at h; cases h
    | true =>
      rw [hnc] at h
      simp only [if_true, Option.some.injEq] at h
      exact ⟨⟨r0, rfl⟩, rfl, h.symm⟩

/-- conversely: when the edit alone fetches and there is no clash, the merge succeeds -/
theorem merge_of_noClash_itl {c : IndexCtx} (hc : TreeCtx c) {w : List Obj} (hw : ReachedT c w)
    {text : Str} {edit : List Obj} (hp : parseObjs text = .ok edit) (he : GoodTreeSrc edit)
    (hke : KeysDefinedTree c.envs c.master edit) (hpl : redundantOf c edit = [])
    {r : Obj × List Nat} (hr : fetchRoot c.envs false c.master [edit] = .ok r)
    (hnc : noClash c.master (w ++ edit) = true) :
    (concreteKernel c).merge w text = some (treeMultiResult c.envs c.master (w ++ edit)) := by
  obtain ⟨hg, hk, hn, hid⟩ := reachedT_good_itl hc hw
  rw [merge_eq_ick, hp]
  simp only
  rw [hr]
  simp only
  rw [oldOf_plain_itl c edit w hpl, fetchRoot_two_ick,
    fetchRoot_good_itl hc (hg.append_itl he) (keysDefinedTree_append_itl _ _ _ _ hk hke), hnc]
  rfl

/-- **every successful merge of a plain edit from a reached working set yields a reached one** -/
theorem merge_reachedT_itl {c : IndexCtx} (hc : TreeCtx c) {w : List Obj} (hw : ReachedT c w)
    {text : Str} (ht : TreeEdit c text) (hpl : PlainEdit c text) {w' : List Obj}
    (h : (concreteKernel c).merge w text = some w') : ReachedT c w' := by
  cases hp : parseObjs text with
  | error err => rw [merge_eq_ick, hp] at h; cases h
  | ok edit =>
    obtain ⟨he, hke⟩ := ht edit hp
    obtain ⟨hg, hk, hn, hid⟩ := reachedT_good_itl hc hw
    obtain ⟨_, hnc, rfl⟩ := merge_some_itl hc hw hp he hke (hpl edit hp) h
    exact ⟨w ++ edit, hg.append_itl he, keysDefinedTree_append_itl _ _ _ _ hk hke, hnc, rfl⟩

/-! ## 5. `ReachedT` is an invariant of histories -/

def StateReachedT (c : IndexCtx) (s : Index.State (List Obj) PVal) : Prop :=
  ReachedT c s.working ∧ ∀ w ∈ s.states, ReachedT c w

/-- histories covered by the invariant: no `update_from_python` (`master.format(obj)` is in general not
    a fetch result, see `pop_not_exact_after_fromPython`), every string edit is a plain tree edit -/
def GoodOpsT (c : IndexCtx) : List (Index.Op PVal Str) → Prop
  | [] => True
  | .update e :: ops => (TreeEdit c e ∧ PlainEdit c e) ∧ GoodOpsT c ops
  | .updateFromPython _ :: _ => False
  | .push :: ops => GoodOpsT c ops
  | .pop :: ops => GoodOpsT c ops
  | .setState _ :: ops => GoodOpsT c ops
  | .getPython :: ops => GoodOpsT c ops

theorem step_reachedT_itl {c : IndexCtx} (hc : TreeCtx c) {s : Index.State (List Obj) PVal}
    (hs : StateReachedT c s) (op : Index.Op PVal Str) (hg : GoodOpsT c [op]) :
    StateReachedT c (Index.step (concreteKernel c) s op).1 := by
  cases op with
  | update e =>
    cases hm : (concreteKernel c).merge s.working e with
    | none => rw [Index.update_refused hm]; exact hs
    | some w' =>
      rw [Index.update_accepted hm]
      exact ⟨merge_reachedT_itl hc hs.1 hg.1.1 hg.1.2 hm, hs.2⟩
  | updateFromPython p => exact absurd hg (by simp [GoodOpsT])
  | push =>
    refine ⟨hs.1, ?_⟩
    intro w hw
    have : w ∈ s.states ++ [(concreteKernel c).refetch s.working] := hw
    rw [refetch_exact_itl hc hs.1, List.mem_append, List.mem_singleton] at this
    rcases this with h | h
    · exact hs.2 w h
    · rw [h]; exact hs.1
  | pop =>
    cases hrev : s.states.reverse with
    | nil =>
      have : s.states = [] := by simpa using hrev
      rw [Index.step_pop_empty _ s this]; exact hs
    | cons w rest =>
      have hst : s.states = rest.reverse ++ [w] := by
        have := congrArg List.reverse hrev; simpa using this
      rw [Index.step_pop_snoc _ s rest.reverse w hst]
      refine ⟨hs.2 w (by rw [hst]; simp), ?_⟩
      intro w' hw'
      exact hs.2 w' (by rw [hst]; exact List.mem_append_left _ hw')
  | setState i =>
    cases hi : s.states[i]? with
    | none => rw [Index.step_setState_none _ s i hi]; exact hs
    | some w =>
      rw [Index.step_setState_some _ s i w hi]
      have hw : ReachedT c w := hs.2 w (List.mem_of_getElem? hi)
      exact ⟨by rw [refetch_exact_itl hc hw]; exact hw, hs.2⟩
  | getPython =>
    unfold StateReachedT
    rw [Index.getPython_working, Index.getPython_states]
    exact hs

theorem goodOpsT_cons_itl {c : IndexCtx} {op : Index.Op PVal Str} {ops : List (Index.Op PVal Str)}
    (h : GoodOpsT c (op :: ops)) : GoodOpsT c [op] ∧ GoodOpsT c ops := by
  cases op with
  | update e => exact ⟨⟨h.1, trivial⟩, h.2⟩
  | updateFromPython p => exact absurd h (by simp [GoodOpsT])
  | push => exact ⟨trivial, h⟩
  | pop => exact ⟨trivial, h⟩
  | setState i => exact ⟨trivial, h⟩
  | getPython => exact ⟨trivial, h⟩

/-- **the invariant over histories** -/
theorem run_reachedT_itl {c : IndexCtx} (hc : TreeCtx c) :
    ∀ (ops : List (Index.Op PVal Str)) (s : Index.State (List Obj) PVal),
      GoodOpsT c ops → StateReachedT c s → StateReachedT c (Index.run (concreteKernel c) s ops)
  | [], s, _, hs => hs
  | op :: ops, s, hg, hs => by
    rw [Index.run_cons]
    obtain ⟨h1, h2⟩ := goodOpsT_cons_itl hg
    exact run_reachedT_itl hc ops _ h2 (step_reachedT_itl hc hs op h1)

theorem init_stateReachedT_itl {c : IndexCtx} {w : List Obj} (h : ReachedT c w) :
    StateReachedT c (Index.init (concreteKernel c) w) :=
  ⟨h, fun _ hw => by cases hw⟩

/-! ## 6. the same edit twice -/

mutual
/-- the sources `A` hold no enabled definition at the path of a `.multiple` master definition -/
def noMultiObj : Obj → List Obj → Bool
  | .defn mm mws, A => !isMultiple (.defn mm mws) || (defsNamed mm.name A).isEmpty
  | .scope mm kids, A => noMulti kids (srcStep A mm.name)
def noMulti : List Obj → List Obj → Bool
  | [], _ => true
  | mo :: rest, A => noMultiObj mo A && noMulti rest A
end

theorem noMulti_mem_itl : ∀ (l : List Obj) (A : List Obj), noMulti l A = true →
    ∀ mo ∈ l, noMultiObj mo A = true
  | [], _, _, mo, hmo => by cases hmo
  | a :: rest, A, h, mo, hmo => by
    rw [noMulti, Bool.and_eq_true] at h
    rw [List.mem_cons] at hmo
    rcases hmo with rfl | hmo
    · exact h.1
    · exact noMulti_mem_itl rest A h.2 mo hmo

theorem refetchTree_of_mem_itl {l : List Obj} (h : RefetchTree l) {mo : Obj} (hmo : mo ∈ l) :
    RefetchTree [mo] :=
  fun d hd hdef =>
    h d (hd.mono (by intro y hy; rw [List.mem_singleton] at hy; subst hy; exact hmo)) hdef

/-- the block of a master definition absorbs a repeated plain edit -/
theorem tmBlock_defn_absorb_itl (e : Envs) (l S A : List Obj) (hf : TreeMultiMaster l) (hr : RefetchTree l)
    (mm : Meta) (mws : List Word) (hmo : Obj.defn mm mws ∈ l)
    (hnm' : noMultiObj (.defn mm mws) A = true) :
    tmBlock e (.defn mm mws) (treeMultiResult e l (S ++ A) ++ A) = tmBlock e (.defn mm mws) (S ++ A) := by
  have hto := hf.obj _ hmo
  rw [TMObj] at hto
  have hr' := hr (.defn mm mws) (.here hmo hto.2.2.2) rfl
  have hdn : defsNamed mm.name (treeMultiResult e l (S ++ A) ++ A) =
      tmBlock e (.defn mm mws) (S ++ A) ++ defsNamed mm.name A := by
    rw [defsNamed_append_itl, defsNamed_treeMultiResult_tm e l (S ++ A) hf mm mws hmo]
  rw [noMultiObj] at hnm'
  cases hmult : isMultiple (.defn mm mws) with
  | false =>
    rw [tmBlock] at hdn
    rw [tmBlock, tmBlock]
    simp only [hmult, Bool.false_eq_true, if_false] at hdn ⊢
    rw [hdn, defsNamed_append_itl]
    have := lastWins_absorb_ick mm mws hr'.1 hr'.2.1 (defsNamed mm.name S) (defsNamed mm.name A)
    rw [this]
  | true =>
    have hA : defsNamed mm.name A = [] := by
      rw [hmult] at hnm'
      simpa using hnm'
    rw [hA, List.append_nil] at hdn
    rw [tmBlock] at hdn
    rw [tmBlock, tmBlock]
    simp only [hmult, if_true] at hdn ⊢
    rw [hdn]
    exact multiBlock_refetch e 0 mm mws _ hr'.1 hr'.2.1

/-- **absorption law of the closed form**: the result of `S ++ A`, merged with `A` once more, is
    reproduced — stated for `A` that give no value to a `.multiple` definition (an edit that does
    makes `merge_phil` delete the old instances first; that path is outside this lemma). -/
theorem treeMultiResult_absorb_itl (e : Envs) : ∀ (n : Nat) (l S A : List Obj), depthL l ≤ n →
    TreeMultiMaster l → RefetchTree l → noMulti l A = true →
    treeMultiResult e l (treeMultiResult e l (S ++ A) ++ A) = treeMultiResult e l (S ++ A) := by
  intro n
  induction n with
  | zero =>
    intro l S A hd hf hr hnm
    have hblocks : ∀ mo ∈ l, tmBlock e mo (treeMultiResult e l (S ++ A) ++ A) = tmBlock e mo (S ++ A) := by
      intro mo hmo
      have hdm := depthT_le_depthL l mo hmo
      cases mo with
      | scope mm kids => rw [depthT] at hdm; omega
      | defn mm mws =>
        exact tmBlock_defn_absorb_itl e l S A hf hr mm mws hmo (noMulti_mem_itl l A hnm _ hmo)
    calc treeMultiResult e l (treeMultiResult e l (S ++ A) ++ A)
        = l.flatMap (fun mo => tmBlock e mo (treeMultiResult e l (S ++ A) ++ A)) :=
          treeMultiResult_eq_flatMap e _ l
      _ = l.flatMap (fun mo => tmBlock e mo (S ++ A)) := flatMap_congr_mem _ _ l hblocks
      _ = treeMultiResult e l (S ++ A) := (treeMultiResult_eq_flatMap e _ l).symm
  | succ n ih =>
    intro l S A hd hf hr hnm
    have hblocks : ∀ mo ∈ l, tmBlock e mo (treeMultiResult e l (S ++ A) ++ A) = tmBlock e mo (S ++ A) := by
      intro mo hmo
      have hto := hf.obj mo hmo
      have hdm := depthT_le_depthL l mo hmo
      have hnm' := noMulti_mem_itl l A hnm _ hmo
      cases mo with
      | scope mm kids =>
        rw [depthT] at hdm
        have hkf := TreeMultiMaster.of_scope hto
        rw [TMObj] at hto
        rw [noMultiObj] at hnm'
        have hstep : srcStep (treeMultiResult e l (S ++ A) ++ A) mm.name =
            treeMultiResult e kids (srcStep S mm.name ++ srcStep A mm.name) ++ srcStep A mm.name := by
          rw [srcStep_append_itl, srcStep_treeMultiResult_tm e l (S ++ A) hf mm kids hmo, srcStep_append_itl]
        rw [tmBlock, tmBlock, hstep, srcStep_append_itl,
          ih kids (srcStep S mm.name) (srcStep A mm.name) (by omega) hkf
            ((refetchTree_of_mem_itl hr hmo).kids hto.2.2.2.1) hnm']
      | defn mm mws => exact tmBlock_defn_absorb_itl e l S A hf hr mm mws hmo hnm'
    calc treeMultiResult e l (treeMultiResult e l (S ++ A) ++ A)
        = l.flatMap (fun mo => tmBlock e mo (treeMultiResult e l (S ++ A) ++ A)) :=
          treeMultiResult_eq_flatMap e _ l
      _ = l.flatMap (fun mo => tmBlock e mo (S ++ A)) := flatMap_congr_mem _ _ l hblocks
      _ = treeMultiResult e l (S ++ A) := (treeMultiResult_eq_flatMap e _ l).symm

/-- the edit gives no value to a `.multiple` definition of the master (at any depth) -/
def NoMultiEdit (c : IndexCtx) (text : Str) : Prop :=
  ∀ edit, parseObjs text = .ok edit → noMulti c.master edit = true

/-- **the kernel law on reached working sets**: merging the same plain edit into its own result
    changes nothing -/
theorem merge_idem_itl {c : IndexCtx} (hc : TreeCtx c) {w : List Obj} (hw : ReachedT c w)
    {text : Str} (ht : TreeEdit c text) (hpl : PlainEdit c text) (hnm : NoMultiEdit c text)
    {w' : List Obj} (h : (concreteKernel c).merge w text = some w') :
    (concreteKernel c).merge w' text = some w' := by
  cases hp : parseObjs text with
  | error err => rw [merge_eq_ick, hp] at h; cases h
  | ok edit =>
    obtain ⟨he, hke⟩ := ht edit hp
    have hw' := merge_reachedT_itl hc hw ht hpl h
    obtain ⟨⟨r0, hr0⟩, hnc, rfl⟩ := merge_some_itl hc hw hp he hke (hpl edit hp) h
    have hnc2 : noClash c.master (treeMultiResult c.envs c.master (w ++ edit) ++ edit) = true := by
      rw [noClash_append_itl] at hnc ⊢
      rw [Bool.and_eq_true] at hnc
      rw [noClash_treeMultiResult_tm _ _ _ hc.ok.tree, hnc.2]
      rfl
    rw [merge_of_noClash_itl hc hw' hp he hke (hpl edit hp) hr0 hnc2,
      treeMultiResult_absorb_itl c.envs _ c.master w edit (Nat.le_refl _) hc.ok.tree hc.ok.refetch
        (hnm edit hp)]

end Phil
