/-
  Phil.Proofs.FetchTree — closed form of scope.fetch for NESTED masters without `.multiple`
  (`TreeMaster`): trees of enabled plain definitions and enabled, non-multiple scopes with dot-free,
  non-empty, pairwise distinct sibling names; sources are arbitrary trees of definitions and named
  scopes, enabled or disabled.
    1. specification functions `srcStep`/`srcAt`, `lastDef`, `treeResult`, `treeUsed`, `noClash`,
       `defPaths`;
    2. `fetch_tree_total`: `fetchScope` equals the specification (or the clash error);
    3. corollaries for C04 (shape), C05 (last value wins at depth), C06 (consumed / unused, exactly),
       C07 (idempotence).
  Builds on Phil/Proofs/FetchLemmas.lean and Phil/Proofs/FetchSpec.lean.
-/
import Phil.Proofs.FetchSpec
set_option linter.unusedVariables false
namespace Phil

/-! ## 1. specification functions -/

/-- the enabled definitions of `l` called `n` -/
def defsNamed (n : Str) (l : List Obj) : List Obj :=
  l.filter (fun o => o.isDefn && !o.meta.disabled && o.name == n)

/-- the enabled scopes of `l` called `n` -/
def scopesNamed (n : Str) (l : List Obj) : List Obj :=
  l.filter (fun o => o.isScope && !o.meta.disabled && o.name == n)

/-- the last enabled definition called `n` among `objs` -/
def lastDef (objs : List Obj) (n : Str) : Option Obj := (defsNamed n objs).getLast?

/-- one step down: the children of all enabled scopes called `n`, in document order -/
def srcStep (objs : List Obj) (n : Str) : List Obj := (scopesNamed n objs).flatMap Obj.children

/-- the active source objects reached by following a path of scope names -/
def srcAt : List Obj → List Str → List Obj
  | objs, [] => objs
  | objs, n :: p => srcAt (srcStep objs n) p

mutual
/-- the result object for one master object, given the source objects at its level -/
def treeObj : Obj → List Obj → Obj
  | .defn mm mws, srcs =>
    match lastDef srcs mm.name with
    | some d => .defn { mm with tmpl := 0 } d.srcWords
    | none => .defn mm mws
  | .scope mm kids, srcs => .scope { mm with tmpl := 0 } (treeResult kids (srcStep srcs mm.name))
/-- the children of the result scope: one object per master child -/
def treeResult : List Obj → List Obj → List Obj
  | [], _ => []
  | mo :: rest, srcs => treeObj mo srcs :: treeResult rest srcs
end

mutual
def treeUsedObj : Obj → List Obj → List Nat
  | .defn mm _, srcs => (defsNamed mm.name srcs).flatMap marksOf
  | .scope mm kids, srcs => treeUsed kids (srcStep srcs mm.name)
/-- the ids consumed by the fetch: those of all enabled source definitions whose path names a master
    definition (with the ids consulted for their variables), in master order -/
def treeUsed : List Obj → List Obj → List Nat
  | [], _ => []
  | mo :: rest, srcs => treeUsedObj mo srcs ++ treeUsed rest srcs
end

mutual
def noClashObj : Obj → List Obj → Bool
  | .defn mm _, srcs => (scopesNamed mm.name srcs).isEmpty
  | .scope mm kids, srcs => (defsNamed mm.name srcs).isEmpty && noClash kids (srcStep srcs mm.name)
/-- no enabled source scope where the master has a definition, no enabled source definition where
    the master has a scope — at every depth -/
def noClash : List Obj → List Obj → Bool
  | [], _ => true
  | mo :: rest, srcs => noClashObj mo srcs && noClash rest srcs
end

mutual
def defPathsObj : Obj → Str → List Str
  | .defn mm _, p => [p ++ mm.name]
  | .scope mm kids, p => defPaths kids (p ++ mm.name ++ ['.'])
/-- the full (dotted) paths of the definitions of a master tree, below the prefix `p` -/
def defPaths : List Obj → Str → List Str
  | [], _ => []
  | o :: os, p => defPathsObj o p ++ defPaths os p
end

mutual
def depthT : Obj → Nat
  | .defn _ _ => 0
  | .scope _ kids => depthL kids + 1
/-- nesting depth of a list of master objects (0 for definitions only) -/
def depthL : List Obj → Nat
  | [] => 0
  | o :: os => Nat.max (depthT o) (depthL os)
end

mutual
def TreeObj : Obj → Prop
  | .defn mm _ => PlainMeta mm ∧ mm.name ≠ [] ∧ '.' ∉ mm.name ∧ mm.disabled = false
  | .scope mm kids =>
    (mm.attrs.get "multiple").truthy = false ∧ mm.name ≠ [] ∧ '.' ∉ mm.name ∧ mm.disabled = false ∧
      TreeKids kids ∧ (kids.map Obj.name).Pairwise (· ≠ ·)
def TreeKids : List Obj → Prop
  | [] => True
  | o :: os => TreeObj o ∧ TreeKids os
end

/-- a master tree without `.multiple`: enabled plain definitions (not `.multiple`, not `.deprecated`,
    not choices; typed or not) and enabled non-multiple scopes of such objects to any depth, names
    non-empty and dot-free, sibling names pairwise distinct -/
structure TreeMaster (mkids : List Obj) : Prop where
  kids : TreeKids mkids
  distinct : (mkids.map Obj.name).Pairwise (· ≠ ·)

/-! ## 2. list forms of the mutual definitions -/

theorem treeResult_eq_map (srcs : List Obj) : ∀ (mkids : List Obj),
    treeResult mkids srcs = mkids.map (fun mo => treeObj mo srcs)
  | [] => by rw [treeResult]; rfl
  | mo :: rest => by rw [treeResult, treeResult_eq_map srcs rest]; rfl

theorem treeUsed_eq_flatMap (srcs : List Obj) : ∀ (mkids : List Obj),
    treeUsed mkids srcs = mkids.flatMap (fun mo => treeUsedObj mo srcs)
  | [] => by rw [treeUsed]; rfl
  | mo :: rest => by rw [treeUsed, treeUsed_eq_flatMap srcs rest]; rfl

theorem noClash_eq_all (srcs : List Obj) : ∀ (mkids : List Obj),
    noClash mkids srcs = mkids.all (fun mo => noClashObj mo srcs)
  | [] => by rw [noClash]; rfl
  | mo :: rest => by rw [noClash, noClash_eq_all srcs rest]; rfl

theorem defPaths_eq_flatMap (p : Str) : ∀ (mkids : List Obj),
    defPaths mkids p = mkids.flatMap (fun mo => defPathsObj mo p)
  | [] => by rw [defPaths]; rfl
  | mo :: rest => by rw [defPaths, defPaths_eq_flatMap p rest]; rfl

theorem treeKids_iff : ∀ (l : List Obj), TreeKids l ↔ ∀ o ∈ l, TreeObj o
  | [] => by rw [TreeKids]; simp
  | o :: os => by rw [TreeKids, treeKids_iff os]; simp

theorem depthT_le_depthL : ∀ (l : List Obj) (o : Obj), o ∈ l → depthT o ≤ depthL l
  | [], o, h => by cases h
  | a :: os, o, h => by
    rw [depthL]
    rw [List.mem_cons] at h
    rcases h with rfl | h
    · exact Nat.le_max_left _ _
    · exact Nat.le_trans (depthT_le_depthL os o h) (Nat.le_max_right _ _)

theorem TreeMaster.of_scope {mm : Meta} {kids : List Obj} (h : TreeObj (.scope mm kids)) :
    TreeMaster kids := by
  rw [TreeObj] at h
  exact ⟨h.2.2.2.2.1, h.2.2.2.2.2⟩

theorem TreeMaster.obj {mkids : List Obj} (h : TreeMaster mkids) : ∀ o ∈ mkids, TreeObj o :=
  (treeKids_iff mkids).mp h.kids

theorem TreeObj.enabled : ∀ {o : Obj}, TreeObj o → o.meta.disabled = false
  | .defn mm _, h => by rw [TreeObj] at h; exact h.2.2.2
  | .scope mm _, h => by rw [TreeObj] at h; exact h.2.2.2.1

theorem TreeObj.name_ne : ∀ {o : Obj}, TreeObj o → o.name ≠ []
  | .defn mm _, h => by rw [TreeObj] at h; exact h.2.1
  | .scope mm _, h => by rw [TreeObj] at h; exact h.2.1

theorem TreeObj.dotfree : ∀ {o : Obj}, TreeObj o → '.' ∉ o.name
  | .defn mm _, h => by rw [TreeObj] at h; exact h.2.2.1
  | .scope mm _, h => by rw [TreeObj] at h; exact h.2.2.1

theorem TreeObj.notMultiple : ∀ {o : Obj}, TreeObj o → isMultiple o = false
  | .defn mm _, h => by rw [TreeObj] at h; exact h.1.notMultiple
  | .scope mm _, h => by rw [TreeObj] at h; exact h.1

/-! ## 3. the sources matching one master child -/

theorem startsWith_self_dot_tree (a b : Str) : startsWith (a ++ ['.']) (a ++ '.' :: b) = true := by
  unfold startsWith
  have : a ++ '.' :: b = (a ++ ['.']) ++ b := by simp
  rw [this, List.take_left]
  simp

theorem drop_self_dot_tree (a b : Str) : (a ++ '.' :: b).drop (a.length + 1) = b := by
  have : a ++ '.' :: b = (a ++ ['.']) ++ b := by simp
  rw [this]
  have h2 : a.length + 1 = (a ++ ['.']).length := by simp
  rw [h2, List.drop_left]

theorem activeNamed_filter_enabled_tree (p : Str) (l : List Obj) :
    activeNamed p (l.filter (fun k => !k.meta.disabled)) = activeNamed p l := by
  unfold activeNamed
  rw [List.filter_filter]
  apply List.filter_congr
  intro o _
  cases o.meta.disabled <;> simp

/-- lookup of a dot-free name among sources whose ENABLED scopes are named -/
theorem flatMap_getWithoutSubst_tree (n : Nat) (p : Str) (hp : '.' ∉ p) (l : List Obj)
    (hl : ∀ m kids, Obj.scope m kids ∈ l → m.disabled = false → m.name ≠ []) :
    (l.filter (fun k => !k.meta.disabled)).flatMap (fun k => getWithoutSubst (n + 1) k p) =
      activeNamed p l := by
  have h := flatMap_getWithoutSubst_named n p hp (l.filter (fun k => !k.meta.disabled)) (by
    intro m kids hm
    rw [List.mem_filter] at hm
    exact hl m kids hm.1 (by simpa [Obj.meta] using hm.2))
  rw [List.filter_filter] at h
  simp only [Bool.and_self] at h
  rw [h, activeNamed_filter_enabled_tree]

/-- the sources matching a master child with a dot-free name, below a master scope of any name
    (empty at the root): the enabled source objects of that name at this level -/
theorem fetchMatching_tree (fuel : Nat) (sm : Meta) (combined : List Obj) (mo : Obj)
    (hsd : sm.disabled = false) (hname : mo.name ≠ []) (hdot : '.' ∉ mo.name)
    (hsc : ∀ m kids, Obj.scope m kids ∈ combined → m.disabled = false → m.name ≠ []) :
    fetchMatching fuel sm combined mo = activeNamed mo.name combined := by
  have hne : mo.name.isEmpty = false := by
    cases h : mo.name with
    | nil => exact absurd h hname
    | cons => rfl
  have hfin : ∀ l : List Obj, l = activeNamed mo.name combined →
      l.filter (fun (o : Obj) => !o.meta.disabled) = activeNamed mo.name combined := by
    intro l hl
    subst hl
    unfold activeNamed
    rw [List.filter_filter]
    congr 1
    funext d
    cases d.meta.disabled <;> simp
  unfold fetchMatching fetchPath
  rw [show fuel + 64 = (fuel + 63) + 1 from rfl, getWithoutSubst_scope]
  cases hsn : sm.name with
  | nil =>
    simp only [hsd, List.isEmpty_nil, if_true, hne, Bool.false_eq_true, if_false]
    exact hfin _ (flatMap_getWithoutSubst_tree _ _ hdot _ hsc)
  | cons c cs =>
    have h1 : ((c :: cs) == (c :: cs) ++ '.' :: mo.name) = false := str_ne_append_cons _ _ _
    simp only [hsd, List.isEmpty_cons, Bool.false_eq_true, if_false, h1,
      startsWith_self_dot_tree, if_true, drop_self_dot_tree]
    exact hfin _ (flatMap_getWithoutSubst_tree _ _ hdot _ hsc)

theorem masterActive_tree (mkids : List Obj) (hf : TreeMaster mkids) :
    masterActiveObjects mkids = .ok (indexed mkids) := by
  have hsnd := indexed_map_snd mkids
  show masterActiveObjects.go (indexed mkids) [] [] = _
  rw [masterActive_go_all (indexed mkids) [] []]
  · simp
  · intro p hp
    have : p.2 ∈ mkids := by rw [← hsnd]; exact List.mem_map.mpr ⟨p, hp, rfl⟩
    exact (hf.obj _ this).enabled
  · rw [map_snd_comp Obj.name, hsnd]; exact hf.distinct
  · intro p _ q hq; cases hq

/-! ## 4. one step of the master loop -/

theorem mem_defsNamed {n : Str} {l : List Obj} {d : Obj} :
    d ∈ defsNamed n l ↔ d ∈ l ∧ d.isDefn = true ∧ d.meta.disabled = false ∧ d.name = n := by
  unfold defsNamed
  rw [List.mem_filter]
  simp [and_assoc]

theorem mem_scopesNamed {n : Str} {l : List Obj} {d : Obj} :
    d ∈ scopesNamed n l ↔ d ∈ l ∧ d.isDefn = false ∧ d.meta.disabled = false ∧ d.name = n := by
  unfold scopesNamed Obj.isScope
  rw [List.mem_filter]
  simp [and_assoc]

/-- no enabled scope of that name: the enabled objects of that name are the definitions -/
theorem activeNamed_eq_defsNamed (n : Str) (l : List Obj) (h : scopesNamed n l = []) :
    activeNamed n l = defsNamed n l := by
  unfold activeNamed defsNamed
  apply List.filter_congr
  intro o ho
  cases hdef : o.isDefn with
  | true => simp
  | false =>
    have : o ∉ scopesNamed n l := by rw [h]; exact List.not_mem_nil
    rw [mem_scopesNamed] at this
    simp only [Bool.false_and]
    cases hd : o.meta.disabled with
    | true => simp
    | false =>
      have hne : o.name ≠ n := fun hn => this ⟨ho, hdef, hd, hn⟩
      simp [hne]

/-- the children of the enabled objects of a name are the children of the enabled scopes -/
theorem activeNamed_children_tree (n : Str) : ∀ (l : List Obj),
    (activeNamed n l).flatMap Obj.children = srcStep l n := by
  intro l
  unfold srcStep activeNamed scopesNamed
  induction l with
  | nil => rfl
  | cons o os ih =>
    rw [List.filter_cons, List.filter_cons]
    cases o with
    | defn m ws =>
      have h1 : (Obj.defn m ws).isScope = false := rfl
      simp only [h1, Bool.false_and, Bool.false_eq_true, if_false]
      split
      · rw [List.flatMap_cons, ih]; rfl
      · exact ih
    | scope m kids =>
      have h1 : (Obj.scope m kids).isScope = true := rfl
      simp only [h1, Bool.true_and]
      split
      · rw [List.flatMap_cons, List.flatMap_cons, ih]
      · exact ih

theorem find_isDefn_activeNamed_none (n : Str) (l : List Obj) (h : defsNamed n l = []) :
    (activeNamed n l).find? (·.isDefn) = none := by
  rw [List.find?_eq_none]
  intro x hx hdef
  have hx' := mem_activeNamed.mp hx
  have : x ∈ defsNamed n l := mem_defsNamed.mpr ⟨hx'.1, hdef, hx'.2.1, hx'.2.2⟩
  rw [h] at this
  cases this

theorem find_isDefn_activeNamed_some (n : Str) (l : List Obj) (h : defsNamed n l ≠ []) :
    ∃ d, (activeNamed n l).find? (·.isDefn) = some d := by
  cases hl : defsNamed n l with
  | nil => exact absurd hl h
  | cons d rest =>
    have hd : d ∈ defsNamed n l := by rw [hl]; exact List.mem_cons_self
    have hd' := mem_defsNamed.mp hd
    cases hf : (activeNamed n l).find? (·.isDefn) with
    | some x => exact ⟨x, rfl⟩
    | none =>
      rw [List.find?_eq_none] at hf
      exact absurd hd'.2.1 (hf d (mem_activeNamed.mpr ⟨hd'.1, hd'.2.2.1, hd'.2.2.2⟩))

/-- the step of the master loop for a plain master definition, sources of any kind at this level -/
theorem stepG_defn_tree (F : FetchFn) (e : Envs) (fuel : Nat) (sm : Meta)
    (mkids combined : List Obj) (st : List Obj × List Nat) (idx : Nat) (mm : Meta) (mws : List Word)
    (hp : PlainMeta mm)
    (hmatch : fetchMatching fuel sm combined (.defn mm mws) = activeNamed mm.name combined)
    (hsrc : ∀ o ∈ combined, o.meta.disabled = false → o.isDefn = true → SrcOK o) :
    stepG F e fuel false sm mkids combined st (idx, .defn mm mws) =
      if noClashObj (.defn mm mws) combined then
        .ok (st.1 ++ [treeObj (.defn mm mws) combined], st.2 ++ treeUsedObj (.defn mm mws) combined)
      else .error incompatibleErr := by
  have hmult : isMultiple (.defn mm mws) = false := hp.notMultiple
  have hstep : stepG F e fuel false sm mkids combined st (idx, .defn mm mws) =
      defnFinish false (.defn mm mws) mm st.1
        ((activeNamed mm.name combined).foldlM (defnOne e fuel false (.defn mm mws)) (none, st.2)) := by
    unfold stepG
    simp only [hmult, Bool.not_false, if_true]
    rw [hmatch]
  rw [hstep, noClashObj, treeObj, treeUsedObj]
  cases hsc : scopesNamed mm.name combined with
  | nil =>
    simp only [List.isEmpty_nil, if_true]
    rw [activeNamed_eq_defsNamed _ _ hsc]
    rw [defnOne_fold_plain e fuel mm mws hp _ _ _ (by
      intro o ho
      have h := mem_defsNamed.mp ho
      exact ⟨h.2.1, hsrc o h.1 h.2.2.1 h.2.1⟩)]
    unfold defnFinish lastVal lastDef
    cases (defsNamed mm.name combined).getLast? with
    | none => simp [hp.notDeprecated]
    | some d => rfl
  | cons sc rest =>
    simp only [List.isEmpty_cons, Bool.false_eq_true, if_false]
    have hmem : sc ∈ scopesNamed mm.name combined := by rw [hsc]; exact List.mem_cons_self
    have hs := mem_scopesNamed.mp hmem
    cases sc with
    | defn m ws => cases hs.2.1
    | scope m k =>
      rw [foldlM_error_of_mem (defnOne e fuel false (.defn mm mws)) incompatibleErr
          (activeNamed mm.name combined)
          (fun a ha b => defnOne_plain_ok_or_incompatible e fuel mm mws hp a
            (fun hd => hsrc a (mem_activeNamed.mp ha).1 (mem_activeNamed.mp ha).2.1 hd) b)
          ⟨.scope m k, mem_activeNamed.mpr ⟨hs.1, hs.2.2.1, hs.2.2.2⟩,
            fun b => defnOne_scope_incompatible e fuel mm mws m k b⟩]
      rfl

/-- the step of the master loop for a non-multiple master scope, given the value of the callee on
    the next level -/
theorem stepG_scope_tree (F : FetchFn) (e : Envs) (fuel : Nat) (sm : Meta)
    (mkids combined : List Obj) (st : List Obj × List Nat) (idx : Nat) (mm : Meta) (kids : List Obj)
    (hmult : (mm.attrs.get "multiple").truthy = false)
    (hmatch : fetchMatching fuel sm combined (.scope mm kids) = activeNamed mm.name combined)
    (hF : F false mm kids (srcStep combined mm.name) =
      if noClash kids (srcStep combined mm.name) then
        .ok (.scope { mm with tmpl := 0 } (treeResult kids (srcStep combined mm.name)),
             treeUsed kids (srcStep combined mm.name))
      else .error incompatibleErr) :
    stepG F e fuel false sm mkids combined st (idx, .scope mm kids) =
      if noClashObj (.scope mm kids) combined then
        .ok (st.1 ++ [treeObj (.scope mm kids) combined], st.2 ++ treeUsedObj (.scope mm kids) combined)
      else .error incompatibleErr := by
  have hm : isMultiple (.scope mm kids) = false := hmult
  have hstep : stepG F e fuel false sm mkids combined st (idx, .scope mm kids) =
      scopeBranch F false mm kids (activeNamed mm.name combined) st.1 st.2 := by
    unfold stepG
    simp only [hm, Bool.not_false, if_true]
    rw [hmatch]
  rw [hstep, noClashObj, treeObj, treeUsedObj]
  unfold scopeBranch
  cases hdn : defsNamed mm.name combined with
  | nil =>
    rw [find_isDefn_activeNamed_none _ _ hdn, activeNamed_children_tree, hF]
    simp only [List.isEmpty_nil, Bool.true_and]
    cases noClash kids (srcStep combined mm.name) with
    | true => simp
    | false => simp
  | cons d rest =>
    obtain ⟨x, hx⟩ := find_isDefn_activeNamed_some mm.name combined (by rw [hdn]; exact List.cons_ne_nil _ _)
    rw [hx]
    simp only [List.isEmpty_cons, Bool.false_and, Bool.false_eq_true, if_false]
    rfl

/-! ## 5. the whole fetch -/

/-- what the analysis needs of the sources, at every depth below enabled scopes: enabled
    definitions resolve (`SrcOK`), enabled scopes are named -/
structure SrcTree (srcs : List Obj) : Prop where
  ok : ∀ x, ActiveIn x srcs → x.isDefn = true → SrcOK x
  named : ∀ m kids, ActiveIn (.scope m kids) srcs → m.name ≠ []

theorem activeIn_srcStep {x : Obj} {l : List Obj} {n : Str} (h : ActiveIn x (srcStep l n)) :
    ActiveIn x l := by
  have key : ∀ y, y ∈ srcStep l n → ∃ m kids, Obj.scope m kids ∈ l ∧ m.disabled = false ∧ y ∈ kids := by
    intro y hy
    unfold srcStep at hy
    rw [List.mem_flatMap] at hy
    obtain ⟨s, hs, hys⟩ := hy
    have hs' := mem_scopesNamed.mp hs
    cases s with
    | defn m ws => cases hys
    | scope m kids => exact ⟨m, kids, hs'.1, hs'.2.2.1, hys⟩
  cases h with
  | here hm hd =>
    obtain ⟨m, kids, hl, hdis, hy⟩ := key _ hm
    exact .deeper hl hdis (.here hy hd)
  | deeper hm hd hk =>
    obtain ⟨m, kids, hl, hdis, hy⟩ := key _ hm
    exact .deeper hl hdis (.deeper hy hd hk)

theorem SrcTree.step {srcs : List Obj} (h : SrcTree srcs) (n : Str) : SrcTree (srcStep srcs n) :=
  ⟨fun x hx hd => h.ok x (activeIn_srcStep hx) hd,
   fun m kids hx => h.named m kids (activeIn_srcStep hx)⟩

theorem foldlM_cond_tree {α β γ : Type} (f : (List γ × List β) → α → R (List γ × List β))
    (c : α → Bool) (g : α → List γ) (u : α → List β) (E : Err) :
    ∀ (l : List α),
      (∀ st a, a ∈ l → f st a = if c a then .ok (st.1 ++ g a, st.2 ++ u a) else .error E) →
      ∀ (init : List γ × List β),
        l.foldlM f init =
          if l.all c then .ok (init.1 ++ l.flatMap g, init.2 ++ l.flatMap u) else .error E := by
  intro l
  induction l with
  | nil => intro _ init; simp; rfl
  | cons a l ih =>
    intro hstep init
    rw [List.foldlM_cons, hstep init a List.mem_cons_self]
    cases hc : c a with
    | false => simp [hc]; rfl
    | true =>
      simp only [if_true]
      show l.foldlM f _ = _
      rw [ih (fun st a' ha' => hstep st a' (List.mem_cons_of_mem _ ha'))]
      simp [hc]

/-- **closed form of the fetch of a nested master without `.multiple`** (non-diff mode): with fuel
    beyond the nesting depth, the fetch succeeds exactly when there is no clash of kinds
    (`noClash`), its result is `treeResult` and the consumed ids are `treeUsed`; a clash makes it
    fail with RuntimeError ("incompatible").  `sm` is the meta data of the master scope fetched
    (empty name at the root, any name below). -/
theorem fetch_tree_total (e : Envs) : ∀ (fuel : Nat) (sm : Meta) (mkids srcs : List Obj),
    TreeMaster mkids → depthL mkids < fuel → sm.disabled = false → SrcTree srcs →
    fetchScope e fuel false sm mkids srcs =
      if noClash mkids srcs then
        .ok (.scope { sm with tmpl := 0 } (treeResult mkids srcs), treeUsed mkids srcs)
      else .error incompatibleErr := by
  intro fuel
  induction fuel with
  | zero => intro sm mkids srcs _ hd; exact absurd hd (Nat.not_lt_zero _)
  | succ fuel ih =>
    intro sm mkids srcs hf hdepth hsd hsrc
    rw [fetchScope_succ, masterActive_tree mkids hf]
    simp only
    have hsc : ∀ m kids, Obj.scope m kids ∈ srcs → m.disabled = false → m.name ≠ [] :=
      fun m kids hm hd => hsrc.named m kids (.here hm hd)
    have hok : ∀ o ∈ srcs, o.meta.disabled = false → o.isDefn = true → SrcOK o :=
      fun o ho hd hdef => hsrc.ok o (.here ho hd) hdef
    rw [foldlM_cond_tree _ (fun io => noClashObj io.2 srcs) (fun io => [treeObj io.2 srcs])
      (fun io => treeUsedObj io.2 srcs) incompatibleErr]
    · have hall : (indexed mkids).all (fun io => noClashObj io.2 srcs) = noClash mkids srcs := by
        rw [noClash_eq_all]
        conv => rhs; rw [← indexed_map_snd mkids]
        rw [List.all_map]
        rfl
      rw [hall]
      cases noClash mkids srcs with
      | false => rfl
      | true =>
        simp only [if_true, List.nil_append]
        unfold fetchFinish
        rw [flatMap_snd_singleton (fun mo => treeObj mo srcs),
          flatMap_snd (fun mo => treeUsedObj mo srcs), indexed_map_snd,
          ← treeResult_eq_map, ← treeUsed_eq_flatMap]
    · intro st a ha
      have hmem : a.2 ∈ mkids := by rw [← indexed_map_snd mkids]; exact List.mem_map.mpr ⟨a, ha, rfl⟩
      have hto := hf.obj _ hmem
      have hmatch := fetchMatching_tree fuel sm srcs a.2 hsd hto.name_ne hto.dotfree hsc
      obtain ⟨i, mo⟩ := a
      simp only at hmem hto hmatch ⊢
      cases mo with
      | defn mm mws =>
        rw [TreeObj] at hto
        exact stepG_defn_tree _ e fuel sm mkids srcs st i mm mws hto.1 hmatch hok
      | scope mm kids =>
        have hkids := TreeMaster.of_scope hto
        have hd1 := depthT_le_depthL mkids _ hmem
        rw [depthT] at hd1
        rw [TreeObj] at hto
        exact stepG_scope_tree _ e fuel sm mkids srcs st i mm kids hto.1 hmatch
          (ih mm kids (srcStep srcs mm.name) hkids (by omega) hto.2.2.2.1 (hsrc.step mm.name))

/-- **`fetch_tree`** — the success case: no clash of kinds. -/
theorem fetch_tree (e : Envs) (fuel : Nat) (sm : Meta) (mkids srcs : List Obj)
    (hf : TreeMaster mkids) (hfuel : depthL mkids + 1 ≤ fuel) (hsd : sm.disabled = false)
    (hsrc : SrcTree srcs) (hnc : noClash mkids srcs = true) :
    fetchScope e fuel false sm mkids srcs =
      .ok (.scope { sm with tmpl := 0 } (treeResult mkids srcs), treeUsed mkids srcs) := by
  rw [fetch_tree_total e fuel sm mkids srcs hf hfuel hsd hsrc, hnc]
  rfl

/-- the clash case: RuntimeError ("incompatible") -/
theorem fetch_tree_clash (e : Envs) (fuel : Nat) (sm : Meta) (mkids srcs : List Obj)
    (hf : TreeMaster mkids) (hfuel : depthL mkids + 1 ≤ fuel) (hsd : sm.disabled = false)
    (hsrc : SrcTree srcs) (hnc : noClash mkids srcs = false) :
    fetchScope e fuel false sm mkids srcs = .error incompatibleErr := by
  rw [fetch_tree_total e fuel sm mkids srcs hf hfuel hsd hsrc, hnc]
  rfl

/-! ### the entry point `fetchRoot` and its fuel -/

theorem foldl_max_ge_tree (g : Obj → Nat) : ∀ (l : List Obj) (init : Nat),
    init ≤ l.foldl (fun a k => Nat.max a (g k)) init ∧
      ∀ k ∈ l, g k ≤ l.foldl (fun a k => Nat.max a (g k)) init := by
  intro l
  induction l with
  | nil => intro init; exact ⟨Nat.le_refl _, fun k hk => by cases hk⟩
  | cons a l ih =>
    intro init
    rw [List.foldl_cons]
    have h := ih (Nat.max init (g a))
    refine ⟨Nat.le_trans (Nat.le_max_left _ _) h.1, ?_⟩
    intro k hk
    rw [List.mem_cons] at hk
    rcases hk with rfl | hk
    · exact Nat.le_trans (Nat.le_max_right _ _) h.1
    · exact h.2 k hk

theorem depthL_le_of_forall : ∀ (l : List Obj) (b : Nat), (∀ o ∈ l, depthT o ≤ b) → depthL l ≤ b
  | [], b, _ => by rw [depthL]; exact Nat.zero_le _
  | o :: os, b, h => by
    rw [depthL]
    exact Nat.max_le.mpr ⟨h o List.mem_cons_self,
      depthL_le_of_forall os b (fun o' ho' => h o' (List.mem_cons_of_mem _ ho'))⟩

/-- `depthObj` (the fuel computation of `fetchRoot`) dominates the nesting depth, up to its cap -/
theorem depthT_le_depthObj : ∀ (f : Nat) (o : Obj), depthT o ≤ f → depthT o ≤ depthObj f o := by
  intro f
  induction f with
  | zero => intro o h; exact Nat.le_trans h (Nat.zero_le _)
  | succ f ih =>
    intro o h
    cases o with
    | defn m ws => rw [depthT]; exact Nat.zero_le _
    | scope m kids =>
      rw [depthT] at h ⊢
      rw [depthObj]
      have hk : depthL kids ≤ f := by omega
      have : depthL kids ≤ kids.foldl (fun a k => Nat.max a (depthObj f k)) 0 := by
        apply depthL_le_of_forall
        intro k hkm
        have h1 := depthT_le_depthL kids k hkm
        exact Nat.le_trans (ih k (by omega)) ((foldl_max_ge_tree (depthObj f) kids 0).2 k hkm)
      omega

/-- the fuel `fetchRoot` provides is adequate for masters nested at most 1000 deep -/
theorem fetchRoot_fuel_tree (master : List Obj) (hd : depthL master ≤ 1000) :
    depthL master + 1 ≤ (master.foldl (fun a k => Nat.max a (depthObj 1000 k)) 0) + 3 := by
  have : depthL master ≤ master.foldl (fun a k => Nat.max a (depthObj 1000 k)) 0 := by
    apply depthL_le_of_forall
    intro k hk
    have h1 := depthT_le_depthL master k hk
    exact Nat.le_trans (depthT_le_depthObj 1000 k (by omega))
      ((foldl_max_ge_tree (depthObj 1000) master 0).2 k hk)
  omega

/-- **`master.fetch(sources)`** on parsed roots, nested master without `.multiple` -/
theorem fetchRoot_tree (e : Envs) (master : List Obj) (ss : List (List Obj))
    (hf : TreeMaster master) (hd : depthL master ≤ 1000) (hsrc : SrcTree ss.flatten) :
    fetchRoot e false master ss =
      if noClash master ss.flatten then
        .ok (.scope { name := [], id := some 0 } (treeResult master ss.flatten), treeUsed master ss.flatten)
      else .error incompatibleErr :=
  fetch_tree_total e _ _ master ss.flatten hf (fetchRoot_fuel_tree master hd) rfl hsrc

/-! ## 6. C04: the result has exactly the master's structure -/

mutual
/-- the declaration skeleton of an object: values (words) and template marks erased, everything
    else — kinds, names, attributes, order, nesting — kept -/
def shapeObj : Obj → Obj
  | .defn m _ => .defn { m with tmpl := 0 } []
  | .scope m kids => .scope { m with tmpl := 0 } (shapeList kids)
def shapeList : List Obj → List Obj
  | [] => []
  | o :: os => shapeObj o :: shapeList os
end

mutual
theorem shapeObj_treeObj : ∀ (mo : Obj) (srcs : List Obj), shapeObj (treeObj mo srcs) = shapeObj mo
  | .defn mm mws, srcs => by
    rw [treeObj]
    cases lastDef srcs mm.name with
    | none => rfl
    | some d => simp only [shapeObj]
  | .scope mm kids, srcs => by
    rw [treeObj, shapeObj, shapeObj, shapeList_treeResult kids (srcStep srcs mm.name)]
/-- **C04.**  The children of the result are the master's children with other values: same kinds,
    names, attributes, order and nesting at every depth. -/
theorem shapeList_treeResult : ∀ (mkids : List Obj) (srcs : List Obj),
    shapeList (treeResult mkids srcs) = shapeList mkids
  | [], srcs => by rw [treeResult]
  | mo :: rest, srcs => by
    rw [treeResult, shapeList, shapeList, shapeObj_treeObj mo srcs, shapeList_treeResult rest srcs]
end

theorem shapeList_eq_map : ∀ (l : List Obj), shapeList l = l.map shapeObj
  | [] => by rw [shapeList]; rfl
  | o :: os => by rw [shapeList, shapeList_eq_map os]; rfl

theorem shapeObj_name (o : Obj) : (shapeObj o).name = o.name := by
  cases o <;> rw [shapeObj] <;> rfl

theorem shapeObj_isDefn (o : Obj) : (shapeObj o).isDefn = o.isDefn := by
  cases o <;> rw [shapeObj] <;> rfl

theorem shapeObj_attrs (o : Obj) : (shapeObj o).meta.attrs = o.meta.attrs := by
  cases o <;> rw [shapeObj] <;> rfl

mutual
theorem defPathsObj_shape : ∀ (o : Obj) (p : Str), defPathsObj (shapeObj o) p = defPathsObj o p
  | .defn m ws, p => by rw [shapeObj, defPathsObj, defPathsObj]
  | .scope m kids, p => by rw [shapeObj, defPathsObj, defPathsObj]; exact defPaths_shape kids _
theorem defPaths_shape : ∀ (l : List Obj) (p : Str), defPaths (shapeList l) p = defPaths l p
  | [], p => by rw [shapeList]
  | o :: os, p => by rw [shapeList, defPaths, defPaths, defPathsObj_shape o p, defPaths_shape os p]
end

/-- the result declares exactly the master's parameter paths, in the master's order -/
theorem defPaths_treeResult (mkids srcs : List Obj) (p : Str) :
    defPaths (treeResult mkids srcs) p = defPaths mkids p := by
  rw [← defPaths_shape (treeResult mkids srcs), shapeList_treeResult, defPaths_shape]

theorem treeResult_names (mkids srcs : List Obj) :
    (treeResult mkids srcs).map Obj.name = mkids.map Obj.name := by
  have h := congrArg (fun l => l.map Obj.name) (shapeList_treeResult mkids srcs)
  simp only [shapeList_eq_map, List.map_map] at h
  have hn : (Obj.name ∘ shapeObj) = Obj.name := by funext o; exact shapeObj_name o
  rw [hn] at h
  exact h

/-! ## 7. C06: the consumed ids and `all_definitions` -/

theorem startsWith_iff_tree (q x : Str) : startsWith q x = true ↔ ∃ r, x = q ++ r := by
  unfold startsWith
  constructor
  · intro h
    have h' : x.take q.length = q := by simpa using h
    refine ⟨x.drop q.length, ?_⟩
    conv => lhs; rw [← List.take_append_drop q.length x]
    rw [h']
  · rintro ⟨r, rfl⟩
    rw [List.take_left]
    simp

theorem dotfree_prefix_unique_tree : ∀ (a b r r' : Str), '.' ∉ a → '.' ∉ b →
    a ++ '.' :: r = b ++ '.' :: r' → a = b ∧ r = r'
  | [], [], r, r', _, _, h => by simpa using h
  | [], c :: b, r, r', _, hb, h => by
    simp only [List.nil_append, List.cons_append, List.cons.injEq] at h
    exact absurd (h.1 ▸ List.mem_cons_self) hb
  | c :: a, [], r, r', ha, _, h => by
    simp only [List.nil_append, List.cons_append, List.cons.injEq] at h
    exact absurd (h.1 ▸ List.mem_cons_self) ha
  | c :: a, d :: b, r, r', ha, hb, h => by
    simp only [List.cons_append, List.cons.injEq] at h
    have := dotfree_prefix_unique_tree a b r r' (fun hm => ha (List.mem_cons_of_mem _ hm))
      (fun hm => hb (List.mem_cons_of_mem _ hm)) h.2
    exact ⟨by rw [h.1, this.1], this.2⟩

theorem allDefsList_append_tree (p : Str) : ∀ (a b : List Obj),
    allDefsObj.allDefsList (a ++ b) p = allDefsObj.allDefsList a p ++ allDefsObj.allDefsList b p
  | [], b => by rw [allDefsObj.allDefsList]; rfl
  | o :: os, b => by
    rw [List.cons_append, allDefsObj.allDefsList, allDefsObj.allDefsList, allDefsList_append_tree p os b,
      List.append_assoc]

theorem srcStep_cons_tree (o : Obj) (os : List Obj) (n : Str) :
    srcStep (o :: os) n =
      (if o.isScope && !o.meta.disabled && o.name == n then o.children else []) ++ srcStep os n := by
  unfold srcStep scopesNamed
  rw [List.filter_cons]
  split
  · rw [List.flatMap_cons]
  · rfl

theorem defsNamed_cons_tree (o : Obj) (os : List Obj) (n : Str) :
    defsNamed n (o :: os) =
      (if o.isDefn && !o.meta.disabled && o.name == n then [o] else []) ++ defsNamed n os := by
  unfold defsNamed
  rw [List.filter_cons]
  split <;> rfl

/-- **one step down in `all_definitions`.**  The entries whose path starts with `p.n.` are the
    entries of the children of the enabled scopes called `n` — for a dot-free `n` and sources whose
    enabled objects at this level have dot-free names. -/
theorem allDefs_srcStep_tree (n p : Str) (hn : '.' ∉ n) : ∀ (l : List Obj),
    (∀ o ∈ l, o.meta.disabled = false → '.' ∉ o.name) →
    (allDefsObj.allDefsList l p).filter (fun x => startsWith (p ++ n ++ ['.']) x.1) =
      allDefsObj.allDefsList (srcStep l n) (p ++ n ++ ['.']) := by
  intro l
  induction l with
  | nil => intro _; rfl
  | cons o os ih =>
    intro hl
    have ih' := ih (fun o' ho' => hl o' (List.mem_cons_of_mem _ ho'))
    rw [allDefsObj.allDefsList, List.filter_append, ih', srcStep_cons_tree, allDefsList_append_tree]
    congr 1
    cases hd : o.meta.disabled with
    | true => simp [allDefsObj.allDefsList]
    | false =>
      have hdot := hl o List.mem_cons_self hd
      simp only [Bool.false_eq_true, if_false, Bool.not_false, Bool.and_true]
      cases o with
      | defn m ws =>
        have h1 : (Obj.defn m ws).isScope = false := rfl
        simp only [h1, Bool.false_and, Bool.false_eq_true, if_false, allDefsObj.allDefsList]
        rw [List.filter_eq_nil_iff]
        intro x hx hsw
        rw [allDefsObj] at hx
        split at hx
        · cases hx
        · simp only [List.mem_singleton] at hx
          subst hx
          obtain ⟨r, hr⟩ := (startsWith_iff_tree _ _).mp hsw
          simp only [List.append_assoc, List.append_cancel_left_eq] at hr
          apply hdot
          show '.' ∈ m.name
          rw [hr]
          simp
      | scope m kids =>
        have h1 : (Obj.scope m kids).isScope = true := rfl
        have h2 : (Obj.scope m kids).name = m.name := rfl
        have h3 : (Obj.scope m kids).children = kids := rfl
        simp only [h1, h2, h3, Bool.true_and]
        rw [allDefsObj]
        by_cases hmn : m.name = n
        · subst hmn
          simp only [BEq.rfl, if_true]
          rw [List.filter_eq_self]
          intro x hx
          obtain ⟨r, hr⟩ := allDefsList_prefix kids _ x hx
          exact (startsWith_iff_tree _ _).mpr ⟨r, hr⟩
        · have hne : (m.name == n) = false := beq_eq_false_iff_ne.mpr hmn
          simp only [hne, Bool.false_eq_true, if_false, allDefsObj.allDefsList]
          rw [List.filter_eq_nil_iff]
          intro x hx hsw
          obtain ⟨r, hr⟩ := allDefsList_prefix kids _ x hx
          obtain ⟨r', hr'⟩ := (startsWith_iff_tree _ _).mp hsw
          rw [hr] at hr'
          simp only [List.append_assoc, List.append_cancel_left_eq, List.cons_append, List.nil_append] at hr'
          exact hmn (dotfree_prefix_unique_tree _ _ _ _ hdot hn hr').1

/-- **the entries of `all_definitions` with a given path at this level** are the enabled
    definitions of that name, in order — for a dot-free name other than `include` -/
theorem allDefs_defsNamed_tree (n p : Str) (hn : '.' ∉ n) (hinc : n ≠ "include".toList) :
    ∀ (l : List Obj),
    (allDefsObj.allDefsList l p).filter (fun x => x.1 == p ++ n) =
      (defsNamed n l).map (fun d => (p ++ n, d.meta, d.words)) := by
  intro l
  induction l with
  | nil => rfl
  | cons o os ih =>
    rw [allDefsObj.allDefsList, List.filter_append, ih, defsNamed_cons_tree, List.map_append]
    congr 1
    cases hd : o.meta.disabled with
    | true => simp
    | false =>
      simp only [Bool.false_eq_true, if_false, Bool.not_false, Bool.and_true]
      cases o with
      | defn m ws =>
        have h1 : (Obj.defn m ws).isDefn = true := rfl
        have h2 : (Obj.defn m ws).name = m.name := rfl
        simp only [h1, h2, Bool.true_and]
        rw [allDefsObj]
        by_cases hmn : m.name = n
        · subst hmn
          have : (m.name == "include".toList) = false := beq_eq_false_iff_ne.mpr hinc
          rw [this]
          simp [Obj.meta, Obj.words]
        · have hne : (m.name == n) = false := beq_eq_false_iff_ne.mpr hmn
          simp only [hne, Bool.false_eq_true, if_false, List.map_nil]
          rw [List.filter_eq_nil_iff]
          intro x hx
          split at hx
          · cases hx
          · simp only [List.mem_singleton] at hx
            subst hx
            simpa using hmn
      | scope m kids =>
        have h1 : (Obj.scope m kids).isDefn = false := rfl
        simp only [h1, Bool.false_and, Bool.false_eq_true, if_false, List.map_nil]
        rw [List.filter_eq_nil_iff]
        intro x hx heq
        rw [allDefsObj] at hx
        obtain ⟨r, hr⟩ := allDefsList_prefix kids _ x hx
        have heq' : x.1 = p ++ n := by simpa using heq
        rw [hr] at heq'
        simp only [List.append_assoc, List.append_cancel_left_eq] at heq'
        apply hn
        rw [← heq']
        simp

mutual
theorem defPathsObj_prefix_tree : ∀ (o : Obj) (p q : Str), q ∈ defPathsObj o p → ∃ r, q = p ++ r
  | .defn m ws, p, q, h => by
    rw [defPathsObj, List.mem_singleton] at h
    exact ⟨m.name, h⟩
  | .scope m kids, p, q, h => by
    rw [defPathsObj] at h
    obtain ⟨r, hr⟩ := defPaths_prefix_tree kids _ q h
    exact ⟨m.name ++ ['.'] ++ r, by rw [hr]; simp⟩
theorem defPaths_prefix_tree : ∀ (l : List Obj) (p q : Str), q ∈ defPaths l p → ∃ r, q = p ++ r
  | [], p, q, h => by rw [defPaths] at h; cases h
  | o :: os, p, q, h => by
    rw [defPaths, List.mem_append] at h
    rcases h with h | h
    · exact defPathsObj_prefix_tree o p q h
    · exact defPaths_prefix_tree os p q h
end

/-- what the exact account of the consumed ids needs of the sources, at every depth below enabled
    scopes: no ids consulted for variables (`srcRefs = []`: variable-free sources), dot-free names
    (the parser nests dotted spellings) -/
structure SrcPlain (srcs : List Obj) : Prop where
  noRefs : ∀ x, ActiveIn x srcs → x.isDefn = true → srcRefs x = []
  dotfree : ∀ x, ActiveIn x srcs → '.' ∉ x.name

theorem SrcPlain.step {srcs : List Obj} (h : SrcPlain srcs) (n : Str) : SrcPlain (srcStep srcs n) :=
  ⟨fun x hx hd => h.noRefs x (activeIn_srcStep hx) hd,
   fun x hx => h.dotfree x (activeIn_srcStep hx)⟩

/-- no master definition, at any depth, is called `include` (`all_definitions` skips those) -/
def NoIncludeTree (mkids : List Obj) : Prop :=
  ∀ d, ActiveIn d mkids → d.isDefn = true → d.name ≠ "include".toList

mutual
theorem mem_treeUsedObj_tree : ∀ (mo : Obj) (srcs : List Obj) (p : Str) (i : Nat),
    TreeObj mo → NoIncludeTree [mo] → SrcPlain srcs →
    (i ∈ treeUsedObj mo srcs ↔
      ∃ x ∈ allDefsObj.allDefsList srcs p, x.2.1.id = some i ∧ x.1 ∈ defPathsObj mo p)
  | .defn mm mws, srcs, p, i, ht, hinc, hs => by
    rw [TreeObj] at ht
    have hinc' : mm.name ≠ "include".toList :=
      hinc (.defn mm mws) (.here (List.mem_singleton.mpr rfl) ht.2.2.2) rfl
    have hB := allDefs_defsNamed_tree mm.name p ht.2.2.1 hinc' srcs
    rw [treeUsedObj, defPathsObj]
    constructor
    · intro hi
      rw [List.mem_flatMap] at hi
      obtain ⟨d, hd, hid⟩ := hi
      have hd' := mem_defsNamed.mp hd
      have hid' := (mem_marksOf_noRefs (hs.noRefs d (.here hd'.1 hd'.2.2.1) hd'.2.1)).mp hid
      have hx : (p ++ mm.name, d.meta, d.words) ∈
          (allDefsObj.allDefsList srcs p).filter (fun x => x.1 == p ++ mm.name) := by
        rw [hB]; exact List.mem_map.mpr ⟨d, hd, rfl⟩
      exact ⟨_, (List.mem_filter.mp hx).1, hid', List.mem_singleton.mpr rfl⟩
    · rintro ⟨x, hx, hid, hpath⟩
      rw [List.mem_singleton] at hpath
      have hx' : x ∈ (allDefsObj.allDefsList srcs p).filter (fun x => x.1 == p ++ mm.name) :=
        List.mem_filter.mpr ⟨hx, by simpa using hpath⟩
      rw [hB, List.mem_map] at hx'
      obtain ⟨d, hd, hdx⟩ := hx'
      have hd' := mem_defsNamed.mp hd
      rw [List.mem_flatMap]
      refine ⟨d, hd, (mem_marksOf_noRefs (hs.noRefs d (.here hd'.1 hd'.2.2.1) hd'.2.1)).mpr ?_⟩
      rw [← hdx] at hid
      exact hid
  | .scope mm kids, srcs, p, i, ht, hinc, hs => by
    have hkids := (TreeMaster.of_scope ht).kids
    rw [TreeObj] at ht
    have hinck : NoIncludeTree kids := fun d hd hdef =>
      hinc d (.deeper (List.mem_singleton.mpr rfl) ht.2.2.2.1 hd) hdef
    have hA := allDefs_srcStep_tree mm.name p ht.2.2.1 srcs (fun o ho hd => hs.dotfree o (.here ho hd))
    rw [treeUsedObj, defPathsObj,
      mem_treeUsed_tree kids (srcStep srcs mm.name) (p ++ mm.name ++ ['.']) i hkids hinck (hs.step mm.name),
      ← hA]
    constructor
    · rintro ⟨x, hx, hid, hpath⟩
      exact ⟨x, (List.mem_filter.mp hx).1, hid, hpath⟩
    · rintro ⟨x, hx, hid, hpath⟩
      obtain ⟨r, hr⟩ := defPaths_prefix_tree kids _ _ hpath
      exact ⟨x, List.mem_filter.mpr ⟨hx, (startsWith_iff_tree _ _).mpr ⟨r, hr⟩⟩, hid, hpath⟩
theorem mem_treeUsed_tree : ∀ (mkids : List Obj) (srcs : List Obj) (p : Str) (i : Nat),
    TreeKids mkids → NoIncludeTree mkids → SrcPlain srcs →
    (i ∈ treeUsed mkids srcs ↔
      ∃ x ∈ allDefsObj.allDefsList srcs p, x.2.1.id = some i ∧ x.1 ∈ defPaths mkids p)
  | [], srcs, p, i, _, _, _ => by
    rw [treeUsed, defPaths]
    simp
  | mo :: rest, srcs, p, i, ht, hinc, hs => by
    rw [TreeKids] at ht
    have h1 : NoIncludeTree [mo] := fun d hd hdef =>
      hinc d (hd.mono (by intro y hy; rw [List.mem_singleton] at hy; subst hy; exact List.mem_cons_self)) hdef
    have h2 : NoIncludeTree rest := fun d hd hdef =>
      hinc d (hd.mono (fun y hy => List.mem_cons_of_mem _ hy)) hdef
    rw [treeUsed, defPaths, List.mem_append, mem_treeUsedObj_tree mo srcs p i ht.1 h1 hs,
      mem_treeUsed_tree rest srcs p i ht.2 h2 hs]
    constructor
    · rintro (⟨x, hx, hid, hp⟩ | ⟨x, hx, hid, hp⟩)
      · exact ⟨x, hx, hid, List.mem_append.mpr (.inl hp)⟩
      · exact ⟨x, hx, hid, List.mem_append.mpr (.inr hp)⟩
    · rintro ⟨x, hx, hid, hp⟩
      rcases List.mem_append.mp hp with hp | hp
      · exact .inl ⟨x, hx, hid, hp⟩
      · exact .inr ⟨x, hx, hid, hp⟩
end

/-- **C06 (consumed ids, exactly).**  The consumed ids are exactly the ids of the entries of
    `all_definitions(sources)` whose full path is the path of a master definition. -/
theorem tree_used_exact (mkids srcs : List Obj) (hf : TreeMaster mkids) (hinc : NoIncludeTree mkids)
    (hs : SrcPlain srcs) (i : Nat) :
    i ∈ treeUsed mkids srcs ↔
      ∃ x ∈ allDefinitions srcs, x.2.1.id = some i ∧ x.1 ∈ defPaths mkids [] :=
  mem_treeUsed_tree mkids srcs [] i hf.kids hinc hs

/-- **C06 (unused list, exactly), generic part**: if the consumed ids are those of the entries of
    `all_definitions` with a path in `paths` and those entries carry pairwise distinct ids, then "not
    consumed" and "path not in `paths`" select the same entries. -/
theorem unused_filter_exact_tree (paths : List Str) (srcs : List Obj) (used : List Nat)
    (hsome : ∀ x ∈ allDefinitions srcs, x.2.1.id ≠ none)
    (hids : ((allDefinitions srcs).map (fun x => x.2.1.id)).Nodup)
    (hused : ∀ i, i ∈ used ↔ ∃ x ∈ allDefinitions srcs, x.2.1.id = some i ∧ x.1 ∈ paths) :
    (allDefinitions srcs).filter (notConsumed used) =
      (allDefinitions srcs).filter (fun x => !paths.contains x.1) := by
  apply List.filter_congr
  intro x hx
  cases hid : x.2.1.id with
  | none => exact absurd hid (hsome x hx)
  | some j =>
    have key : j ∈ used ↔ x.1 ∈ paths := by
      rw [hused]
      constructor
      · rintro ⟨y, hy, hyid, hyp⟩
        have := eq_of_nodup_map _ _ hids x hx y hy (by rw [hid, hyid])
        rw [this]; exact hyp
      · intro hp
        exact ⟨x, hx, hid, hp⟩
    unfold notConsumed
    rw [hid]
    simp only [List.contains_eq_mem]
    by_cases hj : j ∈ used
    · have := key.mp hj; simp [hj, this]
    · have := mt key.mpr hj; simp [hj, this]

/-- a successful fetch of a tree master returns the specification -/
theorem fetch_tree_ok (e : Envs) (fuel : Nat) (sm : Meta) (mkids srcs : List Obj)
    (hf : TreeMaster mkids) (hfuel : depthL mkids + 1 ≤ fuel) (hsd : sm.disabled = false)
    (hsrc : SrcTree srcs) (ro : Obj) (used : List Nat)
    (h : fetchScope e fuel false sm mkids srcs = .ok (ro, used)) :
    noClash mkids srcs = true ∧ ro = .scope { sm with tmpl := 0 } (treeResult mkids srcs) ∧
      used = treeUsed mkids srcs := by
  rw [fetch_tree_total e fuel sm mkids srcs hf hfuel hsd hsrc] at h
  cases hnc : noClash mkids srcs with
  | false => rw [hnc] at h; cases h
  | true =>
    rw [hnc] at h
    simp only [if_true] at h
    cases h
    exact ⟨rfl, rfl, rfl⟩

/-- **C06 (unused list, exactly).**  Whenever the fetch of a tree master succeeds and the entries of
    `all_definitions(sources)` carry pairwise distinct ids, the entries that were not consumed are
    exactly those whose full path is not the path of a master definition. -/
theorem tree_unused_exact (e : Envs) (fuel : Nat) (sm : Meta) (mkids srcs : List Obj)
    (hf : TreeMaster mkids) (hfuel : depthL mkids + 1 ≤ fuel) (hsd : sm.disabled = false)
    (hinc : NoIncludeTree mkids) (hsrc : SrcTree srcs) (hs : SrcPlain srcs)
    (hsome : ∀ x ∈ allDefinitions srcs, x.2.1.id ≠ none)
    (hids : ((allDefinitions srcs).map (fun x => x.2.1.id)).Nodup)
    (ro : Obj) (used : List Nat)
    (h : fetchScope e fuel false sm mkids srcs = .ok (ro, used)) :
    (allDefinitions srcs).filter (notConsumed used) =
      (allDefinitions srcs).filter (fun x => !(defPaths mkids []).contains x.1) := by
  obtain ⟨_, _, hu⟩ := fetch_tree_ok e fuel sm mkids srcs hf hfuel hsd hsrc ro used h
  subst hu
  exact unused_filter_exact_tree _ srcs _ hsome hids (tree_used_exact mkids srcs hf hinc hs)

/-! ## 8. C07: re-fetching the result -/

theorem shapeObj_disabled (o : Obj) : (shapeObj o).meta.disabled = o.meta.disabled := by
  cases o <;> rw [shapeObj] <;> rfl

theorem treeObj_name (mo : Obj) (srcs : List Obj) : (treeObj mo srcs).name = mo.name := by
  rw [← shapeObj_name, shapeObj_treeObj, shapeObj_name]

theorem treeObj_disabled (mo : Obj) (srcs : List Obj) :
    (treeObj mo srcs).meta.disabled = mo.meta.disabled := by
  rw [← shapeObj_disabled, shapeObj_treeObj, shapeObj_disabled]

theorem treeObj_isDefn (mo : Obj) (srcs : List Obj) : (treeObj mo srcs).isDefn = mo.isDefn := by
  rw [← shapeObj_isDefn, shapeObj_treeObj, shapeObj_isDefn]

theorem defsNamed_eq_filter_tree (n : Str) (l : List Obj) :
    defsNamed n l = (activeNamed n l).filter Obj.isDefn := by
  unfold defsNamed activeNamed
  rw [List.filter_filter]
  apply List.filter_congr
  intro o _
  cases o.isDefn <;> simp

theorem scopesNamed_eq_filter_tree (n : Str) (l : List Obj) :
    scopesNamed n l = (activeNamed n l).filter Obj.isScope := by
  unfold scopesNamed activeNamed
  rw [List.filter_filter]
  apply List.filter_congr
  intro o _
  cases o.isScope <;> simp

/-- in the result of a tree master, the enabled objects called like a master child are the one
    result object of that child -/
theorem view_of_distinct_tree (mkids srcs : List Obj) (hf : TreeMaster mkids) :
    ∀ mo ∈ mkids, activeNamed mo.name (treeResult mkids srcs) = [treeObj mo srcs] := by
  intro mo hmo
  rw [treeResult_eq_map]
  exact activeNamed_map_distinct (fun mo => treeObj mo srcs) (fun o => treeObj_name o srcs)
    (fun o => treeObj_disabled o srcs) mkids hf.distinct (fun o ho => (hf.obj o ho).enabled) mo hmo

theorem treeObj_defn_eq_lastWins (mm : Meta) (mws : List Word) (srcs : List Obj) :
    treeObj (.defn mm mws) srcs = lastWins (.defn mm mws) (defsNamed mm.name srcs) := by
  rw [treeObj]
  unfold lastWins lastDef
  cases (defsNamed mm.name srcs).getLast? <;> rfl

/-- master definitions fit for re-fetching in the model, at every depth: not template-marked, no
    recorded variable resolution, variable-free default -/
def RefetchTree (mkids : List Obj) : Prop :=
  ∀ d, ActiveIn d mkids → d.isDefn = true →
    d.meta.tmpl = 0 ∧ d.meta.varRes = none ∧ hasDollar d.words = false

theorem RefetchTree.head {mo : Obj} {rest : List Obj} (h : RefetchTree (mo :: rest)) : RefetchTree [mo] :=
  fun d hd hdef =>
    h d (hd.mono (by intro y hy; rw [List.mem_singleton] at hy; subst hy; exact List.mem_cons_self)) hdef

theorem RefetchTree.tail {mo : Obj} {rest : List Obj} (h : RefetchTree (mo :: rest)) : RefetchTree rest :=
  fun d hd hdef => h d (hd.mono (fun y hy => List.mem_cons_of_mem _ hy)) hdef

theorem RefetchTree.kids {mm : Meta} {kids : List Obj} (h : RefetchTree [.scope mm kids])
    (hd : mm.disabled = false) : RefetchTree kids :=
  fun d hdk hdef => h d (.deeper (List.mem_singleton.mpr rfl) hd hdk) hdef

mutual
theorem treeObj_view_idem : ∀ (mo : Obj) (srcs R : List Obj), TreeObj mo → RefetchTree [mo] →
    activeNamed mo.name R = [treeObj mo srcs] → treeObj mo R = treeObj mo srcs
  | .defn mm mws, srcs, R, ht, hr, hv => by
    rw [TreeObj] at ht
    have hr' := hr (.defn mm mws) (.here (List.mem_singleton.mpr rfl) ht.2.2.2) rfl
    have hdn : defsNamed mm.name R = [treeObj (.defn mm mws) srcs] := by
      rw [defsNamed_eq_filter_tree]
      have hv' : activeNamed mm.name R = [treeObj (.defn mm mws) srcs] := hv
      rw [hv', List.filter_cons, treeObj_isDefn]
      rfl
    rw [treeObj_defn_eq_lastWins mm mws R, hdn, treeObj_defn_eq_lastWins mm mws srcs]
    exact lastWins_idem mm mws _ hr'.1 hr'.2.1
  | .scope mm kids, srcs, R, ht, hr, hv => by
    have hk := TreeMaster.of_scope ht
    rw [TreeObj] at ht
    have hv' : activeNamed mm.name R = [treeObj (.scope mm kids) srcs] := hv
    have hstep : srcStep R mm.name = treeResult kids (srcStep srcs mm.name) := by
      rw [← activeNamed_children_tree, hv', treeObj]
      simp [Obj.children]
    rw [treeObj, hstep, treeObj]
    congr 1
    exact treeResult_view_idem kids (srcStep srcs mm.name) _ hk.kids (hr.kids ht.2.2.2.1)
      (view_of_distinct_tree kids _ hk)
theorem treeResult_view_idem : ∀ (l : List Obj) (srcs R : List Obj), TreeKids l → RefetchTree l →
    (∀ mo ∈ l, activeNamed mo.name R = [treeObj mo srcs]) → treeResult l R = treeResult l srcs
  | [], srcs, R, _, _, _ => by rw [treeResult, treeResult]
  | mo :: rest, srcs, R, ht, hr, hv => by
    rw [TreeKids] at ht
    rw [treeResult, treeResult, treeObj_view_idem mo srcs R ht.1 hr.head (hv mo List.mem_cons_self),
      treeResult_view_idem rest srcs R ht.2 hr.tail (fun o ho => hv o (List.mem_cons_of_mem _ ho))]
end

/-- **the specification is idempotent**: the result, taken as the only source, is reproduced -/
theorem treeResult_idem (mkids srcs : List Obj) (hf : TreeMaster mkids) (hr : RefetchTree mkids) :
    treeResult mkids (treeResult mkids srcs) = treeResult mkids srcs :=
  treeResult_view_idem mkids srcs _ hf.kids hr (view_of_distinct_tree mkids srcs hf)

mutual
theorem noClashObj_view_tree : ∀ (mo : Obj) (srcs R : List Obj), TreeObj mo →
    activeNamed mo.name R = [treeObj mo srcs] → noClashObj mo R = true
  | .defn mm mws, srcs, R, ht, hv => by
    have hv' : activeNamed mm.name R = [treeObj (.defn mm mws) srcs] := hv
    rw [noClashObj, scopesNamed_eq_filter_tree, hv', List.filter_cons]
    unfold Obj.isScope
    rw [treeObj_isDefn]
    rfl
  | .scope mm kids, srcs, R, ht, hv => by
    have hk := TreeMaster.of_scope ht
    have hv' : activeNamed mm.name R = [treeObj (.scope mm kids) srcs] := hv
    have hstep : srcStep R mm.name = treeResult kids (srcStep srcs mm.name) := by
      rw [← activeNamed_children_tree, hv', treeObj]
      simp [Obj.children]
    rw [noClashObj, defsNamed_eq_filter_tree, hv', List.filter_cons, treeObj_isDefn, hstep,
      noClash_view_tree kids (srcStep srcs mm.name) _ hk.kids (view_of_distinct_tree kids _ hk)]
    rfl
theorem noClash_view_tree : ∀ (l : List Obj) (srcs R : List Obj), TreeKids l →
    (∀ mo ∈ l, activeNamed mo.name R = [treeObj mo srcs]) → noClash l R = true
  | [], srcs, R, _, _ => by rw [noClash]
  | mo :: rest, srcs, R, ht, hv => by
    rw [TreeKids] at ht
    rw [noClash, noClashObj_view_tree mo srcs R ht.1 (hv mo List.mem_cons_self),
      noClash_view_tree rest srcs R ht.2 (fun o ho => hv o (List.mem_cons_of_mem _ ho))]
    rfl
end

/-- the result never clashes with its master -/
theorem noClash_treeResult (mkids srcs : List Obj) (hf : TreeMaster mkids) :
    noClash mkids (treeResult mkids srcs) = true :=
  noClash_view_tree mkids srcs _ hf.kids (view_of_distinct_tree mkids srcs hf)

theorem treeObj_of_activeIn {mo : Obj} {l : List Obj} (h : ActiveIn mo l) : TreeKids l → TreeObj mo := by
  induction h with
  | here hm _ => intro ht; exact (treeKids_iff _).mp ht _ hm
  | deeper hm _ _ ih =>
    intro ht
    exact ih (TreeMaster.of_scope ((treeKids_iff _).mp ht _ hm)).kids

/-- every active object of the result is the result object of an active master object, for sources
    that are active objects of the original sources -/
theorem activeIn_treeResult {x : Obj} {R : List Obj} (h : ActiveIn x R) :
    ∀ (mkids srcs : List Obj), R = treeResult mkids srcs → TreeKids mkids →
      ∃ mo S, ActiveIn mo mkids ∧ (∀ y, ActiveIn y S → ActiveIn y srcs) ∧ x = treeObj mo S := by
  induction h with
  | @here R hm hd =>
    intro mkids srcs hR ht
    rw [hR, treeResult_eq_map, List.mem_map] at hm
    obtain ⟨mo, hmo, rfl⟩ := hm
    rw [treeObj_disabled] at hd
    exact ⟨mo, srcs, .here hmo hd, fun y hy => hy, rfl⟩
  | @deeper R m kids' hm hd _ ih =>
    intro mkids srcs hR ht
    rw [hR, treeResult_eq_map, List.mem_map] at hm
    obtain ⟨mo, hmo, hmoe⟩ := hm
    cases mo with
    | defn mm mws =>
      have := treeObj_isDefn (.defn mm mws) srcs
      rw [hmoe] at this
      cases this
    | scope mm mk =>
      rw [treeObj] at hmoe
      injection hmoe with hm1 hk1
      have hto := (treeKids_iff _).mp ht _ hmo
      have hmd : mm.disabled = false := by
        have := hto.enabled
        exact this
      obtain ⟨mo', S, ha, hS, hx⟩ := ih mk (srcStep srcs mm.name) hk1.symm (TreeMaster.of_scope hto).kids
      exact ⟨mo', S, .deeper hmo hmd ha, fun y hy => activeIn_srcStep (hS y hy), hx⟩

/-- the resolved words of the source definitions are variable-free, at every depth -/
def SrcNoDollar (srcs : List Obj) : Prop :=
  ∀ x, ActiveIn x srcs → x.isDefn = true → hasDollar x.srcWords = false

/-- the result of a tree master is itself a well-formed source tree -/
theorem srcTree_treeResult (mkids srcs : List Obj) (hf : TreeMaster mkids) (hr : RefetchTree mkids)
    (hdol : SrcNoDollar srcs) : SrcTree (treeResult mkids srcs) := by
  constructor
  · intro x hx hdef
    obtain ⟨mo, S, ha, hS, rfl⟩ := activeIn_treeResult hx mkids srcs rfl hf.kids
    rw [treeObj_isDefn] at hdef
    have hr' := hr mo ha hdef
    cases mo with
    | scope mm mk => cases hdef
    | defn mm mws =>
      rw [treeObj_defn_eq_lastWins]
      apply lastWins_srcOK _ _ hr'.2.1 hr'.2.2
      intro d hd
      have hd' := mem_defsNamed.mp hd
      exact hdol d (hS d (.here hd'.1 hd'.2.2.1)) hd'.2.1
  · intro m kids hx
    obtain ⟨mo, S, ha, hS, hxe⟩ := activeIn_treeResult hx mkids srcs rfl hf.kids
    have hto := treeObj_of_activeIn ha hf.kids
    have hn := treeObj_name mo S
    rw [← hxe] at hn
    have : m.name = mo.name := hn
    rw [this]
    exact hto.name_ne

/-- **C07.**  Fetching the result again, as the only source, returns the same result (and cannot
    fail). -/
theorem tree_refetch_idempotent (e : Envs) (fuel : Nat) (sm : Meta) (mkids srcs : List Obj)
    (hf : TreeMaster mkids) (hfuel : depthL mkids + 1 ≤ fuel) (hsd : sm.disabled = false)
    (hr : RefetchTree mkids) (hdol : SrcNoDollar srcs) :
    fetchScope e fuel false sm mkids (treeResult mkids srcs) =
      .ok (.scope { sm with tmpl := 0 } (treeResult mkids srcs),
           treeUsed mkids (treeResult mkids srcs)) := by
  rw [fetch_tree e fuel sm mkids _ hf hfuel hsd (srcTree_treeResult mkids srcs hf hr hdol)
    (noClash_treeResult mkids srcs hf), treeResult_idem mkids srcs hf hr]

/-! ## 9. C05: last value wins at every depth -/

/-- the first object called `n` -/
def findNamedTree (objs : List Obj) (n : Str) : Option Obj := objs.find? (fun o => o.name == n)

/-- the definition at a path: follow the scope names `ps`, then take the definition called `n` -/
def defAt : List Obj → List Str → Str → Option Obj
  | objs, [], n =>
    match findNamedTree objs n with
    | some (.defn m ws) => some (.defn m ws)
    | _ => none
  | objs, s :: ps, n =>
    match findNamedTree objs s with
    | some (.scope _ kids) => defAt kids ps n
    | _ => none

/-- the dotted spelling of a path -/
def dottedPath : List Str → Str → Str
  | [], n => n
  | s :: ps, n => s ++ '.' :: dottedPath ps n

theorem findNamed_treeResult (mkids srcs : List Obj) (n : Str) :
    findNamedTree (treeResult mkids srcs) n = (findNamedTree mkids n).map (fun mo => treeObj mo srcs) := by
  unfold findNamedTree
  rw [treeResult_eq_map, List.find?_map]
  have hfun : ((fun (o : Obj) => o.name == n) ∘ fun mo => treeObj mo srcs) = (fun o => o.name == n) := by
    funext o
    show ((treeObj o srcs).name == n) = (o.name == n)
    rw [treeObj_name]
  rw [hfun]

theorem findNamed_name {l : List Obj} {n : Str} {o : Obj} (h : findNamedTree l n = some o) : o.name = n := by
  unfold findNamedTree at h
  have := List.find?_some h
  simpa using this

/-- the result at a path is the result object of the master definition at that path, computed from
    the sources reached by that path -/
theorem defAt_treeResult : ∀ (ps : List Str) (mkids srcs : List Obj) (n : Str),
    defAt (treeResult mkids srcs) ps n = (defAt mkids ps n).map (fun mo => treeObj mo (srcAt srcs ps))
  | [], mkids, srcs, n => by
    rw [defAt, defAt, findNamed_treeResult, srcAt]
    cases findNamedTree mkids n with
    | none => rfl
    | some mo =>
      cases mo with
      | scope mm kids => simp only [Option.map_some, treeObj]; rfl
      | defn mm mws =>
        simp only [Option.map_some]
        rw [treeObj]
        cases lastDef srcs mm.name <;> rfl
  | s :: ps, mkids, srcs, n => by
    rw [defAt, defAt, findNamed_treeResult, srcAt]
    cases hfn : findNamedTree mkids s with
    | none => rfl
    | some mo =>
      cases mo with
      | defn mm mws =>
        simp only [Option.map_some]
        rw [treeObj]
        cases lastDef srcs mm.name <;> rfl
      | scope mm kids =>
        have hname : mm.name = s := findNamed_name hfn
        simp only [Option.map_some, treeObj]
        rw [defAt_treeResult ps kids (srcStep srcs mm.name) n, hname]

theorem defAt_name : ∀ (ps : List Str) (l : List Obj) (n : Str) (o : Obj),
    defAt l ps n = some o → o.name = n ∧ o.isDefn = true
  | [], l, n, o, h => by
    rw [defAt] at h
    cases hfn : findNamedTree l n with
    | none => rw [hfn] at h; cases h
    | some mo =>
      rw [hfn] at h
      cases mo with
      | scope mm kids => cases h
      | defn mm mws =>
        simp only [Option.some.injEq] at h
        subst h
        exact ⟨findNamed_name hfn, rfl⟩
  | s :: ps, l, n, o, h => by
    rw [defAt] at h
    cases hfn : findNamedTree l s with
    | none => rw [hfn] at h; cases h
    | some mo =>
      rw [hfn] at h
      cases mo with
      | defn mm mws => cases h
      | scope mm kids => exact defAt_name ps kids n o h

/-- **C05 (last value wins at every depth).**  Where the master has the definition `mm` at the path
    `ps.n`, the result has, at the same path, that definition with the (resolved) words of the LAST
    enabled source definition reached by that path — over all sources and all spellings — or the
    master definition itself if there is none. -/
theorem last_value_wins_at_depth_tree (mkids srcs : List Obj) (ps : List Str) (n : Str)
    (mm : Meta) (mws : List Word) (h : defAt mkids ps n = some (.defn mm mws)) :
    defAt (treeResult mkids srcs) ps n =
      some (match lastDef (srcAt srcs ps) n with
            | some d => .defn { mm with tmpl := 0 } d.srcWords
            | none => .defn mm mws) := by
  have hn : mm.name = n := (defAt_name ps mkids n _ h).1
  rw [defAt_treeResult, h, Option.map_some, treeObj, hn]

/-- **the entries of `all_definitions` with a given dotted path** are the enabled definitions
    reached by that path (`srcAt`), in document order — for dot-free names. -/
theorem allDefs_at_path_tree (n : Str) (hn : '.' ∉ n) (hinc : n ≠ "include".toList) :
    ∀ (ps : List Str) (srcs : List Obj) (p : Str), (∀ s ∈ ps, '.' ∉ s) →
    (∀ x, ActiveIn x srcs → '.' ∉ x.name) →
    (allDefsObj.allDefsList srcs p).filter (fun x => x.1 == p ++ dottedPath ps n) =
      (defsNamed n (srcAt srcs ps)).map (fun d => (p ++ dottedPath ps n, d.meta, d.words))
  | [], srcs, p, _, _ => by
    rw [srcAt, dottedPath]
    exact allDefs_defsNamed_tree n p hn hinc srcs
  | s :: ps, srcs, p, hps, hs => by
    have hA := allDefs_srcStep_tree s p (hps s List.mem_cons_self) srcs (fun o ho hd => hs o (.here ho hd))
    have hpath : p ++ dottedPath (s :: ps) n = (p ++ s ++ ['.']) ++ dottedPath ps n := by
      rw [dottedPath]; simp
    have hsplit : (allDefsObj.allDefsList srcs p).filter (fun x => x.1 == p ++ dottedPath (s :: ps) n) =
        ((allDefsObj.allDefsList srcs p).filter (fun x => startsWith (p ++ s ++ ['.']) x.1)).filter
          (fun x => x.1 == (p ++ s ++ ['.']) ++ dottedPath ps n) := by
      rw [List.filter_filter, hpath]
      apply List.filter_congr
      intro x _
      cases heq : x.1 == (p ++ s ++ ['.']) ++ dottedPath ps n with
      | false => rfl
      | true =>
        have : x.1 = (p ++ s ++ ['.']) ++ dottedPath ps n := by simpa using heq
        rw [(startsWith_iff_tree _ _).mpr ⟨_, this⟩]
        rfl
    rw [hsplit, hA, srcAt, hpath]
    exact allDefs_at_path_tree n hn hinc ps (srcStep srcs s) (p ++ s ++ ['.'])
      (fun s' hs' => hps s' (List.mem_cons_of_mem _ hs')) (fun x hx => hs x (activeIn_srcStep hx))

/-- the last enabled source definition reached by a path is the last entry of
    `all_definitions(sources)` with that dotted path -/
theorem lastDef_eq_last_allDefs_tree (n : Str) (hn : '.' ∉ n) (hinc : n ≠ "include".toList)
    (ps : List Str) (srcs : List Obj) (hps : ∀ s ∈ ps, '.' ∉ s)
    (hs : ∀ x, ActiveIn x srcs → '.' ∉ x.name) :
    ((allDefinitions srcs).filter (fun x => x.1 == dottedPath ps n)).getLast? =
      (lastDef (srcAt srcs ps) n).map (fun d => (dottedPath ps n, d.meta, d.words)) := by
  have h := allDefs_at_path_tree n hn hinc ps srcs [] hps hs
  simp only [List.nil_append] at h
  unfold allDefinitions lastDef
  rw [h, List.getLast?_map]

theorem findNamed_mem {l : List Obj} {n : Str} {o : Obj} (h : findNamedTree l n = some o) : o ∈ l := by
  unfold findNamedTree at h
  exact List.mem_of_find?_eq_some h

/-- a path that exists in a tree master is dot-free -/
theorem defAt_dotfree_tree : ∀ (ps : List Str) (l : List Obj) (n : Str) (o : Obj), TreeKids l →
    defAt l ps n = some o → '.' ∉ n ∧ ∀ s ∈ ps, '.' ∉ s
  | [], l, n, o, ht, h => by
    rw [defAt] at h
    cases hfn : findNamedTree l n with
    | none => rw [hfn] at h; cases h
    | some mo =>
      have hto := (treeKids_iff l).mp ht mo (findNamed_mem hfn)
      have := hto.dotfree
      rw [findNamed_name hfn] at this
      exact ⟨this, fun s hs => by cases hs⟩
  | s :: ps, l, n, o, ht, h => by
    rw [defAt] at h
    cases hfn : findNamedTree l s with
    | none => rw [hfn] at h; cases h
    | some mo =>
      rw [hfn] at h
      have hto := (treeKids_iff l).mp ht mo (findNamed_mem hfn)
      cases mo with
      | defn mm mws => cases h
      | scope mm kids =>
        have hd := hto.dotfree
        rw [findNamed_name hfn] at hd
        have ih := defAt_dotfree_tree ps kids n o (TreeMaster.of_scope hto).kids h
        refine ⟨ih.1, ?_⟩
        intro s' hs'
        rw [List.mem_cons] at hs'
        rcases hs' with rfl | hs'
        · exact hd
        · exact ih.2 s' hs'

/-- **C05, in terms of `all_definitions(sources)`**: the words of the result definition at the path
    `ps.n` are the (resolved) words of the LAST entry of `all_definitions(sources)` whose dotted path
    is `ps.n`, or the master's words if there is none. -/
theorem last_value_wins_allDefs_tree (mkids srcs : List Obj) (hf : TreeMaster mkids)
    (hs : ∀ x, ActiveIn x srcs → '.' ∉ x.name)
    (ps : List Str) (n : Str) (hinc : n ≠ "include".toList)
    (mm : Meta) (mws : List Word) (h : defAt mkids ps n = some (.defn mm mws)) :
    (defAt (treeResult mkids srcs) ps n).map Obj.words =
      some (match ((allDefinitions srcs).filter (fun x => x.1 == dottedPath ps n)).getLast? with
            | some x => (Obj.defn x.2.1 x.2.2).srcWords
            | none => mws) := by
  obtain ⟨hn, hps⟩ := defAt_dotfree_tree ps mkids n _ hf.kids h
  rw [last_value_wins_at_depth_tree mkids srcs ps n mm mws h,
    lastDef_eq_last_allDefs_tree n hn hinc ps srcs hps hs]
  cases hl : lastDef (srcAt srcs ps) n with
  | none => rfl
  | some d =>
    have hd : d ∈ defsNamed n (srcAt srcs ps) := by
      unfold lastDef at hl
      exact List.mem_of_getLast? hl
    have hdef := (mem_defsNamed.mp hd).2.1
    cases d with
    | scope m k => cases hdef
    | defn m ws => rfl

/-! ## 10. executable checks of the hypotheses (for concrete and parsed instances) -/

mutual
def allActiveObj (P : Obj → Bool) : Obj → Bool
  | .defn m ws => P (.defn m ws)
  | .scope m kids => P (.scope m kids) && allActive P kids
/-- `P` holds for every object that is enabled and lies below enabled scopes only -/
def allActive (P : Obj → Bool) : List Obj → Bool
  | [] => true
  | o :: os => (o.meta.disabled || allActiveObj P o) && allActive P os
end

theorem allActive_mem (P : Obj → Bool) : ∀ (l : List Obj), allActive P l = true →
    ∀ o ∈ l, o.meta.disabled = false → allActiveObj P o = true
  | [], _, o, ho, _ => by cases ho
  | a :: os, h, o, ho, hd => by
    rw [allActive, Bool.and_eq_true] at h
    rw [List.mem_cons] at ho
    rcases ho with rfl | ho
    · have := h.1
      rw [hd] at this
      simpa using this
    · exact allActive_mem P os h.2 o ho hd

theorem allActiveObj_self (P : Obj → Bool) (o : Obj) (h : allActiveObj P o = true) : P o = true := by
  cases o with
  | defn m ws => rw [allActiveObj] at h; exact h
  | scope m kids => rw [allActiveObj, Bool.and_eq_true] at h; exact h.1

theorem allActive_sound (P : Obj → Bool) {x : Obj} {l : List Obj} (hx : ActiveIn x l) :
    allActive P l = true → P x = true := by
  induction hx with
  | here hm hd => intro h; exact allActiveObj_self P _ (allActive_mem P _ h _ hm hd)
  | deeper hm hd _ ih =>
    intro h
    have := allActive_mem P _ h _ hm hd
    rw [allActiveObj, Bool.and_eq_true] at this
    exact ih this.2

def plainMetaB (mm : Meta) : Bool :=
  !(mm.attrs.get "multiple").truthy && !(mm.attrs.get "deprecated").truthy &&
    (match mm.attrs.get "type" with
     | .conv (.choice _) => false
     | _ => true)

theorem plainMetaB_sound (mm : Meta) (h : plainMetaB mm = true) : PlainMeta mm := by
  unfold plainMetaB at h
  simp only [Bool.and_eq_true, Bool.not_eq_true'] at h
  refine ⟨h.1.1, h.1.2, ?_⟩
  intro b hb
  rw [hb] at h
  exact absurd h.2 (by simp)

mutual
def treeObjB : Obj → Bool
  | .defn mm _ => plainMetaB mm && !mm.name.isEmpty && !mm.name.contains '.' && !mm.disabled
  | .scope mm kids =>
    !(mm.attrs.get "multiple").truthy && !mm.name.isEmpty && !mm.name.contains '.' && !mm.disabled &&
      treeKidsB kids && decide ((kids.map Obj.name).Pairwise (· ≠ ·))
def treeKidsB : List Obj → Bool
  | [] => true
  | o :: os => treeObjB o && treeKidsB os
end

theorem str_ne_nil_of_isEmpty {s : Str} (h : s.isEmpty = false) : s ≠ [] := by
  intro hs; rw [hs] at h; cases h

mutual
theorem treeObjB_sound : ∀ (o : Obj), treeObjB o = true → TreeObj o
  | .defn mm mws, h => by
    rw [treeObjB] at h
    simp only [Bool.and_eq_true, Bool.not_eq_true', List.contains_eq_mem, decide_eq_false_iff_not] at h
    rw [TreeObj]
    exact ⟨plainMetaB_sound mm h.1.1.1, str_ne_nil_of_isEmpty h.1.1.2, h.1.2, h.2⟩
  | .scope mm kids, h => by
    rw [treeObjB] at h
    simp only [Bool.and_eq_true, Bool.not_eq_true', List.contains_eq_mem, decide_eq_false_iff_not,
      decide_eq_true_eq] at h
    rw [TreeObj]
    exact ⟨h.1.1.1.1.1, str_ne_nil_of_isEmpty h.1.1.1.1.2, h.1.1.1.2, h.1.1.2,
      treeKidsB_sound kids h.1.2, h.2⟩
theorem treeKidsB_sound : ∀ (l : List Obj), treeKidsB l = true → TreeKids l
  | [], _ => by rw [TreeKids]; trivial
  | o :: os, h => by
    rw [treeKidsB, Bool.and_eq_true] at h
    rw [TreeKids]
    exact ⟨treeObjB_sound o h.1, treeKidsB_sound os h.2⟩
end

/-- executable form of `TreeMaster` -/
def treeMasterB (mkids : List Obj) : Bool :=
  treeKidsB mkids && decide ((mkids.map Obj.name).Pairwise (· ≠ ·))

theorem treeMasterB_sound (mkids : List Obj) (h : treeMasterB mkids = true) : TreeMaster mkids := by
  unfold treeMasterB at h
  simp only [Bool.and_eq_true, decide_eq_true_eq] at h
  exact ⟨treeKidsB_sound mkids h.1, h.2⟩

/-- executable form of the master-side side conditions: a `TreeMaster` nested at most 1000 deep, no
    definition called `include`, fit for re-fetching -/
def masterCheck (mkids : List Obj) : Bool :=
  treeMasterB mkids && decide (depthL mkids ≤ 1000) &&
    allActive (fun d => !d.isDefn ||
      (d.name != "include".toList && d.meta.tmpl == 0 && d.meta.varRes.isNone && !hasDollar d.words)) mkids

/-- executable form of the source-side side conditions, at every depth below enabled scopes:
    definitions variable-free without recorded resolution, names dot-free, scopes named -/
def srcCheck (srcs : List Obj) : Bool :=
  allActive (fun o => !o.name.contains '.' &&
    (if o.isDefn then o.meta.varRes.isNone && !hasDollar o.words else !o.name.isEmpty)) srcs

structure MasterOK (mkids : List Obj) : Prop where
  tree : TreeMaster mkids
  depth : depthL mkids ≤ 1000
  noInclude : NoIncludeTree mkids
  refetch : RefetchTree mkids

structure SrcsOK (srcs : List Obj) : Prop where
  tree : SrcTree srcs
  plain : SrcPlain srcs
  noDollar : SrcNoDollar srcs

theorem masterCheck_sound (mkids : List Obj) (h : masterCheck mkids = true) : MasterOK mkids := by
  unfold masterCheck at h
  simp only [Bool.and_eq_true, decide_eq_true_eq] at h
  refine ⟨treeMasterB_sound mkids h.1.1, h.1.2, ?_, ?_⟩
  · intro d hd hdef
    have := allActive_sound _ hd h.2
    simp only [hdef, Bool.not_true, Bool.false_or, Bool.and_eq_true, bne_iff_ne, ne_eq] at this
    exact this.1.1.1
  · intro d hd hdef
    have := allActive_sound _ hd h.2
    simp only [hdef, Bool.not_true, Bool.false_or, Bool.and_eq_true, beq_iff_eq,
      Option.isNone_iff_eq_none, Bool.not_eq_true'] at this
    exact ⟨this.1.1.2, this.1.2, this.2⟩

theorem srcCheck_sound (srcs : List Obj) (h : srcCheck srcs = true) : SrcsOK srcs := by
  unfold srcCheck at h
  have key : ∀ x, ActiveIn x srcs →
      '.' ∉ x.name ∧ (x.isDefn = true → x.meta.varRes = none ∧ hasDollar x.words = false) ∧
        (x.isDefn = false → x.name ≠ []) := by
    intro x hx
    have := allActive_sound _ hx h
    simp only [Bool.and_eq_true, Bool.not_eq_true', List.contains_eq_mem, decide_eq_false_iff_not] at this
    refine ⟨this.1, ?_, ?_⟩
    · intro hdef
      have h2 := this.2
      simp only [hdef, if_true, Bool.and_eq_true, Option.isNone_iff_eq_none, Bool.not_eq_true'] at h2
      exact h2
    · intro hdef
      have h2 := this.2
      simp only [hdef, Bool.false_eq_true, if_false, Bool.not_eq_true'] at h2
      exact str_ne_nil_of_isEmpty h2
  refine ⟨⟨?_, ?_⟩, ⟨?_, ?_⟩, ?_⟩
  · intro x hx hdef
    have := (key x hx).2.1 hdef
    exact .inr this
  · intro m kids hx
    exact (key _ hx).2.2 rfl
  · intro x hx hdef
    exact srcRefs_of_varRes_none x ((key x hx).2.1 hdef).1
  · intro x hx
    exact (key x hx).1
  · intro x hx hdef
    have := (key x hx).2.1 hdef
    rw [srcWords_of_varRes_none x this.1]
    exact this.2

/-! ## 11. the master's definition paths are the paths of `all_definitions(master)` -/

theorem NoIncludeTree.head {mo : Obj} {rest : List Obj} (h : NoIncludeTree (mo :: rest)) : NoIncludeTree [mo] :=
  fun d hd hdef =>
    h d (hd.mono (by intro y hy; rw [List.mem_singleton] at hy; subst hy; exact List.mem_cons_self)) hdef

theorem NoIncludeTree.tail {mo : Obj} {rest : List Obj} (h : NoIncludeTree (mo :: rest)) : NoIncludeTree rest :=
  fun d hd hdef => h d (hd.mono (fun y hy => List.mem_cons_of_mem _ hy)) hdef

mutual
theorem defPathsObj_eq_allDefs_tree : ∀ (o : Obj) (p : Str), TreeObj o → NoIncludeTree [o] →
    defPathsObj o p = (allDefsObj o p).map (·.1)
  | .defn mm mws, p, ht, hinc => by
    rw [TreeObj] at ht
    have hinc' : mm.name ≠ "include".toList :=
      hinc (.defn mm mws) (.here (List.mem_singleton.mpr rfl) ht.2.2.2) rfl
    have : (mm.name == "include".toList) = false := beq_eq_false_iff_ne.mpr hinc'
    rw [defPathsObj, allDefsObj, this]
    rfl
  | .scope mm kids, p, ht, hinc => by
    have hk := (TreeMaster.of_scope ht).kids
    rw [TreeObj] at ht
    rw [defPathsObj, allDefsObj]
    exact defPaths_eq_allDefs_tree kids _ hk
      (fun d hd hdef => hinc d (.deeper (List.mem_singleton.mpr rfl) ht.2.2.2.1 hd) hdef)
theorem defPaths_eq_allDefs_tree : ∀ (l : List Obj) (p : Str), TreeKids l → NoIncludeTree l →
    defPaths l p = (allDefsObj.allDefsList l p).map (·.1)
  | [], p, _, _ => by rw [defPaths, allDefsObj.allDefsList]; rfl
  | o :: os, p, ht, hinc => by
    rw [TreeKids] at ht
    have hen : o.meta.disabled = false := ht.1.enabled
    rw [defPaths, allDefsObj.allDefsList, hen, List.map_append,
      defPathsObj_eq_allDefs_tree o p ht.1 hinc.head, defPaths_eq_allDefs_tree os p ht.2 hinc.tail]
    rfl
end

/-- the definition paths of a tree master are the paths `all_definitions(master)` lists -/
theorem defPaths_eq_allDefinitions (mkids : List Obj) (hf : TreeMaster mkids) (hinc : NoIncludeTree mkids) :
    defPaths mkids [] = (allDefinitions mkids).map (·.1) :=
  defPaths_eq_allDefs_tree mkids [] hf.kids hinc

end Phil
