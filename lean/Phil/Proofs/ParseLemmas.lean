/-
  Parser-level lemmas (C02 building blocks, document clause of C03): what one step of the word
  iterator does on blanks / plain words / single-character words, what `collect_assigned_words` does
  with the word it has just read, and what one turn of `collect_objects` does for a plain definition.
-/
import Phil.Parse
import Phil.Proofs.Quote
import Phil.Proofs.Lines
import Phil.Props.C03
set_option linter.unusedSimpArgs false
set_option linter.unusedVariables false
namespace Phil

/-! ### word iterator: blanks, plain words, single-character words -/

/-- look-ahead test: the unquoted scanner stops in front of `rest` -/
def stopsAt (st : Settings) : Str → Bool
  | [] => true
  | d :: _ => endsUnquoted st d

def isQuoteChar (c : Char) : Bool := c == '"' || c == '\''

/-- leading white space is skipped, newlines in it are counted -/
theorem nextWordAux_skip (st : Settings) (sp rest : Str) (h : ∀ c ∈ sp, isSpace c = true) :
    ∀ l, nextWordAux st false (sp ++ rest) l = nextWordAux st false rest (l + nlCount sp) := by
  induction sp with
  | nil => intro l; simp
  | cons c cs ih =>
    intro l
    have hc : isSpace c = true := h c (by simp)
    have hcs : ∀ d ∈ cs, isSpace d = true := fun d hd => h d (by simp [hd])
    rw [List.cons_append, nextWordAux, if_pos hc, ih hcs, bump_eq, nlCount_cons c cs, Nat.add_assoc]

/-- only white space is left -/
theorem nextWordAux_blank_eof (st : Settings) (sp : Str) (l : Nat) (hsp : ∀ d ∈ sp, isSpace d = true) :
    nextWordAux st false sp l = .ok none := by
  have := nextWordAux_skip st sp [] hsp l
  rw [List.append_nil] at this
  rw [this]; rfl

theorem scanU_plain (st : Settings) (w rest : Str) (hw : ∀ c ∈ w, endsUnquoted st c = false)
    (hr : stopsAt st rest = true) :
    ∀ acc, scanU st (w ++ rest) acc = (acc.reverse ++ w, rest) := by
  induction w with
  | nil =>
    intro acc
    cases rest with
    | nil => simp [scanU]
    | cons d r =>
      have : endsUnquoted st d = true := hr
      simp [scanU, this]
  | cons c cs ih =>
    intro acc
    have hc : endsUnquoted st c = false := hw c (by simp)
    have hcs : ∀ d ∈ cs, endsUnquoted st d = false := fun d hd => hw d (by simp [hd])
    rw [List.cons_append, scanU]
    simp only [hc, Bool.false_eq_true, ↓reduceIte]
    rw [ih hcs]
    simp

theorem isSpace_false_of_not_ends {st : Settings} {c : Char} (h : endsUnquoted st c = false) :
    isSpace c = false := by
  unfold endsUnquoted at h
  cases hs : isSpace c
  · rfl
  · rw [hs] at h; simp at h

theorem startsLong_of_not_ends {st : Settings} {c : Char} (hcontig : st.contig = [])
    (h : endsUnquoted st c = false) : startsLong st c = true := by
  unfold endsUnquoted at h
  unfold startsLong
  cases hs : st.single.contains c
  · simp [hcontig]
  · rw [hs] at h; simp at h

/-- one step of the word iterator at the first character of a plain unquoted word `c :: w` that is
    followed by a character ending it (or by the end of the text) -/
theorem nextWordAux_plain (st : Settings) (c : Char) (w rest : Str) (l : Nat)
    (hc : endsUnquoted st c = false) (hq : isQuoteChar c = false)
    (hcm : st.commentChars.contains c = false) (hl : startsLong st c = true)
    (hw : ∀ d ∈ w, endsUnquoted st d = false) (hr : stopsAt st rest = true) :
    nextWordAux st false (c :: w ++ rest) l
      = .ok (some ({ value := c :: w, quote := none, line := some l }, ⟨rest, l⟩)) := by
  have hsp := isSpace_false_of_not_ends hc
  have hq' : (c == '"' || c == '\'') = false := hq
  rw [List.cons_append, nextWordAux_word st c _ l hsp (by unfold isCommentStart; rw [hcm]; rfl)]
  unfold wordAt
  simp only [hq', Bool.false_eq_true, ↓reduceIte, hl, scanU_plain st w rest hw hr]
  simp [Except.map]

/-- one step of the word iterator at a single-character word -/
theorem nextWordAux_single (st : Settings) (c : Char) (rest : Str) (l : Nat)
    (hsp : isSpace c = false) (hq : isQuoteChar c = false)
    (hcm : st.commentChars.contains c = false) (hl : startsLong st c = false) :
    nextWordAux st false (c :: rest) l
      = .ok (some ({ value := [c], quote := none, line := some l }, ⟨rest, l⟩)) := by
  have hq' : (c == '"' || c == '\'') = false := hq
  rw [nextWordAux_word st c _ l hsp (by unfold isCommentStart; rw [hcm]; rfl)]
  unfold wordAt
  simp only [hq', Bool.false_eq_true, ↓reduceIte, hl]
  simp [Except.map]

/-- the word read at a character that is not a quote: unquoted, starts with that character, stays on
    the line -/
theorem wordAt_unquoted (st : Settings) (c : Char) (cs : Str) (line : Nat)
    (hq : isQuoteChar c = false) :
    ∃ v rest, wordAt st c cs line
      = .ok ({ value := c :: v, quote := none, line := some line }, ⟨rest, line⟩) := by
  have hq' : (c == '"' || c == '\'') = false := hq
  unfold wordAt
  simp only [hq', Bool.false_eq_true, ↓reduceIte]
  split
  · generalize hu : scanU st cs [c] = p
    obtain ⟨v, r⟩ := p
    obtain ⟨k, _, _, hv⟩ := scanU_line st _ _ _ _ hu
    exact ⟨k, r, by rw [hv]; rfl⟩
  · exact ⟨[], cs, rfl⟩

/-- first character of a text that is not white space -/
def firstNonSpace : Str → Option Char
  | [] => none
  | c :: cs => if isSpace c then firstNonSpace cs else some c

theorem firstNonSpace_none {rest : Str} (h : firstNonSpace rest = none) :
    ∀ d ∈ rest, isSpace d = true := by
  induction rest with
  | nil => intro d hd; simp at hd
  | cons c cs ih =>
    simp only [firstNonSpace] at h
    split at h
    · rename_i hc
      intro d hd
      simp only [List.mem_cons] at hd
      rcases hd with e | e
      · rw [e]; exact hc
      · exact ih h d e
    · cases h

theorem firstNonSpace_some {rest : Str} {c : Char} (h : firstNonSpace rest = some c) :
    ∃ sp r, rest = sp ++ c :: r ∧ (∀ d ∈ sp, isSpace d = true) ∧ isSpace c = false := by
  induction rest with
  | nil => simp [firstNonSpace] at h
  | cons d ds ih =>
    simp only [firstNonSpace] at h
    split at h
    · rename_i hd
      obtain ⟨sp, r, e, hsp, hc⟩ := ih h
      refine ⟨d :: sp, r, by rw [e]; rfl, ?_, hc⟩
      intro x hx
      simp only [List.mem_cons] at hx
      rcases hx with e | e
      · rw [e]; exact hd
      · exact hsp x e
    · rename_i hd
      simp only [Option.some.injEq] at h
      subst h
      exact ⟨[], ds, rfl, by intro x hx; simp at hx, by simpa using hd⟩

/-- the next word of a text whose first non-blank character is not a quote (no comment characters
    in the settings): none at the end, else an unquoted word starting with that character -/
theorem nextWordAux_firstNonSpace (st : Settings) (hcm : st.commentChars = []) (rest : Str) (L : Nat) :
    (firstNonSpace rest = none ∧ nextWordAux st false rest L = .ok none) ∨
    (∃ c sp r v rest', firstNonSpace rest = some c ∧ rest = sp ++ c :: r ∧
      (∀ d ∈ sp, isSpace d = true) ∧ isSpace c = false ∧
      (isQuoteChar c = false →
        nextWordAux st false rest L
          = .ok (some ({ value := c :: v, quote := none, line := some (L + nlCount sp) },
                       ⟨rest', L + nlCount sp⟩)))) := by
  cases h : firstNonSpace rest with
  | none => exact Or.inl ⟨rfl, nextWordAux_blank_eof st rest L (firstNonSpace_none h)⟩
  | some c =>
    obtain ⟨sp, r, e, hsp, hc⟩ := firstNonSpace_some h
    by_cases hq : isQuoteChar c = false
    · obtain ⟨v, rest', hw⟩ := wordAt_unquoted st c r (L + nlCount sp) hq
      refine Or.inr ⟨c, sp, r, v, rest', rfl, e, hsp, hc, fun _ => ?_⟩
      rw [e, nextWordAux_skip st sp _ hsp,
        nextWordAux_word st c r _ hc (by unfold isCommentStart; rw [hcm]; rfl), hw]
      rfl
    · exact Or.inr ⟨c, sp, r, [], [], rfl, e, hsp, hc, fun h' => absurd h' hq⟩


/-- blanks inside a line: spaces and tabs -/
def Blanks (sp : Str) : Prop := ∀ d ∈ sp, d = ' ' ∨ d = '\t'

theorem Blanks.isSpace {sp : Str} (h : Blanks sp) : ∀ d ∈ sp, isSpace d = true := by
  intro d hd
  rcases h d hd with e | e <;> subst e <;> rfl

theorem Blanks.nlCount {sp : Str} (h : Blanks sp) : nlCount sp = 0 := by
  induction sp with
  | nil => rfl
  | cons c cs ih =>
    have hc : c ≠ '\n' := by
      rcases h c (by simp) with e | e <;> subst e <;> decide
    rw [nlCount_cons_ne c cs hc]
    exact ih (fun d hd => h d (by simp [hd]))

/-! ### pop / try_pop in terms of the word iterator -/

theorem tryPop_of_next {st : Settings} {ci : CI} {r : Option (Word × CI)}
    (h : nextWord st ci = .ok r) : tryPop st ci = .ok r := by
  simp [tryPop, h]

theorem pop_of_next {st : Settings} {ci ci' : CI} {w : Word}
    (h : nextWord st ci = .ok (some (w, ci'))) : pop st ci = .ok (w, ci') := by
  simp [pop, tryPop, h]

theorem popUnquoted_of_next {st : Settings} {ci ci' : CI} {w : Word}
    (h : nextWord st ci = .ok (some (w, ci'))) (hq : w.quote = none) :
    popUnquoted st ci = .ok (w, ci') := by
  simp [popUnquoted, pop, tryPop, h, hq]

theorem tryPopUnquoted_of_next {st : Settings} {ci ci' : CI} {w : Word}
    (h : nextWord st ci = .ok (some (w, ci'))) (hq : w.quote = none) :
    tryPopUnquoted st ci = .ok (some (w, ci')) := by
  simp [tryPopUnquoted, tryPop, h, hq]

theorem tryPopUnquoted_of_next_none {st : Settings} {ci : CI}
    (h : nextWord st ci = .ok none) : tryPopUnquoted st ci = .ok none := by
  simp [tryPopUnquoted, tryPop, h]

/-! ### collect_assigned_words, one word at a time -/

/-- the four unquoted words that end a value (or start a comment) -/
def isSpecialValue (v : Str) : Bool := v == ['{'] || v == ['}'] || v == [';'] || v == ['#']

/-- end of input: the collected words are returned -/
theorem cAA_end (fuel : Nat) (ci : CI) (last : Word) (hc : Bool) (acc : List Word)
    (h : nextWord valueSettings ci = .ok none) :
    collectAssignedAux (fuel + 1) ci last hc acc = .ok (acc.reverse, ci) := by
  simp [collectAssignedAux, tryPop, h]

/-- a quoted word is always taken (outside a comment) and the collector goes on -/
theorem cAA_quoted (fuel : Nat) (ci ci' : CI) (last w : Word) (acc : List Word) (q : Quote)
    (h : nextWord valueSettings ci = .ok (some (w, ci'))) (hq : w.quote = some q) :
    collectAssignedAux (fuel + 1) ci last false acc
      = collectAssignedAux fuel ci' w false (w :: acc) := by
  simp [collectAssignedAux, tryPop, h, hq]

/-- an unquoted word (not `;`, not `#`) on another line than the previous word, the previous word
    not being a continuation backslash: the collector stops and backs up in front of that word -/
theorem cAA_backup (fuel : Nat) (ci ci' : CI) (last w : Word) (acc : List Word)
    (h : nextWord valueSettings ci = .ok (some (w, ci'))) (hq : w.quote = none)
    (hv1 : w.value ≠ [';']) (hv2 : w.value ≠ ['#'])
    (hlast : isUnq last "\\" = false) (hline : w.line ≠ last.line) :
    collectAssignedAux (fuel + 1) ci last false acc = .ok (acc.reverse, ci) := by
  simp [collectAssignedAux, tryPop, h, hq, hv1, hv2, hlast, hline]

/-- an ordinary unquoted word on the line of the previous word is taken -/
theorem cAA_take (fuel : Nat) (ci ci' : CI) (last w : Word) (acc : List Word)
    (h : nextWord valueSettings ci = .ok (some (w, ci'))) (hq : w.quote = none)
    (hv : isSpecialValue w.value = false) (hb : w.value ≠ ['\\'])
    (hline : w.line = last.line) :
    collectAssignedAux (fuel + 1) ci last false acc
      = collectAssignedAux fuel ci' w false (w :: acc) := by
  have hv' : (w.value == ['{'] || w.value == ['}'] || w.value == [';'] || w.value == ['#']) = false := hv
  by_cases hlast : isUnq last "\\" = true <;>
    simp [collectAssignedAux, tryPop, h, hq, hv', hb, hlast, hline]

/-- an unquoted `;` ends the value and is consumed -/
theorem cAA_semicolon (fuel : Nat) (ci ci' : CI) (last w : Word) (acc : List Word)
    (h : nextWord valueSettings ci = .ok (some (w, ci'))) (hq : w.quote = none)
    (hv : w.value = [';']) :
    collectAssignedAux (fuel + 1) ci last false acc = .ok (acc.reverse, ci') := by
  simp [collectAssignedAux, tryPop, h, hq, hv]

/-- an unquoted `#` starts a comment -/
theorem cAA_hash (fuel : Nat) (ci ci' : CI) (last w : Word) (acc : List Word)
    (h : nextWord valueSettings ci = .ok (some (w, ci'))) (hq : w.quote = none)
    (hv : w.value = ['#']) :
    collectAssignedAux (fuel + 1) ci last false acc = collectAssignedAux fuel ci' w true acc := by
  simp [collectAssignedAux, tryPop, h, hq, hv]

/-- inside a comment an unquoted word on the same line is dropped -/
theorem cAA_comment_word (fuel : Nat) (ci ci' : CI) (last w : Word) (acc : List Word)
    (h : nextWord valueSettings ci = .ok (some (w, ci'))) (hq : w.quote = none)
    (hline : w.line = last.line) :
    collectAssignedAux (fuel + 1) ci last true acc = collectAssignedAux fuel ci' w true acc := by
  simp only [collectAssignedAux, tryPop, h, hq, hline]
  by_cases h1 : isUnq last "\\" = true <;> by_cases h2 : w.value = ['\\'] <;> simp [h1, h2]

/-- inside a comment an unquoted word on a later line ends the value, unless the comment's last word
    is a backslash -/
theorem cAA_comment_backup (fuel : Nat) (ci ci' : CI) (last w : Word) (acc : List Word)
    (h : nextWord valueSettings ci = .ok (some (w, ci'))) (hq : w.quote = none)
    (hlast : isUnq last "\\" = false) (hline : w.line ≠ last.line) :
    collectAssignedAux (fuel + 1) ci last true acc = .ok (acc.reverse, ci) := by
  simp [collectAssignedAux, tryPop, h, hq, hlast, hline]

/-- What may follow a complete value whose last word is on line `l`: the end of the input, or an
    unquoted word other than `;` / `#` that sits on another line. -/
def EndsValue (ci : CI) (l : Nat) : Prop :=
  nextWord valueSettings ci = .ok none ∨
  ∃ w' ci', nextWord valueSettings ci = .ok (some (w', ci')) ∧ w'.quote = none ∧
    w'.value ≠ [';'] ∧ w'.value ≠ ['#'] ∧ w'.line ≠ some l

theorem EndsValue_eof (sp : Str) (L l : Nat) (hsp : ∀ d ∈ sp, isSpace d = true) :
    EndsValue ⟨sp, L⟩ l :=
  Or.inl (nextWordAux_blank_eof valueSettings sp L hsp)

theorem nextWord_newline (st : Settings) (rest : Str) (l : Nat) :
    nextWord st ⟨'\n' :: rest, l⟩ = nextWordAux st false rest (l + 1) := by
  have h1 : isSpace '\n' = true := by rfl
  have h2 : bump '\n' l = l + 1 := by simp [bump]
  unfold nextWord
  simp only [nextWordAux, h1, ↓reduceIte, h2]

/-- A newline ends the value when the first non-blank character after it (if there is one) is not a
    quote, not `;` and not `#`. -/
theorem EndsValue_next_line (rest : Str) (l : Nat)
    (hnext : ∀ c, firstNonSpace rest = some c → isQuoteChar c = false ∧ c ≠ ';' ∧ c ≠ '#') :
    EndsValue ⟨'\n' :: rest, l⟩ l := by
  unfold EndsValue
  rw [nextWord_newline]
  rcases nextWordAux_firstNonSpace valueSettings rfl rest (l + 1) with ⟨_, h⟩ | ⟨c, sp, r, v, rest', hf, _, _, _, h⟩
  · exact Or.inl h
  · obtain ⟨hq, h1, h2⟩ := hnext c hf
    refine Or.inr ⟨_, _, h hq, rfl, ?_, ?_, ?_⟩
    · intro e; simp only [List.cons.injEq] at e; exact h1 e.1
    · intro e; simp only [List.cons.injEq] at e; exact h2 e.1
    · intro e; simp only [Option.some.injEq] at e; omega

/-- the collector stops, without consuming anything, in front of text satisfying `EndsValue` -/
theorem cAA_stop (fuel : Nat) (ci : CI) (last : Word) (acc : List Word) (l : Nat)
    (hend : EndsValue ci l) (hl : last.line = some l) (hlast : isUnq last "\\" = false) :
    collectAssignedAux (fuel + 1) ci last false acc = .ok (acc.reverse, ci) := by
  rcases hend with h | ⟨w', ci', h, hq, hv1, hv2, hline⟩
  · exact cAA_end fuel ci last false acc h
  · exact cAA_backup fuel ci ci' last w' acc h hq hv1 hv2 hlast (by rw [hl]; exact hline)

theorem quoteStr_length_pos (q : Quote) (s : Str) : 1 ≤ (quoteStr q s).length := by
  cases q <;> simp [quoteStr, Quote.token, Quote.triple] <;> omega

/-- `collect_assigned_words` on white space, one quoted literal `quoteStr q s`, and then text that
    ends the value: exactly one word, carrying exactly `s`; the following text is untouched. -/
theorem collectAssigned_quoted (q : Quote) (s sp rest : Str) (l : Nat) (lead : Word)
    (hsp : ∀ d ∈ sp, isSpace d = true) (hrest : ∀ r, rest ≠ q.char :: r)
    (hend : EndsValue ⟨rest, l + nlCount sp + nlCount s⟩ (l + nlCount sp)) :
    collectAssigned ⟨sp ++ quoteStr q s ++ rest, l⟩ lead
      = .ok ([{ value := s, quote := some q, line := some (l + nlCount sp) }],
             ⟨rest, l + nlCount sp + nlCount s⟩) := by
  have hcm : valueSettings.commentChars.contains q.char = false := rfl
  have hw : nextWord valueSettings ⟨sp ++ quoteStr q s ++ rest, l⟩
      = .ok (some ({ value := s, quote := some q, line := some (l + nlCount sp) },
                   ⟨rest, l + nlCount sp + nlCount s⟩)) := by
    unfold nextWord
    simp only []
    rw [List.append_assoc, nextWordAux_skip valueSettings sp _ hsp,
      Phil.C03.next_word_of_quoted valueSettings q s rest _ hcm hrest]
  obtain ⟨n, hn⟩ : ∃ n, (sp ++ quoteStr q s ++ rest).length + 1 = n + 2 := by
    refine ⟨(sp ++ quoteStr q s ++ rest).length - 1, ?_⟩
    have := quoteStr_length_pos q s
    simp only [List.length_append]
    omega
  unfold collectAssigned
  simp only []
  rw [hn, cAA_quoted (n + 1) _ _ lead _ [] q hw rfl,
    cAA_stop n _ _ _ (l + nlCount sp) hend rfl (by simp [isUnq])]
  simp

/-- A plain unquoted value word: non-empty, no character that ends an unquoted word in value context
    (white space, `{`, `}`, `;`), not starting with a quote character, and neither the continuation
    backslash nor the comment word `#`. -/
def plainWord (w : Str) : Bool :=
  !w.isEmpty && w.all (fun c => !endsUnquoted valueSettings c) && !(w.head?.any isQuoteChar) &&
  w != ['\\'] && w != ['#']

theorem plainWord_cases {w : Str} (h : plainWord w = true) :
    ∃ c t, w = c :: t ∧ (∀ d ∈ c :: t, endsUnquoted valueSettings d = false) ∧
      isQuoteChar c = false ∧ c :: t ≠ ['\\'] ∧ c :: t ≠ ['#'] := by
  cases w with
  | nil => simp [plainWord] at h
  | cons c t =>
    refine ⟨c, t, rfl, ?_⟩
    simp only [plainWord, Bool.and_eq_true, bne_iff_ne, ne_eq, Bool.not_eq_true',
      List.all_eq_true, List.head?_cons, Option.any_some] at h
    obtain ⟨⟨⟨⟨_, h2⟩, h3⟩, h4⟩, h5⟩ := h
    exact ⟨h2, h3, h4, h5⟩

theorem not_special_of_plain {c : Char} {t : Str}
    (hall : ∀ d ∈ c :: t, endsUnquoted valueSettings d = false) (hh : c :: t ≠ ['#']) :
    isSpecialValue (c :: t) = false := by
  have hc := hall c (by simp)
  have e1 : endsUnquoted valueSettings '{' = true := by rfl
  have e2 : endsUnquoted valueSettings '}' = true := by rfl
  have e3 : endsUnquoted valueSettings ';' = true := by rfl
  have n1 : c ≠ '{' := fun e => by rw [e, e1] at hc; cases hc
  have n2 : c ≠ '}' := fun e => by rw [e, e2] at hc; cases hc
  have n3 : c ≠ ';' := fun e => by rw [e, e3] at hc; cases hc
  simp only [isSpecialValue, Bool.or_eq_false_iff, beq_eq_false_iff_ne, ne_eq, List.cons.injEq,
    not_and]
  exact ⟨⟨⟨fun e => absurd e n1, fun e => absurd e n2⟩, fun e => absurd e n3⟩, fun e1 e2 => hh (by rw [e1, e2])⟩

/-- the word iterator (value context) on blanks followed by a plain word -/
theorem nextWord_value_plain (sp w rest : Str) (l : Nat) (hsp : ∀ d ∈ sp, isSpace d = true)
    (hw : plainWord w = true) (hr : stopsAt valueSettings rest = true) :
    nextWord valueSettings ⟨sp ++ w ++ rest, l⟩
      = .ok (some ({ value := w, quote := none, line := some (l + nlCount sp) },
                   ⟨rest, l + nlCount sp⟩)) := by
  obtain ⟨c, t, rfl, hall, hq, _, _⟩ := plainWord_cases hw
  have hc := hall c (by simp)
  unfold nextWord
  simp only []
  rw [List.append_assoc, nextWordAux_skip valueSettings sp _ hsp]
  exact nextWordAux_plain valueSettings c t rest _ hc hq rfl (startsLong_of_not_ends rfl hc)
    (fun d hd => hall d (by simp [hd])) hr

/-- white space containing a newline followed by a plain word ends the value of the line before -/
theorem EndsValue_plain (sp w rest : Str) (L l : Nat) (hsp : ∀ d ∈ sp, isSpace d = true)
    (hw : plainWord w = true) (hr : stopsAt valueSettings rest = true) (hne : L + nlCount sp ≠ l) :
    EndsValue ⟨sp ++ w ++ rest, L⟩ l := by
  obtain ⟨c, t, e, hall, hq, hb, hh⟩ := plainWord_cases hw
  have hsv := not_special_of_plain hall hh
  refine Or.inr ⟨_, _, nextWord_value_plain sp w rest L hsp hw hr, rfl, ?_, ?_, ?_⟩
  · intro e2
    subst e
    have e3 : c :: t = [';'] := e2
    rw [e3] at hsv
    exact absurd hsv (by decide)
  · subst e; exact hh
  · intro e2
    exact hne (by simpa using e2)

/-- `collect_assigned_words` on blanks, one plain word, and then text that ends the value -/
theorem collectAssigned_plain (w sp rest : Str) (l : Nat) (lead : Word)
    (hsp : ∀ d ∈ sp, isSpace d = true) (hlead : lead.line = some (l + nlCount sp))
    (hw : plainWord w = true) (hr : stopsAt valueSettings rest = true)
    (hend : EndsValue ⟨rest, l + nlCount sp⟩ (l + nlCount sp)) :
    collectAssigned ⟨sp ++ w ++ rest, l⟩ lead
      = .ok ([{ value := w, quote := none, line := some (l + nlCount sp) }],
             ⟨rest, l + nlCount sp⟩) := by
  have hnw := nextWord_value_plain sp w rest l hsp hw hr
  obtain ⟨c, t, rfl, hall, hq, hb, hh⟩ := plainWord_cases hw
  obtain ⟨n, hn⟩ : ∃ n, (sp ++ c :: t ++ rest).length + 1 = n + 2 := by
    refine ⟨(sp ++ c :: t ++ rest).length - 1, ?_⟩
    simp only [List.length_append, List.length_cons]
    omega
  unfold collectAssigned
  simp only []
  rw [hn, cAA_take (n + 1) _ _ lead _ [] hnw rfl (not_special_of_plain hall hh) hb (by rw [hlead]),
    cAA_stop n _ _ _ (l + nlCount sp) hend rfl
      (by simp only [isUnq, Option.isNone_none, Bool.true_and, beq_eq_false_iff_ne, ne_eq]
          exact hb)]
  simp

/-- the word iterator (value context) on white space followed by `;` -/
theorem nextWord_value_semicolon (sp rest : Str) (l : Nat) (hsp : ∀ d ∈ sp, isSpace d = true) :
    nextWord valueSettings ⟨sp ++ ';' :: rest, l⟩
      = .ok (some ({ value := [';'], quote := none, line := some (l + nlCount sp) },
                   ⟨rest, l + nlCount sp⟩)) := by
  unfold nextWord
  simp only []
  rw [nextWordAux_skip valueSettings sp _ hsp]
  exact nextWordAux_single valueSettings ';' rest _ (by rfl) (by rfl) (by rfl) (by rfl)

theorem stopsAt_space_append (st : Settings) (sp rest : Str) (hsp : ∀ d ∈ sp, isSpace d = true)
    (hr : stopsAt st rest = true) : stopsAt st (sp ++ rest) = true := by
  cases sp with
  | nil => exact hr
  | cons d ds =>
    have : isSpace d = true := hsp d (by simp)
    simp [stopsAt, endsUnquoted, this]

/-- `collect_assigned_words` on blanks, one plain word, white space and `;`: the `;` is consumed -/
theorem collectAssigned_plain_semicolon (w sp sp2 rest : Str) (l : Nat) (lead : Word)
    (hsp : ∀ d ∈ sp, isSpace d = true) (hsp2 : ∀ d ∈ sp2, isSpace d = true)
    (hlead : lead.line = some (l + nlCount sp)) (hw : plainWord w = true) :
    collectAssigned ⟨sp ++ w ++ (sp2 ++ ';' :: rest), l⟩ lead
      = .ok ([{ value := w, quote := none, line := some (l + nlCount sp) }],
             ⟨rest, l + nlCount sp + nlCount sp2⟩) := by
  have hr : stopsAt valueSettings (sp2 ++ ';' :: rest) = true :=
    stopsAt_space_append _ _ _ hsp2 (by rfl)
  have hnw := nextWord_value_plain sp w _ l hsp hw hr
  have hsc := nextWord_value_semicolon sp2 rest (l + nlCount sp) hsp2
  obtain ⟨c, t, rfl, hall, hq, hb, hh⟩ := plainWord_cases hw
  obtain ⟨n, hn⟩ : ∃ n, (sp ++ c :: t ++ (sp2 ++ ';' :: rest)).length + 1 = n + 2 := by
    refine ⟨(sp ++ c :: t ++ (sp2 ++ ';' :: rest)).length - 1, ?_⟩
    simp only [List.length_append, List.length_cons]
    omega
  unfold collectAssigned
  simp only []
  rw [hn, cAA_take (n + 1) _ _ lead _ [] hnw rfl (not_special_of_plain hall hh) hb (by rw [hlead]),
    cAA_semicolon n _ _ _ _ _ hsc rfl rfl]
  simp

/-! ### a trailing comment -/

/-- white space without a line break -/
def InlineSpace (sp : Str) : Prop := ∀ d ∈ sp, isSpace d = true ∧ d ≠ '\n'

theorem InlineSpace.isSpace {sp : Str} (h : InlineSpace sp) : ∀ d ∈ sp, isSpace d = true :=
  fun d hd => (h d hd).1

theorem InlineSpace.nlCount {sp : Str} (h : InlineSpace sp) : nlCount sp = 0 := by
  induction sp with
  | nil => rfl
  | cons c cs ih =>
    rw [nlCount_cons_ne c cs (h c (by simp)).2]
    exact ih (fun d hd => h d (by simp [hd]))

/-- Reader for the text of a comment in value context, from the character after the `#` up to (not
    including) the newline.  It accepts the text iff it contains no newline, no word of it *starts*
    with a quote character (a quote inside a word is harmless), and its last word is not a lone
    backslash.  Words are delimited the way the value-context tokenizer delimits them: by white
    space and by the single-character words `{ } ;`.
    `bs`: the last complete word read so far is a lone `\`; `atStart`: the next character would
    start a new word. -/
def commentOk : Bool → Bool → Str → Bool
  | bs, _, [] => !bs
  | bs, atStart, c :: cs =>
    if c == '\n' then false
    else if isSpace c then commentOk bs true cs
    else if endsUnquoted valueSettings c then commentOk false true cs
    else if atStart then !isQuoteChar c && commentOk (c == '\\') false cs
    else commentOk false false cs

theorem ends_value_cases {c : Char} (h : endsUnquoted valueSettings c = true) :
    isSpace c = true ∨ c = '{' ∨ c = '}' ∨ c = ';' := by
  simp [endsUnquoted, valueSettings, Gen.valueSingle] at h
  rcases h with h | h | h | h
  · exact Or.inl h
  · exact Or.inr (Or.inl h)
  · exact Or.inr (Or.inr (Or.inl h))
  · exact Or.inr (Or.inr (Or.inr h))

theorem ends_of_isSpace (st : Settings) {c : Char} (h : isSpace c = true) : endsUnquoted st c = true := by
  simp [endsUnquoted, h]

/-- the unquoted scanner inside comment text: it reads the rest `a1` of the current word and stops
    inside the comment or at its newline -/
theorem commentOk_scan (rest : Str) : ∀ (r : Str) (bs : Bool), commentOk bs false r = true →
    ∃ a1 a2, r = a1 ++ a2 ∧ (∀ d ∈ a1, endsUnquoted valueSettings d = false) ∧
      stopsAt valueSettings (a2 ++ '\n' :: rest) = true ∧
      commentOk (bs && a1.isEmpty) true a2 = true := by
  intro r
  induction r with
  | nil =>
    intro bs h
    refine ⟨[], [], rfl, by intro d hd; simp at hd, by rfl, ?_⟩
    simpa [commentOk] using h
  | cons d r' ih =>
    intro bs h
    rw [commentOk] at h
    split at h
    · cases h
    · split at h
      · rename_i _ hsp
        refine ⟨[], d :: r', rfl, by intro x hx; simp at hx, ends_of_isSpace _ hsp, ?_⟩
        rw [commentOk]
        simp [*]
      · split at h
        · rename_i hnl hsp he
          refine ⟨[], d :: r', rfl, by intro x hx; simp at hx, he, ?_⟩
          rw [commentOk]
          simp [*]
        · rename_i hnl hsp he
          simp only [Bool.false_eq_true, ↓reduceIte] at h
          obtain ⟨a1, a2, e, hall, hst, hok⟩ := ih false h
          refine ⟨d :: a1, a2, by rw [e]; rfl, ?_, hst, ?_⟩
          · intro x hx
            simp only [List.mem_cons] at hx
            rcases hx with e | e
            · rw [e]; simpa using he
            · exact hall x e
          · simpa using hok

theorem commentOk_skip : ∀ (sp x : Str) (bs : Bool), (∀ d ∈ sp, isSpace d = true) →
    commentOk bs true (sp ++ x) = true → InlineSpace sp ∧ commentOk bs true x = true := by
  intro sp
  induction sp with
  | nil => intro x bs _ h; exact ⟨by intro d hd; simp at hd, h⟩
  | cons c cs ih =>
    intro x bs hsp h
    have hc : isSpace c = true := hsp c (by simp)
    rw [List.cons_append, commentOk] at h
    split at h
    · cases h
    · rename_i hnl
      obtain ⟨h1, h2⟩ := ih x bs (fun d hd => hsp d (by simp [hd])) h
      refine ⟨?_, h2⟩
      intro d hd
      simp only [List.mem_cons] at hd
      rcases hd with e | e
      · rw [e]; exact ⟨hc, by simpa using hnl⟩
      · exact h1 d e

/-- what follows a finished comment: the end of the input, or an unquoted word on another line -/
def EndsComment (ci : CI) (l : Nat) : Prop :=
  nextWord valueSettings ci = .ok none ∨
  ∃ w' ci', nextWord valueSettings ci = .ok (some (w', ci')) ∧ w'.quote = none ∧ w'.line ≠ some l

theorem EndsComment_next_line (tb rest : Str) (l : Nat) (htb : InlineSpace tb)
    (hnext : ∀ c, firstNonSpace rest = some c → isQuoteChar c = false) :
    EndsComment ⟨tb ++ '\n' :: rest, l⟩ l := by
  have e : nextWord valueSettings ⟨tb ++ '\n' :: rest, l⟩ = nextWordAux valueSettings false rest (l + 1) := by
    have := nextWord_newline valueSettings rest l
    unfold nextWord at this ⊢
    simp only [] at this ⊢
    rw [nextWordAux_skip valueSettings tb _ htb.isSpace, htb.nlCount]
    exact this
  unfold EndsComment
  rw [e]
  rcases nextWordAux_firstNonSpace valueSettings rfl rest (l + 1) with ⟨_, h⟩ | ⟨c, sp, r, v, rest', hf, _, _, _, h⟩
  · exact Or.inl h
  · refine Or.inr ⟨_, _, h (hnext c hf), rfl, ?_⟩
    intro e; simp only [Option.some.injEq] at e; omega

theorem isUnq_backslash (v : Str) (l : Option Nat) :
    isUnq { value := v, quote := none, line := l } "\\" = (v == ['\\']) := by rfl

/-- In comment mode the collector drops every word of an acceptable comment text and stops at the
    newline (leaving at most the trailing blanks `tb` of the comment unread). -/
theorem cAA_comment_body (rest : Str) (l : Nat)
    (hnext : ∀ c, firstNonSpace rest = some c → isQuoteChar c = false) :
    ∀ (n : Nat) (a : Str), a.length ≤ n → ∀ (last : Word) (fuel : Nat) (acc : List Word),
      a.length + 1 ≤ fuel → last.line = some l → commentOk (isUnq last "\\") true a = true →
      ∃ tb, InlineSpace tb ∧
        collectAssignedAux fuel ⟨a ++ '\n' :: rest, l⟩ last true acc
          = .ok (acc.reverse, ⟨tb ++ '\n' :: rest, l⟩) := by
  intro n
  induction n with
  | zero =>
    intro a ha last fuel acc hf hl hok
    have : a = [] := by cases a with
      | nil => rfl
      | cons _ _ => simp at ha
    subst this
    obtain ⟨f, rfl⟩ : ∃ f, fuel = f + 1 := ⟨fuel - 1, by omega⟩
    have hbs : isUnq last "\\" = false := by simpa [commentOk] using hok
    refine ⟨[], by intro d hd; simp at hd, ?_⟩
    rcases EndsComment_next_line [] rest l (by intro d hd; simp at hd) hnext with h | ⟨w', ci', h, hq, hline⟩
    · exact cAA_end f _ last true acc h
    · exact cAA_comment_backup f _ ci' last w' acc h hq hbs (by rw [hl]; exact hline)
  | succ n ih =>
    intro a ha last fuel acc hf hl hok
    obtain ⟨f, rfl⟩ : ∃ f, fuel = f + 1 := ⟨fuel - 1, by omega⟩
    cases hfs : firstNonSpace a with
    | none =>
      -- only blanks are left in the comment
      have hsp := firstNonSpace_none hfs
      have hok' : commentOk (isUnq last "\\") true (a ++ []) = true := by simpa using hok
      obtain ⟨hin, hnil⟩ := commentOk_skip a [] _ hsp hok'
      have hbs : isUnq last "\\" = false := by simpa [commentOk] using hnil
      refine ⟨a, hin, ?_⟩
      rcases EndsComment_next_line a rest l hin hnext with h | ⟨w', ci', h, hq, hline⟩
      · exact cAA_end f _ last true acc h
      · exact cAA_comment_backup f _ ci' last w' acc h hq hbs (by rw [hl]; exact hline)
    | some c =>
      obtain ⟨sp, r, e, hsp, hc⟩ := firstNonSpace_some hfs
      subst e
      obtain ⟨hin, hok2⟩ := commentOk_skip sp (c :: r) _ hsp hok
      have hlen : r.length ≤ n := by
        simp only [List.length_append, List.length_cons] at ha; omega
      have hflen : r.length + 1 ≤ f := by
        simp only [List.length_append, List.length_cons] at hf; omega
      rw [commentOk] at hok2
      split at hok2
      · cases hok2
      · simp only [hc, Bool.false_eq_true, ↓reduceIte] at hok2
        split at hok2
        · -- a single-character word `{`, `}` or `;`
          rename_i hnl he
          have hfacts : isQuoteChar c = false ∧ startsLong valueSettings c = false ∧ c ≠ '\\' := by
            rcases ends_value_cases he with h | h | h | h
            · rw [h] at hc; cases hc
            · subst h; exact ⟨by rfl, by rfl, by decide⟩
            · subst h; exact ⟨by rfl, by rfl, by decide⟩
            · subst h; exact ⟨by rfl, by rfl, by decide⟩
          have hw : nextWord valueSettings ⟨sp ++ c :: r ++ '\n' :: rest, l⟩
              = .ok (some ({ value := [c], quote := none, line := some l },
                           ⟨r ++ '\n' :: rest, l⟩)) := by
            unfold nextWord
            simp only []
            rw [List.append_assoc, nextWordAux_skip valueSettings sp _ hsp, hin.nlCount]
            exact nextWordAux_single valueSettings c _ _ hc hfacts.1 rfl hfacts.2.1
          rw [cAA_comment_word f _ _ last _ acc hw rfl (by rw [hl])]
          have hb : isUnq { value := [c], quote := none, line := some l } "\\" = false := by
            rw [isUnq_backslash]; simp [hfacts.2.2]
          exact ih r hlen _ f acc hflen rfl (by rw [hb]; exact hok2)
        · -- a plain word
          rename_i hnl he
          simp only [Bool.and_eq_true, Bool.not_eq_true'] at hok2
          obtain ⟨hq, hok3⟩ := hok2
          have he' : endsUnquoted valueSettings c = false := by simpa using he
          obtain ⟨a1, a2, e, hall, hst, hok4⟩ := commentOk_scan rest r _ hok3
          subst e
          have hw : nextWord valueSettings ⟨sp ++ c :: (a1 ++ a2) ++ '\n' :: rest, l⟩
              = .ok (some ({ value := c :: a1, quote := none, line := some l },
                           ⟨a2 ++ '\n' :: rest, l⟩)) := by
            unfold nextWord
            simp only []
            rw [List.append_assoc, nextWordAux_skip valueSettings sp _ hsp, hin.nlCount]
            have := nextWordAux_plain valueSettings c a1 (a2 ++ '\n' :: rest) (l + 0) he' hq rfl
              (startsLong_of_not_ends rfl he') hall hst
            simpa using this
          rw [cAA_comment_word f _ _ last _ acc hw rfl (by rw [hl])]
          have hb : isUnq { value := c :: a1, quote := none, line := some l } "\\"
              = (c == '\\' && a1.isEmpty) := by
            rw [isUnq_backslash]
            cases a1 <;> simp
          have hlen2 : a2.length ≤ n := by
            simp only [List.length_append] at hlen; omega
          have hflen2 : a2.length + 1 ≤ f := by
            simp only [List.length_append] at hflen; omega
          exact ih a2 hlen2 _ f acc hflen2 rfl (by rw [hb]; exact hok4)

/-- `collect_assigned_words` on blanks, one plain word, blanks, a stand-alone `#`, an acceptable
    comment text and the newline: the comment contributes nothing. -/
theorem collectAssigned_plain_comment (w sp sp2 cmt rest : Str) (l : Nat) (lead : Word)
    (hsp : InlineSpace sp) (hsp2 : InlineSpace sp2) (hne : sp2 ≠ []) (hlead : lead.line = some l)
    (hw : plainWord w = true) (hstop : stopsAt valueSettings cmt = true)
    (hcmt : commentOk false true cmt = true)
    (hnext : ∀ c, firstNonSpace rest = some c → isQuoteChar c = false) :
    ∃ tb, InlineSpace tb ∧
      collectAssigned ⟨sp ++ w ++ (sp2 ++ '#' :: (cmt ++ '\n' :: rest)), l⟩ lead
        = .ok ([{ value := w, quote := none, line := some l }], ⟨tb ++ '\n' :: rest, l⟩) := by
  have hstop' : stopsAt valueSettings (cmt ++ '\n' :: rest) = true := by
    cases cmt with
    | nil => rfl
    | cons d r => exact hstop
  have hr : stopsAt valueSettings (sp2 ++ '#' :: (cmt ++ '\n' :: rest)) = true := by
    cases sp2 with
    | nil => exact absurd rfl hne
    | cons d ds => exact ends_of_isSpace _ (hsp2 d (by simp)).1
  have hnw := nextWord_value_plain sp w _ l hsp.isSpace hw hr
  simp only [hsp.nlCount, Nat.add_zero] at hnw
  have hhash : nextWord valueSettings ⟨sp2 ++ '#' :: (cmt ++ '\n' :: rest), l⟩
      = .ok (some ({ value := ['#'], quote := none, line := some l },
                   ⟨cmt ++ '\n' :: rest, l⟩)) := by
    unfold nextWord
    simp only []
    rw [nextWordAux_skip valueSettings sp2 _ hsp2.isSpace, hsp2.nlCount]
    have := nextWordAux_plain valueSettings '#' [] (cmt ++ '\n' :: rest) (l + 0) (by rfl) (by rfl)
      (by rfl) (by rfl) (by intro d hd; simp at hd) hstop'
    simpa using this
  obtain ⟨c, t, rfl, hall, hq, hb, hh⟩ := plainWord_cases hw
  obtain ⟨m, hm, hm2⟩ : ∃ m, (sp ++ c :: t ++ (sp2 ++ '#' :: (cmt ++ '\n' :: rest))).length + 1 = m + 2
      ∧ cmt.length + 1 ≤ m := by
    refine ⟨(sp ++ c :: t ++ (sp2 ++ '#' :: (cmt ++ '\n' :: rest))).length - 1, ?_, ?_⟩ <;>
      simp only [List.length_append, List.length_cons] <;> omega
  obtain ⟨tb, htb, hbody⟩ := cAA_comment_body rest l hnext cmt.length cmt (Nat.le_refl _)
    { value := ['#'], quote := none, line := some l } m
    [{ value := c :: t, quote := none, line := some l }] hm2 rfl
    (by rw [isUnq_backslash]; exact hcmt)
  refine ⟨tb, htb, ?_⟩
  unfold collectAssigned
  simp only []
  rw [hm, cAA_take (m + 1) _ _ lead _ [] hnw rfl (not_special_of_plain hall hh) hb (by rw [hlead]),
    cAA_hash m _ _ _ _ _ hhash rfl rfl, hbody]
  simp

theorem Blanks.inline {sp : Str} (h : Blanks sp) : InlineSpace sp := by
  intro d hd
  rcases h d hd with e | e <;> subst e <;> exact ⟨by rfl, by decide⟩

/-- blanks left unread in front of a newline are invisible to every later read of the word iterator -/
theorem nextWord_inline_space (st : Settings) (tb rest : Str) (l : Nat) (htb : InlineSpace tb) :
    nextWord st ⟨tb ++ rest, l⟩ = nextWord st ⟨rest, l⟩ := by
  unfold nextWord
  simp only []
  rw [nextWordAux_skip st tb _ htb.isSpace, htb.nlCount, Nat.add_zero]

/-! ### collect_objects: one plain definition -/

/-- a name that `collect_objects` treats as the name of an ordinary definition -/
def plainDefName (nm : Str) : Bool :=
  nm != "#phil".toList && nm != ['}'] && nm != ['{'] && nm.head? != some '!' &&
  nm.take 1 != ['.'] && isStdIdent nm && nm != "include".toList && !reservedName true nm

theorem stripBang_of_not_bang (w : Word) (h : w.value.head? ≠ some '!') : stripBang w = (w, false) := by
  unfold stripBang
  split
  · rename_i r hv; rw [hv] at h; simp at h
  · rfl

/-- One turn of `collect_objects` for `name = value…`: the lead word is a plain definition name, the
    next structural word is `=`, and `collect_assigned_words` returns `ws`: the pending definition is
    flushed, the new definition becomes pending and gets the next id. -/
theorem collectObjects_defn_step (fuel : Nat) (st : PState) (stop : Option Word) (prevLine : Nat)
    (acc : List Obj) (pending : Option Obj) (lead eq : Word) (ci1 ci2 ci4 : CI) (ws : List Word)
    (h1 : nextWord structSettings st.ci = .ok (some (lead, ci1)))
    (hlq : lead.quote = none)
    (hname : plainDefName lead.value = true)
    (h2 : nextWord structSettings ci1 = .ok (some (eq, ci2)))
    (heq : eq.quote = none) (heqv : eq.value = ['='])
    (h3 : collectAssigned ci2 lead = .ok (ws, ci4)) :
    collectObjects (fuel + 1) st stop prevLine acc pending
      = collectObjects fuel { ci := ci4, nextId := st.nextId + 1 } stop (lead.line.getD 0)
          (flush acc pending)
          (some (.defn { name := lead.value, id := some st.nextId, disabled := false,
                         line := lead.line } ws)) := by
  simp only [plainDefName, Bool.and_eq_true, bne_iff_ne, ne_eq, Bool.not_eq_true'] at hname
  obtain ⟨⟨⟨⟨⟨⟨⟨n1, n2⟩, n3⟩, n4⟩, n5⟩, n6⟩, n7⟩, n8⟩ := hname
  have hsb := stripBang_of_not_bang lead n4
  have n1' : ¬ lead.value = ['#', 'p', 'h', 'i', 'l'] := by simpa using n1
  have n7' : ¬ lead.value = ['i', 'n', 'c', 'l', 'u', 'd', 'e'] := by simpa using n7
  have e1 := tryPopUnquoted_of_next h1 hlq
  have e2 := pop_of_next h2
  have e3 := popUnquoted_of_next h2 heq
  cases stop <;>
    simp [collectObjects, e1, e2, e3, n1', n2, n3, hsb, n5, n6, n7', n8, heq, heqv, h3]

/-- end of input at the outermost level: the pending definition is flushed -/
theorem collectObjects_end (fuel : Nat) (st : PState) (prevLine : Nat) (acc : List Obj)
    (pending : Option Obj) (h : nextWord structSettings st.ci = .ok none) :
    collectObjects (fuel + 1) st none prevLine acc pending = .ok (flush acc pending, st) := by
  simp [collectObjects, tryPopUnquoted_of_next_none h]

/-- the word iterator (structure context) on white space followed by `=` -/
theorem nextWord_struct_eq (sp rest : Str) (l : Nat) (hsp : ∀ d ∈ sp, isSpace d = true) :
    nextWord structSettings ⟨sp ++ '=' :: rest, l⟩
      = .ok (some ({ value := ['='], quote := none, line := some (l + nlCount sp) },
                   ⟨rest, l + nlCount sp⟩)) := by
  unfold nextWord
  simp only []
  rw [nextWordAux_skip structSettings sp _ hsp]
  exact nextWordAux_single structSettings '=' rest _ (by rfl) (by rfl) (by rfl) (by rfl)

/-- One turn of `collect_objects` on the text `pre name sp1 = V`, `pre`/`sp1` white space, `name` a
    plain definition name all of whose characters continue an unquoted word in structure context,
    when `collect_assigned_words` on `V` returns `ws`. -/
theorem collectObjects_simple_defn (fuel : Nat) (st : PState) (stop : Option Word) (prevLine : Nat)
    (acc : List Obj) (pending : Option Obj) (pre : Str) (c : Char) (w sp1 V : Str) (l : Nat)
    (ws : List Word) (ci4 : CI)
    (hci : st.ci = ⟨pre ++ (c :: w) ++ (sp1 ++ '=' :: V), l⟩)
    (hpre : ∀ d ∈ pre, isSpace d = true) (hsp1 : ∀ d ∈ sp1, isSpace d = true)
    (hnm : ∀ d ∈ c :: w, endsUnquoted structSettings d = false)
    (hq : isQuoteChar c = false) (hhash : c ≠ '#')
    (hname : plainDefName (c :: w) = true)
    (h3 : collectAssigned ⟨V, l + nlCount pre + nlCount sp1⟩
            { value := c :: w, quote := none, line := some (l + nlCount pre) } = .ok (ws, ci4)) :
    collectObjects (fuel + 1) st stop prevLine acc pending
      = collectObjects fuel { ci := ci4, nextId := st.nextId + 1 } stop (l + nlCount pre)
          (flush acc pending)
          (some (.defn { name := c :: w, id := some st.nextId, line := some (l + nlCount pre) } ws)) := by
  have hc := hnm c (by simp)
  have hcm : structSettings.commentChars.contains c = false := by
    simp [structSettings, Gen.structComment, hhash]
  have hr : stopsAt structSettings (sp1 ++ '=' :: V) = true :=
    stopsAt_space_append _ _ _ hsp1 (by rfl)
  have h1 : nextWord structSettings st.ci
      = .ok (some ({ value := c :: w, quote := none, line := some (l + nlCount pre) },
                   ⟨sp1 ++ '=' :: V, l + nlCount pre⟩)) := by
    rw [hci]
    unfold nextWord
    simp only []
    rw [List.append_assoc, nextWordAux_skip structSettings pre _ hpre]
    exact nextWordAux_plain structSettings c w _ _ hc hq hcm (startsLong_of_not_ends rfl hc)
      (fun d hd => hnm d (by simp [hd])) hr
  have h2 := nextWord_struct_eq sp1 V (l + nlCount pre) hsp1
  exact collectObjects_defn_step fuel st stop prevLine acc pending _ _ _ _ ci4 ws h1 rfl hname h2
    rfl rfl h3

/-! ### scope.adopt for undotted names -/

theorem splitOn_not_mem (sep : Char) (s : Str) (h : sep ∉ s) : splitOn sep s = [s] := by
  induction s with
  | nil => rfl
  | cons c cs ih =>
    have hc : c ≠ sep := fun e => h (by simp [e])
    have hcs : sep ∉ cs := fun e => h (by simp [e])
    simp [splitOn, ih hcs, hc]

/-- `adopt` of an object whose name has no dot adds that object unchanged -/
theorem wrapDotted_undotted (o : Obj) (h : '.' ∉ o.name) : wrapDotted o = o := by
  unfold wrapDotted
  simp [splitOn_not_mem '.' o.name h]

theorem flush_some_undotted (acc : List Obj) (o : Obj) (h : '.' ∉ o.name) :
    flush acc (some o) = acc ++ [o] := by
  simp [flush, adopt, wrapDotted_undotted o h]

end Phil
