/-
  Phil.Proofs.FetchTreeMulti — closed form of scope.fetch for NESTED masters whose DEFINITIONS may be
  `.multiple` (`TreeMultiMaster`): trees of enabled, non-multiple scopes (dot-free, non-empty, pairwise
  distinct sibling names) whose definitions are `DefnMeta` definitions, `.multiple` or not, at any
  depth.  Sources are arbitrary `SrcTree` lists.  Combines Phil/Proofs/FetchSpec.lean (the list rule
  for `.multiple` definitions, flat masters) with Phil/Proofs/FetchTree.lean (nested masters without
  `.multiple`).
    1. specification `treeMultiResult` (`tmBlock`), `KeysDefinedTree`; the consumed ids, the clash
       test and the parameter paths are those of FetchTree (`treeUsed`, `noClash`, `defPaths`);
    2. `fetch_tree_multi_total`;
    3. corollaries for C04, C05, C06, C07.
  All names of this file carry `_tm`, `tm…` or `TreeMulti`.
-/
import Phil.Proofs.FetchTree
set_option linter.unusedVariables false
namespace Phil

/-! ## 1. specification -/

mutual
/-- the block one master object contributes to the result, given the source objects at its level:
    a non-multiple definition — itself with the words of the last enabled source definition of its
    name (`lastWins`); a `.multiple` definition — the list rule `multiBlock` over the enabled source
    definitions of its name (template, then the `dedupKeepLast` survivors whose key differs from the
    master's); a scope — itself, rebuilt from the children of the enabled source scopes of its name -/
def tmBlock (e : Envs) : Obj → List Obj → List Obj
  | .defn mm mws, srcs =>
    if isMultiple (.defn mm mws) then
      multiBlock (.defn mm mws) (keyOf e 0 (.defn mm mws) (.defn mm mws))
        (candsOf e 0 (.defn mm mws) (defsNamed mm.name srcs))
    else [lastWins (.defn mm mws) (defsNamed mm.name srcs)]
  | .scope mm kids, srcs => [.scope { mm with tmpl := 0 } (treeMultiResult e kids (srcStep srcs mm.name))]
/-- the children of the result scope: the blocks of the master children, in master order -/
def treeMultiResult (e : Envs) : List Obj → List Obj → List Obj
  | [], _ => []
  | mo :: rest, srcs => tmBlock e mo srcs ++ treeMultiResult e rest srcs
end

/-- the consumed ids: as for masters without `.multiple` — every enabled source definition whose path
    names a master definition is consumed, `.multiple` or not -/
abbrev treeMultiUsed (mkids srcs : List Obj) : List Nat := treeUsed mkids srcs

mutual
def KeysDefinedObj (e : Envs) : Obj → List Obj → Prop
  | .defn mm mws, srcs =>
    isMultiple (.defn mm mws) = true → KeysDefined e 0 (.defn mm mws) (defsNamed mm.name srcs)
  | .scope mm kids, srcs => KeysDefinedTree e kids (srcStep srcs mm.name)
/-- the keys the list rule compares are defined at every `.multiple` master definition: the master's
    own and those of the candidates built from the enabled source definitions reached by its path -/
def KeysDefinedTree (e : Envs) : List Obj → List Obj → Prop
  | [], _ => True
  | mo :: rest, srcs => KeysDefinedObj e mo srcs ∧ KeysDefinedTree e rest srcs
end

mutual
def TMObj : Obj → Prop
  | .defn mm _ => DefnMeta mm ∧ mm.name ≠ [] ∧ '.' ∉ mm.name ∧ mm.disabled = false
  | .scope mm kids =>
    (mm.attrs.get "multiple").truthy = false ∧ mm.name ≠ [] ∧ '.' ∉ mm.name ∧ mm.disabled = false ∧
      TMKids kids ∧ (kids.map Obj.name).Pairwise (· ≠ ·)
def TMKids : List Obj → Prop
  | [] => True
  | o :: os => TMObj o ∧ TMKids os
end

/-- a master tree whose definitions may be `.multiple`: enabled definitions (not `.deprecated`, not
    choices; `.multiple` or not, typed or not) and enabled NON-multiple scopes of such objects to any
    depth, names non-empty and dot-free, sibling names pairwise distinct -/
structure TreeMultiMaster (mkids : List Obj) : Prop where
  kids : TMKids mkids
  distinct : (mkids.map Obj.name).Pairwise (· ≠ ·)

/-! ### executable forms (for concrete and parsed instances) -/

def defnMetaB_tm (mm : Meta) : Bool :=
  !(mm.attrs.get "deprecated").truthy &&
    (match mm.attrs.get "type" with
     | .conv (.choice _) => false
     | _ => true)

mutual
def tmObjB : Obj → Bool
  | .defn mm _ => defnMetaB_tm mm && !mm.name.isEmpty && !mm.name.contains '.' && !mm.disabled
  | .scope mm kids =>
    !(mm.attrs.get "multiple").truthy && !mm.name.isEmpty && !mm.name.contains '.' && !mm.disabled &&
      tmKidsB kids && decide ((kids.map Obj.name).Pairwise (· ≠ ·))
def tmKidsB : List Obj → Bool
  | [] => true
  | o :: os => tmObjB o && tmKidsB os
end

/-- executable form of `TreeMultiMaster` -/
def treeMultiMasterB (mkids : List Obj) : Bool :=
  tmKidsB mkids && decide ((mkids.map Obj.name).Pairwise (· ≠ ·))

mutual
def keysDefinedObjB (e : Envs) : Obj → List Obj → Bool
  | .defn mm mws, srcs =>
    !isMultiple (.defn mm mws) || keysDefinedB e 0 (.defn mm mws) (defsNamed mm.name srcs)
  | .scope mm kids, srcs => keysDefinedTreeB e kids (srcStep srcs mm.name)
/-- executable form of `KeysDefinedTree` -/
def keysDefinedTreeB (e : Envs) : List Obj → List Obj → Bool
  | [], _ => true
  | mo :: rest, srcs => keysDefinedObjB e mo srcs && keysDefinedTreeB e rest srcs
end

/-- executable form of the master-side side conditions: a `TreeMultiMaster` nested at most 1000
    deep, no definition called `include`, fit for re-fetching -/
def masterCheck_tm (mkids : List Obj) : Bool :=
  treeMultiMasterB mkids && decide (depthL mkids ≤ 1000) &&
    allActive (fun d => !d.isDefn ||
      (d.name != "include".toList && d.meta.tmpl == 0 && d.meta.varRes.isNone && !hasDollar d.words)) mkids

/-! ## 2. list forms, projections -/

theorem treeMultiResult_eq_flatMap (e : Envs) (srcs : List Obj) : ∀ (mkids : List Obj),
    treeMultiResult e mkids srcs = mkids.flatMap (fun mo => tmBlock e mo srcs)
  | [] => by rw [treeMultiResult]; rfl
  | mo :: rest => by rw [treeMultiResult, treeMultiResult_eq_flatMap e srcs rest]; rfl

theorem tmKids_iff : ∀ (l : List Obj), TMKids l ↔ ∀ o ∈ l, TMObj o
  | [] => by rw [TMKids]; simp
  | o :: os => by rw [TMKids, tmKids_iff os]; simp

theorem TreeMultiMaster.of_scope {mm : Meta} {kids : List Obj} (h : TMObj (.scope mm kids)) :
    TreeMultiMaster kids := by
  rw [TMObj] at h
  exact ⟨h.2.2.2.2.1, h.2.2.2.2.2⟩

theorem TreeMultiMaster.obj {mkids : List Obj} (h : TreeMultiMaster mkids) : ∀ o ∈ mkids, TMObj o :=
  (tmKids_iff mkids).mp h.kids

theorem TMObj.enabled : ∀ {o : Obj}, TMObj o → o.meta.disabled = false
  | .defn mm _, h => by rw [TMObj] at h; exact h.2.2.2
  | .scope mm _, h => by rw [TMObj] at h; exact h.2.2.2.1

theorem TMObj.name_ne : ∀ {o : Obj}, TMObj o → o.name ≠ []
  | .defn mm _, h => by rw [TMObj] at h; exact h.2.1
  | .scope mm _, h => by rw [TMObj] at h; exact h.2.1

theorem TMObj.dotfree : ∀ {o : Obj}, TMObj o → '.' ∉ o.name
  | .defn mm _, h => by rw [TMObj] at h; exact h.2.2.1
  | .scope mm _, h => by rw [TMObj] at h; exact h.2.2.1

/-- a master without `.multiple` is a special case -/
theorem TreeObj.toTM : ∀ {o : Obj}, TreeObj o → TMObj o
  | .defn mm mws, h => by
    rw [TreeObj] at h; rw [TMObj]
    exact ⟨⟨h.1.notDeprecated, h.1.notChoice⟩, h.2⟩
  | .scope mm kids, h => by
    rw [TreeObj] at h; rw [TMObj]
    refine ⟨h.1, h.2.1, h.2.2.1, h.2.2.2.1, ?_, h.2.2.2.2.2⟩
    exact (tmKids_iff kids).mpr (fun o ho => TreeObj.toTM ((treeKids_iff kids).mp h.2.2.2.2.1 o ho))

theorem TreeMaster.toMulti {mkids : List Obj} (h : TreeMaster mkids) : TreeMultiMaster mkids :=
  ⟨(tmKids_iff mkids).mpr (fun o ho => (h.obj o ho).toTM), h.distinct⟩

theorem masterActive_tm (mkids : List Obj) (hf : TreeMultiMaster mkids) :
    masterActiveObjects mkids = .ok (indexed mkids) := by
  have hsnd := indexed_map_snd mkids
  show masterActiveObjects.go (indexed mkids) [] [] = _
  rw [masterActive_go_all (indexed mkids) [] []]
  · simp
  · intro p hp
    have : p.2 ∈ mkids := by rw [← hsnd]; exact List.mem_map.mpr ⟨p, hp, rfl⟩
    exact (hf.obj _ this).enabled
  · rw [map_snd_comp Obj.name, hsnd]; exact hf.distinct
  · intro p _ q hq; cases hq

/-! ## 3. the keys of definitions do not depend on the fuel -/

theorem extractFormatStr_defn_fuel_tm (e : Envs) (n : Nat) (mm cm : Meta) (mws cws : List Word) :
    extractFormatStr e (n + 1) (.defn mm mws) (.defn cm cws) =
      extractFormatStr e 1 (.defn mm mws) (.defn cm cws) := by
  unfold extractFormatStr
  simp only [extractObj, formatObj]

theorem extractFormatStr_cand_fuel_tm (e : Envs) (fuel : Nat) (mm : Meta) (mws : List Word) (d : Obj) :
    extractFormatStr e (fuel + 64) (.defn mm mws) (candOfSrc (.defn mm mws) d) =
      extractFormatStr e (0 + 64) (.defn mm mws) (candOfSrc (.defn mm mws) d) := by
  unfold candOfSrc
  rw [show fuel + 64 = (fuel + 63) + 1 from rfl, show 0 + 64 = 63 + 1 from rfl,
    extractFormatStr_defn_fuel_tm, extractFormatStr_defn_fuel_tm e 63]

theorem extractFormatStr_self_fuel_tm (e : Envs) (fuel : Nat) (mm : Meta) (mws : List Word) :
    extractFormatStr e (fuel + 64) (.defn mm mws) (.defn mm mws) =
      extractFormatStr e (0 + 64) (.defn mm mws) (.defn mm mws) := by
  rw [show fuel + 64 = (fuel + 63) + 1 from rfl, show 0 + 64 = 63 + 1 from rfl,
    extractFormatStr_defn_fuel_tm, extractFormatStr_defn_fuel_tm e 63]

theorem keyOf_cand_fuel_tm (e : Envs) (fuel : Nat) (mm : Meta) (mws : List Word) (d : Obj) :
    keyOf e fuel (.defn mm mws) (candOfSrc (.defn mm mws) d) =
      keyOf e 0 (.defn mm mws) (candOfSrc (.defn mm mws) d) := by
  unfold keyOf
  rw [extractFormatStr_cand_fuel_tm]

theorem keyOf_self_fuel_tm (e : Envs) (fuel : Nat) (mm : Meta) (mws : List Word) :
    keyOf e fuel (.defn mm mws) (.defn mm mws) = keyOf e 0 (.defn mm mws) (.defn mm mws) := by
  unfold keyOf
  rw [extractFormatStr_self_fuel_tm]

theorem candsOf_fuel_tm (e : Envs) (fuel : Nat) (mm : Meta) (mws : List Word) (l : List Obj) :
    candsOf e fuel (.defn mm mws) l = candsOf e 0 (.defn mm mws) l := by
  unfold candsOf
  apply List.map_congr_left
  intro d _
  rw [keyOf_cand_fuel_tm]

theorem keysDefined_fuel_tm (e : Envs) (fuel : Nat) (mm : Meta) (mws : List Word) (l : List Obj)
    (h : KeysDefined e 0 (.defn mm mws) l) : KeysDefined e fuel (.defn mm mws) l := by
  refine ⟨?_, ?_⟩
  · rw [extractFormatStr_self_fuel_tm]; exact h.1
  · intro d hd
    rw [extractFormatStr_cand_fuel_tm]; exact h.2 d hd

/-! ## 4. one step of the master loop for a `.multiple` definition, sources of any kind -/

theorem cAccept_ok_tm (k : Str) (c : Obj) (u : List Nat) (robjs : List (Option Obj))
    (processed : List (Str × Int)) (used : List Nat) :
    ∃ r, cAccept false false k c u robjs processed used = .ok r := by
  unfold cAccept
  simp only [Bool.false_and, Bool.false_eq_true, if_false]
  cases processed.find? (fun (p : Str × Int) => p.1 == k) with
  | none => exact ⟨_, rfl⟩
  | some p =>
    simp only
    split
    · exact ⟨_, rfl⟩
    · exact ⟨_, rfl⟩

theorem cstepG_scope_incompatible_tm (F : FetchFn) (e : Envs) (fuel : Nat) (mm : Meta) (mws : List Word)
    (k0 : Str) (m : Meta) (k : List Obj) (acc : CAcc) :
    cstepG F e fuel false (.defn mm mws) k0 acc (false, .scope m k) = .error incompatibleErr := by
  unfold cstepG
  simp only [candOf_defn_nodiff]
  rfl

theorem cstepG_defn_ok_tm (F : FetchFn) (e : Envs) (fuel : Nat) (mm : Meta) (mws : List Word)
    (hp : DefnMeta mm) (k0 : Str) (dm : Meta) (dws : List Word) (hok : SrcOK (.defn dm dws))
    (hk : ∃ k, extractFormatStr e (fuel + 64) (.defn mm mws) (candOfSrc (.defn mm mws) (.defn dm dws)) = .ok k)
    (acc : CAcc) :
    ∃ b', cstepG F e fuel false (.defn mm mws) k0 acc (false, .defn dm dws) = .ok b' := by
  obtain ⟨k, hk⟩ := hk
  obtain ⟨robjs, processed, used⟩ := acc
  rw [cstepG_link F e fuel mm mws k0 (.defn dm dws) (candOfSrc (.defn mm mws) (.defn dm dws), k)
    ⟨fetchValue_defnMeta mm mws dm dws hp hok, hk⟩]
  split
  · exact ⟨_, rfl⟩
  · exact cAccept_ok_tm _ _ _ _ _ _

/-- the step of the master loop for a `.multiple` master definition without further master
    occurrences, sources of any kind at this level: the list rule over the enabled source
    definitions of its name — or the clash error if there is an enabled source scope of its name -/
theorem stepG_multi_tm (F : FetchFn) (e : Envs) (fuel : Nat) (sm : Meta)
    (mkids combined : List Obj) (st : List Obj × List Nat) (idx : Nat) (mm : Meta) (mws : List Word)
    (hp : DefnMeta mm) (hmult : isMultiple (.defn mm mws) = true)
    (hfm : fromMasterOf mkids idx (.defn mm mws) = [])
    (hmatch : fetchMatching fuel sm combined (.defn mm mws) = activeNamed mm.name combined)
    (hsrc : ∀ o ∈ combined, o.meta.disabled = false → o.isDefn = true → SrcOK o)
    (hkeys : KeysDefined e 0 (.defn mm mws) (defsNamed mm.name combined)) :
    stepG F e fuel false sm mkids combined st (idx, .defn mm mws) =
      if noClashObj (.defn mm mws) combined then
        .ok (st.1 ++ tmBlock e (.defn mm mws) combined, st.2 ++ treeUsedObj (.defn mm mws) combined)
      else .error incompatibleErr := by
  obtain ⟨⟨k0, hk0⟩, hcand⟩ := keysDefined_fuel_tm e fuel mm mws _ hkeys
  rw [noClashObj, tmBlock, treeUsedObj]
  simp only [hmult, if_true]
  cases hsc : scopesNamed mm.name combined with
  | nil =>
    simp only [List.isEmpty_nil, if_true]
    have hm : fetchMatching fuel sm combined (.defn mm mws) = defsNamed mm.name combined := by
      rw [hmatch, activeNamed_eq_defsNamed _ _ hsc]
    have hl : Forall2 (CandLink e fuel (.defn mm mws)) (fetchMatching fuel sm combined (.defn mm mws))
        (candsOf e fuel (.defn mm mws) (defsNamed mm.name combined)) := by
      rw [hm]
      apply forall2_map
      intro d hd
      have hd' := mem_defsNamed.mp hd
      obtain ⟨k, hk⟩ := hcand d hd
      cases d with
      | scope m k => cases hd'.2.1
      | defn dm dws =>
        exact ⟨fetchValue_defnMeta mm mws dm dws hp (hsrc _ hd'.1 hd'.2.2.1 rfl), by rw [keyOf_ok hk]; exact hk⟩
    rw [multi_step F e fuel sm mkids combined st idx mm mws k0 _ hmult hfm hk0 hl, hm,
      candsOf_fuel_tm, ← keyOf_self_fuel_tm e fuel, keyOf_ok hk0]
  | cons sc rest =>
    simp only [List.isEmpty_cons, Bool.false_eq_true, if_false]
    have hmem : sc ∈ scopesNamed mm.name combined := by rw [hsc]; exact List.mem_cons_self
    have hs := mem_scopesNamed.mp hmem
    cases sc with
    | defn m ws => cases hs.2.1
    | scope m k =>
      unfold stepG
      simp only [hmult, Bool.not_true, Bool.false_eq_true, if_false]
      unfold multiBranch
      rw [masterKeyG_defn, hk0, hfm, List.nil_append, hmatch]
      simp only
      rw [foldlM_error_of_mem (cstepG F e fuel false (.defn mm mws) k0) incompatibleErr]
      · intro a ha b
        obtain ⟨o, ho, rfl⟩ := List.mem_map.mp ha
        have ho' := mem_activeNamed.mp ho
        cases o with
        | scope m' k' => exact .inr (cstepG_scope_incompatible_tm F e fuel mm mws k0 m' k' b)
        | defn dm dws =>
          exact .inl (cstepG_defn_ok_tm F e fuel mm mws hp k0 dm dws (hsrc _ ho'.1 ho'.2.1 rfl)
            (hcand _ (mem_defsNamed.mpr ⟨ho'.1, rfl, ho'.2.1, ho'.2.2⟩)) b)
      · exact ⟨(false, .scope m k),
          List.mem_map.mpr ⟨_, mem_activeNamed.mpr ⟨hs.1, hs.2.2.1, hs.2.2.2⟩, rfl⟩,
          fun b => cstepG_scope_incompatible_tm F e fuel mm mws k0 m k b⟩

/-- the step for a non-multiple master definition, in terms of `tmBlock` -/
theorem stepG_plain_tm (F : FetchFn) (e : Envs) (fuel : Nat) (sm : Meta)
    (mkids combined : List Obj) (st : List Obj × List Nat) (idx : Nat) (mm : Meta) (mws : List Word)
    (hp : DefnMeta mm) (hmult : isMultiple (.defn mm mws) = false)
    (hmatch : fetchMatching fuel sm combined (.defn mm mws) = activeNamed mm.name combined)
    (hsrc : ∀ o ∈ combined, o.meta.disabled = false → o.isDefn = true → SrcOK o) :
    stepG F e fuel false sm mkids combined st (idx, .defn mm mws) =
      if noClashObj (.defn mm mws) combined then
        .ok (st.1 ++ tmBlock e (.defn mm mws) combined, st.2 ++ treeUsedObj (.defn mm mws) combined)
      else .error incompatibleErr := by
  rw [stepG_defn_tree F e fuel sm mkids combined st idx mm mws (hp.plain hmult) hmatch hsrc,
    treeObj_defn_eq_lastWins, tmBlock]
  simp only [hmult, Bool.false_eq_true, if_false]

/-- the step for a non-multiple master scope, given the value of the callee on the next level -/
theorem stepG_scope_tm (F : FetchFn) (e : Envs) (fuel : Nat) (sm : Meta)
    (mkids combined : List Obj) (st : List Obj × List Nat) (idx : Nat) (mm : Meta) (kids : List Obj)
    (hmult : (mm.attrs.get "multiple").truthy = false)
    (hmatch : fetchMatching fuel sm combined (.scope mm kids) = activeNamed mm.name combined)
    (hF : F false mm kids (srcStep combined mm.name) =
      if noClash kids (srcStep combined mm.name) then
        .ok (.scope { mm with tmpl := 0 } (treeMultiResult e kids (srcStep combined mm.name)),
             treeUsed kids (srcStep combined mm.name))
      else .error incompatibleErr) :
    stepG F e fuel false sm mkids combined st (idx, .scope mm kids) =
      if noClashObj (.scope mm kids) combined then
        .ok (st.1 ++ tmBlock e (.scope mm kids) combined, st.2 ++ treeUsedObj (.scope mm kids) combined)
      else .error incompatibleErr := by
  have hm : isMultiple (.scope mm kids) = false := hmult
  have hstep : stepG F e fuel false sm mkids combined st (idx, .scope mm kids) =
      scopeBranch F false mm kids (activeNamed mm.name combined) st.1 st.2 := by
    unfold stepG
    simp only [hm, Bool.not_false, if_true]
    rw [hmatch]
  rw [hstep, noClashObj, tmBlock, treeUsedObj]
  unfold scopeBranch
  cases hdn : defsNamed mm.name combined with
  | nil =>
    rw [find_isDefn_activeNamed_none _ _ hdn, activeNamed_children_tree, hF]
    simp only [List.isEmpty_nil, Bool.true_and]
    cases noClash kids (srcStep combined mm.name) with
    | true => simp
    | false => simp
  | cons d rest =>
    obtain ⟨x, hx⟩ := find_isDefn_activeNamed_some mm.name combined (by rw [hdn]; exact List.cons_ne_nil _ _)
    rw [hx]
    simp only [List.isEmpty_cons, Bool.false_and, Bool.false_eq_true, if_false]
    rfl

/-! ## 5. the whole fetch -/

theorem KeysDefinedTree.obj {e : Envs} : ∀ {l : List Obj} {srcs : List Obj}, KeysDefinedTree e l srcs →
    ∀ o ∈ l, KeysDefinedObj e o srcs
  | [], _, _, o, ho => by cases ho
  | a :: os, srcs, h, o, ho => by
    rw [KeysDefinedTree] at h
    rw [List.mem_cons] at ho
    rcases ho with rfl | ho
    · exact h.1
    · exact KeysDefinedTree.obj h.2 o ho

theorem KeysDefinedTree.of_forall {e : Envs} : ∀ {l : List Obj} {srcs : List Obj},
    (∀ o ∈ l, KeysDefinedObj e o srcs) → KeysDefinedTree e l srcs
  | [], _, _ => by rw [KeysDefinedTree]; trivial
  | a :: os, srcs, h => by
    rw [KeysDefinedTree]
    exact ⟨h a List.mem_cons_self, KeysDefinedTree.of_forall (fun o ho => h o (List.mem_cons_of_mem _ ho))⟩

/-- **closed form of the fetch of a nested master whose definitions may be `.multiple`** (non-diff
    mode): with fuel beyond the nesting depth and defined keys, the fetch succeeds exactly when there
    is no clash of kinds (`noClash`); its result is `treeMultiResult`, the consumed ids are
    `treeMultiUsed` (= `treeUsed`); a clash makes it fail with RuntimeError ("incompatible"). -/
theorem fetch_tree_multi_total (e : Envs) : ∀ (fuel : Nat) (sm : Meta) (mkids srcs : List Obj),
    TreeMultiMaster mkids → depthL mkids < fuel → sm.disabled = false → SrcTree srcs →
    KeysDefinedTree e mkids srcs →
    fetchScope e fuel false sm mkids srcs =
      if noClash mkids srcs then
        .ok (.scope { sm with tmpl := 0 } (treeMultiResult e mkids srcs), treeMultiUsed mkids srcs)
      else .error incompatibleErr := by
  intro fuel
  induction fuel with
  | zero => intro sm mkids srcs _ hd; exact absurd hd (Nat.not_lt_zero _)
  | succ fuel ih =>
    intro sm mkids srcs hf hdepth hsd hsrc hkeys
    rw [fetchScope_succ, masterActive_tm mkids hf]
    simp only
    have hsc : ∀ m kids, Obj.scope m kids ∈ srcs → m.disabled = false → m.name ≠ [] :=
      fun m kids hm hd => hsrc.named m kids (.here hm hd)
    have hok : ∀ o ∈ srcs, o.meta.disabled = false → o.isDefn = true → SrcOK o :=
      fun o ho hd hdef => hsrc.ok o (.here ho hd) hdef
    rw [foldlM_cond_tree _ (fun io => noClashObj io.2 srcs) (fun io => tmBlock e io.2 srcs)
      (fun io => treeUsedObj io.2 srcs) incompatibleErr]
    · have hall : (indexed mkids).all (fun io => noClashObj io.2 srcs) = noClash mkids srcs := by
        rw [noClash_eq_all]
        conv => rhs; rw [← indexed_map_snd mkids]
        rw [List.all_map]
        rfl
      rw [hall]
      cases noClash mkids srcs with
      | false => rfl
      | true =>
        simp only [if_true, List.nil_append]
        unfold fetchFinish treeMultiUsed
        rw [flatMap_snd (fun mo => tmBlock e mo srcs),
          flatMap_snd (fun mo => treeUsedObj mo srcs), indexed_map_snd,
          ← treeMultiResult_eq_flatMap, ← treeUsed_eq_flatMap]
    · intro st a ha
      have hmem : a.2 ∈ mkids := by rw [← indexed_map_snd mkids]; exact List.mem_map.mpr ⟨a, ha, rfl⟩
      have hto := hf.obj _ hmem
      have hko := hkeys.obj _ hmem
      have hmatch := fetchMatching_tree fuel sm srcs a.2 hsd hto.name_ne hto.dotfree hsc
      obtain ⟨i, mo⟩ := a
      simp only at hmem hto hmatch hko ⊢
      cases mo with
      | defn mm mws =>
        rw [TMObj] at hto
        rw [KeysDefinedObj] at hko
        cases hmult : isMultiple (.defn mm mws) with
        | false => exact stepG_plain_tm _ e fuel sm mkids srcs st i mm mws hto.1 hmult hmatch hok
        | true =>
          exact stepG_multi_tm _ e fuel sm mkids srcs st i mm mws hto.1 hmult
            (fromMasterOf_nil mkids hf.distinct i _ ha) hmatch hok (hko hmult)
      | scope mm kids =>
        have hkids := TreeMultiMaster.of_scope hto
        have hd1 := depthT_le_depthL mkids _ hmem
        rw [depthT] at hd1
        rw [TMObj] at hto
        rw [KeysDefinedObj] at hko
        exact stepG_scope_tm _ e fuel sm mkids srcs st i mm kids hto.1 hmatch
          (ih mm kids (srcStep srcs mm.name) hkids (by omega) hto.2.2.2.1 (hsrc.step mm.name) hko)

/-- **`fetch_tree_multi`** — the success case -/
theorem fetch_tree_multi (e : Envs) (fuel : Nat) (sm : Meta) (mkids srcs : List Obj)
    (hf : TreeMultiMaster mkids) (hfuel : depthL mkids + 1 ≤ fuel) (hsd : sm.disabled = false)
    (hsrc : SrcTree srcs) (hkeys : KeysDefinedTree e mkids srcs) (hnc : noClash mkids srcs = true) :
    fetchScope e fuel false sm mkids srcs =
      .ok (.scope { sm with tmpl := 0 } (treeMultiResult e mkids srcs), treeMultiUsed mkids srcs) := by
  rw [fetch_tree_multi_total e fuel sm mkids srcs hf hfuel hsd hsrc hkeys, hnc]
  rfl

/-- the clash case: RuntimeError ("incompatible") -/
theorem fetch_tree_multi_clash (e : Envs) (fuel : Nat) (sm : Meta) (mkids srcs : List Obj)
    (hf : TreeMultiMaster mkids) (hfuel : depthL mkids + 1 ≤ fuel) (hsd : sm.disabled = false)
    (hsrc : SrcTree srcs) (hkeys : KeysDefinedTree e mkids srcs) (hnc : noClash mkids srcs = false) :
    fetchScope e fuel false sm mkids srcs = .error incompatibleErr := by
  rw [fetch_tree_multi_total e fuel sm mkids srcs hf hfuel hsd hsrc hkeys, hnc]
  rfl

/-- a successful fetch returns the specification -/
theorem fetch_tree_multi_ok (e : Envs) (fuel : Nat) (sm : Meta) (mkids srcs : List Obj)
    (hf : TreeMultiMaster mkids) (hfuel : depthL mkids + 1 ≤ fuel) (hsd : sm.disabled = false)
    (hsrc : SrcTree srcs) (hkeys : KeysDefinedTree e mkids srcs) (ro : Obj) (used : List Nat)
    (h : fetchScope e fuel false sm mkids srcs = .ok (ro, used)) :
    noClash mkids srcs = true ∧ ro = .scope { sm with tmpl := 0 } (treeMultiResult e mkids srcs) ∧
      used = treeMultiUsed mkids srcs := by
  rw [fetch_tree_multi_total e fuel sm mkids srcs hf hfuel hsd hsrc hkeys] at h
  cases hnc : noClash mkids srcs with
  | false => rw [hnc] at h; cases h
  | true =>
    rw [hnc] at h
    simp only [if_true] at h
    cases h
    exact ⟨rfl, rfl, rfl⟩

/-- **`master.fetch(sources)`** on parsed roots: the fuel `fetchRoot` computes is adequate -/
theorem fetchRoot_tree_multi (e : Envs) (master : List Obj) (ss : List (List Obj))
    (hf : TreeMultiMaster master) (hd : depthL master ≤ 1000) (hsrc : SrcTree ss.flatten)
    (hkeys : KeysDefinedTree e master ss.flatten) :
    fetchRoot e false master ss =
      if noClash master ss.flatten then
        .ok (.scope { name := [], id := some 0 } (treeMultiResult e master ss.flatten),
             treeMultiUsed master ss.flatten)
      else .error incompatibleErr :=
  fetch_tree_multi_total e _ _ master ss.flatten hf (fetchRoot_fuel_tree master hd) rfl hsrc hkeys

/-! ## 6. the members of a block -/

theorem mem_multiBlock_tm {e : Envs} {f : Nat} {mm : Meta} {mws : List Word} {k0 : Str} {l : List Obj}
    {o : Obj} (ho : o ∈ multiBlock (.defn mm mws) k0 (candsOf e f (.defn mm mws) l)) :
    (∃ t, o = withTmpl (.defn mm mws) t) ∨ (∃ d ∈ l, o = candOfSrc (.defn mm mws) d) := by
  unfold multiBlock at ho
  rw [List.mem_cons] at ho
  rcases ho with rfl | ho
  · exact .inl ⟨_, rfl⟩
  · obtain ⟨x, hx, rfl⟩ := List.mem_map.mp ho
    obtain ⟨⟨d, hd, hxd⟩, _, _⟩ := mem_surv hx
    exact .inr ⟨d, hd, hxd⟩

/-- every object of the block of `mo` is a copy of `mo` as far as name, kind and the disabled flag go -/
theorem tmBlock_member_tm (e : Envs) : ∀ (mo : Obj) (srcs : List Obj), ∀ o ∈ tmBlock e mo srcs,
    o.name = mo.name ∧ o.meta.disabled = mo.meta.disabled ∧ o.isDefn = mo.isDefn
  | .defn mm mws, srcs, o, ho => by
    rw [tmBlock] at ho
    split at ho
    · rcases mem_multiBlock_tm ho with ⟨t, rfl⟩ | ⟨d, _, rfl⟩
      · exact ⟨rfl, rfl, rfl⟩
      · exact ⟨rfl, rfl, rfl⟩
    · rw [List.mem_singleton] at ho
      subst ho
      exact ⟨lastWins_name _ _, lastWins_disabled _ _, lastWins_isDefn _ _ rfl⟩
  | .scope mm kids, srcs, o, ho => by
    rw [tmBlock, List.mem_singleton] at ho
    subst ho
    exact ⟨rfl, rfl, rfl⟩

theorem tmBlock_ne_nil_tm (e : Envs) : ∀ (mo : Obj) (srcs : List Obj), tmBlock e mo srcs ≠ []
  | .defn mm mws, srcs => by
    rw [tmBlock]
    split
    · unfold multiBlock; exact List.cons_ne_nil _ _
    · exact List.cons_ne_nil _ _
  | .scope mm kids, srcs => by rw [tmBlock]; exact List.cons_ne_nil _ _

/-- in the result of a `TreeMultiMaster`, the enabled objects called like a master child are the
    block of that child -/
theorem view_tm (e : Envs) (mkids srcs : List Obj) (hf : TreeMultiMaster mkids) :
    ∀ mo ∈ mkids, activeNamed mo.name (treeMultiResult e mkids srcs) = tmBlock e mo srcs := by
  rw [treeMultiResult_eq_flatMap]
  exact activeNamed_flatMap_distinct (fun mo => tmBlock e mo srcs) mkids hf.distinct
    (fun mo hmo o ho => by
      have h := tmBlock_member_tm e mo srcs o ho
      exact ⟨h.1, by rw [h.2.1]; exact (hf.obj mo hmo).enabled⟩)

/-- one step down in the result: the children of the result scope -/
theorem srcStep_treeMultiResult_tm (e : Envs) (mkids srcs : List Obj) (hf : TreeMultiMaster mkids)
    (mm : Meta) (kids : List Obj) (hmem : Obj.scope mm kids ∈ mkids) :
    srcStep (treeMultiResult e mkids srcs) mm.name = treeMultiResult e kids (srcStep srcs mm.name) := by
  have hv := view_tm e mkids srcs hf _ hmem
  have hv' : activeNamed mm.name (treeMultiResult e mkids srcs) = tmBlock e (.scope mm kids) srcs := hv
  rw [← activeNamed_children_tree, hv', tmBlock]
  simp [Obj.children]

/-- the enabled definitions called like a master definition, in the result: its block -/
theorem defsNamed_treeMultiResult_tm (e : Envs) (mkids srcs : List Obj) (hf : TreeMultiMaster mkids)
    (mm : Meta) (mws : List Word) (hmem : Obj.defn mm mws ∈ mkids) :
    defsNamed mm.name (treeMultiResult e mkids srcs) = tmBlock e (.defn mm mws) srcs := by
  have hv := view_tm e mkids srcs hf _ hmem
  have hv' : activeNamed mm.name (treeMultiResult e mkids srcs) = tmBlock e (.defn mm mws) srcs := hv
  rw [defsNamed_eq_filter_tree, hv', List.filter_eq_self]
  intro o ho
  exact (tmBlock_member_tm e _ srcs o ho).2.2

/-! ## 7. C04: the result has the master's structure, `.multiple` definitions repeated -/

/-- the survivors of the list rule for the `.multiple` master definition `mo`, sources `srcs` at its
    level -/
def survivorsOf_tm (e : Envs) (mo : Obj) (srcs : List Obj) : List (Obj × Str) :=
  dedupKeepLast ((candsOf e 0 mo (defsNamed mo.name srcs)).filter (fun y => y.2 != keyOf e 0 mo mo))

mutual
def tmShapeObj (e : Envs) : Obj → List Obj → List Obj
  | .defn mm mws, srcs =>
    List.replicate
      (if isMultiple (.defn mm mws) then (survivorsOf_tm e (.defn mm mws) srcs).length + 1 else 1)
      (shapeObj (.defn mm mws))
  | .scope mm kids, srcs => [.scope { mm with tmpl := 0 } (tmShape e kids (srcStep srcs mm.name))]
/-- the skeleton of the result: the master's skeleton in which a `.multiple` definition stands once
    for its template and once per surviving instance, everything else exactly once -/
def tmShape (e : Envs) : List Obj → List Obj → List Obj
  | [], _ => []
  | mo :: rest, srcs => tmShapeObj e mo srcs ++ tmShape e rest srcs
end

theorem shapeList_append_tm (a b : List Obj) : shapeList (a ++ b) = shapeList a ++ shapeList b := by
  rw [shapeList_eq_map, shapeList_eq_map, shapeList_eq_map, List.map_append]

theorem shapeObj_withTmpl_tm (mm : Meta) (mws : List Word) (t : Int) :
    shapeObj (withTmpl (.defn mm mws) t) = shapeObj (.defn mm mws) := by
  unfold withTmpl Obj.withMeta
  simp only [shapeObj]

theorem shapeObj_candOfSrc_tm (mm : Meta) (mws : List Word) (d : Obj) :
    shapeObj (candOfSrc (.defn mm mws) d) = shapeObj (.defn mm mws) := by
  unfold candOfSrc
  simp only [shapeObj, Obj.meta]

theorem shapeObj_lastWins_tm (mm : Meta) (mws : List Word) (l : List Obj) :
    shapeObj (lastWins (.defn mm mws) l) = shapeObj (.defn mm mws) := by
  unfold lastWins
  cases l.getLast? with
  | none => rfl
  | some d => simp only [shapeObj, Obj.meta]

theorem shapeList_multiBlock_tm (e : Envs) (mm : Meta) (mws : List Word) (k0 : Str) (l : List Obj) :
    shapeList (multiBlock (.defn mm mws) k0 (candsOf e 0 (.defn mm mws) l)) =
      List.replicate
        ((dedupKeepLast ((candsOf e 0 (.defn mm mws) l).filter (fun y => y.2 != k0))).length + 1)
        (shapeObj (.defn mm mws)) := by
  unfold multiBlock
  rw [shapeList_eq_map, List.map_cons, shapeObj_withTmpl_tm, List.replicate_succ]
  congr 1
  rw [List.eq_replicate_iff]
  refine ⟨by simp, ?_⟩
  intro b hb
  rw [List.map_map, List.mem_map] at hb
  obtain ⟨x, hx, rfl⟩ := hb
  obtain ⟨⟨d, _, hxd⟩, _, _⟩ := mem_surv hx
  show shapeObj x.1 = _
  rw [hxd, shapeObj_candOfSrc_tm]

mutual
theorem shapeList_tmBlock_tm (e : Envs) : ∀ (mo : Obj) (srcs : List Obj),
    shapeList (tmBlock e mo srcs) = tmShapeObj e mo srcs
  | .defn mm mws, srcs => by
    rw [tmBlock, tmShapeObj]
    cases hmult : isMultiple (.defn mm mws) with
    | false =>
      simp only [Bool.false_eq_true, if_false]
      rw [shapeList, shapeList, shapeObj_lastWins_tm]
      rfl
    | true =>
      simp only [if_true]
      exact shapeList_multiBlock_tm e mm mws _ _
  | .scope mm kids, srcs => by
    rw [tmBlock, tmShapeObj, shapeList, shapeList, shapeObj, shapeList_treeMultiResult_tm e kids _]
/-- **C04.**  The skeleton of the result is `tmShape`: the master's skeleton, `.multiple` definitions
    repeated once per surviving instance. -/
theorem shapeList_treeMultiResult_tm (e : Envs) : ∀ (mkids : List Obj) (srcs : List Obj),
    shapeList (treeMultiResult e mkids srcs) = tmShape e mkids srcs
  | [], srcs => by rw [treeMultiResult, tmShape, shapeList]
  | mo :: rest, srcs => by
    rw [treeMultiResult, tmShape, shapeList_append_tm, shapeList_tmBlock_tm e mo srcs,
      shapeList_treeMultiResult_tm e rest srcs]
end

theorem defPaths_append_tm (a b : List Obj) (p : Str) : defPaths (a ++ b) p = defPaths a p ++ defPaths b p := by
  rw [defPaths_eq_flatMap, defPaths_eq_flatMap, defPaths_eq_flatMap, List.flatMap_append]

mutual
theorem mem_defPaths_tmBlock_tm (e : Envs) : ∀ (mo : Obj) (srcs : List Obj) (p q : Str),
    q ∈ defPaths (tmBlock e mo srcs) p ↔ q ∈ defPathsObj mo p
  | .defn mm mws, srcs, p, q => by
    rw [defPathsObj, List.mem_singleton, defPaths_eq_flatMap, List.mem_flatMap]
    constructor
    · rintro ⟨o, ho, hq⟩
      have h := tmBlock_member_tm e _ srcs o ho
      cases o with
      | scope m k => cases h.2.2
      | defn m ws =>
        rw [defPathsObj, List.mem_singleton] at hq
        rw [hq]
        have : m.name = mm.name := h.1
        rw [this]
    · intro hq
      cases hb : tmBlock e (.defn mm mws) srcs with
      | nil => exact absurd hb (tmBlock_ne_nil_tm e _ srcs)
      | cons o rest =>
        have ho : o ∈ tmBlock e (.defn mm mws) srcs := by rw [hb]; exact List.mem_cons_self
        have h := tmBlock_member_tm e _ srcs o ho
        refine ⟨o, List.mem_cons_self, ?_⟩
        cases o with
        | scope m k => cases h.2.2
        | defn m ws =>
          rw [defPathsObj, List.mem_singleton, hq]
          have : m.name = mm.name := h.1
          rw [this]
  | .scope mm kids, srcs, p, q => by
    rw [tmBlock, defPaths, defPaths, List.append_nil, defPathsObj, defPathsObj]
    exact mem_defPaths_treeMultiResult_tm e kids _ _ q
/-- the result declares exactly the master's parameter paths (a `.multiple` one possibly several
    times) -/
theorem mem_defPaths_treeMultiResult_tm (e : Envs) : ∀ (mkids : List Obj) (srcs : List Obj) (p q : Str),
    q ∈ defPaths (treeMultiResult e mkids srcs) p ↔ q ∈ defPaths mkids p
  | [], srcs, p, q => by rw [treeMultiResult]
  | mo :: rest, srcs, p, q => by
    rw [treeMultiResult, defPaths_append_tm, List.mem_append, defPaths, List.mem_append,
      mem_defPaths_tmBlock_tm e mo srcs p q, mem_defPaths_treeMultiResult_tm e rest srcs p q]
end

/-- for a master without `.multiple` the specification is that of FetchTree -/
theorem treeMultiResult_eq_treeResult_tm (e : Envs) : ∀ (mkids srcs : List Obj), TreeKids mkids →
    treeMultiResult e mkids srcs = treeResult mkids srcs
  | [], srcs, _ => by rw [treeMultiResult, treeResult]
  | .defn mm mws :: rest, srcs, h => by
    rw [TreeKids, TreeObj] at h
    have hm : isMultiple (.defn mm mws) = false := h.1.1.notMultiple
    rw [treeMultiResult, treeResult, tmBlock, treeMultiResult_eq_treeResult_tm e rest srcs h.2,
      treeObj_defn_eq_lastWins]
    simp only [hm, Bool.false_eq_true, if_false]
    rfl
  | .scope mm kids :: rest, srcs, h => by
    rw [TreeKids, TreeObj] at h
    rw [treeMultiResult, treeResult, tmBlock, treeObj, treeMultiResult_eq_treeResult_tm e rest srcs h.2,
      treeMultiResult_eq_treeResult_tm e kids _ h.1.2.2.2.2.1]
    rfl

/-! ## 8. C05: the block at a path -/

/-- **the block of a master definition at any depth.**  Where the master has the definition
    `.defn mm mws` at the path `ps.n`, the enabled objects called `n` the result has at that path
    (`srcAt` on the result) are the block `tmBlock` computed from the source objects reached by that
    path (`srcAt` on the sources). -/
theorem block_at_path_tm (e : Envs) : ∀ (ps : List Str) (mkids srcs : List Obj) (n : Str)
    (mm : Meta) (mws : List Word), TreeMultiMaster mkids → defAt mkids ps n = some (.defn mm mws) →
    activeNamed n (srcAt (treeMultiResult e mkids srcs) ps) = tmBlock e (.defn mm mws) (srcAt srcs ps)
  | [], mkids, srcs, n, mm, mws, hf, h => by
    rw [defAt] at h
    cases hfn : findNamedTree mkids n with
    | none => rw [hfn] at h; cases h
    | some mo =>
      rw [hfn] at h
      cases mo with
      | scope m k => cases h
      | defn m ws =>
        simp only [Option.some.injEq] at h
        rw [h] at hfn
        have hn : mm.name = n := findNamed_name hfn
        rw [srcAt, srcAt, ← hn]
        exact view_tm e mkids srcs hf _ (findNamed_mem hfn)
  | s :: ps, mkids, srcs, n, mm, mws, hf, h => by
    rw [defAt] at h
    cases hfn : findNamedTree mkids s with
    | none => rw [hfn] at h; cases h
    | some mo =>
      rw [hfn] at h
      cases mo with
      | defn m ws => cases h
      | scope m kids =>
        have hs : m.name = s := findNamed_name hfn
        have hmem := findNamed_mem hfn
        rw [srcAt, srcAt, ← hs, srcStep_treeMultiResult_tm e mkids srcs hf m kids hmem]
        exact block_at_path_tm e ps kids (srcStep srcs m.name) n mm mws
          (TreeMultiMaster.of_scope (hf.obj _ hmem)) h

/-- **C05 (the list rule at every depth).**  Where the master has the `.multiple` definition `mo` at
    the path `ps.n`, the result has at that path the template followed by the survivors of the list
    rule over the enabled source definitions reached by that path — over all sources and all
    spellings, in document order. -/
theorem multiple_list_rule_at_depth_tm (e : Envs) (mkids srcs : List Obj) (hf : TreeMultiMaster mkids)
    (ps : List Str) (n : Str) (mm : Meta) (mws : List Word)
    (h : defAt mkids ps n = some (.defn mm mws)) (hmult : isMultiple (.defn mm mws) = true) :
    activeNamed n (srcAt (treeMultiResult e mkids srcs) ps) =
      multiBlock (.defn mm mws) (keyOf e 0 (.defn mm mws) (.defn mm mws))
        (candsOf e 0 (.defn mm mws) (defsNamed n (srcAt srcs ps))) := by
  have hn : mm.name = n := (defAt_name ps mkids n _ h).1
  rw [block_at_path_tm e ps mkids srcs n mm mws hf h, tmBlock, hn]
  simp only [hmult, if_true]

/-- **C05 (last value wins at every depth)** for the non-multiple definitions of such a master:
    exactly one object of that name at that path, carrying the words of the last enabled source
    definition reached by the path (the master definition itself if there is none) -/
theorem last_value_wins_at_depth_tm (e : Envs) (mkids srcs : List Obj) (hf : TreeMultiMaster mkids)
    (ps : List Str) (n : Str) (mm : Meta) (mws : List Word)
    (h : defAt mkids ps n = some (.defn mm mws)) (hmult : isMultiple (.defn mm mws) = false) :
    activeNamed n (srcAt (treeMultiResult e mkids srcs) ps) =
      [match lastDef (srcAt srcs ps) n with
       | some d => .defn { mm with tmpl := 0 } d.srcWords
       | none => .defn mm mws] := by
  have hn : mm.name = n := (defAt_name ps mkids n _ h).1
  subst hn
  rw [block_at_path_tm e ps mkids srcs _ mm mws hf h, tmBlock]
  simp only [hmult, Bool.false_eq_true, if_false]
  unfold lastWins lastDef
  cases (defsNamed mm.name (srcAt srcs ps)).getLast? <;> rfl

/-- a path that exists in such a master is dot-free -/
theorem defAt_dotfree_tm : ∀ (ps : List Str) (l : List Obj) (n : Str) (o : Obj), TMKids l →
    defAt l ps n = some o → '.' ∉ n ∧ ∀ s ∈ ps, '.' ∉ s
  | [], l, n, o, ht, h => by
    rw [defAt] at h
    cases hfn : findNamedTree l n with
    | none => rw [hfn] at h; cases h
    | some mo =>
      have hto := (tmKids_iff l).mp ht mo (findNamed_mem hfn)
      have := hto.dotfree
      rw [findNamed_name hfn] at this
      exact ⟨this, fun s hs => by cases hs⟩
  | s :: ps, l, n, o, ht, h => by
    rw [defAt] at h
    cases hfn : findNamedTree l s with
    | none => rw [hfn] at h; cases h
    | some mo =>
      rw [hfn] at h
      have hto := (tmKids_iff l).mp ht mo (findNamed_mem hfn)
      cases mo with
      | defn mm mws => cases h
      | scope mm kids =>
        have hd := hto.dotfree
        rw [findNamed_name hfn] at hd
        have ih := defAt_dotfree_tm ps kids n o (TreeMultiMaster.of_scope hto).kids h
        refine ⟨ih.1, ?_⟩
        intro s' hs'
        rw [List.mem_cons] at hs'
        rcases hs' with rfl | hs'
        · exact hd
        · exact ih.2 s' hs'

/-- the enabled definitions reached by a path, recovered from `all_definitions(sources)` -/
theorem defsNamed_of_allDefs_tm (n : Str) (hn : '.' ∉ n) (hinc : n ≠ "include".toList)
    (ps : List Str) (srcs : List Obj) (hps : ∀ s ∈ ps, '.' ∉ s)
    (hs : ∀ x, ActiveIn x srcs → '.' ∉ x.name) :
    ((allDefinitions srcs).filter (fun x => x.1 == dottedPath ps n)).map (fun x => Obj.defn x.2.1 x.2.2) =
      defsNamed n (srcAt srcs ps) := by
  have h := allDefs_at_path_tree n hn hinc ps srcs [] hps hs
  simp only [List.nil_append] at h
  unfold allDefinitions
  rw [h, List.map_map]
  calc (defsNamed n (srcAt srcs ps)).map _ = (defsNamed n (srcAt srcs ps)).map id := by
        apply List.map_congr_left
        intro d hd
        have hdef := (mem_defsNamed.mp hd).2.1
        cases d with
        | scope m k => cases hdef
        | defn m ws => rfl
    _ = _ := List.map_id _

/-- **C05 (the list rule), in terms of `all_definitions(sources)`**: the candidates are built from
    the entries of `all_definitions(sources)` whose dotted path is `ps.n`, in order -/
theorem multiple_list_rule_allDefs_tm (e : Envs) (mkids srcs : List Obj) (hf : TreeMultiMaster mkids)
    (hs : ∀ x, ActiveIn x srcs → '.' ∉ x.name)
    (ps : List Str) (n : Str) (hinc : n ≠ "include".toList) (mm : Meta) (mws : List Word)
    (h : defAt mkids ps n = some (.defn mm mws)) (hmult : isMultiple (.defn mm mws) = true) :
    activeNamed n (srcAt (treeMultiResult e mkids srcs) ps) =
      multiBlock (.defn mm mws) (keyOf e 0 (.defn mm mws) (.defn mm mws))
        (candsOf e 0 (.defn mm mws)
          (((allDefinitions srcs).filter (fun x => x.1 == dottedPath ps n)).map
            (fun x => Obj.defn x.2.1 x.2.2))) := by
  obtain ⟨hn, hps⟩ := defAt_dotfree_tm ps mkids n _ hf.kids h
  rw [defsNamed_of_allDefs_tm n hn hinc ps srcs hps hs]
  exact multiple_list_rule_at_depth_tm e mkids srcs hf ps n mm mws h hmult

/-! ## 9. C06: the consumed ids and `all_definitions` -/

mutual
theorem mem_treeUsedObj_tm : ∀ (mo : Obj) (srcs : List Obj) (p : Str) (i : Nat),
    TMObj mo → NoIncludeTree [mo] → SrcPlain srcs →
    (i ∈ treeUsedObj mo srcs ↔
      ∃ x ∈ allDefsObj.allDefsList srcs p, x.2.1.id = some i ∧ x.1 ∈ defPathsObj mo p)
  | .defn mm mws, srcs, p, i, ht, hinc, hs => by
    rw [TMObj] at ht
    have hinc' : mm.name ≠ "include".toList :=
      hinc (.defn mm mws) (.here (List.mem_singleton.mpr rfl) ht.2.2.2) rfl
    have hB := allDefs_defsNamed_tree mm.name p ht.2.2.1 hinc' srcs
    rw [treeUsedObj, defPathsObj]
    constructor
    · intro hi
      rw [List.mem_flatMap] at hi
      obtain ⟨d, hd, hid⟩ := hi
      have hd' := mem_defsNamed.mp hd
      have hid' := (mem_marksOf_noRefs (hs.noRefs d (.here hd'.1 hd'.2.2.1) hd'.2.1)).mp hid
      have hx : (p ++ mm.name, d.meta, d.words) ∈
          (allDefsObj.allDefsList srcs p).filter (fun x => x.1 == p ++ mm.name) := by
        rw [hB]; exact List.mem_map.mpr ⟨d, hd, rfl⟩
      exact ⟨_, (List.mem_filter.mp hx).1, hid', List.mem_singleton.mpr rfl⟩
    · rintro ⟨x, hx, hid, hpath⟩
      rw [List.mem_singleton] at hpath
      have hx' : x ∈ (allDefsObj.allDefsList srcs p).filter (fun x => x.1 == p ++ mm.name) :=
        List.mem_filter.mpr ⟨hx, by simpa using hpath⟩
      rw [hB, List.mem_map] at hx'
      obtain ⟨d, hd, hdx⟩ := hx'
      have hd' := mem_defsNamed.mp hd
      rw [List.mem_flatMap]
      refine ⟨d, hd, (mem_marksOf_noRefs (hs.noRefs d (.here hd'.1 hd'.2.2.1) hd'.2.1)).mpr ?_⟩
      rw [← hdx] at hid
      exact hid
  | .scope mm kids, srcs, p, i, ht, hinc, hs => by
    have hkids := (TreeMultiMaster.of_scope ht).kids
    rw [TMObj] at ht
    have hinck : NoIncludeTree kids := fun d hd hdef =>
      hinc d (.deeper (List.mem_singleton.mpr rfl) ht.2.2.2.1 hd) hdef
    have hA := allDefs_srcStep_tree mm.name p ht.2.2.1 srcs (fun o ho hd => hs.dotfree o (.here ho hd))
    rw [treeUsedObj, defPathsObj,
      mem_treeUsed_tm kids (srcStep srcs mm.name) (p ++ mm.name ++ ['.']) i hkids hinck (hs.step mm.name),
      ← hA]
    constructor
    · rintro ⟨x, hx, hid, hpath⟩
      exact ⟨x, (List.mem_filter.mp hx).1, hid, hpath⟩
    · rintro ⟨x, hx, hid, hpath⟩
      obtain ⟨r, hr⟩ := defPaths_prefix_tree kids _ _ hpath
      exact ⟨x, List.mem_filter.mpr ⟨hx, (startsWith_iff_tree _ _).mpr ⟨r, hr⟩⟩, hid, hpath⟩
theorem mem_treeUsed_tm : ∀ (mkids : List Obj) (srcs : List Obj) (p : Str) (i : Nat),
    TMKids mkids → NoIncludeTree mkids → SrcPlain srcs →
    (i ∈ treeUsed mkids srcs ↔
      ∃ x ∈ allDefsObj.allDefsList srcs p, x.2.1.id = some i ∧ x.1 ∈ defPaths mkids p)
  | [], srcs, p, i, _, _, _ => by
    rw [treeUsed, defPaths]
    simp
  | mo :: rest, srcs, p, i, ht, hinc, hs => by
    rw [TMKids] at ht
    rw [treeUsed, defPaths, List.mem_append, mem_treeUsedObj_tm mo srcs p i ht.1 hinc.head hs,
      mem_treeUsed_tm rest srcs p i ht.2 hinc.tail hs]
    constructor
    · rintro (⟨x, hx, hid, hp⟩ | ⟨x, hx, hid, hp⟩)
      · exact ⟨x, hx, hid, List.mem_append.mpr (.inl hp)⟩
      · exact ⟨x, hx, hid, List.mem_append.mpr (.inr hp)⟩
    · rintro ⟨x, hx, hid, hp⟩
      rcases List.mem_append.mp hp with hp | hp
      · exact .inl ⟨x, hx, hid, hp⟩
      · exact .inr ⟨x, hx, hid, hp⟩
end

/-- **C06 (consumed ids, exactly).**  The consumed ids are exactly the ids of the entries of
    `all_definitions(sources)` whose full path is the path of a master definition, `.multiple` or
    not. -/
theorem tree_multi_used_exact_tm (mkids srcs : List Obj) (hf : TreeMultiMaster mkids)
    (hinc : NoIncludeTree mkids) (hs : SrcPlain srcs) (i : Nat) :
    i ∈ treeMultiUsed mkids srcs ↔
      ∃ x ∈ allDefinitions srcs, x.2.1.id = some i ∧ x.1 ∈ defPaths mkids [] :=
  mem_treeUsed_tm mkids srcs [] i hf.kids hinc hs

/-- **C06 (unused list, exactly).**  Whenever the fetch succeeds and the entries of
    `all_definitions(sources)` carry pairwise distinct ids, the entries that were not consumed are
    exactly those whose full path is not the path of a master definition. -/
theorem tree_multi_unused_exact_tm (e : Envs) (fuel : Nat) (sm : Meta) (mkids srcs : List Obj)
    (hf : TreeMultiMaster mkids) (hfuel : depthL mkids + 1 ≤ fuel) (hsd : sm.disabled = false)
    (hinc : NoIncludeTree mkids) (hsrc : SrcTree srcs) (hs : SrcPlain srcs)
    (hkeys : KeysDefinedTree e mkids srcs)
    (hsome : ∀ x ∈ allDefinitions srcs, x.2.1.id ≠ none)
    (hids : ((allDefinitions srcs).map (fun x => x.2.1.id)).Nodup)
    (ro : Obj) (used : List Nat)
    (h : fetchScope e fuel false sm mkids srcs = .ok (ro, used)) :
    (allDefinitions srcs).filter (notConsumed used) =
      (allDefinitions srcs).filter (fun x => !(defPaths mkids []).contains x.1) := by
  obtain ⟨_, _, hu⟩ := fetch_tree_multi_ok e fuel sm mkids srcs hf hfuel hsd hsrc hkeys ro used h
  subst hu
  exact unused_filter_exact_tree _ srcs _ hsome hids (tree_multi_used_exact_tm mkids srcs hf hinc hs)

mutual
theorem defPathsObj_eq_allDefs_tm : ∀ (o : Obj) (p : Str), TMObj o → NoIncludeTree [o] →
    defPathsObj o p = (allDefsObj o p).map (·.1)
  | .defn mm mws, p, ht, hinc => by
    rw [TMObj] at ht
    have hinc' : mm.name ≠ "include".toList :=
      hinc (.defn mm mws) (.here (List.mem_singleton.mpr rfl) ht.2.2.2) rfl
    have : (mm.name == "include".toList) = false := beq_eq_false_iff_ne.mpr hinc'
    rw [defPathsObj, allDefsObj, this]
    rfl
  | .scope mm kids, p, ht, hinc => by
    have hk := (TreeMultiMaster.of_scope ht).kids
    rw [TMObj] at ht
    rw [defPathsObj, allDefsObj]
    exact defPaths_eq_allDefs_tm kids _ hk
      (fun d hd hdef => hinc d (.deeper (List.mem_singleton.mpr rfl) ht.2.2.2.1 hd) hdef)
theorem defPaths_eq_allDefs_tm : ∀ (l : List Obj) (p : Str), TMKids l → NoIncludeTree l →
    defPaths l p = (allDefsObj.allDefsList l p).map (·.1)
  | [], p, _, _ => by rw [defPaths, allDefsObj.allDefsList]; rfl
  | o :: os, p, ht, hinc => by
    rw [TMKids] at ht
    have hen : o.meta.disabled = false := ht.1.enabled
    rw [defPaths, allDefsObj.allDefsList, hen, List.map_append,
      defPathsObj_eq_allDefs_tm o p ht.1 hinc.head, defPaths_eq_allDefs_tm os p ht.2 hinc.tail]
    rfl
end

/-- the definition paths of such a master are the paths `all_definitions(master)` lists -/
theorem defPaths_eq_allDefinitions_tm (mkids : List Obj) (hf : TreeMultiMaster mkids)
    (hinc : NoIncludeTree mkids) : defPaths mkids [] = (allDefinitions mkids).map (·.1) :=
  defPaths_eq_allDefs_tm mkids [] hf.kids hinc

/-! ## 10. C07: re-fetching the result -/

/-- the enabled definitions called like the master definition, when the enabled objects of that name
    are its block -/
theorem defsNamed_of_view_tm (e : Envs) (mm : Meta) (mws : List Word) (srcs R : List Obj)
    (hv : activeNamed mm.name R = tmBlock e (.defn mm mws) srcs) :
    defsNamed mm.name R = tmBlock e (.defn mm mws) srcs := by
  rw [defsNamed_eq_filter_tree, hv, List.filter_eq_self]
  intro o ho
  exact (tmBlock_member_tm e _ srcs o ho).2.2

theorem srcStep_of_view_tm (e : Envs) (mm : Meta) (kids : List Obj) (srcs R : List Obj)
    (hv : activeNamed mm.name R = tmBlock e (.scope mm kids) srcs) :
    srcStep R mm.name = treeMultiResult e kids (srcStep srcs mm.name) := by
  rw [← activeNamed_children_tree, hv, tmBlock]
  simp [Obj.children]

mutual
theorem tmBlock_view_idem_tm (e : Envs) : ∀ (mo : Obj) (srcs R : List Obj), TMObj mo → RefetchTree [mo] →
    activeNamed mo.name R = tmBlock e mo srcs → tmBlock e mo R = tmBlock e mo srcs
  | .defn mm mws, srcs, R, ht, hr, hv => by
    rw [TMObj] at ht
    have hr' := hr (.defn mm mws) (.here (List.mem_singleton.mpr rfl) ht.2.2.2) rfl
    have hdn := defsNamed_of_view_tm e mm mws srcs R hv
    cases hmult : isMultiple (.defn mm mws) with
    | false =>
      rw [tmBlock] at hdn ⊢
      rw [tmBlock]
      simp only [hmult, Bool.false_eq_true, if_false] at hdn ⊢
      rw [hdn, lastWins_idem mm mws _ hr'.1 hr'.2.1]
    | true =>
      rw [tmBlock] at hdn ⊢
      rw [tmBlock]
      simp only [hmult, if_true] at hdn ⊢
      rw [hdn]
      exact multiBlock_refetch e 0 mm mws _ hr'.1 hr'.2.1
  | .scope mm kids, srcs, R, ht, hr, hv => by
    have hk := TreeMultiMaster.of_scope ht
    rw [TMObj] at ht
    have hstep := srcStep_of_view_tm e mm kids srcs R hv
    rw [tmBlock, hstep, tmBlock]
    congr 2
    exact treeMultiResult_view_idem_tm e kids (srcStep srcs mm.name) _ hk.kids (hr.kids ht.2.2.2.1)
      (view_tm e kids _ hk)
theorem treeMultiResult_view_idem_tm (e : Envs) : ∀ (l : List Obj) (srcs R : List Obj), TMKids l →
    RefetchTree l → (∀ mo ∈ l, activeNamed mo.name R = tmBlock e mo srcs) →
    treeMultiResult e l R = treeMultiResult e l srcs
  | [], srcs, R, _, _, _ => by rw [treeMultiResult, treeMultiResult]
  | mo :: rest, srcs, R, ht, hr, hv => by
    rw [TMKids] at ht
    rw [treeMultiResult, treeMultiResult,
      tmBlock_view_idem_tm e mo srcs R ht.1 hr.head (hv mo List.mem_cons_self),
      treeMultiResult_view_idem_tm e rest srcs R ht.2 hr.tail (fun o ho => hv o (List.mem_cons_of_mem _ ho))]
end

/-- **the specification is idempotent**: the result, taken as the only source, is reproduced -/
theorem treeMultiResult_idem_tm (e : Envs) (mkids srcs : List Obj) (hf : TreeMultiMaster mkids)
    (hr : RefetchTree mkids) :
    treeMultiResult e mkids (treeMultiResult e mkids srcs) = treeMultiResult e mkids srcs :=
  treeMultiResult_view_idem_tm e mkids srcs _ hf.kids hr (view_tm e mkids srcs hf)

mutual
theorem noClashObj_view_tm (e : Envs) : ∀ (mo : Obj) (srcs R : List Obj), TMObj mo →
    activeNamed mo.name R = tmBlock e mo srcs → noClashObj mo R = true
  | .defn mm mws, srcs, R, ht, hv => by
    have hv' : activeNamed mm.name R = tmBlock e (.defn mm mws) srcs := hv
    rw [noClashObj, scopesNamed_eq_filter_tree, hv']
    have : (tmBlock e (.defn mm mws) srcs).filter Obj.isScope = [] := by
      rw [List.filter_eq_nil_iff]
      intro o ho
      unfold Obj.isScope
      rw [(tmBlock_member_tm e _ srcs o ho).2.2]
      simp [Obj.isDefn]
    rw [this]
    rfl
  | .scope mm kids, srcs, R, ht, hv => by
    have hk := TreeMultiMaster.of_scope ht
    have hv' : activeNamed mm.name R = tmBlock e (.scope mm kids) srcs := hv
    have hstep := srcStep_of_view_tm e mm kids srcs R hv
    rw [noClashObj, defsNamed_eq_filter_tree, hv', hstep,
      noClash_view_tm e kids (srcStep srcs mm.name) _ hk.kids (view_tm e kids _ hk), tmBlock]
    rfl
theorem noClash_view_tm (e : Envs) : ∀ (l : List Obj) (srcs R : List Obj), TMKids l →
    (∀ mo ∈ l, activeNamed mo.name R = tmBlock e mo srcs) → noClash l R = true
  | [], srcs, R, _, _ => by rw [noClash]
  | mo :: rest, srcs, R, ht, hv => by
    rw [TMKids] at ht
    rw [noClash, noClashObj_view_tm e mo srcs R ht.1 (hv mo List.mem_cons_self),
      noClash_view_tm e rest srcs R ht.2 (fun o ho => hv o (List.mem_cons_of_mem _ ho))]
    rfl
end

/-- the result never clashes with its master -/
theorem noClash_treeMultiResult_tm (e : Envs) (mkids srcs : List Obj) (hf : TreeMultiMaster mkids) :
    noClash mkids (treeMultiResult e mkids srcs) = true :=
  noClash_view_tm e mkids srcs _ hf.kids (view_tm e mkids srcs hf)

mutual
theorem keysDefinedObj_view_tm (e : Envs) : ∀ (mo : Obj) (srcs R : List Obj), TMObj mo → RefetchTree [mo] →
    KeysDefinedObj e mo srcs → activeNamed mo.name R = tmBlock e mo srcs → KeysDefinedObj e mo R
  | .defn mm mws, srcs, R, ht, hr, hk, hv => by
    rw [TMObj] at ht
    have hr' := hr (.defn mm mws) (.here (List.mem_singleton.mpr rfl) ht.2.2.2) rfl
    rw [KeysDefinedObj] at hk ⊢
    intro hmult
    obtain ⟨hk0, hcand⟩ := hk hmult
    refine ⟨hk0, ?_⟩
    intro d hd
    rw [defsNamed_of_view_tm e mm mws srcs R hv, tmBlock] at hd
    simp only [hmult, if_true] at hd
    rcases mem_multiBlock_tm hd with ⟨t, rfl⟩ | ⟨d0, hd0, rfl⟩
    · rw [candOfSrc_tmpl mm mws hr'.1 hr'.2.1]
      exact hk0
    · rw [candOfSrc_cand mm mws hr'.2.1]
      exact hcand d0 hd0
  | .scope mm kids, srcs, R, ht, hr, hk, hv => by
    have hkm := TreeMultiMaster.of_scope ht
    rw [TMObj] at ht
    rw [KeysDefinedObj] at hk ⊢
    rw [srcStep_of_view_tm e mm kids srcs R hv]
    exact keysDefinedTree_view_tm e kids (srcStep srcs mm.name) _ hkm.kids (hr.kids ht.2.2.2.1) hk
      (view_tm e kids _ hkm)
theorem keysDefinedTree_view_tm (e : Envs) : ∀ (l : List Obj) (srcs R : List Obj), TMKids l →
    RefetchTree l → KeysDefinedTree e l srcs →
    (∀ mo ∈ l, activeNamed mo.name R = tmBlock e mo srcs) → KeysDefinedTree e l R
  | [], srcs, R, _, _, _, _ => by rw [KeysDefinedTree]; trivial
  | mo :: rest, srcs, R, ht, hr, hk, hv => by
    rw [TMKids] at ht
    rw [KeysDefinedTree] at hk ⊢
    exact ⟨keysDefinedObj_view_tm e mo srcs R ht.1 hr.head hk.1 (hv mo List.mem_cons_self),
      keysDefinedTree_view_tm e rest srcs R ht.2 hr.tail hk.2 (fun o ho => hv o (List.mem_cons_of_mem _ ho))⟩
end

/-- the keys stay defined when the result is fetched again -/
theorem keysDefined_treeMultiResult_tm (e : Envs) (mkids srcs : List Obj) (hf : TreeMultiMaster mkids)
    (hr : RefetchTree mkids) (hk : KeysDefinedTree e mkids srcs) :
    KeysDefinedTree e mkids (treeMultiResult e mkids srcs) :=
  keysDefinedTree_view_tm e mkids srcs _ hf.kids hr hk (view_tm e mkids srcs hf)

theorem tmObj_of_activeIn {mo : Obj} {l : List Obj} (h : ActiveIn mo l) : TMKids l → TMObj mo := by
  induction h with
  | here hm _ => intro ht; exact (tmKids_iff _).mp ht _ hm
  | deeper hm _ _ ih =>
    intro ht
    exact ih (TreeMultiMaster.of_scope ((tmKids_iff _).mp ht _ hm)).kids

/-- every active object of the result belongs to the block of an active master object, computed
    from sources that are active objects of the original sources -/
theorem activeIn_treeMultiResult_tm (e : Envs) {x : Obj} {R : List Obj} (h : ActiveIn x R) :
    ∀ (mkids srcs : List Obj), R = treeMultiResult e mkids srcs → TMKids mkids →
      ∃ mo S, ActiveIn mo mkids ∧ (∀ y, ActiveIn y S → ActiveIn y srcs) ∧ x ∈ tmBlock e mo S := by
  induction h with
  | @here R hm hd =>
    intro mkids srcs hR ht
    rw [hR, treeMultiResult_eq_flatMap, List.mem_flatMap] at hm
    obtain ⟨mo, hmo, hx⟩ := hm
    rw [(tmBlock_member_tm e mo srcs _ hx).2.1] at hd
    exact ⟨mo, srcs, .here hmo hd, fun y hy => hy, hx⟩
  | @deeper R m kids' hm hd _ ih =>
    intro mkids srcs hR ht
    rw [hR, treeMultiResult_eq_flatMap, List.mem_flatMap] at hm
    obtain ⟨mo, hmo, hx⟩ := hm
    have hmem := tmBlock_member_tm e mo srcs _ hx
    cases mo with
    | defn mm mws => cases hmem.2.2
    | scope mm mk =>
      rw [tmBlock, List.mem_singleton] at hx
      injection hx with hm1 hk1
      have hto := (tmKids_iff _).mp ht _ hmo
      have hmd : mm.disabled = false := hto.enabled
      obtain ⟨mo', S, ha, hS, hx'⟩ := ih mk (srcStep srcs mm.name) hk1 (TreeMultiMaster.of_scope hto).kids
      exact ⟨mo', S, .deeper hmo hmd ha, fun y hy => activeIn_srcStep (hS y hy), hx'⟩

/-- the result of such a master is itself a well-formed source tree -/
theorem srcTree_treeMultiResult_tm (e : Envs) (mkids srcs : List Obj) (hf : TreeMultiMaster mkids)
    (hr : RefetchTree mkids) (hdol : SrcNoDollar srcs) : SrcTree (treeMultiResult e mkids srcs) := by
  constructor
  · intro x hx hdef
    obtain ⟨mo, S, ha, hS, hxb⟩ := activeIn_treeMultiResult_tm e hx mkids srcs rfl hf.kids
    have hmem := tmBlock_member_tm e mo S x hxb
    rw [hdef] at hmem
    have hr' := hr mo ha hmem.2.2.symm
    cases mo with
    | scope mm mk => cases hmem.2.2
    | defn mm mws =>
      have hS' : ∀ d ∈ defsNamed mm.name S, hasDollar d.srcWords = false := by
        intro d hd
        have hd' := mem_defsNamed.mp hd
        exact hdol d (hS d (.here hd'.1 hd'.2.2.1)) hd'.2.1
      rw [tmBlock] at hxb
      split at hxb
      · rcases mem_multiBlock_tm hxb with ⟨t, rfl⟩ | ⟨d, hd, rfl⟩
        · exact .inr ⟨hr'.2.1, hr'.2.2⟩
        · exact .inr ⟨hr'.2.1, hS' d hd⟩
      · rw [List.mem_singleton] at hxb
        subst hxb
        exact lastWins_srcOK _ _ hr'.2.1 hr'.2.2 hS'
  · intro m kids hx
    obtain ⟨mo, S, ha, hS, hxb⟩ := activeIn_treeMultiResult_tm e hx mkids srcs rfl hf.kids
    have hto := tmObj_of_activeIn ha hf.kids
    have hn := (tmBlock_member_tm e mo S _ hxb).1
    have : m.name = mo.name := hn
    rw [this]
    exact hto.name_ne

/-- **C07.**  Fetching the result again, as the only source, returns the same result (and cannot
    fail). -/
theorem tree_multi_refetch_idempotent_tm (e : Envs) (fuel : Nat) (sm : Meta) (mkids srcs : List Obj)
    (hf : TreeMultiMaster mkids) (hfuel : depthL mkids + 1 ≤ fuel) (hsd : sm.disabled = false)
    (hr : RefetchTree mkids) (hdol : SrcNoDollar srcs) (hkeys : KeysDefinedTree e mkids srcs) :
    fetchScope e fuel false sm mkids (treeMultiResult e mkids srcs) =
      .ok (.scope { sm with tmpl := 0 } (treeMultiResult e mkids srcs),
           treeMultiUsed mkids (treeMultiResult e mkids srcs)) := by
  rw [fetch_tree_multi e fuel sm mkids _ hf hfuel hsd (srcTree_treeMultiResult_tm e mkids srcs hf hr hdol)
    (keysDefined_treeMultiResult_tm e mkids srcs hf hr hkeys)
    (noClash_treeMultiResult_tm e mkids srcs hf), treeMultiResult_idem_tm e mkids srcs hf hr]

/-! ## 11. soundness of the executable checks -/

theorem defnMetaB_tm_sound (mm : Meta) (h : defnMetaB_tm mm = true) : DefnMeta mm := by
  unfold defnMetaB_tm at h
  simp only [Bool.and_eq_true, Bool.not_eq_true'] at h
  refine ⟨h.1, ?_⟩
  intro b hb
  rw [hb] at h
  exact absurd h.2 (by simp)

mutual
theorem tmObjB_sound : ∀ (o : Obj), tmObjB o = true → TMObj o
  | .defn mm mws, h => by
    rw [tmObjB] at h
    simp only [Bool.and_eq_true, Bool.not_eq_true', List.contains_eq_mem, decide_eq_false_iff_not] at h
    rw [TMObj]
    exact ⟨defnMetaB_tm_sound mm h.1.1.1, str_ne_nil_of_isEmpty h.1.1.2, h.1.2, h.2⟩
  | .scope mm kids, h => by
    rw [tmObjB] at h
    simp only [Bool.and_eq_true, Bool.not_eq_true', List.contains_eq_mem, decide_eq_false_iff_not,
      decide_eq_true_eq] at h
    rw [TMObj]
    exact ⟨h.1.1.1.1.1, str_ne_nil_of_isEmpty h.1.1.1.1.2, h.1.1.1.2, h.1.1.2,
      tmKidsB_sound kids h.1.2, h.2⟩
theorem tmKidsB_sound : ∀ (l : List Obj), tmKidsB l = true → TMKids l
  | [], _ => by rw [TMKids]; trivial
  | o :: os, h => by
    rw [tmKidsB, Bool.and_eq_true] at h
    rw [TMKids]
    exact ⟨tmObjB_sound o h.1, tmKidsB_sound os h.2⟩
end

theorem treeMultiMasterB_sound (mkids : List Obj) (h : treeMultiMasterB mkids = true) :
    TreeMultiMaster mkids := by
  unfold treeMultiMasterB at h
  simp only [Bool.and_eq_true, decide_eq_true_eq] at h
  exact ⟨tmKidsB_sound mkids h.1, h.2⟩

mutual
theorem keysDefinedObjB_sound (e : Envs) : ∀ (mo : Obj) (srcs : List Obj),
    keysDefinedObjB e mo srcs = true → KeysDefinedObj e mo srcs
  | .defn mm mws, srcs, h => by
    rw [keysDefinedObjB] at h
    rw [KeysDefinedObj]
    intro hmult
    rw [hmult] at h
    exact keysDefined_of_B (by simpa using h)
  | .scope mm kids, srcs, h => by
    rw [keysDefinedObjB] at h
    rw [KeysDefinedObj]
    exact keysDefinedTreeB_sound e kids _ h
theorem keysDefinedTreeB_sound (e : Envs) : ∀ (l : List Obj) (srcs : List Obj),
    keysDefinedTreeB e l srcs = true → KeysDefinedTree e l srcs
  | [], _, _ => by rw [KeysDefinedTree]; trivial
  | mo :: rest, srcs, h => by
    rw [keysDefinedTreeB, Bool.and_eq_true] at h
    rw [KeysDefinedTree]
    exact ⟨keysDefinedObjB_sound e mo srcs h.1, keysDefinedTreeB_sound e rest srcs h.2⟩
end

structure MasterOK_tm (mkids : List Obj) : Prop where
  tree : TreeMultiMaster mkids
  depth : depthL mkids ≤ 1000
  noInclude : NoIncludeTree mkids
  refetch : RefetchTree mkids

theorem masterCheck_tm_sound (mkids : List Obj) (h : masterCheck_tm mkids = true) : MasterOK_tm mkids := by
  unfold masterCheck_tm at h
  simp only [Bool.and_eq_true, decide_eq_true_eq] at h
  refine ⟨treeMultiMasterB_sound mkids h.1.1, h.1.2, ?_, ?_⟩
  · intro d hd hdef
    have := allActive_sound _ hd h.2
    simp only [hdef, Bool.not_true, Bool.false_or, Bool.and_eq_true, bne_iff_ne, ne_eq] at this
    exact this.1.1.1
  · intro d hd hdef
    have := allActive_sound _ hd h.2
    simp only [hdef, Bool.not_true, Bool.false_or, Bool.and_eq_true, beq_iff_eq,
      Option.isNone_iff_eq_none, Bool.not_eq_true'] at this
    exact ⟨this.1.1.2, this.1.2, this.2⟩

end Phil
