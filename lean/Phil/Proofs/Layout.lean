/-
  Lemmas behind the closed layout theorems (C02 for flat documents, C15 for flat documents):
  an abstract *layout* of a flat document (blank lines, comment lines, blanks around names, `=` and
  words, the four ways of ending a definition), its rendering to text, and what the two tokenizer
  contexts of the parser (structure context in `collect_objects`, value context in
  `collect_assigned_words`) do on every part of that text.
-/
import Phil.Proofs.PrintParse
set_option linter.unusedSimpArgs false
set_option linter.unusedVariables false
namespace Phil

/-! ### layouts as data -/

/-- white space inside a line: any `str.isspace()` character except the newline (blank, tab, `\r`, …) -/
def inlineB (sp : Str) : Bool := sp.all (fun c => isSpace c && c != '\n')

/-- the text of a whole-line comment after the `#` that the layout theorem is stated for:
    no newline; not `phil…` (`#phil` is a directive, not a comment); and — because the *value*
    tokenizer may be the one that meets this line (directly after a value that was ended by a
    newline) — if the `#` stands alone (`# text`, `#`, `#;…`) the text must be acceptable to the
    comment reader of `collect_assigned_words` (`commentOk`: no word starting with a quote character,
    last word not a lone backslash).  `#text` (no blank after `#`) may contain anything. -/
def cmtSafe (c : Str) : Bool :=
  !c.contains '\n' && !startsWith "phil".toList c &&
    (!stopsAt valueSettings c || commentOk false true c)

/-- one filler line between definitions: blanks, optionally `#` and a comment text, newline -/
structure FillLine where
  ind : Str
  cmt : Option Str
  deriving Repr, DecidableEq

def cmtText : Option Str → Str
  | none => []
  | some c => '#' :: c

def cmtWf : Option Str → Bool
  | none => true
  | some c => cmtSafe c

def FillLine.text (f : FillLine) : Str := f.ind ++ (cmtText f.cmt ++ ['\n'])
def FillLine.wf (f : FillLine) : Bool := inlineB f.ind && cmtWf f.cmt

def linesStr : List FillLine → Str
  | [] => []
  | f :: fs => f.text ++ linesStr fs

/-- what stands in front of a name (or between the last definition and the end of the text):
    filler lines, then blanks on the line of the name -/
structure Pre where
  lines : List FillLine := []
  ind : Str := []
  deriving Repr, DecidableEq

def Pre.text (p : Pre) : Str := linesStr p.lines ++ p.ind
def Pre.wf (p : Pre) : Bool := p.lines.all FillLine.wf && inlineB p.ind

/-- how a definition ends -/
inductive Terminator
  /-- trailing blanks and the newline -/
  | nl (tb : Str)
  /-- blanks (possibly none) and `;`; what follows the `;` belongs to the `Pre` of the next definition -/
  | semi (sb : Str)
  /-- blanks (at least one), a stand-alone `#`, the comment text, the newline -/
  | comment (sb : Str) (cmt : Str)
  /-- nothing: end of the text (only blanks may follow) -/
  | eof
  deriving Repr, DecidableEq

def Terminator.text : Terminator → Str
  | .nl tb => tb ++ ['\n']
  | .semi sb => sb ++ [';']
  | .comment sb cmt => sb ++ '#' :: (cmt ++ ['\n'])
  | .eof => []

def Terminator.wf : Terminator → Bool
  | .nl tb => inlineB tb
  | .semi sb => inlineB sb
  | .comment sb cmt => inlineB sb && !sb.isEmpty && stopsAt valueSettings cmt && commentOk false true cmt
  | .eof => true

def Terminator.isEof : Terminator → Bool
  | .eof => true
  | _ => false

/-- the layout of one definition `pre name sp1 = g1 w1 g2 w2 … term` -/
structure DefLayout where
  pre : Pre := {}
  sp1 : Str := [' ']
  gaps : List Str
  term : Terminator := .nl []
  deriving Repr, DecidableEq

/-- the words with the blanks in front of each -/
def wordsLay : List Str → List Word → Str
  | g :: gs, w :: ws => g ++ (w.str ++ wordsLay gs ws)
  | _, _ => []

/-- one gap per word, every gap blanks without a newline, all but the first non-empty -/
def gapsOK : Bool → List Str → List Word → Bool
  | _, [], [] => true
  | first, g :: gs, _ :: ws => inlineB g && (first || !g.isEmpty) && gapsOK false gs ws
  | _, _, _ => false

def defText (d : DefSpec) (L : DefLayout) : Str :=
  d.1 ++ (L.sp1 ++ '=' :: (wordsLay L.gaps d.2 ++ L.term.text))

/-- the text of a flat document under a layout; `post` is what follows the last definition -/
def render : List (DefSpec × DefLayout) → Pre → Str
  | [], post => post.text
  | (d, L) :: rest, post => L.pre.text ++ (defText d L ++ render rest post)

/-- `GoodDefn` as a Boolean -/
def goodDef (d : DefSpec) : Bool :=
  goodName d.1 && !d.2.isEmpty && d.2.all goodWord && chainOK true d.2

def wfDef (d : DefSpec) (L : DefLayout) : Bool :=
  L.pre.wf && inlineB L.sp1 && gapsOK true L.gaps d.2 && L.term.wf

/-- well-formed document layout: every definition good, every layout well formed, and the
    end-of-text terminator only on the last definition with nothing but blanks after it -/
def wfDoc : List (DefSpec × DefLayout) → Pre → Bool
  | [], post => post.wf
  | (d, L) :: rest, post =>
    goodDef d && wfDef d L && (!L.term.isEof || (rest.isEmpty && post.lines.isEmpty)) && wfDoc rest post

/-! ### inline blanks -/

theorem inlineB_inline {sp : Str} (h : inlineB sp = true) : InlineSpace sp := by
  intro d hd
  simp only [inlineB, List.all_eq_true, Bool.and_eq_true, bne_iff_ne, ne_eq] at h
  exact h d hd

theorem inlineB_space {sp : Str} (h : inlineB sp = true) : ∀ d ∈ sp, isSpace d = true :=
  (inlineB_inline h).isSpace

theorem inlineB_nl {sp : Str} (h : inlineB sp = true) : nlCount sp = 0 := (inlineB_inline h).nlCount

theorem goodDef_good {d : DefSpec} (h : goodDef d = true) : GoodDefn d := by
  simp only [goodDef, Bool.and_eq_true, Bool.not_eq_true', List.all_eq_true] at h
  obtain ⟨⟨⟨h1, h2⟩, h3⟩, h4⟩ := h
  refine ⟨h1, ?_, h3, h4⟩
  intro e; rw [e] at h2; simp at h2

/-! ### structure context: blank lines and comment lines are skipped -/

/-- inside a comment the word iterator drops everything up to and including the newline -/
theorem nextWordAux_in_comment (s : Settings) (c rest : Str) (h : '\n' ∉ c) (l : Nat) :
    nextWordAux s true (c ++ '\n' :: rest) l = nextWordAux s false rest (l + 1) := by
  induction c with
  | nil => simp [nextWordAux]
  | cons d ds ih =>
    have hd : d ≠ '\n' := fun e => h (by simp [e])
    have hds : '\n' ∉ ds := fun e => h (by simp [e])
    rw [List.cons_append, nextWordAux]
    simp only [beq_iff_eq, hd, ↓reduceIte]
    exact ih hds

theorem take4_phil (c rest : Str) (hnl : '\n' ∉ c) (h : startsWith "phil".toList c = false) :
    ((c ++ '\n' :: rest).take 4 != "phil".toList) = true := by
  have e : "phil".toList = ['p', 'h', 'i', 'l'] := rfl
  rw [e] at h ⊢
  simp only [startsWith, List.length_cons, List.length_nil] at h
  rcases c with _ | ⟨a, _ | ⟨b, _ | ⟨c, _ | ⟨d, t⟩⟩⟩⟩
  · simp
  · simp
  · simp
  · simp
  · simpa using h

theorem cmtSafe_facts {c : Str} (h : cmtSafe c = true) :
    '\n' ∉ c ∧ startsWith "phil".toList c = false ∧
      (stopsAt valueSettings c = true → commentOk false true c = true) := by
  simp only [cmtSafe, Bool.and_eq_true, Bool.not_eq_true', Bool.or_eq_true, List.contains_eq_mem,
    decide_eq_false_iff_not] at h
  obtain ⟨⟨h1, h2⟩, h3⟩ := h
  refine ⟨h1, h2, ?_⟩
  intro hs
  rcases h3 with h3 | h3
  · rw [hs] at h3; cases h3
  · exact h3

theorem isSpace_hash : isSpace '#' = false := by rfl

/-- one filler line in structure context -/
theorem struct_skip_line (f : FillLine) (hf : f.wf = true) (rest : Str) (l : Nat) :
    nextWordAux structSettings false (f.text ++ rest) l
      = nextWordAux structSettings false rest (l + 1) := by
  simp only [FillLine.wf, Bool.and_eq_true] at hf
  obtain ⟨hind, hc⟩ := hf
  rw [FillLine.text, List.append_assoc, nextWordAux_skip structSettings _ _ (inlineB_space hind),
    inlineB_nl hind, Nat.add_zero]
  cases hcm : f.cmt with
  | none =>
    simp only [cmtText, List.nil_append, List.cons_append]
    rw [nextWordAux]
    simp [isSpace_nl, bump]
  | some c =>
    rw [hcm] at hc
    obtain ⟨hnl, hphil, _⟩ := cmtSafe_facts hc
    simp only [cmtText, List.cons_append, List.append_assoc, List.nil_append]
    rw [nextWordAux]
    have hcs : isCommentStart structSettings '#' (c ++ ('\n' :: rest)) = true := by
      simp only [isCommentStart, structSettings, Gen.structComment, Gen.structMeta]
      have := take4_phil c rest hnl hphil
      simpa using this
    simp only [isSpace_hash, Bool.false_eq_true, ↓reduceIte, hcs]
    have : c ++ ['\n'] ++ rest = c ++ '\n' :: rest := by simp
    exact nextWordAux_in_comment structSettings c rest hnl l

theorem struct_skip_lines (ls : List FillLine) (hls : ls.all FillLine.wf = true) (rest : Str) :
    ∀ l, nextWordAux structSettings false (linesStr ls ++ rest) l
      = nextWordAux structSettings false rest (l + ls.length) := by
  induction ls with
  | nil => intro l; rfl
  | cons f fs ih =>
    intro l
    simp only [List.all_cons, Bool.and_eq_true] at hls
    rw [linesStr, List.append_assoc, struct_skip_line f hls.1, ih hls.2, List.length_cons]
    congr 1; omega

theorem nlCount_cmtText (c : Option Str) (h : cmtWf c = true) : nlCount (cmtText c) = 0 := by
  cases c with
  | none => rfl
  | some c =>
    obtain ⟨hnl, _, _⟩ := cmtSafe_facts h
    rw [cmtText, nlCount_cons_ne _ _ (by decide)]
    exact nlCount_of_not_mem hnl

theorem nlCount_fillLine (f : FillLine) (hf : f.wf = true) : nlCount f.text = 1 := by
  simp only [FillLine.wf, Bool.and_eq_true] at hf
  rw [FillLine.text, nlCount_append, nlCount_append, inlineB_nl hf.1, nlCount_cmtText _ hf.2, nlCount_nl]

theorem nlCount_linesStr (ls : List FillLine) (hls : ls.all FillLine.wf = true) :
    nlCount (linesStr ls) = ls.length := by
  induction ls with
  | nil => rfl
  | cons f fs ih =>
    simp only [List.all_cons, Bool.and_eq_true] at hls
    rw [linesStr, nlCount_append, nlCount_fillLine f hls.1, ih hls.2, List.length_cons]; omega

theorem nlCount_pre (p : Pre) (hp : p.wf = true) : nlCount p.text = p.lines.length := by
  simp only [Pre.wf, Bool.and_eq_true] at hp
  rw [Pre.text, nlCount_append, nlCount_linesStr _ hp.1, inlineB_nl hp.2, Nat.add_zero]

/-! ### value context: what may follow a value -/

/-- the text is empty or starts with an identifier character (the next name) -/
def NameHead (X : Str) : Prop := ∀ c t, X = c :: t → isIdCont c = true

theorem firstNonSpace_skip (sp rest : Str) (hsp : ∀ d ∈ sp, isSpace d = true) :
    firstNonSpace (sp ++ rest) = firstNonSpace rest := by
  induction sp with
  | nil => rfl
  | cons c cs ih =>
    have hc : isSpace c = true := hsp c (by simp)
    rw [List.cons_append, firstNonSpace, if_pos hc]
    exact ih (fun d hd => hsp d (by simp [hd]))

theorem isQuote_hash : isQuoteChar '#' = false := by rfl

/-- the first non-blank character of filler lines followed by a name is `#` or the first character
    of the name: never a quote -/
theorem firstNonSpace_fill (ind X : Str) (hind : inlineB ind = true) (hX : NameHead X) :
    ∀ (ls : List FillLine), ls.all FillLine.wf = true →
      ∀ c, firstNonSpace (linesStr ls ++ (ind ++ X)) = some c → isQuoteChar c = false := by
  intro ls
  induction ls with
  | nil =>
    intro _ c hc
    rw [linesStr, List.nil_append, firstNonSpace_skip _ _ (inlineB_space hind)] at hc
    cases X with
    | nil => simp [firstNonSpace] at hc
    | cons x t =>
      have hx := hX x t rfl
      simp only [firstNonSpace, idCont_not_space hx, Bool.false_eq_true, ↓reduceIte,
        Option.some.injEq] at hc
      subst hc
      exact idCont_not_quote hx
  | cons f fs ih =>
    intro hls c hc
    simp only [List.all_cons, Bool.and_eq_true, FillLine.wf] at hls
    obtain ⟨⟨hfi, hfc⟩, hfs⟩ := hls
    rw [linesStr, FillLine.text, List.append_assoc, List.append_assoc,
      firstNonSpace_skip _ _ (inlineB_space hfi)] at hc
    cases hcm : f.cmt with
    | none =>
      rw [hcm] at hc
      simp only [cmtText, List.nil_append, List.cons_append, firstNonSpace, isSpace_nl,
        ↓reduceIte] at hc
      exact ih hfs c hc
    | some t =>
      rw [hcm] at hc
      simp only [cmtText, List.cons_append, firstNonSpace, isSpace_hash, Bool.false_eq_true,
        ↓reduceIte, Option.some.injEq] at hc
      subst hc
      rfl

/-- white space, then an unquoted word other than `;` and `#` on another line: the value has ended -/
theorem EndsValue_word (sp rest : Str) (w : Word) (ci' : CI) (L l0 : Nat)
    (hsp : ∀ d ∈ sp, isSpace d = true)
    (h : nextWordAux valueSettings false rest (L + nlCount sp) = .ok (some (w, ci')))
    (hq : w.quote = none) (h1 : w.value ≠ [';']) (h2 : w.value ≠ ['#']) (hl : w.line ≠ some l0) :
    EndsValue ⟨sp ++ rest, L⟩ l0 := by
  refine Or.inr ⟨w, ci', ?_, hq, h1, h2, hl⟩
  unfold nextWord
  simp only []
  rw [nextWordAux_skip valueSettings sp rest hsp, h]

/-- an unquoted word of at least two characters -/
theorem wordAt_unquoted_two (st : Settings) (c c1 : Char) (cs : Str) (line : Nat)
    (hq : isQuoteChar c = false) (hl : startsLong st c = true) (h1 : endsUnquoted st c1 = false) :
    ∃ v rest, wordAt st c (c1 :: cs) line
      = .ok ({ value := c :: c1 :: v, quote := none, line := some line }, ⟨rest, line⟩) := by
  have hq' : (c == '"' || c == '\'') = false := hq
  unfold wordAt
  simp only [hq', Bool.false_eq_true, ↓reduceIte, hl, scanU, h1]
  generalize hu : scanU st cs [c1, c] = p
  obtain ⟨v, r⟩ := p
  obtain ⟨k, _, _, hv⟩ := scanU_line st _ _ _ _ hu
  exact ⟨k, r, by rw [hv]; rfl⟩

theorem startsLong_hash : startsLong valueSettings '#' = true := by rfl
theorem commentChars_value (c : Char) (cs : Str) : isCommentStart valueSettings c cs = false := by
  simp [isCommentStart, valueSettings]

/-- the first character of a name ends the value of the line before -/
theorem EndsValue_name (sp X : Str) (L l0 : Nat) (hsp : ∀ d ∈ sp, isSpace d = true)
    (hX : NameHead X) (hl : l0 < L + nlCount sp) : EndsValue ⟨sp ++ X, L⟩ l0 := by
  cases X with
  | nil => rw [List.append_nil]; exact EndsValue_eof sp L l0 hsp
  | cons x t =>
    have hx := hX x t rfl
    obtain ⟨_, _, _, h4, h5, _⟩ := idCont_facts hx
    obtain ⟨v, rest', hw⟩ := wordAt_unquoted valueSettings x t (L + nlCount sp) (idCont_not_quote hx)
    refine EndsValue_word sp (x :: t) { value := x :: v, quote := none, line := some (L + nlCount sp) }
      ⟨rest', L + nlCount sp⟩ L l0 hsp ?_ rfl ?_ ?_ ?_
    · rw [nextWordAux_word valueSettings x t _ (idCont_not_space hx) (commentChars_value _ _), hw]; rfl
    · intro e; simp only [List.cons.injEq] at e; exact h4 e.1
    · intro e; simp only [List.cons.injEq] at e; exact h5 e.1
    · intro e; simp only [Option.some.injEq] at e; omega

/-- **The value collector in front of filler lines.**  After the last word of a value (which started on
    line `l0 ≤ L`) the text goes on with white space `sp` containing a newline, filler lines, blanks
    and then the next name or the end of the text.  The collector returns what it has, in a state
    from which the structure tokenizer reads the same next word as from the position of the name.
    (If the first comment line has a stand-alone `#`, it is the value collector that reads that line,
    in its comment mode; otherwise the collector backs up and the structure tokenizer skips it.) -/
theorem cAA_fill (ind X : Str) (hind : inlineB ind = true) (hX : NameHead X) (L : Nat) :
    ∀ (ls : List FillLine) (sp : Str), ls.all FillLine.wf = true →
      (∀ d ∈ sp, isSpace d = true) → 1 ≤ nlCount sp →
      ∀ (fuel : Nat) (last : Word) (acc : List Word) (l0 : Nat),
        (sp ++ (linesStr ls ++ (ind ++ X))).length + 1 ≤ fuel → last.line = some l0 → l0 ≤ L →
        isUnq last "\\" = false →
        ∃ ci4 : CI,
          collectAssignedAux fuel ⟨sp ++ (linesStr ls ++ (ind ++ X)), L⟩ last false acc
            = .ok (acc.reverse, ci4) ∧
          nextWord structSettings ci4
            = nextWordAux structSettings false (ind ++ X) (L + nlCount sp + ls.length) := by
  intro ls
  induction ls with
  | nil =>
    intro sp _ hsp hnl fuel last acc l0 hf hl hle hbs
    obtain ⟨f, rfl⟩ : ∃ f, fuel = f + 1 := ⟨fuel - 1, by omega⟩
    refine ⟨⟨sp ++ (linesStr [] ++ (ind ++ X)), L⟩, ?_, ?_⟩
    · apply cAA_stop f _ last acc l0 _ hl hbs
      have e : sp ++ (linesStr [] ++ (ind ++ X)) = (sp ++ ind) ++ X := by simp [linesStr]
      rw [e]
      have hsp' : ∀ d ∈ sp ++ ind, isSpace d = true := by
        intro d hd
        rcases List.mem_append.mp hd with h | h
        · exact hsp d h
        · exact inlineB_space hind d h
      apply EndsValue_name _ _ _ _ hsp' hX
      rw [nlCount_append]; omega
    · unfold nextWord
      simp only [linesStr, List.nil_append, List.length_nil, Nat.add_zero]
      rw [nextWordAux_skip structSettings sp _ hsp]
  | cons f fs ih =>
    intro sp hls hsp hnl fuel last acc l0 hf hl hle hbs
    simp only [List.all_cons, Bool.and_eq_true, FillLine.wf] at hls
    obtain ⟨⟨hfi, hfc⟩, hfs⟩ := hls
    cases hcm : f.cmt with
    | none =>
      -- a blank line: more white space
      have e : sp ++ (linesStr (f :: fs) ++ (ind ++ X))
          = (sp ++ (f.ind ++ ['\n'])) ++ (linesStr fs ++ (ind ++ X)) := by
        simp [linesStr, FillLine.text, hcm, cmtText]
      have hsp' : ∀ d ∈ sp ++ (f.ind ++ ['\n']), isSpace d = true := by
        intro d hd
        rcases List.mem_append.mp hd with h | h
        · exact hsp d h
        · rcases List.mem_append.mp h with h | h
          · exact inlineB_space hfi d h
          · simp at h; subst h; rfl
      have hn' : nlCount (sp ++ (f.ind ++ ['\n'])) = nlCount sp + 1 := by
        rw [nlCount_append, nlCount_append, inlineB_nl hfi, nlCount_nl]
      rw [e] at hf ⊢
      obtain ⟨ci4, h1, h2⟩ := ih _ hfs hsp' (by omega) fuel last acc l0 hf hl hle hbs
      refine ⟨ci4, h1, ?_⟩
      rw [h2, hn', List.length_cons]
      congr 1 <;> omega
    | some c =>
      rw [hcm] at hfc
      obtain ⟨hcnl, hphil, hok⟩ := cmtSafe_facts hfc
      have e : sp ++ (linesStr (f :: fs) ++ (ind ++ X))
          = (sp ++ f.ind) ++ '#' :: (c ++ '\n' :: (linesStr fs ++ (ind ++ X))) := by
        simp [linesStr, FillLine.text, hcm, cmtText]
      have hsp' : ∀ d ∈ sp ++ f.ind, isSpace d = true := by
        intro d hd
        rcases List.mem_append.mp hd with h | h
        · exact hsp d h
        · exact inlineB_space hfi d h
      have hn' : nlCount (sp ++ f.ind) = nlCount sp := by
        rw [nlCount_append, inlineB_nl hfi]; omega
      obtain ⟨f', rfl⟩ : ∃ f', fuel = f' + 1 := ⟨fuel - 1, by omega⟩
      by_cases hs : stopsAt valueSettings c = true
      · -- a stand-alone `#`: the collector itself reads the comment
        have hstop' : stopsAt valueSettings (c ++ '\n' :: (linesStr fs ++ (ind ++ X))) = true := by
          cases c with
          | nil => rfl
          | cons d r => exact hs
        have hhash : nextWord valueSettings ⟨(sp ++ f.ind) ++ '#' :: (c ++ '\n' :: (linesStr fs ++ (ind ++ X))), L⟩
            = .ok (some ({ value := ['#'], quote := none, line := some (L + nlCount sp) },
                ⟨c ++ '\n' :: (linesStr fs ++ (ind ++ X)), L + nlCount sp⟩)) := by
          unfold nextWord
          simp only []
          rw [nextWordAux_skip valueSettings _ _ hsp', hn']
          exact nextWordAux_plain valueSettings '#' [] _ _ (by rfl) (by rfl) (by rfl) (by rfl)
            (by intro d hd; simp at hd) hstop'
        have hflen : c.length + 1 ≤ f' := by
          rw [e] at hf
          simp only [List.length_append, List.length_cons] at hf; omega
        obtain ⟨tb, htb, hbody⟩ := cAA_comment_body (linesStr fs ++ (ind ++ X)) (L + nlCount sp)
          (firstNonSpace_fill ind X hind hX fs hfs) c.length c (Nat.le_refl _)
          { value := ['#'], quote := none, line := some (L + nlCount sp) } f' acc hflen rfl
          (by rw [isUnq_backslash]; exact hok hs)
        refine ⟨⟨tb ++ '\n' :: (linesStr fs ++ (ind ++ X)), L + nlCount sp⟩, ?_, ?_⟩
        · rw [e, cAA_hash f' _ _ last _ acc hhash rfl rfl, hbody]
        · rw [nextWord_inline_space structSettings tb _ _ htb, nextWord_newline,
            struct_skip_lines fs hfs, List.length_cons]
          congr 1; omega
      · -- `#text`: a word on another line; the collector backs up
        have hs' : stopsAt valueSettings c = false := by simpa using hs
        obtain ⟨c1, r, rfl⟩ : ∃ c1 r, c = c1 :: r := by
          cases c with
          | nil => simp [stopsAt] at hs'
          | cons c1 r => exact ⟨c1, r, rfl⟩
        have hc1 : endsUnquoted valueSettings c1 = false := hs'
        obtain ⟨v, rest', hw⟩ := wordAt_unquoted_two valueSettings '#' c1
          (r ++ '\n' :: (linesStr fs ++ (ind ++ X))) (L + nlCount (sp ++ f.ind)) isQuote_hash
          startsLong_hash hc1
        refine ⟨⟨sp ++ (linesStr (f :: fs) ++ (ind ++ X)), L⟩, ?_, ?_⟩
        · apply cAA_stop f' _ last acc l0 _ hl hbs
          rw [e]
          refine EndsValue_word (sp ++ f.ind) _
            { value := '#' :: c1 :: v, quote := none, line := some (L + nlCount (sp ++ f.ind)) }
            ⟨rest', L + nlCount (sp ++ f.ind)⟩ L l0 hsp' ?_ rfl ?_ ?_ ?_
          · rw [nextWordAux_word valueSettings '#' _ _ isSpace_hash (commentChars_value _ _)]
            rw [List.cons_append, hw]; rfl
          · intro e'; simp at e'
          · intro e'; simp at e'
          · intro e'; simp only [Option.some.injEq] at e'; omega
        · unfold nextWord
          simp only []
          rw [nextWordAux_skip structSettings sp _ hsp,
            struct_skip_lines (f :: fs) (by
              have : cmtWf f.cmt = true := by rw [hcm]; exact hfc
              simp [FillLine.wf, hfi, hfs, this])]

/-! ### the text after a word -/

/-- text in front of which an unquoted word ends and which does not start with a quote -/
def GoodTail (F : Str) : Prop :=
  F = [] ∨ ∃ c r, F = c :: r ∧ endsUnquoted valueSettings c = true ∧ isQuoteChar c = false

theorem space_not_quote {c : Char} (h : isSpace c = true) : isQuoteChar c = false := by
  cases hq : isQuoteChar c
  · rfl
  · simp only [isQuoteChar, Bool.or_eq_true, beq_iff_eq] at hq
    obtain ⟨_, _, h3, _⟩ := quoteChar_facts c hq
    rw [h3] at h; cases h

theorem GoodTail.space_append {sp F : Str} (hsp : ∀ d ∈ sp, isSpace d = true) (hF : GoodTail F) :
    GoodTail (sp ++ F) := by
  cases sp with
  | nil => exact hF
  | cons d ds =>
    have hd := hsp d (by simp)
    exact Or.inr ⟨d, ds ++ F, rfl, ends_of_isSpace _ hd, space_not_quote hd⟩

theorem GoodTail.stops {F : Str} (h : GoodTail F) : stopsAt valueSettings F = true := by
  rcases h with rfl | ⟨c, r, rfl, h1, _⟩
  · rfl
  · exact h1

theorem GoodTail.not_quote {F : Str} (h : GoodTail F) (q : Quote) : ∀ r, F ≠ q.char :: r := by
  intro r e
  rcases h with rfl | ⟨c, r', rfl, _, h2⟩
  · cases e
  · simp only [List.cons.injEq] at e
    rw [e.1] at h2
    cases q <;> simp [isQuoteChar, Quote.char] at h2

theorem GoodTail.cons_space (c : Char) (r : Str) (h : isSpace c = true) : GoodTail (c :: r) :=
  Or.inr ⟨c, r, rfl, ends_of_isSpace _ h, space_not_quote h⟩

/-- the collector takes one word (after white space `sp`) that is followed by a good tail -/
theorem cAA_good_word' (sp : Str) (hsp : ∀ d ∈ sp, isSpace d = true) (w : Word)
    (hg : goodWord w = true) (tail : Str) (htail : GoodTail tail)
    (fuel l : Nat) (last : Word) (acc : List Word)
    (hcond : w.quote = none → isUnq last "\\" = true ∨ last.line = some (l + nlCount sp)) :
    collectAssignedAux (fuel + 1) ⟨sp ++ w.str ++ tail, l⟩ last false acc
      = collectAssignedAux fuel ⟨tail, l + nlCount sp + nlCount w.value⟩
          { w with line := some (l + nlCount sp) } false ({ w with line := some (l + nlCount sp) } :: acc)
    ∧ isUnq { w with line := some (l + nlCount sp) } "\\" = false := by
  cases hq : w.quote with
  | some q =>
    have hstr : w.str = quoteStr q w.value := by simp [Word.str, hq]
    have hw : nextWord valueSettings ⟨sp ++ w.str ++ tail, l⟩
        = .ok (some ({ value := w.value, quote := some q, line := some (l + nlCount sp) },
                     ⟨tail, l + nlCount sp + nlCount w.value⟩)) := by
      unfold nextWord
      simp only []
      rw [List.append_assoc, nextWordAux_skip valueSettings sp _ hsp, hstr,
        Phil.C03.next_word_of_quoted valueSettings q w.value _ _ rfl (htail.not_quote q)]
    exact ⟨cAA_quoted fuel _ _ last _ acc q hw rfl, by simp [isUnq]⟩
  | none =>
    have hpw : plainWord w.value = true := by simpa [goodWord, hq] using hg
    have hstr : w.str = w.value := by simp [Word.str, hq]
    have hnl := plainWord_nlCount hpw
    have hw := nextWord_value_plain sp w.value tail l hsp hpw htail.stops
    obtain ⟨c, t', e', hall, hqc, hb, hh⟩ := plainWord_cases hpw
    have hsv : isSpecialValue w.value = false := by rw [e']; exact not_special_of_plain hall hh
    have hbv : w.value ≠ ['\\'] := by rw [e']; exact hb
    rw [hstr, hnl, Nat.add_zero]
    refine ⟨cAA_take' fuel _ _ last _ acc hw rfl hsv hbv ?_, by rw [isUnq_backslash]; simpa using hbv⟩
    rcases hcond hq with h | h
    · exact Or.inl h
    · exact Or.inr h.symm

theorem gapsOK_nil_right {first : Bool} {gaps : List Str} (h : gapsOK first gaps [] = true) : gaps = [] := by
  cases gaps with
  | nil => rfl
  | cons g gs => simp [gapsOK] at h

theorem gapsOK_cons_right {first : Bool} {gaps : List Str} {w : Word} {ws : List Word}
    (h : gapsOK first gaps (w :: ws) = true) :
    ∃ g gs, gaps = g :: gs ∧ inlineB g = true ∧ (first = true ∨ g ≠ []) ∧ gapsOK false gs ws = true := by
  cases gaps with
  | nil => simp [gapsOK] at h
  | cons g gs =>
    simp only [gapsOK, Bool.and_eq_true, Bool.or_eq_true, Bool.not_eq_true', List.isEmpty_eq_false_iff] at h
    exact ⟨g, gs, rfl, h.1.1, h.1.2, h.2⟩

theorem wordsLay_tail (F : Str) (hF : GoodTail F) (gs : List Str) (ws : List Word)
    (h : gapsOK false gs ws = true) : GoodTail (wordsLay gs ws ++ F) := by
  cases ws with
  | nil => rw [gapsOK_nil_right h]; exact hF
  | cons w ws =>
    obtain ⟨g, gs', rfl, hg, hne, _⟩ := gapsOK_cons_right h
    have hne' : g ≠ [] := by rcases hne with h | h; cases h; exact h
    cases g with
    | nil => exact absurd rfl hne'
    | cons d ds => exact GoodTail.cons_space d _ (inlineB_space hg d (by simp))

/-- **The value collector on the words of a definition**, whatever blanks separate them: every word
    is taken with its value, quote style and the line on which it starts; then the collector is in
    front of the text `F` that follows the last word (`hF` says what it does there). -/
theorem cAA_layWords (F : Str) (P : CI → Prop) (hgt : GoodTail F) :
    ∀ (ws : List Word) (gaps : List Str) (first : Bool) (fuel l l0 : Nat) (same : Bool) (last : Word)
      (acc : List Word),
      gapsOK first gaps ws = true → (∀ w ∈ ws, goodWord w = true) → chainOK same ws = true →
      ws.length + F.length + 1 ≤ fuel →
      last.line = some l0 → l0 ≤ l → (same = true → l0 = l) → isUnq last "\\" = false →
      (∀ (fuel' : Nat) (last' : Word) (acc' : List Word) (l0' : Nat), F.length + 1 ≤ fuel' →
          last'.line = some l0' → l0' ≤ endLine l ws → isUnq last' "\\" = false →
          ∃ ci4, collectAssignedAux fuel' ⟨F, endLine l ws⟩ last' false acc' = .ok (acc'.reverse, ci4) ∧ P ci4) →
      ∃ ci4, collectAssignedAux fuel ⟨wordsLay gaps ws ++ F, l⟩ last false acc
          = .ok (acc.reverse ++ reline l ws, ci4) ∧ P ci4 := by
  intro ws
  induction ws with
  | nil =>
    intro gaps first fuel l l0 same last acc hgaps _ _ hf hl hle _ hbs hF
    rw [gapsOK_nil_right hgaps]
    simp only [wordsLay, List.nil_append, reline, List.append_nil]
    exact hF fuel last acc l0 (by simp at hf; omega) hl (by simpa [endLine] using hle) hbs
  | cons w ws ih =>
    intro gaps first fuel l l0 same last acc hgaps hgood hchain hf hl hle hsame hbs hF
    obtain ⟨g, gs, rfl, hg, _, hgs⟩ := gapsOK_cons_right hgaps
    obtain ⟨f, rfl⟩ : ∃ f, fuel = f + 1 := ⟨fuel - 1, by simp at hf; omega⟩
    have hf' : ws.length + F.length + 1 ≤ f := by simp at hf; omega
    have hgw := hgood w (by simp)
    have hgood' : ∀ v ∈ ws, goodWord v = true := fun v hv => hgood v (by simp [hv])
    rw [chainOK, Bool.and_eq_true] at hchain
    obtain ⟨hc1, hc2⟩ := hchain
    have htext : wordsLay (g :: gs) (w :: ws) ++ F = g ++ w.str ++ (wordsLay gs ws ++ F) := by
      simp [wordsLay]
    obtain ⟨hstep, hbs'⟩ := cAA_good_word' g (inlineB_space hg) w hgw (wordsLay gs ws ++ F)
      (wordsLay_tail F hgt gs ws hgs) f l last acc
      (by
        intro hq
        right
        have hsm : same = true := by simpa [hq] using hc1
        rw [hl, hsame hsm, inlineB_nl hg]; rfl)
    simp only [inlineB_nl hg, Nat.add_zero] at hstep hbs'
    obtain ⟨ci4, h1, h2⟩ := ih gs false f (l + nlCount w.value) l (nlCount w.value == 0) _
      ({ w with line := some l } :: acc) hgs hgood' hc2 hf' rfl (by omega)
      (by intro h; simp at h; omega) hbs' (by simpa [endLine] using hF)
    refine ⟨ci4, ?_, h2⟩
    rw [htext, hstep, h1]
    simp [reline]

/-! ### the four ways of ending a definition -/

theorem commentOk_no_nl : ∀ (s : Str) (bs st : Bool), commentOk bs st s = true → '\n' ∉ s := by
  intro s
  induction s with
  | nil => intro _ _ _ h; simp at h
  | cons c cs ih =>
    intro bs st h hm
    rw [commentOk] at h
    split at h
    · cases h
    · rename_i hne
      have hc : c ≠ '\n' := by simpa using hne
      have hm' : '\n' ∈ cs := by
        rcases List.mem_cons.mp hm with e | e
        · exact absurd e.symm hc
        · exact e
      split at h
      · exact ih _ _ h hm'
      · split at h
        · exact ih _ _ h hm'
        · split at h
          · simp only [Bool.and_eq_true] at h; exact ih _ _ h.2 hm'
          · exact ih _ _ h hm'

theorem GoodTail_semicolon (r : Str) : GoodTail (';' :: r) := Or.inr ⟨';', r, rfl, by rfl, by rfl⟩

/-- the text from the terminator on is a good tail for the last word -/
theorem term_tail (t : Terminator) (ht : t.wf = true) (ind : Str) (hind : inlineB ind = true)
    (R : Str) (heof : t.isEof = true → R = ind) : GoodTail (t.text ++ R) := by
  cases t with
  | nl tb =>
    simp only [Terminator.text, List.append_assoc]
    exact GoodTail.space_append (inlineB_space ht) (GoodTail.cons_space '\n' _ isSpace_nl)
  | semi sb =>
    simp only [Terminator.text, List.append_assoc]
    exact GoodTail.space_append (inlineB_space ht) (GoodTail_semicolon _)
  | comment sb cmt =>
    simp only [Terminator.wf, Bool.and_eq_true, Bool.not_eq_true', List.isEmpty_eq_false_iff] at ht
    obtain ⟨⟨⟨h1, h2⟩, _⟩, _⟩ := ht
    cases sb with
    | nil => exact absurd rfl h2
    | cons d ds => exact GoodTail.cons_space d _ (inlineB_space h1 d (by simp))
  | eof =>
    rw [heof rfl]
    simp only [Terminator.text, List.nil_append]
    have := GoodTail.space_append (F := []) (inlineB_space hind) (Or.inl rfl)
    simpa using this

/-- **The value collector at the end of a definition.**  `t` is the terminator, then come filler
    lines, blanks and the next name `X` (or the end of the text).  The collector returns the words
    it has, in a state from which the structure tokenizer reads the same next word as from the
    position of the name, whose line is `L + newlines of the terminator + number of filler lines`. -/
theorem cAA_term (t : Terminator) (ht : t.wf = true) (ls : List FillLine)
    (hls : ls.all FillLine.wf = true) (ind X : Str) (hind : inlineB ind = true) (hX : NameHead X)
    (heof : t.isEof = true → ls = [] ∧ X = []) (L : Nat)
    (fuel : Nat) (last : Word) (acc : List Word) (l0 : Nat)
    (hf : (t.text ++ (linesStr ls ++ (ind ++ X))).length + 1 ≤ fuel) (hl : last.line = some l0)
    (hle : l0 ≤ L) (hbs : isUnq last "\\" = false) :
    ∃ ci4, collectAssignedAux fuel ⟨t.text ++ (linesStr ls ++ (ind ++ X)), L⟩ last false acc
        = .ok (acc.reverse, ci4) ∧
      nextWord structSettings ci4
        = nextWordAux structSettings false (ind ++ X) (L + nlCount t.text + ls.length) := by
  cases t with
  | nl tb =>
    have hsp : ∀ d ∈ tb ++ ['\n'], isSpace d = true := by
      intro d hd
      rcases List.mem_append.mp hd with h | h
      · exact inlineB_space ht d h
      · simp at h; subst h; rfl
    have hn : nlCount (tb ++ ['\n']) = 1 := by rw [nlCount_append, inlineB_nl ht, nlCount_nl]
    exact cAA_fill ind X hind hX L ls (tb ++ ['\n']) hls hsp (by omega) fuel last acc l0 hf hl hle hbs
  | semi sb =>
    obtain ⟨f, rfl⟩ : ∃ f, fuel = f + 1 := ⟨fuel - 1, by omega⟩
    have hsc := nextWord_value_semicolon sb (linesStr ls ++ (ind ++ X)) L (inlineB_space ht)
    refine ⟨⟨linesStr ls ++ (ind ++ X), L + nlCount sb⟩, ?_, ?_⟩
    · simp only [Terminator.text, List.append_assoc, List.cons_append, List.nil_append]
      exact cAA_semicolon f _ _ last _ acc hsc rfl rfl
    · unfold nextWord
      simp only [Terminator.text]
      rw [struct_skip_lines ls hls, nlCount_append, inlineB_nl ht]
      rfl
  | comment sb cmt =>
    simp only [Terminator.wf, Bool.and_eq_true, Bool.not_eq_true', List.isEmpty_eq_false_iff] at ht
    obtain ⟨⟨⟨h1, h2⟩, h3⟩, h4⟩ := ht
    obtain ⟨f, rfl⟩ : ∃ f, fuel = f + 1 := ⟨fuel - 1, by omega⟩
    have hstop' : stopsAt valueSettings (cmt ++ '\n' :: (linesStr ls ++ (ind ++ X))) = true := by
      cases cmt with
      | nil => rfl
      | cons d r => exact h3
    have e : (Terminator.comment sb cmt).text ++ (linesStr ls ++ (ind ++ X))
        = sb ++ '#' :: (cmt ++ '\n' :: (linesStr ls ++ (ind ++ X))) := by
      simp [Terminator.text]
    have hhash : nextWord valueSettings ⟨sb ++ '#' :: (cmt ++ '\n' :: (linesStr ls ++ (ind ++ X))), L⟩
        = .ok (some ({ value := ['#'], quote := none, line := some L },
            ⟨cmt ++ '\n' :: (linesStr ls ++ (ind ++ X)), L⟩)) := by
      unfold nextWord
      simp only []
      rw [nextWordAux_skip valueSettings _ _ (inlineB_space h1), inlineB_nl h1]
      exact nextWordAux_plain valueSettings '#' [] _ _ (by rfl) (by rfl) (by rfl) (by rfl)
        (by intro d hd; simp at hd) hstop'
    have hflen : cmt.length + 1 ≤ f := by
      rw [e] at hf
      simp only [List.length_append, List.length_cons] at hf; omega
    obtain ⟨tb, htb, hbody⟩ := cAA_comment_body (linesStr ls ++ (ind ++ X)) L
      (firstNonSpace_fill ind X hind hX ls hls) cmt.length cmt (Nat.le_refl _)
      { value := ['#'], quote := none, line := some L } f acc hflen rfl
      (by rw [isUnq_backslash]; exact h4)
    refine ⟨⟨tb ++ '\n' :: (linesStr ls ++ (ind ++ X)), L⟩, ?_, ?_⟩
    · rw [e, cAA_hash f _ _ last _ acc hhash rfl rfl, hbody]
    · have hn : nlCount (Terminator.comment sb cmt).text = 1 := by
        have hc : nlCount cmt = 0 := nlCount_of_not_mem (commentOk_no_nl cmt _ _ h4)
        simp only [Terminator.text]
        rw [nlCount_append, inlineB_nl h1, nlCount_cons_ne _ _ (by decide), nlCount_append, hc, nlCount_nl]
      rw [nextWord_inline_space structSettings tb _ _ htb, nextWord_newline,
        struct_skip_lines ls hls, hn]
  | eof =>
    obtain ⟨rfl, rfl⟩ := heof rfl
    obtain ⟨f, rfl⟩ : ∃ f, fuel = f + 1 := ⟨fuel - 1, by omega⟩
    refine ⟨⟨ind, L⟩, ?_, ?_⟩
    · simp only [Terminator.text, linesStr, List.nil_append, List.append_nil]
      exact cAA_end f _ last false acc (nextWordAux_blank_eof valueSettings ind L (inlineB_space hind))
    · simp only [Terminator.text, nlCount_nil, List.length_nil, Nat.add_zero, List.append_nil]
      rfl

/-! ### one value under a layout -/

theorem wordsLay_length_ge (ws : List Word) (hg : ∀ w ∈ ws, goodWord w = true) :
    ∀ (gaps : List Str) (first : Bool), gapsOK first gaps ws = true →
      ws.length ≤ (wordsLay gaps ws).length := by
  induction ws with
  | nil => intro gaps first _; simp
  | cons w ws ih =>
    intro gaps first h
    obtain ⟨g, gs, rfl, _, _, hgs⟩ := gapsOK_cons_right h
    have hw := str_length_pos (hg w (by simp))
    have := ih (fun v hv => hg v (by simp [hv])) gs false hgs
    simp only [wordsLay, List.length_append, List.length_cons]; omega

/-- **`collect_assigned_words` on the value of a definition under any layout**: the words come back
    with value, quote style and the line on which each starts; afterwards the structure tokenizer
    is (as good as) at the next name. -/
theorem collectAssigned_layout (ws : List Word) (gaps : List Str) (t : Terminator)
    (ls : List FillLine) (ind X : Str) (l : Nat) (lead : Word)
    (hne : ws ≠ []) (hgood : ∀ w ∈ ws, goodWord w = true) (hchain : chainOK true ws = true)
    (hgaps : gapsOK true gaps ws = true) (ht : t.wf = true) (hls : ls.all FillLine.wf = true)
    (hind : inlineB ind = true) (hX : NameHead X) (heof : t.isEof = true → ls = [] ∧ X = [])
    (hlead : lead.line = some l) (hbs : isUnq lead "\\" = false) :
    ∃ ci4, collectAssigned ⟨wordsLay gaps ws ++ (t.text ++ (linesStr ls ++ (ind ++ X))), l⟩ lead
        = .ok (reline l ws, ci4) ∧
      nextWord structSettings ci4
        = nextWordAux structSettings false (ind ++ X) (endLine l ws + nlCount t.text + ls.length) := by
  have hgt : GoodTail (t.text ++ (linesStr ls ++ (ind ++ X))) :=
    term_tail t ht ind hind _ (by
      intro h
      obtain ⟨rfl, rfl⟩ := heof h
      simp [linesStr])
  have hlen : ws.length + (t.text ++ (linesStr ls ++ (ind ++ X))).length + 1
      ≤ (wordsLay gaps ws ++ (t.text ++ (linesStr ls ++ (ind ++ X)))).length + 1 := by
    have := wordsLay_length_ge ws hgood gaps true hgaps
    rw [List.length_append (as := wordsLay gaps ws)]; omega
  obtain ⟨ci4, h1, h2⟩ := cAA_layWords (t.text ++ (linesStr ls ++ (ind ++ X)))
    (fun ci4 => nextWord structSettings ci4
        = nextWordAux structSettings false (ind ++ X) (endLine l ws + nlCount t.text + ls.length))
    hgt ws gaps true _ l l true lead [] hgaps hgood hchain hlen hlead (Nat.le_refl _) (fun _ => rfl) hbs
    (fun fuel' last' acc' l0' hf' hl' hle' hbs' =>
      cAA_term t ht ls hls ind X hind hX heof (endLine l ws) fuel' last' acc' l0' hf' hl' hle' hbs')
  refine ⟨ci4, ?_, h2⟩
  unfold collectAssigned
  simp only []
  rw [h1]
  have : (reline l ws).isEmpty = false := by
    cases ws with
    | nil => exact absurd rfl hne
    | cons w ws => simp [reline]
  simp [this]

/-! ### the loop of `collect_objects` over a laid-out flat document -/

/-- the filler in front of the first name (or, without definitions, the whole rest) -/
def firstPre : List (DefSpec × DefLayout) → Pre → Pre
  | [], post => post
  | (_, L) :: _, _ => L.pre

/-- the text from the first name on -/
def afterPre : List (DefSpec × DefLayout) → Pre → Str
  | [], _ => []
  | (d, L) :: rest, post => defText d L ++ render rest post

theorem render_split (ds : List (DefSpec × DefLayout)) (post : Pre) :
    render ds post
      = linesStr (firstPre ds post).lines ++ ((firstPre ds post).ind ++ afterPre ds post) := by
  cases ds with
  | nil => simp [render, firstPre, afterPre, Pre.text]
  | cons x rest =>
    obtain ⟨d, L⟩ := x
    simp [render, firstPre, afterPre, Pre.text]

theorem wfDoc_cons {d : DefSpec} {L : DefLayout} {rest : List (DefSpec × DefLayout)} {post : Pre}
    (h : wfDoc ((d, L) :: rest) post = true) :
    goodDef d = true ∧ wfDef d L = true ∧
      (L.term.isEof = true → rest = [] ∧ post.lines = []) ∧ wfDoc rest post = true := by
  simp only [wfDoc, Bool.and_eq_true, Bool.or_eq_true, Bool.not_eq_true', List.isEmpty_iff] at h
  obtain ⟨⟨⟨h1, h2⟩, h3⟩, h4⟩ := h
  refine ⟨h1, h2, ?_, h4⟩
  intro he
  rcases h3 with h3 | h3
  · rw [he] at h3; cases h3
  · exact h3

theorem wfDoc_firstPre {ds : List (DefSpec × DefLayout)} {post : Pre} (h : wfDoc ds post = true) :
    (firstPre ds post).wf = true := by
  cases ds with
  | nil => exact h
  | cons x rest =>
    obtain ⟨d, L⟩ := x
    obtain ⟨_, h2, _, _⟩ := wfDoc_cons h
    simp only [wfDef, Bool.and_eq_true] at h2
    exact h2.1.1.1

theorem wfDoc_nameHead {ds : List (DefSpec × DefLayout)} {post : Pre} (h : wfDoc ds post = true) :
    NameHead (afterPre ds post) := by
  cases ds with
  | nil => intro c t e; cases e
  | cons x rest =>
    obtain ⟨d, L⟩ := x
    obtain ⟨h1, _, _, _⟩ := wfDoc_cons h
    obtain ⟨c0, w, e, hs, _, _, _⟩ := goodName_cases (goodDef_good h1).1
    intro c t ec
    simp only [afterPre, defText, e, List.cons_append, List.cons.injEq] at ec
    rw [← ec.1]
    exact idStart_cont hs

/-- what the parser builds: ids in order from `i`; `l` is the line on which the filler in front of
    the first name starts -/
def parsedLay : Nat → Nat → List (DefSpec × DefLayout) → List Obj
  | _, _, [] => []
  | l, i, (d, L) :: rest =>
    .defn { name := d.1, id := some i, line := some (l + L.pre.lines.length) }
        (reline (l + L.pre.lines.length) d.2)
      :: parsedLay (endLine (l + L.pre.lines.length) d.2 + nlCount L.term.text) (i + 1) rest

theorem collectObjects_layout (post : Pre) :
    ∀ (ds : List (DefSpec × DefLayout)) (fuel : Nat) (st : PState) (l prevLine : Nat) (acc : List Obj)
      (pending : Option Obj),
      wfDoc ds post = true → ds.length + 1 ≤ fuel →
      nextWord structSettings st.ci
        = nextWordAux structSettings false ((firstPre ds post).ind ++ afterPre ds post)
            (l + (firstPre ds post).lines.length) →
      ∃ st', collectObjects fuel st none prevLine acc pending
        = .ok (flush acc pending ++ parsedLay l st.nextId ds, st') := by
  intro ds
  induction ds with
  | nil =>
    intro fuel st l prevLine acc pending hwf hf hci
    obtain ⟨f, rfl⟩ : ∃ f, fuel = f + 1 := ⟨fuel - 1, by simp at hf; omega⟩
    refine ⟨st, ?_⟩
    simp only [wfDoc, Pre.wf, Bool.and_eq_true] at hwf
    rw [collectObjects_end f st prevLine acc pending (by
      rw [hci]
      simp only [firstPre, afterPre, List.append_nil]
      exact nextWordAux_blank_eof structSettings _ _ (inlineB_space hwf.2))]
    simp [parsedLay]
  | cons x rest ih =>
    obtain ⟨d, L⟩ := x
    intro fuel st l prevLine acc pending hwf hf hci
    obtain ⟨f, rfl⟩ : ∃ f, fuel = f + 1 := ⟨fuel - 1, by simp at hf; omega⟩
    have hf' : rest.length + 1 ≤ f := by simp at hf; omega
    obtain ⟨hgd, hwd, heof, hwr⟩ := wfDoc_cons hwf
    obtain ⟨hname, hne, hgood, hchain⟩ := goodDef_good hgd
    simp only [wfDef, Bool.and_eq_true, Pre.wf] at hwd
    obtain ⟨⟨⟨⟨_, hpi⟩, hsp1⟩, hgaps⟩, hterm⟩ := hwd
    obtain ⟨c, w, e, hs, hall, hpd, hdot⟩ := goodName_cases hname
    have hcont := idStart_cont hs
    obtain ⟨_, _, _, _, h5, _, _, h8, _⟩ := idCont_facts hcont
    have hpre' := wfDoc_firstPre hwr
    simp only [Pre.wf, Bool.and_eq_true] at hpre'
    -- the name
    have hc := idCont_not_ends (hall c (by simp))
    have hcm : structSettings.commentChars.contains c = false := by
      simp [structSettings, Gen.structComment, h5]
    have h1 : nextWord structSettings st.ci
        = .ok (some ({ value := c :: w, quote := none, line := some (l + L.pre.lines.length) },
            ⟨L.sp1 ++ '=' :: (wordsLay L.gaps d.2 ++ (L.term.text ++ render rest post)),
              l + L.pre.lines.length⟩)) := by
      rw [hci]
      simp only [firstPre, afterPre, defText, e]
      rw [nextWordAux_skip structSettings _ _ (inlineB_space hpi), inlineB_nl hpi, Nat.add_zero]
      have := nextWordAux_plain structSettings c w
        (L.sp1 ++ '=' :: (wordsLay L.gaps d.2 ++ (L.term.text ++ render rest post)))
        (l + L.pre.lines.length) hc (idCont_not_quote hcont) hcm (startsLong_of_not_ends rfl hc)
        (fun x hx => idCont_not_ends (hall x (by simp [hx])))
        (stopsAt_space_append _ _ _ (inlineB_space hsp1) (by rfl))
      simpa using this
    have h2 := nextWord_struct_eq L.sp1 (wordsLay L.gaps d.2 ++ (L.term.text ++ render rest post))
      (l + L.pre.lines.length) (inlineB_space hsp1)
    rw [inlineB_nl hsp1, Nat.add_zero] at h2
    -- the value
    obtain ⟨ci4, h3, h4⟩ := collectAssigned_layout d.2 L.gaps L.term (firstPre rest post).lines
      (firstPre rest post).ind (afterPre rest post) (l + L.pre.lines.length)
      { value := c :: w, quote := none, line := some (l + L.pre.lines.length) }
      hne hgood hchain hgaps hterm hpre'.1 hpre'.2 (wfDoc_nameHead hwr)
      (by
        intro he
        obtain ⟨rfl, hpl⟩ := heof he
        simp [firstPre, afterPre, hpl])
      rfl (by rw [isUnq_backslash]; simp [h8])
    rw [← render_split rest post] at h3
    rw [collectObjects_defn_step f st none prevLine acc pending _ _ _ _ ci4 _ h1 rfl
      (by rw [← e]; exact hpd) h2 rfl rfl h3]
    obtain ⟨st', hih⟩ := ih f { ci := ci4, nextId := st.nextId + 1 }
      (endLine (l + L.pre.lines.length) d.2 + nlCount L.term.text)
      ((some (l + L.pre.lines.length)).getD 0) (flush acc pending)
      (some (.defn { name := c :: w, id := some st.nextId, disabled := false,
                     line := some (l + L.pre.lines.length) } (reline (l + L.pre.lines.length) d.2)))
      hwr hf' h4
    refine ⟨st', ?_⟩
    rw [hih, flush_some_undotted _ _ (by rw [← e]; exact hdot)]
    simp [parsedLay, e]

theorem render_length_ge (post : Pre) (ds : List (DefSpec × DefLayout)) :
    ds.length ≤ (render ds post).length := by
  induction ds with
  | nil => simp
  | cons x rest ih =>
    obtain ⟨d, L⟩ := x
    simp only [render, defText, List.length_cons, List.length_append]; omega

/-- `parse` of a laid-out flat document -/
theorem parseObjs_render (ds : List (DefSpec × DefLayout)) (post : Pre) (h : wfDoc ds post = true) :
    parseObjs (render ds post) = .ok (parsedLay 1 1 ds) := by
  have hlen : ds.length + 1 ≤ (render ds post).length + 2 := by
    have := render_length_ge post ds; omega
  have hpre := wfDoc_firstPre h
  simp only [Pre.wf, Bool.and_eq_true] at hpre
  obtain ⟨st', hst⟩ := collectObjects_layout post ds _ { ci := ⟨render ds post, 1⟩, nextId := 1 } 1 0 []
    none h hlen (by
      unfold nextWord
      simp only []
      rw [render_split, struct_skip_lines _ hpre.1])
  unfold parseObjs
  rw [hst]
  simp [flush]

/-! ### the tree does not depend on the layout; ids -/

/-- the abstract tree of a flat document: no ids, no source lines -/
def treeOf (specs : List DefSpec) : List Obj :=
  specs.map (fun d => .defn { name := d.1 } (d.2.map Word.erase))

theorem parsedLay_erase (ds : List (DefSpec × DefLayout)) : ∀ l i,
    eraseList (parsedLay l i ds) = treeOf (ds.map Prod.fst) := by
  induction ds with
  | nil => intro l i; simp [parsedLay, treeOf, eraseList]
  | cons x rest ih =>
    obtain ⟨d, L⟩ := x
    intro l i
    simp only [parsedLay, eraseList_cons, ih, treeOf, List.map_cons]
    simp [Obj.erase, reline_erase, Meta.erase]

theorem treeOf_erase (specs : List DefSpec) : eraseList (treeOf specs) = treeOf specs := by
  induction specs with
  | nil => simp [treeOf, eraseList]
  | cons d ds ih =>
    simp only [treeOf, List.map_cons, eraseList_cons] at ih ⊢
    rw [ih]
    simp [Obj.erase, Meta.erase, Word.erase]

theorem parsedLay_ids (ds : List (DefSpec × DefLayout)) : ∀ l i,
    (parsedLay l i ds).map (fun x => x.meta.id) = (List.range' i ds.length).map some := by
  induction ds with
  | nil => intro l i; rfl
  | cons x rest ih =>
    obtain ⟨d, L⟩ := x
    intro l i
    simp only [parsedLay, List.map_cons, List.length_cons, List.range'_succ, ih]
    rfl

/-! ### source lines in terms of the text in front -/

theorem nlCount_escape (q : Char) (hq : q ≠ '\n') (s : Str) : nlCount (escape q s) = nlCount s := by
  induction s with
  | nil => rfl
  | cons c cs ih =>
    rw [escape]
    split
    · rename_i h
      have hc : c = '\\' := by simpa using h
      rw [nlCount_cons_ne _ _ (by decide), nlCount_cons_ne _ _ (by decide), ih, hc,
        nlCount_cons_ne _ _ (by decide)]
    · split
      · rename_i _ h
        have hc : c = q := by simpa using h
        rw [nlCount_cons_ne _ _ (by decide), nlCount_cons_ne _ _ hq, ih, hc, nlCount_cons_ne _ _ hq]
      · rw [nlCount_cons c, nlCount_cons c cs, ih]

theorem nlCount_token (q : Quote) : nlCount q.token = 0 := by cases q <;> decide

/-- the printed form of a word has as many newlines as its value -/
theorem nlCount_str (w : Word) : nlCount w.str = nlCount w.value := by
  cases hq : w.quote with
  | none => simp [Word.str, hq]
  | some q =>
    have hn : q.char ≠ '\n' := by cases q <;> decide
    simp only [Word.str, hq, quoteStr]
    rw [nlCount_append, nlCount_append, nlCount_token, nlCount_escape _ hn]; omega

/-- the words of a value, each with the line computed from the text in front of it -/
def linedWords (before : Str) : List Str → List Word → List Word
  | g :: gs, w :: ws =>
    { w with line := some (1 + nlCount (before ++ g)) } :: linedWords (before ++ (g ++ w.str)) gs ws
  | _, _ => []

/-- the definitions of a document, each with the line computed from the text in front of its name
    and its words with the lines computed from the text in front of each -/
def linedObjs (before : Str) (i : Nat) : List (DefSpec × DefLayout) → List Obj
  | [] => []
  | (d, L) :: rest =>
    .defn { name := d.1, id := some i, line := some (1 + nlCount (before ++ L.pre.text)) }
        (linedWords (before ++ L.pre.text ++ d.1 ++ L.sp1 ++ ['=']) L.gaps d.2)
      :: linedObjs (before ++ (L.pre.text ++ defText d L)) (i + 1) rest

theorem reline_eq_linedWords (ws : List Word) :
    ∀ (gaps : List Str) (first : Bool) (b : Str), gapsOK first gaps ws = true →
      reline (1 + nlCount b) ws = linedWords b gaps ws := by
  induction ws with
  | nil => intro gaps first b h; rw [gapsOK_nil_right h]; rfl
  | cons w ws ih =>
    intro gaps first b h
    obtain ⟨g, gs, rfl, hg, _, hgs⟩ := gapsOK_cons_right h
    have e : 1 + nlCount b + nlCount w.value = 1 + nlCount (b ++ (g ++ w.str)) := by
      rw [nlCount_append, nlCount_append, inlineB_nl hg, nlCount_str]; omega
    rw [reline, linedWords, e, ih gs false _ hgs, nlCount_append b g, inlineB_nl hg, Nat.add_zero]

theorem nlCount_wordsLay (ws : List Word) :
    ∀ (gaps : List Str) (first : Bool), gapsOK first gaps ws = true →
      nlCount (wordsLay gaps ws) = nlCount (ws.flatMap (·.value)) := by
  induction ws with
  | nil => intro gaps first h; rw [gapsOK_nil_right h]; rfl
  | cons w ws ih =>
    intro gaps first h
    obtain ⟨g, gs, rfl, hg, _, hgs⟩ := gapsOK_cons_right h
    rw [wordsLay, nlCount_append, nlCount_append, inlineB_nl hg, nlCount_str, ih gs false hgs,
      List.flatMap_cons, nlCount_append]; omega

theorem goodName_nlCount {nm : Str} (h : goodName nm = true) : nlCount nm = 0 := by
  obtain ⟨c, w, rfl, _, hall, _, _⟩ := goodName_cases h
  exact nlCount_of_no_nl _ (fun d hd => ne_nl_of_not_space (idCont_not_space (hall d hd)))

theorem nlCount_eq : nlCount ['='] = 0 := by decide

theorem parsedLay_eq_lined (post : Pre) (ds : List (DefSpec × DefLayout)) :
    ∀ (before : Str) (i : Nat), wfDoc ds post = true →
      parsedLay (1 + nlCount before) i ds = linedObjs before i ds := by
  induction ds with
  | nil => intro before i _; rfl
  | cons x rest ih =>
    obtain ⟨d, L⟩ := x
    intro before i hwf
    obtain ⟨hgd, hwd, _, hwr⟩ := wfDoc_cons hwf
    obtain ⟨hname, _, _, _⟩ := goodDef_good hgd
    simp only [wfDef, Bool.and_eq_true] at hwd
    obtain ⟨⟨⟨hpre, hsp1⟩, hgaps⟩, hterm⟩ := hwd
    have hl : 1 + nlCount before + L.pre.lines.length = 1 + nlCount (before ++ L.pre.text) := by
      rw [nlCount_append, nlCount_pre _ hpre]; omega
    have hb : 1 + nlCount (before ++ L.pre.text)
        = 1 + nlCount (before ++ L.pre.text ++ d.1 ++ L.sp1 ++ ['=']) := by
      rw [nlCount_append _ ['='], nlCount_append _ L.sp1, nlCount_append _ d.1, goodName_nlCount hname,
        inlineB_nl hsp1, nlCount_eq]
      omega
    have hnext : endLine (1 + nlCount (before ++ L.pre.text)) d.2 + nlCount L.term.text
        = 1 + nlCount (before ++ (L.pre.text ++ defText d L)) := by
      have heq : '=' ≠ '\n' := by decide
      rw [endLine_eq, defText]
      simp only [nlCount_append, nlCount_cons_ne '=' _ heq]
      rw [nlCount_wordsLay d.2 L.gaps true hgaps, goodName_nlCount hname, inlineB_nl hsp1]
      omega
    rw [parsedLay, linedObjs, hl, hnext, ih _ _ hwr]
    congr 2
    rw [hb]
    exact reline_eq_linedWords d.2 L.gaps true _ hgaps

/-- the closed form of `parse` on a laid-out flat document -/
theorem parseObjs_render_lined (ds : List (DefSpec × DefLayout)) (post : Pre)
    (h : wfDoc ds post = true) : parseObjs (render ds post) = .ok (linedObjs [] 1 ds) := by
  rw [parseObjs_render ds post h]
  have : parsedLay 1 1 ds = linedObjs [] 1 ds := parsedLay_eq_lined post ds [] 1 h
  rw [this]

/-! ### explicit prefixes of the rendered text -/

/-- the text in front of the name of definition `k` -/
def beforeName : List (DefSpec × DefLayout) → Nat → Str
  | [], _ => []
  | (_, L) :: _, 0 => L.pre.text
  | (d, L) :: rest, k + 1 => L.pre.text ++ (defText d L ++ beforeName rest k)

/-- inside a value: the text in front of word `j` -/
def beforeWordIn : List Str → List Word → Nat → Str
  | g :: _, _ :: _, 0 => g
  | g :: gs, w :: ws, j + 1 => g ++ (w.str ++ beforeWordIn gs ws j)
  | _, _, _ => []

/-- the text in front of word `j` of definition `k` -/
def beforeWord (ds : List (DefSpec × DefLayout)) (k j : Nat) : Str :=
  match ds[k]? with
  | some (d, L) => beforeName ds k ++ (d.1 ++ (L.sp1 ++ ('=' :: beforeWordIn L.gaps d.2 j)))
  | none => []

theorem beforeName_prefix (post : Pre) (ds : List (DefSpec × DefLayout)) :
    ∀ (k : Nat) (d : DefSpec) (L : DefLayout), ds[k]? = some (d, L) →
      ∃ tail, render ds post = beforeName ds k ++ (d.1 ++ tail) := by
  induction ds with
  | nil => intro k d L h; simp at h
  | cons x rest ih =>
    obtain ⟨d0, L0⟩ := x
    intro k d L h
    cases k with
    | zero =>
      simp only [List.getElem?_cons_zero, Option.some.injEq, Prod.mk.injEq] at h
      obtain ⟨rfl, rfl⟩ := h
      exact ⟨L0.sp1 ++ '=' :: (wordsLay L0.gaps d0.2 ++ (L0.term.text ++ render rest post)),
        by simp [render, beforeName, defText]⟩
    | succ k =>
      simp only [List.getElem?_cons_succ] at h
      obtain ⟨tail, ht⟩ := ih k d L h
      exact ⟨tail, by simp [render, beforeName, ht]⟩

theorem beforeWordIn_prefix (ws : List Word) :
    ∀ (gaps : List Str) (j : Nat) (w : Word), gaps.length = ws.length → ws[j]? = some w →
      ∃ tail, wordsLay gaps ws = beforeWordIn gaps ws j ++ (w.str ++ tail) := by
  induction ws with
  | nil => intro gaps j w _ h; simp at h
  | cons w0 ws ih =>
    intro gaps j w hlen h
    cases gaps with
    | nil => simp at hlen
    | cons g gs =>
      cases j with
      | zero =>
        simp only [List.getElem?_cons_zero, Option.some.injEq] at h
        subst h
        exact ⟨wordsLay gs ws, by simp [wordsLay, beforeWordIn]⟩
      | succ j =>
        simp only [List.getElem?_cons_succ] at h
        obtain ⟨tail, ht⟩ := ih gs j w (by simpa using hlen) h
        exact ⟨tail, by simp [wordsLay, beforeWordIn, ht]⟩

theorem gapsOK_length (ws : List Word) : ∀ (gaps : List Str) (first : Bool),
    gapsOK first gaps ws = true → gaps.length = ws.length := by
  induction ws with
  | nil => intro gaps first h; rw [gapsOK_nil_right h]; rfl
  | cons w ws ih =>
    intro gaps first h
    obtain ⟨g, gs, rfl, _, _, hgs⟩ := gapsOK_cons_right h
    simp [ih gs false hgs]

theorem beforeWord_prefix (post : Pre) (ds : List (DefSpec × DefLayout)) (k j : Nat)
    (d : DefSpec) (L : DefLayout) (w : Word) (hk : ds[k]? = some (d, L))
    (hlen : L.gaps.length = d.2.length) (hj : d.2[j]? = some w) :
    ∃ tail, render ds post = beforeWord ds k j ++ (w.str ++ tail) := by
  have key : ∀ (ds : List (DefSpec × DefLayout)) (k : Nat), ds[k]? = some (d, L) →
      ∃ tail, render ds post = beforeName ds k ++ (defText d L ++ tail) := by
    intro ds
    induction ds with
    | nil => intro k h; simp at h
    | cons x rest ih =>
      obtain ⟨d0, L0⟩ := x
      intro k h
      cases k with
      | zero =>
        simp only [List.getElem?_cons_zero, Option.some.injEq, Prod.mk.injEq] at h
        obtain ⟨rfl, rfl⟩ := h
        exact ⟨render rest post, by simp [render, beforeName]⟩
      | succ k =>
        simp only [List.getElem?_cons_succ] at h
        obtain ⟨tail, ht⟩ := ih k h
        exact ⟨tail, by simp [render, beforeName, ht]⟩
  obtain ⟨tail, ht⟩ := key ds k hk
  obtain ⟨tail2, ht2⟩ := beforeWordIn_prefix d.2 L.gaps j w hlen hj
  refine ⟨tail2 ++ (L.term.text ++ tail), ?_⟩
  rw [ht, beforeWord, hk]
  simp [defText, ht2]

theorem linedWords_get (ws : List Word) :
    ∀ (gaps : List Str) (b : Str) (j : Nat) (w' : Word), gaps.length = ws.length →
      (linedWords b gaps ws)[j]? = some w' →
      ∃ w, ws[j]? = some w ∧ w' = { w with line := some (1 + nlCount (b ++ beforeWordIn gaps ws j)) } := by
  induction ws with
  | nil =>
    intro gaps b j w' hlen h
    cases gaps <;> simp [linedWords] at h
  | cons w0 ws ih =>
    intro gaps b j w' hlen h
    cases gaps with
    | nil => simp at hlen
    | cons g gs =>
      cases j with
      | zero =>
        simp only [linedWords, List.getElem?_cons_zero, Option.some.injEq] at h
        exact ⟨w0, rfl, by rw [← h]; rfl⟩
      | succ j =>
        simp only [linedWords, List.getElem?_cons_succ] at h
        obtain ⟨w, hw, e⟩ := ih gs _ j w' (by simpa using hlen) h
        refine ⟨w, by simpa using hw, ?_⟩
        rw [e]
        simp [beforeWordIn]

theorem linedWords_length (ws : List Word) : ∀ (gaps : List Str) (b : Str),
    gaps.length = ws.length → (linedWords b gaps ws).length = ws.length := by
  induction ws with
  | nil => intro gaps b h; cases gaps <;> simp [linedWords]
  | cons w ws ih =>
    intro gaps b h
    cases gaps with
    | nil => simp at h
    | cons g gs => simp [linedWords, ih gs _ (by simpa using h)]

theorem linedObjs_get (ds : List (DefSpec × DefLayout)) :
    ∀ (before : Str) (i k : Nat) (d : DefSpec) (L : DefLayout), ds[k]? = some (d, L) →
      (linedObjs before i ds)[k]? = some (.defn
        { name := d.1, id := some (i + k), line := some (1 + nlCount (before ++ beforeName ds k)) }
        (linedWords (before ++ beforeName ds k ++ d.1 ++ L.sp1 ++ ['=']) L.gaps d.2)) := by
  induction ds with
  | nil => intro before i k d L h; simp at h
  | cons x rest ih =>
    obtain ⟨d0, L0⟩ := x
    intro before i k d L h
    cases k with
    | zero =>
      simp only [List.getElem?_cons_zero, Option.some.injEq, Prod.mk.injEq] at h
      obtain ⟨rfl, rfl⟩ := h
      simp [linedObjs, beforeName]
    | succ k =>
      simp only [List.getElem?_cons_succ] at h
      rw [linedObjs, List.getElem?_cons_succ, ih _ _ k d L h]
      simp only [beforeName, List.append_assoc]
      have : i + 1 + k = i + (k + 1) := by omega
      rw [this]

theorem linedObjs_length (ds : List (DefSpec × DefLayout)) : ∀ (before : Str) (i : Nat),
    (linedObjs before i ds).length = ds.length := by
  induction ds with
  | nil => intro before i; rfl
  | cons x rest ih => obtain ⟨d, L⟩ := x; intro before i; simp [linedObjs, ih]

theorem wfDoc_get (post : Pre) (ds : List (DefSpec × DefLayout)) :
    ∀ (k : Nat) (d : DefSpec) (L : DefLayout), wfDoc ds post = true → ds[k]? = some (d, L) →
      goodDef d = true ∧ wfDef d L = true := by
  induction ds with
  | nil => intro k d L _ h; simp at h
  | cons x rest ih =>
    obtain ⟨d0, L0⟩ := x
    intro k d L hwf h
    obtain ⟨h1, h2, _, h4⟩ := wfDoc_cons hwf
    cases k with
    | zero =>
      simp only [List.getElem?_cons_zero, Option.some.injEq, Prod.mk.injEq] at h
      obtain ⟨rfl, rfl⟩ := h
      exact ⟨h1, h2⟩
    | succ k =>
      simp only [List.getElem?_cons_succ] at h
      exact ih k d L h4 h

theorem wfDef_gaps_length {d : DefSpec} {L : DefLayout} (h : wfDef d L = true) :
    L.gaps.length = d.2.length := by
  simp only [wfDef, Bool.and_eq_true] at h
  exact gapsOK_length d.2 L.gaps true h.1.2

/-- every definition and every word of the parsed document, by index -/
theorem linedObjs_spec (post : Pre) (ds : List (DefSpec × DefLayout)) (hwf : wfDoc ds post = true)
    (k : Nat) (d : DefSpec) (L : DefLayout) (hk : ds[k]? = some (d, L)) :
    ∃ ws, (linedObjs [] 1 ds)[k]? = some (.defn
        { name := d.1, id := some (1 + k), line := some (1 + nlCount (beforeName ds k)) } ws) ∧
      ws.length = d.2.length ∧
      ∀ (j : Nat) (w' : Word), ws[j]? = some w' →
        ∃ w : Word, d.2[j]? = some w ∧
          w' = { w with line := some (1 + nlCount (beforeWord ds k j)) } := by
  obtain ⟨_, hwd⟩ := wfDoc_get post ds k d L hwf hk
  have hlen := wfDef_gaps_length hwd
  have hget := linedObjs_get ds [] 1 k d L hk
  refine ⟨linedWords ([] ++ beforeName ds k ++ d.1 ++ L.sp1 ++ ['=']) L.gaps d.2, hget,
    linedWords_length d.2 L.gaps _ hlen, ?_⟩
  intro j w' hj
  obtain ⟨w, hw, e⟩ := linedWords_get d.2 L.gaps _ j w' hlen hj
  refine ⟨w, hw, ?_⟩
  rw [e, beforeWord, hk]
  simp

end Phil
