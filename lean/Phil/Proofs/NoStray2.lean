/-
  Phil.Proofs.NoStray2 — lemmas behind Props/C16More.lean: no-stray / totality for the entry points
  not covered by NoStray.lean:
    A. the printer (`Phil.Show`): exact failure function `showFail` (first failing site in print order),
       `errOf (showObj …) = showFail …`; parser outputs carry only None / Auto / integer expert levels
       and template flag 0 (`PShape`, an invariant of `collectObjects`); width bound `widthNeed`.
    B. variable resolution (`Phil.Vars`): named RuntimeError sites only.
    C. include expansion (`Phil.Include`): RuntimeError, outside the domain, or the missing-file site.
    D. fetch on `MSMaster`.
  All names of this file carry `_n2` or are new words (`showFail`, `PShape`, `widthNeed`, …).
-/
import Phil.Proofs.ShowLaws
import Phil.Proofs.FetchLemmas
import Phil.Proofs.TotalityLemmas
import Phil.Proofs.ParseIds
import Phil.Proofs.IncludeLemmas
set_option linter.unusedVariables false
set_option linter.unusedSimpArgs false
namespace Phil

/-! ## A. the printer -/

theorem errOf_ok_n2 {α : Type} (a : α) : errOf (Except.ok a : R α) = none := rfl
theorem errOf_error_n2 {α : Type} (e : Err) : errOf (Except.error e : R α) = some e := rfl
theorem errOf_eq_some_n2 {α : Type} {r : R α} {e : Err} : errOf r = some e ↔ r = .error e := by
  cases r <;> simp [errOf]
theorem errOf_eq_none_n2 {α : Type} {r : R α} : errOf r = none ↔ ∃ a, r = .ok a := by
  cases r <;> simp [errOf]

abbrev widthErr : Err := .stray "ValueError" "textwrap_width"
abbrev expertErr : Err := .stray "TypeError" "expert_level_compare"
abbrev tabErr : Err := .unsupported "tab in wrapped attribute"

/-- does `show_attributes` put the string value `v` between quotes? (`ind` = length of the indent) -/
def needsQuote (ind : Nat) (width : Int) (v : Str) : Bool :=
  !isStdIdent v || lower v == "none".toList || lower v == "auto".toList ||
    !decide (((ind + v.length : Nat) : Int) < width)

/-- the failure of printing one shown attribute, if any: `textwrap.wrap` is called with a width
    `≤ 0` (ValueError) exactly when the value has to be quoted and `width ≤ indent + 2`; a tab in a
    value that has to be wrapped is outside the model -/
def attrFail (plen : Nat) (width : Int) (name : String) : AttrVal → Option Err
  | .str s =>
    let ind := plen + (3 + name.length + 3)
    if needsQuote ind width s then
      if width ≤ ((ind + 2 : Nat) : Int) then some widthErr
      else if decide (width ≤ ((ind + (quoteStr .d1 s).length : Nat) : Int)) && (quoteStr .d1 s).contains '\t'
        then some tabErr
      else none
    else none
  | _ => none

theorem quoteStr_d1_length_n2 (s : Str) : 2 ≤ (quoteStr .d1 s).length := by
  simp [quoteStr, Quote.token, Quote.triple]

theorem attrIndent_length_n2 (pre : Str) (name : String) :
    (attrIndent pre name).length = pre.length + (3 + name.length + 3) := by
  simp [attrIndent, spaces]

theorem attrFits_eq_n2 (pre : Str) (name : String) (width : Int) (s : Str) :
    attrFits (attrIndent pre name) width s
      = decide (((pre.length + (3 + name.length + 3) + s.length : Nat) : Int) < width) := by
  simp only [attrFits, List.length_append, attrIndent_length_n2]

/-- `attrLines` fails exactly as `attrFail` says -/
theorem attrLines_fail_n2 (pre : Str) (width : Int) (name : String) (v : AttrVal) :
    errOf (attrLines pre width name v) = attrFail pre.length width name v := by
  cases v with
  | str s =>
    simp only [attrLines, attrFail, attrFits_eq_n2, attrIndent_length_n2]
    generalize hind : pre.length + (3 + name.length + 3) = ind
    rw [show (!isStdIdent s || lower s == "none".toList || lower s == "auto".toList ||
        !decide (((ind + s.length : Nat) : Int) < width)) = needsQuote ind width s from rfl]
    by_cases hq : needsQuote ind width s = true
    · rw [hq]
      simp only [if_true]
      have h2 := quoteStr_d1_length_n2 s
      by_cases hf : ((ind + (quoteStr Quote.d1 s).length : Nat) : Int) < width
      · have h1 : ¬ (width ≤ ((ind + 2 : Nat) : Int)) := by omega
        have h3 : ¬ (width ≤ ((ind + (quoteStr Quote.d1 s).length : Nat) : Int)) := by omega
        rw [if_pos (decide_eq_true hf), if_neg h1, decide_eq_false h3]
        rfl
      · rw [if_neg (by simpa using hf)]
        by_cases hw : width ≤ ((ind + 2 : Nat) : Int)
        · have hw' : width - 2 - (ind : Int) ≤ 0 := by omega
          rw [if_pos hw', if_pos hw]
          rfl
        · have hw' : ¬ (width - 2 - (ind : Int) ≤ 0) := by omega
          have h3 : width ≤ ((ind + (quoteStr Quote.d1 s).length : Nat) : Int) := by omega
          rw [if_neg hw', if_neg hw, decide_eq_true h3, Bool.true_and]
          by_cases ht : (quoteStr Quote.d1 s).contains '\t' = true
          · rw [if_pos ht, if_pos ht]; rfl
          · rw [if_neg ht, if_neg ht]; rfl
    · have hq' : needsQuote ind width s = false := by simpa using hq
      rw [hq']
      simp only [Bool.false_eq_true, if_false]
      unfold needsQuote at hq
      have hfit : ((ind + s.length : Nat) : Int) < width := by
        simp only [Bool.or_eq_true, Bool.not_eq_true', decide_eq_false_iff_not, not_or] at hq
        have := hq.2
        simpa using this
      rw [if_pos (decide_eq_true hfit)]
      rfl
  | none => rfl
  | auto => rfl
  | bool b => rfl
  | int i => rfl
  | conv c => rfl

/-- first failure over the attribute names, in print order -/
def attrsFailAux (plen : Nat) (level width : Int) (attrs : Attrs) : List String → Option Err
  | [] => none
  | n :: ns =>
    match (if attrShown level n (attrs.get n) then attrFail plen width n (attrs.get n) else none) with
    | some e => some e
    | none => attrsFailAux plen level width attrs ns

def attrsFail (plen : Nat) (level width : Int) (attrs : Attrs) (names : List String) : Option Err :=
  if level ≤ 0 then none else attrsFailAux plen level width attrs names

theorem attrAll_fail_n2 (attrs : Attrs) (pre : Str) (level width : Int) : ∀ (names : List String),
    errOf (attrAll attrs pre level width names) = attrsFailAux pre.length level width attrs names
  | [] => rfl
  | n :: ns => by
    have ih := attrAll_fail_n2 attrs pre level width ns
    simp only [attrAll, attrsFailAux, attrOne]
    by_cases hs : attrShown level n (attrs.get n) = true
    · rw [if_pos hs, if_pos hs, ← attrLines_fail_n2]
      cases h1 : attrLines pre width n (attrs.get n) with
      | error e => simp [errOf]
      | ok l =>
        simp only [errOf]
        rw [← ih]
        cases attrAll attrs pre level width ns <;> simp [errOf]
    · rw [if_neg hs, if_neg hs]
      simp only
      rw [← ih]
      cases attrAll attrs pre level width ns <;> simp [errOf]

theorem showAttributes_fail_n2 (names : List String) (attrs : Attrs) (pre : Str) (level width : Int) :
    errOf (showAttributes names attrs pre level width) = attrsFail pre.length level width attrs names := by
  rw [showAttributes_all, attrsFail]
  split
  · rfl
  · exact attrAll_fail_n2 attrs pre level width names

/-- the failure of the expert-level gate -/
def expertFail (own : AttrVal) (k : Option Int) : Option Err :=
  match own, k with
  | .none, _ => none
  | _, none => none
  | .int _, some _ => none
  | _, some k => if k ≥ 0 then some expertErr else none

theorem expertHidden_fail_n2 (own : AttrVal) (k : Option Int) :
    errOf (expertHidden own k) = expertFail own k := by
  cases own <;> cases k <;> try rfl
  all_goals (simp only [expertHidden, expertFail]; split <;> rfl)

mutual
/-- the first failing site of `show`, in print order; `plen` is the length of the prefix -/
def showFail (o : ShowOpts) : Obj → Nat → Option Err
  | .defn m _, plen =>
    if m.tmpl < 0 && o.level < 2 then none
    else if (m.attrs.get "deprecated").truthy && o.level < 3 then none
    else match expertHidden (m.attrs.get "expert_level") o.expert with
      | .error e => some e
      | .ok true => none
      | .ok false => attrsFail plen o.level o.width m.attrs defAttrNames
  | .scope m objs, plen =>
    if m.tmpl < 0 && o.level < 2 then none
    else match expertHidden (m.attrs.get "expert_level") o.expert with
      | .error e => some e
      | .ok true => none
      | .ok false =>
        if m.name.isEmpty then showFails o objs plen
        else if firstMerges objs then showFails o objs plen
        else match attrsFail plen o.level o.width m.attrs scopeAttrNames with
          | some e => some e
          | none => showFails o objs (plen + 2)
def showFails (o : ShowOpts) : List Obj → Nat → Option Err
  | [], _ => none
  | x :: xs, plen =>
    match showFail o x plen with
    | some e => some e
    | none => showFails o xs plen
end

theorem showDefn_fail_n2 (o : ShowOpts) (m : Meta) (ws : List Word) (merged : List Str) (pre : Str) :
    errOf (showDefn o m ws merged pre) = showFail o (.defn m ws) pre.length := by
  rw [showDefn_eq, showFail]
  split
  · rfl
  · split
    · rfl
    · cases hh : expertHidden (m.attrs.get "expert_level") o.expert with
      | error e => rfl
      | ok b =>
        cases b with
        | true => rfl
        | false =>
          simp only [expertGate_false, showDefnBody]
          rw [← showAttributes_fail_n2]
          cases showAttributes defAttrNames m.attrs pre o.level o.width <;> rfl

mutual
theorem showObj_fail_n2 (o : ShowOpts) : ∀ (x : Obj) (merged : List Str) (pre : Str),
    errOf (showObj o x merged pre) = showFail o x pre.length
  | .defn m ws, merged, pre => by rw [showObj_defn_eq]; exact showDefn_fail_n2 o m ws merged pre
  | .scope m objs, merged, pre => by
    rw [showObj_scope_eq, showFail]
    split
    · rfl
    · cases hh : expertHidden (m.attrs.get "expert_level") o.expert with
      | error e => rfl
      | ok b =>
        cases b with
        | true => rfl
        | false =>
          simp only [expertGate_false, showScopeBody]
          split
          · exact showObjs_fail_n2 o objs merged pre
          · split
            · exact showObjs_fail_n2 o objs _ pre
            · rw [← showAttributes_fail_n2]
              cases showAttributes scopeAttrNames m.attrs pre o.level o.width with
              | error e => rfl
              | ok attrs =>
                simp only [errOf]
                have ih := showObjs_fail_n2 o objs [] (pre ++ "  ".toList)
                have hl : (pre ++ "  ".toList).length = pre.length + 2 := by simp
                rw [hl] at ih
                rw [← ih]
                cases showObjs o objs [] (pre ++ "  ".toList) <;> rfl
theorem showObjs_fail_n2 (o : ShowOpts) : ∀ (xs : List Obj) (merged : List Str) (pre : Str),
    errOf (showObjs o xs merged pre) = showFails o xs pre.length
  | [], merged, pre => rfl
  | x :: xs, merged, pre => by
    rw [showObjs_cons, showFails, ← showObj_fail_n2 o x merged pre, ← showObjs_fail_n2 o xs merged pre]
    cases showObj o x merged pre <;> cases showObjs o xs merged pre <;> rfl
end

theorem asStr_fail_n2 (o : ShowOpts) (root : Obj) (pre : Str) :
    errOf (asStr o root pre) = showFail o root pre.length := by
  rw [← showObj_fail_n2 o root [] pre]
  unfold asStr
  cases showObj o root [] pre <;> rfl

/-! ### parser outputs: template flag 0, expert levels None / Auto / integer -/

/-- the values `int_from_words` delivers for `.expert_level` -/
def expertShape : AttrVal → Bool
  | .none => true
  | .auto => true
  | .int _ => true
  | _ => false

def attrsShape (a : Attrs) : Bool := a.all (fun p => p.1 != "expert_level" || expertShape p.2)

def metaShape (m : Meta) : Bool := decide (m.tmpl = 0) && attrsShape m.attrs

mutual
/-- what the parser builds: `is_template = 0` everywhere and every `.expert_level` is None, Auto or an
    integer -/
def PShape : Obj → Bool
  | .defn m _ => metaShape m
  | .scope m os => metaShape m && PShapes os
def PShapes : List Obj → Bool
  | [] => true
  | x :: xs => PShape x && PShapes xs
end

theorem pshapes_iff_n2 : ∀ (l : List Obj), PShapes l = true ↔ ∀ o ∈ l, PShape o = true
  | [] => by simp [PShapes]
  | x :: xs => by simp [PShapes, pshapes_iff_n2 xs]

theorem pshapes_append_n2 (a b : List Obj) : PShapes (a ++ b) = (PShapes a && PShapes b) := by
  induction a with
  | nil => simp [PShapes]
  | cons x xs ih => simp [PShapes, ih, Bool.and_assoc]

theorem attrsShape_get_n2 {a : Attrs} (h : attrsShape a = true) : expertShape (a.get "expert_level") = true := by
  unfold Attrs.get
  cases hf : a.reverse.find? (fun p => p.1 == "expert_level") with
  | none => rfl
  | some p =>
    simp only
    have hm : p ∈ a := by
      have := List.mem_of_find?_eq_some hf
      simpa using this
    have hp : (p.1 == "expert_level") = true :=
      List.find?_some (p := fun (q : String × AttrVal) => q.1 == "expert_level") hf
    unfold attrsShape at h
    rw [List.all_eq_true] at h
    have := h p hm
    simp only [bne, hp, Bool.not_true, Bool.false_or] at this
    exact this

theorem attrsShape_snoc_n2 {a : Attrs} (h : attrsShape a = true) (n : String) (v : AttrVal)
    (hv : n = "expert_level" → expertShape v = true) : attrsShape (a ++ [(n, v)]) = true := by
  unfold attrsShape at h ⊢
  rw [List.all_append, h]
  simp only [List.all_cons, List.all_nil, Bool.and_true, Bool.true_and, Bool.or_eq_true, bne_iff_ne, ne_eq]
  by_cases hn : n = "expert_level"
  · exact .inr (hv hn)
  · exact .inl hn

theorem strFromWords_shape_n2 (ws : List Word) :
    strFromWords ws = .none ∨ strFromWords ws = .auto ∨ ∃ s, strFromWords ws = .str s := by
  unfold strFromWords
  split
  · exact .inl rfl
  · split
    · exact .inr (.inl rfl)
    · exact .inr (.inr ⟨_, rfl⟩)

/-- `int_from_words` on attribute text: None, Auto or an integer -/
theorem intFromWordsLit_shape_n2 (ws : List Word) (v : AttrVal) (h : intFromWordsLit ws = .ok v) :
    expertShape v = true := by
  unfold intFromWordsLit at h
  rcases strFromWords_shape_n2 ws with h1 | h1 | ⟨s, h1⟩
  · rw [h1] at h; cases h; rfl
  · rw [h1] at h; cases h; rfl
  · rw [h1] at h
    simp only at h
    split at h
    · cases h
    · split at h
      · cases h; rfl
      · split at h
        · cases h; rfl
        · split at h
          · cases h; rfl
          · cases h

theorem defAttrValue_shape_n2 (ws : List Word) (v : AttrVal) (h : defAttrValue "expert_level" ws = .ok v) :
    expertShape v = true := by
  have : defAttrValue "expert_level" ws = intFromWordsLit ws := by
    unfold defAttrValue
    simp
  rw [this] at h
  exact intFromWordsLit_shape_n2 ws v h

theorem scopeAttrValue_shape_n2 (ws : List Word) (v : AttrVal) (h : scopeAttrValue "expert_level" ws = .ok v) :
    expertShape v = true := by
  have : scopeAttrValue "expert_level" ws = intFromWordsLit ws := by
    unfold scopeAttrValue
    simp
  rw [this] at h
  exact intFromWordsLit_shape_n2 ws v h

theorem scopeAttrsLoop_shape_n2 : ∀ (fuel : Nat) (ci : CI) (w : Word) (attrs attrs' : Attrs) (b : Word)
    (ci' : CI), scopeAttrsLoop fuel ci w attrs = .ok (attrs', b, ci') → attrsShape attrs = true →
      attrsShape attrs' = true := by
  intro fuel
  induction fuel with
  | zero => intro ci w attrs attrs' b ci' h; simp [scopeAttrsLoop] at h
  | succ fuel ih =>
    intro ci w attrs attrs' b ci' h ha
    simp only [scopeAttrsLoop] at h
    split at h
    · cases h; exact ha
    · split at h
      · cases h
      · split at h
        · cases h
        · split at h
          · cases h
          · split at h
            · cases h
            · rename_i ws ci2 hca
              split at h
              · cases h
              · rename_i attrs1 hat
                split at h
                · cases h
                · refine ih _ _ _ _ _ _ h ?_
                  split at hat
                  · cases hat; exact ha
                  · cases hv : scopeAttrValue (String.ofList ((stripBang w).1.value.drop 1)) ws with
                    | error e => rw [hv] at hat; cases hat
                    | ok v =>
                      rw [hv] at hat
                      cases hat
                      refine attrsShape_snoc_n2 ha _ v ?_
                      intro hn
                      rw [hn] at hv
                      exact scopeAttrValue_shape_n2 ws v hv

theorem pshape_withMeta_n2 (f : Meta → Meta) (hf : ∀ m, metaShape m = true → metaShape (f m) = true) :
    ∀ (o : Obj), PShape o = true → PShape (o.withMeta f) = true
  | .defn m ws => by intro h; simp only [Obj.withMeta, PShape] at h ⊢; exact hf m h
  | .scope m kids => by
    intro h
    simp only [Obj.withMeta, PShape, Bool.and_eq_true] at h ⊢
    exact ⟨hf m h.1, h.2⟩

theorem build_pshape_n2 (o : Obj) : ∀ (ns : List Str) (acc : Obj), PShape acc = true →
    PShape (wrapDotted.build o ns acc) = true := by
  intro ns
  induction ns with
  | nil => intro acc h; simpa [wrapDotted.build] using h
  | cons n more ih =>
    intro acc h
    rw [wrapDotted.build]
    apply ih
    simp [PShape, PShapes, metaShape, attrsShape, h]

theorem wrapDotted_pshape_n2 (o : Obj) (h : PShape o = true) : PShape (wrapDotted o) = true := by
  unfold wrapDotted
  dsimp only
  split
  · exact h
  · exact h
  · apply build_pshape_n2
    apply pshape_withMeta_n2 _ _ o h
    intro m hm
    simpa [metaShape] using hm

theorem adopt_pshape_n2 (acc : List Obj) (o : Obj) (ha : PShapes acc = true) (ho : PShape o = true) :
    PShapes (adopt acc o) = true := by
  unfold adopt
  rw [pshapes_append_n2, ha]
  simp [PShapes, wrapDotted_pshape_n2 o ho]

def pendingShape : Option Obj → Bool
  | none => true
  | some d => PShape d

theorem flush_pshape_n2 (acc : List Obj) (pending : Option Obj) (ha : PShapes acc = true)
    (hp : pendingShape pending = true) : PShapes (flush acc pending) = true := by
  cases pending with
  | none => exact ha
  | some d => exact adopt_pshape_n2 acc d ha hp

/-- the invariant of `collect_objects`: everything it builds is parser-shaped -/
theorem collectObjects_pshape_n2 : ∀ (fuel : Nat) (st : PState) (stop : Option Word) (prev : Nat)
    (acc : List Obj) (pending : Option Obj) (objs : List Obj) (st' : PState),
    collectObjects fuel st stop prev acc pending = .ok (objs, st') → PShapes acc = true →
      pendingShape pending = true → PShapes objs = true := by
  intro fuel
  induction fuel with
  | zero => intro st stop prev acc pending objs st' h; simp [collectObjects] at h
  | succ fuel ih =>
    intro st stop prev acc pending objs st' h ha hp
    have hfl := flush_pshape_n2 acc pending ha hp
    simp only [collectObjects] at h
    split at h
    · cases h
    · split at h
      · cases h; exact hfl
      · cases h
    · rename_i lead ci1 h1
      split at h
      · split at h
        · cases h
        · rename_i w ci2 h2
          split at h
          · split at h
            · cases h; exact hfl
            · cases h
          · split at h
            · exact ih { st with ci := ci2 } _ _ _ _ _ _ h ha hp
            · split at h
              · cases h
              · split at h
                · split at h
                  · cases h; exact hfl
                  · cases h
                · exact ih _ _ _ _ _ _ _ h ha hp
      · split at h
        · cases h; exact hfl
        · split at h
          · cases h
          · split at h
            · cases h
            · rename_i w ci2 h2
              split at h
              · split at h
                · cases h
                · split at h
                  · cases h
                  · split at h
                    · cases h
                    · rename_i attrs brace ci3 h3
                      split at h
                      · cases h
                      · rename_i children st1 h4
                        have hk := ih { ci := ci3, nextId := st.nextId + 1 } (some brace) 0 [] none
                          children st1 h4 rfl rfl
                        have hat := scopeAttrsLoop_shape_n2 _ _ _ _ _ _ _ h3 rfl
                        refine ih st1 _ _ _ _ _ _ h (adopt_pshape_n2 _ _ hfl ?_) rfl
                        simp only [PShape, metaShape, hat, hk, Bool.and_true, decide_eq_true_eq]
              · split at h
                · split at h
                  · cases h
                  · split at h
                    · cases h
                    · rename_i ci3 h3
                      split at h
                      · cases h
                      · rename_i ws ci4 h4
                        split at h
                        · cases h
                        · exact ih { ci := ci4, nextId := st.nextId + 1 } _ _ _ _ _ _ h hfl
                            (by simp [pendingShape, PShape, metaShape, attrsShape])
                · split at h
                  · cases h
                  · rename_i d
                    split at h
                    · cases h
                    · split at h
                      · cases h
                      · rename_i eq ci3 h3
                        split at h
                        · cases h
                        · split at h
                          · cases h
                          · rename_i ws ci4 h4
                            split at h
                            · exact ih { st with ci := ci4 } _ _ _ _ _ _ h ha hp
                            · split at h
                              · cases h
                              · rename_i v hv
                                refine ih { st with ci := ci4 } _ _ _ _ _ _ h ha ?_
                                simp only [pendingShape] at hp ⊢
                                apply pshape_withMeta_n2 _ _ d hp
                                intro m hm
                                simp only [metaShape, Bool.and_eq_true] at hm ⊢
                                refine ⟨hm.1, attrsShape_snoc_n2 hm.2 _ v ?_⟩
                                intro hn
                                rw [hn] at hv
                                exact defAttrValue_shape_n2 ws v hv

/-- **every parser output is parser-shaped** -/
theorem parseObjs_pshape_n2 (text : Str) (objs : List Obj) (h : parseObjs text = .ok objs) :
    PShapes objs = true := by
  unfold parseObjs at h
  split at h
  · cases h
  · rename_i objs' st' hc
    cases h
    exact collectObjects_pshape_n2 _ _ _ _ _ _ _ _ hc rfl rfl


/-! ### which sites can fire -/

theorem attrFail_cases_n2 (plen : Nat) (width : Int) (name : String) (v : AttrVal) (e : Err)
    (h : attrFail plen width name v = some e) :
    (e = widthErr ∧ ∃ s, v = .str s ∧ width ≤ ((plen + (3 + name.length + 3) + 2 : Nat) : Int)) ∨ e = tabErr := by
  cases v with
  | str s =>
    simp only [attrFail] at h
    split at h
    · split at h
      · rename_i hw
        cases h
        exact .inl ⟨rfl, s, rfl, hw⟩
      · split at h
        · cases h; exact .inr rfl
        · cases h
    · cases h
  | none => cases h
  | auto => cases h
  | bool b => cases h
  | int i => cases h
  | conv c => cases h

theorem attrsFailAux_cases_n2 (plen : Nat) (level width : Int) (attrs : Attrs) : ∀ (names : List String) (e : Err),
    attrsFailAux plen level width attrs names = some e →
    (e = widthErr ∧ ∃ n ∈ names, ∃ s, attrs.get n = .str s ∧
        width ≤ ((plen + (3 + n.length + 3) + 2 : Nat) : Int)) ∨ e = tabErr
  | [], e, h => by cases h
  | n :: ns, e, h => by
    simp only [attrsFailAux] at h
    split at h
    · rename_i e' he
      cases h
      split at he
      · rcases attrFail_cases_n2 _ _ _ _ _ he with ⟨h1, s, h2, h3⟩ | h1
        · exact .inl ⟨h1, n, by simp, s, h2, h3⟩
        · exact .inr h1
      · cases he
    · rcases attrsFailAux_cases_n2 plen level width attrs ns e h with ⟨h1, m, hm, s, h2, h3⟩ | h1
      · exact .inl ⟨h1, m, by simp [hm], s, h2, h3⟩
      · exact .inr h1

theorem attrsFail_cases_n2 (plen : Nat) (level width : Int) (attrs : Attrs) (names : List String) (e : Err)
    (h : attrsFail plen level width attrs names = some e) :
    (e = widthErr ∧ 0 < level ∧ ∃ n ∈ names, ∃ s, attrs.get n = .str s ∧
        width ≤ ((plen + (3 + n.length + 3) + 2 : Nat) : Int)) ∨ e = tabErr := by
  unfold attrsFail at h
  split at h
  · cases h
  · rename_i hl
    rcases attrsFailAux_cases_n2 _ _ _ _ _ _ h with ⟨h1, h2⟩ | h1
    · exact .inl ⟨h1, by omega, h2⟩
    · exact .inr h1

/-- unset or an integer -/
def expertOkVal : AttrVal → Bool
  | .none => true
  | .int _ => true
  | _ => false

theorem expertFail_cases_n2 (own : AttrVal) (k : Option Int) (e : Err) (h : expertFail own k = some e) :
    e = expertErr ∧ (∃ k', k = some k' ∧ 0 ≤ k') ∧ expertOkVal own = false := by
  cases own <;> cases k <;> simp only [expertFail] at h <;> try cases h
  all_goals (split at h <;> cases h; rename_i hk; exact ⟨rfl, ⟨_, rfl, hk⟩, rfl⟩)

mutual
/-- the attribute carriers of a tree, in print order -/
def metasOf : Obj → List Meta
  | .defn m _ => [m]
  | .scope m os => m :: metasOfs os
def metasOfs : List Obj → List Meta
  | [] => []
  | x :: xs => metasOf x ++ metasOfs xs
end

mutual
/-- the number of nested proper scope blocks (`name {`): unnamed scopes and dotted-name prefixes do not
    indent -/
def showDepth : Obj → Nat
  | .defn _ _ => 0
  | .scope m os => if m.name.isEmpty || firstMerges os then showDepths os else showDepths os + 1
def showDepths : List Obj → Nat
  | [] => 0
  | x :: xs => Nat.max (showDepth x) (showDepths xs)
end

/-- a failure of the printer and where it comes from: a carrier `m ∈ ms` whose expert level is neither
    unset nor an integer while the gate is on; or a string attribute `n` of a carrier printed at an
    indent `≤ bound` with `width ≤ bound + |n| + 8`; or a tab in a wrapped value (outside the model) -/
def ShowWitness (o : ShowOpts) (ms : List Meta) (bound : Nat) (e : Err) : Prop :=
  (e = expertErr ∧ (∃ k, o.expert = some k ∧ 0 ≤ k) ∧
      ∃ m ∈ ms, expertOkVal (m.attrs.get "expert_level") = false) ∨
  (e = widthErr ∧ 0 < o.level ∧ ∃ m ∈ ms, ∃ n ∈ defAttrNames ++ scopeAttrNames, ∃ s,
      m.attrs.get n = .str s ∧ o.width ≤ ((bound + n.length + 8 : Nat) : Int)) ∨
  e = tabErr

theorem ShowWitness.mono_n2 {o : ShowOpts} {ms ms' : List Meta} {b b' : Nat} {e : Err}
    (hm : ∀ m ∈ ms, m ∈ ms') (hb : b ≤ b') (h : ShowWitness o ms b e) : ShowWitness o ms' b' e := by
  rcases h with ⟨h1, h2, m, hmm, h3⟩ | ⟨h1, h2, m, hmm, n, hn, s, h3, h4⟩ | h1
  · exact .inl ⟨h1, h2, m, hm m hmm, h3⟩
  · exact .inr (.inl ⟨h1, h2, m, hm m hmm, n, hn, s, h3, by omega⟩)
  · exact .inr (.inr h1)

theorem showWitness_expert_n2 (o : ShowOpts) (m : Meta) (ms : List Meta) (b : Nat) (e : Err) (hm : m ∈ ms)
    (h : expertHidden (m.attrs.get "expert_level") o.expert = .error e) : ShowWitness o ms b e := by
  have := expertHidden_fail_n2 (m.attrs.get "expert_level") o.expert
  rw [h] at this
  obtain ⟨h1, h2, h3⟩ := expertFail_cases_n2 _ _ _ this.symm
  exact .inl ⟨h1, h2, m, hm, h3⟩

theorem showWitness_attrs_n2 (o : ShowOpts) (m : Meta) (ms : List Meta) (plen b : Nat) (names : List String)
    (e : Err) (hm : m ∈ ms) (hn : ∀ n ∈ names, n ∈ defAttrNames ++ scopeAttrNames) (hb : plen ≤ b)
    (h : attrsFail plen o.level o.width m.attrs names = some e) : ShowWitness o ms b e := by
  rcases attrsFail_cases_n2 _ _ _ _ _ _ h with ⟨h1, h2, n, hnn, s, h3, h4⟩ | h1
  · exact .inr (.inl ⟨h1, h2, m, hm, n, hn n hnn, s, h3, by omega⟩)
  · exact .inr (.inr h1)

/-- **every failure of the printer has a witness in the tree** (any tree, any options) -/
theorem showFail_witness_n2 (o : ShowOpts) :
    (∀ (x : Obj) (plen : Nat) (e : Err), showFail o x plen = some e →
      ShowWitness o (metasOf x) (plen + 2 * showDepth x) e) ∧
    (∀ (xs : List Obj) (plen : Nat) (e : Err), showFails o xs plen = some e →
      ShowWitness o (metasOfs xs) (plen + 2 * showDepths xs) e) := by
  have key : ∀ (n : Nat),
      (∀ (x : Obj) (plen : Nat) (e : Err), sizeOf x ≤ n → showFail o x plen = some e →
        ShowWitness o (metasOf x) (plen + 2 * showDepth x) e) ∧
      (∀ (xs : List Obj) (plen : Nat) (e : Err), sizeOf xs ≤ n → showFails o xs plen = some e →
        ShowWitness o (metasOfs xs) (plen + 2 * showDepths xs) e) := by
    intro n
    induction n with
    | zero =>
      constructor
      · intro x plen e hs; cases x <;> simp at hs
      · intro xs plen e hs h
        cases xs with
        | nil => simp [showFails] at h
        | cons a b => simp at hs
    | succ n ih =>
      constructor
      · intro x plen e hs h
        cases x with
        | defn m ws =>
          simp only [showFail] at h
          split at h
          · cases h
          · split at h
            · cases h
            · split at h
              · rename_i e' he; cases h
                exact showWitness_expert_n2 o m _ _ _ (by simp [metasOf]) he
              · cases h
              · exact showWitness_attrs_n2 o m _ plen _ _ e (by simp [metasOf])
                  (fun n hn => List.mem_append_left _ hn) (by omega) h
        | scope m objs =>
          have hsz : sizeOf objs ≤ n := by simp at hs; omega
          have hsub : ∀ m' ∈ metasOfs objs, m' ∈ metasOf (.scope m objs) := by
            intro m' hm'; simp [metasOf, hm']
          simp only [showFail] at h
          split at h
          · cases h
          · split at h
            · rename_i e' he; cases h
              exact showWitness_expert_n2 o m _ _ _ (by simp [metasOf]) he
            · cases h
            · split at h
              · rename_i hne
                refine (ih.2 _ _ _ hsz h).mono_n2 hsub ?_
                simp [showDepth, hne]
              · split at h
                · rename_i hne hfm
                  refine (ih.2 _ _ _ hsz h).mono_n2 hsub ?_
                  simp [showDepth, hfm]
                · rename_i hne hfm
                  have hd : showDepth (.scope m objs) = showDepths objs + 1 := by
                    simp only [showDepth]
                    rw [if_neg]
                    simp only [Bool.or_eq_true, not_or]
                    exact ⟨hne, hfm⟩
                  split at h
                  · rename_i e' he; cases h
                    exact showWitness_attrs_n2 o m _ plen _ _ _ (by simp [metasOf])
                      (fun n hn => List.mem_append_right _ hn) (by omega) he
                  · refine (ih.2 _ _ _ hsz h).mono_n2 hsub ?_
                    rw [hd]; omega
      · intro xs plen e hs h
        cases xs with
        | nil => simp [showFails] at h
        | cons a b =>
          have h1 : sizeOf a ≤ n := by simp at hs; omega
          have h2 : sizeOf b ≤ n := by simp at hs; omega
          simp only [showFails] at h
          split at h
          · rename_i e' he; cases h
            refine (ih.1 _ _ _ h1 he).mono_n2 (fun m hm => by simp [metasOfs, hm]) ?_
            have : showDepth a ≤ showDepths (a :: b) := by simp only [showDepths]; exact Nat.le_max_left _ _
            omega
          · refine (ih.2 _ _ _ h2 h).mono_n2 (fun m hm => by simp [metasOfs, hm]) ?_
            have : showDepths b ≤ showDepths (a :: b) := by simp only [showDepths]; exact Nat.le_max_right _ _
            omega
  exact ⟨fun x plen e h => (key (sizeOf x)).1 x plen e (Nat.le_refl _) h,
         fun xs plen e h => (key (sizeOf xs)).2 xs plen e (Nat.le_refl _) h⟩

/-- attribute names are at most 17 characters long (`sequential_format`) -/
theorem attrName_length_n2 : ∀ n ∈ defAttrNames ++ scopeAttrNames, n.length ≤ 17 := by decide

/-- parser-shaped carriers: every expert level is None, Auto or an integer -/
theorem pshape_metas_n2 :
    (∀ (x : Obj), PShape x = true → ∀ m ∈ metasOf x, metaShape m = true) ∧
    (∀ (xs : List Obj), PShapes xs = true → ∀ m ∈ metasOfs xs, metaShape m = true) := by
  have key : ∀ (n : Nat),
      (∀ (x : Obj), sizeOf x ≤ n → PShape x = true → ∀ m ∈ metasOf x, metaShape m = true) ∧
      (∀ (xs : List Obj), sizeOf xs ≤ n → PShapes xs = true → ∀ m ∈ metasOfs xs, metaShape m = true) := by
    intro n
    induction n with
    | zero =>
      constructor
      · intro x hs; cases x <;> simp at hs
      · intro xs hs h m hm
        cases xs with
        | nil => simp [metasOfs] at hm
        | cons a b => simp at hs
    | succ n ih =>
      constructor
      · intro x hs h m' hm'
        cases x with
        | defn m ws =>
          simp only [metasOf, List.mem_singleton] at hm'
          subst hm'
          simpa [PShape] using h
        | scope m objs =>
          have hsz : sizeOf objs ≤ n := by simp at hs; omega
          simp only [PShape, Bool.and_eq_true] at h
          simp only [metasOf, List.mem_cons] at hm'
          rcases hm' with hm' | hm'
          · subst hm'; exact h.1
          · exact ih.2 objs hsz h.2 m' hm'
      · intro xs hs h m hm
        cases xs with
        | nil => simp [metasOfs] at hm
        | cons a b =>
          have h1 : sizeOf a ≤ n := by simp at hs; omega
          have h2 : sizeOf b ≤ n := by simp at hs; omega
          simp only [PShapes, Bool.and_eq_true] at h
          simp only [metasOfs, List.mem_append] at hm
          rcases hm with hm | hm
          · exact ih.1 a h1 h.1 m hm
          · exact ih.2 b h2 h.2 m hm
  exact ⟨fun x => (key (sizeOf x)).1 x (Nat.le_refl _), fun xs => (key (sizeOf xs)).2 xs (Nat.le_refl _)⟩


/-! ## B. variable resolution -/

/-- the RuntimeError sites of `variable_substitution_proxy` / `resolve_variables` -/
def varsSites : List String :=
  ["dollar_identifier", "missing_paren", "improper_variable_name", "not_a_definition", "undefined_variable"]

theorem exceptMap_error_n2 {ε α β : Type} {f : α → β} {x : Except ε α} {e : ε}
    (h : Except.map f x = .error e) : x = .error e := by
  cases x with
  | error e' => simp only [Except.map] at h; cases h; rfl
  | ok a => simp [Except.map] at h

theorem length_dropWhile_le_n2 {α : Type} (p : α → Bool) : ∀ (l : List α), (l.dropWhile p).length ≤ l.length
  | [] => by simp
  | x :: xs => by
    rw [List.dropWhile_cons]
    split
    · have := length_dropWhile_le_n2 p xs
      simp only [List.length_cons]; omega
    · exact Nat.le_refl _

/-- the fragment scanner: its loop bound is adequate and its errors are the three syntax sites -/
theorem fragmentsAux_errors_n2 : ∀ (fuel : Nat) (cs cur : Str) (acc : List Fragment) (e : String),
    fragmentsAux fuel cs cur acc = .error e →
      e ∈ ["dollar_identifier", "missing_paren", "improper_variable_name"] ∨ (e = "fuel" ∧ fuel ≤ cs.length) := by
  intro fuel
  induction fuel with
  | zero => intro cs cur acc e h; simp only [fragmentsAux] at h; cases h; exact .inr ⟨rfl, Nat.zero_le _⟩
  | succ fuel ih =>
    intro cs cur acc e h
    cases cs with
    | nil => simp [fragmentsAux] at h
    | cons c rest =>
      simp only [fragmentsAux] at h
      split at h
      · -- c ≠ '$'
        split at h
        · rename_i rest'
          rcases ih _ _ _ _ h with h1 | ⟨h1, h2⟩
          · exact .inl h1
          · refine .inr ⟨h1, ?_⟩
            simp only [List.length_cons] at *
            omega
        · rcases ih _ _ _ _ h with h1 | ⟨h1, h2⟩
          · exact .inl h1
          · exact .inr ⟨h1, by simp only [List.length_cons]; omega⟩
      · split at h
        · cases h; exact .inl (by simp)
        · rename_i rest'
          split at h
          · cases h; exact .inl (by simp)
          · have hfin : ∀ (acc' : List Fragment),
                fragmentsAux fuel ((rest'.dropWhile (· != ')')).drop 1) [] acc' = .error e →
                e ∈ ["dollar_identifier", "missing_paren", "improper_variable_name"] ∨
                  (e = "fuel" ∧ fuel + 1 ≤ (c :: '(' :: rest').length) := by
              intro acc' h'
              rcases ih _ _ _ _ h' with h1 | ⟨h1, h2⟩
              · exact .inl h1
              · refine .inr ⟨h1, ?_⟩
                have h3 : ((rest'.dropWhile (· != ')')).drop 1).length ≤ rest'.length := by
                  rw [List.length_drop]
                  have := length_dropWhile_le_n2 (· != ')') rest'
                  omega
                simp only [List.length_cons]
                omega
            split at h
            all_goals
              first
              | (cases h; exact .inl (by simp))
              | exact hfin _ (exceptMap_error_n2 h)
              | (split at h
                 · cases h; exact .inl (by simp)
                 · exact hfin _ (exceptMap_error_n2 h))
        · rename_i d rest' _
          split at h
          · cases h; exact .inl (by simp)
          · rcases ih _ _ _ _ (exceptMap_error_n2 h) with h1 | ⟨h1, h2⟩
            · exact .inl h1
            · refine .inr ⟨h1, ?_⟩
              rw [List.length_drop] at h2
              simp only [List.length_cons]
              omega

theorem fragments_errors_n2 (v : Str) (e : String) (h : fragments v = .error e) :
    e ∈ ["dollar_identifier", "missing_paren", "improper_variable_name"] := by
  unfold fragments at h
  split at h
  · rename_i e' he
    cases h
    rcases fragmentsAux_errors_n2 _ _ _ _ _ he with h1 | ⟨_, h2⟩
    · exact h1
    · omega
  · cases h

/-- the outcomes of `resolve_variables` other than a value: RuntimeError at one of five named sites
    (with the line of the word), a referenced definition without id (outside the domain), or the loop
    bound -/
def VarsErr (e : Err) : Prop :=
  (∃ s ∈ varsSites, ∃ l, e = .runtime s l) ∨ e = .unsupported "referenced definition without id" ∨
    e = .outOfFuel

theorem foldlM_errP_n2 {α β : Type} (P : Err → Prop) (f : β → α → R β)
    (h : ∀ acc x e, f acc x = .error e → P e) :
    ∀ (l : List α) (init : β) (e : Err), l.foldlM f init = .error e → P e := by
  intro l
  induction l with
  | nil => intro init e h'; simp [pure, Except.pure] at h'
  | cons x xs ih =>
    intro init e h'
    rw [List.foldlM_cons] at h'
    cases h1 : f init x with
    | error e1 =>
      rw [h1] at h'
      have : e1 = e := by simpa [bind, Except.bind] using h'
      exact this ▸ h _ _ _ h1
    | ok b =>
      rw [h1] at h'
      exact ih b e h'

/-- **`resolve_variables` never strays**: every failure is one of `VarsErr` -/
theorem resolveWords_errors_n2 (env : Env) : ∀ (f : Nat) (chain : Chain) (id : Nat) (ws : List Word)
    (diff : Bool) (e : Err), resolveWords env f chain id ws diff = .error e → VarsErr e := by
  intro f
  induction f with
  | zero => intro chain id ws diff e h; simp only [resolveWords] at h; cases h; exact .inr (.inr rfl)
  | succ f ih =>
    intro chain id ws diff e h
    rw [resolveWords_succ] at h
    refine foldlM_errP_n2 VarsErr _ ?_ ws [] e h
    intro acc w e hs
    unfold resolveStep at hs
    split at hs
    · cases hs
    · split at hs
      · rename_i site hfr
        cases hs
        have := fragments_errors_n2 _ _ hfr
        refine .inl ⟨site, ?_, _, rfl⟩
        simp only [varsSites]
        simp only [List.mem_cons, List.not_mem_nil, or_false] at this ⊢
        rcases this with h1 | h1 | h1 <;> simp [h1]
      · rename_i frags hv hfr
        split at hs
        · cases hs
        · unfold resolveMix at hs
          simp only at hs
          split at hs
          · rename_i e' hfold
            cases hs
            refine foldlM_errP_n2 VarsErr _ ?_ frags [] e hfold
            intro rs fr e hfrag
            cases fr with
            | lit s => cases hfrag
            | var name =>
              simp only [resolveFrag] at hfrag
              unfold resolveVar at hfrag
              simp only at hfrag
              split at hfrag
              · rename_i e'' hfound
                cases hfrag
                cases hl : lexicalGet (2 * name.length + chain.length + 1) chain name id true with
                | none => rw [hl] at hfound; cases hfound
                | some r =>
                  rw [hl] at hfound
                  obtain ⟨ob, ch⟩ := r
                  cases ob with
                  | scope m k =>
                    simp only [foundOf] at hfound
                    cases hfound
                    exact .inl ⟨"not_a_definition", by simp [varsSites], _, rfl⟩
                  | defn m ws1 =>
                    simp only [foundOf] at hfound
                    split at hfound
                    · exact ih _ _ _ _ _ (exceptMap_error_n2 hfound)
                    · cases hfound; exact .inr (.inl rfl)
              · cases hfrag
              · split at hfrag
                · cases hfrag
                · cases hfrag
                  exact .inl ⟨"undefined_variable", by simp [varsSites], _, rfl⟩
          · split at hs <;> cases hs

/-- `definition.resolve_variables()` at a position of a document: the same, plus the two "no such
    definition" answers of the model's addressing (outside the domain) -/
theorem resolveAt_errors_n2 (env : Env) (root : List Obj) (pos : List Nat) (diff : Bool) (e : Err)
    (h : resolveAt env root pos diff = .error e) :
    VarsErr e ∨ e = .unsupported "definition without id" ∨ e = .unsupported "no definition at path" := by
  unfold resolveAt at h
  split at h
  · split at h
    · exact .inl (resolveWords_errors_n2 env _ _ _ _ _ _ h)
    · cases h; exact .inr (.inl rfl)
  · cases h; exact .inr (.inr rfl)

open C12 in
/-- on documents with the parser's numbering the loop bound is never hit (as `C12.resolveAt_never_outOfFuel`) -/
theorem resolveAt_ne_outOfFuel_n2 (env : Env) (root : List Obj) (hd : DocIds root) (pos : List Nat)
    (diff : Bool) : resolveAt env root pos diff ≠ .error .outOfFuel := by
  unfold resolveAt
  cases hc : chainAt root pos [] with
  | none => simp
  | some x =>
    obtain ⟨o, ch⟩ := x
    cases o with
    | scope m k => simp
    | defn m ws =>
      have ho := chainAt_objAt_vs pos root [] _ ch hc
      cases hid : m.id with
      | none => simp [hid]
      | some n =>
        have hle := idsLe_objAt_vs (sizeList root) pos root _ n hd.2 ho hid
        rw [sizeList_eq_countObjs_vs] at hle
        simp only [hid]
        exact resolveWords_not_outOfFuel env _ ch n ws diff (by omega)


/-! ## C. include expansion -/

abbrev fileErr : Err := .stray "FileNotFoundError" "open"

/-- the outcomes of `parse(file_name=…, process_includes=True)` other than a tree: RuntimeError (syntax
    errors of a file, include syntax, cycle, scope not found), outside the domain, the loop bound, or
    `open()` of a file that does not exist -/
def IncErr (e : Err) : Prop :=
  (∃ s l, e = .runtime s l) ∨ (∃ w, e = .unsupported w) ∨ e = .outOfFuel ∨ e = fileErr

theorem IncErr.of_benign_n2 {e : Err} (h : e.benign = true) : IncErr e := by
  rcases (Err.benign_iff e).1 h with h | h
  · exact .inl h
  · exact .inr (.inl h)

theorem selectSub_errors_n2 (expanded : List Obj) (sub : Option Str) (line : Option Nat) (e : Err)
    (h : selectSub expanded sub line = .error e) : IncErr e := by
  cases sub with
  | none => cases h
  | some q =>
    simp only [selectSub] at h
    split at h
    · cases h; exact .inl ⟨_, _, rfl⟩
    · split at h
      · cases h; exact .inr (.inl ⟨_, rfl⟩)
      · cases h

theorem include_errors_n2 (env : IncEnv) : ∀ (fuel : Nat),
    (∀ (path : Path) (stack : List Path) (e : Err), expandFile env fuel path stack = .error e → IncErr e) ∧
    (∀ (objs : List Obj) (refdir : Path) (stack : List Path) (e : Err),
      processIncludes env fuel refdir stack objs = .error e → IncErr e) := by
  intro fuel
  induction fuel with
  | zero =>
    have hE : ∀ (path : Path) (stack : List Path) (e : Err), expandFile env 0 path stack = .error e → IncErr e := by
      intro path stack e h
      rw [expandFile_zero] at h
      cases h; exact .inr (.inr (.inl rfl))
    refine ⟨hE, ?_⟩
    exact step env 0 hE (fun f hf => absurd hf (Nat.succ_ne_zero f))
  | succ f ih =>
    have hE : ∀ (path : Path) (stack : List Path) (e : Err),
        expandFile env (f + 1) path stack = .error e → IncErr e := by
      intro path stack e h
      rw [expandFile_succ] at h
      split at h
      · cases h; exact .inr (.inr (.inr rfl))
      · split at h
        · rename_i e' hp
          cases h
          exact IncErr.of_benign_n2 (parseObjs_benign _ _ hp)
        · split at h
          · cases h; exact .inl ⟨_, _, rfl⟩
          · exact ih.2 _ _ _ _ h
    refine ⟨hE, ?_⟩
    refine step env (f + 1) hE ?_
    intro f' hf'
    have : f' = f := by omega
    subst this
    exact ih.2
where
  step (env : IncEnv) (fuel : Nat)
      (hE : ∀ (path : Path) (stack : List Path) (e : Err), expandFile env fuel path stack = .error e → IncErr e)
      (hP : ∀ f, f + 1 = fuel → ∀ (objs : List Obj) (refdir : Path) (stack : List Path) (e : Err),
        processIncludes env f refdir stack objs = .error e → IncErr e) :
      ∀ (objs : List Obj) (refdir : Path) (stack : List Path) (e : Err),
        processIncludes env fuel refdir stack objs = .error e → IncErr e := by
    have key : ∀ (n : Nat) (objs : List Obj), sizeOf objs ≤ n → ∀ (refdir : Path) (stack : List Path) (e : Err),
        processIncludes env fuel refdir stack objs = .error e → IncErr e := by
      intro n
      induction n with
      | zero =>
        intro objs hs
        cases objs with
        | nil => intro refdir stack e h; rw [processIncludes_nil] at h; cases h
        | cons a b => simp at hs
      | succ n ihn =>
        intro objs hs refdir stack e h
        cases objs with
        | nil => rw [processIncludes_nil] at h; cases h
        | cons o rest =>
          have h2 : sizeOf rest ≤ n := by simp at hs; omega
          rw [processIncludes_cons] at h
          split at h
          · rename_i e' hh
            cases h
            unfold includeHere at hh
            split at hh
            · cases hh
            · cases o with
              | scope m kids =>
                have hk : sizeOf kids ≤ n := by simp at hs; omega
                simp only at hh
                exact ihn kids hk _ _ _ (exceptMap_error_n2 hh)
              | defn m ws =>
                simp only at hh
                split at hh
                · cases hh
                · split at hh
                  · cases hh; exact .inr (.inl ⟨_, rfl⟩)
                  · split at hh
                    · cases hh; exact .inl ⟨_, _, rfl⟩
                    · split at hh
                      · split at hh
                        · cases hh; exact .inl ⟨_, _, rfl⟩
                        · split at hh
                          · cases hh; exact .inr (.inr (.inl rfl))
                          · exact hE _ _ _ hh
                      · split at hh
                        · split at hh
                          · cases hh; exact .inl ⟨_, _, rfl⟩
                          · unfold includeScope at hh
                            split at hh
                            · cases hh; exact .inr (.inl ⟨_, rfl⟩)
                            · split at hh
                              · rename_i e'' hp
                                cases hh
                                exact IncErr.of_benign_n2 (parseObjs_benign _ _ hp)
                              · split at hh
                                · cases hh; exact .inr (.inr (.inl rfl))
                                · rename_i f'
                                  split at hh
                                  · rename_i e'' hpi
                                    cases hh
                                    exact hP f' rfl _ _ _ _ hpi
                                  · exact selectSub_errors_n2 _ _ _ _ hh
                        · cases hh; exact .inl ⟨_, _, rfl⟩
          · exact ihn rest h2 _ _ _ (exceptMap_error_n2 h)
    exact fun objs => key (sizeOf objs) objs (Nat.le_refl _)

theorem expand_errors_n2 (env : IncEnv) (root : Path) (e : Err) (h : expand env root = .error e) : IncErr e :=
  (include_errors_n2 env _).1 root [] e h

end Phil
