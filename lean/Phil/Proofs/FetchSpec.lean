/-
  Phil.Proofs.FetchSpec — exact specifications of scope.fetch for flat masters:
    A. sources mixing root-level definitions and scopes; the consumed ids and the unused list are
       characterised exactly (C06);
    B. flat masters with `.multiple` definitions: the list rule (C05);
    C. idempotence of the re-fetch for those masters (C07).
  Builds on Phil/Proofs/FetchLemmas.lean (named step functions of `fetchScope`).
-/
import Phil.Proofs.FetchLemmas
set_option linter.unusedVariables false
namespace Phil

/-! ## A. flat masters, sources with root-level definitions and scopes (C06) -/

/-- the root-level definitions of a source list -/
def defnsOf (l : List Obj) : List Obj := l.filter Obj.isDefn

theorem startsWith_dot_false (n p : Str) (hp : '.' ∉ p) : startsWith (n ++ ['.']) p = false := by
  unfold startsWith
  rw [beq_eq_false_iff_ne]
  intro h
  apply hp
  have h1 : '.' ∈ List.take (n ++ ['.']).length p := by rw [h]; simp
  exact List.mem_of_mem_take h1

/-- an enabled named scope contributes itself when its name is the (dot-free) path, else nothing -/
theorem getWithoutSubst_scope_dotfree (n : Nat) (m : Meta) (kids : List Obj) (p : Str)
    (hd : m.disabled = false) (hn : m.name ≠ []) (hp : '.' ∉ p) :
    getWithoutSubst (n + 1) (.scope m kids) p = if m.name == p then [.scope m kids] else [] := by
  have hne : m.name.isEmpty = false := by
    cases h : m.name with
    | nil => exact absurd h hn
    | cons => rfl
  rw [getWithoutSubst_scope]
  simp only [hd, hne, Bool.false_eq_true, if_false, startsWith_dot_false m.name p hp]

/-- root-level lookup of a dot-free path in sources whose scopes are named: the enabled objects of
    that name, definitions and scopes alike -/
theorem flatMap_getWithoutSubst_named (n : Nat) (p : Str) (hp : '.' ∉ p) :
    ∀ (l : List Obj), (∀ m kids, Obj.scope m kids ∈ l → m.name ≠ []) →
      (l.filter (fun k => !k.meta.disabled)).flatMap (fun k => getWithoutSubst (n + 1) k p) =
        activeNamed p l := by
  intro l
  induction l with
  | nil => intro _; rfl
  | cons d l ih =>
    intro hl
    have ih' := ih (fun m kids hm => hl m kids (List.mem_cons_of_mem _ hm))
    unfold activeNamed at ih' ⊢
    cases d with
    | scope m k =>
      have hm : (Obj.scope m k).meta.disabled = m.disabled := rfl
      have hnm : (Obj.scope m k).name = m.name := rfl
      cases hd : m.disabled with
      | true =>
        simp only [List.filter_cons, hm, hd, Bool.not_true, Bool.false_and, Bool.false_eq_true, if_false]
        exact ih'
      | false =>
        have hg := getWithoutSubst_scope_dotfree n m k p hd (hl m k List.mem_cons_self) hp
        cases hn : m.name == p with
        | true =>
          simp only [List.filter_cons, hm, hnm, hd, hn, Bool.not_false, Bool.true_and, if_true,
            List.flatMap_cons, hg, ih', List.cons_append, List.nil_append]
        | false =>
          simp only [List.filter_cons, hm, hnm, hd, hn, Bool.not_false, Bool.true_and, if_true,
            List.flatMap_cons, hg, Bool.false_eq_true, if_false, ih', List.nil_append]
    | defn m ws =>
      have hm : (Obj.defn m ws).meta.disabled = m.disabled := rfl
      have hnm : (Obj.defn m ws).name = m.name := rfl
      cases hd : m.disabled with
      | true =>
        simp only [List.filter_cons, hm, hd, Bool.not_true, Bool.false_and, Bool.false_eq_true, if_false]
        exact ih'
      | false =>
        cases hn : m.name == p with
        | true =>
          simp only [List.filter_cons, hm, hnm, hd, hn, Bool.not_false, Bool.true_and, if_true,
            List.flatMap_cons, getWithoutSubst_defn, Bool.false_eq_true, if_false, ih',
            List.cons_append, List.nil_append]
        | false =>
          simp only [List.filter_cons, hm, hnm, hd, hn, Bool.not_false, Bool.true_and, if_true,
            List.flatMap_cons, getWithoutSubst_defn, Bool.false_eq_true, if_false, ih',
            List.nil_append]

/-- the sources matching a root-level, dot-free master name: the enabled root-level source objects
    of that name -/
theorem fetchMatching_named (fuel : Nat) (sm : Meta) (combined : List Obj) (mo : Obj)
    (hsm : sm.name = []) (hsd : sm.disabled = false) (hname : mo.name ≠ []) (hdot : '.' ∉ mo.name)
    (hsc : ∀ m kids, Obj.scope m kids ∈ combined → m.name ≠ []) :
    fetchMatching fuel sm combined mo = activeNamed mo.name combined := by
  have hne : mo.name.isEmpty = false := by
    cases h : mo.name with
    | nil => exact absurd h hname
    | cons => rfl
  unfold fetchMatching fetchPath
  rw [show fuel + 64 = (fuel + 63) + 1 from rfl, getWithoutSubst_scope]
  simp only [hsm, hsd, List.isEmpty_nil, if_true, hne, Bool.false_eq_true, if_false]
  rw [show fuel + 63 = (fuel + 62) + 1 from rfl, flatMap_getWithoutSubst_named _ _ hdot _ hsc]
  unfold activeNamed
  rw [List.filter_filter]
  congr 1
  funext d
  cases d.meta.disabled <;> simp

theorem activeNamed_defnsOf (p : Str) (l : List Obj)
    (h : ∀ m kids, Obj.scope m kids ∈ l → m.disabled = false → m.name ≠ p) :
    activeNamed p l = activeNamed p (defnsOf l) := by
  unfold activeNamed defnsOf
  rw [List.filter_filter]
  apply List.filter_congr
  intro o ho
  cases o with
  | defn m ws => simp [Obj.isDefn]
  | scope m kids =>
    simp only [Obj.isDefn, Bool.and_false]
    cases hd : m.disabled with
    | true => simp [Obj.meta, hd]
    | false =>
      have := h m kids ho hd
      simp [Obj.meta, Obj.name, hd, this]

/-- sources consisting of root-level definitions and named scopes, no enabled scope bearing one of
    the names `names` -/
structure MixedSrc (names : List Str) (combined : List Obj) : Prop where
  scopeNamed : ∀ m kids, Obj.scope m kids ∈ combined → m.name ≠ []
  noClash : ∀ m kids, Obj.scope m kids ∈ combined → m.disabled = false → m.name ∉ names

theorem mem_defnsOf {l : List Obj} {o : Obj} : o ∈ defnsOf l ↔ o ∈ l ∧ o.isDefn = true := by
  unfold defnsOf; rw [List.mem_filter]

theorem foldlM_congr_mem {α β ε : Type} (f g : β → α → Except ε β) :
    ∀ (l : List α), (∀ a ∈ l, ∀ b, f b a = g b a) → ∀ init, l.foldlM f init = l.foldlM g init := by
  intro l
  induction l with
  | nil => intro _ _; rfl
  | cons a l ih =>
    intro h init
    rw [List.foldlM_cons, List.foldlM_cons, h a List.mem_cons_self init]
    cases g init a with
    | error err => rfl
    | ok b => exact ih (fun a' ha' => h a' (List.mem_cons_of_mem _ ha')) b

/-- **flat masters, mixed sources: complete description of the result.**  Source scopes whose name
    is no master name are ignored altogether. -/
theorem fetch_flat_mixed (e : Envs) (fuel : Nat) (sm : Meta) (mkids combined : List Obj)
    (hf : FlatMaster mkids) (hdot : ∀ mo ∈ mkids, '.' ∉ mo.name)
    (hsm : sm.name = []) (hsd : sm.disabled = false)
    (hmix : MixedSrc (mkids.map Obj.name) combined)
    (hsrc : ∀ o ∈ combined, o.isDefn = true → SrcOK o) :
    fetchScope e (fuel + 1) false sm mkids combined =
      .ok (.scope { sm with tmpl := 0 } (flatResult mkids (defnsOf combined)),
           flatUsed mkids (defnsOf combined)) := by
  rw [← fetch_flat e fuel sm mkids (defnsOf combined) hf hsm hsd
    (fun o ho => (mem_defnsOf.mp ho).2) (fun o ho => hsrc o (mem_defnsOf.mp ho).1 (mem_defnsOf.mp ho).2)]
  rw [fetchScope_succ, fetchScope_succ, masterActive_flat mkids hf]
  simp only
  congr 1
  apply foldlM_congr_mem
  intro a ha st
  have hmem : a.2 ∈ mkids := by rw [← indexed_map_snd mkids]; exact List.mem_map.mpr ⟨a, ha, rfl⟩
  obtain ⟨mm, mws, hmo, hp, hname, _⟩ := hf.plain _ hmem
  have hname' : a.2.name ≠ [] := by rw [hmo]; exact hname
  have h1 : fetchMatching fuel sm combined a.2 = fetchMatching fuel sm (defnsOf combined) a.2 := by
    rw [fetchMatching_named fuel sm combined a.2 hsm hsd hname' (hdot _ hmem) hmix.scopeNamed,
      fetchMatching_flat fuel sm (defnsOf combined) a.2 hsm hsd hname' (fun o ho => (mem_defnsOf.mp ho).2)]
    apply activeNamed_defnsOf
    intro m kids hm hd heq
    exact hmix.noClash m kids hm hd (heq ▸ List.mem_map.mpr ⟨a.2, hmem, rfl⟩)
  unfold stepG
  rw [h1]

/-! ### the consumed ids, exactly -/

theorem mem_activeNamed {p : Str} {l : List Obj} {d : Obj} :
    d ∈ activeNamed p l ↔ d ∈ l ∧ d.meta.disabled = false ∧ d.name = p := by
  unfold activeNamed
  rw [List.mem_filter]
  simp

theorem mem_flatUsed {mkids D : List Obj} {i : Nat} :
    i ∈ flatUsed mkids D ↔
      ∃ mo ∈ mkids, ∃ d ∈ D, d.meta.disabled = false ∧ d.name = mo.name ∧ i ∈ marksOf d := by
  unfold flatUsed
  simp only [List.mem_flatMap, mem_activeNamed]
  constructor
  · rintro ⟨mo, hmo, d, ⟨hd, hdis, hn⟩, hi⟩
    exact ⟨mo, hmo, d, hd, hdis, hn, hi⟩
  · rintro ⟨mo, hmo, d, hd, hdis, hn, hi⟩
    exact ⟨mo, hmo, d, ⟨hd, hdis, hn⟩, hi⟩

theorem mem_marksOf_noRefs {d : Obj} {i : Nat} (h : srcRefs d = []) :
    i ∈ marksOf d ↔ d.meta.id = some i := by
  unfold marksOf idOf
  rw [h, List.append_nil]
  cases d.meta.id with
  | none => simp
  | some j => simp [eq_comm]

/-- **C06 (consumed ids, exactly).**  Flat master at the root, sources made of root-level
    definitions and named scopes none of which bears a master name, variable-free: the consumed ids
    are exactly the ids of the enabled root-level source definitions named like a master child. -/
theorem flat_used_exact_of_mixed (e : Envs) (fuel : Nat) (sm : Meta) (mkids combined : List Obj)
    (hf : FlatMaster mkids) (hdot : ∀ mo ∈ mkids, '.' ∉ mo.name)
    (hsm : sm.name = []) (hsd : sm.disabled = false)
    (hmix : MixedSrc (mkids.map Obj.name) combined)
    (hsrc : ∀ o ∈ combined, o.isDefn = true → SrcOK o)
    (hrefs : ∀ o ∈ combined, srcRefs o = [])
    (ro : Obj) (used : List Nat)
    (h : fetchScope e fuel false sm mkids combined = .ok (ro, used)) (i : Nat) :
    i ∈ used ↔ ∃ d ∈ combined, d.isDefn = true ∧ d.meta.disabled = false ∧ d.meta.id = some i ∧
      d.name ∈ mkids.map Obj.name := by
  cases fuel with
  | zero => cases h
  | succ fuel =>
    rw [fetch_flat_mixed e fuel sm mkids combined hf hdot hsm hsd hmix hsrc] at h
    cases h
    rw [mem_flatUsed]
    constructor
    · rintro ⟨mo, hmo, d, hd, hdis, hn, hi⟩
      obtain ⟨hdc, hdd⟩ := mem_defnsOf.mp hd
      exact ⟨d, hdc, hdd, hdis, (mem_marksOf_noRefs (hrefs d hdc)).mp hi,
        hn ▸ List.mem_map.mpr ⟨mo, hmo, rfl⟩⟩
    · rintro ⟨d, hdc, hdd, hdis, hid, hn⟩
      obtain ⟨mo, hmo, hmn⟩ := List.mem_map.mp hn
      exact ⟨mo, hmo, d, mem_defnsOf.mpr ⟨hdc, hdd⟩, hdis, hmn.symm,
        (mem_marksOf_noRefs (hrefs d hdc)).mpr hid⟩

/-! ### an enabled source scope bearing a master name makes the fetch fail -/

theorem foldlM_ok_or_error {α β : Type} (f : β → α → R β) (E : Err) :
    ∀ (l : List α), (∀ a ∈ l, ∀ b, (∃ b', f b a = .ok b') ∨ f b a = .error E) →
      ∀ init, (∃ r, l.foldlM f init = .ok r) ∨ l.foldlM f init = .error E := by
  intro l
  induction l with
  | nil => intro _ init; exact .inl ⟨init, rfl⟩
  | cons a l ih =>
    intro h init
    rw [List.foldlM_cons]
    rcases h a List.mem_cons_self init with ⟨b', hb⟩ | hb
    · rw [hb]; exact ih (fun a' ha' => h a' (List.mem_cons_of_mem _ ha')) b'
    · rw [hb]; exact .inr rfl

theorem foldlM_error_of_mem {α β : Type} (f : β → α → R β) (E : Err) :
    ∀ (l : List α), (∀ a ∈ l, ∀ b, (∃ b', f b a = .ok b') ∨ f b a = .error E) →
      (∃ a ∈ l, ∀ b, f b a = .error E) → ∀ init, l.foldlM f init = .error E := by
  intro l
  induction l with
  | nil => intro _ ⟨a, ha, _⟩; cases ha
  | cons a l ih =>
    intro h ⟨a0, ha0, hbad⟩ init
    rw [List.foldlM_cons]
    rcases h a List.mem_cons_self init with ⟨b', hb⟩ | hb
    · rw [hb]
      rw [List.mem_cons] at ha0
      rcases ha0 with rfl | ha0
      · rw [hbad init] at hb; cases hb
      · exact ih (fun a' ha' => h a' (List.mem_cons_of_mem _ ha')) ⟨a0, ha0, hbad⟩ b'
    · rw [hb]; rfl

def incompatibleErr : Err := .runtime "incompatible" none

theorem defnOne_plain_ok_or_incompatible (e : Envs) (fuel : Nat) (mm : Meta) (mws : List Word)
    (hp : PlainMeta mm) (ms : Obj) (hok : ms.isDefn = true → SrcOK ms) (acc : Option Obj × List Nat) :
    (∃ b', defnOne e fuel false (.defn mm mws) acc ms = .ok b') ∨
      defnOne e fuel false (.defn mm mws) acc ms = .error incompatibleErr := by
  cases ms with
  | scope m k => right; unfold defnOne; rw [fetchDefn_nodiff]; rfl
  | defn m ws =>
    left
    unfold defnOne
    rw [fetchDefn_nodiff, fetchValue_plain mm mws m ws hp (hok rfl)]
    exact ⟨_, rfl⟩

theorem defnOne_scope_incompatible (e : Envs) (fuel : Nat) (mm : Meta) (mws : List Word)
    (m : Meta) (k : List Obj) (acc : Option Obj × List Nat) :
    defnOne e fuel false (.defn mm mws) acc (.scope m k) = .error incompatibleErr := by
  unfold defnOne; rw [fetchDefn_nodiff]; rfl

theorem stepG_plain_named (F : FetchFn) (e : Envs) (fuel : Nat) (sm : Meta)
    (mkids combined : List Obj) (st : List Obj × List Nat) (idx : Nat) (mm : Meta) (mws : List Word)
    (hp : PlainMeta mm)
    (hsm : sm.name = []) (hsd : sm.disabled = false) (hname : mm.name ≠ []) (hdot : '.' ∉ mm.name)
    (hsc : ∀ m kids, Obj.scope m kids ∈ combined → m.name ≠ []) :
    stepG F e fuel false sm mkids combined st (idx, .defn mm mws) =
      defnFinish false (.defn mm mws) mm st.1
        ((activeNamed mm.name combined).foldlM (defnOne e fuel false (.defn mm mws)) (none, st.2)) := by
  have hmult : isMultiple (.defn mm mws) = false := hp.notMultiple
  unfold stepG
  simp only [hmult, Bool.not_false, if_true]
  rw [fetchMatching_named fuel sm combined (.defn mm mws) hsm hsd hname hdot hsc]
  rfl

theorem stepG_plain_ok_or_incompatible (F : FetchFn) (e : Envs) (fuel : Nat) (sm : Meta)
    (mkids combined : List Obj) (st : List Obj × List Nat) (idx : Nat) (mm : Meta) (mws : List Word)
    (hp : PlainMeta mm)
    (hsm : sm.name = []) (hsd : sm.disabled = false) (hname : mm.name ≠ []) (hdot : '.' ∉ mm.name)
    (hsc : ∀ m kids, Obj.scope m kids ∈ combined → m.name ≠ [])
    (hsrc : ∀ o ∈ combined, o.isDefn = true → SrcOK o) :
    (∃ r, stepG F e fuel false sm mkids combined st (idx, .defn mm mws) = .ok r) ∨
      stepG F e fuel false sm mkids combined st (idx, .defn mm mws) = .error incompatibleErr := by
  rw [stepG_plain_named F e fuel sm mkids combined st idx mm mws hp hsm hsd hname hdot hsc]
  rcases foldlM_ok_or_error (defnOne e fuel false (.defn mm mws)) incompatibleErr
      (activeNamed mm.name combined)
      (fun a ha b => defnOne_plain_ok_or_incompatible e fuel mm mws hp a
        (fun hd => hsrc a (mem_activeNamed.mp ha).1 hd) b)
      (none, st.2) with ⟨r, hr⟩ | hr
  · left
    rw [hr]
    obtain ⟨ro, u⟩ := r
    cases ro with
    | none => simp [defnFinish, hp.notDeprecated]
    | some ro => exact ⟨_, rfl⟩
  · right
    rw [hr]; rfl

theorem stepG_plain_clash (F : FetchFn) (e : Envs) (fuel : Nat) (sm : Meta)
    (mkids combined : List Obj) (st : List Obj × List Nat) (idx : Nat) (mm : Meta) (mws : List Word)
    (hp : PlainMeta mm)
    (hsm : sm.name = []) (hsd : sm.disabled = false) (hname : mm.name ≠ []) (hdot : '.' ∉ mm.name)
    (hsc : ∀ m kids, Obj.scope m kids ∈ combined → m.name ≠ [])
    (hsrc : ∀ o ∈ combined, o.isDefn = true → SrcOK o)
    (m : Meta) (k : List Obj) (hm : Obj.scope m k ∈ combined) (hmd : m.disabled = false)
    (hmn : m.name = mm.name) :
    stepG F e fuel false sm mkids combined st (idx, .defn mm mws) = .error incompatibleErr := by
  rw [stepG_plain_named F e fuel sm mkids combined st idx mm mws hp hsm hsd hname hdot hsc]
  rw [foldlM_error_of_mem (defnOne e fuel false (.defn mm mws)) incompatibleErr
      (activeNamed mm.name combined)
      (fun a ha b => defnOne_plain_ok_or_incompatible e fuel mm mws hp a
        (fun hd => hsrc a (mem_activeNamed.mp ha).1 hd) b)
      ⟨.scope m k, mem_activeNamed.mpr ⟨hm, hmd, hmn⟩,
        fun b => defnOne_scope_incompatible e fuel mm mws m k b⟩]
  rfl

/-- **clash.**  Flat master at the root: an enabled root-level source scope bearing the name of a
    master definition makes the fetch fail with `RuntimeError` ("incompatible"). -/
theorem fetch_flat_clash (e : Envs) (fuel : Nat) (sm : Meta) (mkids combined : List Obj)
    (hf : FlatMaster mkids) (hdot : ∀ mo ∈ mkids, '.' ∉ mo.name)
    (hsm : sm.name = []) (hsd : sm.disabled = false)
    (hsc : ∀ m kids, Obj.scope m kids ∈ combined → m.name ≠ [])
    (hsrc : ∀ o ∈ combined, o.isDefn = true → SrcOK o)
    (m : Meta) (k : List Obj) (hm : Obj.scope m k ∈ combined) (hmd : m.disabled = false)
    (hmn : m.name ∈ mkids.map Obj.name) :
    fetchScope e (fuel + 1) false sm mkids combined = .error incompatibleErr := by
  rw [fetchScope_succ, masterActive_flat mkids hf]
  simp only
  have hmemk : ∀ a ∈ indexed mkids, a.2 ∈ mkids := by
    intro a ha; rw [← indexed_map_snd mkids]; exact List.mem_map.mpr ⟨a, ha, rfl⟩
  rw [foldlM_error_of_mem _ incompatibleErr (indexed mkids)]
  · rfl
  · intro a ha st
    obtain ⟨mm, mws, hmo, hp, hname, _⟩ := hf.plain _ (hmemk a ha)
    obtain ⟨i, o⟩ := a
    simp only at hmo
    subst hmo
    exact stepG_plain_ok_or_incompatible _ e fuel sm mkids combined st i mm mws hp hsm hsd hname
      (hdot _ (hmemk _ ha)) hsc hsrc
  · obtain ⟨mo, hmo, hmon⟩ := List.mem_map.mp hmn
    obtain ⟨mm, mws, hmoe, hp, hname, _⟩ := hf.plain _ hmo
    subst hmoe
    have : ∃ a ∈ indexed mkids, a.2 = .defn mm mws := by
      have h2 : Obj.defn mm mws ∈ (indexed mkids).map (fun p => p.2) := by
        rw [indexed_map_snd]; exact hmo
      obtain ⟨a, ha, hae⟩ := List.mem_map.mp h2
      exact ⟨a, ha, hae⟩
    obtain ⟨⟨i, o⟩, ha, hae⟩ := this
    simp only at hae
    subst hae
    exact ⟨_, ha, fun st => stepG_plain_clash _ e fuel sm mkids combined st i mm mws hp hsm hsd hname
      (hdot _ hmo) hsc hsrc m k hm hmd hmon.symm⟩

/-- **C06 (consumed ids, exactly; success case).**  Flat master at the root (dot-free names),
    sources made of root-level definitions and named scopes, variable-free.  Whenever the fetch
    succeeds, the consumed ids are exactly the ids of the enabled root-level source definitions
    named like a master child. -/
theorem flat_used_exact (e : Envs) (fuel : Nat) (sm : Meta) (mkids combined : List Obj)
    (hf : FlatMaster mkids) (hdot : ∀ mo ∈ mkids, '.' ∉ mo.name)
    (hsm : sm.name = []) (hsd : sm.disabled = false)
    (hsc : ∀ m kids, Obj.scope m kids ∈ combined → m.name ≠ [])
    (hsrc : ∀ o ∈ combined, o.isDefn = true → SrcOK o)
    (hrefs : ∀ o ∈ combined, srcRefs o = [])
    (ro : Obj) (used : List Nat)
    (h : fetchScope e fuel false sm mkids combined = .ok (ro, used)) (i : Nat) :
    i ∈ used ↔ ∃ d ∈ combined, d.isDefn = true ∧ d.meta.disabled = false ∧ d.meta.id = some i ∧
      d.name ∈ mkids.map Obj.name := by
  refine flat_used_exact_of_mixed e fuel sm mkids combined hf hdot hsm hsd ⟨hsc, ?_⟩ hsrc hrefs ro used h i
  intro m kids hm hmd hmn
  cases fuel with
  | zero => cases h
  | succ fuel =>
    rw [fetch_flat_clash e fuel sm mkids combined hf hdot hsm hsd hsc hsrc m kids hm hmd hmn] at h
    cases h


/-! ### the unused list, exactly -/

mutual
theorem allDefsObj_prefix : ∀ (o : Obj) (p : Str) (x : Str × Meta × List Word),
    x ∈ allDefsObj o p → ∃ rest, x.1 = p ++ rest
  | .defn m ws, p, x, h => by
    rw [allDefsObj] at h
    split at h
    · cases h
    · simp only [List.mem_singleton] at h
      subst h
      exact ⟨m.name, rfl⟩
  | .scope m os, p, x, h => by
    rw [allDefsObj] at h
    obtain ⟨r, hr⟩ := allDefsList_prefix os _ x h
    exact ⟨m.name ++ ['.'] ++ r, by rw [hr]; simp⟩
theorem allDefsList_prefix : ∀ (l : List Obj) (p : Str) (x : Str × Meta × List Word),
    x ∈ allDefsObj.allDefsList l p → ∃ rest, x.1 = p ++ rest
  | [], p, x, h => by rw [allDefsObj.allDefsList] at h; cases h
  | o :: os, p, x, h => by
    rw [allDefsObj.allDefsList, List.mem_append] at h
    rcases h with h | h
    · split at h
      · cases h
      · exact allDefsObj_prefix o p x h
    · exact allDefsList_prefix os p x h
end

/-- an entry of `all_definitions` is a root-level definition or lies below a root-level scope -/
theorem mem_allDefsList_cases {x : Str × Meta × List Word} :
    ∀ (l : List Obj) (p : Str), x ∈ allDefsObj.allDefsList l p →
      (∃ m ws, Obj.defn m ws ∈ l ∧ m.disabled = false ∧ x = (p ++ m.name, m, ws)) ∨
      (∃ m kids, Obj.scope m kids ∈ l ∧ m.disabled = false ∧
        x ∈ allDefsObj.allDefsList kids (p ++ m.name ++ ['.'])) := by
  intro l
  induction l with
  | nil => intro p h; rw [allDefsObj.allDefsList] at h; cases h
  | cons o os ih =>
    intro p h
    rw [allDefsObj.allDefsList, List.mem_append] at h
    rcases h with h | h
    · cases hd : o.meta.disabled with
      | true => simp [hd] at h
      | false =>
        simp only [hd, Bool.false_eq_true, if_false] at h
        cases o with
        | defn m ws =>
          rw [allDefsObj] at h
          split at h
          · cases h
          · simp only [List.mem_singleton] at h
            exact .inl ⟨m, ws, List.mem_cons_self, hd, h⟩
        | scope m kids =>
          rw [allDefsObj] at h
          exact .inr ⟨m, kids, List.mem_cons_self, hd, h⟩
    · rcases ih p h with ⟨m, ws, hm, hd, hx⟩ | ⟨m, kids, hm, hd, hx⟩
      · exact .inl ⟨m, ws, List.mem_cons_of_mem _ hm, hd, hx⟩
      · exact .inr ⟨m, kids, List.mem_cons_of_mem _ hm, hd, hx⟩

/-- a dot-free path in `all_definitions` belongs to an enabled root-level definition -/
theorem mem_allDefinitions_dotfree {x : Str × Meta × List Word} {l : List Obj}
    (h : x ∈ allDefinitions l) (hdot : '.' ∉ x.1) :
    ∃ m ws, Obj.defn m ws ∈ l ∧ m.disabled = false ∧ x = (m.name, m, ws) := by
  rcases mem_allDefsList_cases l [] h with ⟨m, ws, hm, hd, hx⟩ | ⟨m, kids, hm, hd, hx⟩
  · exact ⟨m, ws, hm, hd, by simpa using hx⟩
  · exfalso
    obtain ⟨r, hr⟩ := allDefsList_prefix kids _ x hx
    apply hdot
    rw [hr]
    simp

theorem mem_allDefinitions_root {l : List Obj} {m : Meta} {ws : List Word}
    (hm : Obj.defn m ws ∈ l) (hd : m.disabled = false) (hinc : m.name ≠ "include".toList) :
    (m.name, m, ws) ∈ allDefinitions l := by
  refine mem_allDefsList_of_mem l [] _ hm hd ?_
  rw [allDefsObj]
  have : (m.name == "include".toList) = false := beq_eq_false_iff_ne.mpr hinc
  rw [this]
  simp

theorem eq_of_nodup_map {α β : Type} (f : α → β) : ∀ (l : List α), (l.map f).Nodup →
    ∀ x ∈ l, ∀ y ∈ l, f x = f y → x = y := by
  intro l
  induction l with
  | nil => intro _ x hx; cases hx
  | cons a l ih =>
    intro hn x hx y hy hxy
    rw [List.map_cons, List.nodup_cons] at hn
    rw [List.mem_cons] at hx hy
    rcases hx with rfl | hx <;> rcases hy with rfl | hy
    · rfl
    · exact absurd (hxy ▸ List.mem_map.mpr ⟨y, hy, rfl⟩) hn.1
    · exact absurd (hxy ▸ List.mem_map.mpr ⟨x, hx, rfl⟩) hn.1
    · exact ih hn.2 x hx y hy hxy

/-- the filter the driver applies to `all_definitions(sources)`: keep what was not consumed -/
def notConsumed (used : List Nat) (x : Str × Meta × List Word) : Bool :=
  match x.2.1.id with
  | some i => !used.contains i
  | none => true

/-- **C06 (unused list, exactly), generic part.**  If the consumed ids are the ids of the enabled
    root-level definitions whose name is one of the dot-free `names`, and the definitions listed by
    `all_definitions` carry pairwise distinct ids, then "not consumed" and "path not in `names`"
    select the same entries of `all_definitions`. -/
theorem unused_filter_exact (names : List Str) (combined : List Obj) (used : List Nat)
    (hdot : ∀ n ∈ names, '.' ∉ n) (hinc : "include".toList ∉ names)
    (hsome : ∀ x ∈ allDefinitions combined, x.2.1.id ≠ none)
    (hids : ((allDefinitions combined).map (fun x => x.2.1.id)).Nodup)
    (hused : ∀ i, i ∈ used ↔ ∃ d ∈ combined, d.isDefn = true ∧ d.meta.disabled = false ∧
      d.meta.id = some i ∧ d.name ∈ names) :
    (allDefinitions combined).filter (notConsumed used) =
      (allDefinitions combined).filter (fun x => !names.contains x.1) := by
  apply List.filter_congr
  intro x hx
  cases hid : x.2.1.id with
  | none => exact absurd hid (hsome x hx)
  | some j =>
    have key : j ∈ used ↔ x.1 ∈ names := by
      rw [hused]
      constructor
      · rintro ⟨d, hd, hdd, hdis, hdi, hdn⟩
        cases d with
        | scope m k => cases hdd
        | defn m ws =>
          have hne : m.name ≠ "include".toList := fun h => hinc (h ▸ hdn)
          have hy := mem_allDefinitions_root hd hdis hne
          have := eq_of_nodup_map _ _ hids x hx _ hy (by rw [hid]; exact hdi.symm)
          rw [this]; exact hdn
      · intro hn
        obtain ⟨m, ws, hm, hd, hxe⟩ := mem_allDefinitions_dotfree hx (hdot _ hn)
        subst hxe
        exact ⟨.defn m ws, hm, rfl, hd, hid, hn⟩
    unfold notConsumed
    rw [hid]
    simp only [List.contains_eq_mem]
    by_cases hj : j ∈ used
    · have := key.mp hj; simp [hj, this]
    · have := mt key.mpr hj; simp [hj, this]

/-- **C06 (unused list, exactly).**  Flat master at the root (dot-free names, none called
    `include`), sources made of root-level definitions and named scopes (of any content),
    variable-free, the definitions listed by `all_definitions(sources)` carrying pairwise distinct
    ids.  Whenever the fetch succeeds, the entries of `all_definitions(sources)` that were not
    consumed are exactly those whose full path is not the name of a master parameter. -/
theorem flat_unused_exact (e : Envs) (fuel : Nat) (sm : Meta) (mkids combined : List Obj)
    (hf : FlatMaster mkids) (hdot : ∀ mo ∈ mkids, '.' ∉ mo.name)
    (hinc : "include".toList ∉ mkids.map Obj.name)
    (hsm : sm.name = []) (hsd : sm.disabled = false)
    (hsc : ∀ m kids, Obj.scope m kids ∈ combined → m.name ≠ [])
    (hsrc : ∀ o ∈ combined, o.isDefn = true → SrcOK o)
    (hrefs : ∀ o ∈ combined, srcRefs o = [])
    (hsome : ∀ x ∈ allDefinitions combined, x.2.1.id ≠ none)
    (hids : ((allDefinitions combined).map (fun x => x.2.1.id)).Nodup)
    (ro : Obj) (used : List Nat)
    (h : fetchScope e fuel false sm mkids combined = .ok (ro, used)) :
    (allDefinitions combined).filter (notConsumed used) =
      (allDefinitions combined).filter (fun x => !(mkids.map Obj.name).contains x.1) :=
  unused_filter_exact (mkids.map Obj.name) combined used
    (by intro n hn; obtain ⟨mo, hmo, rfl⟩ := List.mem_map.mp hn; exact hdot mo hmo)
    hinc hsome hids
    (flat_used_exact e fuel sm mkids combined hf hdot hsm hsd hsc hsrc hrefs ro used h)

/-! ## B. flat masters with `.multiple` definitions: the list rule (C05) -/

/-- of the entries with equal keys keep only the last one (the survivors keep their order, i.e. are
    ordered by the position of their last occurrence) -/
def dedupKeepLast {α : Type} : List (α × Str) → List (α × Str)
  | [] => []
  | x :: xs => if xs.any (fun y => y.2 == x.2) then dedupKeepLast xs else x :: dedupKeepLast xs

theorem dedupKeepLast_snoc {α : Type} (x : α × Str) : ∀ (l : List (α × Str)),
    dedupKeepLast (l ++ [x]) = (dedupKeepLast l).filter (fun y => y.2 != x.2) ++ [x] := by
  intro l
  induction l with
  | nil => simp [dedupKeepLast]
  | cons a l ih =>
    rw [List.cons_append, dedupKeepLast, dedupKeepLast, List.any_append]
    cases hany : l.any (fun y => y.2 == a.2) with
    | true => simp only [Bool.true_or, if_true]; exact ih
    | false =>
      simp only [Bool.false_or, List.any_cons, List.any_nil, Bool.or_false, Bool.false_eq_true, if_false]
      cases hxa : x.2 == a.2 with
      | true =>
        have : (a.2 != x.2) = false := by
          have := beq_iff_eq.mp hxa; simp [this]
        simp only [if_true, List.filter_cons, this, Bool.false_eq_true, if_false]
        exact ih
      | false =>
        have : (a.2 != x.2) = true := by
          have := beq_eq_false_iff_ne.mp hxa
          simpa using fun h => this h.symm
        simp only [Bool.false_eq_true, if_false, List.filter_cons, this, if_true, List.cons_append, ih]

/-- the left-to-right form of the rule: a candidate whose key is the master's is dropped; any other
    one replaces the earlier survivor with the same key and goes to the end -/
def accStep {α : Type} (k0 : Str) (A : List (α × Str)) (x : α × Str) : List (α × Str) :=
  if x.2 == k0 then A else A.filter (fun y => y.2 != x.2) ++ [x]

theorem foldl_accStep {α : Type} (k0 : Str) : ∀ (cks pre : List (α × Str)),
    cks.foldl (accStep k0) (dedupKeepLast (pre.filter (fun y => y.2 != k0))) =
      dedupKeepLast ((pre ++ cks).filter (fun y => y.2 != k0)) := by
  intro cks
  induction cks with
  | nil => intro pre; simp
  | cons x cks ih =>
    intro pre
    rw [List.foldl_cons]
    have hstep : accStep k0 (dedupKeepLast (pre.filter (fun y => y.2 != k0))) x =
        dedupKeepLast ((pre ++ [x]).filter (fun y => y.2 != k0)) := by
      unfold accStep
      rw [List.filter_append]
      cases hk : x.2 == k0 with
      | true =>
        have : (x.2 != k0) = false := by simp [bne, hk]
        simp [this]
      | false =>
        have : (x.2 != k0) = true := by simp [bne, hk]
        simp only [Bool.false_eq_true, if_false, List.filter_cons, this, if_true, List.filter_nil]
        rw [dedupKeepLast_snoc]
    rw [hstep, ih (pre ++ [x])]
    simp

theorem foldl_accStep_nil {α : Type} (k0 : Str) (cks : List (α × Str)) :
    cks.foldl (accStep k0) [] = dedupKeepLast (cks.filter (fun y => y.2 != k0)) := by
  have := foldl_accStep k0 cks []
  simpa [dedupKeepLast] using this

/-- the `some` entries of the candidate list with their positions -/
def someIdx : List (Option Obj) → Nat → List (Obj × Nat)
  | [], _ => []
  | none :: r, s => someIdx r (s + 1)
  | some c :: r, s => (c, s) :: someIdx r (s + 1)

theorem someIdx_fst : ∀ (r : List (Option Obj)) (s : Nat),
    (someIdx r s).map (·.1) = r.filterMap (fun (x : Option Obj) => x) := by
  intro r
  induction r with
  | nil => intro s; rfl
  | cons a r ih =>
    intro s
    cases a with
    | none => rw [someIdx, ih]; simp
    | some c => rw [someIdx, List.map_cons, ih]; simp

theorem someIdx_append : ∀ (r r' : List (Option Obj)) (s : Nat),
    someIdx (r ++ r') s = someIdx r s ++ someIdx r' (s + r.length) := by
  intro r
  induction r with
  | nil => intro r' s; simp [someIdx]
  | cons a r ih =>
    intro r' s
    cases a with
    | none =>
      rw [List.cons_append, someIdx, someIdx, ih]
      simp only [List.length_cons]
      rw [show s + 1 + r.length = s + (r.length + 1) by omega]
    | some c =>
      rw [List.cons_append, someIdx, someIdx, ih]
      simp only [List.length_cons, List.cons_append]
      rw [show s + 1 + r.length = s + (r.length + 1) by omega]

theorem someIdx_bounds : ∀ (r : List (Option Obj)) (s : Nat) (a : Obj × Nat),
    a ∈ someIdx r s → s ≤ a.2 ∧ a.2 < s + r.length := by
  intro r
  induction r with
  | nil => intro s a h; cases h
  | cons x r ih =>
    intro s a h
    cases x with
    | none =>
      rw [someIdx] at h
      have := ih (s + 1) a h
      simp only [List.length_cons]; omega
    | some c =>
      rw [someIdx, List.mem_cons] at h
      rcases h with rfl | h
      · simp only [List.length_cons]; omega
      · have := ih (s + 1) a h
        simp only [List.length_cons]; omega

theorem someIdx_pairwise : ∀ (r : List (Option Obj)) (s : Nat),
    (someIdx r s).Pairwise (fun a b => a.2 ≠ b.2) := by
  intro r
  induction r with
  | nil => intro s; simp [someIdx]
  | cons x r ih =>
    intro s
    cases x with
    | none => rw [someIdx]; exact ih (s + 1)
    | some c =>
      rw [someIdx, List.pairwise_cons]
      refine ⟨?_, ih (s + 1)⟩
      intro b hb
      have := someIdx_bounds r (s + 1) b hb
      simp only; omega

/-- blanking position `j` removes the entry at `j` -/
theorem someIdx_null (j : Nat) : ∀ (r : List (Option Obj)) (s : Nat),
    someIdx ((r.zipIdx s).map (fun (xi : Option Obj × Nat) => if (xi.2 : Int) == (j : Int) then none else xi.1)) s =
      (someIdx r s).filter (fun a => a.2 != j) := by
  intro r
  induction r with
  | nil => intro s; rfl
  | cons x r ih =>
    intro s
    rw [List.zipIdx_cons, List.map_cons]
    cases x with
    | none =>
      simp only [ite_self]
      rw [someIdx, someIdx, ih]
    | some c =>
      by_cases hsj : s = j
      · subst hsj
        simp only [BEq.rfl, if_true]
        rw [someIdx, someIdx, ih, List.filter_cons]
        simp
      · have h1 : ((s : Int) == (j : Int)) = false := by
          rw [beq_eq_false_iff_ne]; intro h; exact hsj (by omega)
        have h2 : (s != j) = true := by simpa using hsj
        simp only [h1, Bool.false_eq_true, if_false]
        rw [someIdx, someIdx, ih, List.filter_cons]
        simp [h2]

/-- the invariant of the candidate loop (non-diff, no master candidates): `T` lists the survivors
    `(candidate, key, position in robjs)` in order -/
structure MInv (robjs : List (Option Obj)) (processed : List (Str × Int)) (T : List (Obj × Str × Nat)) : Prop where
  proc : processed = T.map (fun t => (t.2.1, (t.2.2 : Int)))
  idx : someIdx robjs 0 = T.map (fun t => (t.1, t.2.2))
  keys : (T.map (fun t => t.2.1)).Pairwise (· ≠ ·)

theorem MInv.nil : MInv [] [] [] := ⟨rfl, rfl, by simp⟩

theorem pairwise_map_eq {α β : Type} (f : α → β) : ∀ (l : List α), (l.map f).Pairwise (· ≠ ·) →
    ∀ x ∈ l, ∀ y ∈ l, f x = f y → x = y := by
  intro l
  induction l with
  | nil => intro _ x hx; cases hx
  | cons a l ih =>
    intro hn x hx y hy hxy
    rw [List.map_cons, List.pairwise_cons] at hn
    rw [List.mem_cons] at hx hy
    rcases hx with rfl | hx <;> rcases hy with rfl | hy
    · rfl
    · exact absurd hxy (hn.1 _ (List.mem_map.mpr ⟨y, hy, rfl⟩))
    · exact absurd hxy.symm (hn.1 _ (List.mem_map.mpr ⟨x, hx, rfl⟩))
    · exact ih hn.2 x hx y hy hxy

theorem MInv.idx_inj {robjs processed T} (h : MInv robjs processed T) :
    ∀ x ∈ T, ∀ y ∈ T, x.2.2 = y.2.2 → x = y := by
  have hp := someIdx_pairwise robjs 0
  rw [h.idx] at hp
  have hp' : (T.map (fun t => t.2.2)).Pairwise (· ≠ ·) := by
    rw [List.pairwise_map] at hp ⊢
    exact hp
  exact pairwise_map_eq _ T hp'

theorem MInv.idx_lt {robjs processed T} (h : MInv robjs processed T) : ∀ x ∈ T, x.2.2 < robjs.length := by
  intro x hx
  have : (x.1, x.2.2) ∈ someIdx robjs 0 := by rw [h.idx]; exact List.mem_map.mpr ⟨x, hx, rfl⟩
  have := someIdx_bounds robjs 0 _ this
  simpa using this.2

/-- one accepted candidate (key different from the master's) -/
theorem cAccept_nodiff (k : Str) (c : Obj) (u : List Nat) (robjs : List (Option Obj))
    (processed : List (Str × Int)) (used : List Nat) (T : List (Obj × Str × Nat))
    (hinv : MInv robjs processed T) :
    ∃ robjs' processed', cAccept false false k c u robjs processed used = .ok (robjs', processed', used ++ u) ∧
      MInv robjs' processed' (T.filter (fun t => t.2.1 != k) ++ [(c, k, robjs.length)]) := by
  -- the state after blanking the earlier survivor with key `k`, if any
  have hmain : ∀ (robjs1 : List (Option Obj)), robjs1.length = robjs.length →
      someIdx robjs1 0 = (T.filter (fun t => t.2.1 != k)).map (fun t => (t.1, t.2.2)) →
      MInv (robjs1 ++ [some c])
        (processed.filter (fun (p : Str × Int) => p.1 != k) ++ [(k, (robjs1.length : Int))])
        (T.filter (fun t => t.2.1 != k) ++ [(c, k, robjs.length)]) := by
    intro robjs1 hlen hidx
    refine ⟨?_, ?_, ?_⟩
    · rw [hinv.proc, List.filter_map, List.map_append, hlen]
      rfl
    · rw [someIdx_append, hidx, List.map_append, hlen]
      simp [someIdx]
    · rw [List.map_append, List.pairwise_append]
      refine ⟨?_, by simp, ?_⟩
      · exact (hinv.keys.sublist ((List.filter_sublist).map _))
      · intro a ha b hb
        simp only [List.map_cons, List.map_nil, List.mem_singleton] at hb
        subst hb
        obtain ⟨t, ht, rfl⟩ := List.mem_map.mp ha
        have := (List.mem_filter.mp ht).2
        simpa using this
  unfold cAccept
  simp only
  cases hprev : processed.find? (fun (p : Str × Int) => p.1 == k) with
  | none =>
    simp only [Bool.false_eq_true, if_false, Bool.and_self]
    refine ⟨_, _, rfl, hmain robjs rfl ?_⟩
    have hall : ∀ t ∈ T, (t.2.1 != k) = true := by
      intro t ht
      have := List.find?_eq_none.mp hprev (t.2.1, (t.2.2 : Int))
        (by rw [hinv.proc]; exact List.mem_map.mpr ⟨t, ht, rfl⟩)
      simpa [bne] using this
    rw [List.filter_eq_self.mpr hall]
    exact hinv.idx
  | some p =>
    have hpm := List.mem_of_find?_eq_some hprev
    have hpk := List.find?_some hprev
    rw [hinv.proc] at hpm
    obtain ⟨t0, ht0, hpe⟩ := List.mem_map.mp hpm
    subst hpe
    have hk0 : t0.2.1 = k := by simpa using hpk
    have hne : (((t0.2.2 : Nat) : Int) == -1) = false := by
      rw [beq_eq_false_iff_ne]; omega
    simp only [hne, Bool.false_eq_true, if_false, Bool.and_self]
    refine ⟨_, _, rfl, hmain _ (by simp) ?_⟩
    rw [someIdx_null, hinv.idx, List.filter_map]
    congr 1
    apply List.filter_congr
    intro t ht
    show ((t.2.2 != t0.2.2) = (t.2.1 != k))
    by_cases htk : t.2.1 = k
    · have : t = t0 := pairwise_map_eq _ T hinv.keys t ht t0 ht0 (htk.trans hk0.symm)
      subst this
      rw [htk, bne_self_eq_false, bne_self_eq_false]
    · have : t.2.2 ≠ t0.2.2 := fun h => htk ((hinv.idx_inj t ht t0 ht0 h) ▸ hk0)
      rw [bne_iff_ne.mpr this, bne_iff_ne.mpr htk]

/-- what is known about one matching source `ms` of the `.multiple` master definition `mo`: the
    candidate `fetch_value` builds and its key `master.extract_format(candidate).as_str()` -/
def CandLink (e : Envs) (fuel : Nat) (mo : Obj) (ms : Obj) (ck : Obj × Str) : Prop :=
  fetchValue mo ms = .ok (some ck.1) ∧ extractFormatStr e (fuel + 64) mo ck.1 = .ok ck.2

theorem candOf_defn_nodiff (F : FetchFn) (e : Envs) (fuel : Nat) (mm : Meta) (mws : List Word) (ms : Obj) :
    candOf F e fuel false (.defn mm mws) false ms =
      (fetchValue (.defn mm mws) ms).map (fun ro => (ro, marksOf ms)) := by
  unfold candOf
  simp only [fetchDefn_nodiff]
  congr 1

theorem cstepG_link (F : FetchFn) (e : Envs) (fuel : Nat) (mm : Meta) (mws : List Word) (k0 : Str)
    (ms : Obj) (ck : Obj × Str) (hl : CandLink e fuel (.defn mm mws) ms ck)
    (robjs : List (Option Obj)) (processed : List (Str × Int)) (used : List Nat) :
    cstepG F e fuel false (.defn mm mws) k0 (robjs, processed, used) (false, ms) =
      if ck.2 == k0 then .ok (robjs, processed, used ++ marksOf ms)
      else cAccept false false ck.2 ck.1 (marksOf ms) robjs processed used := by
  unfold cstepG
  simp only [candOf_defn_nodiff, hl.1, Except.map, hl.2]

/-- the survivors with their keys -/
def survOf (T : List (Obj × Str × Nat)) : List (Obj × Str) := T.map (fun t => (t.1, t.2.1))

theorem survOf_filter (T : List (Obj × Str × Nat)) (k : Str) :
    survOf (T.filter (fun t => t.2.1 != k)) = (survOf T).filter (fun y => y.2 != k) := by
  unfold survOf
  rw [List.filter_map]
  rfl

theorem multi_fold (F : FetchFn) (e : Envs) (fuel : Nat) (mm : Meta) (mws : List Word) (k0 : Str) :
    ∀ (M : List Obj) (cks : List (Obj × Str)), Forall2 (CandLink e fuel (.defn mm mws)) M cks →
    ∀ (robjs : List (Option Obj)) (processed : List (Str × Int)) (used : List Nat)
      (T : List (Obj × Str × Nat)), MInv robjs processed T →
    ∃ robjs' processed' T',
      (M.map (fun (o : Obj) => (false, o))).foldlM (cstepG F e fuel false (.defn mm mws) k0)
        (robjs, processed, used) = .ok (robjs', processed', used ++ M.flatMap marksOf) ∧
      MInv robjs' processed' T' ∧ survOf T' = cks.foldl (accStep k0) (survOf T) := by
  intro M cks h
  induction h with
  | nil =>
    intro robjs processed used T hinv
    exact ⟨robjs, processed, T, by simp; rfl, hinv, rfl⟩
  | @cons ms ck M cks hl _ ih =>
    intro robjs processed used T hinv
    rw [List.map_cons, List.foldlM_cons, cstepG_link F e fuel mm mws k0 ms ck hl, List.foldl_cons]
    cases hk : ck.2 == k0 with
    | true =>
      simp only [if_true]
      obtain ⟨r', p', T', hf, hi, hs⟩ := ih robjs processed (used ++ marksOf ms) T hinv
      refine ⟨r', p', T', ?_, hi, ?_⟩
      · show List.foldlM _ _ _ = _
        rw [hf]; simp
      · rw [hs]; unfold accStep; simp [hk]
    | false =>
      simp only [Bool.false_eq_true, if_false]
      obtain ⟨r1, p1, hacc, hinv1⟩ := cAccept_nodiff ck.2 ck.1 (marksOf ms) robjs processed used T hinv
      rw [hacc]
      obtain ⟨r', p', T', hf, hi, hs⟩ := ih r1 p1 (used ++ marksOf ms) _ hinv1
      refine ⟨r', p', T', ?_, hi, ?_⟩
      · show List.foldlM _ _ _ = _
        rw [hf]; simp
      · rw [hs]
        congr 1
        unfold accStep
        simp only [hk, Bool.false_eq_true, if_false]
        unfold survOf
        rw [List.map_append, ← survOf.eq_1, survOf_filter]
        rfl

/-- the template flag of a `.multiple` block -/
def multiTmpl (mo : Obj) (noSurvivors : Bool) : Int :=
  if (mo.attr "optional").mandatory then 0 else if noSurvivors then 1 else -1

/-- **the list rule**: the block a `.multiple` master definition contributes to the result, given
    the master's key `k0` and the candidates with their keys `cks` in source order — the template
    (flag `0` if the definition is mandatory, else `1` if nothing survives, else `-1`) followed by
    the survivors: candidates with the master's key are dropped, of candidates with equal keys
    only the last one stays, in the order of those last occurrences -/
def multiBlock (mo : Obj) (k0 : Str) (cks : List (Obj × Str)) : List Obj :=
  withTmpl mo (multiTmpl mo (dedupKeepLast (cks.filter (fun y => y.2 != k0))).isEmpty) ::
    (dedupKeepLast (cks.filter (fun y => y.2 != k0))).map (·.1)

theorem multiBranch_link (F : FetchFn) (e : Envs) (fuel : Nat) (mkids : List Obj) (idx : Nat)
    (mm : Meta) (mws : List Word) (k0 : Str) (M : List Obj) (cks : List (Obj × Str))
    (out : List Obj) (used : List Nat)
    (hfm : fromMasterOf mkids idx (.defn mm mws) = [])
    (hk0 : extractFormatStr e (fuel + 64) (.defn mm mws) (.defn mm mws) = .ok k0)
    (hl : Forall2 (CandLink e fuel (.defn mm mws)) M cks) :
    multiBranch F e fuel false mkids idx (.defn mm mws) M out used =
      .ok (out ++ multiBlock (.defn mm mws) k0 cks, used ++ M.flatMap marksOf) := by
  unfold multiBranch
  rw [masterKeyG_defn, hk0, hfm, List.nil_append]
  simp only
  obtain ⟨r', p', T', hf, hi, hs⟩ := multi_fold F e fuel mm mws k0 M cks hl [] [] used [] MInv.nil
  rw [hf]
  simp only
  have hs' : survOf T' = dedupKeepLast (cks.filter (fun y => y.2 != k0)) := by
    rw [hs]; exact foldl_accStep_nil k0 cks
  have h1 : r'.filterMap (fun (x : Option Obj) => x) = (dedupKeepLast (cks.filter (fun y => y.2 != k0))).map (·.1) := by
    rw [← someIdx_fst r' 0, hi.idx, ← hs']
    unfold survOf
    simp [List.map_map]
  have h2 : p'.isEmpty = (dedupKeepLast (cks.filter (fun y => y.2 != k0))).isEmpty := by
    rw [← hs', hi.proc]
    unfold survOf
    cases T' <;> rfl
  rw [h1, tmplObjsOf_defn]
  unfold multiBlock multiTmpl
  simp only [Bool.false_eq_true, if_false, h2, List.append_assoc, List.singleton_append]

/-- **C05 (one `.multiple` master child).**  The step of the master loop for a `.multiple` master
    definition without further master occurrences of its name appends `multiBlock` and marks every
    matching source (`marksOf`). -/
theorem multi_step (F : FetchFn) (e : Envs) (fuel : Nat) (sm : Meta) (mkids combined : List Obj)
    (st : List Obj × List Nat) (idx : Nat) (mm : Meta) (mws : List Word) (k0 : Str)
    (cks : List (Obj × Str))
    (hmult : isMultiple (.defn mm mws) = true)
    (hfm : fromMasterOf mkids idx (.defn mm mws) = [])
    (hk0 : extractFormatStr e (fuel + 64) (.defn mm mws) (.defn mm mws) = .ok k0)
    (hl : Forall2 (CandLink e fuel (.defn mm mws)) (fetchMatching fuel sm combined (.defn mm mws)) cks) :
    stepG F e fuel false sm mkids combined st (idx, .defn mm mws) =
      .ok (st.1 ++ multiBlock (.defn mm mws) k0 cks,
           st.2 ++ (fetchMatching fuel sm combined (.defn mm mws)).flatMap marksOf) := by
  unfold stepG
  simp only [hmult, Bool.not_true, Bool.false_eq_true, if_false]
  exact multiBranch_link F e fuel mkids idx mm mws k0 _ cks st.1 st.2 hfm hk0 hl

/-! ### the whole result for flat masters with `.multiple` definitions -/

/-- a master definition fit for the flat analysis (`.multiple` or not): not `.deprecated`, not a
    choice -/
structure DefnMeta (mm : Meta) : Prop where
  notDeprecated : (mm.attrs.get "deprecated").truthy = false
  notChoice : ∀ b, mm.attrs.get "type" ≠ .conv (.choice b)

theorem DefnMeta.plain {mm : Meta} (h : DefnMeta mm) (hm : (mm.attrs.get "multiple").truthy = false) :
    PlainMeta mm := ⟨hm, h.notDeprecated, h.notChoice⟩

theorem fetchValue_defnMeta (mm : Meta) (mws : List Word) (sm : Meta) (sws : List Word)
    (hp : DefnMeta mm) (hok : SrcOK (.defn sm sws)) :
    fetchValue (.defn mm mws) (.defn sm sws) =
      .ok (some (.defn { mm with tmpl := 0 } (Obj.defn sm sws).srcWords)) := by
  rw [fetchValue_defn, srcWordsR_ok sm sws hok]
  simp only [fetchValueW, hp.notDeprecated, Bool.false_and, Bool.false_eq_true, if_false]
  split
  · rename_i b hb
    exact absurd hb (hp.notChoice b)
  · rfl

/-- a flat master whose definitions may be `.multiple`: enabled definitions with non-empty,
    pairwise distinct names (so no master definition has further master occurrences), not
    `.deprecated`, not choices -/
structure FlatMultiMaster (mkids : List Obj) : Prop where
  defn : ∀ mo ∈ mkids, ∃ mm mws, mo = .defn mm mws ∧ DefnMeta mm ∧ mm.name ≠ [] ∧ mm.disabled = false
  distinct : (mkids.map Obj.name).Pairwise (· ≠ ·)

theorem FlatMaster.toMulti {mkids : List Obj} (h : FlatMaster mkids) : FlatMultiMaster mkids where
  defn := fun mo hmo => by
    obtain ⟨mm, mws, h1, hp, h3, h4⟩ := h.plain mo hmo
    exact ⟨mm, mws, h1, ⟨hp.notDeprecated, hp.notChoice⟩, h3, h4⟩
  distinct := h.distinct

theorem masterActive_flatMulti (mkids : List Obj) (hf : FlatMultiMaster mkids) :
    masterActiveObjects mkids = .ok (indexed mkids) := by
  have hsnd := indexed_map_snd mkids
  show masterActiveObjects.go (indexed mkids) [] [] = _
  rw [masterActive_go_all (indexed mkids) [] []]
  · simp
  · intro p hp
    have : p.2 ∈ mkids := by rw [← hsnd]; exact List.mem_map.mpr ⟨p, hp, rfl⟩
    obtain ⟨mm, mws, hmo, _, _, hd⟩ := hf.defn _ this
    rw [hmo]; exact hd
  · rw [map_snd_comp Obj.name, hsnd]; exact hf.distinct
  · intro p _ q hq; cases hq

theorem pairwise_getElem?_inj {α β : Type} (f : α → β) (l : List α) (hp : (l.map f).Pairwise (· ≠ ·))
    {i j : Nat} {a b : α} (hi : l[i]? = some a) (hj : l[j]? = some b) (hab : f a = f b) : i = j := by
  rw [List.pairwise_iff_getElem] at hp
  obtain ⟨hi', hia⟩ := List.getElem?_eq_some_iff.mp hi
  obtain ⟨hj', hjb⟩ := List.getElem?_eq_some_iff.mp hj
  rcases Nat.lt_trichotomy i j with h | h | h
  · exfalso
    have := hp i j (by simpa using hi') (by simpa using hj') h
    simp only [List.getElem_map, hia, hjb] at this
    exact this hab
  · exact h
  · exfalso
    have := hp j i (by simpa using hj') (by simpa using hi') h
    simp only [List.getElem_map, hia, hjb] at this
    exact this hab.symm

theorem fromMasterOf_nil (mkids : List Obj) (hd : (mkids.map Obj.name).Pairwise (· ≠ ·))
    (idx : Nat) (mo : Obj) (hmem : (idx, mo) ∈ indexed mkids) : fromMasterOf mkids idx mo = [] := by
  unfold fromMasterOf
  rw [List.map_eq_nil_iff, List.filter_eq_nil_iff]
  intro p hp hpred
  obtain ⟨o, j⟩ := p
  have hj : mkids[j]? = some o := List.mk_mem_zipIdx_iff_getElem?.mp hp
  have hi : mkids[idx]? = some mo := mem_indexed.mp hmem
  simp only [Bool.and_eq_true, Bool.not_eq_true', beq_iff_eq, bne_iff_ne, ne_eq] at hpred
  exact hpred.2 (pairwise_getElem?_inj Obj.name mkids hd hj hi hpred.1.2)

/-- the candidate `fetch_value` builds from the source definition `d` for the master definition `mo` -/
def candOfSrc (mo d : Obj) : Obj := .defn { mo.meta with tmpl := 0 } d.srcWords

/-- `master.extract_format(candidate).as_str()` as a total function (`[]` where it fails) -/
def keyOf (e : Envs) (fuel : Nat) (mo c : Obj) : Str :=
  match extractFormatStr e (fuel + 64) mo c with
  | .ok s => s
  | .error _ => []

/-- the candidates of `mo` with their keys, in source order -/
def candsOf (e : Envs) (fuel : Nat) (mo : Obj) (l : List Obj) : List (Obj × Str) :=
  l.map (fun d => (candOfSrc mo d, keyOf e fuel mo (candOfSrc mo d)))

/-- the keys the list rule compares are defined: the master's and those of the candidates -/
def KeysDefined (e : Envs) (fuel : Nat) (mo : Obj) (l : List Obj) : Prop :=
  (∃ k, extractFormatStr e (fuel + 64) mo mo = .ok k) ∧
  ∀ d ∈ l, ∃ k, extractFormatStr e (fuel + 64) mo (candOfSrc mo d) = .ok k

theorem keyOf_ok {e : Envs} {fuel : Nat} {mo c : Obj} {k : Str}
    (h : extractFormatStr e (fuel + 64) mo c = .ok k) : keyOf e fuel mo c = k := by
  unfold keyOf; rw [h]

/-- the block the master child `mo` contributes to the result, sources `D` -/
def blockOf (e : Envs) (fuel : Nat) (D : List Obj) (mo : Obj) : List Obj :=
  if isMultiple mo then multiBlock mo (keyOf e fuel mo mo) (candsOf e fuel mo (activeNamed mo.name D))
  else [lastWins mo (activeNamed mo.name D)]

theorem forall2_map {α β : Type} (Q : α → β → Prop) (f : α → β) : ∀ (l : List α),
    (∀ a ∈ l, Q a (f a)) → Forall2 Q l (l.map f) := by
  intro l
  induction l with
  | nil => intro _; exact .nil
  | cons a l ih =>
    intro h
    exact .cons (h a List.mem_cons_self) (ih (fun a' ha' => h a' (List.mem_cons_of_mem _ ha')))

theorem plain_step_of_matching (F : FetchFn) (e : Envs) (fuel : Nat) (sm : Meta) (mkids combined D : List Obj)
    (st : List Obj × List Nat) (idx : Nat) (mm : Meta) (mws : List Word) (hp : PlainMeta mm)
    (hmatch : fetchMatching fuel sm combined (.defn mm mws) = activeNamed mm.name D)
    (hdef : ∀ o ∈ D, o.isDefn = true) (hsrc : ∀ o ∈ D, SrcOK o) :
    stepG F e fuel false sm mkids combined st (idx, .defn mm mws) =
      .ok (st.1 ++ [lastWins (.defn mm mws) (activeNamed mm.name D)],
           st.2 ++ (activeNamed mm.name D).flatMap marksOf) := by
  have hmult : isMultiple (.defn mm mws) = false := hp.notMultiple
  unfold stepG
  simp only [hmult, Bool.not_false, if_true]
  rw [hmatch]
  rw [defnOne_fold_plain e fuel mm mws hp _ _ _ (by
    intro o ho
    have := (List.mem_filter.mp ho).1
    exact ⟨hdef o this, hsrc o this⟩)]
  show defnFinish false (.defn mm mws) mm st.1 (.ok (lastVal mm (activeNamed mm.name D) none, _)) = _
  unfold defnFinish lastVal lastWins
  cases (activeNamed mm.name D).getLast? with
  | none => simp [hp.notDeprecated]
  | some d => rfl

/-- **C05, flat masters with `.multiple` definitions: complete description of the result**, given
    what the matching sources of every master child are (`hmatch`). -/
theorem fetch_flat_multi_of_matching (e : Envs) (fuel : Nat) (sm : Meta) (mkids combined D : List Obj)
    (hf : FlatMultiMaster mkids)
    (hmatch : ∀ mo ∈ mkids, fetchMatching fuel sm combined mo = activeNamed mo.name D)
    (hdef : ∀ o ∈ D, o.isDefn = true) (hsrc : ∀ o ∈ D, SrcOK o)
    (hkeys : ∀ mo ∈ mkids, isMultiple mo = true → KeysDefined e fuel mo (activeNamed mo.name D)) :
    fetchScope e (fuel + 1) false sm mkids combined =
      .ok (.scope { sm with tmpl := 0 } (mkids.flatMap (blockOf e fuel D)), flatUsed mkids D) := by
  rw [fetchScope_succ, masterActive_flatMulti mkids hf]
  simp only
  rw [foldlM_explicit _ (fun io => blockOf e fuel D io.2)
    (fun io => (activeNamed io.2.name D).flatMap marksOf)]
  · unfold fetchFinish flatUsed
    simp only [List.nil_append]
    rw [flatMap_snd (blockOf e fuel D),
      flatMap_snd (fun mo => (activeNamed mo.name D).flatMap marksOf), indexed_map_snd]
  · intro st a ha
    have hmem : a.2 ∈ mkids := by rw [← indexed_map_snd mkids]; exact List.mem_map.mpr ⟨a, ha, rfl⟩
    obtain ⟨mm, mws, hmo, hp, hname, _⟩ := hf.defn _ hmem
    obtain ⟨i, o⟩ := a
    simp only at hmo
    subst hmo
    have hm := hmatch _ hmem
    cases hmult : isMultiple (.defn mm mws) with
    | false =>
      have : blockOf e fuel D (.defn mm mws) = [lastWins (.defn mm mws) (activeNamed mm.name D)] := by
        unfold blockOf; rw [hmult]; rfl
      simp only [this]
      exact plain_step_of_matching _ e fuel sm mkids combined D st i mm mws (hp.plain hmult) hm hdef hsrc
    | true =>
      obtain ⟨⟨k0, hk0⟩, hcand⟩ := hkeys _ hmem hmult
      have hl : Forall2 (CandLink e fuel (.defn mm mws)) (fetchMatching fuel sm combined (.defn mm mws))
          (candsOf e fuel (.defn mm mws) (activeNamed mm.name D)) := by
        rw [hm]
        apply forall2_map
        intro d hd
        have hdD := (List.mem_filter.mp hd).1
        obtain ⟨k, hk⟩ := hcand d hd
        cases d with
        | scope m k => exact absurd (hdef _ hdD) (by simp [Obj.isDefn])
        | defn dm dws =>
          exact ⟨fetchValue_defnMeta mm mws dm dws hp (hsrc _ hdD), by rw [keyOf_ok hk]; exact hk⟩
      have := multi_step (fetchScope e fuel) e fuel sm mkids combined st i mm mws k0 _ hmult
        (fromMasterOf_nil mkids hf.distinct i _ ha) hk0 hl
      rw [this, hm]
      unfold blockOf
      rw [hmult, keyOf_ok hk0]
      rfl

/-- **C05, flat masters with `.multiple` definitions, definition-only sources.** -/
theorem fetch_flat_multi (e : Envs) (fuel : Nat) (sm : Meta) (mkids combined : List Obj)
    (hf : FlatMultiMaster mkids) (hsm : sm.name = []) (hsd : sm.disabled = false)
    (hdef : ∀ o ∈ combined, o.isDefn = true) (hsrc : ∀ o ∈ combined, SrcOK o)
    (hkeys : ∀ mo ∈ mkids, isMultiple mo = true → KeysDefined e fuel mo (activeNamed mo.name combined)) :
    fetchScope e (fuel + 1) false sm mkids combined =
      .ok (.scope { sm with tmpl := 0 } (mkids.flatMap (blockOf e fuel combined)), flatUsed mkids combined) := by
  apply fetch_flat_multi_of_matching e fuel sm mkids combined combined hf ?_ hdef hsrc hkeys
  intro mo hmo
  obtain ⟨mm, mws, rfl, _, hname, _⟩ := hf.defn mo hmo
  exact fetchMatching_flat fuel sm combined _ hsm hsd hname hdef

/-- … and sources mixing root-level definitions and named scopes (master names dot-free) -/
theorem fetch_flat_multi_mixed (e : Envs) (fuel : Nat) (sm : Meta) (mkids combined : List Obj)
    (hf : FlatMultiMaster mkids) (hdot : ∀ mo ∈ mkids, '.' ∉ mo.name)
    (hsm : sm.name = []) (hsd : sm.disabled = false)
    (hmix : MixedSrc (mkids.map Obj.name) combined)
    (hsrc : ∀ o ∈ combined, o.isDefn = true → SrcOK o)
    (hkeys : ∀ mo ∈ mkids, isMultiple mo = true →
      KeysDefined e fuel mo (activeNamed mo.name (defnsOf combined))) :
    fetchScope e (fuel + 1) false sm mkids combined =
      .ok (.scope { sm with tmpl := 0 } (mkids.flatMap (blockOf e fuel (defnsOf combined))),
           flatUsed mkids (defnsOf combined)) := by
  apply fetch_flat_multi_of_matching e fuel sm mkids combined (defnsOf combined) hf ?_
    (fun o ho => (mem_defnsOf.mp ho).2)
    (fun o ho => hsrc o (mem_defnsOf.mp ho).1 (mem_defnsOf.mp ho).2) hkeys
  intro mo hmo
  obtain ⟨mm, mws, rfl, _, hname, _⟩ := hf.defn mo hmo
  rw [fetchMatching_named fuel sm combined (.defn mm mws) hsm hsd hname (hdot _ hmo) hmix.scopeNamed]
  apply activeNamed_defnsOf
  intro m kids hm hd heq
  exact hmix.noClash m kids hm hd (heq ▸ List.mem_map.mpr ⟨_, hmo, rfl⟩)

/-! ### properties of `dedupKeepLast` -/

theorem dedupKeepLast_sublist {α : Type} : ∀ (l : List (α × Str)), (dedupKeepLast l).Sublist l := by
  intro l
  induction l with
  | nil => exact List.Sublist.refl _
  | cons x xs ih =>
    rw [dedupKeepLast]
    split
    · exact ih.cons _
    · exact ih.cons_cons _

theorem dedupKeepLast_keys_distinct {α : Type} : ∀ (l : List (α × Str)),
    ((dedupKeepLast l).map (·.2)).Pairwise (· ≠ ·) := by
  intro l
  induction l with
  | nil => simp [dedupKeepLast]
  | cons x xs ih =>
    rw [dedupKeepLast]
    split
    · exact ih
    · rename_i hany
      rw [List.map_cons, List.pairwise_cons]
      refine ⟨?_, ih⟩
      intro k hk heq
      obtain ⟨y, hy, rfl⟩ := List.mem_map.mp hk
      apply hany
      rw [List.any_eq_true]
      exact ⟨y, (dedupKeepLast_sublist xs).subset hy, by simp [heq]⟩

theorem dedupKeepLast_of_distinct {α : Type} : ∀ (l : List (α × Str)),
    (l.map (·.2)).Pairwise (· ≠ ·) → dedupKeepLast l = l := by
  intro l
  induction l with
  | nil => intro _; rfl
  | cons x xs ih =>
    intro h
    rw [List.map_cons, List.pairwise_cons] at h
    rw [dedupKeepLast, ih h.2]
    have : xs.any (fun y => y.2 == x.2) = false := by
      rw [List.any_eq_false]
      intro y hy
      have := h.1 _ (List.mem_map.mpr ⟨y, hy, rfl⟩)
      simpa using fun h' => this h'.symm
    simp [this]

theorem dedupKeepLast_idem {α : Type} (l : List (α × Str)) :
    dedupKeepLast (dedupKeepLast l) = dedupKeepLast l :=
  dedupKeepLast_of_distinct _ (dedupKeepLast_keys_distinct l)

/-- an entry survives iff no later entry has its key -/
theorem mem_dedupKeepLast {α : Type} (x : α × Str) : ∀ (l : List (α × Str)),
    x ∈ dedupKeepLast l ↔ ∃ pre post, l = pre ++ x :: post ∧ ∀ y ∈ post, y.2 ≠ x.2 := by
  intro l
  induction l with
  | nil => simp [dedupKeepLast]
  | cons a xs ih =>
    rw [dedupKeepLast]
    constructor
    · intro h
      have hx : x ∈ dedupKeepLast xs ∨ (x = a ∧ xs.any (fun y => y.2 == a.2) = false) := by
        split at h
        · exact .inl h
        · rename_i hany
          rw [List.mem_cons] at h
          rcases h with h | h
          · exact .inr ⟨h, Bool.eq_false_iff.mpr hany⟩
          · exact .inl h
      rcases hx with hx | ⟨rfl, hany⟩
      · obtain ⟨pre, post, rfl, hp⟩ := (ih.mp hx)
        exact ⟨a :: pre, post, rfl, hp⟩
      · refine ⟨[], xs, rfl, ?_⟩
        intro y hy
        have := List.any_eq_false.mp hany y hy
        simpa using this
    · rintro ⟨pre, post, hl, hp⟩
      cases pre with
      | nil =>
        simp only [List.nil_append, List.cons.injEq] at hl
        obtain ⟨rfl, rfl⟩ := hl
        have : xs.any (fun y => y.2 == a.2) = false := by
          rw [List.any_eq_false]
          intro y hy
          simpa using hp y hy
        simp [this]
      | cons b pre =>
        simp only [List.cons_append, List.cons.injEq] at hl
        obtain ⟨rfl, rfl⟩ := hl
        have : x ∈ dedupKeepLast (pre ++ x :: post) := ih.mpr ⟨pre, post, rfl, hp⟩
        split
        · exact this
        · exact List.mem_cons_of_mem _ this

/-! ## C. re-fetching the result (C07) -/

theorem activeNamed_append (n : Str) (a b : List Obj) :
    activeNamed n (a ++ b) = activeNamed n a ++ activeNamed n b := by
  unfold activeNamed; rw [List.filter_append]

theorem activeNamed_flatMap_distinct (B : Obj → List Obj) :
    ∀ (l : List Obj), (l.map Obj.name).Pairwise (· ≠ ·) →
      (∀ mo ∈ l, ∀ o ∈ B mo, o.name = mo.name ∧ o.meta.disabled = false) →
      ∀ mo ∈ l, activeNamed mo.name (l.flatMap B) = B mo := by
  intro l
  induction l with
  | nil => intro _ _ mo hmo; cases hmo
  | cons a l ih =>
    intro hpw hB mo hmo
    rw [List.map_cons, List.pairwise_cons] at hpw
    have hpw1 : ∀ o ∈ l, a.name ≠ o.name := fun o ho => hpw.1 _ (List.mem_map.mpr ⟨o, ho, rfl⟩)
    have hBl : ∀ mo ∈ l, ∀ o ∈ B mo, o.name = mo.name ∧ o.meta.disabled = false :=
      fun mo hmo => hB mo (List.mem_cons_of_mem _ hmo)
    rw [List.flatMap_cons, activeNamed_append]
    rw [List.mem_cons] at hmo
    rcases hmo with rfl | hmo
    · have h1 : activeNamed mo.name (B mo) = B mo := by
        unfold activeNamed
        rw [List.filter_eq_self]
        intro o ho
        obtain ⟨hn, hd⟩ := hB mo List.mem_cons_self o ho
        simp [hn, hd]
      have h2 : activeNamed mo.name (l.flatMap B) = [] := by
        unfold activeNamed
        rw [List.filter_eq_nil_iff]
        intro o ho
        obtain ⟨mo', hmo', ho'⟩ := List.mem_flatMap.mp ho
        obtain ⟨hn, hd⟩ := hBl mo' hmo' o ho'
        have hne : ¬ mo'.name = mo.name := fun h => (hpw1 mo' hmo') h.symm
        simp [hn, hne]
      rw [h1, h2, List.append_nil]
    · have h1 : activeNamed mo.name (B a) = [] := by
        unfold activeNamed
        rw [List.filter_eq_nil_iff]
        intro o ho
        obtain ⟨hn, hd⟩ := hB a List.mem_cons_self o ho
        have := hpw1 mo hmo
        simp [hn, this]
      rw [h1, List.nil_append]
      exact ih hpw.2 hBl mo hmo

theorem flatMap_congr_mem {α β : Type} (f g : α → List β) : ∀ (l : List α),
    (∀ a ∈ l, f a = g a) → l.flatMap f = l.flatMap g := by
  intro l
  induction l with
  | nil => intro _; rfl
  | cons a l ih =>
    intro h
    rw [List.flatMap_cons, List.flatMap_cons, h a List.mem_cons_self,
      ih (fun a' ha' => h a' (List.mem_cons_of_mem _ ha'))]

theorem withTmpl_name (mo : Obj) (t : Int) : (withTmpl mo t).name = mo.name := by cases mo <;> rfl
theorem withTmpl_disabled (mo : Obj) (t : Int) : (withTmpl mo t).meta.disabled = mo.meta.disabled := by
  cases mo <;> rfl
theorem withTmpl_varRes (mo : Obj) (t : Int) : (withTmpl mo t).meta.varRes = mo.meta.varRes := by
  cases mo <;> rfl
theorem withTmpl_words (mo : Obj) (t : Int) : (withTmpl mo t).words = mo.words := by cases mo <;> rfl
theorem withTmpl_isDefn (mo : Obj) (t : Int) : (withTmpl mo t).isDefn = mo.isDefn := by cases mo <;> rfl

/-- what the re-fetch needs to know about a result object `o` of the master child `mo` -/
structure ResObj (mo o : Obj) : Prop where
  name : o.name = mo.name
  enabled : o.meta.disabled = false
  isDefn : o.isDefn = true
  varRes : o.meta.varRes = none
  noDollar : hasDollar o.words = false

theorem ResObj.srcOK {mo o : Obj} (h : ResObj mo o) : SrcOK o := .inr ⟨h.varRes, h.noDollar⟩
theorem ResObj.srcWords {mo o : Obj} (h : ResObj mo o) : o.srcWords = o.words :=
  srcWords_of_varRes_none o h.varRes

/-- the members of the survivor list are candidates built from matching sources, paired with their
    keys -/
theorem mem_surv {e : Envs} {fuel : Nat} {mo : Obj} {k0 : Str} {l : List Obj} {x : Obj × Str}
    (hx : x ∈ dedupKeepLast ((candsOf e fuel mo l).filter (fun y => y.2 != k0))) :
    (∃ d ∈ l, x.1 = candOfSrc mo d) ∧ x.2 = keyOf e fuel mo x.1 ∧ x.2 ≠ k0 := by
  have h1 := (dedupKeepLast_sublist _).subset hx
  rw [List.mem_filter] at h1
  obtain ⟨h1, h2⟩ := h1
  unfold candsOf at h1
  obtain ⟨d, hd, rfl⟩ := List.mem_map.mp h1
  exact ⟨⟨d, hd, rfl⟩, rfl, by simpa using h2⟩

theorem blockOf_resObj (e : Envs) (fuel : Nat) (D : List Obj) (mm : Meta) (mws : List Word)
    (hen : mm.disabled = false) (hv : mm.varRes = none) (hmd : hasDollar mws = false)
    (hdol : ∀ o ∈ D, hasDollar o.srcWords = false) :
    ∀ o ∈ blockOf e fuel D (.defn mm mws), ResObj (.defn mm mws) o := by
  intro o ho
  unfold blockOf at ho
  split at ho
  · unfold multiBlock at ho
    rw [List.mem_cons] at ho
    rcases ho with rfl | ho
    · exact ⟨rfl, hen, rfl, hv, hmd⟩
    · obtain ⟨x, hx, rfl⟩ := List.mem_map.mp ho
      obtain ⟨⟨d, hd, hxd⟩, _, _⟩ := mem_surv hx
      rw [hxd]
      exact ⟨rfl, hen, rfl, hv, hdol d (List.mem_filter.mp hd).1⟩
  · simp only [List.mem_singleton] at ho
    subst ho
    exact ⟨lastWins_name _ _, by rw [lastWins_disabled]; exact hen, lastWins_isDefn _ _ rfl,
      by rw [lastWins_varRes]; exact hv,
      lastWins_words_noDollar _ _ hmd (fun d hd => hdol d (List.mem_filter.mp hd).1)⟩

/-- re-fetching a candidate gives the candidate back -/
theorem candOfSrc_cand (mm : Meta) (mws : List Word) (hv : mm.varRes = none) (d : Obj) :
    candOfSrc (.defn mm mws) (candOfSrc (.defn mm mws) d) = candOfSrc (.defn mm mws) d := by
  have : (candOfSrc (.defn mm mws) d).srcWords = d.srcWords :=
    srcWords_of_varRes_none _ hv
  show Obj.defn _ (candOfSrc (.defn mm mws) d).srcWords = _
  rw [this]
  rfl

/-- re-fetching the template gives the master definition back -/
theorem candOfSrc_tmpl (mm : Meta) (mws : List Word) (ht : mm.tmpl = 0) (hv : mm.varRes = none) (t : Int) :
    candOfSrc (.defn mm mws) (withTmpl (.defn mm mws) t) = .defn mm mws := by
  have : (withTmpl (.defn mm mws) t).srcWords = mws := srcWords_of_varRes_none _ hv
  show Obj.defn _ (withTmpl (.defn mm mws) t).srcWords = _
  rw [this]
  show Obj.defn { mm with tmpl := 0 } mws = _
  rw [meta_tmpl0 mm ht]

/-- **the block of a `.multiple` master definition is a fixed point of the list rule** -/
theorem multiBlock_refetch (e : Envs) (fuel : Nat) (mm : Meta) (mws : List Word) (l : List Obj)
    (ht : mm.tmpl = 0) (hv : mm.varRes = none) :
    multiBlock (.defn mm mws) (keyOf e fuel (.defn mm mws) (.defn mm mws))
      (candsOf e fuel (.defn mm mws)
        (multiBlock (.defn mm mws) (keyOf e fuel (.defn mm mws) (.defn mm mws)) (candsOf e fuel (.defn mm mws) l))) =
    multiBlock (.defn mm mws) (keyOf e fuel (.defn mm mws) (.defn mm mws)) (candsOf e fuel (.defn mm mws) l) := by
  generalize hk0 : keyOf e fuel (.defn mm mws) (.defn mm mws) = k0
  generalize hS : dedupKeepLast ((candsOf e fuel (.defn mm mws) l).filter (fun y => y.2 != k0)) = S
  have hmem : ∀ x ∈ S, (∃ d ∈ l, x.1 = candOfSrc (.defn mm mws) d) ∧
      x.2 = keyOf e fuel (.defn mm mws) x.1 ∧ x.2 ≠ k0 := by
    intro x hx; rw [← hS] at hx; exact mem_surv hx
  have hdist : (S.map (·.2)).Pairwise (· ≠ ·) := by rw [← hS]; exact dedupKeepLast_keys_distinct _
  have hblock : multiBlock (.defn mm mws) k0 (candsOf e fuel (.defn mm mws) l) =
      withTmpl (.defn mm mws) (multiTmpl (.defn mm mws) S.isEmpty) :: S.map (·.1) := by
    unfold multiBlock; rw [hS]
  rw [hblock]
  -- the candidates of the re-fetch: the master definition, then the survivors themselves
  have hc : candsOf e fuel (.defn mm mws)
      (withTmpl (.defn mm mws) (multiTmpl (.defn mm mws) S.isEmpty) :: S.map (·.1)) =
      (.defn mm mws, k0) :: S := by
    unfold candsOf
    rw [List.map_cons, candOfSrc_tmpl mm mws ht hv, hk0, List.map_map]
    congr 1
    calc S.map _ = S.map id := by
          apply List.map_congr_left
          intro x hx
          obtain ⟨⟨d, _, hxd⟩, hxk, _⟩ := hmem x hx
          simp only [Function.comp, id]
          rw [hxd, candOfSrc_cand mm mws hv d, ← hxd, ← hxk]
      _ = S := List.map_id _
  unfold multiBlock
  rw [hc]
  have hf : ((Obj.defn mm mws, k0) :: S).filter (fun y => y.2 != k0) = S := by
    rw [List.filter_cons]
    simp only [bne_self_eq_false, Bool.false_eq_true, if_false]
    rw [List.filter_eq_self]
    intro x hx
    simpa using (hmem x hx).2.2
  rw [hf, dedupKeepLast_of_distinct S hdist]

/-- **C07, flat masters with `.multiple` definitions.**  Fetching again with the children of the
    result as the only source gives the same result.  (Keys are stable for free: under `RefetchOK`
    the re-fetch of a surviving candidate is that candidate itself.) -/
theorem fetch_flat_multi_idempotent (e : Envs) (fuel : Nat) (sm : Meta) (mkids combined : List Obj)
    (hf : FlatMultiMaster mkids) (hr : RefetchOK mkids) (hsm : sm.name = []) (hsd : sm.disabled = false)
    (hdef : ∀ o ∈ combined, o.isDefn = true) (hsrc : ∀ o ∈ combined, SrcOK o)
    (hdol : ∀ o ∈ combined, hasDollar o.srcWords = false)
    (hkeys : ∀ mo ∈ mkids, isMultiple mo = true → KeysDefined e fuel mo (activeNamed mo.name combined))
    (rm : Meta) (out : List Obj) (used : List Nat)
    (h : fetchScope e (fuel + 1) false sm mkids combined = .ok (.scope rm out, used)) :
    ∃ used', fetchScope e (fuel + 1) false sm mkids out = .ok (.scope rm out, used') := by
  rw [fetch_flat_multi e fuel sm mkids combined hf hsm hsd hdef hsrc hkeys] at h
  cases h
  refine ⟨flatUsed mkids (mkids.flatMap (blockOf e fuel combined)), ?_⟩
  have hres : ∀ mo ∈ mkids, ∀ o ∈ blockOf e fuel combined mo, ResObj mo o := by
    intro mo hmo
    obtain ⟨mm, mws, rfl, _, _, hen⟩ := hf.defn mo hmo
    exact blockOf_resObj e fuel combined mm mws hen (hr _ hmo).2.1 (hr _ hmo).2.2 hdol
  have hact : ∀ mo ∈ mkids, activeNamed mo.name (mkids.flatMap (blockOf e fuel combined)) =
      blockOf e fuel combined mo :=
    activeNamed_flatMap_distinct (blockOf e fuel combined) mkids hf.distinct
      (fun mo hmo o ho => ⟨(hres mo hmo o ho).name, (hres mo hmo o ho).enabled⟩)
  have hout : ∀ o ∈ mkids.flatMap (blockOf e fuel combined), ∃ mo ∈ mkids, ResObj mo o := by
    intro o ho
    obtain ⟨mo, hmo, ho'⟩ := List.mem_flatMap.mp ho
    exact ⟨mo, hmo, hres mo hmo o ho'⟩
  rw [fetch_flat_multi e fuel sm mkids _ hf hsm hsd
    (fun o ho => by obtain ⟨mo, _, h⟩ := hout o ho; exact h.isDefn)
    (fun o ho => by obtain ⟨mo, _, h⟩ := hout o ho; exact h.srcOK)]
  · -- the blocks are reproduced
    have hfix : mkids.flatMap (blockOf e fuel (mkids.flatMap (blockOf e fuel combined))) =
        mkids.flatMap (blockOf e fuel combined) := by
      apply flatMap_congr_mem
      intro mo hmo
      obtain ⟨mm, mws, rfl, _, _, _⟩ := hf.defn mo hmo
      have ha := hact _ hmo
      unfold blockOf at ha ⊢
      cases hmult : isMultiple (.defn mm mws) with
      | false =>
        simp only [hmult, Bool.false_eq_true, if_false] at ha ⊢
        rw [ha]
        rw [show (Obj.defn mm mws).name = mm.name from rfl]
        rw [lastWins_idem mm mws _ (hr _ hmo).1 (hr _ hmo).2.1]
      | true =>
        simp only [hmult, if_true] at ha ⊢
        rw [ha]
        exact multiBlock_refetch e fuel mm mws _ (hr _ hmo).1 (hr _ hmo).2.1
    rw [hfix]
  · -- the keys of the re-fetch are defined
    intro mo hmo hmult
    obtain ⟨mm, mws, rfl, _, _, _⟩ := hf.defn mo hmo
    obtain ⟨hk0, hcand⟩ := hkeys _ hmo hmult
    refine ⟨hk0, ?_⟩
    intro d hd
    rw [hact _ hmo] at hd
    unfold blockOf at hd
    simp only [hmult, if_true] at hd
    unfold multiBlock at hd
    rw [List.mem_cons] at hd
    rcases hd with rfl | hd
    · rw [candOfSrc_tmpl mm mws (hr _ hmo).1 (hr _ hmo).2.1]
      exact hk0
    · obtain ⟨x, hx, rfl⟩ := List.mem_map.mp hd
      obtain ⟨⟨d0, hd0, hxd⟩, _, _⟩ := mem_surv hx
      rw [hxd, candOfSrc_cand mm mws (hr _ hmo).2.1]
      exact hcand d0 hd0

/-! ### checking `KeysDefined` by evaluation -/

def keysDefinedB (e : Envs) (fuel : Nat) (mo : Obj) (l : List Obj) : Bool :=
  (errOf (extractFormatStr e (fuel + 64) mo mo)).isNone &&
  l.all (fun d => (errOf (extractFormatStr e (fuel + 64) mo (candOfSrc mo d))).isNone)

theorem ok_of_errOf_none {α : Type} {r : R α} (h : (errOf r).isNone = true) : ∃ a, r = .ok a := by
  cases r with
  | error err => cases h
  | ok a => exact ⟨a, rfl⟩

theorem keysDefined_of_B {e : Envs} {fuel : Nat} {mo : Obj} {l : List Obj}
    (h : keysDefinedB e fuel mo l = true) : KeysDefined e fuel mo l := by
  unfold keysDefinedB at h
  rw [Bool.and_eq_true, List.all_eq_true] at h
  exact ⟨ok_of_errOf_none h.1, fun d hd => ok_of_errOf_none (h.2 d hd)⟩

/-- the fuel `fetchRoot` starts with, minus one -/
def rootFuel (master : List Obj) : Nat := (master.foldl (fun a k => Nat.max a (depthObj 1000 k)) 0) + 2

theorem fetchRoot_eq (e : Envs) (diff : Bool) (master : List Obj) (ss : List (List Obj)) :
    fetchRoot e diff master ss =
      fetchScope e (rootFuel master + 1) diff { name := [], id := some 0 } master ss.flatten := rfl

/-! ### C06 for flat masters with `.multiple` definitions -/

theorem mem_flatUsed_defnsOf (mkids combined : List Obj) (hrefs : ∀ o ∈ combined, srcRefs o = []) (i : Nat) :
    i ∈ flatUsed mkids (defnsOf combined) ↔
      ∃ d ∈ combined, d.isDefn = true ∧ d.meta.disabled = false ∧ d.meta.id = some i ∧
        d.name ∈ mkids.map Obj.name := by
  rw [mem_flatUsed]
  constructor
  · rintro ⟨mo, hmo, d, hd, hdis, hn, hi⟩
    obtain ⟨hdc, hdd⟩ := mem_defnsOf.mp hd
    exact ⟨d, hdc, hdd, hdis, (mem_marksOf_noRefs (hrefs d hdc)).mp hi,
      hn ▸ List.mem_map.mpr ⟨mo, hmo, rfl⟩⟩
  · rintro ⟨d, hdc, hdd, hdis, hid, hn⟩
    obtain ⟨mo, hmo, hmn⟩ := List.mem_map.mp hn
    exact ⟨mo, hmo, d, mem_defnsOf.mpr ⟨hdc, hdd⟩, hdis, hmn.symm,
      (mem_marksOf_noRefs (hrefs d hdc)).mpr hid⟩

/-- **C06 (consumed ids, exactly) for flat masters with `.multiple` definitions**, sources mixing
    root-level definitions and named scopes none of which bears a master name -/
theorem flat_multi_used_exact (e : Envs) (fuel : Nat) (sm : Meta) (mkids combined : List Obj)
    (hf : FlatMultiMaster mkids) (hdot : ∀ mo ∈ mkids, '.' ∉ mo.name)
    (hsm : sm.name = []) (hsd : sm.disabled = false)
    (hmix : MixedSrc (mkids.map Obj.name) combined)
    (hsrc : ∀ o ∈ combined, o.isDefn = true → SrcOK o)
    (hrefs : ∀ o ∈ combined, srcRefs o = [])
    (hkeys : ∀ mo ∈ mkids, isMultiple mo = true →
      KeysDefined e fuel mo (activeNamed mo.name (defnsOf combined)))
    (ro : Obj) (used : List Nat)
    (h : fetchScope e (fuel + 1) false sm mkids combined = .ok (ro, used)) (i : Nat) :
    i ∈ used ↔ ∃ d ∈ combined, d.isDefn = true ∧ d.meta.disabled = false ∧ d.meta.id = some i ∧
      d.name ∈ mkids.map Obj.name := by
  rw [fetch_flat_multi_mixed e fuel sm mkids combined hf hdot hsm hsd hmix hsrc hkeys] at h
  cases h
  exact mem_flatUsed_defnsOf mkids combined hrefs i

/-- **C06 (unused list, exactly) for flat masters with `.multiple` definitions** -/
theorem flat_multi_unused_exact (e : Envs) (fuel : Nat) (sm : Meta) (mkids combined : List Obj)
    (hf : FlatMultiMaster mkids) (hdot : ∀ mo ∈ mkids, '.' ∉ mo.name)
    (hinc : "include".toList ∉ mkids.map Obj.name)
    (hsm : sm.name = []) (hsd : sm.disabled = false)
    (hmix : MixedSrc (mkids.map Obj.name) combined)
    (hsrc : ∀ o ∈ combined, o.isDefn = true → SrcOK o)
    (hrefs : ∀ o ∈ combined, srcRefs o = [])
    (hkeys : ∀ mo ∈ mkids, isMultiple mo = true →
      KeysDefined e fuel mo (activeNamed mo.name (defnsOf combined)))
    (hsome : ∀ x ∈ allDefinitions combined, x.2.1.id ≠ none)
    (hids : ((allDefinitions combined).map (fun x => x.2.1.id)).Nodup)
    (ro : Obj) (used : List Nat)
    (h : fetchScope e (fuel + 1) false sm mkids combined = .ok (ro, used)) :
    (allDefinitions combined).filter (notConsumed used) =
      (allDefinitions combined).filter (fun x => !(mkids.map Obj.name).contains x.1) :=
  unused_filter_exact (mkids.map Obj.name) combined used
    (by intro n hn; obtain ⟨mo, hmo, rfl⟩ := List.mem_map.mp hn; exact hdot mo hmo)
    hinc hsome hids
    (flat_multi_used_exact e fuel sm mkids combined hf hdot hsm hsd hmix hsrc hrefs hkeys ro used h)

end Phil
