/-
  Lemmas behind C19: laws of the printer model (`Phil.Show`).
    * decomposition of `showAttributes` into a per-name "is it shown" test and per-name lines
    * prefix law: an extra leading prefix = reduced width + the prefix prepended to every line
    * expert-level gate = pruning of the tree
    * attribute levels only add lines
-/
import Phil.Show
set_option linter.unusedSimpArgs false
set_option linter.unusedVariables false
namespace Phil

/-! ## `showAttributes` in pieces -/

/-- is attribute `name` with value `value` printed at `level` (> 0)? -/
def attrShown (level : Int) (name : String) (value : AttrVal) : Bool :=
  if name == "deprecated" && !value.truthy then false
  else if (name == "help" && !value.isNone) || (name == "alias" && !value.isNone) ||
          (!value.isNone && level > 1) || level > 2 then
    if name == "alias" && value.isNone then false else true
  else false

def attrHead (pre : Str) (name : String) : Str := pre ++ "  .".toList ++ name.toList ++ " = ".toList
def attrIndent (pre : Str) (name : String) : Str := pre ++ spaces (3 + name.length + 3)
def attrFits (indent : Str) (width : Int) (s : Str) : Bool :=
  decide (((indent ++ s).length : Int) < width)
def wrapLine (head indent : Str) (bi : Str × Nat) : Str :=
  if bi.2 == 0 then head ++ '"' :: bi.1 ++ ['"'] else indent ++ '"' :: bi.1 ++ ['"']
def wrapLines (head indent inner : Str) (w : Nat) : List Str :=
  (twWrap inner w).zipIdx.map (wrapLine head indent)

/-- the lines printed for one attribute that is shown -/
def attrLines (pre : Str) (width : Int) (name : String) : AttrVal → R (List Str)
  | .str v =>
    let head := attrHead pre name
    let indent := attrIndent pre name
    let needQuote := !isStdIdent v || lower v == "none".toList || lower v == "auto".toList ||
      !attrFits indent width v
    let v' := if needQuote then quoteStr .d1 v else v
    if attrFits indent width v' then .ok [head ++ v']
    else
      let w : Int := width - 2 - indent.length
      if w ≤ 0 then .error (.stray "ValueError" "textwrap_width")
      else if v'.contains '\t' then .error (.unsupported "tab in wrapped attribute")
      else .ok (wrapLines head indent ((v'.drop 1).take (v'.length - 2)) w.toNat)
  | v => .ok [attrHead pre name ++ v.pyStr]

/-- the lines one attribute name contributes at `level` -/
def attrOne (attrs : Attrs) (pre : Str) (level width : Int) (name : String) : R (List Str) :=
  if attrShown level name (attrs.get name) then attrLines pre width name (attrs.get name) else .ok []

/-- concatenation of the contributions, first error wins -/
def attrAll (attrs : Attrs) (pre : Str) (level width : Int) : List String → R (List Str)
  | [] => .ok []
  | n :: ns =>
    match attrOne attrs pre level width n with
    | .error e => .error e
    | .ok l => match attrAll attrs pre level width ns with
      | .error e => .error e
      | .ok r => .ok (l ++ r)

/-- append the lines of a step to the lines so far, errors pass through -/
def appendTo (out : List Str) : R (List Str) → R (List Str)
  | .error e => .error e
  | .ok l => .ok (out ++ l)

@[simp] theorem appendTo_ok (out l : List Str) : appendTo out (.ok l) = .ok (out ++ l) := rfl
@[simp] theorem appendTo_error (out : List Str) (e : Err) : appendTo out (.error e) = .error e := rfl
theorem appendTo_ite (out : List Str) (c : Prop) [Decidable c] (a b : R (List Str)) :
    appendTo out (if c then a else b) = if c then appendTo out a else appendTo out b := by
  split <;> rfl

/-- the emitting branch of the fold step of `showAttributes` (same text as in `Phil.Show`) -/
def attrEmit (out : List Str) (prefix_ : Str) (width : Int) (name : String) (value : AttrVal) :
    R (List Str) :=
  let head := prefix_ ++ "  .".toList ++ name.toList ++ " = ".toList
  match value with
  | .str v =>
    let indent := prefix_ ++ spaces (3 + name.length + 3)
    let fits (s : Str) : Bool := decide (((indent ++ s).length : Int) < width)
    let needQuote := !isStdIdent v || lower v == "none".toList || lower v == "auto".toList || !fits v
    let v' := if needQuote then quoteStr .d1 v else v
    if fits v' then .ok (out ++ [head ++ v'])
    else
      let w : Int := width - 2 - indent.length
      if w ≤ 0 then .error (.stray "ValueError" "textwrap_width")
      else if v'.contains '\t' then .error (.unsupported "tab in wrapped attribute")
      else
        let inner := (v'.drop 1).take (v'.length - 2)
        let blocks := twWrap inner w.toNat
        let lines := blocks.zipIdx.map fun (b, i) =>
          if i == 0 then head ++ '"' :: b ++ ['"'] else indent ++ '"' :: b ++ ['"']
        .ok (out ++ lines)
  | v => .ok (out ++ [head ++ v.pyStr])

theorem attrEmit_eq (out : List Str) (pre : Str) (width : Int) (name : String) (value : AttrVal) :
    attrEmit out pre width name value = appendTo out (attrLines pre width name value) := by
  cases value <;> try rfl
  rename_i v
  simp only [attrEmit, attrLines]
  generalize hv' : (if (!isStdIdent v || lower v == "none".toList || lower v == "auto".toList ||
    !attrFits (attrIndent pre name) width v) = true then quoteStr Quote.d1 v else v) = v'
  have hv'' : (if (!isStdIdent v || lower v == "none".toList || lower v == "auto".toList ||
      !decide (((pre ++ spaces (3 + name.length + 3) ++ v).length : Int) < width)) = true
      then quoteStr Quote.d1 v else v) = v' := hv'
  rw [hv'']
  show (if attrFits (attrIndent pre name) width v' = true then _ else _) = _
  by_cases h1 : attrFits (attrIndent pre name) width v' = true
  · rw [if_pos h1, if_pos h1]; rfl
  · rw [if_neg h1, if_neg h1]
    show (if width - 2 - ((attrIndent pre name).length : Int) ≤ 0 then _ else _) = _
    by_cases h2 : width - 2 - ((attrIndent pre name).length : Int) ≤ 0
    · rw [if_pos h2, if_pos h2]; rfl
    · rw [if_neg h2, if_neg h2]
      by_cases h3 : v'.contains '\t' = true
      · rw [if_pos h3, if_pos h3]; rfl
      · rw [if_neg h3, if_neg h3]; rfl

/-- the fold step of `showAttributes` as a named function -/
def attrStep (attrs : Attrs) (pre : Str) (level width : Int) (out : List Str) (name : String) :
    R (List Str) :=
  appendTo out (attrOne attrs pre level width name)

theorem showAttributes_step (attrs : Attrs) (pre : Str) (level width : Int) (names : List String) :
    showAttributes names attrs pre level width =
      if level ≤ 0 then .ok [] else names.foldlM (attrStep attrs pre level width) [] := by
  have h0 : showAttributes names attrs pre level width =
      if level ≤ 0 then .ok [] else names.foldlM (init := []) fun (out : List Str) name =>
        let value := attrs.get name
        if name == "deprecated" && !value.truthy then .ok out
        else if (name == "help" && !value.isNone) || (name == "alias" && !value.isNone) ||
            (!value.isNone && level > 1) || level > 2 then
          if name == "alias" && value.isNone then .ok out
          else attrEmit out pre width name value
        else .ok out := by
    rfl
  rw [h0]
  split
  · rfl
  · congr 1
    funext out name
    simp only [attrStep, attrOne, attrShown, attrEmit_eq]
    generalize attrs.get name = value
    split
    · simp
    · split
      · split
        · simp
        · simp
      · simp

theorem foldlM_attrStep (attrs : Attrs) (pre : Str) (level width : Int) :
    ∀ (names : List String) (out : List Str),
      names.foldlM (attrStep attrs pre level width) out
        = appendTo out (attrAll attrs pre level width names) := by
  intro names
  induction names with
  | nil => intro out; simp [attrAll, pure, Except.pure]
  | cons n ns ih =>
    intro out
    rw [List.foldlM_cons]
    simp only [attrStep, attrAll]
    cases attrOne attrs pre level width n with
    | error e => rfl
    | ok l =>
      simp only [appendTo_ok, bind, Except.bind]
      rw [ih]
      cases attrAll attrs pre level width ns <;> simp [appendTo, List.append_assoc]

/-- `showAttributes` is the concatenation of the per-name contributions. -/
theorem showAttributes_all (names : List String) (attrs : Attrs) (pre : Str) (level width : Int) :
    showAttributes names attrs pre level width =
      if level ≤ 0 then .ok [] else attrAll attrs pre level width names := by
  rw [showAttributes_step]
  split
  · rfl
  · rw [foldlM_attrStep]
    cases attrAll attrs pre level width names <;> simp [appendTo]

/-! ## prefix law -/

/-- prepend `p` to every line of a result -/
abbrev addPre (p : Str) (r : R (List Str)) : R (List Str) := r.map (List.map (p ++ ·))

@[simp] theorem map_ok' (f : List Str → List Str) (l : List Str) :
    Except.map f (.ok l : R (List Str)) = .ok (f l) := rfl
@[simp] theorem map_error' (f : List Str → List Str) (e : Err) :
    Except.map f (.error e : R (List Str)) = .error e := rfl

theorem attrHead_prefix (p pre : Str) (name : String) :
    attrHead (p ++ pre) name = p ++ attrHead pre name := by
  simp [attrHead, List.append_assoc]

theorem attrIndent_prefix (p pre : Str) (name : String) :
    attrIndent (p ++ pre) name = p ++ attrIndent pre name := by
  simp [attrIndent, List.append_assoc]

theorem attrFits_prefix (p ind : Str) (width : Int) (s : Str) :
    attrFits (p ++ ind) width s = attrFits ind (width - p.length) s := by
  simp only [attrFits, List.length_append]
  apply decide_eq_decide.mpr
  omega

theorem wrapLines_prefix (p head indent inner : Str) (w : Nat) :
    wrapLines (p ++ head) (p ++ indent) inner w = (wrapLines head indent inner w).map (p ++ ·) := by
  simp only [wrapLines, List.map_map]
  congr 1
  funext bi
  simp only [wrapLine, Function.comp]
  split <;> simp [List.append_assoc]

theorem attrLines_prefix (p pre : Str) (width : Int) (name : String) (value : AttrVal) :
    attrLines (p ++ pre) width name value
      = addPre p (attrLines pre (width - p.length) name value) := by
  cases value
  case str v =>
    simp only [attrLines, attrHead_prefix, attrIndent_prefix, attrFits_prefix]
    have hw : width - 2 - ((p ++ attrIndent pre name).length : Int)
        = width - (p.length : Int) - 2 - ((attrIndent pre name).length : Int) := by
      simp only [List.length_append]; omega
    rw [hw]
    generalize (if (!isStdIdent v || lower v == "none".toList || lower v == "auto".toList ||
      !attrFits (attrIndent pre name) (width - (p.length : Int)) v) = true
      then quoteStr Quote.d1 v else v) = v'
    by_cases h1 : attrFits (attrIndent pre name) (width - (p.length : Int)) v' = true
    · rw [if_pos h1, if_pos h1]; simp [addPre, List.append_assoc]
    · rw [if_neg h1, if_neg h1]
      by_cases h2 : width - (p.length : Int) - 2 - ((attrIndent pre name).length : Int) ≤ 0
      · rw [if_pos h2, if_pos h2]; rfl
      · rw [if_neg h2, if_neg h2]
        by_cases h3 : v'.contains '\t' = true
        · rw [if_pos h3, if_pos h3]; rfl
        · rw [if_neg h3, if_neg h3]; simp [addPre, wrapLines_prefix]
  all_goals simp [attrLines, addPre, attrHead_prefix, List.append_assoc]

theorem attrOne_prefix (attrs : Attrs) (p pre : Str) (level width : Int) (name : String) :
    attrOne attrs (p ++ pre) level width name
      = addPre p (attrOne attrs pre level (width - p.length) name) := by
  simp only [attrOne]
  split
  · exact attrLines_prefix p pre width name _
  · rfl

theorem attrAll_prefix (attrs : Attrs) (p pre : Str) (level width : Int) (names : List String) :
    attrAll attrs (p ++ pre) level width names
      = addPre p (attrAll attrs pre level (width - p.length) names) := by
  induction names with
  | nil => rfl
  | cons n ns ih =>
    simp only [attrAll, attrOne_prefix, ih]
    cases attrOne attrs pre level (width - p.length) n with
    | error e => rfl
    | ok l =>
      cases attrAll attrs pre level (width - p.length) ns with
      | error e => rfl
      | ok r => simp [addPre]

/-- Prefix law for `show_attributes`. -/
theorem showAttributes_prefix (names : List String) (attrs : Attrs) (p pre : Str) (level width : Int) :
    showAttributes names attrs (p ++ pre) level width
      = (showAttributes names attrs pre level (width - p.length)).map (List.map (p ++ ·)) := by
  rw [showAttributes_all, showAttributes_all]
  split
  · rfl
  · exact attrAll_prefix attrs p pre level width names

/-- Prefix law for the value lines of `definition.show`. -/
theorem showWords_prefix (p : Str) (width : Int) :
    ∀ (ws : List Word) (indent line : Str) (out : List Str),
      showWords width (p ++ indent) ws (p ++ line) (out.map (p ++ ·))
        = (showWords (width - p.length) indent ws line out).map (p ++ ·) := by
  intro ws
  induction ws with
  | nil => intro indent line out; simp [showWords]
  | cons w ws ih =>
    intro indent line out
    simp only [showWords]
    have hc : (decide ((((p ++ line) ++ ' ' :: w.str).length : Int) > width - 2) &&
          decide ((p ++ line).length > (p ++ indent).length))
        = (decide (((line ++ ' ' :: w.str).length : Int) > width - (p.length : Int) - 2) &&
          decide (line.length > indent.length)) := by
      congr 1
      · apply decide_eq_decide.mpr; simp only [List.length_append, List.length_cons]; omega
      · apply decide_eq_decide.mpr; simp only [List.length_append]; omega
    rw [hc]
    split
    · have := ih indent (indent ++ ' ' :: w.str) (out ++ [line ++ " \\".toList])
      rw [← this]
      simp [List.append_assoc]
    · have := ih indent (line ++ ' ' :: w.str) out
      rw [← this]
      simp [List.append_assoc]

/-- first line of a definition, without the values -/
def defnLine (m : Meta) (merged : List Str) (prefix_ : Str) : Str :=
  let hash : Str := if m.disabled then ['!'] else []
  let line0 := prefix_ ++ hash ++ joinWith ['.'] (merged ++ [m.name])
  if m.name != "include".toList then line0 ++ " =".toList else line0

theorem defnLine_prefix (m : Meta) (merged : List Str) (p pre : Str) :
    defnLine m merged (p ++ pre) = p ++ defnLine m merged pre := by
  simp only [defnLine]
  split <;> simp [List.append_assoc]

theorem defnLine_length (m : Meta) (merged : List Str) (pre : Str) :
    pre.length ≤ (defnLine m merged pre).length := by
  simp only [defnLine]
  split <;> simp only [List.length_append] <;> omega

/-- the part of `showDefn` after the gates -/
def showDefnBody (o : ShowOpts) (m : Meta) (words : List Word) (merged : List Str) (prefix_ : Str) :
    R (List Str) :=
  let line := defnLine m merged prefix_
  let indent := prefix_ ++ spaces (line.length - prefix_.length)
  let warn := if (m.attrs.get "deprecated").truthy then
    [prefix_ ++ "# WARNING: deprecated parameter".toList] else []
  let body := showWords o.width indent words line []
  match showAttributes defAttrNames m.attrs prefix_ o.level o.width with
  | .error e => .error e
  | .ok attrs => .ok (warn ++ body ++ attrs)

/-- the expert-level gate applied to the rest of a `show` method -/
def expertGate (h : R Bool) (k : R (List Str)) : R (List Str) :=
  match h with
  | .error e => .error e
  | .ok true => .ok []
  | .ok false => k

@[simp] theorem expertGate_error (e : Err) (k : R (List Str)) : expertGate (.error e) k = .error e := rfl
@[simp] theorem expertGate_true (k : R (List Str)) : expertGate (.ok true) k = .ok [] := rfl
@[simp] theorem expertGate_false (k : R (List Str)) : expertGate (.ok false) k = k := rfl

theorem showDefn_eq (o : ShowOpts) (m : Meta) (words : List Word) (merged : List Str) (pre : Str) :
    showDefn o m words merged pre =
      if m.tmpl < 0 && o.level < 2 then .ok []
      else if (m.attrs.get "deprecated").truthy && o.level < 3 then .ok []
      else expertGate (expertHidden (m.attrs.get "expert_level") o.expert)
        (showDefnBody o m words merged pre) := by
  rfl

/-- `mergeNames` of the first child (the dotted-scope test of `scope.show`) -/
def firstMerges : List Obj → Bool
  | c :: _ => c.meta.mergeNames
  | [] => false

/-- the part of `scope.show` after the gates; `inner` prints the children -/
def showScopeBody (o : ShowOpts) (m : Meta) (fm : Bool) (inner : List Str → Str → R (List Str))
    (merged : List Str) (prefix_ : Str) : R (List Str) :=
  if m.name.isEmpty then inner merged prefix_
  else if fm then inner (merged ++ [m.name]) prefix_
  else
    let hash : Str := if m.disabled then ['!'] else []
    match showAttributes scopeAttrNames m.attrs prefix_ o.level o.width with
    | .error e => .error e
    | .ok attrs =>
      let mergedName := joinWith ['.'] (merged ++ [m.name])
      let head := if attrs.isEmpty then [prefix_ ++ hash ++ mergedName ++ " {".toList]
                  else [prefix_ ++ hash ++ mergedName] ++ attrs ++ [prefix_ ++ ['{']]
      match inner [] (prefix_ ++ "  ".toList) with
      | .error e => .error e
      | .ok body => .ok (head ++ body ++ [prefix_ ++ ['}']])

theorem showObj_scope_eq (o : ShowOpts) (m : Meta) (objs : List Obj) (merged : List Str) (pre : Str) :
    showObj o (.scope m objs) merged pre =
      if m.tmpl < 0 && o.level < 2 then .ok []
      else expertGate (expertHidden (m.attrs.get "expert_level") o.expert)
        (showScopeBody o m (firstMerges objs) (showObjs o objs) merged pre) := by
  cases objs <;> rfl

theorem showObj_defn_eq (o : ShowOpts) (m : Meta) (ws : List Word) (merged : List Str) (pre : Str) :
    showObj o (.defn m ws) merged pre = showDefn o m ws merged pre := rfl

theorem showObjs_nil (o : ShowOpts) (merged : List Str) (pre : Str) :
    showObjs o [] merged pre = .ok [] := rfl

/-- concatenate two results, first error wins -/
def catR (a b : R (List Str)) : R (List Str) :=
  match a with
  | .error e => .error e
  | .ok l => match b with
    | .error e => .error e
    | .ok r => .ok (l ++ r)

theorem showObjs_cons (o : ShowOpts) (x : Obj) (xs : List Obj) (merged : List Str) (pre : Str) :
    showObjs o (x :: xs) merged pre = catR (showObj o x merged pre) (showObjs o xs merged pre) := rfl

theorem catR_addPre (p : Str) (a b : R (List Str)) :
    catR (addPre p a) (addPre p b) = addPre p (catR a b) := by
  cases a <;> cases b <;> simp [catR, addPre]

@[simp] theorem catR_nil_left (b : R (List Str)) : catR (.ok []) b = b := by
  cases b <;> rfl

theorem showDefnBody_prefix (o : ShowOpts) (m : Meta) (ws : List Word) (merged : List Str)
    (p pre : Str) :
    showDefnBody o m ws merged (p ++ pre)
      = addPre p (showDefnBody { o with width := o.width - p.length } m ws merged pre) := by
  simp only [showDefnBody, defnLine_prefix, showAttributes_prefix]
  have hlen : (p ++ defnLine m merged pre).length - (p ++ pre).length
      = (defnLine m merged pre).length - pre.length := by
    simp only [List.length_append]; omega
  rw [hlen]
  have hw := showWords_prefix p o.width ws
    (pre ++ spaces ((defnLine m merged pre).length - pre.length)) (defnLine m merged pre) []
  simp only [List.map_nil] at hw
  rw [← List.append_assoc] at hw
  rw [hw]
  cases showAttributes defAttrNames m.attrs pre o.level (o.width - p.length) with
  | error e => rfl
  | ok attrs =>
    simp only [map_ok', addPre]
    split <;> simp

theorem showDefn_prefix (o : ShowOpts) (m : Meta) (ws : List Word) (merged : List Str) (p pre : Str) :
    showDefn o m ws merged (p ++ pre)
      = addPre p (showDefn { o with width := o.width - p.length } m ws merged pre) := by
  rw [showDefn_eq, showDefn_eq, showDefnBody_prefix]
  simp only []
  split
  · rfl
  · split
    · rfl
    · cases expertHidden (m.attrs.get "expert_level") o.expert with
      | error e => rfl
      | ok b => cases b <;> rfl

theorem showScopeBody_prefix (o : ShowOpts) (m : Meta) (fm : Bool)
    (inner inner' : List Str → Str → R (List Str)) (p : Str)
    (hin : ∀ ms pre, inner ms (p ++ pre) = addPre p (inner' ms pre))
    (merged : List Str) (pre : Str) :
    showScopeBody o m fm inner merged (p ++ pre)
      = addPre p (showScopeBody { o with width := o.width - p.length } m fm inner' merged pre) := by
  simp only [showScopeBody, showAttributes_prefix, List.append_assoc, hin]
  split
  · rfl
  · split
    · rfl
    · cases showAttributes scopeAttrNames m.attrs pre o.level (o.width - p.length) with
      | error e => rfl
      | ok attrs =>
        simp only [map_ok']
        cases inner' [] (pre ++ "  ".toList) with
        | error e => rfl
        | ok body =>
          simp only [map_ok', addPre]
          cases attrs <;> simp [List.append_assoc]

theorem showObj_prefix_aux (o : ShowOpts) (p : Str) (t : Obj) :
    ∀ (ms : List Str) (pre : Str), showObj o t ms (p ++ pre)
      = addPre p (showObj { o with width := o.width - p.length } t ms pre) := by
  induction t using Obj.rec
    (motive_2 := fun ts => ∀ (ms : List Str) (pre : Str), showObjs o ts ms (p ++ pre)
      = addPre p (showObjs { o with width := o.width - p.length } ts ms pre)) with
  | defn m ws => intro ms pre; exact showDefn_prefix o m ws ms p pre
  | scope m objs ih =>
    intro ms pre
    rw [showObj_scope_eq, showObj_scope_eq, showScopeBody_prefix o m _ _ _ p ih]
    simp only []
    split
    · rfl
    · cases expertHidden (m.attrs.get "expert_level") o.expert with
      | error e => rfl
      | ok b => cases b <;> rfl
  | nil => rfl
  | cons x xs ihx ihxs =>
    rw [showObjs_cons, showObjs_cons, ihx, ihxs, catR_addPre]

theorem showObjs_prefix_aux (o : ShowOpts) (p : Str) (ts : List Obj) :
    ∀ (ms : List Str) (pre : Str), showObjs o ts ms (p ++ pre)
      = addPre p (showObjs { o with width := o.width - p.length } ts ms pre) := by
  induction ts with
  | nil => intro ms pre; rfl
  | cons x xs ih =>
    intro ms pre
    rw [showObjs_cons, showObjs_cons, showObj_prefix_aux, ih, catR_addPre]

/-! ## the expert-level gate is pruning -/

/-- the object's own `expert_level` is unset or an integer -/
def expertOk (m : Meta) : Bool :=
  match m.attrs.get "expert_level" with
  | .none => true
  | .int _ => true
  | _ => false

/-- the object's own `expert_level` is an integer above `k` -/
def hiddenAt (k : Int) (m : Meta) : Bool :=
  match m.attrs.get "expert_level" with
  | .int e => decide (e > k)
  | _ => false

mutual
/-- remove every object whose own expert level exceeds `k`; a dotted-name scope (first child has
    `mergeNames`) all of whose children were removed is removed as well -/
def prune (k : Int) : Obj → Option Obj
  | .defn m ws => if hiddenAt k m then none else some (.defn m ws)
  | .scope m objs =>
    if hiddenAt k m then none
    else if firstMerges objs && (pruneList k objs).isEmpty then none
    else some (.scope m (pruneList k objs))
def pruneList (k : Int) : List Obj → List Obj
  | [] => []
  | x :: xs =>
    match prune k x with
    | none => pruneList k xs
    | some x' => x' :: pruneList k xs
end

mutual
/-- no object of the tree has an `expert_level` that is neither unset nor an integer -/
def ExpertWF : Obj → Bool
  | .defn m _ => expertOk m
  | .scope m objs => expertOk m && ExpertWFs objs
def ExpertWFs : List Obj → Bool
  | [] => true
  | x :: xs => ExpertWF x && ExpertWFs xs
end

/-- all children agree with the first child on `mergeNames` -/
def uniformMerge (objs : List Obj) : Bool :=
  objs.all fun c => c.meta.mergeNames == firstMerges objs

mutual
/-- in every named scope the children are either all dotted-name continuations (`mergeNames`) or
    none is; parser-built trees satisfy this (a dotted scope has exactly one child) -/
def DottedWF : Obj → Bool
  | .defn _ _ => true
  | .scope m objs => (m.name.isEmpty || uniformMerge objs) && DottedWFs objs
def DottedWFs : List Obj → Bool
  | [] => true
  | x :: xs => DottedWF x && DottedWFs xs
end

/-- print an optional object: nothing for `none` -/
def showOpt (o : ShowOpts) (t : Option Obj) (merged : List Str) (pre : Str) : R (List Str) :=
  match t with
  | none => .ok []
  | some t => showObj o t merged pre

theorem expertHidden_none (own : AttrVal) : expertHidden own none = .ok false := by
  cases own <;> rfl

theorem expertHidden_wf (m : Meta) (k : Int) (hk : 0 ≤ k) (h : expertOk m = true) :
    expertHidden (m.attrs.get "expert_level") (some k) = .ok (hiddenAt k m) := by
  unfold expertOk at h
  unfold hiddenAt
  cases hv : m.attrs.get "expert_level" <;> rw [hv] at h <;> simp at h <;> simp [expertHidden, hk]

theorem expertHidden_neg (own : AttrVal) (k : Int) (hk : k < 0) :
    expertHidden own (some k) = .ok false := by
  have h1 : ¬ (k ≥ 0) := by omega
  cases own <;> simp [expertHidden, h1]

theorem prune_defn (k : Int) (m : Meta) (ws : List Word) :
    prune k (.defn m ws) = if hiddenAt k m then none else some (.defn m ws) := by
  simp [prune]

theorem prune_scope (k : Int) (m : Meta) (objs : List Obj) :
    prune k (.scope m objs) =
      if hiddenAt k m then none
      else if firstMerges objs && (pruneList k objs).isEmpty then none
      else some (.scope m (pruneList k objs)) := by
  simp [prune]

theorem pruneList_nil (k : Int) : pruneList k [] = [] := by simp [pruneList]

theorem pruneList_cons (k : Int) (x : Obj) (xs : List Obj) :
    pruneList k (x :: xs) =
      match prune k x with
      | none => pruneList k xs
      | some x' => x' :: pruneList k xs := by
  simp [pruneList]

theorem prune_meta (k : Int) (x x' : Obj) (h : prune k x = some x') : x'.meta = x.meta := by
  cases x with
  | defn m ws =>
    rw [prune_defn] at h
    split at h
    · cases h
    · cases h; rfl
  | scope m objs =>
    rw [prune_scope] at h
    split at h
    · cases h
    · split at h
      · cases h
      · cases h; rfl

theorem pruneList_merge (k : Int) (b : Bool) (objs : List Obj)
    (h : ∀ c, c ∈ objs → c.meta.mergeNames = b) :
    ∀ c, c ∈ pruneList k objs → c.meta.mergeNames = b := by
  induction objs with
  | nil => intro c hc; rw [pruneList_nil] at hc; cases hc
  | cons x xs ih =>
    intro c hc
    have ih' := ih (fun c hc => h c (List.mem_cons_of_mem _ hc))
    rw [pruneList_cons] at hc
    cases hp : prune k x with
    | none => rw [hp] at hc; exact ih' c hc
    | some x' =>
      rw [hp] at hc
      rcases List.mem_cons.mp hc with h1 | h1
      · rw [h1, prune_meta k x x' hp]; exact h x List.mem_cons_self
      · exact ih' c h1

theorem firstMerges_pruneList (k : Int) (objs : List Obj) (hu : uniformMerge objs = true)
    (hne : (firstMerges objs && (pruneList k objs).isEmpty) = false) :
    firstMerges (pruneList k objs) = firstMerges objs := by
  have hall : ∀ c, c ∈ objs → c.meta.mergeNames = firstMerges objs := by
    intro c hc
    have := List.all_eq_true.mp hu c hc
    simpa using this
  have hp := pruneList_merge k _ objs hall
  cases hl : pruneList k objs with
  | nil =>
    rw [hl] at hne
    simp at hne
    rw [hne]; rfl
  | cons c cs =>
    rw [hl] at hp
    exact hp c List.mem_cons_self

theorem showScopeBody_congr (o : ShowOpts) (m : Meta) (fm : Bool)
    (inner inner' : List Str → Str → R (List Str)) (h : ∀ ms pre, inner ms pre = inner' ms pre)
    (merged : List Str) (pre : Str) :
    showScopeBody o m fm inner merged pre = showScopeBody o m fm inner' merged pre := by
  have : inner = inner' := by funext ms pre; exact h ms pre
  rw [this]

theorem showScopeBody_noname (o : ShowOpts) (m : Meta) (fm fm' : Bool)
    (inner : List Str → Str → R (List Str)) (hn : m.name.isEmpty = true)
    (merged : List Str) (pre : Str) :
    showScopeBody o m fm inner merged pre = showScopeBody o m fm' inner merged pre := by
  simp [showScopeBody, hn]

theorem showScopeBody_dotted_empty (o : ShowOpts) (m : Meta)
    (inner : List Str → Str → R (List Str)) (h : ∀ ms pre, inner ms pre = .ok [])
    (merged : List Str) (pre : Str) :
    showScopeBody o m true inner merged pre = .ok [] := by
  simp only [showScopeBody, h]
  split <;> rfl

theorem showDefnBody_expert (o : ShowOpts) (e e' : Option Int) (m : Meta) (ws : List Word)
    (merged : List Str) (pre : Str) :
    showDefnBody { o with expert := e } m ws merged pre
      = showDefnBody { o with expert := e' } m ws merged pre := rfl

theorem showScopeBody_expert (o : ShowOpts) (e e' : Option Int) (m : Meta) (fm : Bool)
    (inner : List Str → Str → R (List Str)) (merged : List Str) (pre : Str) :
    showScopeBody { o with expert := e } m fm inner merged pre
      = showScopeBody { o with expert := e' } m fm inner merged pre := rfl

theorem ExpertWF_scope (m : Meta) (objs : List Obj) :
    ExpertWF (.scope m objs) = (expertOk m && ExpertWFs objs) := by simp [ExpertWF]
theorem ExpertWF_defn (m : Meta) (ws : List Word) : ExpertWF (.defn m ws) = expertOk m := by
  simp [ExpertWF]
theorem ExpertWFs_cons (x : Obj) (xs : List Obj) :
    ExpertWFs (x :: xs) = (ExpertWF x && ExpertWFs xs) := by simp [ExpertWFs]
theorem DottedWF_scope (m : Meta) (objs : List Obj) :
    DottedWF (.scope m objs) = ((m.name.isEmpty || uniformMerge objs) && DottedWFs objs) := by
  simp [DottedWF]
theorem DottedWFs_cons (x : Obj) (xs : List Obj) :
    DottedWFs (x :: xs) = (DottedWF x && DottedWFs xs) := by simp [DottedWFs]

/-- Expert gate = pruning, for `k ≥ 0`. -/
theorem showObj_prune_aux (o : ShowOpts) (k : Int) (hk : 0 ≤ k) (t : Obj) :
    ∀ (ms : List Str) (pre : Str), ExpertWF t = true → DottedWF t = true →
      showObj { o with expert := some k } t ms pre
        = showOpt { o with expert := none } (prune k t) ms pre := by
  induction t using Obj.rec
    (motive_2 := fun ts => ∀ (ms : List Str) (pre : Str), ExpertWFs ts = true → DottedWFs ts = true →
      showObjs { o with expert := some k } ts ms pre
        = showObjs { o with expert := none } (pruneList k ts) ms pre) with
  | defn m ws =>
    intro ms pre hw _
    rw [ExpertWF_defn] at hw
    rw [showObj_defn_eq, showDefn_eq, prune_defn]
    simp only [expertHidden_wf m k hk hw]
    cases hh : hiddenAt k m
    · simp only [expertGate_false, Bool.false_eq_true, ↓reduceIte, showOpt, showObj_defn_eq,
        showDefn_eq, expertHidden_none]
      rw [showDefnBody_expert o (some k) none]
    · simp only [expertGate_true, ↓reduceIte, showOpt]
      split
      · rfl
      · split <;> rfl
  | scope m objs ih =>
    intro ms pre hw hd
    rw [ExpertWF_scope, Bool.and_eq_true] at hw
    rw [DottedWF_scope, Bool.and_eq_true] at hd
    rw [showObj_scope_eq, prune_scope]
    simp only [expertHidden_wf m k hk hw.1]
    by_cases ht : (decide (m.tmpl < 0) && decide (o.level < 2)) = true
    · rw [if_pos ht]
      split
      · rfl
      · split
        · rfl
        · simp only [showOpt, showObj_scope_eq]
          rw [if_pos ht]
    · rw [if_neg ht]
      cases hh : hiddenAt k m
      · simp only [expertGate_false, Bool.false_eq_true, ↓reduceIte]
        rw [showScopeBody_expert o (some k) none,
          showScopeBody_congr _ m _ _ _ (fun ms pre => ih ms pre hw.2 hd.2)]
        cases hfe : (firstMerges objs && (pruneList k objs).isEmpty)
        · simp only [Bool.false_eq_true, ↓reduceIte, showOpt, showObj_scope_eq]
          rw [if_neg ht, expertHidden_none, expertGate_false]
          cases hn : m.name.isEmpty
          · have hu : uniformMerge objs = true := by simpa [hn] using hd.1
            rw [firstMerges_pruneList k objs hu hfe]
          · exact showScopeBody_noname _ m _ _ _ hn ms pre
        · simp only [↓reduceIte, showOpt]
          rw [Bool.and_eq_true] at hfe
          have he : pruneList k objs = [] := by simpa using hfe.2
          rw [hfe.1, he]
          exact showScopeBody_dotted_empty _ m _ (fun _ _ => rfl) ms pre
      · simp only [expertGate_true, ↓reduceIte, showOpt]
  | nil => rfl
  | cons x xs ihx ihxs =>
    rename_i ms pre hw hd
    rw [ExpertWFs_cons, Bool.and_eq_true] at hw
    rw [DottedWFs_cons, Bool.and_eq_true] at hd
    rw [showObjs_cons, ihx ms pre hw.1 hd.1, ihxs ms pre hw.2 hd.2, pruneList_cons]
    cases prune k x with
    | none => simp [showOpt]
    | some x' => simp only [showOpt]; rw [showObjs_cons]

theorem showObjs_prune_aux (o : ShowOpts) (k : Int) (hk : 0 ≤ k) (ts : List Obj) :
    ∀ (ms : List Str) (pre : Str), ExpertWFs ts = true → DottedWFs ts = true →
      showObjs { o with expert := some k } ts ms pre
        = showObjs { o with expert := none } (pruneList k ts) ms pre := by
  induction ts with
  | nil => intro ms pre _ _; rfl
  | cons x xs ih =>
    intro ms pre hw hd
    rw [ExpertWFs_cons, Bool.and_eq_true] at hw
    rw [DottedWFs_cons, Bool.and_eq_true] at hd
    rw [showObjs_cons, showObj_prune_aux o k hk x ms pre hw.1 hd.1, ih ms pre hw.2 hd.2,
      pruneList_cons]
    cases prune k x with
    | none => simp [showOpt]
    | some x' => simp only [showOpt]; rw [showObjs_cons]

/-- A negative requested level switches the gate off (no well-formedness needed). -/
theorem showObj_expert_neg_aux (o : ShowOpts) (k : Int) (hk : k < 0) (t : Obj) :
    ∀ (ms : List Str) (pre : Str),
      showObj { o with expert := some k } t ms pre = showObj { o with expert := none } t ms pre := by
  induction t using Obj.rec
    (motive_2 := fun ts => ∀ (ms : List Str) (pre : Str),
      showObjs { o with expert := some k } ts ms pre
        = showObjs { o with expert := none } ts ms pre) with
  | defn m ws =>
    intro ms pre
    rw [showObj_defn_eq, showObj_defn_eq, showDefn_eq, showDefn_eq]
    simp only [expertHidden_neg _ k hk, expertHidden_none]
    rw [showDefnBody_expert o (some k) none]
  | scope m objs ih =>
    intro ms pre
    rw [showObj_scope_eq, showObj_scope_eq]
    simp only [expertHidden_neg _ k hk, expertHidden_none]
    rw [showScopeBody_expert o (some k) none, showScopeBody_congr _ m _ _ _ ih]
  | nil => rfl
  | cons x xs ihx ihxs =>
    rw [showObjs_cons, showObjs_cons, ihx, ihxs]

theorem showObjs_expert_neg_aux (o : ShowOpts) (k : Int) (hk : k < 0) (ts : List Obj) :
    ∀ (ms : List Str) (pre : Str),
      showObjs { o with expert := some k } ts ms pre
        = showObjs { o with expert := none } ts ms pre := by
  induction ts with
  | nil => intro ms pre; rfl
  | cons x xs ih =>
    intro ms pre
    rw [showObjs_cons, showObjs_cons, showObj_expert_neg_aux o k hk, ih]

/-! ## attribute levels only add lines -/

theorem attrShown_mono (level : Int) (name : String) (value : AttrVal)
    (h : attrShown level name value = true) : attrShown (level + 1) name value = true := by
  unfold attrShown at h ⊢
  split
  · rename_i h1; rw [if_pos h1] at h; cases h
  · rename_i h1
    rw [if_neg h1] at h
    split at h
    · rename_i h2
      have h2' : ((name == "help" && !value.isNone) || (name == "alias" && !value.isNone) ||
          (!value.isNone && decide (level + 1 > 1)) || decide (level + 1 > 2)) = true := by
        simp only [Bool.or_eq_true, Bool.and_eq_true, decide_eq_true_eq] at h2 ⊢
        rcases h2 with ((h2 | h2) | h2) | h2
        · exact Or.inl (Or.inl (Or.inl h2))
        · exact Or.inl (Or.inl (Or.inr h2))
        · exact Or.inl (Or.inr ⟨h2.1, by omega⟩)
        · exact Or.inr (by omega)
      rw [if_pos h2']
      exact h
    · cases h

/-- per name: if the higher level succeeds so does the lower, with a sublist of the lines -/
theorem attrOne_mono (attrs : Attrs) (pre : Str) (level width : Int) (name : String)
    (l2 : List Str) (h2 : attrOne attrs pre (level + 1) width name = .ok l2) :
    ∃ l1, attrOne attrs pre level width name = .ok l1 ∧ l1.Sublist l2 := by
  unfold attrOne at h2 ⊢
  cases hs : attrShown level name (attrs.get name)
  · exact ⟨[], by simp, List.nil_sublist _⟩
  · rw [attrShown_mono _ _ _ hs] at h2
    simp only [↓reduceIte] at h2 ⊢
    exact ⟨l2, h2, List.Sublist.refl _⟩

theorem attrAll_mono (attrs : Attrs) (pre : Str) (level width : Int) (names : List String) :
    ∀ (l2 : List Str), attrAll attrs pre (level + 1) width names = .ok l2 →
      ∃ l1, attrAll attrs pre level width names = .ok l1 ∧ l1.Sublist l2 := by
  induction names with
  | nil => intro l2 h2; exact ⟨[], rfl, List.nil_sublist _⟩
  | cons n ns ih =>
    intro l2 h2
    simp only [attrAll] at h2 ⊢
    cases h1 : attrOne attrs pre (level + 1) width n with
    | error e => rw [h1] at h2; cases h2
    | ok a2 =>
      rw [h1] at h2
      cases hr : attrAll attrs pre (level + 1) width ns with
      | error e => rw [hr] at h2; cases h2
      | ok r2 =>
        rw [hr] at h2
        simp only [Except.ok.injEq] at h2
        obtain ⟨a1, ha1, hs1⟩ := attrOne_mono attrs pre level width n a2 h1
        obtain ⟨r1, hr1, hs2⟩ := ih r2 hr
        rw [ha1, hr1]
        exact ⟨a1 ++ r1, rfl, by rw [← h2]; exact List.Sublist.append hs1 hs2⟩

/-- If `show_attributes` succeeds at `level + 1` it succeeds at `level`, and the lines at `level`
    are a sublist of those at `level + 1`. -/
theorem showAttributes_mono_ok (names : List String) (attrs : Attrs) (pre : Str) (level width : Int)
    (l2 : List Str) (h2 : showAttributes names attrs pre (level + 1) width = .ok l2) :
    ∃ l1, showAttributes names attrs pre level width = .ok l1 ∧ l1.Sublist l2 := by
  rw [showAttributes_all] at h2 ⊢
  by_cases h0 : level ≤ 0
  · rw [if_pos h0]; exact ⟨[], rfl, List.nil_sublist _⟩
  · rw [if_neg h0]
    rw [if_neg (by omega)] at h2
    exact attrAll_mono attrs pre level width names l2 h2

theorem showAttributes_mono (names : List String) (attrs : Attrs) (pre : Str) (level width : Int)
    (l1 l2 : List Str) (h1 : showAttributes names attrs pre level width = .ok l1)
    (h2 : showAttributes names attrs pre (level + 1) width = .ok l2) : l1.Sublist l2 := by
  obtain ⟨l1', h1', hs⟩ := showAttributes_mono_ok names attrs pre level width l2 h2
  rw [h1] at h1'
  cases h1'
  exact hs

theorem showAttributes_level_nonpos (names : List String) (attrs : Attrs) (pre : Str)
    (level width : Int) (h : level ≤ 0) : showAttributes names attrs pre level width = .ok [] := by
  unfold showAttributes
  rw [if_pos h]

/-! ## what pruning leaves -/

mutual
/-- no object of the tree has an integer `expert_level` above `k` -/
def AllVisible (k : Int) : Obj → Bool
  | .defn m _ => !hiddenAt k m
  | .scope m objs => !hiddenAt k m && AllVisibles k objs
def AllVisibles (k : Int) : List Obj → Bool
  | [] => true
  | x :: xs => AllVisible k x && AllVisibles k xs
end

theorem prune_allVisible_aux (k : Int) (t : Obj) :
    ∀ t', prune k t = some t' → AllVisible k t' = true := by
  induction t using Obj.rec
    (motive_2 := fun ts => AllVisibles k (pruneList k ts) = true) with
  | defn m ws =>
    intro t' h
    rw [prune_defn] at h
    split at h
    · cases h
    · rename_i hh; cases h; simpa [AllVisible] using hh
  | scope m objs ih =>
    intro t' h
    rw [prune_scope] at h
    split at h
    · cases h
    · rename_i hh
      split at h
      · cases h
      · cases h; simp only [AllVisible, Bool.and_eq_true]; exact ⟨by simpa using hh, ih⟩
  | nil => simp [pruneList, AllVisibles]
  | cons x xs ihx ihxs =>
    rw [pruneList_cons]
    cases hp : prune k x with
    | none => exact ihxs
    | some x' => simp only [AllVisibles, Bool.and_eq_true]; exact ⟨ihx x' hp, ihxs⟩

theorem pruneList_allVisible (k : Int) (ts : List Obj) : AllVisibles k (pruneList k ts) = true := by
  induction ts with
  | nil => simp [pruneList, AllVisibles]
  | cons x xs ih =>
    rw [pruneList_cons]
    cases hp : prune k x with
    | none => exact ih
    | some x' =>
      simp only [AllVisibles, Bool.and_eq_true]; exact ⟨prune_allVisible_aux k x x' hp, ih⟩

end Phil
