/-
  Phil.Proofs.NoStray — lemmas for the C16 theorems on the argument interpreter, fetch, extract and
  format (Phil/Props/C16Fetch.lean): which `Err.stray` sites each model function can reach.
  Every name defined here ends in `_ns` (or lives in `StrayIn`/`Err.strayIn`).
-/
import Phil.Proofs.TotalityLemmas
import Phil.Proofs.FetchTree
import Phil.Proofs.CmdLineLemmas
set_option linter.unusedVariables false
namespace Phil

/-! ## 0. the predicate "the only `stray` errors are those of the list `L`" -/

abbrev Sites_ns := List (String × String)

/-- an error that is not a `stray`, or is a `stray` at one of the listed (class, site) pairs -/
def Err.strayIn (L : Sites_ns) : Err → Prop
  | .stray cls site => (cls, site) ∈ L
  | _ => True

/-- a result that is a value, a non-stray error, or a stray at a listed site -/
def StrayIn {α : Type} (L : Sites_ns) (r : R α) : Prop := ∀ e, r = .error e → e.strayIn L

theorem Err.strayIn_mono {L L' : Sites_ns} (h : ∀ x ∈ L, x ∈ L') {e : Err} (he : e.strayIn L) :
    e.strayIn L' := by
  cases e <;> first | trivial | exact h _ he

theorem Err.strayIn_of_benign {L : Sites_ns} {e : Err} (h : e.benign = true) : e.strayIn L := by
  cases e <;> first | trivial | cases h

theorem StrayIn.ok {α : Type} {L : Sites_ns} (a : α) : StrayIn L (Except.ok a : R α) := by
  intro e h; cases h

theorem StrayIn.err {α : Type} {L : Sites_ns} {e : Err} (h : e.strayIn L) :
    StrayIn L (Except.error e : R α) := by
  intro e' h'; cases h'; exact h

theorem StrayIn.mono {α : Type} {L L' : Sites_ns} {r : R α} (h : ∀ x ∈ L, x ∈ L')
    (hr : StrayIn L r) : StrayIn L' r := fun e he => Err.strayIn_mono h (hr e he)

theorem StrayIn.of_benign {α : Type} {L : Sites_ns} {r : R α} (h : OkOrBenign r) : StrayIn L r := by
  intro e he; subst he; exact Err.strayIn_of_benign h

theorem StrayIn.map {α β : Type} {L : Sites_ns} {r : R α} (f : α → β) (h : StrayIn L r) :
    StrayIn L (r.map f) := by
  cases r with
  | ok v => exact StrayIn.ok _
  | error e => exact StrayIn.err (h e rfl)

theorem StrayIn.ite {α : Type} {L : Sites_ns} {c : Prop} [Decidable c] {a b : R α}
    (ha : StrayIn L a) (hb : StrayIn L b) : StrayIn L (if c then a else b) := by
  split <;> assumption

/-- the shape `match r with | .error e => .error e | .ok v => g v` -/
theorem StrayIn.bind {α β : Type} {L : Sites_ns} {r : R α} {g : α → R β} (hr : StrayIn L r)
    (hg : ∀ v, r = .ok v → StrayIn L (g v)) :
    StrayIn L (match r with | .error e => .error e | .ok v => g v) := by
  cases r with
  | ok v => exact hg v rfl
  | error e => exact StrayIn.err (hr e rfl)

theorem foldlM_strayIn_ns {α β : Type} {L : Sites_ns} (f : β → α → R β) :
    ∀ (l : List α), (∀ b a, a ∈ l → StrayIn L (f b a)) → ∀ (b : β), StrayIn L (l.foldlM f b) := by
  intro l
  induction l with
  | nil => intro _ b; exact StrayIn.ok _
  | cons a as ih =>
    intro hf b
    rw [List.foldlM_cons]
    cases hc : f b a with
    | error e => exact StrayIn.err (hf b a List.mem_cons_self e hc)
    | ok b' => exact ih (fun b a' ha' => hf b a' (List.mem_cons_of_mem _ ha')) b'

/-- nothing strays and the loop bound is not hit: the conclusion of the C16 statements -/
theorem benign_cases_ns {e : Err} (h : e.benign = true) :
    (∃ s l, e = .runtime s l) ∨ (∃ w, e = .unsupported w) := (Err.benign_iff e).1 h

theorem OkOrBenign.bind_ns {α β : Type} {r : R α} {g : α → R β} (hr : OkOrBenign r)
    (hg : ∀ v, r = .ok v → OkOrBenign (g v)) :
    OkOrBenign (match r with | .error e => .error e | .ok v => g v) := by
  cases r with
  | ok v => exact hg v rfl
  | error e => exact hr

/-! ## 1. `masterActiveObjects` fails with RuntimeError only -/

theorem masterActive_go_benign_ns :
    ∀ (l : List (Nat × Obj)) (seen : List (Str × Obj)) (acc : List (Nat × Obj)),
      OkOrBenign (masterActiveObjects.go l seen acc) := by
  intro l
  induction l with
  | nil => intro seen acc; simp only [masterActiveObjects.go]; trivial
  | cons p rest ih =>
    intro seen acc
    obtain ⟨i, o⟩ := p
    simp only [masterActiveObjects.go]
    split
    · exact ih _ _
    · split
      · exact ih _ _
      · split
        · exact ih _ _
        · split
          · rfl
          · exact ih _ _

theorem masterActiveObjects_benign_ns (objs : List Obj) : OkOrBenign (masterActiveObjects objs) := by
  unfold masterActiveObjects
  exact masterActive_go_benign_ns _ _ _

/-! ## 2. converters: `from_words` -/

def fromWordsSites_ns : Sites_ns := [("AssertionError", "bool_from_words")]

theorem boolFromWords_strayIn_ns (ws : List Word) : StrayIn fromWordsSites_ns (boolFromWords ws) := by
  intro e h
  rcases boolFromWords_spec ws with ⟨_, h2⟩ | ⟨_, h2⟩ | ⟨s, _, ⟨_, h2⟩ | ⟨_, h2⟩ | ⟨_, _, h2⟩⟩
  all_goals rw [h2] at h
  all_goals first | (cases h; done) | skip
  cases h
  split
  · exact List.mem_cons_self
  · trivial

/-- `from_words` on ANY word list (the empty one included): the only stray is the `assert` of
    `bool_from_words` -/
theorem fromWords_strayIn_ns (c : Conv) (env : EvalEnv) (opt : AttrVal) (ws : List Word) :
    StrayIn fromWordsSites_ns (fromWords c env opt ws) := by
  by_cases hne : ws = []
  · cases c with
    | bool =>
      rw [fromWords_bool]
      exact (boolFromWords_strayIn_ns ws).map _
    | words => subst hne; apply StrayIn.of_benign; unfold fromWords; dsimp only; exact OkOrBenign.ite trivial (OkOrBenign.ite trivial trivial)
    | strings => apply StrayIn.of_benign; unfold fromWords; dsimp only; exact OkOrBenign.ite trivial (OkOrBenign.ite trivial trivial)
    | str => apply StrayIn.of_benign; unfold fromWords; dsimp only; split <;> first | trivial | rfl
    | key => apply StrayIn.of_benign; unfold fromWords; dsimp only; split <;> first | trivial | rfl
    | qstr => apply StrayIn.of_benign; unfold fromWords; dsimp only; exact OkOrBenign.ite trivial (OkOrBenign.ite trivial trivial)
    | path =>
      apply StrayIn.of_benign
      unfold fromWords; dsimp only
      split
      · trivial
      · trivial
      · split <;> first | trivial | rfl
      · rfl
    | int a => apply StrayIn.of_benign; rw [fromWords_int_eq]; exact scalarTail_okOrBenign _ _ _ _
    | float a => apply StrayIn.of_benign; rw [fromWords_float_eq]; exact scalarTail_okOrBenign _ _ _ _
    | ints a => apply StrayIn.of_benign; rw [fromWords_ints_eq]; exact listTail_okOrBenign _ _ _ _
    | floats a => apply StrayIn.of_benign; rw [fromWords_floats_eq]; exact listTail_okOrBenign _ _ _ _
    | choice multi =>
      apply StrayIn.of_benign
      rw [fromWords_choice_eq]
      split
      · trivial
      · split
        · split <;> first | trivial | rfl
        · split
          · split <;> first | trivial | rfl
          · trivial
          · rfl
  · exact StrayIn.of_benign (fromWords_okOrBenign c env opt hne)

theorem extractDefn_strayIn_ns (e : Envs) (m : Meta) (ws : List Word) :
    StrayIn fromWordsSites_ns (extractDefn e m ws) := by
  unfold extractDefn
  split
  · exact fromWords_strayIn_ns _ _ _ _
  · exact fromWords_strayIn_ns _ _ _ _
  · exact StrayIn.err trivial
  · exact StrayIn.err trivial

theorem extractDefn_benign_ns (e : Envs) (m : Meta) {ws : List Word} (hne : ws ≠ []) :
    OkOrBenign (extractDefn e m ws) := by
  unfold extractDefn
  split
  · exact fromWords_okOrBenign _ _ _ hne
  · exact fromWords_okOrBenign _ _ _ hne
  · rfl
  · rfl

/-! ## 3. `__phil_join__`, `__phil_set__`, `scope.extract` -/

def philJoinSites_ns : Sites_ns := [("AssertionError", "phil_join"), ("AttributeError", "phil_join")]
def philSetSites_ns : Sites_ns := ("AttributeError", "phil_set_append") :: philJoinSites_ns
def extractSites_ns : Sites_ns := ("AssertionError", "bool_from_words") :: philSetSites_ns

theorem philJoin_strayIn_ns : ∀ (fuel : Nat) (self other : List (Str × PVal)),
    StrayIn philJoinSites_ns (philJoin fuel self other) := by
  intro fuel
  induction fuel with
  | zero => intro self other; rw [philJoin]; exact StrayIn.err trivial
  | succ fuel ih =>
    intro self other
    rw [philJoin]
    apply foldlM_strayIn_ns
    intro acc kv _
    obtain ⟨key, ov⟩ := kv
    dsimp only
    split
    · exact StrayIn.ok _
    · split
      · exact StrayIn.ok _
      · exact StrayIn.ok _
      · split
        · exact StrayIn.ok _
        · exact StrayIn.err (by simp [Err.strayIn, philJoinSites_ns])
      · split
        · exact (ih _ _).map _
        · exact StrayIn.err (by simp [Err.strayIn, philJoinSites_ns])
      · exact StrayIn.ok _

theorem philSet_strayIn_ns (fs : List (Str × PVal)) (name : Str) (optional : AttrVal) (multiple : Bool)
    (x : XVal) : StrayIn philSetSites_ns (philSet fs name optional multiple x) := by
  unfold philSet
  split
  · dsimp only
    split
    · exact ((philJoin_strayIn_ns _ _ _).map _).mono (fun x hx => List.mem_cons_of_mem _ hx)
    · exact StrayIn.ok _
  · dsimp only
    split
    · split
      · exact StrayIn.ok _
      · exact StrayIn.ite (StrayIn.ok _) (StrayIn.ok _)
    · split
      · exact StrayIn.ok _
      · exact StrayIn.err (by simp [Err.strayIn, philSetSites_ns])

/-- **stray sites of `scope.extract`**, any object, any fuel -/
theorem extractObj_strayIn_ns (e : Envs) : ∀ (fuel : Nat) (o : Obj),
    StrayIn extractSites_ns (extractObj e fuel o) := by
  intro fuel
  induction fuel with
  | zero => intro o; rw [extractObj]; exact StrayIn.err trivial
  | succ fuel ih =>
    intro o
    cases o with
    | defn m ws =>
      rw [extractObj]
      exact (extractDefn_strayIn_ns e m ws).mono (by simp [fromWordsSites_ns, extractSites_ns])
    | scope m kids =>
      rw [extractObj]
      apply StrayIn.map
      apply foldlM_strayIn_ns
      intro fs o _
      dsimp only
      split
      · exact StrayIn.ok _
      · split
        · rename_i err herr
          apply StrayIn.err
          split at herr
          · cases herr
          · exact ((ih o).map XVal.val) err herr
        · exact (philSet_strayIn_ns _ _ _ _ _).mono (fun x hx => List.mem_cons_of_mem _ hx)

/-! ## 4. converters: `as_words` -/

/-- the (converter, value) pairs on which `as_words` answers a `stray` in the model: `None` handed
    to a multi-choice (an `assert` of the code) and a non-number handed to `int`/`float`
    (`"%d" % value` / `"%.10g" % value` raise TypeError) -/
def asWordsStrays_ns : Conv → PVal → Bool
  | .choice true, .none => true
  | .int _, v | .float _, v =>
    (match v with
     | .str _ | .list _ | .words _ | .record _ | .multi _ _ => true
     | _ => false)
  | _, _ => false

theorem numStr_benign_ns (isInt : Bool) (fmt : FmtEnv) (v : PVal)
    (hv : (match v with | .num _ | .bool _ => true | _ => false) = true) : OkOrBenign (numStr isInt fmt v) := by
  unfold numStr
  split
  · split
    · trivial
    · split <;> first | trivial | rfl
  · split
    · rfl
    · split <;> first | trivial | rfl
  · split <;> first | trivial | rfl
  · rename_i h1 h2 h3
    cases v <;> simp at hv
    · exact absurd rfl (h3 _)
    · rename_i n; cases n
      · exact absurd rfl (h1 _)
      all_goals exact absurd rfl (h2 _)

theorem scalarAsWords_benign_ns (isInt : Bool) (fmt : FmtEnv) (v : PVal) (chk : R Unit)
    (hchk : OkOrBenign chk)
    (hv : (match v with | .num _ | .bool _ => true | _ => false) = true) :
    OkOrBenign (match chk with
      | .error e => .error e
      | .ok () => (numStr isInt fmt v).map (fun s => ([{ value := s }] : List Word))) := by
  cases chk with
  | error e => exact hchk
  | ok u => exact (numStr_benign_ns isInt fmt v hv).map _

theorem listAsWords_benign_ns (isInt : Bool) (a : ListArgs) (fmt : FmtEnv) (vs : List PVal) :
    OkOrBenign (match checkSize a.sizeMin a.sizeMax [] false vs.length with
     | .error e => .error e
     | .ok () =>
       vs.foldlM (init := ([] : List Word)) (fun (acc : List Word) (x : PVal) => match x with
         | .none => if a.allowNoneEl then .ok (acc ++ [wordOf "None"]) else .error (.runtime "element_none" Option.none)
         | .auto => if a.allowAutoEl then .ok (acc ++ [wordOf "Auto"]) else .error (.runtime "element_auto" Option.none)
         | .num n =>
           (match checkValue a.valueMin a.valueMax [] false n with
            | .error e => .error e
            | .ok () => (numStr isInt fmt (.num n)).map (fun s => acc ++ [{ value := s }]))
         | _ => .error (.unsupported "list element"))) := by
  have hs := checkSize_okOrBenign a.sizeMin a.sizeMax [] false vs.length
  cases hc : checkSize a.sizeMin a.sizeMax [] false vs.length with
  | error e => rw [hc] at hs; exact hs
  | ok u =>
    refine foldlM_okOrBenign _ ?_ _ _
    intro acc x
    split
    · split <;> first | exact True.intro | exact Eq.refl true
    · split <;> first | exact True.intro | exact Eq.refl true
    · rename_i n
      have hv := checkValue_okOrBenign a.valueMin a.valueMax [] false n
      cases hcv : checkValue a.valueMin a.valueMax [] false n with
      | error e => rw [hcv] at hv; exact hv
      | ok u => exact (numStr_benign_ns isInt fmt (.num n) rfl).map _
    · exact Eq.refl true

theorem asWords_benign_ns (c : Conv) (fmt : FmtEnv) (opt : AttrVal) (mw : List Word) (v : PVal)
    (h : asWordsStrays_ns c v = false) : OkOrBenign (asWords c fmt opt mw v) := by
  cases c <;> cases v
  all_goals try (first | exact True.intro | exact Eq.refl true)
  all_goals try (cases h; done)
  case strings.list l =>
    refine OkOrBenign.map _ (foldlM_okOrBenign _ ?_ _ _)
    intro st x
    split <;> first | exact True.intro | exact Eq.refl true
  case qstr.str s =>
    show OkOrBenign (match tokenizeValueLiteral s with
     | .ok ws => .ok (ws.map (fun w => { w with line := w.line }))
     | .error e => .error (tokErr e))
    split
    · exact True.intro
    · exact Err.benign_of_isRuntime (tokErr_isRuntime _)
  case int.none a =>
    show OkOrBenign (if a.allowNone then .ok [wordOf "None"] else .error (.runtime "cannot_be_none" Option.none))
    split <;> first | exact True.intro | exact Eq.refl true
  case float.none a =>
    show OkOrBenign (if a.allowNone then .ok [wordOf "None"] else .error (.runtime "cannot_be_none" Option.none))
    split <;> first | exact True.intro | exact Eq.refl true
  case int.bool a b => exact scalarAsWords_benign_ns true fmt (.bool b) _ (checkValue_okOrBenign _ _ _ _ _) rfl
  case int.num a n => exact scalarAsWords_benign_ns true fmt (.num n) _ (checkValue_okOrBenign _ _ _ _ _) rfl
  case float.bool a b => exact scalarAsWords_benign_ns false fmt (.bool b) _ (checkValue_okOrBenign _ _ _ _ _) rfl
  case float.num a n => exact scalarAsWords_benign_ns false fmt (.num n) _ (checkValue_okOrBenign _ _ _ _ _) rfl
  case ints.list a l => exact listAsWords_benign_ns true a fmt l
  case floats.list a l => exact listAsWords_benign_ns false a fmt l
  case choice.bool multi b => cases multi <;> exact Eq.refl true
  case choice.num multi b => cases multi <;> exact Eq.refl true
  case choice.words multi b => cases multi <;> exact Eq.refl true
  case choice.record multi b => cases multi <;> exact Eq.refl true
  case choice.multi multi o b => cases multi <;> exact Eq.refl true
  case choice.none multi =>
    cases multi
    · show OkOrBenign ((if opt.mandatory then .error (.runtime "invalid_choice" Option.none)
        else .ok (mw.map (fun w => { value := (stripStar w.value).1, quote := w.quote }))) : R (List Word))
      split <;> first | exact True.intro | exact Eq.refl true
    · cases h
  case choice.str multi s =>
    cases multi
    · show OkOrBenign ((
        let hits := mw.filter (fun w => (stripStar w.value).1 == s)
        if hits.length > 1 then .error (.runtime "improper_master_choice" (firstLine mw))
        else if hits.isEmpty then .error (.runtime "invalid_choice" Option.none)
        else .ok (mw.map (fun w =>
          let value := (stripStar w.value).1
          { value := if value == s then '*' :: value else value, quote := w.quote }))) : R (List Word))
      dsimp only
      split
      · exact Eq.refl true
      · split <;> first | exact True.intro | exact Eq.refl true
    · exact Eq.refl true
  case choice.list multi vs =>
    cases multi
    · exact Eq.refl true
    · delta asWords
      dsimp only
      repeat' (first | exact True.intro | exact Eq.refl true | split)
def asWordsSites_ns : Sites_ns := [("TypeError", "value_as_str"), ("AssertionError", "choice_as_words")]

/-- the exception the model answers on an excluded pair -/
def asWordsStrayOf_ns : Conv → Err
  | .choice _ => .stray "AssertionError" "choice_as_words"
  | _ => .stray "TypeError" "value_as_str"

theorem asWords_strays_ns (c : Conv) (fmt : FmtEnv) (opt : AttrVal) (mw : List Word) (v : PVal)
    (h : asWordsStrays_ns c v = true) : asWords c fmt opt mw v = .error (asWordsStrayOf_ns c) := by
  cases c with
  | choice multi => cases multi <;> cases v <;> first | (cases h; done) | rfl
  | _ => cases v <;> first | (cases h; done) | rfl

theorem asWords_strayIn_ns (c : Conv) (fmt : FmtEnv) (opt : AttrVal) (mw : List Word) (v : PVal) :
    StrayIn asWordsSites_ns (asWords c fmt opt mw v) := by
  cases h : asWordsStrays_ns c v with
  | false => exact StrayIn.of_benign (asWords_benign_ns c fmt opt mw v h)
  | true =>
    rw [asWords_strays_ns c fmt opt mw v h]
    apply StrayIn.err
    cases c <;> simp [asWordsStrayOf_ns, Err.strayIn, asWordsSites_ns]

/-! ## 5. `scope.format` -/

def formatSites_ns : Sites_ns :=
  [("TypeError", "value_as_str"), ("AssertionError", "choice_as_words"),
   ("TypeError", "format_iterate"), ("TypeError", "format_len"), ("AttributeError", "phil_get")]

theorem formatDefn_strayIn_ns (e : Envs) (m : Meta) (ws : List Word) (v : PVal) :
    StrayIn formatSites_ns (formatDefn e m ws v) := by
  unfold formatDefn
  dsimp only
  split
  · rename_i err herr
    apply StrayIn.err
    split at herr <;> cases herr <;> trivial
  · exact ((asWords_strayIn_ns _ _ _ _ _).map _).mono (by simp [asWordsSites_ns, formatSites_ns])

theorem formatObj_strayIn_ns (e : Envs) : ∀ (fuel : Nat) (o : Obj) (v : PVal),
    StrayIn formatSites_ns (formatObj e fuel o v) := by
  intro fuel
  induction fuel with
  | zero => intro o v; rw [formatObj]; exact StrayIn.err trivial
  | succ fuel ih =>
    intro o v
    cases o with
    | defn m ws => rw [formatObj]; exact formatDefn_strayIn_ns e m ws v
    | scope m kids =>
      unfold formatObj
      split
      · rename_i err herr
        exact StrayIn.err (Err.strayIn_of_benign ((masterActiveObjects_benign_ns kids).error herr))
      · rename_i actives hact
        dsimp only
        split
        · rename_i err herr
          refine StrayIn.err ?_
          revert err
          show StrayIn formatSites_ns _
          apply foldlM_strayIn_ns
          intro st io _
          split
          · exact StrayIn.ok _
          · split
            · exact (ih _ _).map _
            · exact (ih _ _).map _
            · split
              · rename_i err herr
                split at herr
                all_goals cases herr
                exact StrayIn.err (by simp [Err.strayIn, formatSites_ns])
              · rename_i pobjs hp
                apply foldlM_strayIn_ns
                intro st pi _
                split
                · split
                  · exact StrayIn.ok _
                  · split
                    · exact (ih _ _).map _
                    · split
                      · rename_i err herr
                        split at herr
                        all_goals cases herr
                        · exact StrayIn.err trivial
                        · exact StrayIn.err (by simp [Err.strayIn, formatSites_ns])
                      · exact StrayIn.ok _
                      · apply StrayIn.map
                        apply foldlM_strayIn_ns
                        intro acc x _
                        exact (ih _ _).map _
                · exact StrayIn.err (by simp [Err.strayIn, formatSites_ns])
        · exact StrayIn.ok _

/-! ## 6. `as_str()` with default options never fails; `extract_format(...).as_str()` -/

theorem showAttributes_level0_ns (names : List String) (attrs : Attrs) (p : Str) (w : Int) :
    showAttributes names attrs p 0 w = .ok [] := by
  unfold showAttributes; simp

theorem expertHidden_none_ns (own : AttrVal) : expertHidden own none = .ok false := by
  cases own <;> rfl

theorem showDefn_default_ok_ns (m : Meta) (ws : List Word) (merged : List Str) (p : Str) :
    ∃ l, showDefn {} m ws merged p = .ok l := by
  unfold showDefn
  simp only [expertHidden_none_ns, showAttributes_level0_ns]
  split
  · exact ⟨_, rfl⟩
  · split
    · exact ⟨_, rfl⟩
    · exact ⟨_, rfl⟩

def firstMerges_ns (objs : List Obj) : Bool :=
  match objs with
  | c :: _ => c.meta.mergeNames
  | [] => false

theorem showObj_scope_eq_ns (o : ShowOpts) (m : Meta) (objs : List Obj) (merged : List Str) (p : Str) :
    showObj o (.scope m objs) merged p =
      if m.tmpl < 0 && o.level < 2 then .ok []
      else
        match expertHidden (m.attrs.get "expert_level") o.expert with
        | .error e => .error e
        | .ok true => .ok []
        | .ok false =>
          if m.name.isEmpty then showObjs o objs merged p
          else
            if firstMerges_ns objs then
              showObjs o objs (merged ++ [m.name]) p
            else
              let hash : Str := if m.disabled then ['!'] else []
              match showAttributes scopeAttrNames m.attrs p o.level o.width with
              | .error e => .error e
              | .ok attrs =>
                let mergedName := joinWith ['.'] (merged ++ [m.name])
                let head := if attrs.isEmpty then [p ++ hash ++ mergedName ++ " {".toList]
                            else [p ++ hash ++ mergedName] ++ attrs ++ [p ++ ['{']]
                match showObjs o objs [] (p ++ "  ".toList) with
                | .error e => .error e
                | .ok body => .ok (head ++ body ++ [p ++ ['}']]) := by
  cases objs <;> rfl

mutual
theorem showObj_default_ok_ns : ∀ (o : Obj) (merged : List Str) (p : Str), ∃ l, showObj {} o merged p = .ok l
  | .defn m ws, merged, p => by rw [showObj]; exact showDefn_default_ok_ns m ws merged p
  | .scope m objs, merged, p => by
    rw [showObj_scope_eq_ns]
    simp only [expertHidden_none_ns, showAttributes_level0_ns]
    split
    · exact ⟨_, rfl⟩
    · split
      · exact showObjs_default_ok_ns objs merged p
      · split
        · exact showObjs_default_ok_ns objs _ p
        · obtain ⟨b, hb⟩ := showObjs_default_ok_ns objs [] (p ++ "  ".toList)
          rw [hb]
          exact ⟨_, rfl⟩
theorem showObjs_default_ok_ns : ∀ (l : List Obj) (merged : List Str) (p : Str), ∃ r, showObjs {} l merged p = .ok r
  | [], merged, p => by rw [showObjs]; exact ⟨_, rfl⟩
  | x :: xs, merged, p => by
    rw [showObjs]
    obtain ⟨a, ha⟩ := showObj_default_ok_ns x merged p
    obtain ⟨b, hb⟩ := showObjs_default_ok_ns xs merged p
    rw [ha, hb]
    exact ⟨_, rfl⟩
end

def extractFormatSites_ns : Sites_ns := extractSites_ns ++ formatSites_ns

theorem extractFormatStr_strayIn_ns (e : Envs) (fuel : Nat) (master cand : Obj) :
    StrayIn extractFormatSites_ns (extractFormatStr e fuel master cand) := by
  unfold extractFormatStr
  split
  · rename_i err herr
    exact StrayIn.err (Err.strayIn_mono (fun x hx => List.mem_append_left _ hx) (extractObj_strayIn_ns e fuel cand err herr))
  · split
    · rename_i err herr
      exact StrayIn.err (Err.strayIn_mono (fun x hx => List.mem_append_right _ hx) (formatObj_strayIn_ns e fuel master _ err herr))
    · rename_i f hf
      obtain ⟨l, hl⟩ := showObj_default_ok_ns f [] []
      rw [hl]
      exact StrayIn.ok _

/-! ## 7. `scope.fetch` -/

def fetchSites_ns : Sites_ns := ("AssertionError", "choice_fetch") :: extractFormatSites_ns

theorem choiceFetch_strayIn_ns (mwords : List Word) (opt : AttrVal) (src : List Word) (ign : Bool) :
    StrayIn fetchSites_ns (choiceFetch mwords opt src ign) := by
  intro err herr
  rcases choiceFetch_error mwords opt src ign err herr with ⟨_, h⟩ | ⟨_, _, h⟩
  · subst h; exact List.mem_cons_self
  · subst h; trivial

theorem fetchValue_strayIn_ns (master src : Obj) : StrayIn fetchSites_ns (fetchValue master src) := by
  unfold fetchValue
  split
  · split
    · rename_i err herr
      apply StrayIn.err
      split at herr
      · cases herr; trivial
      · cases herr
      · split at herr <;> cases herr
        trivial
    · dsimp only
      split
      · exact StrayIn.ok _
      · split
        · exact (choiceFetch_strayIn_ns _ _ _ _).map _
        · exact StrayIn.ok _
  · exact StrayIn.err trivial
  · exact StrayIn.err trivial

theorem efs_fetch_ns (e : Envs) (fuel : Nat) (master cand : Obj) :
    StrayIn fetchSites_ns (extractFormatStr e fuel master cand) :=
  (extractFormatStr_strayIn_ns e fuel master cand).mono (fun x hx => List.mem_cons_of_mem _ hx)

theorem fetchDefn_strayIn_ns (e : Envs) (fuel : Nat) (diff : Bool) (master src : Obj) :
    StrayIn fetchSites_ns (fetchDefn e fuel diff master src) := by
  unfold fetchDefn
  split
  · rename_i err herr
    exact StrayIn.err (fetchValue_strayIn_ns master src err herr)
  · split
    · exact StrayIn.ok _
    · dsimp only
      split
      · rename_i err herr
        exact StrayIn.err (efs_fetch_ns _ _ _ _ err herr)
      · exact StrayIn.err (efs_fetch_ns _ _ _ _ _ (by assumption))
      · exact StrayIn.ite (StrayIn.ok _) (StrayIn.ok _)

theorem defnFinish_strayIn_ns {L : Sites_ns} (diff : Bool) (mo : Obj) (mm : Meta) (out : List Obj)
    (r : R (Option Obj × List Nat)) (hr : StrayIn L r) : StrayIn L (defnFinish diff mo mm out r) := by
  unfold defnFinish
  split
  · rename_i err; exact StrayIn.err (hr err rfl)
  · exact StrayIn.ok _
  · exact StrayIn.ite (StrayIn.ok _) (StrayIn.ok _)

theorem scopeBranch_strayIn_ns {L : Sites_ns} (F : FetchFn)
    (hF : ∀ d mm k s, StrayIn L (F d mm k s)) (diff : Bool) (mm : Meta) (kids matching out : List Obj)
    (used : List Nat) : StrayIn L (scopeBranch F diff mm kids matching out used) := by
  unfold scopeBranch
  split
  · exact StrayIn.err trivial
  · split
    · rename_i err herr; exact StrayIn.err (hF _ _ _ _ err herr)
    · exact StrayIn.ite (StrayIn.ok _) (StrayIn.ok _)

theorem candOf_strayIn_ns (F : FetchFn) (hF : ∀ d mm k s, StrayIn fetchSites_ns (F d mm k s))
    (e : Envs) (fuel : Nat) (diff : Bool) (mo : Obj) (fromM : Bool) (ms : Obj) :
    StrayIn fetchSites_ns (candOf F e fuel diff mo fromM ms) := by
  unfold candOf
  split
  · exact (fetchDefn_strayIn_ns _ _ _ _ _).map _
  · exact (hF _ _ _ _).map _
  · exact StrayIn.err trivial

theorem cAccept_ok_ns (diff fromM : Bool) (cs : Str) (c : Obj) (u : List Nat)
    (robjs : List (Option Obj)) (processed : List (Str × Int)) (used : List Nat) {L : Sites_ns} :
    StrayIn L (cAccept diff fromM cs c u robjs processed used) := by
  unfold cAccept
  dsimp only
  repeat' (first | exact StrayIn.ok _ | split)

theorem cstepG_strayIn_ns (F : FetchFn) (hF : ∀ d mm k s, StrayIn fetchSites_ns (F d mm k s))
    (e : Envs) (fuel : Nat) (diff : Bool) (mo : Obj) (masterStr : Str) (acc : CAcc) (fm : Bool × Obj) :
    StrayIn fetchSites_ns (cstepG F e fuel diff mo masterStr acc fm) := by
  unfold cstepG
  split
  · rename_i err herr; exact StrayIn.err (candOf_strayIn_ns F hF _ _ _ _ _ _ err herr)
  · exact StrayIn.ite (StrayIn.ok _) (StrayIn.ok _)
  · split
    · rename_i err herr; exact StrayIn.err (efs_fetch_ns _ _ _ _ err herr)
    · split
      · exact StrayIn.ok _
      · exact cAccept_ok_ns _ _ _ _ _ _ _ _

theorem masterKeyG_strayIn_ns (F : FetchFn) (hF : ∀ d mm k s, StrayIn fetchSites_ns (F d mm k s))
    (e : Envs) (fuel : Nat) (mo : Obj) : StrayIn fetchSites_ns (masterKeyG F e fuel mo) := by
  cases mo with
  | defn mm mws => rw [masterKeyG_defn]; exact efs_fetch_ns _ _ _ _
  | scope mm kids =>
    rw [masterKeyG_scope]
    split
    · rename_i err herr; exact StrayIn.err (hF _ _ _ _ err herr)
    · exact efs_fetch_ns _ _ _ _

theorem multiBranch_strayIn_ns (F : FetchFn) (hF : ∀ d mm k s, StrayIn fetchSites_ns (F d mm k s))
    (e : Envs) (fuel : Nat) (diff : Bool) (mkids : List Obj) (idx : Nat) (mo : Obj)
    (matching out : List Obj) (used : List Nat) :
    StrayIn fetchSites_ns (multiBranch F e fuel diff mkids idx mo matching out used) := by
  unfold multiBranch
  split
  · rename_i err herr; exact StrayIn.err (masterKeyG_strayIn_ns F hF _ _ _ err herr)
  · split
    · rename_i err herr
      exact StrayIn.err (foldlM_strayIn_ns _ _ (fun b a _ => cstepG_strayIn_ns F hF _ _ _ _ _ b a) _ err herr)
    · exact StrayIn.ok _

theorem stepG_strayIn_ns (F : FetchFn) (hF : ∀ d mm k s, StrayIn fetchSites_ns (F d mm k s))
    (e : Envs) (fuel : Nat) (diff : Bool) (sm : Meta) (mkids combined : List Obj)
    (st : List Obj × List Nat) (io : Nat × Obj) :
    StrayIn fetchSites_ns (stepG F e fuel diff sm mkids combined st io) := by
  unfold stepG
  split
  · split
    · apply defnFinish_strayIn_ns
      apply foldlM_strayIn_ns
      intro acc ms _
      unfold defnOne
      exact (fetchDefn_strayIn_ns _ _ _ _ _).map _
    · exact scopeBranch_strayIn_ns F hF _ _ _ _ _ _
  · exact multiBranch_strayIn_ns F hF _ _ _ _ _ _ _ _ _

/-- **stray sites of `scope.fetch`**: any fuel, diff or not, any master, any sources -/
theorem fetchScope_strayIn_ns (e : Envs) : ∀ (fuel : Nat) (diff : Bool) (sm : Meta) (mkids combined : List Obj),
    StrayIn fetchSites_ns (fetchScope e fuel diff sm mkids combined) := by
  intro fuel
  induction fuel with
  | zero => intro diff sm mkids combined; rw [fetchScope_zero]; exact StrayIn.err trivial
  | succ fuel ih =>
    intro diff sm mkids combined
    rw [fetchScope_succ]
    split
    · rename_i err herr
      exact StrayIn.err (Err.strayIn_of_benign ((masterActiveObjects_benign_ns mkids).error herr))
    · unfold fetchFinish
      split
      · rename_i err herr
        exact StrayIn.err (foldlM_strayIn_ns _ _ (fun b a _ => stepG_strayIn_ns _ ih _ _ _ _ _ _ b a) _ err herr)
      · exact StrayIn.ok _

theorem fetchRoot_strayIn_ns (e : Envs) (diff : Bool) (master : List Obj) (sources : List (List Obj)) :
    StrayIn fetchSites_ns (fetchRoot e diff master sources) := by
  unfold fetchRoot
  exact fetchScope_strayIn_ns e _ _ _ _ _

/-! ## 8. nested masters without `.multiple` (`TreeMaster`): fetch, then extract -/

/-! ### fetch of a `TreeMaster` -/

theorem fetch_tree_benign_ns (e : Envs) (fuel : Nat) (sm : Meta) (mkids srcs : List Obj)
    (hf : TreeMaster mkids) (hfuel : depthL mkids < fuel) (hsd : sm.disabled = false)
    (hsrc : SrcTree srcs) : OkOrBenign (fetchScope e fuel false sm mkids srcs) := by
  rw [fetch_tree_total e fuel sm mkids srcs hf hfuel hsd hsrc]
  split
  · trivial
  · rfl

theorem fetchRoot_tree_benign_ns (e : Envs) (master : List Obj) (ss : List (List Obj))
    (hf : TreeMaster master) (hd : depthL master ≤ 1000) (hsrc : SrcTree ss.flatten) :
    OkOrBenign (fetchRoot e false master ss) := by
  rw [fetchRoot_tree e master ss hf hd hsrc]
  split
  · trivial
  · rfl

/-! ### extract of a tree whose sibling names are distinct -/

mutual
/-- what `scope.extract` needs in order not to stray: no `.multiple`, non-empty word lists (what the
    parser delivers), pairwise distinct sibling names -/
def XObj_ns : Obj → Prop
  | .defn m ws => ws ≠ [] ∧ (m.attrs.get "multiple").truthy = false
  | .scope m kids =>
    (m.attrs.get "multiple").truthy = false ∧ XKids_ns kids ∧ (kids.map Obj.name).Pairwise (· ≠ ·)
def XKids_ns : List Obj → Prop
  | [] => True
  | o :: os => XObj_ns o ∧ XKids_ns os
end

theorem xkids_iff_ns : ∀ (l : List Obj), XKids_ns l ↔ ∀ o ∈ l, XObj_ns o
  | [] => by rw [XKids_ns]; simp
  | o :: os => by rw [XKids_ns, xkids_iff_ns os]; simp

theorem XObj_ns.notMultiple : ∀ {o : Obj}, XObj_ns o → isMultiple o = false
  | .defn m ws, h => by rw [XObj_ns] at h; exact h.2
  | .scope m kids, h => by rw [XObj_ns] at h; exact h.1

theorem fieldGet_none_iff_ns (fs : List (Str × PVal)) (k : Str) :
    fieldGet fs k = none ↔ ∀ p ∈ fs, p.1 ≠ k := by
  unfold fieldGet
  rw [Option.map_eq_none_iff, List.find?_eq_none]
  constructor
  · intro h p hp heq; exact h p hp (by simp [heq])
  · intro h p hp; simpa using h p hp

theorem fieldSet_fresh_ns (fs : List (Str × PVal)) (n : Str) (v : PVal) (h : fieldGet fs n = none) :
    fieldSet fs n v = fs ++ [(n, v)] := by
  unfold fieldSet
  have : fs.any (·.1 == n) = false := by
    rw [List.any_eq_false]
    intro p hp
    simpa using (fieldGet_none_iff_ns fs n).1 h p hp
  rw [this]; rfl

theorem fieldGet_fieldSet_ne_ns (fs : List (Str × PVal)) (n k : Str) (v : PVal)
    (hn : fieldGet fs n = none) (hk : fieldGet fs k = none) (hne : n ≠ k) :
    fieldGet (fieldSet fs n v) k = none := by
  rw [fieldSet_fresh_ns fs n v hn, fieldGet_none_iff_ns]
  intro p hp
  rw [List.mem_append] at hp
  rcases hp with hp | hp
  · exact (fieldGet_none_iff_ns fs k).1 hk p hp
  · simp at hp; subst hp; exact hne

theorem philSet_fresh_ns (fs : List (Str × PVal)) (name : Str) (opt : AttrVal) (x : XVal)
    (h : fieldGet fs name = none) :
    philSet fs name opt false x =
      .ok (fieldSet fs name (match x with | .disabled => PVal.none | .val v => v)) := by
  unfold philSet
  simp only [Bool.not_false, if_true, h]
  cases x <;> rfl

/-- the loop of `scope.extract` over children with fresh, pairwise distinct names -/
theorem extractFold_benign_ns (e : Envs) (fuel : Nat)
    (ih : ∀ o, XObj_ns o → depthT o < fuel → OkOrBenign (extractObj e fuel o)) :
    ∀ (kids : List Obj) (fs : List (Str × PVal)),
      (∀ k ∈ kids, fieldGet fs k.name = none) → (kids.map Obj.name).Pairwise (· ≠ ·) →
      (∀ k ∈ kids, XObj_ns k ∧ depthT k < fuel) →
      OkOrBenign (kids.foldlM (fun (fs : List (Str × PVal)) (o : Obj) =>
        if o.meta.tmpl < 0 then (Except.ok fs : R (List (Str × PVal))) else
        match (if o.meta.disabled || o.meta.tmpl > 0 then Except.ok XVal.disabled
               else (extractObj e fuel o).map XVal.val : R XVal) with
        | .error err => Except.error err
        | .ok x => philSet fs o.name (o.attr "optional") (isMultiple o) x) fs) := by
  intro kids
  induction kids with
  | nil => intro fs _ _ _; trivial
  | cons o os ihk =>
    intro fs hfresh hpw hx
    rw [List.foldlM_cons]
    rw [List.map_cons, List.pairwise_cons] at hpw
    have hxo := hx o List.mem_cons_self
    have hrest : ∀ k ∈ os, XObj_ns k ∧ depthT k < fuel := fun k hk => hx k (List.mem_cons_of_mem _ hk)
    have hfo := hfresh o List.mem_cons_self
    have hfrest : ∀ k ∈ os, fieldGet fs k.name = none := fun k hk => hfresh k (List.mem_cons_of_mem _ hk)
    split
    · exact ihk fs hfrest hpw.2 hrest
    · rw [hxo.1.notMultiple]
      have hxv : OkOrBenign (if o.meta.disabled || o.meta.tmpl > 0 then Except.ok XVal.disabled
               else (extractObj e fuel o).map XVal.val : R XVal) :=
        OkOrBenign.ite trivial ((ih o hxo.1 hxo.2).map _)
      cases hc : (if o.meta.disabled || o.meta.tmpl > 0 then Except.ok XVal.disabled
               else (extractObj e fuel o).map XVal.val : R XVal) with
      | error err => rw [hc] at hxv; exact hxv
      | ok x =>
        dsimp only
        rw [philSet_fresh_ns fs o.name _ x hfo]
        refine ihk _ ?_ hpw.2 hrest
        intro k hk
        exact fieldGet_fieldSet_ne_ns fs o.name k.name _ hfo (hfrest k hk)
          (hpw.1 k.name (List.mem_map_of_mem hk))

theorem extract_xobj_benign_ns (e : Envs) : ∀ (fuel : Nat) (o : Obj), XObj_ns o → depthT o < fuel →
    OkOrBenign (extractObj e fuel o) := by
  intro fuel
  induction fuel with
  | zero => intro o _ h; exact absurd h (Nat.not_lt_zero _)
  | succ fuel ih =>
    intro o hx hd
    cases o with
    | defn m ws =>
      rw [extractObj]
      rw [XObj_ns] at hx
      exact extractDefn_benign_ns e m hx.1
    | scope m kids =>
      rw [extractObj]
      rw [XObj_ns] at hx
      rw [depthT] at hd
      apply OkOrBenign.map
      refine extractFold_benign_ns e fuel ih kids [] (fun k _ => rfl) hx.2.2 ?_
      intro k hk
      refine ⟨(xkids_iff_ns kids).1 hx.2.1 k hk, ?_⟩
      have := depthT_le_depthL kids k hk
      omega
/-! ### the result of a tree fetch is such a tree -/

mutual
/-- every definition carries at least one word (what `collect_assigned_words` guarantees) -/
def wordsObjB_ns : Obj → Bool
  | .defn _ ws => !ws.isEmpty
  | .scope _ kids => wordsKidsB_ns kids
def wordsKidsB_ns : List Obj → Bool
  | [] => true
  | o :: os => wordsObjB_ns o && wordsKidsB_ns os
end

/-- every enabled source definition (below enabled scopes) contributes at least one word -/
def SrcWords_ns (srcs : List Obj) : Prop :=
  ∀ x, ActiveIn x srcs → x.isDefn = true → x.srcWords ≠ []

def srcWordsB_ns (srcs : List Obj) : Bool :=
  allActive (fun o => !o.isDefn || !o.srcWords.isEmpty) srcs

theorem srcWordsB_sound_ns (srcs : List Obj) (h : srcWordsB_ns srcs = true) : SrcWords_ns srcs := by
  intro x hx hdef
  have := allActive_sound _ hx h
  simp only [hdef, Bool.not_true, Bool.false_or, Bool.not_eq_true'] at this
  intro hnil; rw [hnil] at this; cases this

theorem SrcWords_ns.step {srcs : List Obj} (h : SrcWords_ns srcs) (n : Str) :
    SrcWords_ns (srcStep srcs n) := fun x hx hd => h x (activeIn_srcStep hx) hd

theorem lastDef_active_ns {srcs : List Obj} {n : Str} {d : Obj} (h : lastDef srcs n = some d) :
    ActiveIn d srcs ∧ d.isDefn = true := by
  unfold lastDef at h
  have hm : d ∈ defsNamed n srcs := List.mem_of_getLast? h
  have := mem_defsNamed.mp hm
  exact ⟨.here this.1 this.2.2.1, this.2.1⟩

mutual
theorem xobj_treeObj_ns : ∀ (mo : Obj) (srcs : List Obj), TreeObj mo → wordsObjB_ns mo = true →
    SrcWords_ns srcs → XObj_ns (treeObj mo srcs)
  | .defn mm mws, srcs, ht, hm, hs => by
    rw [TreeObj] at ht
    rw [wordsObjB_ns] at hm
    rw [treeObj]
    cases hl : lastDef srcs mm.name with
    | none =>
      dsimp only
      rw [XObj_ns]
      refine ⟨?_, ht.1.notMultiple⟩
      intro hnil; rw [hnil] at hm; cases hm
    | some d =>
      dsimp only
      rw [XObj_ns]
      exact ⟨hs d (lastDef_active_ns hl).1 (lastDef_active_ns hl).2, ht.1.notMultiple⟩
  | .scope mm kids, srcs, ht, hm, hs => by
    rw [TreeObj] at ht
    rw [wordsObjB_ns] at hm
    rw [treeObj, XObj_ns]
    refine ⟨ht.1, xkids_treeResult_ns kids (srcStep srcs mm.name) ht.2.2.2.2.1 hm (hs.step mm.name), ?_⟩
    rw [treeResult_names]
    exact ht.2.2.2.2.2
theorem xkids_treeResult_ns : ∀ (mkids : List Obj) (srcs : List Obj), TreeKids mkids →
    wordsKidsB_ns mkids = true → SrcWords_ns srcs → XKids_ns (treeResult mkids srcs)
  | [], srcs, _, _, _ => by rw [treeResult, XKids_ns]; trivial
  | mo :: rest, srcs, ht, hm, hs => by
    rw [TreeKids] at ht
    rw [wordsKidsB_ns, Bool.and_eq_true] at hm
    rw [treeResult, XKids_ns]
    exact ⟨xobj_treeObj_ns mo srcs ht.1 hm.1 hs, xkids_treeResult_ns rest srcs ht.2 hm.2 hs⟩
end

mutual
theorem depthT_treeObj_ns : ∀ (mo : Obj) (srcs : List Obj), depthT (treeObj mo srcs) = depthT mo
  | .defn mm mws, srcs => by
    rw [treeObj]
    cases lastDef srcs mm.name with
    | none => rfl
    | some d => simp only [depthT]
  | .scope mm kids, srcs => by
    rw [treeObj, depthT, depthT, depthL_treeResult_ns kids (srcStep srcs mm.name)]
theorem depthL_treeResult_ns : ∀ (mkids : List Obj) (srcs : List Obj),
    depthL (treeResult mkids srcs) = depthL mkids
  | [], srcs => by rw [treeResult]
  | mo :: rest, srcs => by
    rw [treeResult, depthL, depthL, depthT_treeObj_ns mo srcs, depthL_treeResult_ns rest srcs]
end

/-- `scope.extract` of the closed-form result of a tree fetch: a value, a RuntimeError of a
    converter, or outside the modelled domain -/
theorem extract_treeResult_benign_ns (e : Envs) (fuel : Nat) (m : Meta) (mkids srcs : List Obj)
    (hf : TreeMaster mkids) (hw : wordsKidsB_ns mkids = true) (hs : SrcWords_ns srcs)
    (hfuel : depthL mkids + 1 < fuel) :
    OkOrBenign (extractObj e fuel (.scope m (treeResult mkids srcs))) := by
  cases fuel with
  | zero => exact absurd hfuel (Nat.not_lt_zero _)
  | succ fuel =>
    rw [extractObj]
    apply OkOrBenign.map
    refine extractFold_benign_ns e fuel (extract_xobj_benign_ns e fuel) _ [] (fun k _ => rfl) ?_ ?_
    · rw [treeResult_names]; exact hf.distinct
    · intro k hk
      refine ⟨(xkids_iff_ns _).1 (xkids_treeResult_ns mkids srcs hf.kids hw hs) k hk, ?_⟩
      have := depthT_le_depthL _ k hk
      rw [depthL_treeResult_ns] at this
      omega

/-- fetch, then extract -/
theorem extract_of_fetch_tree_benign_ns (e : Envs) (fuel xfuel : Nat) (sm : Meta) (mkids srcs : List Obj)
    (hf : TreeMaster mkids) (hfuel : depthL mkids < fuel) (hsd : sm.disabled = false)
    (hsrc : SrcTree srcs) (hw : wordsKidsB_ns mkids = true) (hs : SrcWords_ns srcs)
    (hx : depthL mkids + 1 < xfuel) (ro : Obj) (used : List Nat)
    (h : fetchScope e fuel false sm mkids srcs = .ok (ro, used)) :
    OkOrBenign (extractObj e xfuel ro) := by
  rw [fetch_tree_total e fuel sm mkids srcs hf hfuel hsd hsrc] at h
  split at h
  · cases h
    exact extract_treeResult_benign_ns e xfuel _ mkids srcs hf hw hs hx
  · cases h

/-! ## 9. the argument interpreter -/

/-- an outcome of the argument interpreter that is a result, a Sorry, or a RuntimeError / a text
    outside the modelled domain — never a `stray`, never `outOfFuel` -/
def ArgOutcome.fine_ns : ArgOutcome → Prop
  | .ok _ => True
  | .sorry_ _ _ => True
  | .runtime e => e.benign = true

def argAccFine_ns : Option (Except ArgOutcome Str) → Prop
  | some (.ok _) => True
  | some (.error out) => out.fine_ns
  | none => False

theorem processArg_fine_ns (home : Option Str) (targets : List Str) (experts : List Int) (arg : Str) :
    (processArg home targets experts arg).fine_ns := by
  unfold processArg
  split
  · exact Eq.refl true
  · trivial
  · rename_i objs hobjs
    dsimp only
    have key : ∀ (defs : List (Str × Meta × List Word)) (acc : Option (Except ArgOutcome Str)),
        argAccFine_ns acc →
        argAccFine_ns (defs.foldl (fun acc (x : Str × Meta × List Word) =>
          match acc with
          | some (.error e) => some (.error e)
          | some (.ok text) =>
            (match choosePath home targets experts x.1 with
             | .unknown => some (.error (.sorry_ "unknown" []))
             | .ambiguous best => some (.error (.sorry_ "ambiguous" (best.filterMap (targets[·]?))))
             | .chosen i _ =>
               (match targets[i]? with
                | none => some (.error (.runtime (.stray "IndexError" "target_paths")))
                | some tp =>
                  (match showDefn {} { x.2.1 with name := tp, tmpl := 0 } x.2.2 [] [] with
                   | .error e => some (.error (.runtime e))
                   | .ok lines => some (.ok (text ++ unlines lines)))))
          | none => none) acc) := by
      intro defs
      induction defs with
      | nil => intro acc h; exact h
      | cons d ds ih =>
        intro acc h
        rw [List.foldl_cons]
        apply ih
        split
        · exact h
        · split
          · trivial
          · trivial
          · rename_i i w hch
            obtain ⟨t, ht, _⟩ := choose_sound hch
            rw [ht]
            dsimp only
            obtain ⟨l, hl⟩ := showDefn_default_ok_ns { d.2.1 with name := t, tmpl := 0 } d.2.2 [] []
            rw [hl]
            trivial
        · exact h
    have := key (allDefinitions objs) (some (.ok [])) trivial
    split
    · rename_i out hout
      exact (congrArg argAccFine_ns hout).mp this
    · split
      · trivial
      · split
        · trivial
        · rename_i e he
          exact parseObjs_benign _ e he
    · rename_i hnone
      exact ((congrArg argAccFine_ns hnone).mp this).elim

def argSorryKinds_ns : List String := ["arg_syntax", "unknown", "ambiguous", "no_effect"]

/-- a refusal of one of the four kinds, anything else unconstrained -/
def ArgOutcome.kindOK_ns : ArgOutcome → Prop
  | .sorry_ k _ => k ∈ argSorryKinds_ns
  | _ => True

def argAccKind_ns : Option (Except ArgOutcome Str) → Prop
  | some (.error out) => out.kindOK_ns ∧ (∀ e, out ≠ .runtime e)
  | _ => True

theorem processArg_kind_ns (home : Option Str) (targets : List Str) (experts : List Int) (arg : Str) :
    (processArg home targets experts arg).kindOK_ns := by
  unfold processArg
  split
  · trivial
  · simp [ArgOutcome.kindOK_ns, argSorryKinds_ns]
  · rename_i objs hobjs
    dsimp only
    have key : ∀ (defs : List (Str × Meta × List Word)) (acc : Option (Except ArgOutcome Str)),
        argAccKind_ns acc →
        argAccKind_ns (defs.foldl (fun acc (x : Str × Meta × List Word) =>
          match acc with
          | some (.error e) => some (.error e)
          | some (.ok text) =>
            (match choosePath home targets experts x.1 with
             | .unknown => some (.error (.sorry_ "unknown" []))
             | .ambiguous best => some (.error (.sorry_ "ambiguous" (best.filterMap (targets[·]?))))
             | .chosen i _ =>
               (match targets[i]? with
                | none => some (.error (.runtime (.stray "IndexError" "target_paths")))
                | some tp =>
                  (match showDefn {} { x.2.1 with name := tp, tmpl := 0 } x.2.2 [] [] with
                   | .error e => some (.error (.runtime e))
                   | .ok lines => some (.ok (text ++ unlines lines)))))
          | none => none) acc) := by
      intro defs
      induction defs with
      | nil => intro acc h; exact h
      | cons d ds ih =>
        intro acc h
        rw [List.foldl_cons]
        apply ih
        split
        · exact h
        · split
          · exact ⟨by simp [ArgOutcome.kindOK_ns, argSorryKinds_ns], fun e he => by cases he⟩
          · exact ⟨by simp [ArgOutcome.kindOK_ns, argSorryKinds_ns], fun e he => by cases he⟩
          · rename_i i w hch
            obtain ⟨t, ht, _⟩ := choose_sound hch
            rw [ht]
            dsimp only
            obtain ⟨l, hl⟩ := showDefn_default_ok_ns { d.2.1 with name := t, tmpl := 0 } d.2.2 [] []
            rw [hl]
            trivial
        · trivial
    have := key (allDefinitions objs) (some (.ok [])) trivial
    split
    · rename_i out hout
      exact ((congrArg argAccKind_ns hout).mp this).1
    · split
      · simp [ArgOutcome.kindOK_ns, argSorryKinds_ns]
      · split <;> trivial
    · trivial

end Phil
