/-
  Lemmas behind C11: `choice_converters.fetch` (`choiceFetch`) keeps the master's alternatives and
  flags only what the source selects; extraction of a choice.
-/
import Phil.Conv
set_option linter.unusedSimpArgs false
set_option linter.unusedVariables false
namespace Phil

/-! ### `choiceFetch` cut into named pieces -/

abbrev Flags := List (Str × Bool)

/-- the flag table before the source is looked at: every alternative, unset -/
def flags0Of (mwords : List Word) : Flags :=
  mwords.foldl (fun fl w => flagSet fl (lower (stripStar w.value).1) false) []

/-- the Sorry of `fetch`: carries all the alternatives of the master as written -/
def altsErr (mwords : List Word) : Err := .sorry_ "not_a_possible_choice" (mwords.map (·.value))

/-- does `fetch` take the `a+b+c` branch for this source? -/
def plusMode (src : List Word) : Bool :=
  match choiceFetch.scan src false with
  | (haveQS, havePlus) =>
    if !haveQS && havePlus then
      let values := splitOn '+' (src.foldr (fun w acc => w.value ++ acc) [])
      (values.drop 1).all (fun v => !(strip v).isEmpty)
    else false

def plusStep (mwords : List Word) (fl : Flags) (w : Word) : R Flags :=
  (splitOn '+' w.value).foldlM (init := fl) (fun fl value =>
    if value.isEmpty then .ok fl
    else if (flagGet fl value).isNone then .error (altsErr mwords)
    else .ok (flagSet fl (lower value) true))

def starStep (mwords : List Word) (single ign : Bool) (fl : Flags) (w : Word) : R Flags :=
  match stripStar w.value with
  | (value, star) =>
    let flag := star || single
    if flag && (flagGet (flags0Of mwords) (lower value)).isNone then
      (if ign then .ok fl else .error (altsErr mwords))
    else .ok (flagSet fl (lower value) flag)

def fetchFlags (mwords : List Word) (opt : AttrVal) (src : List Word) (ign : Bool) : R Flags :=
  if opt.mandatory || !isPlainNone src then
    if plusMode src then src.foldlM (plusStep mwords) (flags0Of mwords)
    else src.foldlM (starStep mwords (src.length == 1) ign) (flags0Of mwords)
  else .ok (flags0Of mwords)

/-- one word of the result: the master's alternative, starred iff its flag is set -/
def renderStar (flags : Flags) (w : Word) : Word :=
  let value := (stripStar w.value).1
  let on := (flagGet flags (lower value)).getD false
  { value := if on then '*' :: value else value, quote := w.quote, line := w.line }

theorem choiceFetch_eq (mwords : List Word) (opt : AttrVal) (src : List Word) (ign : Bool) :
    choiceFetch mwords opt src ign =
      if isPlainNone mwords || isPlainAuto mwords then .error (.stray "AssertionError" "choice_fetch")
      else if isPlainAuto src then .ok [wordOf "Auto"]
      else match fetchFlags mwords opt src ign with
        | .error e => .error e
        | .ok flags => .ok (mwords.map (renderStar flags)) := by
  unfold choiceFetch fetchFlags plusMode plusStep starStep renderStar flags0Of altsErr
  rfl

/-! ### the flag table -/

theorem flagGet_map_replace (fl : Flags) (k k' : Str) (v : Bool) :
    flagGet (fl.map (fun p => if p.1 == k then (k, v) else p)) k' =
      if k' = k then (if fl.any (·.1 == k) then some v else Option.none) else flagGet fl k' := by
  induction fl with
  | nil => simp [flagGet]
  | cons p ps ih =>
    unfold flagGet at ih ⊢
    by_cases h1 : p.1 = k <;> by_cases h2 : k' = k <;> grind

/-- `flags[k] = v` then `flags.get(k')` -/
theorem flagGet_flagSet (fl : Flags) (k k' : Str) (v : Bool) :
    flagGet (flagSet fl k v) k' = if k' = k then some v else flagGet fl k' := by
  unfold flagSet
  split
  · rename_i h
    rw [flagGet_map_replace, h]; simp
  · rename_i h
    unfold flagGet
    grind

/-- lower-cased names of the master's alternatives -/
def altKeys (mwords : List Word) : List Str := mwords.map (fun w => lower (stripStar w.value).1)

theorem flagGet_foldl_flagSet (mwords : List Word) (k : Str) : ∀ fl : Flags,
    flagGet (mwords.foldl (fun fl w => flagSet fl (lower (stripStar w.value).1) false) fl) k =
      if k ∈ altKeys mwords then some false else flagGet fl k := by
  induction mwords with
  | nil => intro fl; simp [altKeys]
  | cons w ws ih =>
    intro fl
    rw [List.foldl_cons, ih, flagGet_flagSet]
    simp only [altKeys, List.map_cons, List.mem_cons] at ih ⊢
    by_cases h1 : k = lower (stripStar w.value).1
    · simp [h1]
    · simp [h1]

theorem flagGet_flags0 (mwords : List Word) (k : Str) :
    flagGet (flags0Of mwords) k = if k ∈ altKeys mwords then some false else Option.none := by
  unfold flags0Of
  rw [flagGet_foldl_flagSet]
  rfl

/-! ### errors of the folds -/

theorem foldlM_error_const {α β : Type} (f : β → α → R β) (e0 : Err)
    (hf : ∀ b a e, f b a = .error e → e = e0) :
    ∀ (l : List α) (b : β) (e : Err), l.foldlM f b = .error e → e = e0 := by
  intro l
  induction l with
  | nil => intro b e h; simp [List.foldlM_nil, pure, Except.pure] at h
  | cons a as ih =>
    intro b e h
    rw [List.foldlM_cons] at h
    cases hc : f b a with
    | error e' =>
      rw [hc] at h
      have : e' = e := by cases h; rfl
      exact this ▸ hf b a e' hc
    | ok b' =>
      rw [hc] at h
      exact ih b' e h

theorem plusStep_error (mwords : List Word) (fl : Flags) (w : Word) (e : Err)
    (h : plusStep mwords fl w = .error e) : e = altsErr mwords := by
  unfold plusStep at h
  refine foldlM_error_const _ (altsErr mwords) ?_ _ _ _ h
  intro b a e' h'
  split at h'
  · cases h'
  · split at h'
    · cases h'; rfl
    · cases h'

theorem starStep_error (mwords : List Word) (single ign : Bool) (fl : Flags) (w : Word) (e : Err)
    (h : starStep mwords single ign fl w = .error e) : e = altsErr mwords := by
  unfold starStep at h
  simp only at h
  split at h
  · split at h
    · cases h
    · cases h; rfl
  · cases h

theorem fetchFlags_error (mwords : List Word) (opt : AttrVal) (src : List Word) (ign : Bool) (e : Err)
    (h : fetchFlags mwords opt src ign = .error e) : e = altsErr mwords := by
  unfold fetchFlags at h
  split at h
  · split at h
    · exact foldlM_error_const _ _ (plusStep_error mwords) _ _ _ h
    · exact foldlM_error_const _ _ (starStep_error mwords _ _) _ _ _ h
  · cases h

/-- **C11.3**: the only failures of `fetch` -/
theorem choiceFetch_error (mwords : List Word) (opt : AttrVal) (src : List Word) (ign : Bool) (e : Err)
    (h : choiceFetch mwords opt src ign = .error e) :
    ((isPlainNone mwords || isPlainAuto mwords) = true ∧ e = .stray "AssertionError" "choice_fetch") ∨
    ((isPlainNone mwords || isPlainAuto mwords) = false ∧ isPlainAuto src = false ∧
      e = .sorry_ "not_a_possible_choice" (mwords.map (·.value))) := by
  rw [choiceFetch_eq] at h
  split at h
  · rename_i h1; cases h; exact .inl ⟨h1, rfl⟩
  · rename_i h1
    split at h
    · cases h
    · rename_i h2
      split at h
      · rename_i e' he
        cases h
        exact .inr ⟨by simpa using h1, by simpa using h2, fetchFlags_error _ _ _ _ _ he⟩
      · cases h

/-! ### shape of the result -/

/-- **C11.1 (general form)**: every successful `fetch` on a source other than plain `Auto` is the
    master's word list with stars re-drawn from some flag table -/
theorem choiceFetch_ok_shape (mwords : List Word) (opt : AttrVal) (src : List Word) (ign : Bool)
    (out : List Word) (h : choiceFetch mwords opt src ign = .ok out) :
    (isPlainAuto src = true ∧ out = [wordOf "Auto"]) ∨
    (isPlainAuto src = false ∧ ∃ flags, fetchFlags mwords opt src ign = .ok flags ∧
      out = mwords.map (renderStar flags)) := by
  rw [choiceFetch_eq] at h
  split at h
  · cases h
  · split at h
    · rename_i h2; cases h; exact .inl ⟨h2, rfl⟩
    · rename_i h2
      split at h
      · cases h
      · rename_i flags hf
        cases h
        exact .inr ⟨by simpa using h2, flags, hf, rfl⟩

/-- no alternative of the master is written with two leading stars -/
def NoDoubleStar (mwords : List Word) : Prop :=
  ∀ w ∈ mwords, (stripStar (stripStar w.value).1).2 = false

theorem stripStar_cons_star (v : Str) : stripStar ('*' :: v) = (v, true) := rfl

theorem stripStar_of_not_star (v : Str) (h : (stripStar v).2 = false) : stripStar v = (v, false) := by
  unfold stripStar at h ⊢
  split
  · simp at h
  · rfl

theorem render_name (flags : Flags) (w : Word) :
    (renderStar flags w).quote = w.quote ∧ (renderStar flags w).line = w.line ∧
    ((renderStar flags w).value = (stripStar w.value).1 ∨
     (renderStar flags w).value = '*' :: (stripStar w.value).1) := by
  refine ⟨rfl, rfl, ?_⟩
  unfold renderStar
  simp only
  split
  · exact .inr rfl
  · exact .inl rfl

theorem render_stripStar (flags : Flags) (w : Word) (h : (stripStar (stripStar w.value).1).2 = false) :
    (stripStar (renderStar flags w).value).1 = (stripStar w.value).1 := by
  unfold renderStar
  simp only
  split
  · rfl
  · rw [stripStar_of_not_star _ h]

/-- **C11.1**: same names, same order, same quoting -/
theorem choiceFetch_alts_preserved (mwords : List Word) (opt : AttrVal) (src : List Word) (ign : Bool)
    (out : List Word) (hm : NoDoubleStar mwords)
    (h : choiceFetch mwords opt src ign = .ok out) (hs : isPlainAuto src = false) :
    out.map (fun w => ((stripStar w.value).1, w.quote)) =
      mwords.map (fun w => ((stripStar w.value).1, w.quote)) := by
  rcases choiceFetch_ok_shape _ _ _ _ _ h with ⟨h1, _⟩ | ⟨_, flags, _, rfl⟩
  · rw [h1] at hs; cases hs
  · rw [List.map_map]
    apply List.map_congr_left
    intro w hw
    simp only [Function.comp]
    rw [render_stripStar flags w (hm w hw)]
    rfl

/-! ### which branch -/

theorem scan_no_plus (l : List Word) (h : ∀ w ∈ l, w.value.contains '+' = false) :
    (choiceFetch.scan l false).2 = false := by
  induction l with
  | nil => simp [choiceFetch.scan]
  | cons w ws ih =>
    simp only [choiceFetch.scan]
    split
    · rfl
    · rw [h w (by simp)]
      exact ih (fun x hx => h x (by simp [hx]))

/-- no `+` in any source word: not the plus branch -/
theorem plusMode_false_of_no_plus (src : List Word) (h : ∀ w ∈ src, w.value.contains '+' = false) :
    plusMode src = false := by
  unfold plusMode
  have := scan_no_plus src h
  cases hs : choiceFetch.scan src false with
  | mk a b =>
    rw [hs] at this
    simp only at this
    simp [this]

/-- first source word quoted or starred: not the plus branch -/
theorem plusMode_false_of_head (w : Word) (ws : List Word)
    (h : w.quote.isSome = true ∨ (stripStar w.value).2 = true) : plusMode (w :: ws) = false := by
  have h' : (w.quote.isSome || w.value.take 1 == ['*']) = true := by
    rcases h with h | h
    · simp [h]
    · unfold stripStar at h
      split at h
      · rename_i r heq; simp [heq]
      · cases h
  unfold plusMode
  simp only [choiceFetch.scan, h', ↓reduceIte]
  rfl

theorem plusMode_nil : plusMode [] = false := by rfl

/-! ### unknown alternative -/

/-- a source word that selects (starred, or the only word) a name the master does not have -/
def BadWord (mwords : List Word) (single : Bool) (w : Word) : Prop :=
  ((stripStar w.value).2 || single) = true ∧ lower (stripStar w.value).1 ∉ altKeys mwords

theorem flagGet_flags0_isNone (mwords : List Word) (k : Str) :
    (flagGet (flags0Of mwords) k).isNone = true ↔ k ∉ altKeys mwords := by
  rw [flagGet_flags0]
  by_cases h : k ∈ altKeys mwords <;> simp [h]

theorem foldlM_starStep_bad (mwords : List Word) (single : Bool) (l : List Word)
    (hbad : ∃ w ∈ l, BadWord mwords single w) :
    ∀ fl, l.foldlM (starStep mwords single false) fl = .error (altsErr mwords) := by
  induction l with
  | nil => obtain ⟨w, hw, _⟩ := hbad; cases hw
  | cons w ws ih =>
    intro fl
    rw [List.foldlM_cons]
    cases hc : starStep mwords single false fl w with
    | error e =>
      rw [starStep_error _ _ _ _ _ _ hc]; rfl
    | ok fl' =>
      obtain ⟨x, hx, hb⟩ := hbad
      rcases List.mem_cons.mp hx with rfl | hx'
      · exfalso
        unfold starStep at hc
        obtain ⟨hb1, hb2⟩ := hb
        have h2 := (flagGet_flags0_isNone mwords _).mpr hb2
        simp only [hb1, h2, Bool.and_self, ↓reduceIte, Bool.false_eq_true] at hc
        cases hc
      · exact ih ⟨x, hx', hb⟩ fl'

/-- **C11.2**: outside the plus branch and without `ignore_errors`, a source that selects a name the
    master does not have fails with Sorry listing ALL alternatives of the master -/
theorem choiceFetch_unknown (mwords : List Word) (opt : AttrVal) (src : List Word)
    (hm : (isPlainNone mwords || isPlainAuto mwords) = false)
    (ha : isPlainAuto src = false)
    (hn : (opt.mandatory || !isPlainNone src) = true)
    (hp : plusMode src = false)
    (hbad : ∃ w ∈ src, BadWord mwords (src.length == 1) w) :
    choiceFetch mwords opt src false = .error (.sorry_ "not_a_possible_choice" (mwords.map (·.value))) := by
  rw [choiceFetch_eq]
  unfold fetchFlags
  simp only [hm, ha, hn, hp, Bool.false_eq_true, ↓reduceIte]
  rw [foldlM_starStep_bad mwords _ src hbad]
  rfl

/-! ### star-only sources -/

theorem foldlM_starStep_allstar (mwords : List Word) (single ign : Bool) (l : List Word)
    (hstar : ∀ w ∈ l, (stripStar w.value).2 = true) :
    ∀ (fl out : Flags), l.foldlM (starStep mwords single ign) fl = .ok out →
      ∀ k, k ∈ altKeys mwords →
        flagGet out k =
          if k ∈ l.map (fun w => lower (stripStar w.value).1) then some true else flagGet fl k := by
  induction l with
  | nil =>
    intro fl out h k hk
    simp only [List.foldlM_nil] at h
    cases h
    simp
  | cons w ws ih =>
    intro fl out h k hk
    rw [List.foldlM_cons] at h
    have hw := hstar w (by simp)
    have ih' := ih (fun x hx => hstar x (by simp [hx]))
    cases hc : starStep mwords single ign fl w with
    | error e => rw [hc] at h; cases h
    | ok fl' =>
      rw [hc] at h
      have := ih' fl' out h k hk
      rw [this]
      unfold starStep at hc
      simp only [hw, Bool.true_or, Bool.true_and] at hc
      split at hc
      · rename_i hnone
        have hne : k ≠ lower (stripStar w.value).1 := by
          intro heq
          rw [flagGet_flags0_isNone] at hnone
          exact hnone (heq ▸ hk)
        split at hc
        · cases hc
          simp [hne]
        · cases hc
      · cases hc
        rw [flagGet_flagSet]
        by_cases heq : k = lower (stripStar w.value).1 <;> simp [heq]

theorem lower_cons (c : Char) (s : Str) : lower (c :: s) = lowerChar c :: lower s := rfl

theorem isPlainNone_false_of_star (src : List Word) (hstar : ∀ w ∈ src, (stripStar w.value).2 = true) :
    isPlainNone src = false := by
  unfold isPlainNone
  split
  · rename_i w
    have := hstar w (by simp)
    unfold stripStar at this
    split at this
    · rename_i r heq
      rw [heq, lower_cons]
      have h1 : lowerChar '*' = '*' := by decide
      have h2 : ("none".toList) = 'n' :: "one".toList := by rfl
      rw [h1, h2]
      have h3 : ('*' == 'n') = false := by decide
      simp [h3]
    · cases this
  · rfl

theorem plusMode_false_of_star (src : List Word) (hstar : ∀ w ∈ src, (stripStar w.value).2 = true) :
    plusMode src = false := by
  cases src with
  | nil => exact plusMode_nil
  | cons w ws => exact plusMode_false_of_head w ws (.inr (hstar w (by simp)))

/-- **C11.5**: a star-only source (`*a *b …`): the result stars exactly the master alternatives whose
    lower-cased name is one of the lower-cased source names -/
theorem choiceFetch_star_only (mwords : List Word) (opt : AttrVal) (src : List Word) (ign : Bool)
    (out : List Word) (hstar : ∀ w ∈ src, (stripStar w.value).2 = true)
    (h : choiceFetch mwords opt src ign = .ok out) :
    out = mwords.map (fun w =>
      let v := (stripStar w.value).1
      { value := if lower v ∈ src.map (fun x => lower (stripStar x.value).1) then '*' :: v else v,
        quote := w.quote, line := w.line }) := by
  have hauto : isPlainAuto src = false := by
    unfold isPlainAuto
    split
    · rename_i w
      have := hstar w (by simp)
      unfold stripStar at this
      split at this
      · rename_i r heq
        rw [heq, lower_cons]
        have h1 : lowerChar '*' = '*' := by decide
        have h2 : ("auto".toList) = 'a' :: "uto".toList := by rfl
        rw [h1, h2]
        have h3 : ('*' == 'a') = false := by decide
        simp [h3]
      · cases this
    · rfl
  rcases choiceFetch_ok_shape _ _ _ _ _ h with ⟨h1, _⟩ | ⟨_, flags, hf, rfl⟩
  · rw [h1] at hauto; cases hauto
  · unfold fetchFlags at hf
    simp only [isPlainNone_false_of_star src hstar, plusMode_false_of_star src hstar, Bool.not_false,
      Bool.or_true, ↓reduceIte, Bool.false_eq_true] at hf
    have key := foldlM_starStep_allstar mwords _ ign src hstar _ _ hf
    apply List.map_congr_left
    intro w hw
    have hk : lower (stripStar w.value).1 ∈ altKeys mwords := List.mem_map.mpr ⟨w, hw, rfl⟩
    unfold renderStar
    simp only
    rw [key _ hk, flagGet_flags0]
    simp only [hk, ↓reduceIte]
    by_cases hin : lower (stripStar w.value).1 ∈ src.map (fun x => lower (stripStar x.value).1) <;>
      simp [hin]

/-- **C11.5, read-back form**: reading each result word back with `stripStar` gives the master's
    name together with "was it asked for" -/
theorem choiceFetch_star_only_readback (mwords : List Word) (opt : AttrVal) (src : List Word) (ign : Bool)
    (out : List Word) (hm : NoDoubleStar mwords) (hstar : ∀ w ∈ src, (stripStar w.value).2 = true)
    (h : choiceFetch mwords opt src ign = .ok out) :
    out.map (fun o => stripStar o.value) =
      mwords.map (fun w => ((stripStar w.value).1,
        decide (lower (stripStar w.value).1 ∈ src.map (fun x => lower (stripStar x.value).1)))) := by
  rw [choiceFetch_star_only mwords opt src ign out hstar h, List.map_map]
  apply List.map_congr_left
  intro w hw
  simp only [Function.comp]
  split
  · rename_i hin; simp [stripStar_cons_star, hin]
  · rename_i hin; rw [stripStar_of_not_star _ (hm w hw)]; simp [hin]

/-! ### extraction of a choice -/

/-- the starred names of a word list, stars removed -/
def starredNames (ws : List Word) : List Str :=
  ws.filterMap (fun w => if (stripStar w.value).2 then some (stripStar w.value).1 else Option.none)

theorem fromWords_choice_eq (multi : Bool) (env : EvalEnv) (opt : AttrVal) (ws : List Word) :
    fromWords (.choice multi) env opt ws =
      if isPlainAuto ws then .ok .auto
      else if multi then
        if (starredNames ws).isEmpty && opt.mandatory then .error (wordsErr "choice_unspecified" ws)
        else .ok (.list ((starredNames ws).map PVal.str))
      else
        match starredNames ws with
        | [] => if opt.mandatory then .error (wordsErr "choice_unspecified" ws) else .ok .none
        | [v] => .ok (.str v)
        | _ => .error (wordsErr "choice_multiple" ws) := by
  unfold fromWords starredNames
  rfl

/-- **C11.4a**: a single choice extracts to `None`, `Auto` or one name — the only starred one -/
theorem fromWords_choice_single (env : EvalEnv) (opt : AttrVal) (ws : List Word) (v : PVal)
    (h : fromWords (.choice false) env opt ws = .ok v) :
    (v = .auto ∧ isPlainAuto ws = true) ∨
    (v = .none ∧ starredNames ws = [] ∧ opt.mandatory = false) ∨
    (∃ s, v = .str s ∧ starredNames ws = [s]) := by
  rw [fromWords_choice_eq] at h
  split at h
  · rename_i h1; cases h; exact .inl ⟨rfl, h1⟩
  · simp only [Bool.false_eq_true, ↓reduceIte] at h
    split at h
    · rename_i h2
      split at h
      · cases h
      · rename_i h3; cases h; exact .inr (.inl ⟨rfl, h2, by simpa using h3⟩)
    · rename_i s h2; cases h; exact .inr (.inr ⟨s, rfl, h2⟩)
    · cases h

/-- more than one star in a single choice is an error -/
theorem fromWords_choice_single_multiple (env : EvalEnv) (opt : AttrVal) (ws : List Word)
    (ha : isPlainAuto ws = false) (h2 : 2 ≤ (starredNames ws).length) :
    fromWords (.choice false) env opt ws = .error (wordsErr "choice_multiple" ws) := by
  rw [fromWords_choice_eq]
  simp only [ha, Bool.false_eq_true, ↓reduceIte]
  split
  · rename_i h; rw [h] at h2; simp at h2
  · rename_i h; rw [h] at h2; simp at h2
  · rfl

/-- a multi choice extracts to `Auto` or the list of starred names -/
theorem fromWords_choice_multi (env : EvalEnv) (opt : AttrVal) (ws : List Word) (v : PVal)
    (h : fromWords (.choice true) env opt ws = .ok v) :
    (v = .auto ∧ isPlainAuto ws = true) ∨
    (v = .list ((starredNames ws).map PVal.str) ∧ (opt.mandatory = true → starredNames ws ≠ [])) := by
  rw [fromWords_choice_eq] at h
  split at h
  · rename_i h1; cases h; exact .inl ⟨rfl, h1⟩
  · simp only [↓reduceIte] at h
    split at h
    · cases h
    · rename_i h3; cases h
      refine .inr ⟨rfl, ?_⟩
      intro hm hs
      simp [hm, hs] at h3

/-- **C11.4b**: a mandatory choice (`.optional = False`) never extracts to "nothing" -/
theorem fromWords_choice_mandatory (multi : Bool) (env : EvalEnv) (opt : AttrVal) (ws : List Word)
    (hm : opt.mandatory = true) :
    fromWords (.choice multi) env opt ws ≠ .ok .none ∧
    fromWords (.choice multi) env opt ws ≠ .ok (.list []) := by
  cases multi with
  | false =>
    constructor
    · intro h
      rcases fromWords_choice_single env opt ws _ h with ⟨h1, _⟩ | ⟨_, _, h1⟩ | ⟨s, h1, _⟩
      · cases h1
      · rw [hm] at h1; cases h1
      · cases h1
    · intro h
      rcases fromWords_choice_single env opt ws _ h with ⟨h1, _⟩ | ⟨h1, _⟩ | ⟨s, h1, _⟩ <;> cases h1
  | true =>
    constructor
    · intro h
      rcases fromWords_choice_multi env opt ws _ h with ⟨h1, _⟩ | ⟨h1, _⟩ <;> cases h1
    · intro h
      rcases fromWords_choice_multi env opt ws _ h with ⟨h1, _⟩ | ⟨h1, h2⟩
      · cases h1
      · have h3 := h2 hm
        cases hs : starredNames ws with
        | nil => exact h3 hs
        | cons a as => rw [hs] at h1; simp at h1

theorem starredNames_eq_of_readback (ws : List Word) (l : List Word) (p : Word → Bool)
    (h : ws.map (fun o => stripStar o.value) = l.map (fun w => ((stripStar w.value).1, p w))) :
    starredNames ws = (l.filter p).map (fun w => (stripStar w.value).1) := by
  induction l generalizing ws with
  | nil =>
    cases ws with
    | nil => rfl
    | cons a as => simp at h
  | cons w l' ih =>
    cases ws with
    | nil => simp at h
    | cons a as =>
      simp only [List.map_cons, List.cons.injEq] at h
      have := ih as h.2
      unfold starredNames at this ⊢
      rw [List.filterMap_cons, h.1, this]
      cases hp : p w <;> simp [hp]

/-- **C11.5 + extraction**: what a multi choice extracts from the result of fetching a star-only
    source is exactly the list of master alternatives that were asked for, in the master's order -/
theorem choiceFetch_star_only_extract (mwords : List Word) (opt : AttrVal) (src : List Word) (ign : Bool)
    (out : List Word) (hm : NoDoubleStar mwords) (hstar : ∀ w ∈ src, (stripStar w.value).2 = true)
    (h : choiceFetch mwords opt src ign = .ok out) :
    starredNames out =
      (mwords.filter (fun w => decide (lower (stripStar w.value).1 ∈
          src.map (fun x => lower (stripStar x.value).1)))).map (fun w => (stripStar w.value).1) :=
  starredNames_eq_of_readback out mwords _ (choiceFetch_star_only_readback mwords opt src ign out hm hstar h)

end Phil
