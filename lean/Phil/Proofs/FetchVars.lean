/-
  Phil.Proofs.FetchVars — `$variables` inside the closed form of scope.fetch (properties C12, C05, C06).

  The Fetch model reads, for every source definition, the outcome of `source.resolve_variables()` that
  the annotation pass `preResolve` (Phil/Vars.lean) stored in `Meta.varRes`.  This file ties that
  pre-resolution to the fuel-free denotational specification of Phil/Proofs/VarsSpec.lean:

    1. `firstErr` / `treeFetch`: TOTAL closed form of the fetch of a nested master without `.multiple`
       (`TreeMaster`) on ARBITRARY annotated sources — no `SrcOK` / `SrcNoDollar` hypothesis: the error
       of the first offending source object in master order (a recorded resolution error, or the
       clash of kinds), else `treeResult` / `treeUsed` (`fetch_tree_vars_total`);
    2. `refsAt`: fuel-free specification of the ids `resolve_variables` consults (`resolveRefs`);
       `denoteDoc`: the document in which every definition carries the DENOTATION (`denote`) at its own
       position; `preResolve_eq_denoteDoc`: on `DocIds` documents (every parser output) the annotation
       pass computes exactly that;
    3. position lemmas (`objAt_denoteDoc`, `activeIn_denoteDoc`) and the closed form of `fetchRoot` on
       pre-resolved parser outputs (`fetchRoot_preResolved`).
-/
import Phil.Proofs.FetchTree
import Phil.Proofs.VarsSpec
set_option linter.unusedVariables false
set_option linter.unusedSimpArgs false
namespace Phil
open Phil.C12

/-! ## 1. the total closed form with resolution errors -/

/-- what `definition.fetch_value` raises for one matching source object before it looks at the
    master's type: a source scope is "incompatible"; a source definition raises what its
    `resolve_variables` raised (recorded in `Meta.varRes`) -/
def srcErrOf : Obj → Option Err
  | .scope _ _ => some incompatibleErr
  | .defn m ws =>
    match srcWordsR m ws with
    | .error e => some e
    | .ok _ => none

mutual
/-- the first error met while one master object is fetched from the source objects of its level -/
def firstErrObj : Obj → List Obj → Option Err
  | .defn mm _, srcs => (activeNamed mm.name srcs).findSome? srcErrOf
  | .scope mm kids, srcs =>
    if (defsNamed mm.name srcs).isEmpty then firstErr kids (srcStep srcs mm.name)
    else some incompatibleErr
/-- the first error in master order -/
def firstErr : List Obj → List Obj → Option Err
  | [], _ => none
  | mo :: rest, srcs =>
    match firstErrObj mo srcs with
    | some e => some e
    | none => firstErr rest srcs
end

/-- **the specification of `fetch` on a nested master without `.multiple`**: the first error in master
    order, else the tree result with the consumed ids -/
def treeFetch (sm : Meta) (mkids srcs : List Obj) : R (Obj × List Nat) :=
  match firstErr mkids srcs with
  | some e => .error e
  | none => .ok (.scope { sm with tmpl := 0 } (treeResult mkids srcs), treeUsed mkids srcs)

/-! ### 1a. the loop over the matching sources of a plain master definition -/

theorem srcWords_of_srcWordsR {sm : Meta} {sws w : List Word} (h : srcWordsR sm sws = .ok w) :
    (Obj.defn sm sws).srcWords = w := by
  unfold srcWordsR at h
  unfold Obj.srcWords
  simp only [Obj.meta, Obj.words]
  cases hv : sm.varRes with
  | none =>
    rw [hv] at h
    simp only at h
    split at h
    · cases h
    · cases h; rfl
  | some r =>
    rw [hv] at h
    cases r with
    | ok rws refs => simp only at h; cases h; rfl
    | err site line => cases h

theorem defnOne_fold_vars (e : Envs) (fuel : Nat) (mm : Meta) (mws : List Word) (hp : PlainMeta mm) :
    ∀ (l : List Obj) (init : Option Obj) (used : List Nat),
      l.foldlM (defnOne e fuel false (.defn mm mws)) (init, used) =
        match l.findSome? srcErrOf with
        | some err => .error err
        | none => .ok (lastVal mm l init, used ++ l.flatMap marksOf) := by
  intro l
  induction l with
  | nil => intro init used; simp [lastVal]; rfl
  | cons d l ih =>
    intro init used
    rw [List.foldlM_cons, List.findSome?_cons]
    cases d with
    | scope m k =>
      rw [defnOne_scope_incompatible]
      rfl
    | defn sm sws =>
      cases hw : srcWordsR sm sws with
      | error err =>
        have h1 : defnOne e fuel false (.defn mm mws) (init, used) (.defn sm sws) = .error err := by
          unfold defnOne
          rw [fetchDefn_nodiff, fetchValue_defn, hw]
          rfl
        rw [h1]
        simp only [srcErrOf, hw]
        rfl
      | ok w =>
        have h1 : defnOne e fuel false (.defn mm mws) (init, used) (.defn sm sws) =
            .ok (some (.defn { mm with tmpl := 0 } (Obj.defn sm sws).srcWords),
                 used ++ marksOf (.defn sm sws)) := by
          unfold defnOne marksOf
          rw [fetchDefn_nodiff, fetchValue_defn, hw]
          simp only
          rw [fetchValueW_plain mm mws _ hp, srcWords_of_srcWordsR hw, List.append_assoc]
          rfl
        rw [h1]
        simp only [srcErrOf, hw]
        show l.foldlM _ _ = _
        rw [ih, lastVal_cons]
        cases l.findSome? srcErrOf with
        | some err => rfl
        | none => simp

theorem findSome_srcErrOf_none {l : List Obj} (h : l.findSome? srcErrOf = none) :
    ∀ o ∈ l, o.isDefn = true := by
  intro o ho
  rw [List.findSome?_eq_none_iff] at h
  have := h o ho
  cases o with
  | defn m ws => rfl
  | scope m k => simp [srcErrOf] at this

/-- the step of the master loop for a plain master definition, ANY sources at this level -/
theorem stepG_defn_vars (F : FetchFn) (e : Envs) (fuel : Nat) (sm : Meta)
    (mkids combined : List Obj) (st : List Obj × List Nat) (idx : Nat) (mm : Meta) (mws : List Word)
    (hp : PlainMeta mm)
    (hmatch : fetchMatching fuel sm combined (.defn mm mws) = activeNamed mm.name combined) :
    stepG F e fuel false sm mkids combined st (idx, .defn mm mws) =
      match firstErrObj (.defn mm mws) combined with
      | some err => .error err
      | none =>
        .ok (st.1 ++ [treeObj (.defn mm mws) combined], st.2 ++ treeUsedObj (.defn mm mws) combined) := by
  have hmult : isMultiple (.defn mm mws) = false := hp.notMultiple
  have hstep : stepG F e fuel false sm mkids combined st (idx, .defn mm mws) =
      defnFinish false (.defn mm mws) mm st.1
        ((activeNamed mm.name combined).foldlM (defnOne e fuel false (.defn mm mws)) (none, st.2)) := by
    unfold stepG
    simp only [hmult, Bool.not_false, if_true]
    rw [hmatch]
  rw [hstep, firstErrObj, treeObj, treeUsedObj, defnOne_fold_vars e fuel mm mws hp]
  cases hfs : (activeNamed mm.name combined).findSome? srcErrOf with
  | some err => rfl
  | none =>
    have hall := findSome_srcErrOf_none hfs
    have hsc : scopesNamed mm.name combined = [] := by
      rw [List.eq_nil_iff_forall_not_mem]
      intro x hx
      have hx' := mem_scopesNamed.mp hx
      have := hall x (mem_activeNamed.mpr ⟨hx'.1, hx'.2.2.1, hx'.2.2.2⟩)
      rw [hx'.2.1] at this
      cases this
    rw [activeNamed_eq_defsNamed _ _ hsc]
    simp only
    unfold defnFinish lastVal lastDef
    cases (defsNamed mm.name combined).getLast? with
    | none => simp [hp.notDeprecated]
    | some d => rfl

/-- the step of the master loop for a non-multiple master scope, given the callee on the next level -/
theorem stepG_scope_vars (F : FetchFn) (e : Envs) (fuel : Nat) (sm : Meta)
    (mkids combined : List Obj) (st : List Obj × List Nat) (idx : Nat) (mm : Meta) (kids : List Obj)
    (hmult : (mm.attrs.get "multiple").truthy = false)
    (hmatch : fetchMatching fuel sm combined (.scope mm kids) = activeNamed mm.name combined)
    (hF : F false mm kids (srcStep combined mm.name) = treeFetch mm kids (srcStep combined mm.name)) :
    stepG F e fuel false sm mkids combined st (idx, .scope mm kids) =
      match firstErrObj (.scope mm kids) combined with
      | some err => .error err
      | none =>
        .ok (st.1 ++ [treeObj (.scope mm kids) combined], st.2 ++ treeUsedObj (.scope mm kids) combined) := by
  have hm : isMultiple (.scope mm kids) = false := hmult
  have hstep : stepG F e fuel false sm mkids combined st (idx, .scope mm kids) =
      scopeBranch F false mm kids (activeNamed mm.name combined) st.1 st.2 := by
    unfold stepG
    simp only [hm, Bool.not_false, if_true]
    rw [hmatch]
  rw [hstep, firstErrObj, treeObj, treeUsedObj]
  unfold scopeBranch
  cases hdn : defsNamed mm.name combined with
  | nil =>
    rw [find_isDefn_activeNamed_none _ _ hdn, activeNamed_children_tree, hF]
    simp only [List.isEmpty_nil, if_true]
    unfold treeFetch
    cases firstErr kids (srcStep combined mm.name) with
    | some err => rfl
    | none => simp
  | cons d rest =>
    obtain ⟨x, hx⟩ := find_isDefn_activeNamed_some mm.name combined (by rw [hdn]; exact List.cons_ne_nil _ _)
    rw [hx]
    simp only [List.isEmpty_cons, Bool.false_eq_true, if_false]
    rfl

/-! ### 1b. the loop over the master's children -/

theorem foldlM_firstErr_vars {α β γ : Type} (f : (List γ × List β) → α → R (List γ × List β))
    (c : α → Option Err) (g : α → List γ) (u : α → List β) :
    ∀ (l : List α),
      (∀ st a, a ∈ l → f st a =
        match c a with
        | some E => .error E
        | none => .ok (st.1 ++ g a, st.2 ++ u a)) →
      ∀ (init : List γ × List β),
        l.foldlM f init =
          match l.findSome? c with
          | some E => .error E
          | none => .ok (init.1 ++ l.flatMap g, init.2 ++ l.flatMap u) := by
  intro l
  induction l with
  | nil => intro _ init; simp; rfl
  | cons a l ih =>
    intro hstep init
    rw [List.foldlM_cons, hstep init a List.mem_cons_self, List.findSome?_cons]
    cases hc : c a with
    | some E => rfl
    | none =>
      simp only
      show l.foldlM f _ = _
      rw [ih (fun st a' ha' => hstep st a' (List.mem_cons_of_mem _ ha'))]
      cases l.findSome? c with
      | some E => rfl
      | none => simp

theorem firstErr_eq_findSome (srcs : List Obj) : ∀ (mkids : List Obj),
    firstErr mkids srcs = mkids.findSome? (fun mo => firstErrObj mo srcs)
  | [] => by rw [firstErr]; rfl
  | mo :: rest => by
    rw [firstErr, List.findSome?_cons, firstErr_eq_findSome srcs rest]
    cases firstErrObj mo srcs <;> rfl

/-- every enabled source scope below enabled scopes is named (true of every parser output) -/
def ScopesNamed (srcs : List Obj) : Prop := ∀ m kids, ActiveIn (.scope m kids) srcs → m.name ≠ []

theorem ScopesNamed.step {srcs : List Obj} (h : ScopesNamed srcs) (n : Str) : ScopesNamed (srcStep srcs n) :=
  fun m kids hx => h m kids (activeIn_srcStep hx)

/-- **closed form of the fetch of a nested master without `.multiple`, ANY annotated sources** (non-diff
    mode): with fuel beyond the nesting depth the fetch is `treeFetch` — the error of the first
    offending source object in master order (the recorded `resolve_variables` error of a matching
    definition, or "incompatible" for a clash of kinds), else `treeResult` with the consumed ids
    `treeUsed`. -/
theorem fetch_tree_vars_total (e : Envs) : ∀ (fuel : Nat) (sm : Meta) (mkids srcs : List Obj),
    TreeMaster mkids → depthL mkids < fuel → sm.disabled = false → ScopesNamed srcs →
    fetchScope e fuel false sm mkids srcs = treeFetch sm mkids srcs := by
  intro fuel
  induction fuel with
  | zero => intro sm mkids srcs _ hd; exact absurd hd (Nat.not_lt_zero _)
  | succ fuel ih =>
    intro sm mkids srcs hf hdepth hsd hsrc
    rw [fetchScope_succ, masterActive_tree mkids hf]
    simp only
    have hsc : ∀ m kids, Obj.scope m kids ∈ srcs → m.disabled = false → m.name ≠ [] :=
      fun m kids hm hd => hsrc m kids (.here hm hd)
    rw [foldlM_firstErr_vars _ (fun io => firstErrObj io.2 srcs) (fun io => [treeObj io.2 srcs])
      (fun io => treeUsedObj io.2 srcs)]
    · have hall : (indexed mkids).findSome? (fun io => firstErrObj io.2 srcs) = firstErr mkids srcs := by
        rw [firstErr_eq_findSome]
        conv => rhs; rw [← indexed_map_snd mkids]
        rw [List.findSome?_map]
        rfl
      rw [hall]
      unfold treeFetch
      cases firstErr mkids srcs with
      | some err => rfl
      | none =>
        simp only [List.nil_append]
        unfold fetchFinish
        rw [flatMap_snd_singleton (fun mo => treeObj mo srcs),
          flatMap_snd (fun mo => treeUsedObj mo srcs), indexed_map_snd,
          ← treeResult_eq_map, ← treeUsed_eq_flatMap]
    · intro st a ha
      have hmem : a.2 ∈ mkids := by rw [← indexed_map_snd mkids]; exact List.mem_map.mpr ⟨a, ha, rfl⟩
      have hto := hf.obj _ hmem
      have hmatch := fetchMatching_tree fuel sm srcs a.2 hsd hto.name_ne hto.dotfree hsc
      obtain ⟨i, mo⟩ := a
      simp only at hmem hto hmatch ⊢
      cases mo with
      | defn mm mws =>
        rw [TreeObj] at hto
        exact stepG_defn_vars _ e fuel sm mkids srcs st i mm mws hto.1 hmatch
      | scope mm kids =>
        have hkids := TreeMaster.of_scope hto
        have hd1 := depthT_le_depthL mkids _ hmem
        rw [depthT] at hd1
        rw [TreeObj] at hto
        exact stepG_scope_vars _ e fuel sm mkids srcs st i mm kids hto.1 hmatch
          (ih mm kids (srcStep srcs mm.name) hkids (by omega) hto.2.2.2.1 (hsrc.step mm.name))

/-- `master.fetch(sources)` on parsed roots -/
theorem fetchRoot_tree_vars (e : Envs) (master : List Obj) (ss : List (List Obj))
    (hf : TreeMaster master) (hd : depthL master ≤ 1000) (hsrc : ScopesNamed ss.flatten) :
    fetchRoot e false master ss = treeFetch { name := [], id := some 0 } master ss.flatten :=
  fetch_tree_vars_total e _ _ master ss.flatten hf (fetchRoot_fuel_tree master hd) rfl hsrc

theorem findSome_srcErrOf_ok : ∀ (l : List Obj), (∀ o ∈ l, o.isDefn = true → SrcOK o) →
    l.findSome? srcErrOf = if (l.filter Obj.isScope).isEmpty then none else some incompatibleErr
  | [], _ => rfl
  | o :: os, h => by
    rw [List.findSome?_cons, List.filter_cons]
    cases o with
    | scope m k => simp [srcErrOf, Obj.isScope, Obj.isDefn]
    | defn m ws =>
      have hok := h (.defn m ws) List.mem_cons_self rfl
      have h1 : srcErrOf (.defn m ws) = none := by
        simp only [srcErrOf, srcWordsR_ok m ws hok]
      have h2 : (Obj.defn m ws).isScope = false := rfl
      rw [h1, h2]
      simp only [Bool.false_eq_true, if_false]
      exact findSome_srcErrOf_ok os (fun o ho => h o (List.mem_cons_of_mem _ ho))

mutual
theorem firstErrObj_of_srcTree : ∀ (mo : Obj) (srcs : List Obj), SrcTree srcs →
    firstErrObj mo srcs = if noClashObj mo srcs then none else some incompatibleErr
  | .defn mm mws, srcs, hs => by
    rw [firstErrObj, noClashObj, findSome_srcErrOf_ok _ (fun o ho hd =>
      hs.ok o (.here (mem_activeNamed.mp ho).1 (mem_activeNamed.mp ho).2.1) hd),
      scopesNamed_eq_filter_tree]
  | .scope mm kids, srcs, hs => by
    rw [firstErrObj, noClashObj, firstErr_of_srcTree kids (srcStep srcs mm.name) (hs.step mm.name)]
    cases (defsNamed mm.name srcs).isEmpty <;> simp
/-- on sources whose definitions all resolve, the only error is the clash of kinds: `treeFetch` is the
    closed form of `fetch_tree_total` -/
theorem firstErr_of_srcTree : ∀ (mkids srcs : List Obj), SrcTree srcs →
    firstErr mkids srcs = if noClash mkids srcs then none else some incompatibleErr
  | [], srcs, _ => by rw [firstErr, noClash]; rfl
  | mo :: rest, srcs, hs => by
    rw [firstErr, noClash, firstErrObj_of_srcTree mo srcs hs, firstErr_of_srcTree rest srcs hs]
    cases noClashObj mo srcs <;> simp
end

/-! ## 2. the denotational annotation -/

/-- the ids one word's variables refer to, given the ids each variable name stands for -/
def wordRefs (ref : Str → List Nat) (w : Word) : List Nat :=
  if w.quote == some .s1 then [] else
  match fragments w.value with
  | .error _ => []
  | .ok (frags, _) =>
    frags.flatMap fun (f : Fragment) =>
      match f with
      | .lit _ => []
      | .var name => ref name

/-- **The definitions consulted for the definition at `pos`**, transitively: for every variable of
    every word (in order) the id of the definition `nearestEarlier` designates, followed by the ids
    that definition consults itself.  Well founded like `denote`. -/
def refsAt (root : List Obj) (pos : List Nat) : List Nat :=
  match objAt root pos with
  | some (.defn _ words) =>
    let ref : Str → List Nat := fun name =>
      match h : nearestEarlier root pos name with
      | none => []
      | some p =>
        match objAt root p with
        | some (.defn m _) =>
          (match m.id with
           | some sid => sid :: refsAt root p
           | none => [])
        | _ => []
    words.flatMap (wordRefs ref)
  | _ => []
termination_by (idAt root pos).getD 0
decreasing_by exact nearestEarlier_id_lt_vs _ _ _ _ h

/-- what the annotation pass records for an outcome of `resolve_variables` -/
def varResOf (r : R (List Word)) (refs : List Nat) : VarRes :=
  match r with
  | .ok rws => .ok rws refs
  | .error (.runtime site line) => .err site line
  | .error _ => .err "unsupported" none

mutual
/-- the object at position `pos` of `root`, annotated -/
def annObj (env : Env) (diff : Bool) (root : List Obj) (pos : List Nat) : Obj → Obj
  | .defn m ws =>
    if !hasLiveDollar ws then .defn m ws else
    match m.id with
    | none => .defn m ws
    | some _ => .defn { m with varRes := some (varResOf (denote env root pos diff) (refsAt root pos)) } ws
  | .scope m kids => .scope m (annList env diff root pos 0 kids)
/-- the objects `l`, which sit at the positions `pfx ++ [i]`, `pfx ++ [i+1]`, … of `root`, annotated -/
def annList (env : Env) (diff : Bool) (root : List Obj) (pfx : List Nat) (i : Nat) : List Obj → List Obj
  | [] => []
  | o :: os => annObj env diff root (pfx ++ [i]) o :: annList env diff root pfx (i + 1) os
end

/-- **the denoted document**: every definition with a live `$` carries the denotation of its words at
    its own position (`denote`) and the definitions consulted (`refsAt`) -/
def denoteDoc (env : Env) (diff : Bool) (root : List Obj) : List Obj := annList env diff root [] 0 root

/-! ## 3. `resolveRefs` is `refsAt` -/

/-- the ids a variable name of the definition at `pos` stands for (the `ref` inside `refsAt`) -/
def refIds (root : List Obj) (pos : List Nat) (name : Str) : List Nat :=
  match nearestEarlier root pos name with
  | none => []
  | some p =>
    match objAt root p with
    | some (.defn m _) =>
      (match m.id with
       | some sid => sid :: refsAt root p
       | none => [])
    | _ => []

theorem refsAt_defn (root : List Obj) (pos : List Nat) (m : Meta) (ws : List Word)
    (h : objAt root pos = some (.defn m ws)) :
    refsAt root pos = ws.flatMap (wordRefs (refIds root pos)) := by
  rw [refsAt]
  simp only [h]
  congr 1
  funext w
  congr 1
  funext name
  unfold refIds
  split <;> simp_all

theorem refsAt_other (root : List Obj) (pos : List Nat)
    (h : ∀ m ws, objAt root pos ≠ some (.defn m ws)) : refsAt root pos = [] := by
  rw [refsAt]
  split
  · rename_i m ws hh; exact absurd hh (h m ws)
  · rfl

/-- one word of `resolveRefs` -/
def wordRefsOp (fuel : Nat) (chain : Chain) (id : Nat) (w : Word) : List Nat :=
  if w.quote == some .s1 then [] else
  match fragments w.value with
  | .error _ => []
  | .ok (frags, _) =>
    frags.flatMap fun (f : Fragment) =>
      match f with
      | .lit _ => []
      | .var name =>
        match lexicalGet (2 * name.length + chain.length + 1) chain name id true with
        | some (.defn m ws, ch) =>
          (match m.id with
           | some sid => sid :: resolveRefs fuel ch sid ws
           | none => [])
        | _ => []

theorem resolveRefs_succ (fuel : Nat) (chain : Chain) (id : Nat) (words : List Word) :
    resolveRefs (fuel + 1) chain id words = words.flatMap (wordRefsOp fuel chain id) := by
  rw [resolveRefs]
  rfl

theorem flatMap_congr_fv {α β : Type} (f g : α → List β) : ∀ (l : List α), (∀ a ∈ l, f a = g a) →
    l.flatMap f = l.flatMap g
  | [], _ => rfl
  | a :: l, h => by
    rw [List.flatMap_cons, List.flatMap_cons, h a List.mem_cons_self,
      flatMap_congr_fv f g l (fun b hb => h b (List.mem_cons_of_mem _ hb))]

/-- **`resolveRefs` equals the specification `refsAt`** on numbered documents, with any fuel beyond
    the id of the definition -/
theorem resolveRefs_eq_refsAt (root : List Obj) (hd : Numbered root) :
    ∀ (n : Nat) (pos : List Nat) (m : Meta) (ws : List Word) (ch : Chain),
      chainAt root pos [] = some (.defn m ws, ch) → m.id = some n →
      ∀ (fuel : Nat), n < fuel → resolveRefs fuel ch n ws = refsAt root pos := by
  intro n
  induction n using Nat.strongRecOn with
  | ind n ih =>
    intro pos m ws ch hc hid fuel hfuel
    obtain ⟨f, rfl⟩ : ∃ k, fuel = k + 1 := ⟨fuel - 1, by omega⟩
    have hobj := chainAt_objAt_vs pos root [] _ ch hc
    rw [resolveRefs_succ, refsAt_defn root pos m ws hobj]
    apply flatMap_congr_fv
    intro w _
    unfold wordRefsOp wordRefs
    split
    · rfl
    · cases hfr : fragments w.value with
      | error site => rfl
      | ok pr =>
        obtain ⟨frags, hv⟩ := pr
        simp only
        apply flatMap_congr_fv
        intro fr hfrm
        cases fr with
        | lit s => rfl
        | var name =>
          have hg := fragments_good_vs _ _ _ hfr name hfrm
          simp only
          rw [lexicalGet_nearestEarlier_vs root hd pos (.defn m ws) ch n hc hid name hg]
          unfold refIds foundOr
          cases hne : nearestEarlier root pos name with
          | none => rfl
          | some p =>
            obtain ⟨n', o, hn', ho, he⟩ := nearestEarlier_earlier_vs root pos name p hne
            rw [idAt_of_chainAt_vs root pos _ ch n hc hid] at hn'
            cases hn'
            obtain ⟨cc, hcc⟩ := objAt_chainAt_vs p root [] o ho
            simp only [hcc, ho]
            cases o with
            | scope m' k' => rfl
            | defn m' ws' =>
              obtain ⟨i, hi, hlt⟩ := earlier_id_vs he
              have hi' : m'.id = some i := hi
              simp only [hi']
              rw [ih i hlt p m' ws' cc hcc hi' f (by omega)]

/-! ## 4. the annotation pass computes the denoted document -/

theorem map_eq_annList (env : Env) (diff : Bool) (root : List Obj) (pfx : List Nat) (f : Obj → Obj) :
    ∀ (l : List Obj) (k : Nat),
      (∀ j o, l[j]? = some o → f o = annObj env diff root (pfx ++ [k + j]) o) →
      l.map f = annList env diff root pfx k l
  | [], k, _ => by rw [annList]; rfl
  | o :: os, k, h => by
    rw [annList, List.map_cons, h 0 o (by simp), Nat.add_zero,
      map_eq_annList env diff root pfx f os (k + 1) (fun j o' hj => by
        have := h (j + 1) o' (by simpa using hj)
        rw [show k + 1 + j = k + (j + 1) by omega]
        exact this)]

theorem chainDown_snoc_fv : ∀ (pfx : List Nat) (r : List Obj) (o0 : Chain) (objs : List Obj)
    (outer : Chain) (i : Nat) (m : Meta) (kids : List Obj),
    chainDown r pfx o0 = some (objs :: outer) → objs[i]? = some (.scope m kids) →
    chainDown r (pfx ++ [i]) o0 = some (kids :: objs :: outer)
  | [], r, o0, objs, outer, i, m, kids, h, hi => by
    simp only [chainDown, Option.some.injEq, List.cons.injEq] at h
    obtain ⟨rfl, rfl⟩ := h
    simp [chainDown, hi]
  | j :: p, r, o0, objs, outer, i, m, kids, h, hi => by
    simp only [chainDown] at h
    split at h
    · rename_i m' kids' hj
      simp only [List.cons_append, chainDown, hj]
      exact chainDown_snoc_fv p kids' (r :: o0) objs outer i m kids h hi
    · cases h

theorem chainAt_snoc_fv : ∀ (pfx : List Nat) (r : List Obj) (o0 : Chain) (objs : List Obj)
    (outer : Chain) (i : Nat) (o : Obj),
    chainDown r pfx o0 = some (objs :: outer) → objs[i]? = some o →
    chainAt r (pfx ++ [i]) o0 = some (o, objs :: outer)
  | [], r, o0, objs, outer, i, o, h, hi => by
    simp only [chainDown, Option.some.injEq, List.cons.injEq] at h
    obtain ⟨rfl, rfl⟩ := h
    simp [chainAt, hi]
  | j :: p, r, o0, objs, outer, i, o, h, hi => by
    simp only [chainDown] at h
    split at h
    · rename_i m' kids' hj
      rw [List.cons_append, chainAt_cons_vs r j m' kids' (p ++ [i]) o0 (by simp) hj]
      exact chainAt_snoc_fv p kids' (r :: o0) objs outer i o h hi
    · cases h

theorem sizeObj_le_sizeList : ∀ (l : List Obj) (o : Obj), o ∈ l → sizeObj o ≤ sizeList l
  | [], o, h => by cases h
  | a :: os, o, h => by
    rw [sizeList]
    rw [List.mem_cons] at h
    rcases h with rfl | h
    · omega
    · have := sizeObj_le_sizeList os o h; omega

/-- the annotation of one definition, as the pass writes it -/
theorem preResolve_defn_step (env : Env) (diff : Bool) (root : List Obj) (hd : DocIds root)
    (pos : List Nat) (m : Meta) (ws : List Word) (ch : Chain) (id : Nat)
    (hc : chainAt root pos [] = some (.defn m ws, ch)) (hid : m.id = some id) :
    (match resolveWords env (countObjs root + 2) ch id ws diff with
      | .ok rws => VarRes.ok rws (resolveRefs (countObjs root + 2) ch id ws)
      | .error (.runtime site line) => VarRes.err site line
      | .error _ => VarRes.err "unsupported" none) =
      varResOf (denote env root pos diff) (refsAt root pos) := by
  have ho := chainAt_objAt_vs pos root [] _ ch hc
  have hle := idsLe_objAt_vs (sizeList root) pos root _ id hd.2 ho hid
  rw [sizeList_eq_countObjs_vs] at hle
  rw [resolveWords_eq_denote_vs env root hd.1 id pos m ws ch hc hid _ diff (by omega),
    resolveRefs_eq_refsAt root hd.1 id pos m ws ch hc hid _ (by omega)]
  unfold varResOf
  cases denote env root pos diff with
  | ok rws => rfl
  | error e => cases e <;> rfl

theorem preResolveList_eq_annList (env : Env) (diff : Bool) (root : List Obj) (hd : DocIds root) :
    ∀ (fuel : Nat) (objs : List Obj) (pfx : List Nat) (outer : Chain),
      chainDown root pfx [] = some (objs :: outer) → sizeList objs < fuel →
      preResolveList env diff (countObjs root) fuel outer objs = annList env diff root pfx 0 objs := by
  intro fuel
  induction fuel with
  | zero => intro objs pfx outer _ h; omega
  | succ fuel ih =>
    intro objs pfx outer hch hsz
    rw [preResolveList]
    apply map_eq_annList
    intro j o hj
    rw [Nat.zero_add]
    cases o with
    | defn m ws =>
      rw [annObj]
      simp only
      split
      · rfl
      · cases hid : m.id with
        | none => rfl
        | some id =>
          simp only
          have hstep := preResolve_defn_step env diff root hd (pfx ++ [j]) m ws (objs :: outer) id
            (chainAt_snoc_fv pfx root [] objs outer j _ hch hj) hid
          exact congrArg (fun v => Obj.defn (Meta.mk m.name (some id) m.disabled m.line m.mergeNames
            m.tmpl m.attrs (some v)) ws) hstep
    | scope m kids =>
      rw [annObj]
      simp only
      have hmem := getElem_mem_vs hj
      have hsz' := sizeObj_le_sizeList objs _ hmem
      rw [sizeObj] at hsz'
      rw [ih kids (pfx ++ [j]) (objs :: outer) (chainDown_snoc_fv pfx root [] objs outer j m kids hch hj)
        (by omega)]

/-- **the annotation pass computes the denoted document**: on a document numbered like the parser's
    output (`DocIds`), `preResolve` stores in every definition with a live `$` exactly the denotation
    of its words at its own position (`denote`; the error it raises otherwise) and the definitions
    consulted (`refsAt`) -/
theorem preResolve_eq_denoteDoc (env : Env) (diff : Bool) (root : List Obj) (hd : DocIds root) :
    preResolve env diff root = denoteDoc env diff root := by
  unfold preResolve denoteDoc
  exact preResolveList_eq_annList env diff root hd _ root [] [] rfl
    (by rw [sizeList_eq_countObjs_vs]; omega)

/-! ## 5. positions: every object of the denoted document is an annotated object of the document -/

theorem annObj_scope (env : Env) (diff : Bool) (root : List Obj) (pos : List Nat) (m : Meta) (kids : List Obj) :
    annObj env diff root pos (.scope m kids) = .scope m (annList env diff root pos 0 kids) := by
  rw [annObj]

/-- the annotation of a definition: untouched, or its `varRes` set -/
theorem annObj_defn_cases (env : Env) (diff : Bool) (root : List Obj) (pos : List Nat) (m : Meta)
    (ws : List Word) :
    annObj env diff root pos (.defn m ws) = .defn m ws ∨
      (hasLiveDollar ws = true ∧ ∃ n, m.id = some n ∧
        annObj env diff root pos (.defn m ws) =
          .defn { m with varRes := some (varResOf (denote env root pos diff) (refsAt root pos)) } ws) := by
  rw [annObj]
  by_cases hl : hasLiveDollar ws = true
  · cases hid : m.id with
    | none => left; simp [hl]
    | some n => right; exact ⟨hl, n, rfl, by simp [hl]⟩
  · left; simp [hl]

theorem annObj_name (env : Env) (diff : Bool) (root : List Obj) (pos : List Nat) (o : Obj) :
    (annObj env diff root pos o).name = o.name := by
  cases o with
  | scope m k => rw [annObj]; rfl
  | defn m ws =>
    rcases annObj_defn_cases env diff root pos m ws with h | ⟨_, n, _, h⟩ <;> rw [h] <;> rfl

theorem annObj_disabled (env : Env) (diff : Bool) (root : List Obj) (pos : List Nat) (o : Obj) :
    (annObj env diff root pos o).meta.disabled = o.meta.disabled := by
  cases o with
  | scope m k => rw [annObj]; rfl
  | defn m ws =>
    rcases annObj_defn_cases env diff root pos m ws with h | ⟨_, n, _, h⟩ <;> rw [h] <;> rfl

theorem annObj_isDefn (env : Env) (diff : Bool) (root : List Obj) (pos : List Nat) (o : Obj) :
    (annObj env diff root pos o).isDefn = o.isDefn := by
  cases o with
  | scope m k => rw [annObj]; rfl
  | defn m ws =>
    rcases annObj_defn_cases env diff root pos m ws with h | ⟨_, n, _, h⟩ <;> rw [h] <;> rfl

theorem annObj_id (env : Env) (diff : Bool) (root : List Obj) (pos : List Nat) (o : Obj) :
    (annObj env diff root pos o).meta.id = o.meta.id := by
  cases o with
  | scope m k => rw [annObj]; rfl
  | defn m ws =>
    rcases annObj_defn_cases env diff root pos m ws with h | ⟨_, n, _, h⟩ <;> rw [h] <;> rfl

theorem annObj_words (env : Env) (diff : Bool) (root : List Obj) (pos : List Nat) (m : Meta) (ws : List Word) :
    (annObj env diff root pos (.defn m ws)).words = ws := by
  rcases annObj_defn_cases env diff root pos m ws with h | ⟨_, n, _, h⟩ <;> rw [h] <;> rfl

theorem mem_annList (env : Env) (diff : Bool) (root : List Obj) (pfx : List Nat) :
    ∀ (l : List Obj) (k : Nat) (y : Obj), y ∈ annList env diff root pfx k l →
      ∃ j o, l[j]? = some o ∧ y = annObj env diff root (pfx ++ [k + j]) o
  | [], k, y, h => by rw [annList] at h; cases h
  | o :: os, k, y, h => by
    rw [annList, List.mem_cons] at h
    rcases h with rfl | h
    · exact ⟨0, o, by simp, rfl⟩
    · obtain ⟨j, o', hj, rfl⟩ := mem_annList env diff root pfx os (k + 1) y h
      exact ⟨j + 1, o', by simpa using hj, by rw [show k + (j + 1) = k + 1 + j by omega]⟩

/-- the objects of `l` sit at the positions `pfx ++ [0]`, `pfx ++ [1]`, … of `root` -/
def SitsAt (root : List Obj) (pfx : List Nat) (l : List Obj) : Prop :=
  ∀ j o, l[j]? = some o → objAt root (pfx ++ [j]) = some o

theorem sitsAt_root (root : List Obj) : SitsAt root [] root := by
  intro j o hj
  simpa [objAt] using hj

theorem objAt_snoc_fv : ∀ (p : List Nat) (r : List Obj) (m : Meta) (kids : List Obj) (i : Nat) (o : Obj),
    objAt r p = some (.scope m kids) → kids[i]? = some o → objAt r (p ++ [i]) = some o
  | [], r, m, kids, i, o, h, _ => by rw [objAt_nil_vs] at h; cases h
  | [j], r, m, kids, i, o, h, hi => by
    simp only [objAt] at h
    simp [objAt, h, hi]
  | j :: a :: b, r, m, kids, i, o, h, hi => by
    simp only [objAt] at h
    split at h
    · rename_i m' kids' hj
      have := objAt_snoc_fv (a :: b) kids' m kids i o h hi
      simp only [List.cons_append, objAt, hj]
      simpa using this
    · cases h

/-- **every active object of the denoted document is the annotation of an active object of the
    document at its own position** -/
theorem activeIn_annList_fv (env : Env) (diff : Bool) (root : List Obj) {x : Obj} {L : List Obj}
    (h : ActiveIn x L) :
    ∀ (pfx : List Nat) (l : List Obj), L = annList env diff root pfx 0 l → SitsAt root pfx l →
      ∃ pos x0, ActiveIn x0 l ∧ objAt root pos = some x0 ∧ x = annObj env diff root pos x0 := by
  induction h with
  | @here L hm hd =>
    intro pfx l hL hs
    rw [hL] at hm
    obtain ⟨j, o, hj, rfl⟩ := mem_annList env diff root pfx l 0 _ hm
    rw [annObj_disabled] at hd
    rw [Nat.zero_add]
    exact ⟨pfx ++ [j], o, .here (getElem_mem_vs hj) hd, hs j o hj, rfl⟩
  | @deeper L m kids' hm hd _ ih =>
    intro pfx l hL hs
    rw [hL] at hm
    obtain ⟨j, o, hj, ho⟩ := mem_annList env diff root pfx l 0 _ hm
    rw [Nat.zero_add] at ho
    cases o with
    | defn m0 ws0 =>
      have := annObj_isDefn env diff root (pfx ++ [j]) (.defn m0 ws0)
      rw [← ho] at this
      cases this
    | scope m0 kids0 =>
      rw [annObj_scope] at ho
      injection ho with hm1 hk1
      subst hm1
      obtain ⟨pos, x0, ha, hp, hx⟩ := ih (pfx ++ [j]) kids0 hk1
        (fun j' o' hj' => objAt_snoc_fv _ _ _ _ _ _ (hs j _ hj) hj')
      exact ⟨pos, x0, .deeper (getElem_mem_vs hj) hd ha, hp, hx⟩

theorem activeIn_denoteDoc (env : Env) (diff : Bool) (root : List Obj) {x : Obj}
    (h : ActiveIn x (denoteDoc env diff root)) :
    ∃ pos x0, ActiveIn x0 root ∧ objAt root pos = some x0 ∧ x = annObj env diff root pos x0 :=
  activeIn_annList_fv env diff root h [] root rfl (sitsAt_root root)

theorem activeIn_flatten_fv {x : Obj} {ls : List (List Obj)} (h : ActiveIn x ls.flatten) :
    ∃ l ∈ ls, ActiveIn x l := by
  cases h with
  | here hm hd =>
    obtain ⟨l, hl, hx⟩ := List.mem_flatten.mp hm
    exact ⟨l, hl, .here hx hd⟩
  | deeper hm hd hk =>
    obtain ⟨l, hl, hx⟩ := List.mem_flatten.mp hm
    exact ⟨l, hl, .deeper hx hd hk⟩

theorem activeIn_of_mem_flatten_fv {x : Obj} {ls : List (List Obj)} {l : List Obj} (hl : l ∈ ls)
    (h : ActiveIn x l) : ActiveIn x ls.flatten :=
  h.mono (fun y hy => List.mem_flatten.mpr ⟨l, hl, hy⟩)

/-- named scopes stay named under the annotation -/
theorem scopesNamed_denoteDocs (env : Env) (diff : Bool) (docs : List (List Obj))
    (h : ScopesNamed docs.flatten) : ScopesNamed (docs.map (denoteDoc env diff)).flatten := by
  intro m kids hx
  obtain ⟨l, hl, hxl⟩ := activeIn_flatten_fv hx
  obtain ⟨doc, hdoc, rfl⟩ := List.mem_map.mp hl
  obtain ⟨pos, x0, ha, _, hx0⟩ := activeIn_denoteDoc env diff doc hxl
  cases x0 with
  | defn m0 ws0 =>
    have := annObj_isDefn env diff doc pos (.defn m0 ws0)
    rw [← hx0] at this
    cases this
  | scope m0 kids0 =>
    rw [annObj_scope] at hx0
    injection hx0 with hm1 _
    subst hm1
    exact h m kids0 (activeIn_of_mem_flatten_fv hdoc ha)

/-! ## 6. `fetchRoot` on pre-resolved parser outputs -/

/-- **`master.fetch(sources)` with `$variables` in the sources.**  For a nested master without
    `.multiple` and sources that are the annotation-pass images of documents numbered like parser
    outputs, the fetch is the specification `treeFetch` applied to the DENOTED documents. -/
theorem fetchRoot_preResolved (e : Envs) (env : Env) (master : List Obj) (docs : List (List Obj))
    (hf : TreeMaster master) (hd : depthL master ≤ 1000) (hdocs : ∀ d ∈ docs, DocIds d)
    (hnamed : ScopesNamed docs.flatten) :
    fetchRoot e false master (docs.map (preResolve env false)) =
      treeFetch { name := [], id := some 0 } master (docs.map (denoteDoc env false)).flatten := by
  have hmap : docs.map (preResolve env false) = docs.map (denoteDoc env false) :=
    List.map_congr_left (fun d hdm => preResolve_eq_denoteDoc env false d (hdocs d hdm))
  rw [hmap]
  exact fetchRoot_tree_vars e master _ hf hd (scopesNamed_denoteDocs env false docs hnamed)

/-! ## 7. what an annotated definition contributes to a fetch, in terms of the denotation -/

theorem live_words_fv {ws : List Word} (h : hasLiveDollar ws = false) :
    ∀ w ∈ ws, w.quote = some .s1 ∨ '$' ∉ w.value := by
  intro w hw
  unfold hasLiveDollar at h
  rw [List.any_eq_false] at h
  have := h w hw
  by_cases hq : w.quote = some .s1
  · exact .inl hq
  · right
    intro hm
    apply this
    simp [hq, hm]

/-- a definition without a live `$` denotes its own words -/
theorem denote_plain_fv (env : Env) (root : List Obj) (pos : List Nat) (diff : Bool) (m : Meta)
    (ws : List Word) (ho : objAt root pos = some (.defn m ws)) (hl : hasLiveDollar ws = false) :
    denote env root pos diff = .ok ws := by
  rw [denote_defn_vs env root pos diff m ws ho, mapM_untouched_vs env diff _ ws (live_words_fv hl)]
  simp only [Except.map, flatten_singletons_vs]

theorem wordRefs_plain_fv (ref : Str → List Nat) (w : Word) (h : w.quote = some .s1 ∨ '$' ∉ w.value) :
    wordRefs ref w = [] := by
  unfold wordRefs
  rcases h with hq | hd
  · simp [hq]
  · by_cases hq : (w.quote == some Quote.s1) = true
    · simp [hq]
    · simp only [hq, Bool.false_eq_true, if_false, no_dollar_no_vars _ hd, plainFrags]
      split <;> simp

/-- … and consults no definition -/
theorem refsAt_plain_fv (root : List Obj) (pos : List Nat) (m : Meta) (ws : List Word)
    (ho : objAt root pos = some (.defn m ws)) (hl : hasLiveDollar ws = false) : refsAt root pos = [] := by
  rw [refsAt_defn root pos m ws ho, List.flatMap_eq_nil_iff]
  intro w hw
  exact wordRefs_plain_fv _ w (live_words_fv hl w hw)

theorem mapM_error_mem_fv {α β : Type} (f : α → R β) : ∀ (l : List α) (e : Err),
    l.mapM f = .error e → ∃ a ∈ l, f a = .error e
  | [], e, h => by rw [mapM_nil_vs] at h; cases h
  | a :: l, e, h => by
    rw [mapM_cons_vs] at h
    cases hfa : f a with
    | error e' =>
      rw [hfa] at h
      simp only at h
      cases h
      exact ⟨a, List.mem_cons_self, hfa⟩
    | ok b =>
      rw [hfa] at h
      simp only at h
      cases hl : l.mapM f with
      | error e' =>
        rw [hl] at h
        simp only at h
        cases h
        obtain ⟨a', ha', hf'⟩ := mapM_error_mem_fv f l e hl
        exact ⟨a', List.mem_cons_of_mem _ ha', hf'⟩
      | ok bs => rw [hl] at h; cases h

theorem except_map_error_fv {α β : Type} (g : α → β) (r : R α) (e : Err) (h : r.map g = .error e) :
    r = .error e := by
  cases r with
  | error e' => simpa [Except.map] using h
  | ok a => cases h

/-- an error of a variable of the definition at `pos` is a RuntimeError, given that the referenced
    definitions raise RuntimeErrors only -/
theorem varWords_err_runtime_fv (env : Env) (root : List Obj) (pos : List Nat) (diff : Bool) (w : Word)
    (name : Str) (e : Err)
    (ih : ∀ p m' ws', nearestEarlier root pos name = some p → objAt root p = some (.defn m' ws') →
      ∀ e', denote env root p false = .error e' → ∃ site line, e' = .runtime site line)
    (h : varWords env diff (refOf env root pos) w name = .error e) : ∃ site line, e = .runtime site line := by
  unfold varWords refOf at h
  cases hne : nearestEarlier root pos name with
  | none =>
    rw [hne] at h
    simp only at h
    cases diff with
    | true => cases h
    | false =>
      simp only [Bool.false_eq_true, if_false] at h
      cases henv : env name with
      | some v => rw [henv] at h; cases h
      | none => rw [henv] at h; cases h; exact ⟨_, _, rfl⟩
  | some p =>
    rw [hne] at h
    simp only at h
    cases hob : objAt root p with
    | none => rw [hob] at h; cases h; exact ⟨_, _, rfl⟩
    | some o =>
      cases o with
      | scope m' k' => rw [hob] at h; cases h; exact ⟨_, _, rfl⟩
      | defn m' ws' => rw [hob] at h; exact ih p m' ws' hne hob e h

/-- **the denotation raises RuntimeErrors only** (the errors of `resolve_variables`: undefined
    variable, not a definition, and the three syntax errors of the substitution proxy) -/
theorem denote_err_runtime (env : Env) (root : List Obj) :
    ∀ (n : Nat) (pos : List Nat), (idAt root pos).getD 0 = n → ∀ (m : Meta) (ws : List Word),
      objAt root pos = some (.defn m ws) → ∀ (diff : Bool) (e : Err),
      denote env root pos diff = .error e → ∃ site line, e = .runtime site line := by
  intro n
  induction n using Nat.strongRecOn with
  | ind n ih =>
    intro pos hn m ws ho diff e h
    rw [denote_defn_vs env root pos diff m ws ho] at h
    have h1 := except_map_error_fv _ _ _ h
    obtain ⟨w, _, hw⟩ := mapM_error_mem_fv _ ws e h1
    have ihv : ∀ name p m' ws', nearestEarlier root pos name = some p →
        objAt root p = some (.defn m' ws') → ∀ e', denote env root p false = .error e' →
        ∃ site line, e' = .runtime site line := by
      intro name p m' ws' hp ho' e' he'
      have hlt := nearestEarlier_id_lt_vs root pos name p hp
      rw [hn] at hlt
      exact ih _ hlt p rfl m' ws' ho' false e' he'
    unfold substWord at hw
    split at hw
    · cases hw
    · split at hw
      · cases hw; exact ⟨_, _, rfl⟩
      · split at hw
        · cases hw
        · split at hw
          · rename_i name _ _
            exact varWords_err_runtime_fv env root pos diff w name e (ihv name) hw
          · have h2 := except_map_error_fv _ _ _ hw
            rename_i frags _ _ _ _
            obtain ⟨fr, _, hfr⟩ := mapM_error_mem_fv _ _ e h2
            cases fr with
            | lit s => cases hfr
            | var name =>
              simp only [fragText] at hfr
              exact varWords_err_runtime_fv env root pos diff w name e (ihv name)
                (except_map_error_fv _ _ _ hfr)

/-- **what the annotated definition at `pos` contributes to a fetch**: `fetch_value` raises exactly
    the error of the denotation, else works with the denoted words; the definitions marked through it
    are those the specification `refsAt` lists -/
theorem annObj_defn_spec (env : Env) (diff : Bool) (root : List Obj) (pos : List Nat) (m : Meta)
    (ws : List Word) (ho : objAt root pos = some (.defn m ws)) (hid : m.id ≠ none)
    (hfresh : m.varRes = none) :
    srcErrOf (annObj env diff root pos (.defn m ws)) =
        (match denote env root pos diff with
         | .ok _ => none
         | .error e => some e) ∧
      ∀ r, denote env root pos diff = .ok r →
        (annObj env diff root pos (.defn m ws)).srcWords = r ∧
          srcRefs (annObj env diff root pos (.defn m ws)) = refsAt root pos := by
  by_cases hl : hasLiveDollar ws = true
  · obtain ⟨n, hn⟩ : ∃ n, m.id = some n := by
      cases h : m.id with
      | none => exact absurd h hid
      | some n => exact ⟨n, rfl⟩
    have hd : annObj env diff root pos (.defn m ws) =
        .defn { m with varRes := some (varResOf (denote env root pos diff) (refsAt root pos)) } ws := by
      rw [annObj]; simp [hl, hn]
    rw [hd]
    cases hden : denote env root pos diff with
    | ok r =>
      constructor
      · simp [srcErrOf, srcWordsR, varResOf]
      · intro r' hr
        cases hr
        exact ⟨by simp [Obj.srcWords, Obj.meta, varResOf], by simp [srcRefs, Obj.meta, varResOf]⟩
    | error e =>
      obtain ⟨site, line, rfl⟩ := denote_err_runtime env root _ pos rfl m ws ho diff e hden
      constructor
      · simp [srcErrOf, srcWordsR, varResOf]
      · intro r hr; cases hr
  · have hl' : hasLiveDollar ws = false := by simpa using hl
    have hd : annObj env diff root pos (.defn m ws) = .defn m ws := by
      rw [annObj]; simp [hl']
    have hdol : hasDollar ws = false := hl'
    rw [hd, denote_plain_fv env root pos diff m ws ho hl']
    constructor
    · simp [srcErrOf, srcWordsR, hfresh, hdol]
    · intro r hr
      cases hr
      have hf' : (Obj.defn m ws).meta.varRes = none := hfresh
      exact ⟨srcWords_of_varRes_none _ hf', by
        rw [srcRefs_of_varRes_none _ hf', refsAt_plain_fv root pos m ws ho hl']⟩

theorem activeIn_srcAt_fv : ∀ (ps : List Str) (srcs : List Obj) (x : Obj),
    ActiveIn x (srcAt srcs ps) → ActiveIn x srcs
  | [], _, _, h => h
  | s :: ps, srcs, x, h => activeIn_srcStep (activeIn_srcAt_fv ps (srcStep srcs s) x h)

/-- no recorded resolution on the enabled objects below enabled scopes (true of parser outputs) -/
def Fresh (doc : List Obj) : Prop := ∀ x, ActiveIn x doc → x.meta.varRes = none

theorem numbered_activeIn_fv {x : Obj} {l : List Obj} (h : ActiveIn x l) :
    Numbered l → x.meta.id.isSome = true ∧ '.' ∉ x.name := by
  induction h with
  | here hm _ => intro hn; exact levelOk_mem_vs _ _ hn.1 hm
  | deeper hm _ _ ih => intro hn; exact ih (okList_mem_vs _ _ _ hn.2 hm)

/-- **the source definition that wins at a path is a definition of one of the documents, and it
    contributes the denotation at its own position in that document** -/
theorem lastDef_denoted (env : Env) (docs : List (List Obj)) (hdocs : ∀ d ∈ docs, DocIds d)
    (hfresh : ∀ d ∈ docs, Fresh d) (ps : List Str) (n : Str) (d : Obj)
    (h : lastDef (srcAt (docs.map (denoteDoc env false)).flatten ps) n = some d) :
    ∃ doc ∈ docs, ∃ pos m ws, objAt doc pos = some (.defn m ws) ∧ m.name = n ∧ m.disabled = false ∧
      d = annObj env false doc pos (.defn m ws) ∧
      srcErrOf d = (match denote env doc pos false with
                    | .ok _ => none
                    | .error e => some e) ∧
      ∀ r, denote env doc pos false = .ok r → d.srcWords = r ∧ srcRefs d = refsAt doc pos := by
  have hmem : d ∈ defsNamed n (srcAt (docs.map (denoteDoc env false)).flatten ps) := by
    unfold lastDef at h
    exact List.mem_of_getLast? h
  have hd := mem_defsNamed.mp hmem
  have hact := activeIn_srcAt_fv ps _ d (.here hd.1 hd.2.2.1)
  obtain ⟨l, hl, hdl⟩ := activeIn_flatten_fv hact
  obtain ⟨doc, hdoc, rfl⟩ := List.mem_map.mp hl
  obtain ⟨pos, x0, ha, hp, hx⟩ := activeIn_denoteDoc env false doc hdl
  cases x0 with
  | scope m0 k0 =>
    have := annObj_isDefn env false doc pos (.scope m0 k0)
    rw [← hx, hd.2.1] at this
    cases this
  | defn m ws =>
    have hnum := numbered_activeIn_fv ha (hdocs doc hdoc).1
    have hid : m.id ≠ none := by
      intro hn
      have := hnum.1
      simp [Obj.meta, hn] at this
    have hspec := annObj_defn_spec env false doc pos m ws hp hid (hfresh doc hdoc _ ha)
    rw [← hx] at hspec
    refine ⟨doc, hdoc, pos, m, ws, hp, ?_, ?_, hx, hspec.1, hspec.2⟩
    · have := annObj_name env false doc pos (.defn m ws)
      rw [← hx, hd.2.2.2] at this
      exact this.symm
    · have := annObj_disabled env false doc pos (.defn m ws)
      rw [← hx, hd.2.2.1] at this
      exact this.symm

/-! ## 8. C06 with variables: the consumed ids and the reported list -/

/-- dot-free names on the enabled objects below enabled scopes (the parser nests dotted spellings) -/
def SrcDotfree (srcs : List Obj) : Prop := ∀ x, ActiveIn x srcs → '.' ∉ x.name

theorem SrcDotfree.step {srcs : List Obj} (h : SrcDotfree srcs) (n : Str) : SrcDotfree (srcStep srcs n) :=
  fun x hx => h x (activeIn_srcStep hx)

theorem mem_marksOf_fv {d : Obj} {i : Nat} : i ∈ marksOf d ↔ d.meta.id = some i ∨ i ∈ srcRefs d := by
  unfold marksOf idOf
  rw [List.mem_append]
  cases d.meta.id with
  | none => simp
  | some j => simp [eq_comm]

mutual
theorem mem_treeUsedObj_vars : ∀ (mo : Obj) (srcs : List Obj) (p : Str) (i : Nat),
    TreeObj mo → NoIncludeTree [mo] → SrcDotfree srcs →
    (i ∈ treeUsedObj mo srcs ↔
      ∃ x ∈ allDefsObj.allDefsList srcs p, x.1 ∈ defPathsObj mo p ∧
        (x.2.1.id = some i ∨ i ∈ srcRefs (.defn x.2.1 x.2.2)))
  | .defn mm mws, srcs, p, i, ht, hinc, hs => by
    rw [TreeObj] at ht
    have hinc' : mm.name ≠ "include".toList :=
      hinc (.defn mm mws) (.here (List.mem_singleton.mpr rfl) ht.2.2.2) rfl
    have hB := allDefs_defsNamed_tree mm.name p ht.2.2.1 hinc' srcs
    rw [treeUsedObj, defPathsObj]
    constructor
    · intro hi
      rw [List.mem_flatMap] at hi
      obtain ⟨d, hd, hid⟩ := hi
      have hid' := mem_marksOf_fv.mp hid
      have hx : (p ++ mm.name, d.meta, d.words) ∈
          (allDefsObj.allDefsList srcs p).filter (fun x => x.1 == p ++ mm.name) := by
        rw [hB]; exact List.mem_map.mpr ⟨d, hd, rfl⟩
      exact ⟨_, (List.mem_filter.mp hx).1, List.mem_singleton.mpr rfl, hid'⟩
    · rintro ⟨x, hx, hpath, hid⟩
      rw [List.mem_singleton] at hpath
      have hx' : x ∈ (allDefsObj.allDefsList srcs p).filter (fun x => x.1 == p ++ mm.name) :=
        List.mem_filter.mpr ⟨hx, by simpa using hpath⟩
      rw [hB, List.mem_map] at hx'
      obtain ⟨d, hd, hdx⟩ := hx'
      rw [List.mem_flatMap]
      refine ⟨d, hd, mem_marksOf_fv.mpr ?_⟩
      rw [← hdx] at hid
      exact hid
  | .scope mm kids, srcs, p, i, ht, hinc, hs => by
    have hkids := (TreeMaster.of_scope ht).kids
    rw [TreeObj] at ht
    have hinck : NoIncludeTree kids := fun d hd hdef =>
      hinc d (.deeper (List.mem_singleton.mpr rfl) ht.2.2.2.1 hd) hdef
    have hA := allDefs_srcStep_tree mm.name p ht.2.2.1 srcs (fun o ho hd => hs o (.here ho hd))
    rw [treeUsedObj, defPathsObj,
      mem_treeUsed_vars kids (srcStep srcs mm.name) (p ++ mm.name ++ ['.']) i hkids hinck (hs.step mm.name),
      ← hA]
    constructor
    · rintro ⟨x, hx, hpath, hid⟩
      exact ⟨x, (List.mem_filter.mp hx).1, hpath, hid⟩
    · rintro ⟨x, hx, hpath, hid⟩
      obtain ⟨r, hr⟩ := defPaths_prefix_tree kids _ _ hpath
      exact ⟨x, List.mem_filter.mpr ⟨hx, (startsWith_iff_tree _ _).mpr ⟨r, hr⟩⟩, hpath, hid⟩
theorem mem_treeUsed_vars : ∀ (mkids : List Obj) (srcs : List Obj) (p : Str) (i : Nat),
    TreeKids mkids → NoIncludeTree mkids → SrcDotfree srcs →
    (i ∈ treeUsed mkids srcs ↔
      ∃ x ∈ allDefsObj.allDefsList srcs p, x.1 ∈ defPaths mkids p ∧
        (x.2.1.id = some i ∨ i ∈ srcRefs (.defn x.2.1 x.2.2)))
  | [], srcs, p, i, _, _, _ => by
    rw [treeUsed, defPaths]
    simp
  | mo :: rest, srcs, p, i, ht, hinc, hs => by
    rw [TreeKids] at ht
    rw [treeUsed, defPaths, List.mem_append, mem_treeUsedObj_vars mo srcs p i ht.1 hinc.head hs,
      mem_treeUsed_vars rest srcs p i ht.2 hinc.tail hs]
    constructor
    · rintro (⟨x, hx, hp, hid⟩ | ⟨x, hx, hp, hid⟩)
      · exact ⟨x, hx, List.mem_append.mpr (.inl hp), hid⟩
      · exact ⟨x, hx, List.mem_append.mpr (.inr hp), hid⟩
    · rintro ⟨x, hx, hp, hid⟩
      rcases List.mem_append.mp hp with hp | hp
      · exact .inl ⟨x, hx, hp, hid⟩
      · exact .inr ⟨x, hx, hp, hid⟩
end

/-- **C06 with variables (consumed ids, exactly).**  An id is consumed iff it is the id of an entry
    of `all_definitions(sources)` whose path is the path of a master definition, or such an entry
    consulted it while its variables were resolved (`srcRefs`). -/
theorem tree_used_vars_exact (mkids srcs : List Obj) (hf : TreeMaster mkids) (hinc : NoIncludeTree mkids)
    (hs : SrcDotfree srcs) (i : Nat) :
    i ∈ treeUsed mkids srcs ↔
      ∃ x ∈ allDefinitions srcs, x.1 ∈ defPaths mkids [] ∧
        (x.2.1.id = some i ∨ i ∈ srcRefs (.defn x.2.1 x.2.2)) :=
  mem_treeUsed_vars mkids srcs [] i hf.kids hinc hs

/-- **C06 with variables (the reported list, exactly)**, generic part: with pairwise distinct ids, an
    entry is NOT consumed iff its path is none of `paths` and no entry at one of `paths` consulted it -/
theorem unused_vars_exact (paths : List Str) (srcs : List Obj) (used : List Nat)
    (hsome : ∀ x ∈ allDefinitions srcs, x.2.1.id ≠ none)
    (hids : ((allDefinitions srcs).map (fun x => x.2.1.id)).Nodup)
    (hused : ∀ i, i ∈ used ↔ ∃ x ∈ allDefinitions srcs, x.1 ∈ paths ∧
      (x.2.1.id = some i ∨ i ∈ srcRefs (.defn x.2.1 x.2.2)))
    (x : Str × Meta × List Word) :
    x ∈ (allDefinitions srcs).filter (notConsumed used) ↔
      x ∈ allDefinitions srcs ∧ x.1 ∉ paths ∧
        ∀ y ∈ allDefinitions srcs, y.1 ∈ paths → ∀ i, x.2.1.id = some i → i ∉ srcRefs (.defn y.2.1 y.2.2) := by
  rw [List.mem_filter]
  constructor
  · rintro ⟨hx, hnc⟩
    cases hid : x.2.1.id with
    | none => exact absurd hid (hsome x hx)
    | some j =>
      unfold notConsumed at hnc
      rw [hid] at hnc
      have hj : j ∉ used := by simpa using hnc
      rw [hused] at hj
      refine ⟨hx, fun hp => hj ⟨x, hx, hp, .inl hid⟩, ?_⟩
      intro y hy hyp i hi hmem
      cases hi
      exact hj ⟨y, hy, hyp, .inr hmem⟩
  · rintro ⟨hx, hnp, hnr⟩
    refine ⟨hx, ?_⟩
    cases hid : x.2.1.id with
    | none => exact absurd hid (hsome x hx)
    | some j =>
      unfold notConsumed
      rw [hid]
      have hj : j ∉ used := by
        rw [hused]
        rintro ⟨y, hy, hyp, hyid | hyr⟩
        · have := eq_of_nodup_map _ _ hids x hx y hy (by rw [hid, hyid])
          rw [this] at hnp
          exact hnp hyp
        · exact hnr y hy hyp j hid hyr
      simpa using hj

/-! ## 9. a successful fetch: every matched definition resolved -/

theorem firstErrObj_none_of_mem {mkids srcs : List Obj} (h : firstErr mkids srcs = none) :
    ∀ mo ∈ mkids, firstErrObj mo srcs = none := by
  rw [firstErr_eq_findSome, List.findSome?_eq_none_iff] at h
  exact h

/-- on success (`firstErr = none`) every enabled source definition reached by the path of a master
    definition resolved without error -/
theorem firstErr_none_matched : ∀ (ps : List Str) (mkids srcs : List Obj) (n : Str) (mm : Meta)
    (mws : List Word), firstErr mkids srcs = none → defAt mkids ps n = some (.defn mm mws) →
    ∀ d ∈ defsNamed n (srcAt srcs ps), srcErrOf d = none
  | [], mkids, srcs, n, mm, mws, hfe, hdef, d, hd => by
    rw [defAt] at hdef
    cases hfn : findNamedTree mkids n with
    | none => rw [hfn] at hdef; cases hdef
    | some mo =>
      rw [hfn] at hdef
      cases mo with
      | scope m k => cases hdef
      | defn m0 ws0 =>
        have hname : m0.name = n := findNamed_name hfn
        have h1 := firstErrObj_none_of_mem hfe _ (findNamed_mem hfn)
        rw [firstErrObj, hname, List.findSome?_eq_none_iff] at h1
        have hd' := mem_defsNamed.mp hd
        rw [srcAt] at hd'
        exact h1 d (mem_activeNamed.mpr ⟨hd'.1, hd'.2.2.1, hd'.2.2.2⟩)
  | s :: ps, mkids, srcs, n, mm, mws, hfe, hdef, d, hd => by
    rw [defAt] at hdef
    cases hfn : findNamedTree mkids s with
    | none => rw [hfn] at hdef; cases hdef
    | some mo =>
      rw [hfn] at hdef
      cases mo with
      | defn m0 ws0 => cases hdef
      | scope m0 kids =>
        have hname : m0.name = s := findNamed_name hfn
        have h1 := firstErrObj_none_of_mem hfe _ (findNamed_mem hfn)
        rw [firstErrObj, hname] at h1
        split at h1
        · rw [srcAt] at hd
          exact firstErr_none_matched ps kids (srcStep srcs s) n mm mws h1 hdef d hd
        · cases h1

/-- an active definition of the denoted document contributes the denotation at its position -/
theorem activeDefn_denoted (env : Env) (diff : Bool) (doc : List Obj) (hdoc : DocIds doc)
    (hfresh : Fresh doc) {d : Obj} (h : ActiveIn d (denoteDoc env diff doc)) (hdef : d.isDefn = true) :
    ∃ pos m ws, objAt doc pos = some (.defn m ws) ∧ ActiveIn (.defn m ws) doc ∧
      d = annObj env diff doc pos (.defn m ws) ∧
      srcErrOf d = (match denote env doc pos diff with
                    | .ok _ => none
                    | .error e => some e) ∧
      ∀ r, denote env doc pos diff = .ok r → d.srcWords = r ∧ srcRefs d = refsAt doc pos := by
  obtain ⟨pos, x0, ha, hp, hx⟩ := activeIn_denoteDoc env diff doc h
  cases x0 with
  | scope m0 k0 =>
    have := annObj_isDefn env diff doc pos (.scope m0 k0)
    rw [← hx, hdef] at this
    cases this
  | defn m ws =>
    have hnum := numbered_activeIn_fv ha hdoc.1
    have hid : m.id ≠ none := by
      intro hn
      have := hnum.1
      simp [Obj.meta, hn] at this
    have hspec := annObj_defn_spec env diff doc pos m ws hp hid (hfresh _ ha)
    rw [← hx] at hspec
    exact ⟨pos, m, ws, hp, ha, hx, hspec.1, hspec.2⟩

/-! ### executable checks -/

def scopesNamedB (l : List Obj) : Bool := allActive (fun o => o.isDefn || !o.name.isEmpty) l

theorem scopesNamedB_sound (l : List Obj) (h : scopesNamedB l = true) : ScopesNamed l := by
  intro m kids hx
  have := allActive_sound _ hx h
  simp only [Obj.isDefn, Bool.false_or, Bool.not_eq_true'] at this
  exact str_ne_nil_of_isEmpty this

def freshB (l : List Obj) : Bool := allActive (fun o => o.meta.varRes.isNone) l

theorem freshB_sound (l : List Obj) (h : freshB l = true) : Fresh l := by
  intro x hx
  have := allActive_sound _ hx h
  simpa using this

theorem srcDotfree_denoteDocs (env : Env) (diff : Bool) (docs : List (List Obj))
    (hdocs : ∀ d ∈ docs, DocIds d) : SrcDotfree (docs.map (denoteDoc env diff)).flatten := by
  intro x hx
  obtain ⟨l, hl, hxl⟩ := activeIn_flatten_fv hx
  obtain ⟨doc, hdoc, rfl⟩ := List.mem_map.mp hl
  obtain ⟨pos, x0, ha, _, hx0⟩ := activeIn_denoteDoc env diff doc hxl
  rw [hx0, annObj_name]
  exact (numbered_activeIn_fv ha (hdocs doc hdoc).1).2

end Phil
