/-
  Helper lemmas for Phil/Props/C17FetchDiffHeap.lean: the heap-level diff fetch `fetchDiffH` (Phil/HeapFetchDiff.lean)
  only appends cells, only marks definition cells, and its result has the shape `FreshShape` (no template copy).
-/
import Phil.HeapFetchDiff
import Phil.Proofs.HeapFetchLemmas
namespace Phil.Heap
open Phil

/-- The object graph below a diff result, seen from `n0` old cells: every object is a NEW cell — a definition, or a
    scope all of whose children are again such objects.  No template copy: nothing old is reachable. -/
inductive FreshShape (n0 : Nat) (h : Heap) : Nat → Prop
  | defn {x : Nat} {m : Meta} {ws : List Word} {p : Option Nat} :
      n0 ≤ x → h[x]? = some (.defn m ws p) → FreshShape n0 h x
  | scope {x : Nat} {m : Meta} {ks : List Nat} {p : Option Nat} :
      n0 ≤ x → h[x]? = some (.scope m ks p) → (∀ k ∈ ks, FreshShape n0 h k) → FreshShape n0 h x

theorem FreshShape.append {n0 : Nat} {h : Heap} {x : Nat} (r : FreshShape n0 h x) (ext : Heap) :
    FreshShape n0 (h ++ ext) x := by
  induction r with
  | defn hx hc => exact .defn hx (getElem?_append_some ext hc)
  | scope hx hc _ ih => exact .scope hx (getElem?_append_some ext hc) ih

theorem FreshShape.ext {n0 : Nat} {s s' : HS} {x : Nat} (r : FreshShape n0 s.heap x) (a : HExt s s') :
    FreshShape n0 s'.heap x := by
  obtain ⟨⟨e1, h1⟩, _⟩ := a
  rw [h1]; exact r.append e1

theorem FreshShape.ge {n0 : Nat} {h : Heap} {x : Nat} (r : FreshShape n0 h x) : n0 ≤ x := by
  cases r <;> assumption

theorem FreshShape.toRes {n0 : Nat} {h : Heap} {x : Nat} (r : FreshShape n0 h x) : ResShape n0 h x := by
  induction r with
  | defn hx hc => exact .defn hx hc
  | scope hx hc _ ih => exact .scope hx hc ih

/-- the result of `fetch_value` is a definition cell -/
theorem fetchValueH_defn {mid sid : Nat} {s s' : HS} {r : Nat}
    (hf : fetchValueH mid sid s = .ok (s', some r)) : ∃ m ws p, s'.heap[r]? = some (.defn m ws p) := by
  unfold fetchValueH at hf
  split at hf
  · rename_i mm mws mp smeta sws sp hm hs
    split at hf
    · cases hf
    · split at hf
      · cases hf
      · rename_i r0 hr0
        split at hf
        · cases hf
        · rename_i h2 c2 hcc
          obtain ⟨n, hn, rfl, rfl⟩ := customizedCopy_eq hcc
          split at hf
          · simp only [Except.ok.injEq, Prod.mk.injEq] at hf
            obtain ⟨_, h⟩ := hf
            cases h
          · rename_i ro'
            split at hf
            · cases hf
            · rename_i h3 c hcc3
              obtain ⟨n3, hn3, rfl, rfl⟩ := customizedCopy_eq hcc3
              simp only [Except.ok.injEq, Prod.mk.injEq, Option.some.injEq] at hf
              obtain ⟨rfl, rfl⟩ := hf
              have hm' : (s.heap ++ [ccNode n none (some sws) none])[mid]? = some (.defn mm mws mp) :=
                getElem?_append_some _ hm
              rw [hm'] at hn3
              cases hn3
              refine ⟨{ mm with tmpl := 0 }, objWords ro', mp, ?_⟩
              show (s.heap ++ [ccNode n none (some sws) none] ++ _)[(s.heap ++ [ccNode n none (some sws) none]).length]? = _
              rw [List.getElem?_append_right (Nat.le_refl _), Nat.sub_self]
              rfl
  · cases hf
  · cases hf

theorem fetchDiffValueH_spec (e : Envs) (fuel : Nat) {mid sid : Nat} {s s' : HS} {ro : Option Nat} (n0 : Nat)
    (hn0 : n0 ≤ s.heap.length) (hf : fetchDiffValueH e fuel mid sid s = .ok (s', ro)) :
    HExt s s' ∧ ∀ r, ro = some r → FreshShape n0 s'.heap r := by
  unfold fetchDiffValueH at hf
  split at hf
  · cases hf
  · rename_i s1 ro1 hv
    obtain ⟨h1, h2⟩ := fetchValueH_spec n0 hn0 hv
    have hfresh : ∀ r, ro1 = some r → FreshShape n0 s1.heap r := by
      intro r hr
      subst hr
      obtain ⟨m, ws, p, hc⟩ := fetchValueH_defn hv
      exact .defn (h2 r rfl).ge hc
    split at hf
    · cases hf
    · generalize (match ro1 with | some r => abs s1.heap r | none => some _) = cand at hf
      split at hf
      · cases hf
      · split at hf
        · cases hf
        · simp only [Except.ok.injEq, Prod.mk.injEq] at hf
          obtain ⟨rfl, rfl⟩ := hf
          exact ⟨h1, by intro r hr; cases hr⟩
        · simp only [Except.ok.injEq, Prod.mk.injEq] at hf
          obtain ⟨rfl, rfl⟩ := hf
          exact ⟨h1, hfresh⟩

/-- what the diff callee one level down guarantees -/
def RecOKD (n0 : Nat) (rec : Nat → List Nat → HS → R (HS × Nat)) : Prop :=
  ∀ self combined s s' r, n0 ≤ s.heap.length → ClosedBelow s.heap n0 → self < n0 →
    rec self combined s = .ok (s', r) → HExt s s' ∧ FreshShape n0 s'.heap r

theorem candDiffH_spec (e : Envs) (fuel : Nat) {rec : Nat → List Nat → HS → R (HS × Nat)} {n0 : Nat} (hrec : RecOKD n0 rec)
    {mid ms : Nat} {s s2 : HS} {co : Option Nat} (hmid : mid < n0) (hlen : n0 ≤ s.heap.length)
    (hcl : ClosedBelow s.heap n0) (hc : candDiffH e fuel rec mid ms s = .ok (s2, co)) :
    HExt s s2 ∧ ∀ r, co = some r → FreshShape n0 s2.heap r := by
  unfold candDiffH at hc
  split at hc
  · exact fetchDiffValueH_spec e fuel n0 hlen hc
  · split at hc
    · rename_i sk _ _
      split at hc
      · cases hc
      · rename_i s3 r3 hr
        obtain ⟨h1, h2⟩ := hrec mid sk s s3 r3 hlen hcl hmid hr
        split at hc
        · simp only [Except.ok.injEq, Prod.mk.injEq] at hc
          obtain ⟨rfl, rfl⟩ := hc
          exact ⟨h1, by intro r hr'; cases hr'⟩
        · simp only [Except.ok.injEq, Prod.mk.injEq] at hc
          obtain ⟨rfl, rfl⟩ := hc
          exact ⟨h1, by intro r hr'; cases hr'; exact h2⟩
    · cases hc
    · cases hc
  · cases hc

theorem bookDiffH_mem {fromM : Bool} {robjs : List (Option Nat)} {processed : List (Str × Int)} {cs ms : Str} {c r : Nat}
    (h : some r ∈ (bookDiffH fromM robjs processed cs ms c).1) : some r ∈ robjs ∨ r = c := by
  unfold bookDiffH at h
  split at h
  · exact bookH_mem h
  · split at h
    · exact .inl h
    · dsimp only at h
      cases hp : processed.find? (fun (p : Str × Int) => p.1 == cs) with
      | none =>
        simp only [hp] at h
        simp only [Bool.false_eq_true, ↓reduceIte] at h
        exact .inl h
      | some p =>
        simp only [hp] at h
        split at h
        · exact .inl h
        · simp only [List.mem_map] at h
          obtain ⟨xi, hxi, hite⟩ := h
          split at hite
          · cases hite
          · exact .inl (hite ▸ mem_of_mem_zipIdx _ _ xi hxi)

/-- invariant of the candidate loop (diff) -/
def QCD (n0 : Nat) (sA : HS) (acc : HS × List (Option Nat) × List (Str × Int)) : Prop :=
  HExt sA acc.1 ∧ ∀ r, some r ∈ acc.2.1 → FreshShape n0 acc.1.heap r

theorem cstepDiffH_spec (e : Envs) {rec : Nat → List Nat → HS → R (HS × Nat)} {n0 : Nat} (hrec : RecOKD n0 rec)
    (fuel : Nat) (mo : Obj) (mid : Nat) (masterStr : Str) (hmid : mid < n0) (sA : HS)
    (hA : n0 ≤ sA.heap.length) (hcl : ClosedBelow sA.heap n0)
    (acc : HS × List (Option Nat) × List (Str × Int)) (fm : Bool × Nat)
    (acc' : HS × List (Option Nat) × List (Str × Int))
    (hq : QCD n0 sA acc) (hf : cstepDiffH e rec fuel mo mid masterStr acc fm = .ok acc') : QCD n0 sA acc' := by
  obtain ⟨hext, hres⟩ := hq
  have hlen : n0 ≤ acc.1.heap.length := Nat.le_trans hA hext.length_le
  have hcl' : ClosedBelow acc.1.heap n0 := hext.closed hcl hA
  have hcand := fun s2 co => candDiffH_spec e fuel (ms := fm.2) (s2 := s2) (co := co) hrec hmid hlen hcl'
  unfold cstepDiffH at hf
  split at hf
  · cases hf
  · rename_i s2 hc
    obtain ⟨h1, _⟩ := hcand s2 none hc
    simp only [Except.ok.injEq] at hf
    subst hf
    exact ⟨hext.trans h1, fun r hr => (hres r hr).ext h1⟩
  · rename_i s2 c hc
    obtain ⟨h1, h2⟩ := hcand s2 (some c) hc
    have hold : ∀ r, some r ∈ acc.2.1 → FreshShape n0 s2.heap r := fun r hr => (hres r hr).ext h1
    unfold ctailDiffH at hf
    split at hf
    · cases hf
    · split at hf
      · cases hf
      · simp only [Except.ok.injEq] at hf
        subst hf
        refine ⟨hext.trans h1, ?_⟩
        intro r hr
        rcases bookDiffH_mem hr with hr | hr
        · exact hold r hr
        · subst hr; exact h2 r rfl

/-- invariant of the loop over the active master objects (diff) -/
def QSD (n0 : Nat) (sA : HS) (st : HS × List Nat) : Prop :=
  HExt sA st.1 ∧ ∀ r ∈ st.2, FreshShape n0 st.1.heap r

theorem stepDiffH_spec (e : Envs) {recN recD : Nat → List Nat → HS → R (HS × Nat)} {n0 : Nat}
    (hrecN : RecOK n0 recN) (hrecD : RecOKD n0 recD)
    (fuel : Nat) (sm : Meta) (mk : List Nat) (src : Nat) (hmk : ∀ k ∈ mk, k < n0) (sA : HS)
    (hA : n0 ≤ sA.heap.length) (hcl : ClosedBelow sA.heap n0)
    (st : HS × List Nat) (io : Nat × Obj) (st' : HS × List Nat)
    (hq : QSD n0 sA st) (hf : stepDiffH e recN recD fuel sm mk src st io = .ok st') : QSD n0 sA st' := by
  obtain ⟨hext, hres⟩ := hq
  have hlen : n0 ≤ st.1.heap.length := Nat.le_trans hA hext.length_le
  have hcl' : ClosedBelow st.1.heap n0 := hext.closed hcl hA
  unfold stepDiffH at hf
  dsimp only at hf
  split at hf
  · cases hf
  · rename_i mid hmidEq
    have hmid : mid < n0 := hmk mid (List.mem_of_getElem? hmidEq)
    split at hf
    · -- not .multiple
      split at hf
      · -- a definition
        split at hf
        · cases hf
        · rename_i s1 r hfold
          have := foldH_inv (fun (acc : HS × Option Nat) (ms : Nat) => fetchDiffValueH e fuel mid ms acc.1)
            (fun acc => HExt st.1 acc.1 ∧ ∀ r, acc.2 = some r → FreshShape n0 acc.1.heap r)
            (by
              intro a ms a' ⟨ha, _⟩ hs
              obtain ⟨a1, a2⟩ := a'
              obtain ⟨h1, h2⟩ := fetchDiffValueH_spec e fuel n0 (Nat.le_trans hlen ha.length_le) hs
              exact ⟨ha.trans h1, h2⟩)
            _ _ _ ⟨HExt.refl _, by intro r hr; cases hr⟩ hfold
          obtain ⟨h1, h2⟩ := this
          simp only [Except.ok.injEq] at hf
          subst hf
          refine ⟨hext.trans h1, ?_⟩
          intro x hx
          rcases List.mem_append.mp hx with hx | hx
          · exact (hres x hx).ext h1
          · simp only [List.mem_singleton] at hx
            subst hx
            exact h2 _ rfl
        · rename_i s1 hfold
          have := foldH_inv (fun (acc : HS × Option Nat) (ms : Nat) => fetchDiffValueH e fuel mid ms acc.1)
            (fun acc => HExt st.1 acc.1)
            (by
              intro a ms a' ha hs
              obtain ⟨a1, a2⟩ := a'
              obtain ⟨h1, _⟩ := fetchDiffValueH_spec e fuel n0 (Nat.le_trans hlen ha.length_le) hs
              exact ha.trans h1)
            _ _ _ (HExt.refl _) hfold
          have h1 : HExt st.1 s1 := this
          simp only [Except.ok.injEq] at hf
          subst hf
          exact ⟨hext.trans h1, fun x hx => (hres x hx).ext h1⟩
      · -- a scope
        split at hf
        · cases hf
        · split at hf
          · cases hf
          · rename_i s1 r hr
            obtain ⟨h1, h2⟩ := hrecD _ _ _ _ _ hlen hcl' hmid hr
            split at hf
            · simp only [Except.ok.injEq] at hf
              subst hf
              exact ⟨hext.trans h1, fun x hx => (hres x hx).ext h1⟩
            · simp only [Except.ok.injEq] at hf
              subst hf
              refine ⟨hext.trans h1, ?_⟩
              intro x hx
              rcases List.mem_append.mp hx with hx | hx
              · exact (hres x hx).ext h1
              · simp only [List.mem_singleton] at hx
                subst hx
                exact h2
      · cases hf
    · -- .multiple
      split at hf
      · cases hf
      · rename_i s1 selfId hself
        have h1 : HExt st.1 s1 := selfFetchH_spec hrecN hmid hlen hcl' hself
        split at hf
        · cases hf
        · rename_i masterStr _
          unfold multiTailDiffH at hf
          dsimp only at hf
          split at hf
          · cases hf
          · rename_i s2 robjs processed hfold
            have hlen1 : n0 ≤ s1.heap.length := Nat.le_trans hlen h1.length_le
            have hcl1 : ClosedBelow s1.heap n0 := h1.closed hcl' hlen
            have hqc := foldH_inv _ (QCD n0 s1)
              (fun acc fm acc' hq hs => cstepDiffH_spec e hrecD fuel io.2 mid masterStr hmid s1 hlen1 hcl1 acc fm acc' hq hs)
              _ _ _ (show QCD n0 s1 (s1, [], []) from ⟨HExt.refl _, by intro r hr; cases hr⟩) hfold
            obtain ⟨hext2, hres2⟩ := hqc
            simp only at hext2 hres2
            have h02 : HExt st.1 s2 := h1.trans hext2
            simp only [Except.ok.injEq] at hf
            subst hf
            refine ⟨hext.trans h02, ?_⟩
            intro x hx
            rcases List.mem_append.mp hx with hx | hx
            · exact (hres x hx).ext h02
            · obtain ⟨a, ha, hax⟩ := List.mem_filterMap.mp hx
              subst hax
              exact hres2 x ha

theorem fetchDiffH_spec (e : Envs) (n0 : Nat) : ∀ (fuel : Nat), RecOKD n0 (fetchDiffH e fuel)
  | 0 => by
    intro self combined s s' r _ _ _ hf
    simp only [fetchDiffH] at hf
    cases hf
  | fuel + 1 => by
    intro self combined s s' r hlen hcl hself hf
    have ih := fetchDiffH_spec e n0 fuel
    simp only [fetchDiffH] at hf
    split at hf
    · rename_i sm mk sp hcell
      have hmk : ∀ k ∈ mk, k < n0 := fun k hk => hcl self _ hself hcell k hk
      split at hf
      · cases hf
      · rename_i h1 src hcc
        obtain ⟨n, hn, rfl, rfl⟩ := customizedCopy_eq hcc
        split at hf
        · cases hf
        · split at hf
          · cases hf
          · rename_i actives _
            split at hf
            · cases hf
            · rename_i s2 out hfold
              split at hf
              · cases hf
              · rename_i h3 r' hres
                unfold fetchResult at hres
                obtain ⟨n', hn', rfl, rfl⟩ := customizedCopy_eq hres
                simp only [Except.ok.injEq, Prod.mk.injEq] at hf
                obtain ⟨rfl, rfl⟩ := hf
                have hA := HExt.alloc s [ccNode n none none (some combined)]
                have hq := foldH_inv _ (QSD n0 { s with heap := s.heap ++ [ccNode n none none (some combined)] })
                  (fun st io st' hq hs => stepDiffH_spec e (fetchH_spec e n0 fuel) ih fuel sm mk s.heap.length hmk _
                    (Nat.le_trans hlen hA.length_le) (hA.closed hcl hlen) st io st' hq hs)
                  _ _ _ ⟨HExt.refl _, by intro r hr; cases hr⟩ hfold
                obtain ⟨hext2, hres2⟩ := hq
                simp only at hext2 hres2
                have h02 := hA.trans hext2
                have hcell2 := h02.get hcell
                rw [hcell2] at hn'
                cases hn'
                have h23 := HExt.alloc s2 [ccNode (Node.scope sm mk sp) none none (some out)]
                refine ⟨h02.trans h23, ?_⟩
                refine .scope (m := { sm with tmpl := 0 }) (ks := out) (p := sp)
                  (Nat.le_trans hlen h02.length_le) ?_ (fun k hk => (hres2 k hk).append _)
                show (s2.heap ++ _)[s2.heap.length]? = _
                rw [List.getElem?_append_right (Nat.le_refl _), Nat.sub_self]
                rfl
    · cases hf

end Phil.Heap
