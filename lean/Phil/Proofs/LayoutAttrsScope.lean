/-
  Attribute assignments between the name of a scope and its `{` (C02, C15): the loop
  `scopeAttrsLoop` of `collect_objects` over header items given as data, one turn of `collect_objects`
  for a scope with header attributes.  Vocabulary of Phil/Proofs/LayoutAttrs.lean (`AttrIt`,
  `attrLead`, `attrsText`, `attrsEnd`) and Phil/Proofs/Layout2.lean (`LayItem` for the body).
  Lemmas carry the suffix `_ls`.
-/
import Phil.Proofs.LayoutAttrs
set_option linter.unusedSimpArgs false
set_option linter.unusedVariables false
namespace Phil

/-! ### values of scope attributes -/

/-- the value `scope.assign_attribute` gives, from the words without their lines -/
def sattrValOf (n : String) (ws : List Word) : Option AttrVal :=
  (scopeAttrValue n (ws.map Word.erase)).toOption

theorem scopeAttrValue_erase_ls (n : String) (ws : List Word) :
    (scopeAttrValue n (ws.map Word.erase)).toOption = (scopeAttrValue n ws).toOption := by
  unfold scopeAttrValue
  split
  · exact boolFromWords_erase_la ws
  · split
    · exact intFromWordsLit_erase_la ws
    · rw [isPlainNone_erase_la, isPlainAuto_erase_la, strFromWords_erase_la]

theorem scopeAttrValue_reline_ls (n : String) (ws : List Word) (l : Nat) (v : AttrVal)
    (h : sattrValOf n ws = some v) : scopeAttrValue n (reline l ws) = .ok v := by
  apply toOption_some_la
  rw [← scopeAttrValue_erase_ls, reline_erase]
  exact h

/-- a header attribute assignment the theorems are stated for -/
def goodSAttr (n : String) (ws : List Word) (b : Bool) : Bool :=
  scopeAttrNames.contains n && !ws.isEmpty && ws.all goodWord && chainOK true ws &&
    (b || (sattrValOf n ws).isSome)

/-- well-formed header item: as for definitions, but the assignment must be ended by a newline, `;`
    or a trailing comment (not by nothing: `{` on the same line would be … fine for the parser, but
    is outside the four terminators) -/
def AttrIt.swf (t : AttrIt) : Bool :=
  goodSAttr t.n t.ws t.b && wfDef (attrLead t.n, t.ws) t.L && !t.L.term.isEof

/-- the attribute list the header assignments leave on the scope -/
def sattrsOf : List AttrIt → Attrs
  | [] => []
  | t :: ts => (if t.b then [] else [(t.n, (sattrValOf t.n t.ws).getD .none)]) ++ sattrsOf ts

theorem scopeAttrNames_chars_ls : ∀ n ∈ scopeAttrNames, ∀ d ∈ n.toList, isIdCont d = true := by
  decide +kernel

theorem nextWordAux_bang_sattr_ls (b : Bool) (n : String) (rest : Str) (l : Nat)
    (hn : scopeAttrNames.contains n = true) (hstop : stopsAt structSettings rest = true) :
    nextWordAux structSettings false (bangText_l2 b ++ (attrLead n ++ rest)) l
      = .ok (some ({ value := bangText_l2 b ++ attrLead n, quote := none, line := some l }, ⟨rest, l⟩)) := by
  have hch := scopeAttrNames_chars_ls n (by simpa using hn)
  cases b with
  | false =>
    have := nextWordAux_plain structSettings '.' n.toList rest l (by rfl) (by rfl) (by rfl) (by rfl)
      (fun x hx => idCont_not_ends (hch x hx)) hstop
    simpa [bangText_l2, attrLead] using this
  | true =>
    have := nextWordAux_plain structSettings '!' ('.' :: n.toList) rest l ends_bang_l2 (by rfl) (by rfl)
      (by rfl)
      (fun x hx => by
        rcases List.mem_cons.mp hx with rfl | hx
        · rfl
        · exact idCont_not_ends (hch x hx)) hstop
    simpa [bangText_l2, attrLead] using this

/-! ### the header loop -/

/-- read the next structural word and go on with the header loop -/
def popLoop_ls (fuel : Nat) (ci0 : CI) (attrs : Attrs) : R (Attrs × Word × CI) :=
  match popUnquoted structSettings ci0 with
  | .error e => .error e
  | .ok (w, ci) => scopeAttrsLoop fuel ci w attrs

theorem SafeHead_open_ls (t : Str) : SafeHead_l2 ('{' :: t) := by
  intro c t' e
  simp only [List.cons.injEq] at e
  rw [← e.1]
  exact ⟨by rfl, by rfl, by decide, by decide⟩

/-- one iteration of the header loop on `[!].n = words term`, the head word already read -/
theorem scopeAttrs_step_ls (t : AttrIt) (ht : t.swf = true) (ls : List FillLine) (ind' X : Str)
    (hls : ls.all FillLine.wf = true) (hind' : inlineB ind' = true) (hX : SafeHead_l2 X)
    (fuel : Nat) (attrs : Attrs) (l0 : Nat) :
    ∃ ci4, scopeAttrsLoop (fuel + 1)
        ⟨t.L.sp1 ++ '=' :: (wordsLay t.L.gaps t.ws ++ (t.L.term.text ++ (linesStr ls ++ (ind' ++ X)))), l0⟩
        { value := bangText_l2 t.b ++ attrLead t.n, quote := none, line := some l0 } attrs
      = popLoop_ls fuel ci4
          (attrs ++ (if t.b then [] else [(t.n, (sattrValOf t.n t.ws).getD .none)])) ∧
      nextWord structSettings ci4
        = nextWordAux structSettings false (ind' ++ X)
            (endLine l0 t.ws + nlCount t.L.term.text + ls.length) := by
  simp only [AttrIt.swf, goodSAttr, Bool.and_eq_true, Bool.not_eq_true', List.isEmpty_eq_false_iff,
    List.all_eq_true, Bool.or_eq_true, wfDef] at ht
  obtain ⟨⟨⟨⟨⟨⟨hn, hne⟩, hgood⟩, hchain⟩, hval⟩, ⟨⟨⟨_, hsp1⟩, hgaps⟩, hterm⟩⟩, hneof⟩ := ht
  have h2 := nextWord_struct_eq t.L.sp1 (wordsLay t.L.gaps t.ws ++ (t.L.term.text ++ (linesStr ls ++ (ind' ++ X))))
    l0 (inlineB_space hsp1)
  rw [inlineB_nl hsp1, Nat.add_zero] at h2
  obtain ⟨ci4, h3, h4⟩ := collectAssigned_layout_l2 t.ws t.L.gaps t.L.term ls ind' X l0
    { value := attrLead t.n, quote := none, line := some l0 }
    hne hgood hchain hgaps hterm hls hind' hX (by intro he; rw [he] at hneof; cases hneof) rfl
    (by rw [isUnq_backslash]; simp [attrLead])
  refine ⟨ci4, ?_, h4⟩
  have e3 := popUnquoted_of_next h2 rfl
  have hofl : String.ofList t.n.toList = t.n := by simp
  have hn' : t.n ∈ scopeAttrNames := by simpa using hn
  simp only [attrLead] at h3
  cases hb : t.b with
  | true =>
    have hsb := stripBang_bang_l2
      { value := '!' :: attrLead t.n, quote := none, line := some l0 } (attrLead t.n) rfl
    simp only [attrLead] at hsb
    simp [scopeAttrsLoop, bangText_l2, attrLead, hsb, hofl, hn', e3, h3, popLoop_ls]
    cases popUnquoted structSettings ci4 <;> rfl
  | false =>
    have hsb := stripBang_of_not_bang
      { value := attrLead t.n, quote := none, line := some l0 } (by simp [attrLead])
    simp only [attrLead] at hsb
    have hv : scopeAttrValue t.n (reline l0 t.ws) = .ok ((sattrValOf t.n t.ws).getD .none) := by
      rcases hval with hval | hval
      · rw [hb] at hval; cases hval
      · obtain ⟨v, hv⟩ := Option.isSome_iff_exists.mp hval
        rw [hv]
        exact scopeAttrValue_reline_ls t.n t.ws l0 v hv
    simp [scopeAttrsLoop, bangText_l2, attrLead, hsb, hofl, hn', e3, h3, popLoop_ls, hv, Except.map]
    cases popUnquoted structSettings ci4 <;> rfl

/-- the filler in front of the first header item (or, without items, the gap in front of `{`) -/
def hdrFirstPre_ls : List AttrIt → Pre → Pre
  | [], gap => gap
  | t :: _, _ => t.L.pre

/-- the header from the first head word (or `{`) on; `V` is the text after `{` -/
def hdrAfter_ls : List AttrIt → Pre → Str → Str
  | [], _, V => '{' :: V
  | t :: ts, gap, V => t.item.body ++ ((hdrFirstPre_ls ts gap).text ++ hdrAfter_ls ts gap V)

/-- the whole header after the scope name -/
def hdrText_ls (ts : List AttrIt) (gap : Pre) (V : Str) : Str :=
  (hdrFirstPre_ls ts gap).text ++ hdrAfter_ls ts gap V

theorem hdrFirstPre_wf_ls (ts : List AttrIt) (gap : Pre) (hts : ∀ t ∈ ts, t.swf = true)
    (hgap : gap.wf = true) : (hdrFirstPre_ls ts gap).wf = true := by
  cases ts with
  | nil => exact hgap
  | cons t ts =>
    have := hts t (by simp)
    simp only [AttrIt.swf, wfDef, Bool.and_eq_true] at this
    exact this.1.2.1.1.1

theorem hdrAfter_safe_ls (ts : List AttrIt) (gap : Pre) (V : Str) : SafeHead_l2 (hdrAfter_ls ts gap V) := by
  cases ts with
  | nil => exact SafeHead_open_ls V
  | cons t ts =>
    cases hb : t.b with
    | true =>
      simp only [hdrAfter_ls, AItem.body, AttrIt.item, AItem.bang, hb, bangText_l2]
      exact SafeHead_bang_l2 _
    | false =>
      apply SafeHead_of_NameHead_l2
      intro c r ec
      simp only [hdrAfter_ls, AItem.body, AttrIt.item, AItem.bang, AItem.spec, AItem.lay, hb, bangText_l2,
        defText, attrLead, List.nil_append, List.cons_append, List.cons.injEq] at ec
      rw [← ec.1]
      rfl

/-- **the header loop over the header items**: the attributes are collected in order (the ones
    under `!` dropped) and the loop ends at `{`, whose line is the line after the items plus the
    filler lines of the gap -/
theorem scopeAttrs_hdr_ls (gap : Pre) (V : Str) (hgap : gap.wf = true) :
    ∀ (ts : List AttrIt) (fuel : Nat) (ci0 : CI) (attrs : Attrs) (l : Nat),
      (∀ t ∈ ts, t.swf = true) → ts.length + 1 ≤ fuel →
      nextWord structSettings ci0
        = nextWordAux structSettings false ((hdrFirstPre_ls ts gap).ind ++ hdrAfter_ls ts gap V)
            (l + (hdrFirstPre_ls ts gap).lines.length) →
      popLoop_ls fuel ci0 attrs
        = .ok (attrs ++ sattrsOf ts,
            { value := ['{'], quote := none, line := some (attrsEnd l ts + gap.lines.length) },
            ⟨V, attrsEnd l ts + gap.lines.length⟩) := by
  intro ts
  induction ts with
  | nil =>
    intro fuel ci0 attrs l _ hf hci
    obtain ⟨f, rfl⟩ : ∃ f, fuel = f + 1 := ⟨fuel - 1, by omega⟩
    simp only [Pre.wf, Bool.and_eq_true] at hgap
    have h1 : nextWord structSettings ci0
        = .ok (some ({ value := ['{'], quote := none, line := some (l + gap.lines.length) },
            ⟨V, l + gap.lines.length⟩)) := by
      rw [hci]
      have := nextWord_struct_open gap.ind V (l + gap.lines.length) (inlineB_space hgap.2)
      rw [inlineB_nl hgap.2, Nat.add_zero] at this
      exact this
    simp [popLoop_ls, popUnquoted_of_next h1 rfl, scopeAttrsLoop, sattrsOf, attrsEnd]
  | cons t ts ih =>
    intro fuel ci0 attrs l hts hf hci
    obtain ⟨f, rfl⟩ : ∃ f, fuel = f + 1 := ⟨fuel - 1, by omega⟩
    have ht := hts t (by simp)
    have hts' : ∀ u ∈ ts, u.swf = true := fun u hu => hts u (by simp [hu])
    have ht' := ht
    simp only [AttrIt.swf, goodSAttr, wfDef, Bool.and_eq_true, Pre.wf] at ht'
    obtain ⟨⟨⟨⟨⟨⟨hn, _⟩, _⟩, _⟩, _⟩, ⟨⟨⟨⟨_, hpi⟩, hsp1⟩, _⟩, _⟩⟩, _⟩ := ht'
    have hfp := hdrFirstPre_wf_ls ts gap hts' hgap
    simp only [Pre.wf, Bool.and_eq_true] at hfp
    have h1 : nextWord structSettings ci0
        = .ok (some ({ value := bangText_l2 t.b ++ attrLead t.n, quote := none,
                       line := some (l + t.L.pre.lines.length) },
            ⟨t.L.sp1 ++ '=' :: (wordsLay t.L.gaps t.ws ++ (t.L.term.text ++
              (linesStr (hdrFirstPre_ls ts gap).lines ++ ((hdrFirstPre_ls ts gap).ind ++ hdrAfter_ls ts gap V)))),
             l + t.L.pre.lines.length⟩)) := by
      rw [hci]
      have e1 : hdrFirstPre_ls (t :: ts) gap = t.L.pre := rfl
      have e2 : hdrAfter_ls (t :: ts) gap V
          = t.item.body ++ ((hdrFirstPre_ls ts gap).text ++ hdrAfter_ls ts gap V) := rfl
      rw [e1, e2]
      rw [nextWordAux_skip structSettings _ _ (inlineB_space hpi), inlineB_nl hpi, Nat.add_zero]
      have := nextWordAux_bang_sattr_ls t.b t.n
        (t.L.sp1 ++ '=' :: (wordsLay t.L.gaps t.ws ++ (t.L.term.text ++
          (linesStr (hdrFirstPre_ls ts gap).lines ++ ((hdrFirstPre_ls ts gap).ind ++ hdrAfter_ls ts gap V)))))
        (l + t.L.pre.lines.length) hn (stopsAt_space_append _ _ _ (inlineB_space hsp1) (by rfl))
      simpa [AItem.body, AttrIt.item, AItem.bang, AItem.spec, AItem.lay, defText, Pre.text] using this
    obtain ⟨ci4, hstep, hnext⟩ := scopeAttrs_step_ls t ht (hdrFirstPre_ls ts gap).lines
      (hdrFirstPre_ls ts gap).ind (hdrAfter_ls ts gap V) hfp.1 hfp.2 (hdrAfter_safe_ls ts gap V) f attrs
      (l + t.L.pre.lines.length)
    rw [popLoop_ls, popUnquoted_of_next h1 rfl]
    simp only []
    rw [hstep, ih f ci4 _ (endLine (l + t.L.pre.lines.length) t.ws + nlCount t.L.term.text) hts'
      (by simp at hf; omega) hnext]
    simp [sattrsOf, attrsEnd, List.append_assoc]


/-! ### one turn of `collect_objects` for a scope with header attributes -/

theorem hdrAfter_length_ls (ts : List AttrIt) (gap : Pre) (V : Str) :
    ts.length + 1 ≤ (hdrAfter_ls ts gap V).length := by
  induction ts with
  | nil => simp [hdrAfter_ls]
  | cons t ts ih =>
    simp only [hdrAfter_ls, AItem.body, defText, List.length_append, List.length_cons]
    omega

/-- what stands between the scope name and the first header word (or `{`) separates them: not
    nothing, and a `#` is not glued to the name -/
def hdrGapOK_ls (ts : List AttrIt) (gap : Pre) : Bool :=
  gapOK_l2 (hdrFirstPre_ls ts gap) &&
    (ts.isEmpty || !((hdrFirstPre_ls ts gap).lines.isEmpty && (hdrFirstPre_ls ts gap).ind.isEmpty))

theorem hdr_stops_ls (g : Pre) (R : Str) (hg : g.wf = true) (hok : gapOK_l2 g = true)
    (hne : ¬ (g.lines = [] ∧ g.ind = []) ∨ stopsAt structSettings R = true) :
    stopsAt structSettings (g.text ++ R) = true := by
  simp only [Pre.wf, Bool.and_eq_true] at hg
  unfold gapOK_l2 at hok
  cases hl : g.lines with
  | nil =>
    rw [Pre.text, hl]
    simp only [linesStr, List.nil_append]
    cases hi : g.ind with
    | nil =>
      rcases hne with hne | hne
      · exact absurd ⟨hl, hi⟩ hne
      · simpa using hne
    | cons d ds =>
      have hd : isSpace d = true := inlineB_space hg.2 d (by rw [hi]; simp)
      simp [stopsAt, endsUnquoted, hd]
  | cons f fs =>
    rw [hl] at hok hg
    simp only [] at hok
    simp only [List.all_cons, Bool.and_eq_true, FillLine.wf] at hg
    rw [Pre.text, hl, linesStr, FillLine.text]
    cases hfi : f.ind with
    | cons d ds =>
      have hd : isSpace d = true := inlineB_space hg.1.1.1 d (by rw [hfi]; simp)
      simp [stopsAt, endsUnquoted, hd]
    | nil =>
      rw [hfi] at hok
      simp only [List.isEmpty_nil, Bool.not_true, Bool.false_or, Option.isNone_iff_eq_none] at hok
      rw [hok]
      simp [cmtText, stopsAt, endsUnquoted, isSpace_nl]

/-- One turn of `collect_objects` for `[!]name`, a structural word `w` that makes it a scope (`{`,
    `.attr`, `!.attr`) and a header loop that ends with `attrs` at the brace. -/
theorem collectObjects_scope_attrs_step_ls (fuel : Nat) (st : PState) (stop : Option Word)
    (prevLine : Nat) (acc : List Obj) (pending : Option Obj) (lead w brace : Word) (ci1 ci2 ci3 : CI)
    (nm : Str) (b : Bool) (attrs : Attrs)
    (h1 : nextWord structSettings st.ci = .ok (some (lead, ci1)))
    (hlq : lead.quote = none) (hv : lead.value = bangText_l2 b ++ nm)
    (hname : plainDefName nm = true) (hstd : isStdIdent nm = true) (hres : reservedName false nm = false)
    (h2 : nextWord structSettings ci1 = .ok (some (w, ci2)))
    (hwq : w.quote = none)
    (hwv : (w.value == ['{'] || w.value.take 1 == ['.'] || w.value.take 2 == ['!', '.']) = true)
    (hloop : scopeAttrsLoop (ci2.rest.length + 2) ci2 w [] = .ok (attrs, brace, ci3)) :
    collectObjects (fuel + 1) st stop prevLine acc pending
      = scopeCont fuel stop (lead.line.getD 0) acc pending
          { name := nm, id := some st.nextId, disabled := b, line := lead.line, attrs := attrs }
          (collectObjects fuel { ci := ci3, nextId := st.nextId + 1 } (some brace) 0 [] none) := by
  simp only [plainDefName, Bool.and_eq_true, bne_iff_ne, ne_eq, Bool.not_eq_true'] at hname
  obtain ⟨⟨⟨⟨⟨⟨⟨n1, n2⟩, n3⟩, n4⟩, n5⟩, n6⟩, n7⟩, n8⟩ := hname
  have e1 := tryPopUnquoted_of_next h1 hlq
  have e2 := pop_of_next h2
  cases b with
  | true =>
    have hv' : lead.value = '!' :: nm := by simpa [bangText_l2] using hv
    have hsb := stripBang_bang_l2 lead nm hv'
    have b1 : ¬ lead.value = ['#', 'p', 'h', 'i', 'l'] := by rw [hv']; simp
    have b2 : ¬ lead.value = ['}'] := by rw [hv']; simp
    have b3 : ¬ lead.value = ['{'] := by rw [hv']; simp
    cases stop <;>
      simp [collectObjects, e1, e2, b1, b2, b3, hsb, hstd, hres, hwq, hwv, hloop, scopeCont] <;>
      rfl
  | false =>
    have hv' : nm = lead.value := by simpa [bangText_l2] using hv.symm
    subst hv'
    have hsb := stripBang_of_not_bang lead n4
    have n1' : ¬ lead.value = ['#', 'p', 'h', 'i', 'l'] := by simpa using n1
    cases stop <;>
      simp [collectObjects, e1, e2, n1', n2, n3, hsb, hstd, hres, hwq, hwv, hloop, scopeCont] <;>
      rfl

/-- **One turn of `collect_objects` for a scope header with attribute assignments under a layout**
    (compare `scope_header_turn_l2`): the scope gets the next id, `disabled` iff `b`, the line of its
    name and the attributes `sattrsOf ts`; its body is read by the recursive call from the text `V`
    after `{`, whose line is the line after the header items plus the filler lines of the gap. -/
theorem scope_hdr_turn_ls (nm : Str) (b : Bool) (ind : Str) (ts : List AttrIt) (gap : Pre) (V : Str)
    (hit : ItemName nm) (hind : inlineB ind = true) (hts : ∀ t ∈ ts, t.swf = true)
    (hgap : gap.wf = true) (hgok : hdrGapOK_ls ts gap = true)
    (fuel : Nat) (st : PState) (stop : Option Word) (prevLine : Nat) (acc : List Obj)
    (pending : Option Obj) (l0 : Nat)
    (hci : nextWord structSettings st.ci
      = nextWordAux structSettings false (ind ++ (bangText_l2 b ++ (nm ++ hdrText_ls ts gap V))) l0) :
    collectObjects (fuel + 1) st stop prevLine acc pending
      = scopeCont fuel stop l0 acc pending
          { name := nm, id := some st.nextId, disabled := b, line := some l0, attrs := sattrsOf ts }
          (collectObjects fuel
            { ci := ⟨V, attrsEnd l0 ts + gap.lines.length⟩, nextId := st.nextId + 1 }
            (some { value := ['{'], quote := none, line := some (attrsEnd l0 ts + gap.lines.length) })
            0 [] none) := by
  simp only [hdrGapOK_ls, Bool.and_eq_true, Bool.or_eq_true, Bool.not_eq_true', Bool.and_eq_false_iff,
    List.isEmpty_iff] at hgok
  obtain ⟨hg1, hg2⟩ := hgok
  cases ts with
  | nil =>
    have := scope_header_turn_l2 nm b ind gap V hit hind hgap hg1 fuel st stop prevLine acc pending l0
      (by rw [hci]; rfl)
    rw [this]
    rfl
  | cons t ts =>
    have ht := hts t (by simp)
    have hts' : ∀ u ∈ ts, u.swf = true := fun u hu => hts u (by simp [hu])
    have ht' := ht
    simp only [AttrIt.swf, goodSAttr, wfDef, Bool.and_eq_true] at ht'
    obtain ⟨⟨⟨⟨⟨⟨hn, _⟩, _⟩, _⟩, _⟩, ⟨⟨⟨hpre, hsp1⟩, _⟩, _⟩⟩, _⟩ := ht'
    have hpre' := hpre
    simp only [Pre.wf, Bool.and_eq_true] at hpre'
    have hne : ¬ (t.L.pre.lines = [] ∧ t.L.pre.ind = []) := by
      rcases hg2 with h | h
      · cases h
      · rcases h with h | h
        · intro hh; simp [hdrFirstPre_ls, hh.1] at h
        · intro hh; simp [hdrFirstPre_ls, hh.2] at h
    have h1 : nextWord structSettings st.ci
        = .ok (some ({ value := bangText_l2 b ++ nm, quote := none, line := some l0 },
            ⟨hdrText_ls (t :: ts) gap V, l0⟩)) := by
      rw [hci, nextWordAux_skip structSettings _ _ (inlineB_space hind), inlineB_nl hind, Nat.add_zero]
      exact nextWordAux_bang_name_gen_l2 b nm _ l0 hit
        (hdr_stops_ls t.L.pre _ hpre hg1 (Or.inl hne))
    have hfp := hdrFirstPre_wf_ls ts gap hts' hgap
    simp only [Pre.wf, Bool.and_eq_true] at hfp
    have h2 : nextWord structSettings ⟨hdrText_ls (t :: ts) gap V, l0⟩
        = .ok (some ({ value := bangText_l2 t.b ++ attrLead t.n, quote := none,
                       line := some (l0 + t.L.pre.lines.length) },
            ⟨t.L.sp1 ++ '=' :: (wordsLay t.L.gaps t.ws ++ (t.L.term.text ++
              (linesStr (hdrFirstPre_ls ts gap).lines ++ ((hdrFirstPre_ls ts gap).ind ++ hdrAfter_ls ts gap V)))),
             l0 + t.L.pre.lines.length⟩)) := by
      have e1 : hdrText_ls (t :: ts) gap V
          = linesStr t.L.pre.lines ++ (t.L.pre.ind ++ (bangText_l2 t.b ++ (attrLead t.n ++
              (t.L.sp1 ++ '=' :: (wordsLay t.L.gaps t.ws ++ (t.L.term.text ++
                (linesStr (hdrFirstPre_ls ts gap).lines ++ ((hdrFirstPre_ls ts gap).ind ++ hdrAfter_ls ts gap V)))))))) := by
        simp [hdrText_ls, hdrFirstPre_ls, hdrAfter_ls, AItem.body, AttrIt.item, AItem.bang, AItem.spec,
          AItem.lay, defText, Pre.text]
      unfold nextWord
      simp only []
      rw [e1, struct_skip_lines _ hpre'.1, nextWordAux_skip structSettings _ _ (inlineB_space hpre'.2),
        inlineB_nl hpre'.2, Nat.add_zero]
      exact nextWordAux_bang_sattr_ls t.b t.n _ _ hn
        (stopsAt_space_append _ _ _ (inlineB_space hsp1) (by rfl))
    obtain ⟨ci4, hstep, hnext⟩ := scopeAttrs_step_ls t ht (hdrFirstPre_ls ts gap).lines
      (hdrFirstPre_ls ts gap).ind (hdrAfter_ls ts gap V) hfp.1 hfp.2 (hdrAfter_safe_ls ts gap V)
      ((t.L.sp1 ++ '=' :: (wordsLay t.L.gaps t.ws ++ (t.L.term.text ++
          (linesStr (hdrFirstPre_ls ts gap).lines ++ ((hdrFirstPre_ls ts gap).ind ++ hdrAfter_ls ts gap V))))).length + 1)
      [] (l0 + t.L.pre.lines.length)
    have hlen : ts.length + 1 ≤ (t.L.sp1 ++ '=' :: (wordsLay t.L.gaps t.ws ++ (t.L.term.text ++
          (linesStr (hdrFirstPre_ls ts gap).lines ++ ((hdrFirstPre_ls ts gap).ind ++ hdrAfter_ls ts gap V))))).length + 1 := by
      have := hdrAfter_length_ls ts gap V
      simp only [List.length_append, List.length_cons]
      omega
    have hloop := scopeAttrs_hdr_ls gap V hgap ts _ ci4
      ([] ++ (if t.b then [] else [(t.n, (sattrValOf t.n t.ws).getD .none)]))
      (endLine (l0 + t.L.pre.lines.length) t.ws + nlCount t.L.term.text) hts' hlen hnext
    rw [← hstep] at hloop
    have hwv : ((bangText_l2 t.b ++ attrLead t.n) == ['{'] || (bangText_l2 t.b ++ attrLead t.n).take 1 == ['.']
        || (bangText_l2 t.b ++ attrLead t.n).take 2 == ['!', '.']) = true := by
      cases t.b <;> simp [bangText_l2, attrLead]
    have := collectObjects_scope_attrs_step_ls fuel st stop prevLine acc pending _ _ _ _ _ _ nm b _ h1 rfl rfl
      hit.defName hit.stdIdent hit.notReserved h2 rfl hwv hloop
    rw [this]
    simp [sattrsOf, attrsEnd]


/-! ### documents: top-level scopes with header attributes, nested attribute-free bodies -/

theorem hdrAfter_append_ls (ts : List AttrIt) (gap : Pre) (V R : Str) :
    hdrAfter_ls ts gap V ++ R = hdrAfter_ls ts gap (V ++ R) := by
  induction ts with
  | nil => simp [hdrAfter_ls]
  | cons t ts ih => simp [hdrAfter_ls, ih]

theorem hdrText_append_ls (ts : List AttrIt) (gap : Pre) (V R : Str) :
    hdrText_ls ts gap V ++ R = hdrText_ls ts gap (V ++ R) := by
  simp [hdrText_ls, hdrAfter_append_ls]

/-- a top-level scope `[!]nm`, header attribute assignments `ts`, the gap in front of `{`, a body of
    nested items (`LayItem` of Phil/Proofs/Layout2.lean: definitions and scopes in any layout, with
    `!`, dotted names), the filler in front of `}` -/
structure HScope where
  nm : Str
  b : Bool := false
  pre : Pre := {}
  ts : List AttrIt := []
  gap : Pre := { ind := [' '] }
  kids : List LayItem := []
  close : Pre := {}

def HScope.body (x : HScope) : Str :=
  bangText_l2 x.b ++ (x.nm ++ hdrText_ls x.ts x.gap (layItemsText x.kids ++ (x.close.text ++ ['}'])))

def renderH : List HScope → Pre → Str
  | [], post => post.text
  | x :: xs, post => x.pre.text ++ (x.body ++ renderH xs post)

def HScope.wf (x : HScope) : Bool :=
  goodName x.nm && x.pre.wf && x.ts.all AttrIt.swf && x.gap.wf && hdrGapOK_ls x.ts x.gap && x.close.wf &&
    wfLayItems x.kids x.close.lines.isEmpty

def wfDocH (xs : List HScope) (post : Pre) : Bool := xs.all HScope.wf && post.wf

/-- the line of `{` -/
def HScope.bodyLn (x : HScope) (l : Nat) : Nat := attrsEnd (l + x.pre.lines.length) x.ts + x.gap.lines.length
def HScope.endLn (x : HScope) (l : Nat) : Nat := layEndLn x.kids (x.bodyLn l) + x.close.lines.length
def HScope.count (x : HScope) : Nat := 1 + layCount x.kids

def HScope.obj (x : HScope) (l i : Nat) : Obj :=
  .scope { name := x.nm, id := some i, disabled := x.b, line := some (l + x.pre.lines.length),
           attrs := sattrsOf x.ts } (layObjs x.kids (x.bodyLn l) (i + 1))

/-- **what the parser builds** -/
def hObjs : List HScope → Nat → Nat → List Obj
  | [], _, _ => []
  | x :: xs, l, i => x.obj l i :: hObjs xs (x.endLn l) (i + x.count)

def hCount : List HScope → Nat
  | [] => 0
  | x :: xs => x.count + hCount xs

def firstPreH : List HScope → Pre → Pre
  | [], post => post
  | x :: _, _ => x.pre

def afterPreH : List HScope → Pre → Str
  | [], _ => []
  | x :: xs, post => x.body ++ renderH xs post

theorem renderH_split_ls (xs : List HScope) (post : Pre) :
    renderH xs post = linesStr (firstPreH xs post).lines ++ ((firstPreH xs post).ind ++ afterPreH xs post) := by
  cases xs with
  | nil => simp [renderH, firstPreH, afterPreH, Pre.text]
  | cons x rest => simp [renderH, firstPreH, afterPreH, Pre.text]

theorem firstPreH_wf_ls (xs : List HScope) (post : Pre) (h : wfDocH xs post = true) :
    (firstPreH xs post).wf = true := by
  simp only [wfDocH, Bool.and_eq_true, List.all_eq_true] at h
  cases xs with
  | nil => exact h.2
  | cons x rest =>
    have := h.1 x (by simp)
    simp only [HScope.wf, Bool.and_eq_true] at this
    exact this.1.1.1.1.1.2

theorem collectObjects_hdoc_ls (post : Pre) :
    ∀ (xs : List HScope) (fuel : Nat) (st : PState) (l prevLine : Nat) (acc : List Obj),
      wfDocH xs post = true → hCount xs + 1 ≤ fuel →
      nextWord structSettings st.ci
        = nextWordAux structSettings false ((firstPreH xs post).ind ++ afterPreH xs post)
            (l + (firstPreH xs post).lines.length) →
      ∃ st', collectObjects fuel st none prevLine acc none = .ok (acc ++ hObjs xs l st.nextId, st') := by
  intro xs
  induction xs with
  | nil =>
    intro fuel st l prevLine acc hwf hf hci
    obtain ⟨f, rfl⟩ : ∃ f, fuel = f + 1 := ⟨fuel - 1, by omega⟩
    simp only [wfDocH, List.all_nil, Bool.true_and, Pre.wf, Bool.and_eq_true] at hwf
    refine ⟨st, ?_⟩
    rw [collectObjects_end f st prevLine acc none (by
      rw [hci]
      simp only [firstPreH, afterPreH, List.append_nil]
      exact nextWordAux_blank_eof structSettings _ _ (inlineB_space hwf.2))]
    simp [flush, hObjs]
  | cons x rest ih =>
    intro fuel st l prevLine acc hwf hf hci
    obtain ⟨f, rfl⟩ : ∃ f, fuel = f + 1 := ⟨fuel - 1, by omega⟩
    have hwr : wfDocH rest post = true := by
      simp only [wfDocH, List.all_cons, Bool.and_eq_true] at hwf ⊢
      exact ⟨hwf.1.2, hwf.2⟩
    have hx : x.wf = true := by
      simp only [wfDocH, List.all_cons, Bool.and_eq_true] at hwf
      exact hwf.1.1
    simp only [HScope.wf, Bool.and_eq_true, List.all_eq_true] at hx
    obtain ⟨⟨⟨⟨⟨⟨hnm, hpre⟩, hts⟩, hgap⟩, hgok⟩, hclose⟩, hkids⟩ := hx
    simp only [Pre.wf, Bool.and_eq_true] at hpre
    have hfpr := firstPreH_wf_ls rest post hwr
    simp only [Pre.wf, Bool.and_eq_true] at hfpr
    obtain ⟨_, _, _, _, _, _, hdot⟩ := goodName_cases hnm
    have hfk : layCount x.kids + 1 ≤ f := by simp only [hCount, HScope.count] at hf; omega
    have hfr : hCount rest + 1 ≤ f := by simp only [hCount, HScope.count] at hf; omega
    -- the header
    have hhead := scope_hdr_turn_ls x.nm x.b x.pre.ind x.ts x.gap
      (layItemsText x.kids ++ (x.close.text ++ ('}' :: (linesStr (firstPreH rest post).lines ++
        ((firstPreH rest post).ind ++ afterPreH rest post)))))
      (goodName_item_l2 hnm) hpre.2 hts hgap hgok f st none prevLine acc none (l + x.pre.lines.length)
      (by
        rw [hci, ← renderH_split_ls rest post]
        simp [firstPreH, afterPreH, HScope.body, hdrText_append_ls])
    -- the body
    have hfp := firstPreN_wf_l2 x.kids _ x.close hkids hclose
    simp only [Pre.wf, Bool.and_eq_true] at hfp
    obtain ⟨st', hrun, hnid, hci'⟩ := blockRun_all_l2 x.kids f
      { ci := ⟨layItemsText x.kids ++ (x.close.text ++ ('}' :: (linesStr (firstPreH rest post).lines ++
          ((firstPreH rest post).ind ++ afterPreH rest post)))), x.bodyLn l⟩, nextId := st.nextId + 1 }
      (x.bodyLn l) 0 [] none
      (some { value := ['{'], quote := none, line := some (x.bodyLn l) })
      x.close ('}' :: (linesStr (firstPreH rest post).lines ++ ((firstPreH rest post).ind ++ afterPreH rest post)))
      hkids hclose (Or.inr ⟨_, _, rfl, rfl⟩) hfk
      (by
        unfold nextWord
        simp only []
        rw [layItems_split_l2, struct_skip_lines _ hfp.1])
    have hci'' := hci' _ rfl
    obtain ⟨st'', hih⟩ := ih f st' (x.endLn l) (l + x.pre.lines.length)
      (acc ++ [x.obj l st.nextId]) hwr hfr
      (by
        rw [hci'']
        unfold nextWord
        simp only [HScope.endLn]
        rw [struct_skip_lines _ hfpr.1])
    refine ⟨st'', ?_⟩
    rw [hhead]
    simp only [HScope.bodyLn] at hrun
    rw [hrun]
    simp only [scopeCont, flush, adopt, List.nil_append]
    have e : (Obj.scope { name := x.nm, id := some st.nextId, disabled := x.b, line := some (l + x.pre.lines.length), attrs := sattrsOf x.ts }
        (layObjs x.kids (attrsEnd (l + x.pre.lines.length) x.ts + x.gap.lines.length) (st.nextId + 1)))
        = x.obj l st.nextId := rfl
    rw [e, wrapDotted_undotted (x.obj l st.nextId) (show '.' ∉ (x.obj l st.nextId).name from hdot), hih, hnid]
    have : st.nextId + 1 + layCount x.kids = st.nextId + x.count := by simp only [HScope.count]; omega
    rw [this]
    simp [hObjs]

theorem hCount_le_text_ls (post : Pre) (xs : List HScope) : hCount xs ≤ (renderH xs post).length := by
  induction xs with
  | nil => simp [hCount]
  | cons x rest ih =>
    have h1 := layCountList_le_text_l2 x.kids
    have h4 := hdrAfter_length_ls x.ts x.gap ([] : Str)
    have key : hdrAfter_ls x.ts x.gap (layItemsText x.kids ++ (x.close.text ++ ['}']))
        = hdrAfter_ls x.ts x.gap [] ++ (layItemsText x.kids ++ (x.close.text ++ ['}'])) := by
      rw [hdrAfter_append_ls]; rfl
    simp only [hCount, HScope.count, renderH, HScope.body, hdrText_ls, key, List.length_append]
    omega

/-- **`parse` of a document of top-level scopes with header attributes** -/
theorem parseObjs_renderH_ls (xs : List HScope) (post : Pre) (h : wfDocH xs post = true) :
    parseObjs (renderH xs post) = .ok (hObjs xs 1 1) := by
  have hlen : hCount xs + 1 ≤ (renderH xs post).length + 2 := by
    have := hCount_le_text_ls post xs; omega
  have hpre := firstPreH_wf_ls xs post h
  simp only [Pre.wf, Bool.and_eq_true] at hpre
  obtain ⟨st', hst⟩ := collectObjects_hdoc_ls post xs _ { ci := ⟨renderH xs post, 1⟩, nextId := 1 } 1 0 []
    h hlen (by
      unfold nextWord
      simp only []
      rw [renderH_split_ls, struct_skip_lines _ hpre.1])
  unfold parseObjs
  rw [hst]
  simp


/-! ### abstract tree, `!` on scope headers -/

/-- the scope without ids and lines: name, flag, header attributes, abstract trees of the body -/
def HScope.tree (x : HScope) : Obj :=
  .scope { name := x.nm, disabled := x.b, attrs := sattrsOf x.ts } (layTrees x.kids)

theorem hObjs_erase_ls (xs : List HScope) : ∀ l i,
    eraseList (hObjs xs l i) = eraseList (xs.map HScope.tree) := by
  induction xs with
  | nil => intro l i; rfl
  | cons x rest ih =>
    intro l i
    simp only [hObjs, List.map_cons, eraseList_cons, ih]
    congr 1
    simp only [HScope.obj, HScope.tree, Obj.erase, Meta.erase, layObjs_erase_l2]

/-- what a header assignment says, without layout and source lines -/
def AttrIt.content (t : AttrIt) : String × List Word × Bool := (t.n, t.ws.map Word.erase, t.b)

theorem sattrValOf_erase_ls (n : String) (ws : List Word) : sattrValOf n (ws.map Word.erase) = sattrValOf n ws := by
  simp only [sattrValOf, erase_erase_words_la]

theorem sattrsOf_content_ls (ts ts' : List AttrIt) (h : ts.map AttrIt.content = ts'.map AttrIt.content) :
    sattrsOf ts = sattrsOf ts' := by
  induction ts generalizing ts' with
  | nil => cases ts' with
    | nil => rfl
    | cons _ _ => simp at h
  | cons t ts ih =>
    cases ts' with
    | nil => simp at h
    | cons t' ts' =>
      simp only [List.map_cons, List.cons.injEq, AttrIt.content, Prod.mk.injEq] at h
      obtain ⟨⟨hn, hw, hb⟩, hr⟩ := h
      have hv : sattrValOf t.n t.ws = sattrValOf t'.n t'.ws := by
        rw [← sattrValOf_erase_ls t.n, ← sattrValOf_erase_ls t'.n, hn, hw]
      rw [hn] at hv
      simp only [sattrsOf, ih ts' hr, hn, hb, hv]

def HScope.unbang (x : HScope) : HScope := { x with b := false }
def HScope.unbangAttrs (x : HScope) : HScope := { x with ts := x.ts.map AttrIt.unbang }

theorem hObjs_flags_ls (xs : List HScope) : ∀ l i,
    hObjs xs l i = setFlags_l2 (xs.map (·.b)) (hObjs (xs.map HScope.unbang) l i) := by
  induction xs with
  | nil => intro l i; rfl
  | cons x rest ih =>
    intro l i
    simp only [List.map_cons, hObjs, setFlags_l2]
    have e1 : (HScope.unbang x).endLn l = x.endLn l := rfl
    have e2 : (HScope.unbang x).count = x.count := rfl
    rw [e1, e2, ← ih]
    simp [HScope.obj, HScope.unbang, HScope.bodyLn, Obj.setDisabled_l2, Obj.withMeta]

theorem hObjs_noAttrs_ls (xs : List HScope) : ∀ l i,
    (hObjs xs l i).map Obj.noAttrs = (hObjs (xs.map HScope.unbangAttrs) l i).map Obj.noAttrs := by
  induction xs with
  | nil => intro l i; rfl
  | cons x rest ih =>
    intro l i
    have e0 : (HScope.unbangAttrs x).bodyLn l = x.bodyLn l := by
      simp [HScope.bodyLn, HScope.unbangAttrs, attrsEnd_unbang_la]
    have e1 : (HScope.unbangAttrs x).endLn l = x.endLn l := by
      simp only [HScope.endLn, e0]; rfl
    have e2 : (HScope.unbangAttrs x).count = x.count := rfl
    simp only [List.map_cons, hObjs, e1, e2, ih]
    congr 1
    simp only [HScope.obj, e0, Obj.noAttrs, Obj.withMeta]
    rfl

theorem wfDocH_unbang_ls (xs : List HScope) (post : Pre) :
    wfDocH (xs.map HScope.unbang) post = wfDocH xs post := by
  simp only [wfDocH, List.all_map]
  congr 1

theorem hObjs_length_ls (xs : List HScope) : ∀ l i, (hObjs xs l i).length = xs.length := by
  induction xs with
  | nil => intro l i; rfl
  | cons x rest ih => intro l i; simp [hObjs, ih]

theorem sattrsOf_append_ls (ts1 ts2 : List AttrIt) : sattrsOf (ts1 ++ ts2) = sattrsOf ts1 ++ sattrsOf ts2 := by
  induction ts1 with
  | nil => rfl
  | cons t ts ih => simp [sattrsOf, ih]

end Phil
