/-
  Phil.Proofs.FetchTreeMS3 — the OPERATIONAL theorem for masters that repeat the name of a `.multiple`
  object (further master occurrences): `fetchScope … false = (ms2Result, ms2Used)` on `MSMaster2`.
    1. the candidate loop with a non-empty `fromMasterOf` (`multi_fold_ms3`, `multiBranch_*_ms3`);
    2. `masterActiveObjects` and `fromMasterOf` on masters with repeated names (`firstsIdx_ms3`);
    3. the step of the master loop for `.multiple` definitions / scopes with further occurrences;
    4. `fetch_ms2_total`.
  All names of this file carry `ms3`, `ms2` or `MS2`.
-/
import Phil.Proofs.FetchTreeMS2
set_option linter.unusedVariables false
namespace Phil

/-! ## 1. the candidate loop over flagged candidates (master-provided ones first) -/

/-- what is known about one candidate `fm = (fromMaster, ms)` of the `.multiple` master object `mo`:
    the instance `x.1` the fetch builds, the ids `x.2.2` it consumes (none for a master-provided
    candidate) and its key `x.2.1` -/
def GLinkB (F : FetchFn) (e : Envs) (fuel : Nat) (mo : Obj) (fm : Bool × Obj)
    (x : Obj × Str × List Nat) : Prop :=
  candOf F e fuel false mo fm.1 fm.2 = .ok (some x.1, x.2.2) ∧
    extractFormatStr e (fuel + 64) mo x.1 = .ok x.2.1

/-- outside diff mode the acceptance step does not look at the `fromMaster` flag -/
theorem cAccept_fromM_ms3 (b : Bool) (k : Str) (c : Obj) (u : List Nat) (robjs : List (Option Obj))
    (processed : List (Str × Int)) (used : List Nat) :
    cAccept false b k c u robjs processed used = cAccept false false k c u robjs processed used := by
  unfold cAccept
  simp only [Bool.false_and]

theorem cstepG_glinkB_ms3 (F : FetchFn) (e : Envs) (fuel : Nat) (mo : Obj) (k0 : Str)
    (fm : Bool × Obj) (x : Obj × Str × List Nat) (hl : GLinkB F e fuel mo fm x)
    (robjs : List (Option Obj)) (processed : List (Str × Int)) (used : List Nat) :
    cstepG F e fuel false mo k0 (robjs, processed, used) fm =
      if x.2.1 == k0 then .ok (robjs, processed, used ++ x.2.2)
      else cAccept false false x.2.1 x.1 x.2.2 robjs processed used := by
  unfold cstepG
  simp only [hl.1, hl.2, cAccept_fromM_ms3]

theorem cstepG_glinkB_ok_ms3 (F : FetchFn) (e : Envs) (fuel : Nat) (mo : Obj) (k0 : Str)
    (fm : Bool × Obj) (x : Obj × Str × List Nat) (hl : GLinkB F e fuel mo fm x) (acc : CAcc) :
    ∃ b', cstepG F e fuel false mo k0 acc fm = .ok b' := by
  obtain ⟨robjs, processed, used⟩ := acc
  rw [cstepG_glinkB_ms3 F e fuel mo k0 fm x hl]
  split
  · exact ⟨_, rfl⟩
  · exact cAccept_ok_tm _ _ _ _ _ _

/-- **the candidate loop over any list of flagged candidates** (master-provided or from the sources):
    the survivors are those of the list rule over all candidates in loop order -/
theorem multi_fold_ms3 (F : FetchFn) (e : Envs) (fuel : Nat) (mo : Obj) (k0 : Str) :
    ∀ (C : List (Bool × Obj)) (X : List (Obj × Str × List Nat)), Forall2 (GLinkB F e fuel mo) C X →
    ∀ (robjs : List (Option Obj)) (processed : List (Str × Int)) (used : List Nat)
      (T : List (Obj × Str × Nat)), MInv robjs processed T →
    ∃ robjs' processed' T',
      C.foldlM (cstepG F e fuel false mo k0)
        (robjs, processed, used) = .ok (robjs', processed', used ++ X.flatMap (fun x => x.2.2)) ∧
      MInv robjs' processed' T' ∧
      survOf T' = (X.map (fun x => (x.1, x.2.1))).foldl (accStep k0) (survOf T) := by
  intro C X h
  induction h with
  | nil =>
    intro robjs processed used T hinv
    exact ⟨robjs, processed, T, by simp; rfl, hinv, rfl⟩
  | @cons fm x C X hl _ ih =>
    intro robjs processed used T hinv
    rw [List.foldlM_cons, cstepG_glinkB_ms3 F e fuel mo k0 fm x hl, List.map_cons, List.foldl_cons]
    cases hk : x.2.1 == k0 with
    | true =>
      simp only [if_true]
      obtain ⟨r', p', T', hf, hi, hs⟩ := ih robjs processed (used ++ x.2.2) T hinv
      refine ⟨r', p', T', ?_, hi, ?_⟩
      · show List.foldlM _ _ _ = _
        rw [hf]; simp
      · rw [hs]; unfold accStep; simp [hk]
    | false =>
      simp only [Bool.false_eq_true, if_false]
      obtain ⟨r1, p1, hacc, hinv1⟩ := cAccept_nodiff x.2.1 x.1 x.2.2 robjs processed used T hinv
      rw [hacc]
      obtain ⟨r', p', T', hf, hi, hs⟩ := ih r1 p1 (used ++ x.2.2) _ hinv1
      refine ⟨r', p', T', ?_, hi, ?_⟩
      · show List.foldlM _ _ _ = _
        rw [hf]; simp
      · rw [hs]
        congr 1
        unfold accStep
        simp only [hk, Bool.false_eq_true, if_false]
        unfold survOf
        rw [List.map_append, ← survOf.eq_1, survOf_filter]
        rfl

/-- the whole `.multiple` branch for a master SCOPE, further master occurrences allowed, all
    candidates succeeding -/
theorem multiBranch_scope_ms3 (F : FetchFn) (e : Envs) (fuel : Nat) (mkids : List Obj) (idx : Nat)
    (mm : Meta) (kids : List Obj) (self : Obj) (uself : List Nat) (k0 : Str)
    (M : List Obj) (X : List (Obj × Str × List Nat)) (out : List Obj) (used : List Nat)
    (hself : F false mm kids [] = .ok (self, uself))
    (hk0 : extractFormatStr e (fuel + 64) (.scope mm kids) self = .ok k0)
    (hl : Forall2 (GLinkB F e fuel (.scope mm kids))
      (fromMasterOf mkids idx (.scope mm kids) ++ M.map (fun (o : Obj) => (false, o))) X) :
    multiBranch F e fuel false mkids idx (.scope mm kids) M out used =
      .ok (out ++ msMultiBlock (.scope mm kids) self k0 (X.map (fun x => (x.1, x.2.1))),
           used ++ X.flatMap (fun x => x.2.2)) := by
  unfold multiBranch
  rw [masterKeyG_scope, hself]
  simp only
  rw [hk0]
  simp only
  obtain ⟨r', p', T', hf, hi, hs⟩ := multi_fold_ms3 F e fuel (.scope mm kids) k0 _ X hl [] [] used [] MInv.nil
  rw [hf]
  simp only
  have hs' : survOf T' = dedupKeepLast ((X.map (fun x => (x.1, x.2.1))).filter (fun y => y.2 != k0)) := by
    rw [hs]; exact foldl_accStep_nil k0 _
  have h1 : r'.filterMap (fun (x : Option Obj) => x) =
      (dedupKeepLast ((X.map (fun x => (x.1, x.2.1))).filter (fun y => y.2 != k0))).map (·.1) := by
    rw [← someIdx_fst r' 0, hi.idx, ← hs']
    unfold survOf
    simp [List.map_map]
  have h2 : p'.isEmpty =
      (dedupKeepLast ((X.map (fun x => (x.1, x.2.1))).filter (fun y => y.2 != k0))).isEmpty := by
    rw [← hs', hi.proc]
    unfold survOf
    cases T' <;> rfl
  rw [h1]
  unfold tmplObjsOf msMultiBlock selfFetchOf defaultInstOf
  simp only [Bool.false_eq_true, if_false, h2, hself, List.append_assoc]
  split <;> rfl

/-- the whole `.multiple` branch for a master DEFINITION, further master occurrences allowed -/
theorem multiBranch_defn_ms3 (F : FetchFn) (e : Envs) (fuel : Nat) (mkids : List Obj) (idx : Nat)
    (mm : Meta) (mws : List Word) (k0 : Str)
    (M : List Obj) (X : List (Obj × Str × List Nat)) (out : List Obj) (used : List Nat)
    (hk0 : extractFormatStr e (fuel + 64) (.defn mm mws) (.defn mm mws) = .ok k0)
    (hl : Forall2 (GLinkB F e fuel (.defn mm mws))
      (fromMasterOf mkids idx (.defn mm mws) ++ M.map (fun (o : Obj) => (false, o))) X) :
    multiBranch F e fuel false mkids idx (.defn mm mws) M out used =
      .ok (out ++ multiBlock (.defn mm mws) k0 (X.map (fun x => (x.1, x.2.1))),
           used ++ X.flatMap (fun x => x.2.2)) := by
  unfold multiBranch
  rw [masterKeyG_defn, hk0]
  simp only
  obtain ⟨r', p', T', hf, hi, hs⟩ := multi_fold_ms3 F e fuel (.defn mm mws) k0 _ X hl [] [] used [] MInv.nil
  rw [hf]
  simp only
  have hs' : survOf T' = dedupKeepLast ((X.map (fun x => (x.1, x.2.1))).filter (fun y => y.2 != k0)) := by
    rw [hs]; exact foldl_accStep_nil k0 _
  have h1 : r'.filterMap (fun (x : Option Obj) => x) =
      (dedupKeepLast ((X.map (fun x => (x.1, x.2.1))).filter (fun y => y.2 != k0))).map (·.1) := by
    rw [← someIdx_fst r' 0, hi.idx, ← hs']
    unfold survOf
    simp [List.map_map]
  have h2 : p'.isEmpty =
      (dedupKeepLast ((X.map (fun x => (x.1, x.2.1))).filter (fun y => y.2 != k0))).isEmpty := by
    rw [← hs', hi.proc]
    unfold survOf
    cases T' <;> rfl
  rw [h1, tmplObjsOf_defn]
  unfold multiBlock multiTmpl
  simp only [Bool.false_eq_true, if_false, h2, List.append_assoc, List.singleton_append]

/-! ## 2. `masterActiveObjects` and `fromMasterOf` on masters with repeated names -/

/-- the first enabled occurrences with their indexes (`k` is the index of the head, `seen` the names
    of the enabled objects met so far) -/
def firstsIdx_ms3 : Nat → List Str → List Obj → List (Nat × Obj)
  | _, _, [] => []
  | k, seen, o :: os =>
    if o.meta.disabled || seen.contains o.name then firstsIdx_ms3 (k + 1) seen os
    else (k, o) :: firstsIdx_ms3 (k + 1) (o.name :: seen) os

/-- the first enabled occurrences, each with its later enabled same-name siblings -/
def firstsT_ms3 : List Str → List Obj → List (Obj × List Obj)
  | _, [] => []
  | seen, o :: os =>
    if o.meta.disabled || seen.contains o.name then firstsT_ms3 seen os
    else (o, activeNamed o.name os) :: firstsT_ms3 (o.name :: seen) os

theorem masterActive_go_ms3 : ∀ (l : List Obj) (k : Nat) (seenM : List (Str × Obj))
    (seenP : List (Str × Bool)) (seen : List Str) (acc : List (Nat × Obj)),
    (∀ n, seenP.find? (fun p => p.1 == n) =
      (seenM.find? (fun p => p.1 == n)).map (fun p => (p.1, isMultiple p.2))) →
    (∀ n, seen.contains n = (seenM.find? (fun p => p.1 == n)).isSome) →
    firstsOK_ms2 seenP l = true →
    masterActiveObjects.go ((l.zipIdx k).map (fun (o, i) => (i, o))) seenM acc =
      .ok (acc.reverse ++ firstsIdx_ms3 k seen l) := by
  intro l
  induction l with
  | nil => intro k seenM seenP seen acc _ _ _; simp [masterActiveObjects.go, firstsIdx_ms3]
  | cons o os ih =>
    intro k seenM seenP seen acc h1 h2 hok
    rw [List.zipIdx_cons, List.map_cons]
    rw [firstsOK_ms2] at hok
    rw [firstsIdx_ms3]
    cases hd : o.meta.disabled with
    | true =>
      simp only [hd, if_true] at hok
      simp only [masterActiveObjects.go, hd, if_true, Bool.true_or]
      exact ih (k + 1) seenM seenP seen acc h1 h2 hok
    | false =>
      simp only [hd, Bool.false_eq_true, if_false] at hok
      have h1o := h1 o.name
      have h2o := h2 o.name
      cases hfind : seenM.find? (fun p => p.1 == o.name) with
      | none =>
        rw [hfind] at h1o h2o
        simp only [Option.map_none] at h1o
        simp only [Option.isSome_none] at h2o
        rw [h1o] at hok
        simp only at hok
        simp only [masterActiveObjects.go, hd, Bool.false_eq_true, if_false, hfind, h2o, Bool.or_self]
        rw [ih (k + 1) (seenM ++ [(o.name, o)]) ((o.name, isMultiple o) :: seenP) (o.name :: seen)
          ((k, o) :: acc) ?_ ?_ hok]
        · simp
        · intro n
          rw [List.find?_cons, List.find?_append]
          by_cases hn : o.name = n
          · subst hn
            simp [hfind]
          · have hn' : (o.name == n) = false := by simpa using hn
            simp only [hn']
            rw [h1 n]
            cases seenM.find? (fun p => p.1 == n) <;> simp [hn']
        · intro n
          rw [List.contains_cons, List.find?_append, h2 n]
          by_cases hn : o.name = n
          · subst hn
            simp [hfind]
          · have hn' : (o.name == n) = false := by simpa using hn
            have hn'' : (n == o.name) = false := by simpa using fun h => hn h.symm
            cases seenM.find? (fun p => p.1 == n) <;> simp [hn', hn'']
      | some pm =>
        obtain ⟨nm, master⟩ := pm
        rw [hfind] at h1o h2o
        simp only [Option.map_some] at h1o
        simp only [Option.isSome_some] at h2o
        rw [h1o] at hok
        simp only [Bool.and_eq_true] at hok
        simp only [masterActiveObjects.go, hd, Bool.false_eq_true, if_false, hfind, h2o, Bool.or_true,
          if_true, hok.1]
        exact ih (k + 1) seenM seenP seen acc h1 h2 hok.2

/-- **`master_active_objects` on a master whose repeated names are names of `.multiple` objects**: the
    first enabled occurrence of every name, with its index -/
theorem masterActive_ms3 (mkids : List Obj) (hok : firstsOK_ms2 [] mkids = true) :
    masterActiveObjects mkids = .ok (firstsIdx_ms3 0 [] mkids) := by
  show masterActiveObjects.go ((mkids.zipIdx 0).map (fun (o, i) => (i, o))) [] [] = _
  rw [masterActive_go_ms3 mkids 0 [] [] [] [] (by intro n; rfl) (by intro n; rfl) hok]
  rfl

theorem zipIdx_filter_fst_ms3 (g : Obj → Bool) : ∀ (l : List Obj) (k : Nat),
    ((l.zipIdx k).filter (fun p => g p.1)).map (fun p => p.1) = l.filter g := by
  intro l
  induction l with
  | nil => intro k; rfl
  | cons a l ih =>
    intro k
    rw [List.zipIdx_cons, List.filter_cons, List.filter_cons]
    cases g a with
    | true => simp only [if_true, List.map_cons, ih]
    | false => simp only [Bool.false_eq_true, if_false, ih]

/-- the master-provided candidates of a FIRST enabled occurrence are its later enabled same-name
    siblings, in order -/
theorem fromMasterOf_ms3 (pre : List Obj) (o : Obj) (os : List Obj)
    (hpre : ∀ x ∈ pre, x.meta.disabled = false → x.name ≠ o.name) :
    fromMasterOf (pre ++ o :: os) pre.length o = (activeNamed o.name os).map (fun x => (true, x)) := by
  unfold fromMasterOf
  rw [List.zipIdx_append, List.filter_append, List.zipIdx_cons, List.filter_cons]
  have h1 : (pre.zipIdx 0).filter
      (fun (p : Obj × Nat) => !p.1.meta.disabled && p.1.name == o.name && p.2 != pre.length) = [] := by
    rw [List.filter_eq_nil_iff]
    intro p hp
    have hmem : p.1 ∈ pre := List.fst_mem_of_mem_zipIdx hp
    cases hd : p.1.meta.disabled with
    | true => simp
    | false =>
      have := hpre _ hmem hd
      simp [this]
  have h2 : (os.zipIdx (0 + pre.length + 1)).filter
      (fun (p : Obj × Nat) => !p.1.meta.disabled && p.1.name == o.name && p.2 != pre.length) =
      (os.zipIdx (0 + pre.length + 1)).filter (fun (p : Obj × Nat) => !p.1.meta.disabled && p.1.name == o.name) := by
    apply List.filter_congr
    intro p hp
    have := List.le_snd_of_mem_zipIdx hp
    have hne : (p.2 != pre.length) = true := by
      rw [bne_iff_ne]; omega
    rw [hne, Bool.and_true]
  rw [h1, h2]
  simp only [Nat.zero_add, bne_self_eq_false, Bool.and_false, Bool.false_eq_true, if_false, List.nil_append]
  unfold activeNamed
  rw [← zipIdx_filter_fst_ms3 (fun d => !d.meta.disabled && d.name == o.name) os (pre.length + 1), List.map_map]
  rfl

theorem firstsT_of_idx_ms3 : ∀ (l pre : List Obj) (seen : List Str),
    (∀ x ∈ pre, x.meta.disabled = false → seen.contains x.name = true) →
    (firstsIdx_ms3 pre.length seen l).map
      (fun io => (io.2, (fromMasterOf (pre ++ l) io.1 io.2).map (fun p => p.2))) = firstsT_ms3 seen l := by
  intro l
  induction l with
  | nil => intro pre seen _; rfl
  | cons o os ih =>
    intro pre seen hinv
    have happ : pre ++ o :: os = (pre ++ [o]) ++ os := by simp
    have hlen : pre.length + 1 = (pre ++ [o]).length := by simp
    rw [firstsIdx_ms3, firstsT_ms3]
    cases hskip : (o.meta.disabled || seen.contains o.name) with
    | true =>
      simp only [if_true]
      rw [happ, hlen]
      apply ih
      intro x hx hxd
      rw [List.mem_append, List.mem_singleton] at hx
      rcases hx with hx | rfl
      · exact hinv x hx hxd
      · rw [hxd] at hskip; simpa using hskip
    | false =>
      simp only [Bool.false_eq_true, if_false, List.map_cons]
      rw [Bool.or_eq_false_iff] at hskip
      congr 1
      · rw [fromMasterOf_ms3 pre o os, List.map_map]
        · rw [show ((fun (p : Bool × Obj) => p.2) ∘ fun x => (true, x)) = id from rfl, List.map_id]
        · intro x hx hxd hname
          have := hinv x hx hxd
          rw [hname, hskip.2] at this
          cases this
      · rw [happ, hlen]
        apply ih
        intro x hx hxd
        rw [List.mem_append, List.mem_singleton] at hx
        rw [List.contains_cons]
        rcases hx with hx | rfl
        · rw [hinv x hx hxd, Bool.or_true]
        · simp

/-- the actives of a master with their master-provided candidates -/
theorem firstsT_of_idx0_ms3 (mkids : List Obj) :
    (firstsIdx_ms3 0 [] mkids).map
      (fun io => (io.2, (fromMasterOf mkids io.1 io.2).map (fun p => p.2))) = firstsT_ms3 [] mkids :=
  firstsT_of_idx_ms3 mkids [] [] (fun x hx => by cases hx)

theorem ms2Result_eq_flatMap_ms3 (e : Envs) (srcs : List Obj) : ∀ (l : List Obj) (seen : List Str),
    ms2Result e seen l srcs = (firstsT_ms3 seen l).flatMap (fun p => ms2Block e p.1 (p.2 ++ srcs)) := by
  intro l
  induction l with
  | nil => intro seen; rw [ms2Result, firstsT_ms3]; rfl
  | cons o os ih =>
    intro seen
    rw [ms2Result, firstsT_ms3]
    split
    · exact ih seen
    · rw [List.flatMap_cons, ih]

theorem ms2NoClash_eq_all_ms3 (srcs : List Obj) : ∀ (l : List Obj) (seen : List Str),
    ms2NoClash seen l srcs = (firstsT_ms3 seen l).all (fun p => ms2NoClashObj p.1 (p.2 ++ srcs)) := by
  intro l
  induction l with
  | nil => intro seen; rw [ms2NoClash, firstsT_ms3]; rfl
  | cons o os ih =>
    intro seen
    rw [ms2NoClash, firstsT_ms3]
    split
    · exact ih seen
    · rw [List.all_cons, ih]

theorem mem_firstsT_ms3 : ∀ (l : List Obj) (seen : List Str) (p : Obj × List Obj), p ∈ firstsT_ms3 seen l →
    p.1 ∈ l ∧ p.1.meta.disabled = false ∧ ∀ x ∈ p.2, x ∈ l ∧ x.meta.disabled = false ∧ x.name = p.1.name := by
  intro l
  induction l with
  | nil => intro seen p hp; rw [firstsT_ms3] at hp; cases hp
  | cons o os ih =>
    intro seen p hp
    rw [firstsT_ms3] at hp
    split at hp
    · obtain ⟨h1, h2, h3⟩ := ih seen p hp
      exact ⟨List.mem_cons_of_mem _ h1, h2, fun x hx => ⟨List.mem_cons_of_mem _ (h3 x hx).1, (h3 x hx).2⟩⟩
    · rename_i hskip
      rw [List.mem_cons] at hp
      rcases hp with rfl | hp
      · refine ⟨List.mem_cons_self, ?_, ?_⟩
        · simp only [Bool.or_eq_true, not_or, Bool.not_eq_true] at hskip
          exact hskip.1
        · intro x hx
          have := mem_activeNamed.mp hx
          exact ⟨List.mem_cons_of_mem _ this.1, this.2⟩
      · obtain ⟨h1, h2, h3⟩ := ih _ p hp
        exact ⟨List.mem_cons_of_mem _ h1, h2, fun x hx => ⟨List.mem_cons_of_mem _ (h3 x hx).1, (h3 x hx).2⟩⟩

/-! ## 3. the class `MSMaster2`, consumed ids, defined keys -/

mutual
def MS2Obj : Obj → Prop
  | .defn mm _ => DefnMeta mm ∧ mm.name ≠ [] ∧ '.' ∉ mm.name
  | .scope mm kids => mm.name ≠ [] ∧ '.' ∉ mm.name ∧ MS2Kids kids ∧ firstsOK_ms2 [] kids = true
def MS2Kids : List Obj → Prop
  | [] => True
  | o :: os => MS2Obj o ∧ MS2Kids os
end

/-- **the class `MSMaster2`**: as `MSMaster` (definitions not `.deprecated`, not choices; names non-empty
    and dot-free; at every level), except that objects may be disabled and the name of a `.multiple`
    object may be repeated by later enabled siblings; a non-multiple name still occurs once among the
    enabled siblings.  Executable form: `ms2MasterB`. -/
structure MSMaster2 (mkids : List Obj) : Prop where
  kids : MS2Kids mkids
  firsts : firstsOK_ms2 [] mkids = true

theorem ms2Kids_iff : ∀ (l : List Obj), MS2Kids l ↔ ∀ o ∈ l, MS2Obj o
  | [] => by rw [MS2Kids]; simp
  | o :: os => by rw [MS2Kids, ms2Kids_iff os]; simp

theorem MSMaster2.of_scope {mm : Meta} {kids : List Obj} (h : MS2Obj (.scope mm kids)) : MSMaster2 kids := by
  rw [MS2Obj] at h
  exact ⟨h.2.2.1, h.2.2.2⟩

theorem MSMaster2.obj {mkids : List Obj} (h : MSMaster2 mkids) : ∀ o ∈ mkids, MS2Obj o :=
  (ms2Kids_iff mkids).mp h.kids

theorem MS2Obj.name_ne : ∀ {o : Obj}, MS2Obj o → o.name ≠ []
  | .defn mm _, h => by rw [MS2Obj] at h; exact h.2.1
  | .scope mm _, h => by rw [MS2Obj] at h; exact h.1

theorem MS2Obj.dotfree : ∀ {o : Obj}, MS2Obj o → '.' ∉ o.name
  | .defn mm _, h => by rw [MS2Obj] at h; exact h.2.2
  | .scope mm _, h => by rw [MS2Obj] at h; exact h.2.1

mutual
theorem ms2ObjB_sound : ∀ (o : Obj), ms2ObjB o = true → MS2Obj o
  | .defn mm mws, h => by
    rw [ms2ObjB] at h
    simp only [Bool.and_eq_true, Bool.not_eq_true', List.contains_eq_mem, decide_eq_false_iff_not] at h
    rw [MS2Obj]
    exact ⟨defnMetaB_tm_sound mm h.1.1, str_ne_nil_of_isEmpty h.1.2, h.2⟩
  | .scope mm kids, h => by
    rw [ms2ObjB] at h
    simp only [Bool.and_eq_true, Bool.not_eq_true', List.contains_eq_mem, decide_eq_false_iff_not] at h
    rw [MS2Obj]
    exact ⟨str_ne_nil_of_isEmpty h.1.1.1, h.1.1.2, ms2KidsB_sound kids h.1.2, h.2⟩
theorem ms2KidsB_sound : ∀ (l : List Obj), ms2KidsB l = true → MS2Kids l
  | [], _ => by rw [MS2Kids]; trivial
  | o :: os, h => by
    rw [ms2KidsB, Bool.and_eq_true] at h
    rw [MS2Kids]
    exact ⟨ms2ObjB_sound o h.1, ms2KidsB_sound os h.2⟩
end

theorem ms2MasterB_sound (mkids : List Obj) (h : ms2MasterB mkids = true) : MSMaster2 mkids := by
  unfold ms2MasterB at h
  rw [Bool.and_eq_true] at h
  exact ⟨ms2KidsB_sound mkids h.1, h.2⟩

mutual
def ms2UsedObj : Obj → List Obj → List Nat
  | .defn mm _, srcs => (defsNamed mm.name srcs).flatMap marksOf
  | .scope mm kids, srcs =>
    if (mm.attrs.get "multiple").truthy then
      (scopesNamed mm.name srcs).flatMap (fun s => ms2Used [] kids s.children)
    else ms2Used [] kids (srcStep srcs mm.name)
/-- the consumed ids, in the order the fetch marks them: those of the SOURCE objects only — a
    master-provided candidate (a further occurrence) marks nothing -/
def ms2Used : List Str → List Obj → List Obj → List Nat
  | _, [], _ => []
  | seen, mo :: rest, srcs =>
    if mo.meta.disabled || seen.contains mo.name then ms2Used seen rest srcs
    else ms2UsedObj mo srcs ++ ms2Used (mo.name :: seen) rest srcs
end

/-- the instance the master scope `.scope mm kids` builds from the objects `sk` -/
abbrev ms2Cand (e : Envs) (mm : Meta) (kids sk : List Obj) : Obj :=
  .scope { mm with tmpl := 0 } (ms2Result e [] kids sk)

mutual
def KeysDefinedMS2Obj (e : Envs) : Obj → List Obj → Prop
  | .defn mm mws, cands =>
    isMultiple (.defn mm mws) = true → KeysDefined e 0 (.defn mm mws) (defsNamed mm.name cands)
  | .scope mm kids, cands =>
    if (mm.attrs.get "multiple").truthy then
      KeysDefinedMS2 e [] kids [] ∧
      (∃ k, extractFormatStr e (depthL kids + 1 + 64) (.scope mm kids)
              (.scope { mm with tmpl := 0 } (ms2Result e [] kids [])) = .ok k) ∧
      ∀ s ∈ scopesNamed mm.name cands,
        KeysDefinedMS2 e [] kids s.children ∧
        ∃ k, extractFormatStr e (depthL kids + 1 + 64) (.scope mm kids)
              (.scope { mm with tmpl := 0 } (ms2Result e [] kids s.children)) = .ok k
    else KeysDefinedMS2 e [] kids (srcStep cands mm.name)
/-- the keys the list rule compares are defined, at every `.multiple` master object: the master's own
    and those of the candidates built from its further master occurrences and from the sources -/
def KeysDefinedMS2 (e : Envs) : List Str → List Obj → List Obj → Prop
  | _, [], _ => True
  | seen, mo :: rest, srcs =>
    if mo.meta.disabled || seen.contains mo.name then KeysDefinedMS2 e seen rest srcs
    else KeysDefinedMS2Obj e mo (activeNamed mo.name rest ++ srcs) ∧ KeysDefinedMS2 e (mo.name :: seen) rest srcs
end

mutual
def keysDefinedMS2ObjB (e : Envs) : Obj → List Obj → Bool
  | .defn mm mws, cands =>
    !isMultiple (.defn mm mws) || keysDefinedB e 0 (.defn mm mws) (defsNamed mm.name cands)
  | .scope mm kids, cands =>
    if (mm.attrs.get "multiple").truthy then
      keysDefinedMS2B e [] kids [] &&
      (errOf (extractFormatStr e (depthL kids + 1 + 64) (.scope mm kids)
              (.scope { mm with tmpl := 0 } (ms2Result e [] kids [])))).isNone &&
      (scopesNamed mm.name cands).all (fun s =>
        keysDefinedMS2B e [] kids s.children &&
        (errOf (extractFormatStr e (depthL kids + 1 + 64) (.scope mm kids)
              (.scope { mm with tmpl := 0 } (ms2Result e [] kids s.children)))).isNone)
    else keysDefinedMS2B e [] kids (srcStep cands mm.name)
/-- executable form of `KeysDefinedMS2` -/
def keysDefinedMS2B (e : Envs) : List Str → List Obj → List Obj → Bool
  | _, [], _ => true
  | seen, mo :: rest, srcs =>
    if mo.meta.disabled || seen.contains mo.name then keysDefinedMS2B e seen rest srcs
    else keysDefinedMS2ObjB e mo (activeNamed mo.name rest ++ srcs) && keysDefinedMS2B e (mo.name :: seen) rest srcs
end

mutual
theorem keysDefinedMS2ObjB_sound (e : Envs) : ∀ (mo : Obj) (cands : List Obj),
    keysDefinedMS2ObjB e mo cands = true → KeysDefinedMS2Obj e mo cands
  | .defn mm mws, cands, h => by
    rw [keysDefinedMS2ObjB] at h
    rw [KeysDefinedMS2Obj]
    intro hmult
    rw [hmult] at h
    exact keysDefined_of_B (by simpa using h)
  | .scope mm kids, cands, h => by
    rw [keysDefinedMS2ObjB] at h
    rw [KeysDefinedMS2Obj]
    split
    · rename_i hm
      simp only [hm, if_true, Bool.and_eq_true, List.all_eq_true] at h
      refine ⟨keysDefinedMS2B_sound e kids [] [] h.1.1, ok_of_errOf_none h.1.2, ?_⟩
      intro s hs
      exact ⟨keysDefinedMS2B_sound e kids [] s.children (h.2 s hs).1, ok_of_errOf_none (h.2 s hs).2⟩
    · rename_i hm
      simp only [hm, Bool.false_eq_true, if_false] at h
      exact keysDefinedMS2B_sound e kids [] _ h
theorem keysDefinedMS2B_sound (e : Envs) : ∀ (l : List Obj) (seen : List Str) (srcs : List Obj),
    keysDefinedMS2B e seen l srcs = true → KeysDefinedMS2 e seen l srcs
  | [], _, _, _ => by rw [KeysDefinedMS2]; trivial
  | mo :: rest, seen, srcs, h => by
    rw [keysDefinedMS2B] at h
    rw [KeysDefinedMS2]
    split
    · rename_i hs
      simp only [hs, if_true] at h
      exact keysDefinedMS2B_sound e rest seen srcs h
    · rename_i hs
      simp only [hs, Bool.false_eq_true, if_false, Bool.and_eq_true] at h
      exact ⟨keysDefinedMS2ObjB_sound e mo _ h.1, keysDefinedMS2B_sound e rest _ srcs h.2⟩
end

theorem ms2Used_eq_flatMap_ms3 (srcs : List Obj) : ∀ (l : List Obj) (seen : List Str),
    ms2Used seen l srcs = (firstsT_ms3 seen l).flatMap (fun p => ms2UsedObj p.1 srcs) := by
  intro l
  induction l with
  | nil => intro seen; rw [ms2Used, firstsT_ms3]; rfl
  | cons o os ih =>
    intro seen
    rw [ms2Used, firstsT_ms3]
    split
    · exact ih seen
    · rw [List.flatMap_cons, ih]

theorem KeysDefinedMS2.obj {e : Envs} {srcs : List Obj} : ∀ {l : List Obj} {seen : List Str},
    KeysDefinedMS2 e seen l srcs → ∀ p ∈ firstsT_ms3 seen l, KeysDefinedMS2Obj e p.1 (p.2 ++ srcs) := by
  intro l
  induction l with
  | nil => intro seen _ p hp; rw [firstsT_ms3] at hp; cases hp
  | cons o os ih =>
    intro seen h p hp
    rw [KeysDefinedMS2] at h
    rw [firstsT_ms3] at hp
    split at hp
    · rename_i hs
      simp only [hs, if_true] at h
      exact ih h p hp
    · rename_i hs
      simp only [hs] at h
      rw [List.mem_cons] at hp
      rcases hp with rfl | hp
      · exact h.1
      · exact ih h.2 p hp

/-! ### the nesting depth of the result -/

mutual
theorem depthL_ms2Block (e : Envs) : ∀ (mo : Obj) (cands : List Obj), depthL (ms2Block e mo cands) ≤ depthT mo
  | .defn mm mws, cands => by
    rw [ms2Block]
    apply depthL_le_of_forall
    intro o ho
    have h := (tmBlock_member_tm e _ cands o ho).2.2
    cases o with
    | scope m k => cases h
    | defn m ws => rw [depthT]; exact Nat.zero_le _
  | .scope mm kids, cands => by
    rw [ms2Block]
    split
    · apply depthL_le_of_forall
      intro o ho
      rcases mem_msMultiBlock ho with rfl | ⟨t, rfl⟩ | ⟨x, hx, rfl⟩
      · rw [depthT_withTmpl_ms, depthT, depthT]
        exact Nat.succ_le_succ (depthL_ms2Result e kids [] [])
      · rw [depthT_withTmpl_ms]; exact Nat.le_refl _
      · obtain ⟨s, _, rfl⟩ := List.mem_map.mp hx
        show depthT (Obj.scope _ _) ≤ _
        rw [depthT, depthT]
        exact Nat.succ_le_succ (depthL_ms2Result e kids [] s.children)
    · rw [depthL, depthL, depthT, depthT]
      exact Nat.max_le.mpr ⟨Nat.succ_le_succ (depthL_ms2Result e kids [] _), Nat.zero_le _⟩
/-- the result is nested no deeper than the master -/
theorem depthL_ms2Result (e : Envs) : ∀ (mkids : List Obj) (seen : List Str) (srcs : List Obj),
    depthL (ms2Result e seen mkids srcs) ≤ depthL mkids
  | [], seen, srcs => by rw [ms2Result]; exact Nat.le_refl _
  | mo :: rest, seen, srcs => by
    rw [ms2Result]
    split
    · rw [depthL]
      exact Nat.le_trans (depthL_ms2Result e rest seen srcs) (Nat.le_max_right _ _)
    · rw [depthL_append_ms, depthL]
      exact Nat.max_le.mpr ⟨Nat.le_trans (depthL_ms2Block e mo _) (Nat.le_max_left _ _),
        Nat.le_trans (depthL_ms2Result e rest _ srcs) (Nat.le_max_right _ _)⟩
end

theorem extractFormatStr_cand_fuel_ms3 (e : Envs) (fuel : Nat) (mm : Meta) (kids sk : List Obj)
    (hdep : depthL kids + 1 ≤ fuel) :
    extractFormatStr e (fuel + 64) (.scope mm kids) (ms2Cand e mm kids sk) =
      extractFormatStr e (depthL kids + 1 + 64) (.scope mm kids) (ms2Cand e mm kids sk) := by
  have h1 : depthT (.scope mm kids) = depthL kids + 1 := by rw [depthT]
  have h2 : depthT (ms2Cand e mm kids sk) ≤ depthL kids + 1 := by
    show depthT (Obj.scope _ _) ≤ _
    rw [depthT]; exact Nat.succ_le_succ (depthL_ms2Result e kids [] sk)
  exact extractFormatStr_fuel_ms e _ _ _ _ (by omega) (by omega) (by omega) (by omega)

/-! ### non-multiple first occurrences have no further occurrences -/

theorem activeNamed_nil_of_firstsOK_ms3 (n : Str) : ∀ (l : List Obj) (seenP : List (Str × Bool)),
    (∃ p, seenP.find? (fun p => p.1 == n) = some p ∧ p.2 = false) → firstsOK_ms2 seenP l = true →
    activeNamed n l = [] := by
  intro l
  induction l with
  | nil => intro _ _ _; rfl
  | cons x xs ih =>
    intro seenP hn hok
    rw [firstsOK_ms2] at hok
    unfold activeNamed
    rw [List.filter_cons]
    cases hd : x.meta.disabled with
    | true =>
      simp only [hd, if_true] at hok
      simp only [Bool.not_true, Bool.false_and, Bool.false_eq_true, if_false]
      exact ih seenP hn hok
    | false =>
      simp only [hd, Bool.false_eq_true, if_false] at hok
      obtain ⟨p, hp, hp2⟩ := hn
      by_cases hxn : x.name = n
      · exfalso
        rw [hxn, hp] at hok
        simp only [hp2, Bool.false_and] at hok
        cases hok
      · have hxn' : (x.name == n) = false := by simpa using hxn
        simp only [hxn', Bool.and_false, Bool.false_eq_true, if_false]
        cases hf : seenP.find? (fun p => p.1 == x.name) with
        | some q =>
          rw [hf] at hok
          simp only [Bool.and_eq_true] at hok
          exact ih seenP ⟨p, hp, hp2⟩ hok.2
        | none =>
          rw [hf] at hok
          simp only at hok
          refine ih _ ⟨p, ?_, hp2⟩ hok
          rw [List.find?_cons]
          simp only [hxn']
          exact hp

theorem firstsT_nonmulti_ms3 : ∀ (l : List Obj) (seenP : List (Str × Bool)) (seen : List Str),
    (∀ n, seen.contains n = (seenP.find? (fun p => p.1 == n)).isSome) → firstsOK_ms2 seenP l = true →
    ∀ p ∈ firstsT_ms3 seen l, isMultiple p.1 = false → p.2 = [] := by
  intro l
  induction l with
  | nil => intro _ _ _ _ p hp; rw [firstsT_ms3] at hp; cases hp
  | cons o os ih =>
    intro seenP seen hrel hok p hp hm
    rw [firstsOK_ms2] at hok
    rw [firstsT_ms3] at hp
    cases hd : o.meta.disabled with
    | true =>
      simp only [hd, if_true] at hok
      simp only [hd, Bool.true_or, if_true] at hp
      exact ih seenP seen hrel hok p hp hm
    | false =>
      simp only [hd, Bool.false_eq_true, if_false] at hok
      have hr := hrel o.name
      cases hf : seenP.find? (fun p => p.1 == o.name) with
      | some q =>
        rw [hf] at hok hr
        simp only [Option.isSome_some] at hr
        simp only [Bool.and_eq_true] at hok
        simp only [hd, hr, Bool.or_true, if_true] at hp
        exact ih seenP seen hrel hok.2 p hp hm
      | none =>
        rw [hf] at hok hr
        simp only [Option.isSome_none] at hr
        simp only at hok
        simp only [hd, hr, Bool.or_self, Bool.false_eq_true, if_false, List.mem_cons] at hp
        rcases hp with rfl | hp
        · simp only at hm ⊢
          refine activeNamed_nil_of_firstsOK_ms3 o.name os _ ⟨(o.name, isMultiple o), ?_, hm⟩ hok
          rw [List.find?_cons]
          simp
        · refine ih _ (o.name :: seen) ?_ hok p hp hm
          intro n
          rw [List.contains_cons, List.find?_cons, hrel n]
          by_cases hn : o.name = n
          · subst hn; simp
          · have hn' : (o.name == n) = false := by simpa using hn
            have hn'' : (n == o.name) = false := by simpa using fun h => hn h.symm
            simp [hn', hn'']

/-! ## 4. one step of the master loop, further master occurrences allowed -/

theorem candOf_defn_flag_ms3 (F : FetchFn) (e : Envs) (fuel : Nat) (mm : Meta) (mws : List Word)
    (b : Bool) (ms : Obj) :
    candOf F e fuel false (.defn mm mws) b ms =
      (fetchValue (.defn mm mws) ms).map (fun ro => (ro, if b then [] else marksOf ms)) := by
  cases b with
  | false => exact candOf_defn_nodiff F e fuel mm mws ms
  | true =>
    unfold candOf
    simp only [fetchDefn_nodiff, if_true, List.append_nil]
    congr 1
    funext ro
    cases ms.meta.id <;> rfl

theorem cstepG_defn_scope_ms3 (F : FetchFn) (e : Envs) (fuel : Nat) (mm : Meta) (mws : List Word)
    (k0 : Str) (b : Bool) (m : Meta) (k : List Obj) (acc : CAcc) :
    cstepG F e fuel false (.defn mm mws) k0 acc (b, .scope m k) = .error incompatibleErr := by
  unfold cstepG
  simp only [candOf_defn_flag_ms3]
  rfl

theorem cstepG_scope_defn_ms3 (F : FetchFn) (e : Envs) (fuel : Nat) (mm : Meta) (kids : List Obj) (k0 : Str)
    (b : Bool) (dm : Meta) (dws : List Word) (acc : CAcc) :
    cstepG F e fuel false (.scope mm kids) k0 acc (b, .defn dm dws) = .error incompatibleErr := by
  unfold cstepG candOf
  rfl

theorem activeNamed_append_ms3 (n : Str) (FM l : List Obj)
    (hFM : ∀ x ∈ FM, x.meta.disabled = false ∧ x.name = n) :
    activeNamed n (FM ++ l) = FM ++ activeNamed n l := by
  unfold activeNamed
  rw [List.filter_append, List.filter_eq_self.mpr]
  intro x hx
  simp [hFM x hx]

/-- the flagged candidates of a first occurrence: its further master occurrences, then the sources -/
def candsFl_ms3 (FM A : List Obj) : List (Bool × Obj) :=
  FM.map (fun x => (true, x)) ++ A.map (fun (o : Obj) => (false, o))

theorem candsFl_snd_ms3 (FM A : List Obj) : (candsFl_ms3 FM A).map (fun p => p.2) = FM ++ A := by
  unfold candsFl_ms3
  rw [List.map_append, List.map_map, List.map_map]
  show List.map id FM ++ List.map id A = _
  rw [List.map_id, List.map_id]

theorem candsFl_used_ms3 (u : Obj → List Nat) (FM A : List Obj) :
    ((candsFl_ms3 FM A).map (fun fm => (if fm.1 then [] else u fm.2 : List Nat))).flatten = A.flatMap u := by
  unfold candsFl_ms3
  rw [List.map_append, List.flatten_append, List.map_map, List.map_map]
  have h1 : (List.map ((fun (fm : Bool × Obj) => (if fm.1 then [] else u fm.2 : List Nat)) ∘ fun x => (true, x)) FM).flatten = [] := by
    induction FM with
    | nil => rfl
    | cons a l ih => rw [List.map_cons, List.flatten_cons, ih]; rfl
  rw [h1, List.nil_append, List.flatMap_def]
  rfl

/-- **the step of the master loop for a `.multiple` master DEFINITION with further master
    occurrences `FM`**: the list rule over `FM` followed by the enabled source definitions of its name;
    only the sources are marked — or the clash error if one of them is a scope -/
theorem stepG_multi_ms3 (F : FetchFn) (e : Envs) (fuel : Nat) (sm : Meta)
    (mkids combined : List Obj) (st : List Obj × List Nat) (idx : Nat) (mm : Meta) (mws : List Word)
    (FM : List Obj)
    (hp : DefnMeta mm) (hmult : isMultiple (.defn mm mws) = true)
    (hfm : fromMasterOf mkids idx (.defn mm mws) = FM.map (fun x => (true, x)))
    (hFM : ∀ x ∈ FM, x.meta.disabled = false ∧ x.name = mm.name)
    (hmatch : fetchMatching fuel sm combined (.defn mm mws) = activeNamed mm.name combined)
    (hsrc : ∀ o ∈ FM ++ combined, o.meta.disabled = false → o.isDefn = true → SrcOK o)
    (hkeys : KeysDefined e 0 (.defn mm mws) (defsNamed mm.name (FM ++ combined))) :
    stepG F e fuel false sm mkids combined st (idx, .defn mm mws) =
      if ms2NoClashObj (.defn mm mws) (FM ++ combined) then
        .ok (st.1 ++ ms2Block e (.defn mm mws) (FM ++ combined), st.2 ++ ms2UsedObj (.defn mm mws) combined)
      else .error incompatibleErr := by
  obtain ⟨⟨k0, hk0⟩, hcand⟩ := keysDefined_fuel_tm e fuel mm mws _ hkeys
  have hstep : stepG F e fuel false sm mkids combined st (idx, .defn mm mws) =
      multiBranch F e fuel false mkids idx (.defn mm mws) (activeNamed mm.name combined) st.1 st.2 := by
    unfold stepG
    simp only [hmult, Bool.not_true, Bool.false_eq_true, if_false]
    rw [hmatch]
  have han := activeNamed_append_ms3 mm.name FM combined hFM
  -- a candidate that is a definition is linked
  have hlink : ∀ fm ∈ candsFl_ms3 FM (activeNamed mm.name combined), fm.2.isDefn = true →
      GLinkB F e fuel (.defn mm mws) fm
        (candOfSrc (.defn mm mws) fm.2, keyOf e 0 (.defn mm mws) (candOfSrc (.defn mm mws) fm.2),
          if fm.1 then [] else marksOf fm.2) := by
    intro fm hfmem hdef
    have hmem : fm.2 ∈ activeNamed mm.name (FM ++ combined) := by
      rw [han, ← candsFl_snd_ms3]; exact List.mem_map.mpr ⟨fm, hfmem, rfl⟩
    have hm' := mem_activeNamed.mp hmem
    obtain ⟨b, d⟩ := fm
    cases d with
    | scope m k => cases hdef
    | defn dm dws =>
      obtain ⟨k, hk⟩ := hcand (.defn dm dws) (mem_defsNamed.mpr ⟨hm'.1, rfl, hm'.2.1, hm'.2.2⟩)
      refine ⟨?_, ?_⟩
      · show candOf F e fuel false (.defn mm mws) b (.defn dm dws) = _
        rw [candOf_defn_flag_ms3, fetchValue_defnMeta mm mws dm dws hp (hsrc _ hm'.1 hm'.2.1 rfl)]
        rfl
      · show extractFormatStr e (fuel + 64) (.defn mm mws) (candOfSrc (.defn mm mws) (.defn dm dws)) = .ok _
        rw [← keyOf_cand_fuel_tm e fuel, keyOf_ok hk]; exact hk
  rw [hstep, ms2NoClashObj, ms2Block, ms2UsedObj, tmBlock]
  simp only [hmult, if_true]
  cases hsc : scopesNamed mm.name (FM ++ combined) with
  | nil =>
    simp only [List.isEmpty_nil, if_true]
    have hdn : defsNamed mm.name (FM ++ combined) = FM ++ activeNamed mm.name combined := by
      rw [← activeNamed_eq_defsNamed _ _ hsc, han]
    have hsc2 : scopesNamed mm.name combined = [] := by
      unfold scopesNamed at hsc ⊢
      rw [List.filter_append, List.append_eq_nil_iff] at hsc
      exact hsc.2
    have hdn2 : activeNamed mm.name combined = defsNamed mm.name combined :=
      activeNamed_eq_defsNamed _ _ hsc2
    have hl : Forall2 (GLinkB F e fuel (.defn mm mws))
        (fromMasterOf mkids idx (.defn mm mws) ++ (activeNamed mm.name combined).map (fun (o : Obj) => (false, o)))
        ((candsFl_ms3 FM (activeNamed mm.name combined)).map (fun fm =>
          (candOfSrc (.defn mm mws) fm.2, keyOf e 0 (.defn mm mws) (candOfSrc (.defn mm mws) fm.2),
            (if fm.1 then [] else marksOf fm.2 : List Nat)))) := by
      rw [hfm]
      apply forall2_map
      intro fm hfmem
      apply hlink fm hfmem
      have : fm.2 ∈ defsNamed mm.name (FM ++ combined) := by
        rw [hdn, ← candsFl_snd_ms3]; exact List.mem_map.mpr ⟨fm, hfmem, rfl⟩
      exact (mem_defsNamed.mp this).2.1
    rw [multiBranch_defn_ms3 F e fuel mkids idx mm mws k0 _ _ st.1 st.2 hk0 hl]
    congr 2
    · congr 1
      rw [← keyOf_self_fuel_tm e fuel, keyOf_ok hk0, List.map_map, hdn, ← candsFl_snd_ms3]
      unfold candsOf
      rw [List.map_map]
      rfl
    · congr 1
      rw [List.flatMap_def, List.map_map, ← hdn2]
      exact candsFl_used_ms3 marksOf FM (activeNamed mm.name combined)
  | cons sc rest =>
    simp only [List.isEmpty_cons, Bool.false_eq_true, if_false]
    have hmem : sc ∈ scopesNamed mm.name (FM ++ combined) := by rw [hsc]; exact List.mem_cons_self
    have hs := mem_scopesNamed.mp hmem
    have hact : sc ∈ FM ++ activeNamed mm.name combined := by
      rw [← han]; exact mem_activeNamed.mpr ⟨hs.1, hs.2.2.1, hs.2.2.2⟩
    rw [← candsFl_snd_ms3] at hact
    obtain ⟨fm, hfmem, hfm2⟩ := List.mem_map.mp hact
    unfold multiBranch
    rw [masterKeyG_defn, hk0, hfm]
    simp only
    rw [foldlM_error_of_mem (cstepG F e fuel false (.defn mm mws) k0) incompatibleErr]
    · intro a ha b
      obtain ⟨fl, o⟩ := a
      cases o with
      | scope m' k' => exact .inr (cstepG_defn_scope_ms3 F e fuel mm mws k0 fl m' k' b)
      | defn dm dws => exact .inl (cstepG_glinkB_ok_ms3 F e fuel _ k0 _ _ (hlink _ ha rfl) b)
    · obtain ⟨fl, o⟩ := fm
      simp only at hfm2
      subst hfm2
      cases o with
      | defn m ws => cases hs.2.1
      | scope m k =>
        exact ⟨(fl, .scope m k), hfmem, fun b => cstepG_defn_scope_ms3 F e fuel mm mws k0 fl m k b⟩

theorem candOf_scope_flag_ok_ms3 (F : FetchFn) (e : Envs) (fuel : Nat) (mm : Meta) (kids : List Obj)
    (b : Bool) (m' : Meta) (sk : List Obj) (ro : Obj) (u : List Nat) (h : F false mm kids sk = .ok (ro, u)) :
    candOf F e fuel false (.scope mm kids) b (.scope m' sk) = .ok (some ro, if b then [] else u) := by
  unfold candOf
  simp only [h]
  rfl

theorem cstepG_scope_flag_err_ms3 (F : FetchFn) (e : Envs) (fuel : Nat) (mm : Meta) (kids : List Obj) (k0 : Str)
    (b : Bool) (m' : Meta) (sk : List Obj) (E : Err) (h : F false mm kids sk = .error E) (acc : CAcc) :
    cstepG F e fuel false (.scope mm kids) k0 acc (b, .scope m' sk) = .error E := by
  unfold cstepG candOf
  simp only [h]
  rfl

theorem keyMS_ok_ms3 {e : Envs} {mm : Meta} {kids : List Obj} {c : Obj} {k : Str}
    (h : extractFormatStr e (depthL kids + 1 + 64) (.scope mm kids) c = .ok k) :
    keyMS e (.scope mm kids) c = k := keyMS_ok h

/-- **the step of the master loop for a `.multiple` master SCOPE with further master occurrences
    `FM`**: the list rule over the enabled scopes of its name among `FM ++ sources`, each instance
    fetched by the callee from ONE block; only the instances built from sources mark ids — or the
    clash error -/
theorem stepG_multiscope_ms3 (F : FetchFn) (e : Envs) (fuel : Nat) (sm : Meta)
    (mkids combined : List Obj) (st : List Obj × List Nat) (idx : Nat) (mm : Meta) (kids : List Obj)
    (FM : List Obj)
    (hmult : (mm.attrs.get "multiple").truthy = true)
    (hfm : fromMasterOf mkids idx (.scope mm kids) = FM.map (fun x => (true, x)))
    (hFM : ∀ x ∈ FM, x.meta.disabled = false ∧ x.name = mm.name)
    (hmatch : fetchMatching fuel sm combined (.scope mm kids) = activeNamed mm.name combined)
    (hdep : depthL kids + 1 ≤ fuel)
    (hF0 : F false mm kids [] =
      if ms2NoClash [] kids [] then .ok (ms2Cand e mm kids [], ms2Used [] kids [])
      else .error incompatibleErr)
    (hF : ∀ s ∈ scopesNamed mm.name (FM ++ combined), F false mm kids s.children =
      if ms2NoClash [] kids s.children then .ok (ms2Cand e mm kids s.children, ms2Used [] kids s.children)
      else .error incompatibleErr)
    (hk0 : ∃ k, extractFormatStr e (depthL kids + 1 + 64) (.scope mm kids) (ms2Cand e mm kids []) = .ok k)
    (hk : ∀ s ∈ scopesNamed mm.name (FM ++ combined),
      ∃ k, extractFormatStr e (depthL kids + 1 + 64) (.scope mm kids) (ms2Cand e mm kids s.children) = .ok k) :
    stepG F e fuel false sm mkids combined st (idx, .scope mm kids) =
      if ms2NoClashObj (.scope mm kids) (FM ++ combined) then
        .ok (st.1 ++ ms2Block e (.scope mm kids) (FM ++ combined), st.2 ++ ms2UsedObj (.scope mm kids) combined)
      else .error incompatibleErr := by
  have hm : isMultiple (.scope mm kids) = true := hmult
  obtain ⟨k0, hk0⟩ := hk0
  have hk0' : extractFormatStr e (fuel + 64) (.scope mm kids) (ms2Cand e mm kids []) = .ok k0 := by
    rw [extractFormatStr_cand_fuel_ms3 e fuel mm kids [] hdep]; exact hk0
  have hstep : stepG F e fuel false sm mkids combined st (idx, .scope mm kids) =
      multiBranch F e fuel false mkids idx (.scope mm kids) (activeNamed mm.name combined) st.1 st.2 := by
    unfold stepG
    simp only [hm, Bool.not_true, Bool.false_eq_true, if_false]
    rw [hmatch]
  have han := activeNamed_append_ms3 mm.name FM combined hFM
  rw [hstep, ms2NoClashObj, ms2Block, ms2UsedObj]
  simp only [hmult, if_true]
  cases hnc0 : ms2NoClash [] kids [] with
  | false =>
    simp only [Bool.false_and, Bool.and_false, Bool.false_eq_true, if_false]
    rw [hnc0] at hF0
    unfold multiBranch
    rw [masterKeyG_scope, hF0]
    rfl
  | true =>
  rw [hnc0] at hF0
  simp only [if_true] at hF0
  simp only [Bool.true_and]
  -- a candidate scope that does not clash is linked to its instance
  have hlink : ∀ fm ∈ candsFl_ms3 FM (activeNamed mm.name combined), fm.2.isDefn = false →
      ms2NoClash [] kids fm.2.children = true →
      GLinkB F e fuel (.scope mm kids) fm
        (ms2Cand e mm kids fm.2.children, keyMS e (.scope mm kids) (ms2Cand e mm kids fm.2.children),
          if fm.1 then [] else ms2Used [] kids fm.2.children) := by
    intro fm hfmem hdef hnc
    have hmem : fm.2 ∈ activeNamed mm.name (FM ++ combined) := by
      rw [han, ← candsFl_snd_ms3]; exact List.mem_map.mpr ⟨fm, hfmem, rfl⟩
    have hm' := mem_activeNamed.mp hmem
    have hs : fm.2 ∈ scopesNamed mm.name (FM ++ combined) := mem_scopesNamed.mpr ⟨hm'.1, hdef, hm'.2.1, hm'.2.2⟩
    have hF' := hF _ hs
    rw [hnc] at hF'
    simp only [if_true] at hF'
    obtain ⟨k, hk'⟩ := hk _ hs
    obtain ⟨b, s⟩ := fm
    cases s with
    | defn m ws => cases hdef
    | scope m' sk =>
      refine ⟨candOf_scope_flag_ok_ms3 F e fuel mm kids b m' sk _ _ hF', ?_⟩
      show extractFormatStr e (fuel + 64) (.scope mm kids) (ms2Cand e mm kids sk) = .ok _
      rw [extractFormatStr_cand_fuel_ms3 e fuel mm kids sk hdep, keyMS_ok hk']
      exact hk'
  have hsteps : ∀ a ∈ candsFl_ms3 FM (activeNamed mm.name combined), ∀ b,
      (∃ b', cstepG F e fuel false (.scope mm kids) k0 b a = .ok b') ∨
        cstepG F e fuel false (.scope mm kids) k0 b a = .error incompatibleErr := by
    intro a ha b
    have hmem : a.2 ∈ activeNamed mm.name (FM ++ combined) := by
      rw [han, ← candsFl_snd_ms3]; exact List.mem_map.mpr ⟨a, ha, rfl⟩
    have hm' := mem_activeNamed.mp hmem
    obtain ⟨fl, o⟩ := a
    cases o with
    | defn dm dws => exact .inr (cstepG_scope_defn_ms3 F e fuel mm kids k0 fl dm dws b)
    | scope m' sk =>
      cases hnc : ms2NoClash [] kids sk with
      | true => exact .inl (cstepG_glinkB_ok_ms3 F e fuel _ k0 _ _ (hlink _ ha rfl hnc) b)
      | false =>
        have hs : Obj.scope m' sk ∈ scopesNamed mm.name (FM ++ combined) :=
          mem_scopesNamed.mpr ⟨hm'.1, rfl, hm'.2.1, hm'.2.2⟩
        have hF' := hF _ hs
        simp only [Obj.children, hnc, Bool.false_eq_true, if_false] at hF'
        exact .inr (cstepG_scope_flag_err_ms3 F e fuel mm kids k0 fl m' sk _ hF' b)
  have herr : (∃ a ∈ candsFl_ms3 FM (activeNamed mm.name combined), ∀ b,
      cstepG F e fuel false (.scope mm kids) k0 b a = .error incompatibleErr) →
      multiBranch F e fuel false mkids idx (.scope mm kids) (activeNamed mm.name combined) st.1 st.2 =
        .error incompatibleErr := by
    intro hbad
    unfold multiBranch
    rw [masterKeyG_scope, hF0]
    simp only
    rw [hk0', hfm]
    simp only
    have hfold := foldlM_error_of_mem (cstepG F e fuel false (.scope mm kids) k0) incompatibleErr _ hsteps hbad
      (([] : List (Option Obj)), ([] : List (Str × Int)), st.2)
    unfold candsFl_ms3 at hfold
    rw [hfold]
  -- every member of `FM ++ active sources` is a candidate with some flag
  have hcover : ∀ o ∈ activeNamed mm.name (FM ++ combined), ∃ fl, (fl, o) ∈ candsFl_ms3 FM (activeNamed mm.name combined) := by
    intro o ho
    rw [han, ← candsFl_snd_ms3] at ho
    obtain ⟨fm, hfmem, rfl⟩ := List.mem_map.mp ho
    exact ⟨fm.1, hfmem⟩
  cases hdn : defsNamed mm.name (FM ++ combined) with
  | cons d rest =>
    simp only [List.isEmpty_cons, Bool.false_and, Bool.false_eq_true, if_false]
    apply herr
    have hd : d ∈ defsNamed mm.name (FM ++ combined) := by rw [hdn]; exact List.mem_cons_self
    have hd' := mem_defsNamed.mp hd
    obtain ⟨fl, hfl⟩ := hcover d (mem_activeNamed.mpr ⟨hd'.1, hd'.2.2.1, hd'.2.2.2⟩)
    cases d with
    | scope m k => cases hd'.2.1
    | defn dm dws =>
      exact ⟨(fl, .defn dm dws), hfl, fun b => cstepG_scope_defn_ms3 F e fuel mm kids k0 fl dm dws b⟩
  | nil =>
    simp only [List.isEmpty_nil, Bool.true_and]
    have hact := activeNamed_eq_scopesNamed_ms mm.name (FM ++ combined) hdn
    have hdn2 : defsNamed mm.name combined = [] := by
      unfold defsNamed at hdn ⊢
      rw [List.filter_append, List.append_eq_nil_iff] at hdn
      exact hdn.2
    have hact2 := activeNamed_eq_scopesNamed_ms mm.name combined hdn2
    cases hall : (scopesNamed mm.name (FM ++ combined)).all (fun s => ms2NoClash [] kids s.children) with
    | false =>
      simp only [Bool.false_eq_true, if_false]
      apply herr
      rw [List.all_eq_false] at hall
      obtain ⟨s, hs, hnc⟩ := hall
      have hnc' : ms2NoClash [] kids s.children = false := by simpa using hnc
      have hsc := (mem_scopesNamed.mp hs).2.1
      obtain ⟨fl, hfl⟩ := hcover s (by rw [hact]; exact hs)
      cases s with
      | defn m ws => cases hsc
      | scope m' sk =>
        have hF' := hF _ hs
        simp only [Obj.children] at hnc'
        simp only [Obj.children, hnc', Bool.false_eq_true, if_false] at hF'
        exact ⟨(fl, .scope m' sk), hfl,
          fun b => cstepG_scope_flag_err_ms3 F e fuel mm kids k0 fl m' sk _ hF' b⟩
    | true =>
      simp only [if_true]
      rw [List.all_eq_true] at hall
      have hl : Forall2 (GLinkB F e fuel (.scope mm kids))
          (fromMasterOf mkids idx (.scope mm kids) ++ (activeNamed mm.name combined).map (fun (o : Obj) => (false, o)))
          ((candsFl_ms3 FM (activeNamed mm.name combined)).map (fun fm =>
            (ms2Cand e mm kids fm.2.children, keyMS e (.scope mm kids) (ms2Cand e mm kids fm.2.children),
              (if fm.1 then [] else ms2Used [] kids fm.2.children : List Nat)))) := by
        rw [hfm]
        apply forall2_map
        intro fm hfmem
        have hs : fm.2 ∈ scopesNamed mm.name (FM ++ combined) := by
          rw [← hact, han, ← candsFl_snd_ms3]; exact List.mem_map.mpr ⟨fm, hfmem, rfl⟩
        exact hlink fm hfmem (mem_scopesNamed.mp hs).2.1 (hall _ hs)
      rw [multiBranch_scope_ms3 F e fuel mkids idx mm kids _ _ k0 _ _ st.1 st.2 hF0 hk0' hl]
      congr 2
      · congr 1
        rw [keyMS_ok hk0, List.map_map, ← hact, han, ← candsFl_snd_ms3, List.map_map]
        rfl
      · congr 1
        rw [List.flatMap_def, List.map_map, ← hact2]
        exact candsFl_used_ms3 (fun s => ms2Used [] kids s.children) FM (activeNamed mm.name combined)

/-- the step for a non-multiple master scope (a single occurrence), given the callee on the next level -/
theorem stepG_scope_ms3 (F : FetchFn) (e : Envs) (fuel : Nat) (sm : Meta)
    (mkids combined : List Obj) (st : List Obj × List Nat) (idx : Nat) (mm : Meta) (kids : List Obj)
    (hmult : (mm.attrs.get "multiple").truthy = false)
    (hmatch : fetchMatching fuel sm combined (.scope mm kids) = activeNamed mm.name combined)
    (hF : F false mm kids (srcStep combined mm.name) =
      if ms2NoClash [] kids (srcStep combined mm.name) then
        .ok (ms2Cand e mm kids (srcStep combined mm.name), ms2Used [] kids (srcStep combined mm.name))
      else .error incompatibleErr) :
    stepG F e fuel false sm mkids combined st (idx, .scope mm kids) =
      if ms2NoClashObj (.scope mm kids) combined then
        .ok (st.1 ++ ms2Block e (.scope mm kids) combined, st.2 ++ ms2UsedObj (.scope mm kids) combined)
      else .error incompatibleErr := by
  have hm : isMultiple (.scope mm kids) = false := hmult
  have hstep : stepG F e fuel false sm mkids combined st (idx, .scope mm kids) =
      scopeBranch F false mm kids (activeNamed mm.name combined) st.1 st.2 := by
    unfold stepG
    simp only [hm, Bool.not_false, if_true]
    rw [hmatch]
  rw [hstep, ms2NoClashObj, ms2Block, ms2UsedObj]
  simp only [hmult, Bool.false_eq_true, if_false]
  unfold scopeBranch
  cases hdn : defsNamed mm.name combined with
  | nil =>
    rw [find_isDefn_activeNamed_none _ _ hdn, activeNamed_children_tree, hF]
    simp only [List.isEmpty_nil, Bool.true_and]
    cases ms2NoClash [] kids (srcStep combined mm.name) with
    | true => simp
    | false => simp
  | cons d rest =>
    obtain ⟨x, hx⟩ := find_isDefn_activeNamed_some mm.name combined (by rw [hdn]; exact List.cons_ne_nil _ _)
    rw [hx]
    simp only [List.isEmpty_cons, Bool.false_and, Bool.false_eq_true, if_false]
    rfl

/-! ## 5. the whole fetch -/

theorem fromMasterOf_flags_ms3 (mkids : List Obj) (idx : Nat) (mo : Obj) :
    fromMasterOf mkids idx mo = ((fromMasterOf mkids idx mo).map (fun p => p.2)).map (fun x => (true, x)) := by
  unfold fromMasterOf
  rw [List.map_map, List.map_map]
  rfl

/-- **closed form of the fetch of a nested master with further master occurrences of `.multiple`
    objects** (non-diff mode): on `MSMaster2`, with fuel beyond the nesting depth, variable-free master
    definitions (`SrcTree mkids`: the further occurrences are read like sources) and defined keys, the
    fetch succeeds exactly when there is no clash of kinds (`ms2NoClash`); its result is `ms2Result`,
    the consumed ids are `ms2Used`; a clash makes it fail with RuntimeError ("incompatible"). -/
theorem fetch_ms2_total (e : Envs) : ∀ (fuel : Nat) (sm : Meta) (mkids srcs : List Obj),
    MSMaster2 mkids → depthL mkids < fuel → sm.disabled = false → SrcTree srcs → SrcTree mkids →
    KeysDefinedMS2 e [] mkids srcs →
    fetchScope e fuel false sm mkids srcs =
      if ms2NoClash [] mkids srcs then
        .ok (.scope { sm with tmpl := 0 } (ms2Result e [] mkids srcs), ms2Used [] mkids srcs)
      else .error incompatibleErr := by
  intro fuel
  induction fuel with
  | zero => intro sm mkids srcs _ hd; exact absurd hd (Nat.not_lt_zero _)
  | succ fuel ih =>
    intro sm mkids srcs hf hdepth hsd hsrc hmsrc hkeys
    rw [fetchScope_succ, masterActive_ms3 mkids hf.firsts]
    simp only
    have hsc : ∀ m kids, Obj.scope m kids ∈ srcs → m.disabled = false → m.name ≠ [] :=
      fun m kids hm hd => hsrc.named m kids (.here hm hd)
    let φ : Nat × Obj → Obj × List Obj :=
      fun io => (io.2, (fromMasterOf mkids io.1 io.2).map (fun p => p.2))
    have hφ : (firstsIdx_ms3 0 [] mkids).map φ = firstsT_ms3 [] mkids := firstsT_of_idx0_ms3 mkids
    rw [foldlM_cond_tree _ (fun io => ms2NoClashObj (φ io).1 ((φ io).2 ++ srcs))
      (fun io => ms2Block e (φ io).1 ((φ io).2 ++ srcs))
      (fun io => ms2UsedObj (φ io).1 srcs) incompatibleErr]
    · have hall : (firstsIdx_ms3 0 [] mkids).all (fun io => ms2NoClashObj (φ io).1 ((φ io).2 ++ srcs)) =
          ms2NoClash [] mkids srcs := by
        rw [ms2NoClash_eq_all_ms3, ← hφ, List.all_map]
        rfl
      rw [hall]
      cases ms2NoClash [] mkids srcs with
      | false => rfl
      | true =>
        simp only [if_true, List.nil_append]
        unfold fetchFinish
        have h1 : (firstsIdx_ms3 0 [] mkids).flatMap (fun io => ms2Block e (φ io).1 ((φ io).2 ++ srcs)) =
            ms2Result e [] mkids srcs := by
          rw [ms2Result_eq_flatMap_ms3, ← hφ, List.flatMap_map]
        have h2 : (firstsIdx_ms3 0 [] mkids).flatMap (fun io => ms2UsedObj (φ io).1 srcs) =
            ms2Used [] mkids srcs := by
          rw [ms2Used_eq_flatMap_ms3, ← hφ, List.flatMap_map]
        rw [h1, h2]
    · intro st a ha
      have hpa : φ a ∈ firstsT_ms3 [] mkids := by rw [← hφ]; exact List.mem_map.mpr ⟨a, ha, rfl⟩
      obtain ⟨hmem, hen, hFMmem⟩ := mem_firstsT_ms3 mkids [] _ hpa
      have hko := hkeys.obj _ hpa
      have hnm := firstsT_nonmulti_ms3 mkids [] [] (fun n => rfl) hf.firsts _ hpa
      have hfl := fromMasterOf_flags_ms3 mkids a.1 a.2
      obtain ⟨i, mo⟩ := a
      simp only [φ] at hmem hen hFMmem hko hnm hfl ⊢
      generalize hFMdef : (fromMasterOf mkids i mo).map (fun p => p.2) = FM at hFMmem hko hnm hfl ⊢
      have hto := hf.obj _ hmem
      have hmatch := fetchMatching_tree fuel sm srcs mo hsd hto.name_ne hto.dotfree hsc
      have hFM : ∀ x ∈ FM, x.meta.disabled = false ∧ x.name = mo.name := fun x hx => (hFMmem x hx).2
      have hok : ∀ o ∈ FM ++ srcs, o.meta.disabled = false → o.isDefn = true → SrcOK o := by
        intro o ho hd hdef
        rw [List.mem_append] at ho
        rcases ho with ho | ho
        · exact hmsrc.ok o (.here (hFMmem o ho).1 hd) hdef
        · exact hsrc.ok o (.here ho hd) hdef
      cases mo with
      | defn mm mws =>
        rw [MS2Obj] at hto
        rw [KeysDefinedMS2Obj] at hko
        cases hmult : isMultiple (.defn mm mws) with
        | false =>
          rw [hnm hmult, List.nil_append]
          have hok' : ∀ o ∈ srcs, o.meta.disabled = false → o.isDefn = true → SrcOK o :=
            fun o ho => hok o (List.mem_append_right _ ho)
          rw [ms2NoClashObj, ms2Block, ms2UsedObj, ← noClashObj, ← treeUsedObj]
          exact stepG_plain_tm _ e fuel sm mkids srcs st i mm mws hto.1 hmult hmatch hok'
        | true =>
          exact stepG_multi_ms3 _ e fuel sm mkids srcs st i mm mws FM hto.1 hmult hfl hFM hmatch hok (hko hmult)
      | scope mm kids =>
        have hkids := MSMaster2.of_scope hto
        have hd1 := depthT_le_depthL mkids _ hmem
        rw [depthT] at hd1
        have hmk : SrcTree kids := hmsrc.child_ms hmem hen
        rw [KeysDefinedMS2Obj] at hko
        cases hmult : (mm.attrs.get "multiple").truthy with
        | false =>
          have hFMnil : FM = [] := hnm hmult
          subst hFMnil
          simp only [hmult, Bool.false_eq_true, if_false, List.nil_append] at hko ⊢
          exact stepG_scope_ms3 _ e fuel sm mkids srcs st i mm kids hmult hmatch
            (ih mm kids (srcStep srcs mm.name) hkids (by omega) hen (hsrc.step mm.name) hmk hko)
        | true =>
          simp only [hmult, if_true] at hko
          have h0 := ih mm kids [] hkids (by omega) hen SrcTree.nil_ms hmk hko.1
          refine stepG_multiscope_ms3 _ e fuel sm mkids srcs st i mm kids FM hmult hfl hFM hmatch
            (by omega) h0 ?_ hko.2.1 (fun s hs => (hko.2.2 s hs).2)
          intro s hs
          have hs' := mem_scopesNamed.mp hs
          have hst : SrcTree s.children := by
            rcases List.mem_append.mp hs'.1 with h | h
            · exact hmsrc.child_ms (hFMmem s h).1 hs'.2.2.1
            · exact hsrc.child_ms h hs'.2.2.1
          exact ih mm kids s.children hkids (by omega) hen hst hmk (hko.2.2 s hs).1

/-- a successful fetch returns the specification -/
theorem fetch_ms2_ok (e : Envs) (fuel : Nat) (sm : Meta) (mkids srcs : List Obj)
    (hf : MSMaster2 mkids) (hfuel : depthL mkids + 1 ≤ fuel) (hsd : sm.disabled = false)
    (hsrc : SrcTree srcs) (hmsrc : SrcTree mkids) (hkeys : KeysDefinedMS2 e [] mkids srcs)
    (ro : Obj) (used : List Nat) (h : fetchScope e fuel false sm mkids srcs = .ok (ro, used)) :
    ms2NoClash [] mkids srcs = true ∧ ro = .scope { sm with tmpl := 0 } (ms2Result e [] mkids srcs) ∧
      used = ms2Used [] mkids srcs := by
  rw [fetch_ms2_total e fuel sm mkids srcs hf hfuel hsd hsrc hmsrc hkeys] at h
  cases hnc : ms2NoClash [] mkids srcs with
  | false => rw [hnc] at h; cases h
  | true =>
    rw [hnc] at h
    simp only [if_true] at h
    cases h
    exact ⟨rfl, rfl, rfl⟩

/-- **`master.fetch(sources)`** on parsed roots: the fuel `fetchRoot` computes is adequate -/
theorem fetchRoot_ms2 (e : Envs) (master : List Obj) (ss : List (List Obj))
    (hf : MSMaster2 master) (hd : depthL master ≤ 1000) (hsrc : SrcTree ss.flatten)
    (hmsrc : SrcTree master) (hkeys : KeysDefinedMS2 e [] master ss.flatten) :
    fetchRoot e false master ss =
      if ms2NoClash [] master ss.flatten then
        .ok (.scope { name := [], id := some 0 } (ms2Result e [] master ss.flatten), ms2Used [] master ss.flatten)
      else .error incompatibleErr :=
  fetch_ms2_total e _ _ master ss.flatten hf (fetchRoot_fuel_tree master hd) rfl hsrc hmsrc hkeys

/-! ## 6. executable side conditions; the members of a block; the list rule spelled out -/

theorem ms2Obj_of_activeIn {mo : Obj} {l : List Obj} (h : ActiveIn mo l) : MS2Kids l → MS2Obj mo := by
  induction h with
  | here hm _ => intro ht; exact (ms2Kids_iff _).mp ht _ hm
  | deeper hm _ _ ih =>
    intro ht
    exact ih (MSMaster2.of_scope ((ms2Kids_iff _).mp ht _ hm)).kids

/-- a parsed, variable-free `MSMaster2` can be read as a source tree (its further occurrences are) -/
theorem srcTree_of_refetch_ms2 (mkids : List Obj) (hf : MSMaster2 mkids) (hr : RefetchTree mkids) :
    SrcTree mkids :=
  ⟨fun x hx hdef => SrcOK.of_none (hr x hx hdef).2.1 (hr x hx hdef).2.2,
   fun m kids hx => (ms2Obj_of_activeIn hx hf.kids).name_ne⟩

/-- executable form of the master-side side conditions: an `MSMaster2` nested at most 1000 deep, no
    definition called `include`, definitions not template-marked and variable-free -/
def masterCheck_ms2 (mkids : List Obj) : Bool :=
  ms2MasterB mkids && decide (depthL mkids ≤ 1000) &&
    allActive (fun d => !d.isDefn ||
      (d.name != "include".toList && d.meta.tmpl == 0 && d.meta.varRes.isNone && !hasDollar d.words)) mkids

structure MasterOK_ms2 (mkids : List Obj) : Prop where
  tree : MSMaster2 mkids
  depth : depthL mkids ≤ 1000
  noInclude : NoIncludeTree mkids
  refetch : RefetchTree mkids
  srcTree : SrcTree mkids

theorem masterCheck_ms2_sound (mkids : List Obj) (h : masterCheck_ms2 mkids = true) : MasterOK_ms2 mkids := by
  unfold masterCheck_ms2 at h
  simp only [Bool.and_eq_true, decide_eq_true_eq] at h
  have ht := ms2MasterB_sound mkids h.1.1
  have hr : RefetchTree mkids := by
    intro d hd hdef
    have := allActive_sound _ hd h.2
    simp only [hdef, Bool.not_true, Bool.false_or, Bool.and_eq_true, beq_iff_eq,
      Option.isNone_iff_eq_none, Bool.not_eq_true'] at this
    exact ⟨this.1.1.2, this.1.2, this.2⟩
  refine ⟨ht, h.1.2, ?_, hr, srcTree_of_refetch_ms2 mkids ht hr⟩
  intro d hd hdef
  have := allActive_sound _ hd h.2
  simp only [hdef, Bool.not_true, Bool.false_or, Bool.and_eq_true, bne_iff_ne, ne_eq] at this
  exact this.1.1.1

/-- every object of the block of `mo` is a copy of `mo` as far as name, kind, the disabled flag and the
    attributes go -/
theorem ms2Block_member_ms3 (e : Envs) : ∀ (mo : Obj) (cands : List Obj), ∀ o ∈ ms2Block e mo cands,
    o.name = mo.name ∧ o.meta.disabled = mo.meta.disabled ∧ o.isDefn = mo.isDefn ∧
      o.meta.attrs = mo.meta.attrs
  | .defn mm mws, cands, o, ho => by
    rw [ms2Block, ← msBlock] at ho
    have h := msBlock_member_ms e _ cands o ho
    exact ⟨h.1, h.2.1, h.2.2, msBlock_member_attrs_ms e _ cands o ho⟩
  | .scope mm kids, cands, o, ho => by
    rw [ms2Block] at ho
    split at ho
    · rcases mem_msMultiBlock ho with rfl | ⟨t, rfl⟩ | ⟨x, hx, rfl⟩
      · exact ⟨rfl, rfl, rfl, rfl⟩
      · exact ⟨rfl, rfl, rfl, rfl⟩
      · obtain ⟨s, _, rfl⟩ := List.mem_map.mp hx
        exact ⟨rfl, rfl, rfl, rfl⟩
    · rw [List.mem_singleton] at ho
      subst ho
      exact ⟨rfl, rfl, rfl, rfl⟩

theorem scopesNamed_cands_ms3 (n : Str) (rest srcs : List Obj) :
    scopesNamed n (activeNamed n rest ++ srcs) = scopesNamed n rest ++ scopesNamed n srcs := by
  unfold scopesNamed activeNamed
  rw [List.filter_append, List.filter_filter]
  congr 1
  apply List.filter_congr
  intro o _
  cases o.isScope <;> cases o.meta.disabled <;> cases (o.name == n) <;> rfl

theorem defsNamed_cands_ms3 (n : Str) (rest srcs : List Obj) :
    defsNamed n (activeNamed n rest ++ srcs) = defsNamed n rest ++ defsNamed n srcs := by
  unfold defsNamed activeNamed
  rw [List.filter_append, List.filter_filter]
  congr 1
  apply List.filter_congr
  intro o _
  cases o.isDefn <;> cases o.meta.disabled <;> cases (o.name == n) <;> rfl

/-! ### the class extends `MSMaster` -/

theorem firstsOK_of_distinct_ms3 : ∀ (l : List Obj) (seenP : List (Str × Bool)),
    (∀ o ∈ l, seenP.find? (fun p => p.1 == o.name) = none) → (l.map Obj.name).Pairwise (· ≠ ·) →
    firstsOK_ms2 seenP l = true := by
  intro l
  induction l with
  | nil => intro _ _ _; rw [firstsOK_ms2]
  | cons o os ih =>
    intro seenP hs hd
    rw [List.map_cons, List.pairwise_cons] at hd
    rw [firstsOK_ms2]
    split
    · exact ih seenP (fun x hx => hs x (List.mem_cons_of_mem _ hx)) hd.2
    · rw [hs o List.mem_cons_self]
      simp only
      apply ih _ _ hd.2
      intro x hx
      rw [List.find?_cons]
      have hne : o.name ≠ x.name := hd.1 _ (List.mem_map.mpr ⟨x, hx, rfl⟩)
      have hne' : (o.name == x.name) = false := by simpa using hne
      simp only [hne']
      exact hs x (List.mem_cons_of_mem _ hx)

mutual
theorem MSObj.toMS2 : ∀ {o : Obj}, MSObj o → MS2Obj o
  | .defn mm mws, h => by
    rw [MSObj] at h; rw [MS2Obj]
    exact ⟨h.1, h.2.1, h.2.2.1⟩
  | .scope mm kids, h => by
    rw [MSObj] at h; rw [MS2Obj]
    exact ⟨h.1, h.2.1, MSKids.toMS2 h.2.2.2.1,
      firstsOK_of_distinct_ms3 kids [] (fun _ _ => rfl) h.2.2.2.2⟩
theorem MSKids.toMS2 : ∀ {l : List Obj}, MSKids l → MS2Kids l
  | [], _ => by rw [MS2Kids]; trivial
  | o :: os, h => by
    rw [MSKids] at h; rw [MS2Kids]
    exact ⟨MSObj.toMS2 h.1, MSKids.toMS2 h.2⟩
end

/-- a master with one occurrence per name is a special case -/
theorem MSMaster.toMS2 {mkids : List Obj} (h : MSMaster mkids) : MSMaster2 mkids :=
  ⟨MSKids.toMS2 h.kids, firstsOK_of_distinct_ms3 mkids [] (fun _ _ => rfl) h.distinct⟩

/-! ## 7. C07: pure list facts about the list rule; the view of the result by name -/

theorem dedup_drop_prefix_ms3 {α : Type} : ∀ (X Y : List (α × Str)), (∀ x ∈ X, ∃ y ∈ Y, y.2 = x.2) →
    dedupKeepLast (X ++ Y) = dedupKeepLast Y
  | [], Y, _ => rfl
  | x :: X, Y, h => by
    rw [List.cons_append, dedupKeepLast]
    have hany : (X ++ Y).any (fun y => y.2 == x.2) = true := by
      obtain ⟨y, hy, hyx⟩ := h x List.mem_cons_self
      rw [List.any_eq_true]
      exact ⟨y, List.mem_append_right _ hy, by simpa using hyx⟩
    simp only [hany, if_true]
    exact dedup_drop_prefix_ms3 X Y (fun x' hx' => h x' (List.mem_cons_of_mem _ hx'))

theorem dedup_keys_ms3 {α : Type} : ∀ (Z : List (α × Str)), ∀ z ∈ Z, ∃ z' ∈ dedupKeepLast Z, z'.2 = z.2
  | [], z, hz => by cases hz
  | a :: Z, z, hz => by
    rw [dedupKeepLast]
    split
    · rename_i hany
      rw [List.mem_cons] at hz
      rcases hz with rfl | hz
      · rw [List.any_eq_true] at hany
        obtain ⟨y, hy, hya⟩ := hany
        obtain ⟨z', hz', hk⟩ := dedup_keys_ms3 Z y hy
        exact ⟨z', hz', by rw [hk]; simpa using hya⟩
      · exact dedup_keys_ms3 Z z hz
    · rw [List.mem_cons] at hz
      rcases hz with rfl | hz
      · exact ⟨_, List.mem_cons_self, rfl⟩
      · obtain ⟨z', hz', hk⟩ := dedup_keys_ms3 Z z hz
        exact ⟨z', List.mem_cons_of_mem _ hz', hk⟩

/-- **the list rule is a fixed point with leading master-provided candidates**: re-running it over the
    master-provided candidates `A`, the template (rendering `k0`) and the survivors gives the survivors -/
theorem listRule_refetch_ms3 (CK : Obj → Obj × Str) (k0 : Str) (T : Obj) (A Bs : List (Obj × Str))
    (hT : (CK T).2 = k0) (hfix : ∀ x ∈ A ++ Bs, CK x.1 = x) :
    dedupKeepLast ((A ++ (T :: (dedupKeepLast ((A ++ Bs).filter (fun y => y.2 != k0))).map (·.1)).map CK).filter
      (fun y => y.2 != k0)) = dedupKeepLast ((A ++ Bs).filter (fun y => y.2 != k0)) := by
  generalize hS : dedupKeepLast ((A ++ Bs).filter (fun y => y.2 != k0)) = S
  have hSmem : ∀ x ∈ S, x ∈ A ++ Bs ∧ (x.2 != k0) = true := by
    intro x hx
    rw [← hS] at hx
    exact List.mem_filter.mp ((dedupKeepLast_sublist _).subset hx)
  have hSmap : (S.map (·.1)).map CK = S := by
    rw [List.map_map]
    calc S.map _ = S.map id := by
          apply List.map_congr_left
          intro x hx
          exact hfix x (hSmem x hx).1
      _ = S := List.map_id _
  have hTk : ((CK T).2 != k0) = false := by rw [hT]; simp
  rw [List.map_cons, hSmap, List.filter_append, List.filter_cons]
  simp only [hTk, Bool.false_eq_true, if_false]
  rw [List.filter_eq_self.mpr (fun x hx => (hSmem x hx).2)]
  rw [dedup_drop_prefix_ms3, ← hS, dedupKeepLast_idem]
  intro x hx
  have hx' : x ∈ (A ++ Bs).filter (fun y => y.2 != k0) := by
    rw [List.filter_append]; exact List.mem_append_left _ hx
  rw [← hS]
  exact dedup_keys_ms3 _ x hx'

/-- the master's own candidates a second time (and the master itself, rendering `k0`) change nothing -/
theorem listRule_self_ms3 (k0 : Str) (t : Obj × Str) (A : List (Obj × Str)) (ht : t.2 = k0) :
    dedupKeepLast ((A ++ t :: A).filter (fun y => y.2 != k0)) =
      dedupKeepLast (A.filter (fun y => y.2 != k0)) := by
  have htk : (t.2 != k0) = false := by rw [ht]; simp
  rw [List.filter_append, List.filter_cons]
  simp only [htk, Bool.false_eq_true, if_false]
  exact dedup_drop_prefix_ms3 _ _ (fun x hx => ⟨x, hx, rfl⟩)

theorem activeNamed_flatMap_distinct_ms3 {α : Type} (nm : α → Str) (f : α → List Obj) :
    ∀ (l : List α), (l.map nm).Pairwise (· ≠ ·) →
      (∀ a ∈ l, ∀ o ∈ f a, o.name = nm a ∧ o.meta.disabled = false) →
      ∀ a ∈ l, activeNamed (nm a) (l.flatMap f) = f a := by
  intro l
  induction l with
  | nil => intro _ _ a ha; cases ha
  | cons b l ih =>
    intro hpw hB a ha
    rw [List.map_cons, List.pairwise_cons] at hpw
    rw [List.flatMap_cons]
    unfold activeNamed
    rw [List.filter_append]
    rw [List.mem_cons] at ha
    rcases ha with rfl | ha
    · have h1 : (f a).filter (fun d => !d.meta.disabled && d.name == nm a) = f a := by
        rw [List.filter_eq_self]
        intro o ho
        have := hB a List.mem_cons_self o ho
        simp [this.1, this.2]
      have h2 : (l.flatMap f).filter (fun d => !d.meta.disabled && d.name == nm a) = [] := by
        rw [List.filter_eq_nil_iff]
        intro o ho
        obtain ⟨c, hc, hoc⟩ := List.mem_flatMap.mp ho
        have := hB c (List.mem_cons_of_mem _ hc) o hoc
        have hne : nm a ≠ nm c := hpw.1 _ (List.mem_map.mpr ⟨c, hc, rfl⟩)
        simp only [this.1, Bool.and_eq_true, beq_iff_eq, not_and]
        intro _ h
        exact hne h.symm
      rw [h1, h2, List.append_nil]
    · have h1 : (f b).filter (fun d => !d.meta.disabled && d.name == nm a) = [] := by
        rw [List.filter_eq_nil_iff]
        intro o ho
        have := hB b List.mem_cons_self o ho
        have hne : nm b ≠ nm a := hpw.1 _ (List.mem_map.mpr ⟨a, ha, rfl⟩)
        simp only [this.1, Bool.and_eq_true, beq_iff_eq, not_and]
        intro _ h
        exact hne h
      rw [h1, List.nil_append]
      exact ih hpw.2 (fun c hc => hB c (List.mem_cons_of_mem _ hc)) a ha

theorem firstsT_names_ms3 : ∀ (l : List Obj) (seen : List Str),
    ((firstsT_ms3 seen l).map (fun p => p.1.name)).Pairwise (· ≠ ·) ∧
      ∀ p ∈ firstsT_ms3 seen l, seen.contains p.1.name = false := by
  intro l
  induction l with
  | nil => intro seen; rw [firstsT_ms3]; exact ⟨List.Pairwise.nil, fun p hp => by cases hp⟩
  | cons o os ih =>
    intro seen
    rw [firstsT_ms3]
    split
    · exact ih seen
    · rename_i hskip
      simp only [Bool.or_eq_true, not_or, Bool.not_eq_true] at hskip
      obtain ⟨h1, h2⟩ := ih (o.name :: seen)
      constructor
      · rw [List.map_cons, List.pairwise_cons]
        refine ⟨?_, h1⟩
        intro n hn
        obtain ⟨p, hp, rfl⟩ := List.mem_map.mp hn
        have := h2 p hp
        rw [List.contains_cons, Bool.or_eq_false_iff] at this
        intro heq
        have h3 := this.1
        rw [heq] at h3
        simp at h3
      · intro p hp
        rw [List.mem_cons] at hp
        rcases hp with rfl | hp
        · exact hskip.2
        · have := h2 p hp
          rw [List.contains_cons, Bool.or_eq_false_iff] at this
          exact this.2

/-- **in the result, the enabled objects called like a first occurrence are its block** -/
theorem view_ms3 (e : Envs) (mkids srcs : List Obj) (hf : MSMaster2 mkids) :
    ∀ p ∈ firstsT_ms3 [] mkids,
      activeNamed p.1.name (ms2Result e [] mkids srcs) = ms2Block e p.1 (p.2 ++ srcs) := by
  rw [ms2Result_eq_flatMap_ms3]
  exact activeNamed_flatMap_distinct_ms3 (fun p => p.1.name) (fun p => ms2Block e p.1 (p.2 ++ srcs))
    (firstsT_ms3 [] mkids) (firstsT_names_ms3 mkids []).1
    (fun p hp o ho => by
      have h := ms2Block_member_ms3 e p.1 _ o ho
      exact ⟨h.1, by rw [h.2.1]; exact (mem_firstsT_ms3 mkids [] p hp).2.1⟩)

theorem view_self_aux_ms3 : ∀ (l pre : List Obj) (seen : List Str),
    (∀ x ∈ pre, x.meta.disabled = false → seen.contains x.name = true) →
    ∀ p ∈ firstsT_ms3 seen l, activeNamed p.1.name (pre ++ l) = p.1 :: p.2 := by
  intro l
  induction l with
  | nil => intro pre seen _ p hp; rw [firstsT_ms3] at hp; cases hp
  | cons o os ih =>
    intro pre seen hinv p hp
    have happ : pre ++ o :: os = (pre ++ [o]) ++ os := by simp
    rw [firstsT_ms3] at hp
    cases hskip : (o.meta.disabled || seen.contains o.name) with
    | true =>
      simp only [hskip, if_true] at hp
      rw [happ]
      apply ih (pre ++ [o]) seen _ p hp
      intro x hx hxd
      rw [List.mem_append, List.mem_singleton] at hx
      rcases hx with hx | rfl
      · exact hinv x hx hxd
      · rw [hxd] at hskip; simpa using hskip
    | false =>
      simp only [hskip, Bool.false_eq_true, if_false, List.mem_cons] at hp
      rw [Bool.or_eq_false_iff] at hskip
      rcases hp with rfl | hp
      · simp only
        unfold activeNamed
        rw [List.filter_append, List.filter_cons]
        have h1 : pre.filter (fun d => !d.meta.disabled && d.name == o.name) = [] := by
          rw [List.filter_eq_nil_iff]
          intro x hx
          cases hxd : x.meta.disabled with
          | true => simp
          | false =>
            have := hinv x hx hxd
            simp only [Bool.not_false, Bool.true_and, beq_iff_eq]
            intro hname
            rw [hname, hskip.2] at this
            cases this
        rw [h1]
        simp [hskip.1]
      · rw [happ]
        apply ih (pre ++ [o]) (o.name :: seen) _ p hp
        intro x hx hxd
        rw [List.mem_append, List.mem_singleton] at hx
        rw [List.contains_cons]
        rcases hx with hx | rfl
        · rw [hinv x hx hxd, Bool.or_true]
        · simp

/-- among the master's own children, the enabled objects called like a first occurrence are that
    occurrence followed by its further occurrences -/
theorem view_self_ms3 (mkids : List Obj) :
    ∀ p ∈ firstsT_ms3 [] mkids, activeNamed p.1.name mkids = p.1 :: p.2 :=
  view_self_aux_ms3 mkids [] [] (fun x hx => by cases hx)

/-! ## 8. C07 at the level of the specification: re-fetching the result; the master as a source -/

/-- the candidate (with its key) the `.multiple` master scope builds from the scope `s` -/
abbrev ms2CK (e : Envs) (mm : Meta) (kids : List Obj) (s : Obj) : Obj × Str :=
  (ms2Cand e mm kids s.children, keyMS e (.scope mm kids) (ms2Cand e mm kids s.children))

theorem ms2Block_multi_eq (e : Envs) (mm : Meta) (kids cands : List Obj)
    (hmult : (mm.attrs.get "multiple").truthy = true) :
    ms2Block e (.scope mm kids) cands =
      msMultiBlock (.scope mm kids) (ms2Cand e mm kids []) (keyMS e (.scope mm kids) (ms2Cand e mm kids []))
        ((scopesNamed mm.name cands).map (ms2CK e mm kids)) := by
  rw [ms2Block]; simp only [hmult, if_true]

theorem scopesNamed_append_ms3 (n : Str) (a b : List Obj) :
    scopesNamed n (a ++ b) = scopesNamed n a ++ scopesNamed n b := by
  unfold scopesNamed; rw [List.filter_append]

theorem defsNamed_append_ms3 (n : Str) (a b : List Obj) :
    defsNamed n (a ++ b) = defsNamed n a ++ defsNamed n b := by
  unfold defsNamed; rw [List.filter_append]

theorem activeNamed_self_ms3 (n : Str) (FM : List Obj) (hFM : ∀ x ∈ FM, x.meta.disabled = false ∧ x.name = n) :
    activeNamed n FM = FM := by
  unfold activeNamed
  rw [List.filter_eq_self]
  intro x hx
  simp [hFM x hx]

theorem flatMap_congr_mem_ms3 {α β : Type} (f g : α → List β) : ∀ (l : List α), (∀ a ∈ l, f a = g a) →
    l.flatMap f = l.flatMap g
  | [], _ => rfl
  | a :: l, h => by
    rw [List.flatMap_cons, List.flatMap_cons, h a List.mem_cons_self,
      flatMap_congr_mem_ms3 f g l (fun x hx => h x (List.mem_cons_of_mem _ hx))]

theorem multiBlock_congr_ms3 (mo : Obj) (k0 : Str) (cks cks' : List (Obj × Str))
    (h : dedupKeepLast (cks.filter (fun y => y.2 != k0)) = dedupKeepLast (cks'.filter (fun y => y.2 != k0))) :
    multiBlock mo k0 cks = multiBlock mo k0 cks' := by
  unfold multiBlock
  rw [h]

/-- the block of a `.multiple` master SCOPE with further occurrences `FM` is a fixed point -/
theorem ms2MultiBlock_refetch_ms3 (e : Envs) (mm : Meta) (kids FM S R : List Obj)
    (hmult : (mm.attrs.get "multiple").truthy = true)
    (hidem : ∀ S, ms2Result e [] kids (ms2Result e [] kids S) = ms2Result e [] kids S)
    (hself : ms2Result e [] kids kids = ms2Result e [] kids [])
    (hv : activeNamed mm.name R = ms2Block e (.scope mm kids) (FM ++ S)) :
    ms2Block e (.scope mm kids) (FM ++ R) = ms2Block e (.scope mm kids) (FM ++ S) := by
  have hB : ∀ o ∈ ms2Block e (.scope mm kids) (FM ++ S), o.isDefn = false :=
    fun o ho => (ms2Block_member_ms3 e (.scope mm kids) (FM ++ S) o ho).2.2.1
  have hsc : scopesNamed mm.name R = ms2Block e (.scope mm kids) (FM ++ S) :=
    scopesNamed_of_view_ms _ _ _ hv hB
  rw [ms2Block_multi_eq e mm kids (FM ++ R) hmult, scopesNamed_append_ms3 mm.name FM R, hsc,
    ms2Block_multi_eq e mm kids (FM ++ S) hmult, scopesNamed_append_ms3 mm.name FM S,
    List.map_append, List.map_append]
  have hfix : ∀ x ∈ (scopesNamed mm.name FM).map (ms2CK e mm kids) ++ (scopesNamed mm.name S).map (ms2CK e mm kids),
      ms2CK e mm kids x.1 = x := by
    intro x hx
    rw [← List.map_append] at hx
    obtain ⟨s, _, rfl⟩ := List.mem_map.mp hx
    show (ms2Cand e mm kids (ms2Result e [] kids s.children),
      keyMS e _ (ms2Cand e mm kids (ms2Result e [] kids s.children))) = _
    have : ms2Cand e mm kids (ms2Result e [] kids s.children) = ms2Cand e mm kids s.children := by
      unfold ms2Cand; rw [hidem s.children]
    rw [this]
  generalize (scopesNamed mm.name FM).map (ms2CK e mm kids) = A at hfix ⊢
  generalize (scopesNamed mm.name S).map (ms2CK e mm kids) = Bs at hfix ⊢
  generalize hk0 : keyMS e (.scope mm kids) (ms2Cand e mm kids []) = k0
  apply msMultiBlock_congr_ms
  have hT : ∀ T, (T = withTmpl (ms2Cand e mm kids []) 0 ∨ ∃ t, T = withTmpl (.scope mm kids) t) →
      (ms2CK e mm kids T).2 = k0 := by
    intro T hT
    rcases hT with rfl | ⟨t, rfl⟩
    · show keyMS e _ (ms2Cand e mm kids (ms2Result e [] kids [])) = _
      have : ms2Cand e mm kids (ms2Result e [] kids []) = ms2Cand e mm kids [] := by
        unfold ms2Cand; rw [hidem []]
      rw [this, hk0]
    · show keyMS e _ (ms2Cand e mm kids kids) = _
      have : ms2Cand e mm kids kids = ms2Cand e mm kids [] := by
        unfold ms2Cand; rw [hself]
      rw [this, hk0]
  unfold msMultiBlock
  refine listRule_refetch_ms3 (ms2CK e mm kids) k0 _ A Bs (hT _ ?_) hfix
  split
  · exact .inl rfl
  · exact .inr ⟨_, rfl⟩

/-- the master's own objects as sources: the block of a `.multiple` master SCOPE is that without sources -/
theorem ms2MultiBlock_self_ms3 (e : Envs) (mm : Meta) (kids FM R : List Obj)
    (hmult : (mm.attrs.get "multiple").truthy = true)
    (hFM : ∀ x ∈ FM, x.meta.disabled = false ∧ x.name = mm.name)
    (hself : ms2Result e [] kids kids = ms2Result e [] kids [])
    (hv : activeNamed mm.name R = .scope mm kids :: FM) :
    ms2Block e (.scope mm kids) (FM ++ R) = ms2Block e (.scope mm kids) (FM ++ []) := by
  have hsc : scopesNamed mm.name R = .scope mm kids :: scopesNamed mm.name FM := by
    rw [scopesNamed_eq_filter_tree, hv, scopesNamed_eq_filter_tree, activeNamed_self_ms3 _ _ hFM]
    rfl
  rw [ms2Block_multi_eq e mm kids (FM ++ R) hmult, scopesNamed_append_ms3 mm.name FM R, hsc,
    ms2Block_multi_eq e mm kids (FM ++ []) hmult, List.append_nil, List.map_append, List.map_cons]
  apply msMultiBlock_congr_ms
  apply listRule_self_ms3
  show keyMS e _ (ms2Cand e mm kids kids) = _
  have : ms2Cand e mm kids kids = ms2Cand e mm kids [] := by
    unfold ms2Cand; rw [hself]
  rw [this]

/-- the block of a `.multiple` master DEFINITION with further occurrences `FM` is a fixed point -/
theorem ms2MultiDefn_refetch_ms3 (e : Envs) (mm : Meta) (mws : List Word) (FM S R : List Obj)
    (hmult : isMultiple (.defn mm mws) = true) (ht : mm.tmpl = 0) (hvr : mm.varRes = none)
    (hv : activeNamed mm.name R = ms2Block e (.defn mm mws) (FM ++ S)) :
    ms2Block e (.defn mm mws) (FM ++ R) = ms2Block e (.defn mm mws) (FM ++ S) := by
  rw [ms2Block] at hv ⊢
  rw [ms2Block]
  have hdn := defsNamed_of_view_tm e mm mws (FM ++ S) R hv
  rw [tmBlock] at hdn ⊢
  rw [tmBlock]
  simp only [hmult, if_true] at hdn ⊢
  rw [defsNamed_append_ms3 mm.name FM R, hdn, defsNamed_append_ms3 mm.name FM S]
  unfold candsOf
  rw [List.map_append, List.map_append]
  have hfix : ∀ x ∈ (defsNamed mm.name FM).map (fun d => (candOfSrc (.defn mm mws) d,
        keyOf e 0 (.defn mm mws) (candOfSrc (.defn mm mws) d))) ++
      (defsNamed mm.name S).map (fun d => (candOfSrc (.defn mm mws) d,
        keyOf e 0 (.defn mm mws) (candOfSrc (.defn mm mws) d))),
      (fun d => (candOfSrc (.defn mm mws) d, keyOf e 0 (.defn mm mws) (candOfSrc (.defn mm mws) d))) x.1 = x := by
    intro x hx
    rw [← List.map_append] at hx
    obtain ⟨d, _, rfl⟩ := List.mem_map.mp hx
    simp only
    rw [candOfSrc_cand mm mws hvr]
  generalize (defsNamed mm.name FM).map (fun d => (candOfSrc (.defn mm mws) d,
        keyOf e 0 (.defn mm mws) (candOfSrc (.defn mm mws) d))) = A at hfix ⊢
  generalize (defsNamed mm.name S).map (fun d => (candOfSrc (.defn mm mws) d,
        keyOf e 0 (.defn mm mws) (candOfSrc (.defn mm mws) d))) = Bs at hfix ⊢
  apply multiBlock_congr_ms3
  unfold multiBlock
  refine listRule_refetch_ms3 _ _ _ A Bs ?_ hfix
  simp only
  rw [candOfSrc_tmpl mm mws ht hvr]

/-- the master's own objects as sources: the block of a `.multiple` master DEFINITION -/
theorem ms2MultiDefn_self_ms3 (e : Envs) (mm : Meta) (mws : List Word) (FM R : List Obj)
    (hmult : isMultiple (.defn mm mws) = true) (ht : mm.tmpl = 0) (hvr : mm.varRes = none)
    (hFM : ∀ x ∈ FM, x.meta.disabled = false ∧ x.name = mm.name)
    (hv : activeNamed mm.name R = .defn mm mws :: FM) :
    ms2Block e (.defn mm mws) (FM ++ R) = ms2Block e (.defn mm mws) (FM ++ []) := by
  have hdn : defsNamed mm.name R = .defn mm mws :: defsNamed mm.name FM := by
    rw [defsNamed_eq_filter_tree, hv, defsNamed_eq_filter_tree, activeNamed_self_ms3 _ _ hFM]
    rfl
  rw [ms2Block, ms2Block, tmBlock, tmBlock]
  simp only [hmult, if_true]
  rw [defsNamed_append_ms3 mm.name FM R, hdn, List.append_nil]
  unfold candsOf
  rw [List.map_append, List.map_cons]
  apply multiBlock_congr_ms3
  apply listRule_self_ms3
  simp only
  rw [candOfSrc_self_ms mm mws ht hvr]

/-- what the recursion provides for the body of a master scope -/
def BodyOK_ms3 (e : Envs) (kids : List Obj) : Prop :=
  (∀ S, ms2Result e [] kids (ms2Result e [] kids S) = ms2Result e [] kids S) ∧
    ms2Result e [] kids kids = ms2Result e [] kids []

theorem ms2Block_refetch_ms3 (e : Envs) (mo : Obj) (FM S R : List Obj) (hto : MS2Obj mo)
    (hen : mo.meta.disabled = false) (hr : RefetchTree [mo])
    (hnm : isMultiple mo = false → FM = [])
    (hbody : ∀ mm kids, mo = .scope mm kids → BodyOK_ms3 e kids)
    (hv : activeNamed mo.name R = ms2Block e mo (FM ++ S)) :
    ms2Block e mo (FM ++ R) = ms2Block e mo (FM ++ S) := by
  cases mo with
  | defn mm mws =>
    rw [MS2Obj] at hto
    have hr' := hr (.defn mm mws) (.here (List.mem_singleton.mpr rfl) hen) rfl
    cases hmult : isMultiple (.defn mm mws) with
    | true => exact ms2MultiDefn_refetch_ms3 e mm mws FM S R hmult hr'.1 hr'.2.1 hv
    | false =>
      rw [hnm hmult, List.nil_append] at hv ⊢
      rw [List.nil_append]
      rw [ms2Block] at hv ⊢
      rw [ms2Block]
      exact tmBlock_view_idem_tm e (.defn mm mws) S R (by rw [TMObj]; exact ⟨hto.1, hto.2.1, hto.2.2, hen⟩) hr hv
  | scope mm kids =>
    obtain ⟨hidem, hself⟩ := hbody mm kids rfl
    cases hmult : (mm.attrs.get "multiple").truthy with
    | true => exact ms2MultiBlock_refetch_ms3 e mm kids FM S R hmult hidem hself hv
    | false =>
      have hFMnil : FM = [] := hnm hmult
      subst hFMnil
      rw [List.nil_append] at hv ⊢
      rw [List.nil_append]
      have hv' : activeNamed mm.name R = ms2Block e (.scope mm kids) S := hv
      rw [ms2Block] at hv' ⊢
      rw [ms2Block]
      simp only [hmult, Bool.false_eq_true, if_false] at hv' ⊢
      rw [srcStep_of_view_ms _ _ _ hv']
      simp only [List.flatMap_cons, List.flatMap_nil, List.append_nil, Obj.children]
      rw [hidem]

theorem ms2Block_self_ms3 (e : Envs) (mo : Obj) (FM R : List Obj) (hto : MS2Obj mo)
    (hen : mo.meta.disabled = false) (hr : RefetchTree [mo])
    (hFM : ∀ x ∈ FM, x.meta.disabled = false ∧ x.name = mo.name)
    (hnm : isMultiple mo = false → FM = [])
    (hbody : ∀ mm kids, mo = .scope mm kids → BodyOK_ms3 e kids)
    (hv : activeNamed mo.name R = mo :: FM) :
    ms2Block e mo (FM ++ R) = ms2Block e mo (FM ++ []) := by
  cases mo with
  | defn mm mws =>
    rw [MS2Obj] at hto
    have hr' := hr (.defn mm mws) (.here (List.mem_singleton.mpr rfl) hen) rfl
    cases hmult : isMultiple (.defn mm mws) with
    | true => exact ms2MultiDefn_self_ms3 e mm mws FM R hmult hr'.1 hr'.2.1 hFM hv
    | false =>
      rw [hnm hmult] at hv ⊢
      rw [List.nil_append, List.nil_append, ms2Block, ms2Block, ← msBlock, ← msBlock]
      exact msBlock_self_ms e (.defn mm mws) R (by rw [MSObj]; exact ⟨hto.1, hto.2.1, hto.2.2, hen⟩) hr hv
  | scope mm kids =>
    obtain ⟨hidem, hself⟩ := hbody mm kids rfl
    cases hmult : (mm.attrs.get "multiple").truthy with
    | true => exact ms2MultiBlock_self_ms3 e mm kids FM R hmult hFM hself hv
    | false =>
      have hFMnil : FM = [] := hnm hmult
      subst hFMnil
      have hv' : activeNamed mm.name R = [.scope mm kids] := hv
      rw [List.nil_append, List.nil_append, ms2Block, ms2Block]
      simp only [hmult, Bool.false_eq_true, if_false]
      have h1 : srcStep R mm.name = kids := by
        rw [srcStep_of_view_ms _ _ _ hv']; simp [Obj.children]
      have h2 : srcStep [] mm.name = [] := rfl
      rw [h1, h2, hself]

theorem RefetchTree.of_mem_ms3 {l : List Obj} (h : RefetchTree l) {mo : Obj} (hm : mo ∈ l) : RefetchTree [mo] :=
  fun d hd hdef =>
    h d (hd.mono (by intro y hy; rw [List.mem_singleton] at hy; subst hy; exact hm)) hdef

/-- **the specification is idempotent, and the master's own body as a source changes nothing** —
    by induction on the nesting depth -/
theorem ms2_body_ok_ms3 (e : Envs) : ∀ (n : Nat) (l : List Obj), depthL l < n → MSMaster2 l → RefetchTree l →
    BodyOK_ms3 e l := by
  intro n
  induction n with
  | zero => intro l h; exact absurd h (Nat.not_lt_zero _)
  | succ n ih =>
    intro l hd hf hr
    have hbody : ∀ p ∈ firstsT_ms3 [] l, ∀ mm kids, p.1 = .scope mm kids → BodyOK_ms3 e kids := by
      intro p hp mm kids hpk
      obtain ⟨hmem, hen, _⟩ := mem_firstsT_ms3 l [] p hp
      rw [hpk] at hmem hen
      have hd1 := depthT_le_depthL l _ hmem
      rw [depthT] at hd1
      exact ih kids (by omega) (MSMaster2.of_scope (hf.obj _ hmem)) ((hr.of_mem_ms3 hmem).kids hen)
    constructor
    · intro S
      rw [ms2Result_eq_flatMap_ms3 e _ l [], ms2Result_eq_flatMap_ms3 e S l []]
      apply flatMap_congr_mem_ms3
      intro p hp
      obtain ⟨hmem, hen, hFMmem⟩ := mem_firstsT_ms3 l [] p hp
      rw [← ms2Result_eq_flatMap_ms3 e S l []]
      exact ms2Block_refetch_ms3 e p.1 p.2 S _ (hf.obj _ hmem) hen (hr.of_mem_ms3 hmem)
        (firstsT_nonmulti_ms3 l [] [] (fun _ => rfl) hf.firsts p hp) (hbody p hp)
        (view_ms3 e l S hf p hp)
    · rw [ms2Result_eq_flatMap_ms3 e l l [], ms2Result_eq_flatMap_ms3 e [] l []]
      apply flatMap_congr_mem_ms3
      intro p hp
      obtain ⟨hmem, hen, hFMmem⟩ := mem_firstsT_ms3 l [] p hp
      exact ms2Block_self_ms3 e p.1 p.2 l (hf.obj _ hmem) hen (hr.of_mem_ms3 hmem)
        (fun x hx => (hFMmem x hx).2) (firstsT_nonmulti_ms3 l [] [] (fun _ => rfl) hf.firsts p hp)
        (hbody p hp) (view_self_ms3 l p hp)

/-- **the specification is idempotent**: the result, taken as the only source, is reproduced -/
theorem ms2Result_idem (e : Envs) (mkids srcs : List Obj) (hf : MSMaster2 mkids) (hr : RefetchTree mkids) :
    ms2Result e [] mkids (ms2Result e [] mkids srcs) = ms2Result e [] mkids srcs :=
  (ms2_body_ok_ms3 e _ mkids (Nat.lt_succ_self _) hf hr).1 srcs

/-- **the master's own body as a source changes nothing** (`M.fetch(M) = M.fetch()`) -/
theorem ms2Result_self (e : Envs) (mkids : List Obj) (hf : MSMaster2 mkids) (hr : RefetchTree mkids) :
    ms2Result e [] mkids mkids = ms2Result e [] mkids [] :=
  (ms2_body_ok_ms3 e _ mkids (Nat.lt_succ_self _) hf hr).2

/-! ## 9. C07: the result is a well-formed source tree -/

mutual
theorem allActiveObj_complete_ms3 (P : Obj → Bool) : ∀ (o : Obj), (∀ x, ActiveIn x [o] → P x = true) →
    o.meta.disabled = false → allActiveObj P o = true
  | .defn m ws, h, hd => by
    rw [allActiveObj]; exact h _ (.here (List.mem_singleton.mpr rfl) hd)
  | .scope m kids, h, hd => by
    rw [allActiveObj, h _ (.here (List.mem_singleton.mpr rfl) hd),
      allActive_complete_ms3 P kids (fun x hx => h x (.deeper (List.mem_singleton.mpr rfl) hd hx))]
    rfl
theorem allActive_complete_ms3 (P : Obj → Bool) : ∀ (l : List Obj), (∀ x, ActiveIn x l → P x = true) →
    allActive P l = true
  | [], _ => by rw [allActive]
  | o :: os, h => by
    rw [allActive, allActive_complete_ms3 P os (fun x hx => h x (hx.mono (fun y hy => List.mem_cons_of_mem _ hy)))]
    cases hd : o.meta.disabled with
    | true => rfl
    | false =>
      rw [allActiveObj_complete_ms3 P o (fun x hx => h x (hx.mono (by
        intro y hy; rw [List.mem_singleton] at hy; subst hy; exact List.mem_cons_self))) hd]
      rfl
end

/-- a parsed, variable-free `MSMaster2` is a good source tree -/
theorem good_master_ms3 (mkids : List Obj) (hf : MSMaster2 mkids) (hr : RefetchTree mkids) :
    allActive srcGoodB mkids = true := by
  apply allActive_complete_ms3
  intro x hx
  unfold srcGoodB
  cases hdef : x.isDefn with
  | true =>
    have := hr x hx hdef
    simp [this.2.1, this.2.2]
  | false =>
    have hn := (ms2Obj_of_activeIn hx hf.kids).name_ne
    cases h : x.name with
    | nil => exact absurd h hn
    | cons => simp

theorem srcNoDollar_master_ms3 (mkids : List Obj) (hr : RefetchTree mkids) : SrcNoDollar mkids := by
  intro x hx hdef
  have := hr x hx hdef
  rw [srcWords_of_varRes_none x this.2.1]
  exact this.2.2

theorem activeIn_append_ms3 {x : Obj} {a b : List Obj} (h : ActiveIn x (a ++ b)) : ActiveIn x a ∨ ActiveIn x b := by
  cases h with
  | here hm hd =>
    rcases List.mem_append.mp hm with h | h
    · exact .inl (.here h hd)
    · exact .inr (.here h hd)
  | deeper hm hd hk =>
    rcases List.mem_append.mp hm with h | h
    · exact .inl (.deeper h hd hk)
    · exact .inr (.deeper h hd hk)

theorem srcNoDollar_append_ms3 {a b : List Obj} (ha : SrcNoDollar a) (hb : SrcNoDollar b) : SrcNoDollar (a ++ b) := by
  intro x hx hdef
  rcases activeIn_append_ms3 hx with h | h
  · exact ha x h hdef
  · exact hb x h hdef

theorem SrcNoDollar.mono_ms3 {a b : List Obj} (hb : SrcNoDollar b) (hsub : ∀ y ∈ a, y ∈ b) : SrcNoDollar a :=
  fun x hx hdef => hb x (hx.mono hsub) hdef

/-- the result of an `MSMaster2` is a good source tree — by induction on the nesting depth -/
theorem good_ms2Result_ms3 (e : Envs) : ∀ (n : Nat) (l : List Obj), depthL l < n → MSMaster2 l → RefetchTree l →
    ∀ S, SrcNoDollar S → allActive srcGoodB (ms2Result e [] l S) = true := by
  intro n
  induction n with
  | zero => intro l h; exact absurd h (Nat.not_lt_zero _)
  | succ n ih =>
    intro l hd hf hr S hdol
    rw [ms2Result_eq_flatMap_ms3]
    apply allActive_of_forall_ms
    intro o ho
    obtain ⟨p, hp, hop⟩ := List.mem_flatMap.mp ho
    obtain ⟨hmem, hen, hFMmem⟩ := mem_firstsT_ms3 l [] p hp
    have hto := hf.obj _ hmem
    have hr1 := hr.of_mem_ms3 hmem
    have hdolFS : SrcNoDollar (p.2 ++ S) :=
      srcNoDollar_append_ms3 ((srcNoDollar_master_ms3 l hr).mono_ms3 (fun y hy => (hFMmem y hy).1)) hdol
    obtain ⟨mo, FM⟩ := p
    simp only at hmem hen hFMmem hto hr1 hdolFS hop
    cases mo with
    | defn mm mws =>
      rw [MS2Obj] at hto
      rw [ms2Block, ← msBlock] at hop
      have hg := good_msBlock e (.defn mm mws) (FM ++ S)
        (by rw [MSObj]; exact ⟨hto.1, hto.2.1, hto.2.2, hen⟩) hr1 hdolFS
      have hoen : o.meta.disabled = false := by
        rw [(msBlock_member_ms e _ _ o hop).2.1]; exact hen
      exact allActive_mem srcGoodB _ hg o hop hoen
    | scope mm kids =>
      have hkm := MSMaster2.of_scope hto
      rw [MS2Obj] at hto
      have hrk := hr1.kids hen
      have hd1 := depthT_le_depthL l _ hmem
      rw [depthT] at hd1
      have ihk := ih kids (by omega) hkm hrk
      rw [ms2Block] at hop
      split at hop
      · rcases mem_msMultiBlock hop with rfl | ⟨t, rfl⟩ | ⟨x, hx, rfl⟩
        · exact allActiveObj_scope_ms _ _ hto.1 (ihk [] SrcNoDollar.nil_ms)
        · exact allActiveObj_scope_ms _ _ hto.1 (good_master_ms3 kids hkm hrk)
        · obtain ⟨s, hs, rfl⟩ := List.mem_map.mp hx
          have hs' := mem_scopesNamed.mp hs
          exact allActiveObj_scope_ms _ _ hto.1 (ihk s.children (hdolFS.child_ms hs'.1 hs'.2.2.1))
      · rw [List.mem_singleton] at hop
        subst hop
        exact allActiveObj_scope_ms _ _ hto.1
          (ihk _ (fun x hx hdef => hdolFS x (activeIn_srcStep hx) hdef))

/-- the result of such a master is itself a well-formed source tree -/
theorem srcTree_ms2Result (e : Envs) (mkids srcs : List Obj) (hf : MSMaster2 mkids)
    (hr : RefetchTree mkids) (hdol : SrcNoDollar srcs) : SrcTree (ms2Result e [] mkids srcs) :=
  srcTree_of_good_ms _ (good_ms2Result_ms3 e _ mkids (Nat.lt_succ_self _) hf hr srcs hdol)

/-! ## 10. C07: the side conditions of the re-fetch hold on the result -/

theorem KeysDefinedMS2.of_forall {e : Envs} {srcs : List Obj} : ∀ {l : List Obj} {seen : List Str},
    (∀ p ∈ firstsT_ms3 seen l, KeysDefinedMS2Obj e p.1 (p.2 ++ srcs)) → KeysDefinedMS2 e seen l srcs := by
  intro l
  induction l with
  | nil => intro seen _; rw [KeysDefinedMS2]; trivial
  | cons o os ih =>
    intro seen h
    rw [KeysDefinedMS2]
    rw [firstsT_ms3] at h
    split
    · rename_i hs
      simp only [hs, if_true] at h
      exact ih h
    · rename_i hs
      simp only [hs] at h
      exact ⟨h _ List.mem_cons_self, ih (fun p hp => h p (List.mem_cons_of_mem _ hp))⟩

/-- what the recursion provides for the body of a master scope: the side conditions of a re-fetch -/
def SideOK_ms3 (e : Envs) (kids : List Obj) : Prop :=
  (∀ S, ms2NoClash [] kids S = true → KeysDefinedMS2 e [] kids S →
     ms2NoClash [] kids (ms2Result e [] kids S) = true ∧ KeysDefinedMS2 e [] kids (ms2Result e [] kids S)) ∧
  (ms2NoClash [] kids [] = true → KeysDefinedMS2 e [] kids [] →
     ms2NoClash [] kids kids = true ∧ KeysDefinedMS2 e [] kids kids)

theorem ms2Side_refetch_ms3 (e : Envs) (mo : Obj) (FM S R : List Obj) (hto : MS2Obj mo)
    (hen : mo.meta.disabled = false) (hr : RefetchTree [mo])
    (hnm : isMultiple mo = false → FM = [])
    (hbody : ∀ mm kids, mo = .scope mm kids → BodyOK_ms3 e kids ∧ SideOK_ms3 e kids)
    (hnc : ms2NoClashObj mo (FM ++ S) = true) (hk : KeysDefinedMS2Obj e mo (FM ++ S))
    (hv : activeNamed mo.name R = ms2Block e mo (FM ++ S)) :
    ms2NoClashObj mo (FM ++ R) = true ∧ KeysDefinedMS2Obj e mo (FM ++ R) := by
  have hB := fun o ho => ms2Block_member_ms3 e mo (FM ++ S) o ho
  cases mo with
  | defn mm mws =>
    rw [MS2Obj] at hto
    have hr' := hr (.defn mm mws) (.here (List.mem_singleton.mpr rfl) hen) rfl
    have hv' : activeNamed mm.name R = ms2Block e (.defn mm mws) (FM ++ S) := hv
    rw [ms2NoClashObj, scopesNamed_append_ms3, List.isEmpty_iff, List.append_eq_nil_iff] at hnc
    have hscR : scopesNamed mm.name R = [] := by
      rw [scopesNamed_eq_filter_tree, hv', List.filter_eq_nil_iff]
      intro o ho
      unfold Obj.isScope
      rw [(hB o ho).2.2.1]
      simp [Obj.isDefn]
    constructor
    · rw [ms2NoClashObj, scopesNamed_append_ms3, hnc.1, hscR]; rfl
    · rw [KeysDefinedMS2Obj] at hk ⊢
      intro hmult
      obtain ⟨hk0, hcand⟩ := hk hmult
      refine ⟨hk0, ?_⟩
      intro d hd
      rw [defsNamed_append_ms3, List.mem_append] at hd
      rcases hd with hd | hd
      · exact hcand d (by rw [defsNamed_append_ms3]; exact List.mem_append_left _ hd)
      · rw [ms2Block] at hv'
        rw [defsNamed_of_view_tm e mm mws (FM ++ S) R hv', tmBlock] at hd
        simp only [hmult, if_true] at hd
        rcases mem_multiBlock_tm hd with ⟨t, rfl⟩ | ⟨d0, hd0, rfl⟩
        · rw [candOfSrc_tmpl mm mws hr'.1 hr'.2.1]
          exact hk0
        · rw [candOfSrc_cand mm mws hr'.2.1]
          exact hcand d0 hd0
  | scope mm kids =>
    obtain ⟨⟨hidem, hself⟩, hside, hsideself⟩ := hbody mm kids rfl
    have hv' : activeNamed mm.name R = ms2Block e (.scope mm kids) (FM ++ S) := hv
    have hBs : ∀ o ∈ ms2Block e (.scope mm kids) (FM ++ S), o.isDefn = false :=
      fun o ho => (hB o ho).2.2.1
    have hdnR := defsNamed_of_view_scope_ms _ _ _ hv' hBs
    have hscR := scopesNamed_of_view_ms _ _ _ hv' hBs
    rw [ms2NoClashObj] at hnc
    rw [KeysDefinedMS2Obj] at hk
    cases hmult : (mm.attrs.get "multiple").truthy with
    | true =>
      simp only [hmult, if_true, Bool.and_eq_true, List.all_eq_true] at hnc hk
      obtain ⟨hdn, hnc0, hall⟩ := hnc
      rw [defsNamed_append_ms3, List.isEmpty_iff, List.append_eq_nil_iff] at hdn
      have hobj : ∀ o ∈ ms2Block e (.scope mm kids) (FM ++ S),
          ms2NoClash [] kids o.children = true ∧ KeysDefinedMS2 e [] kids o.children ∧
          ∃ k, extractFormatStr e (depthL kids + 1 + 64) (.scope mm kids)
            (.scope { mm with tmpl := 0 } (ms2Result e [] kids o.children)) = .ok k := by
        intro o ho
        rw [ms2Block_multi_eq e mm kids _ hmult] at ho
        rcases mem_msMultiBlock ho with rfl | ⟨t, rfl⟩ | ⟨x, hx, rfl⟩
        · show ms2NoClash [] kids (ms2Result e [] kids []) = true ∧
            KeysDefinedMS2 e [] kids (ms2Result e [] kids []) ∧
            ∃ k, extractFormatStr e _ _ (.scope { mm with tmpl := 0 } (ms2Result e [] kids (ms2Result e [] kids []))) = .ok k
          rw [hidem []]
          exact ⟨(hside [] hnc0 hk.1).1, (hside [] hnc0 hk.1).2, hk.2.1⟩
        · show ms2NoClash [] kids kids = true ∧ KeysDefinedMS2 e [] kids kids ∧
            ∃ k, extractFormatStr e _ _ (.scope { mm with tmpl := 0 } (ms2Result e [] kids kids)) = .ok k
          rw [hself]
          exact ⟨(hsideself hnc0 hk.1).1, (hsideself hnc0 hk.1).2, hk.2.1⟩
        · obtain ⟨s, hs, rfl⟩ := List.mem_map.mp hx
          show ms2NoClash [] kids (ms2Result e [] kids s.children) = true ∧
            KeysDefinedMS2 e [] kids (ms2Result e [] kids s.children) ∧
            ∃ k, extractFormatStr e _ _
              (.scope { mm with tmpl := 0 } (ms2Result e [] kids (ms2Result e [] kids s.children))) = .ok k
          rw [hidem s.children]
          have h1 := hside s.children (hall s hs) (hk.2.2 s hs).1
          exact ⟨h1.1, h1.2, (hk.2.2 s hs).2⟩
      have hmemS : ∀ s ∈ scopesNamed mm.name (FM ++ R),
          s ∈ scopesNamed mm.name (FM ++ S) ∨ s ∈ ms2Block e (.scope mm kids) (FM ++ S) := by
        intro s hs
        rw [scopesNamed_append_ms3, hscR, List.mem_append] at hs
        rcases hs with hs | hs
        · exact .inl (by rw [scopesNamed_append_ms3]; exact List.mem_append_left _ hs)
        · exact .inr hs
      constructor
      · rw [ms2NoClashObj]
        simp only [hmult, if_true, Bool.and_eq_true, List.all_eq_true]
        refine ⟨?_, hnc0, ?_⟩
        · rw [defsNamed_append_ms3, hdn.1, hdnR]; rfl
        · intro s hs
          rcases hmemS s hs with h | h
          · exact hall s h
          · exact (hobj s h).1
      · rw [KeysDefinedMS2Obj]
        simp only [hmult, if_true]
        refine ⟨hk.1, hk.2.1, ?_⟩
        intro s hs
        rcases hmemS s hs with h | h
        · exact hk.2.2 s h
        · exact ⟨(hobj s h).2.1, (hobj s h).2.2⟩
    | false =>
      have hFMnil : FM = [] := hnm hmult
      subst hFMnil
      simp only [hmult, Bool.false_eq_true, if_false, List.nil_append, Bool.and_eq_true] at hnc hk hv' hdnR ⊢
      have hb : ms2Block e (.scope mm kids) S = [ms2Cand e mm kids (srcStep S mm.name)] := by
        rw [ms2Block]; simp only [hmult, Bool.false_eq_true, if_false]
      have h1 : srcStep R mm.name = ms2Result e [] kids (srcStep S mm.name) := by
        rw [srcStep_of_view_ms _ _ _ hv', hb]; simp [Obj.children]
      have h2 := hside _ hnc.2 hk
      constructor
      · rw [ms2NoClashObj, hdnR, h1]
        simp only [hmult, Bool.false_eq_true, if_false, List.isEmpty_nil, Bool.true_and]
        exact h2.1
      · rw [KeysDefinedMS2Obj]
        simp only [hmult, Bool.false_eq_true, if_false]
        rw [h1]
        exact h2.2

theorem ms2Side_self_ms3 (e : Envs) (mo : Obj) (FM R : List Obj) (hto : MS2Obj mo)
    (hen : mo.meta.disabled = false) (hr : RefetchTree [mo])
    (hFM : ∀ x ∈ FM, x.meta.disabled = false ∧ x.name = mo.name)
    (hnm : isMultiple mo = false → FM = [])
    (hbody : ∀ mm kids, mo = .scope mm kids → BodyOK_ms3 e kids ∧ SideOK_ms3 e kids)
    (hnc : ms2NoClashObj mo (FM ++ []) = true) (hk : KeysDefinedMS2Obj e mo (FM ++ []))
    (hv : activeNamed mo.name R = mo :: FM) :
    ms2NoClashObj mo (FM ++ R) = true ∧ KeysDefinedMS2Obj e mo (FM ++ R) := by
  rw [List.append_nil] at hnc hk
  cases mo with
  | defn mm mws =>
    rw [MS2Obj] at hto
    have hr' := hr (.defn mm mws) (.here (List.mem_singleton.mpr rfl) hen) rfl
    have hv' : activeNamed mm.name R = .defn mm mws :: FM := hv
    have hFM' : ∀ x ∈ FM, x.meta.disabled = false ∧ x.name = mm.name := hFM
    rw [ms2NoClashObj, List.isEmpty_iff] at hnc
    have hscR : scopesNamed mm.name R = scopesNamed mm.name FM := by
      rw [scopesNamed_eq_filter_tree, hv', scopesNamed_eq_filter_tree, activeNamed_self_ms3 _ _ hFM']
      rfl
    have hdnR : defsNamed mm.name R = .defn mm mws :: defsNamed mm.name FM := by
      rw [defsNamed_eq_filter_tree, hv', defsNamed_eq_filter_tree, activeNamed_self_ms3 _ _ hFM']
      rfl
    constructor
    · rw [ms2NoClashObj, scopesNamed_append_ms3, hscR, hnc]; rfl
    · rw [KeysDefinedMS2Obj] at hk ⊢
      intro hmult
      obtain ⟨hk0, hcand⟩ := hk hmult
      refine ⟨hk0, ?_⟩
      intro d hd
      rw [defsNamed_append_ms3, hdnR, List.mem_append, List.mem_cons] at hd
      rcases hd with hd | rfl | hd
      · exact hcand d hd
      · rw [candOfSrc_self_ms mm mws hr'.1 hr'.2.1]; exact hk0
      · exact hcand d hd
  | scope mm kids =>
    obtain ⟨⟨hidem, hself⟩, hside, hsideself⟩ := hbody mm kids rfl
    have hv' : activeNamed mm.name R = .scope mm kids :: FM := hv
    have hFM' : ∀ x ∈ FM, x.meta.disabled = false ∧ x.name = mm.name := hFM
    have hscR : scopesNamed mm.name R = .scope mm kids :: scopesNamed mm.name FM := by
      rw [scopesNamed_eq_filter_tree, hv', scopesNamed_eq_filter_tree, activeNamed_self_ms3 _ _ hFM']
      rfl
    have hdnR : defsNamed mm.name R = defsNamed mm.name FM := by
      rw [defsNamed_eq_filter_tree, hv', defsNamed_eq_filter_tree, activeNamed_self_ms3 _ _ hFM']
      rfl
    rw [ms2NoClashObj] at hnc
    rw [KeysDefinedMS2Obj] at hk
    cases hmult : (mm.attrs.get "multiple").truthy with
    | true =>
      simp only [hmult, if_true, Bool.and_eq_true, List.all_eq_true] at hnc hk
      obtain ⟨hdn, hnc0, hall⟩ := hnc
      rw [List.isEmpty_iff] at hdn
      have h2 := hsideself hnc0 hk.1
      have hmemS : ∀ s ∈ scopesNamed mm.name (FM ++ R), s ∈ scopesNamed mm.name FM ∨ s = .scope mm kids := by
        intro s hs
        rw [scopesNamed_append_ms3, hscR, List.mem_append, List.mem_cons] at hs
        rcases hs with hs | rfl | hs
        · exact .inl hs
        · exact .inr rfl
        · exact .inl hs
      constructor
      · rw [ms2NoClashObj]
        simp only [hmult, if_true, Bool.and_eq_true, List.all_eq_true]
        refine ⟨?_, hnc0, ?_⟩
        · rw [defsNamed_append_ms3, hdnR, hdn]; rfl
        · intro s hs
          rcases hmemS s hs with h | rfl
          · exact hall s h
          · exact h2.1
      · rw [KeysDefinedMS2Obj]
        simp only [hmult, if_true]
        refine ⟨hk.1, hk.2.1, ?_⟩
        intro s hs
        rcases hmemS s hs with h | rfl
        · exact hk.2.2 s h
        · refine ⟨h2.2, ?_⟩
          show ∃ k, extractFormatStr e _ _ (.scope { mm with tmpl := 0 } (ms2Result e [] kids kids)) = .ok k
          rw [hself]
          exact hk.2.1
    | false =>
      have hFMnil : FM = [] := hnm hmult
      subst hFMnil
      simp only [hmult, Bool.false_eq_true, if_false, List.nil_append, Bool.and_eq_true] at hnc hk hv' hdnR ⊢
      have h1 : srcStep R mm.name = kids := by
        rw [srcStep_of_view_ms _ _ _ hv']; simp [Obj.children]
      have h0 : srcStep [] mm.name = [] := rfl
      rw [h0] at hnc hk
      have h2 := hsideself hnc.2 hk
      constructor
      · rw [ms2NoClashObj, hdnR, h1]
        simp only [hmult, Bool.false_eq_true, if_false, Bool.and_eq_true]
        exact ⟨rfl, h2.1⟩
      · rw [KeysDefinedMS2Obj]
        simp only [hmult, Bool.false_eq_true, if_false]
        rw [h1]
        exact h2.2

/-- the side conditions of a re-fetch — by induction on the nesting depth -/
theorem ms2_side_ok_ms3 (e : Envs) : ∀ (n : Nat) (l : List Obj), depthL l < n → MSMaster2 l → RefetchTree l →
    SideOK_ms3 e l := by
  intro n
  induction n with
  | zero => intro l h; exact absurd h (Nat.not_lt_zero _)
  | succ n ih =>
    intro l hd hf hr
    have hbody : ∀ p ∈ firstsT_ms3 [] l, ∀ mm kids, p.1 = .scope mm kids →
        BodyOK_ms3 e kids ∧ SideOK_ms3 e kids := by
      intro p hp mm kids hpk
      obtain ⟨hmem, hen, _⟩ := mem_firstsT_ms3 l [] p hp
      rw [hpk] at hmem hen
      have hd1 := depthT_le_depthL l _ hmem
      rw [depthT] at hd1
      have hkm := MSMaster2.of_scope (hf.obj _ hmem)
      have hrk := (hr.of_mem_ms3 hmem).kids hen
      exact ⟨ms2_body_ok_ms3 e _ kids (Nat.lt_succ_self _) hkm hrk, ih kids (by omega) hkm hrk⟩
    constructor
    · intro S hnc hk
      rw [ms2NoClash_eq_all_ms3, List.all_eq_true] at hnc
      have key : ∀ p ∈ firstsT_ms3 [] l,
          ms2NoClashObj p.1 (p.2 ++ ms2Result e [] l S) = true ∧
            KeysDefinedMS2Obj e p.1 (p.2 ++ ms2Result e [] l S) := by
        intro p hp
        obtain ⟨hmem, hen, hFMmem⟩ := mem_firstsT_ms3 l [] p hp
        exact ms2Side_refetch_ms3 e p.1 p.2 S _ (hf.obj _ hmem) hen (hr.of_mem_ms3 hmem)
          (firstsT_nonmulti_ms3 l [] [] (fun _ => rfl) hf.firsts p hp) (hbody p hp)
          (hnc p hp) (hk.obj p hp) (view_ms3 e l S hf p hp)
      constructor
      · rw [ms2NoClash_eq_all_ms3, List.all_eq_true]
        exact fun p hp => (key p hp).1
      · exact KeysDefinedMS2.of_forall (fun p hp => (key p hp).2)
    · intro hnc hk
      rw [ms2NoClash_eq_all_ms3, List.all_eq_true] at hnc
      have key : ∀ p ∈ firstsT_ms3 [] l,
          ms2NoClashObj p.1 (p.2 ++ l) = true ∧ KeysDefinedMS2Obj e p.1 (p.2 ++ l) := by
        intro p hp
        obtain ⟨hmem, hen, hFMmem⟩ := mem_firstsT_ms3 l [] p hp
        exact ms2Side_self_ms3 e p.1 p.2 l (hf.obj _ hmem) hen (hr.of_mem_ms3 hmem)
          (fun x hx => (hFMmem x hx).2)
          (firstsT_nonmulti_ms3 l [] [] (fun _ => rfl) hf.firsts p hp) (hbody p hp)
          (hnc p hp) (hk.obj p hp) (view_self_ms3 l p hp)
      constructor
      · rw [ms2NoClash_eq_all_ms3, List.all_eq_true]
        exact fun p hp => (key p hp).1
      · exact KeysDefinedMS2.of_forall (fun p hp => (key p hp).2)

/-- the result never clashes with its master, and its keys are defined -/
theorem ms2Side_result (e : Envs) (mkids srcs : List Obj) (hf : MSMaster2 mkids) (hr : RefetchTree mkids)
    (hnc : ms2NoClash [] mkids srcs = true) (hk : KeysDefinedMS2 e [] mkids srcs) :
    ms2NoClash [] mkids (ms2Result e [] mkids srcs) = true ∧
      KeysDefinedMS2 e [] mkids (ms2Result e [] mkids srcs) :=
  (ms2_side_ok_ms3 e _ mkids (Nat.lt_succ_self _) hf hr).1 srcs hnc hk

/-- **C07.**  Fetching the result again, as the only source, returns the same result (and cannot fail). -/
theorem ms2_refetch_idempotent (e : Envs) (fuel : Nat) (sm : Meta) (mkids srcs : List Obj)
    (hf : MSMaster2 mkids) (hfuel : depthL mkids + 1 ≤ fuel) (hsd : sm.disabled = false)
    (hr : RefetchTree mkids) (hdol : SrcNoDollar srcs) (hnc : ms2NoClash [] mkids srcs = true)
    (hkeys : KeysDefinedMS2 e [] mkids srcs) :
    fetchScope e fuel false sm mkids (ms2Result e [] mkids srcs) =
      .ok (.scope { sm with tmpl := 0 } (ms2Result e [] mkids srcs),
           ms2Used [] mkids (ms2Result e [] mkids srcs)) := by
  have hside := ms2Side_result e mkids srcs hf hr hnc hkeys
  rw [fetch_ms2_total e fuel sm mkids _ hf hfuel hsd (srcTree_ms2Result e mkids srcs hf hr hdol)
    (srcTree_of_refetch_ms2 mkids hf hr) hside.2, hside.1, ms2Result_idem e mkids srcs hf hr]
  rfl

/-- **C07 (the master as an extra source).**  Fetching the master's own body gives the same result as
    fetching nothing (when the master does not clash with itself — else both fail). -/
theorem ms2_fetch_self (e : Envs) (fuel : Nat) (sm : Meta) (mkids : List Obj)
    (hf : MSMaster2 mkids) (hfuel : depthL mkids + 1 ≤ fuel) (hsd : sm.disabled = false)
    (hr : RefetchTree mkids) (hnc : ms2NoClash [] mkids [] = true) (hkeys : KeysDefinedMS2 e [] mkids []) :
    fetchScope e fuel false sm mkids mkids =
      .ok (.scope { sm with tmpl := 0 } (ms2Result e [] mkids []), ms2Used [] mkids mkids) := by
  have hside := (ms2_side_ok_ms3 e _ mkids (Nat.lt_succ_self _) hf hr).2 hnc hkeys
  have hst := srcTree_of_refetch_ms2 mkids hf hr
  rw [fetch_ms2_total e fuel sm mkids _ hf hfuel hsd hst hst hside.2, hside.1, ms2Result_self e mkids hf hr]
  rfl

theorem ms2Block_plain_length (e : Envs) (mo : Obj) (cands : List Obj) (hnm : isMultiple mo = false) :
    (ms2Block e mo cands).length = 1 := by
  cases mo with
  | defn mm mws =>
    rw [ms2Block, tmBlock]
    simp only [hnm, Bool.false_eq_true, if_false, List.length_singleton]
  | scope mm kids =>
    have h : (mm.attrs.get "multiple").truthy = false := hnm
    rw [ms2Block]
    simp only [h, Bool.false_eq_true, if_false, List.length_singleton]

end Phil
