/-
  Phil.Proofs.FetchTreeMS2 — specification of scope.fetch (non-diff) for masters that REPEAT the name of a
  `.multiple` object (further master occurrences), extending Phil/Proofs/FetchTreeMS.lean.
  The further occurrences of a `.multiple` object contribute candidates BEFORE the sources (`fromMaster` in
  `fetchScope`) and no block of their own: the first occurrence sees its later same-name siblings as
  leading sources.
    1. specification `ms2Result` (`ms2Block`), class `MS2Master` (executable `ms2MasterB`);
    2. on masters with pairwise distinct sibling names it is `msResult` (`ms2Result_eq_msResult`).
  The operational theorem (`fetchScope = ms2Result`) is NOT proved here; the specification is validated
  against the real library and against the model (see Props/C05TreeMS2.lean).
-/
import Phil.Proofs.FetchTreeMS
set_option linter.unusedVariables false
namespace Phil

/-! ## 1. specification -/

mutual
/-- the block of the FIRST occurrence `mo`, `cands` being its later enabled same-name siblings followed
    by the source objects at its level (only the objects named like `mo` matter) -/
def ms2Block (e : Envs) : Obj → List Obj → List Obj
  | .defn mm mws, cands => tmBlock e (.defn mm mws) cands
  | .scope mm kids, cands =>
    if (mm.attrs.get "multiple").truthy then
      msMultiBlock (.scope mm kids) (.scope { mm with tmpl := 0 } (ms2Result e [] kids []))
        (keyMS e (.scope mm kids) (.scope { mm with tmpl := 0 } (ms2Result e [] kids [])))
        ((scopesNamed mm.name cands).map (fun s =>
          (Obj.scope { mm with tmpl := 0 } (ms2Result e [] kids s.children),
           keyMS e (.scope mm kids) (Obj.scope { mm with tmpl := 0 } (ms2Result e [] kids s.children)))))
    else [.scope { mm with tmpl := 0 } (ms2Result e [] kids (srcStep cands mm.name))]
/-- the children of the result: the blocks of the first occurrences, in master order; `seen` are the
    names of the enabled objects met so far (a later object of a seen name contributes no block) -/
def ms2Result (e : Envs) : List Str → List Obj → List Obj → List Obj
  | _, [], _ => []
  | seen, mo :: rest, srcs =>
    if mo.meta.disabled || seen.contains mo.name then ms2Result e seen rest srcs
    else ms2Block e mo (activeNamed mo.name rest ++ srcs) ++ ms2Result e (mo.name :: seen) rest srcs
end

mutual
def ms2NoClashObj : Obj → List Obj → Bool
  | .defn mm _, cands => (scopesNamed mm.name cands).isEmpty
  | .scope mm kids, cands =>
    (defsNamed mm.name cands).isEmpty &&
      (if (mm.attrs.get "multiple").truthy then
        ms2NoClash [] kids [] && (scopesNamed mm.name cands).all (fun s => ms2NoClash [] kids s.children)
       else ms2NoClash [] kids (srcStep cands mm.name))
/-- no clash of kinds — among the sources AND among the further master occurrences (a `.multiple` scope's
    own body is fetched without sources for the master key, so it must not clash with itself either) -/
def ms2NoClash : List Str → List Obj → List Obj → Bool
  | _, [], _ => true
  | seen, mo :: rest, srcs =>
    if mo.meta.disabled || seen.contains mo.name then ms2NoClash seen rest srcs
    else ms2NoClashObj mo (activeNamed mo.name rest ++ srcs) && ms2NoClash (mo.name :: seen) rest srcs
end

/-- only `.multiple` names repeat: every enabled object whose name was met before (among the enabled
    ones) follows a `.multiple` first occurrence -/
def firstsOK_ms2 : List (Str × Bool) → List Obj → Bool
  | _, [] => true
  | seen, o :: os =>
    if o.meta.disabled then firstsOK_ms2 seen os
    else match seen.find? (fun p => p.1 == o.name) with
      | some p => p.2 && firstsOK_ms2 seen os
      | none => firstsOK_ms2 ((o.name, isMultiple o) :: seen) os

mutual
def ms2ObjB : Obj → Bool
  | .defn mm _ => defnMetaB_tm mm && !mm.name.isEmpty && !mm.name.contains '.'
  | .scope mm kids => !mm.name.isEmpty && !mm.name.contains '.' && ms2KidsB kids && firstsOK_ms2 [] kids
def ms2KidsB : List Obj → Bool
  | [] => true
  | o :: os => ms2ObjB o && ms2KidsB os
end

/-- **the class `MS2Master`** (executable): as `MSMaster`, except that objects may be disabled and the name
    of a `.multiple` object may be repeated by later siblings (further occurrences) -/
def ms2MasterB (mkids : List Obj) : Bool := ms2KidsB mkids && firstsOK_ms2 [] mkids

/-! ## 2. conservative extension: with pairwise distinct sibling names it is `msResult` -/

theorem activeNamed_nil_of_distinct_ms2 (n : Str) (rest : List Obj) (h : ∀ o ∈ rest, n ≠ o.name) :
    activeNamed n rest = [] := by
  unfold activeNamed
  rw [List.filter_eq_nil_iff]
  intro o ho
  have := h o ho
  simp only [Bool.and_eq_true, Bool.not_eq_true', beq_iff_eq, not_and]
  intro _ heq
  exact this heq.symm

mutual
theorem ms2Block_eq_msBlock (e : Envs) : ∀ (mo : Obj) (cands : List Obj), MSObj mo →
    ms2Block e mo cands = msBlock e mo cands
  | .defn mm mws, cands, _ => by rw [ms2Block, msBlock]
  | .scope mm kids, cands, ht => by
    have hk := MSMaster.of_scope ht
    have ih : ∀ S, ms2Result e [] kids S = msResult e kids S :=
      fun S => ms2Result_eq_msResult_aux e kids [] S hk.kids hk.distinct (fun o _ => by simp)
    rw [ms2Block, msBlock]
    simp only [ih]
theorem ms2Result_eq_msResult_aux (e : Envs) : ∀ (l : List Obj) (seen : List Str) (srcs : List Obj),
    MSKids l → (l.map Obj.name).Pairwise (· ≠ ·) → (∀ o ∈ l, seen.contains o.name = false) →
    ms2Result e seen l srcs = msResult e l srcs
  | [], seen, srcs, _, _, _ => by rw [ms2Result, msResult]
  | mo :: rest, seen, srcs, ht, hd, hs => by
    rw [MSKids] at ht
    rw [List.map_cons, List.pairwise_cons] at hd
    have hen : mo.meta.disabled = false := ht.1.enabled
    have hseen := hs mo List.mem_cons_self
    have hne : ∀ o ∈ rest, mo.name ≠ o.name := fun o ho => hd.1 _ (List.mem_map.mpr ⟨o, ho, rfl⟩)
    rw [ms2Result, msResult]
    simp only [hen, hseen, Bool.or_self, Bool.false_eq_true, if_false]
    rw [activeNamed_nil_of_distinct_ms2 mo.name rest hne, List.nil_append,
      ms2Block_eq_msBlock e mo srcs ht.1,
      ms2Result_eq_msResult_aux e rest (mo.name :: seen) srcs ht.2 hd.2 (by
        intro o ho
        have h1 := hs o (List.mem_cons_of_mem _ ho)
        have h2 := hne o ho
        simp only [List.contains_cons, Bool.or_eq_false_iff]
        exact ⟨by simpa using fun h => h2 h.symm, h1⟩)]
end

/-- **conservative extension**: on `MSMaster` masters (one occurrence per name) the specification with
    further occurrences is the specification of Phil/Proofs/FetchTreeMS.lean -/
theorem ms2Result_eq_msResult (e : Envs) (mkids srcs : List Obj) (hf : MSMaster mkids) :
    ms2Result e [] mkids srcs = msResult e mkids srcs :=
  ms2Result_eq_msResult_aux e mkids [] srcs hf.kids hf.distinct (fun o _ => by simp)


end Phil
