/-
  Helper lemmas for Phil/Props/C17FetchHeap.lean: the heap-level fetch `fetchH` (Phil/HeapFetch2.lean) only
  appends cells, only marks definition cells, and its result has the shape `ResShape`.
-/
import Phil.HeapFetch2
import Phil.Proofs.HeapLemmas
namespace Phil.Heap
open Phil

theorem getElem?_append_some {h : Heap} {x : Nat} {n : Node} (ext : Heap) (hx : h[x]? = some n) :
    (h ++ ext)[x]? = some n := by
  have hlt : x < h.length := by
    rcases Nat.lt_or_ge x h.length with hl | hl
    · exact hl
    · rw [List.getElem?_eq_none hl] at hx; cases hx
  rw [List.getElem?_append_left hlt]; exact hx

theorem lt_of_getElem?_some {h : Heap} {x : Nat} {n : Node} (hx : h[x]? = some n) : x < h.length := by
  rcases Nat.lt_or_ge x h.length with hl | hl
  · exact hl
  · rw [List.getElem?_eq_none hl] at hx; cases hx

theorem assign_last (h : Heap) (n : Node) (a : Assign) : assign (h ++ [n]) h.length a = h ++ [n.assign a] := by
  unfold assign
  rw [List.getElem?_append_right (Nat.le_refl _), Nat.sub_self]
  simp

/-- the cell `customized_copy` makes from the cell `n` -/
def ccNode (n : Node) (name : Option Str) (ws : Option (List Word)) (ks : Option (List Nat)) : Node :=
  let n1 := match name with | some nm => n.assign (.slot fun m => { m with name := nm }) | none => n
  let n2 := match ws with | some w => n1.assign (.words w) | none => n1
  let n3 := match ks with | some k => n2.assign (.objects k) | none => n2
  n3.assign (.slot fun m => { m with tmpl := 0 })

theorem customizedCopy_eq {h : Heap} {x : Nat} {name : Option Str} {ws : Option (List Word)} {ks : Option (List Nat)}
    {h' : Heap} {c : Nat} (hc : customizedCopy h x name ws ks = some (h', c)) :
    ∃ n, h[x]? = some n ∧ c = h.length ∧ h' = h ++ [ccNode n name ws ks] := by
  unfold customizedCopy at hc
  cases hcp : copy h x with
  | none => rw [hcp] at hc; simp at hc
  | some r =>
    obtain ⟨h1, c1⟩ := r
    rw [hcp] at hc
    obtain ⟨n, hn, rfl, rfl⟩ := copy_eq hcp
    simp only [Option.some.injEq, Prod.mk.injEq] at hc
    obtain ⟨rfl, rfl⟩ := hc
    refine ⟨n, hn, rfl, ?_⟩
    cases name <;> cases ws <;> cases ks <;> simp only [assign_last] <;> rfl

theorem fetchTemplate_eq' {h : Heap} {x : Nat} {t : Int} {h' : Heap} {c : Nat}
    (hf : fetchTemplate h x t = some (h', c)) :
    ∃ n, h[x]? = some n ∧ c = h.length ∧
      h' = h ++ [n.assign (.slot fun m => { m with tmpl := t })] := by
  unfold fetchTemplate at hf
  cases hc : copy h x with
  | none => rw [hc] at hf; cases hf
  | some r =>
    obtain ⟨h1, c1⟩ := r
    rw [hc] at hf
    obtain ⟨n, hn, rfl, rfl⟩ := copy_eq hc
    simp only [Option.some.injEq, Prod.mk.injEq] at hf
    obtain ⟨rfl, rfl⟩ := hf
    exact ⟨n, hn, rfl, assign_last _ _ _⟩

/-! ### what a run may change -/

def IsDefnCell (h : Heap) (i : Nat) : Prop := ∃ m ws p, h[i]? = some (.defn m ws p)

theorem IsDefnCell.append {h : Heap} {i : Nat} (hd : IsDefnCell h i) (ext : Heap) : IsDefnCell (h ++ ext) i := by
  obtain ⟨m, ws, p, hi⟩ := hd
  exact ⟨m, ws, p, getElem?_append_some ext hi⟩

/-- `s'` comes from `s` by allocating cells and by writing `tmp = True` to definition cells: the heap only grows
    (no existing cell is written), the marks are appended and are definition cells -/
structure HExt (s s' : HS) : Prop where
  heap : ∃ ext, s'.heap = s.heap ++ ext
  tmp : ∃ t, s'.tmp = s.tmp ++ t ∧ ∀ i ∈ t, IsDefnCell s'.heap i

theorem HExt.refl (s : HS) : HExt s s := ⟨⟨[], by simp⟩, ⟨[], by simp, by simp⟩⟩

theorem HExt.trans {s1 s2 s3 : HS} (a : HExt s1 s2) (b : HExt s2 s3) : HExt s1 s3 := by
  obtain ⟨⟨e1, h1⟩, ⟨t1, ht1, hd1⟩⟩ := a
  obtain ⟨⟨e2, h2⟩, ⟨t2, ht2, hd2⟩⟩ := b
  refine ⟨⟨e1 ++ e2, by rw [h2, h1, List.append_assoc]⟩, ⟨t1 ++ t2, by rw [ht2, ht1, List.append_assoc], ?_⟩⟩
  intro i hi
  rcases List.mem_append.mp hi with h | h
  · rw [h2]; exact (hd1 i h).append e2
  · exact hd2 i h

theorem HExt.alloc (s : HS) (ext : Heap) : HExt s { s with heap := s.heap ++ ext } :=
  ⟨⟨ext, rfl⟩, ⟨[], by simp, by simp⟩⟩

theorem HExt.length_le {s s' : HS} (a : HExt s s') : s.heap.length ≤ s'.heap.length := by
  obtain ⟨⟨e1, h1⟩, _⟩ := a
  rw [h1, List.length_append]; omega

theorem HExt.get {s s' : HS} (a : HExt s s') {x : Nat} {n : Node} (hx : s.heap[x]? = some n) : s'.heap[x]? = some n := by
  obtain ⟨⟨e1, h1⟩, _⟩ := a
  rw [h1]; exact getElem?_append_some e1 hx

theorem HExt.get_lt {s s' : HS} (a : HExt s s') {x : Nat} (hx : x < s.heap.length) : s'.heap[x]? = s.heap[x]? := by
  obtain ⟨⟨e1, h1⟩, _⟩ := a
  rw [h1]; exact List.getElem?_append_left hx

theorem ClosedBelow.append {h : Heap} {n0 : Nat} (hc : ClosedBelow h n0) (hn : n0 ≤ h.length) (ext : Heap) :
    ClosedBelow (h ++ ext) n0 := by
  intro i nd hi hnd k hk
  rw [List.getElem?_append_left (by omega)] at hnd
  exact hc i nd hi hnd k hk

theorem HExt.closed {s s' : HS} (a : HExt s s') {n0 : Nat} (hc : ClosedBelow s.heap n0) (hn : n0 ≤ s.heap.length) :
    ClosedBelow s'.heap n0 := by
  obtain ⟨⟨e1, h1⟩, _⟩ := a
  rw [h1]; exact hc.append hn e1

/-! ### the shape of a fetch result -/

/-- The object graph below a result object, seen from `n0` old cells: every result object is a NEW cell
    (`n0 ≤ x`); it is a definition, or a scope all of whose children are again such result objects, or — the
    sharp edge, finding D21 — a TEMPLATE COPY: a new scope cell equal to an OLD scope cell `y < n0` up to
    `is_template = ±1`, holding that old cell's own child list. -/
inductive ResShape (n0 : Nat) (h : Heap) : Nat → Prop
  | defn {x : Nat} {m : Meta} {ws : List Word} {p : Option Nat} :
      n0 ≤ x → h[x]? = some (.defn m ws p) → ResShape n0 h x
  | scope {x : Nat} {m : Meta} {ks : List Nat} {p : Option Nat} :
      n0 ≤ x → h[x]? = some (.scope m ks p) → (∀ k ∈ ks, ResShape n0 h k) → ResShape n0 h x
  | tmpl {x y : Nat} {m : Meta} {ks : List Nat} {p : Option Nat} {t : Int} :
      n0 ≤ x → y < n0 → h[y]? = some (.scope m ks p) → h[x]? = some (.scope { m with tmpl := t } ks p) →
      (t = 1 ∨ t = -1) → ResShape n0 h x

theorem ResShape.append {n0 : Nat} {h : Heap} {x : Nat} (r : ResShape n0 h x) (ext : Heap) :
    ResShape n0 (h ++ ext) x := by
  induction r with
  | defn hx hc => exact .defn hx (getElem?_append_some ext hc)
  | scope hx hc _ ih => exact .scope hx (getElem?_append_some ext hc) ih
  | tmpl hx hy hcy hcx ht => exact .tmpl hx hy (getElem?_append_some ext hcy) (getElem?_append_some ext hcx) ht

theorem ResShape.ext {n0 : Nat} {s s' : HS} {x : Nat} (r : ResShape n0 s.heap x) (a : HExt s s') :
    ResShape n0 s'.heap x := by
  obtain ⟨⟨e1, h1⟩, _⟩ := a
  rw [h1]; exact r.append e1

theorem ResShape.ge {n0 : Nat} {h : Heap} {x : Nat} (r : ResShape n0 h x) : n0 ≤ x := by
  cases r <;> assumption

/-! ### folds -/

theorem foldH_inv {α σ : Type} (step : σ → α → R σ) (Q : σ → Prop)
    (hstep : ∀ st a st', Q st → step st a = .ok st' → Q st') :
    ∀ (l : List α) (st st' : σ), Q st → foldH step st l = .ok st' → Q st'
  | [], st, st', hq, hf => by
    simp only [foldH, Except.ok.injEq] at hf
    exact hf ▸ hq
  | a :: as, st, st', hq, hf => by
    simp only [foldH] at hf
    split at hf
    · cases hf
    · rename_i s1 hs
      exact foldH_inv step Q hstep as s1 st' (hstep st a s1 hq hs) hf

/-! ### `definition.fetch` -/

theorem fetchValueH_spec {mid sid : Nat} {s s' : HS} {ro : Option Nat} (n0 : Nat) (hn0 : n0 ≤ s.heap.length)
    (hf : fetchValueH mid sid s = .ok (s', ro)) :
    HExt s s' ∧ ∀ r, ro = some r → ResShape n0 s'.heap r := by
  unfold fetchValueH at hf
  split at hf
  · rename_i mm mws mp smeta sws sp hm hs
    split at hf
    · cases hf
    · split at hf
      · cases hf
      · rename_i r hr
        split at hf
        · cases hf
        · rename_i h2 c2 hcc
          obtain ⟨n, hn, rfl, rfl⟩ := customizedCopy_eq hcc
          have hsd : IsDefnCell s.heap sid := ⟨_, _, _, hs⟩
          split at hf
          · simp only [Except.ok.injEq, Prod.mk.injEq] at hf
            obtain ⟨rfl, rfl⟩ := hf
            refine ⟨⟨⟨_, rfl⟩, ⟨[sid], rfl, ?_⟩⟩, by intro r hr; cases hr⟩
            intro i hi
            simp only [List.mem_singleton] at hi
            subst hi
            exact hsd.append _
          · rename_i ro'
            split at hf
            · cases hf
            · rename_i h3 c hcc3
              obtain ⟨n3, hn3, rfl, rfl⟩ := customizedCopy_eq hcc3
              simp only [Except.ok.injEq, Prod.mk.injEq] at hf
              obtain ⟨rfl, rfl⟩ := hf
              have hm' : (s.heap ++ [ccNode n none (some sws) none])[mid]? = some (.defn mm mws mp) :=
                getElem?_append_some _ hm
              rw [hm'] at hn3
              cases hn3
              refine ⟨⟨⟨_, List.append_assoc _ _ _⟩, ⟨[sid], rfl, ?_⟩⟩, ?_⟩
              · intro i hi
                simp only [List.mem_singleton] at hi
                subst hi
                exact (hsd.append _).append _
              · intro r hr
                cases hr
                refine .defn (m := { mm with tmpl := 0 }) (ws := objWords ro') (p := mp)
                  (by simp only [List.length_append, List.length_singleton]; omega) ?_
                show (s.heap ++ [ccNode n none (some sws) none] ++ _)[(s.heap ++ [ccNode n none (some sws) none]).length]? = _
                rw [List.getElem?_append_right (Nat.le_refl _), Nat.sub_self]
                rfl
  · cases hf
  · cases hf

/-! ### the loops of `scope.fetch` -/

/-- what the callee one level down guarantees -/
def RecOK (n0 : Nat) (rec : Nat → List Nat → HS → R (HS × Nat)) : Prop :=
  ∀ self combined s s' r, n0 ≤ s.heap.length → ClosedBelow s.heap n0 → self < n0 →
    rec self combined s = .ok (s', r) → HExt s s' ∧ ResShape n0 s'.heap r

theorem mem_of_mem_zipIdx {α : Type} : ∀ (l : List α) (k : Nat) (xi : α × Nat), xi ∈ l.zipIdx k → xi.1 ∈ l
  | [], _, _, h => by simp at h
  | a :: as, k, xi, h => by
    rw [List.zipIdx_cons] at h
    rcases List.mem_cons.mp h with h | h
    · subst h; simp
    · exact List.mem_cons_of_mem _ (mem_of_mem_zipIdx as (k + 1) xi h)

theorem candH_spec {rec : Nat → List Nat → HS → R (HS × Nat)} {n0 : Nat} (hrec : RecOK n0 rec)
    {mid ms : Nat} {s s2 : HS} {co : Option Nat} (hmid : mid < n0) (hlen : n0 ≤ s.heap.length)
    (hcl : ClosedBelow s.heap n0) (hc : candH rec mid ms s = .ok (s2, co)) :
    HExt s s2 ∧ ∀ r, co = some r → ResShape n0 s2.heap r := by
  unfold candH at hc
  split at hc
  · exact fetchValueH_spec n0 hlen hc
  · split at hc
    · rename_i sk _ _
      split at hc
      · cases hc
      · rename_i s3 r3 hr
        simp only [Except.ok.injEq, Prod.mk.injEq] at hc
        obtain ⟨rfl, rfl⟩ := hc
        obtain ⟨h1, h2⟩ := hrec mid sk s s3 r3 hlen hcl hmid hr
        exact ⟨h1, by intro r hr'; cases hr'; exact h2⟩
    · cases hc
    · cases hc
  · cases hc

theorem selfFetchH_spec {rec : Nat → List Nat → HS → R (HS × Nat)} {n0 : Nat} (hrec : RecOK n0 rec)
    {mo : Obj} {mid : Nat} {s s2 : HS} {co : Option Nat} (hmid : mid < n0) (hlen : n0 ≤ s.heap.length)
    (hcl : ClosedBelow s.heap n0) (hc : selfFetchH rec mo mid s = .ok (s2, co)) : HExt s s2 := by
  unfold selfFetchH at hc
  split at hc
  · split at hc
    · cases hc
    · rename_i s3 r3 hr
      simp only [Except.ok.injEq, Prod.mk.injEq] at hc
      obtain ⟨rfl, _⟩ := hc
      exact (hrec mid [] s s3 r3 hlen hcl hmid hr).1
  · simp only [Except.ok.injEq, Prod.mk.injEq] at hc
    obtain ⟨rfl, _⟩ := hc
    exact HExt.refl _

theorem bookH_mem {robjs : List (Option Nat)} {processed : List (Str × Int)} {cs ms : Str} {c r : Nat}
    (h : some r ∈ (bookH robjs processed cs ms c).1) : some r ∈ robjs ∨ r = c := by
  unfold bookH at h
  split at h
  · exact .inl h
  · dsimp only at h
    cases hp : processed.find? (fun (p : Str × Int) => p.1 == cs) with
    | none =>
      simp only [hp] at h
      simp only [Bool.false_eq_true, ↓reduceIte, List.mem_append, List.mem_singleton, Option.some.injEq] at h
      exact h
    | some p =>
      simp only [hp] at h
      split at h
      · exact .inl h
      · simp only [List.mem_append, List.mem_singleton, Option.some.injEq] at h
        rcases h with h | h
        · simp only [List.mem_map] at h
          obtain ⟨xi, hxi, hite⟩ := h
          split at hite
          · cases hite
          · exact .inl (hite ▸ mem_of_mem_zipIdx _ _ xi hxi)
        · exact .inr h

/-- invariant of the candidate loop -/
def QC (n0 : Nat) (sA : HS) (acc : HS × List (Option Nat) × List (Str × Int)) : Prop :=
  HExt sA acc.1 ∧ ∀ r, some r ∈ acc.2.1 → ResShape n0 acc.1.heap r

theorem cstepH_spec (e : Envs) {rec : Nat → List Nat → HS → R (HS × Nat)} {n0 : Nat} (hrec : RecOK n0 rec)
    (fuel : Nat) (mo : Obj) (mid : Nat) (masterStr : Str) (hmid : mid < n0) (sA : HS)
    (hA : n0 ≤ sA.heap.length) (hcl : ClosedBelow sA.heap n0)
    (acc : HS × List (Option Nat) × List (Str × Int)) (fm : Bool × Nat)
    (acc' : HS × List (Option Nat) × List (Str × Int))
    (hq : QC n0 sA acc) (hf : cstepH e rec fuel mo mid masterStr acc fm = .ok acc') : QC n0 sA acc' := by
  obtain ⟨hext, hres⟩ := hq
  have hlen : n0 ≤ acc.1.heap.length := Nat.le_trans hA hext.length_le
  have hcl' : ClosedBelow acc.1.heap n0 := hext.closed hcl hA
  have hcand := fun s2 co => candH_spec (ms := fm.2) (s2 := s2) (co := co) hrec hmid hlen hcl'
  unfold cstepH at hf
  split at hf
  · cases hf
  · rename_i s2 hc
    obtain ⟨h1, _⟩ := hcand s2 none hc
    simp only [Except.ok.injEq] at hf
    subst hf
    exact ⟨hext.trans h1, fun r hr => (hres r hr).ext h1⟩
  · rename_i s2 c hc
    obtain ⟨h1, h2⟩ := hcand s2 (some c) hc
    have hold : ∀ r, some r ∈ acc.2.1 → ResShape n0 s2.heap r := fun r hr => (hres r hr).ext h1
    unfold ctailH at hf
    split at hf
    · cases hf
    · split at hf
      · cases hf
      · simp only [Except.ok.injEq] at hf
        subst hf
        refine ⟨hext.trans h1, ?_⟩
        intro r hr
        rcases bookH_mem hr with hr | hr
        · exact hold r hr
        · subst hr; exact h2 r rfl

/-- invariant of the loop over the active master objects -/
def QS (n0 : Nat) (sA : HS) (st : HS × List Nat) : Prop :=
  HExt sA st.1 ∧ ∀ r ∈ st.2, ResShape n0 st.1.heap r

theorem stepH_spec (e : Envs) {rec : Nat → List Nat → HS → R (HS × Nat)} {n0 : Nat} (hrec : RecOK n0 rec)
    (fuel : Nat) (sm : Meta) (mk : List Nat) (src : Nat) (hmk : ∀ k ∈ mk, k < n0) (sA : HS)
    (hA : n0 ≤ sA.heap.length) (hcl : ClosedBelow sA.heap n0)
    (st : HS × List Nat) (io : Nat × Obj) (st' : HS × List Nat)
    (hq : QS n0 sA st) (hf : stepH e rec fuel sm mk src st io = .ok st') : QS n0 sA st' := by
  obtain ⟨hext, hres⟩ := hq
  have hlen : n0 ≤ st.1.heap.length := Nat.le_trans hA hext.length_le
  have hcl' : ClosedBelow st.1.heap n0 := hext.closed hcl hA
  unfold stepH at hf
  dsimp only at hf
  split at hf
  · cases hf
  · rename_i mid hmidEq
    have hmid : mid < n0 := hmk mid (List.mem_of_getElem? hmidEq)
    split at hf
    · -- not .multiple
      split at hf
      · -- a definition
        rename_i mm mws mp hcell
        split at hf
        · cases hf
        · rename_i s1 r hfold
          have := foldH_inv (fun (acc : HS × Option Nat) (ms : Nat) => fetchValueH mid ms acc.1)
            (fun acc => HExt st.1 acc.1 ∧ ∀ r, acc.2 = some r → ResShape n0 acc.1.heap r)
            (by
              intro a ms a' ⟨ha, _⟩ hs
              obtain ⟨a1, a2⟩ := a'
              obtain ⟨h1, h2⟩ := fetchValueH_spec n0 (Nat.le_trans hlen ha.length_le) hs
              exact ⟨ha.trans h1, h2⟩)
            _ _ _ ⟨HExt.refl _, by intro r hr; cases hr⟩ hfold
          obtain ⟨h1, h2⟩ := this
          simp only [Except.ok.injEq] at hf
          subst hf
          refine ⟨hext.trans h1, ?_⟩
          intro x hx
          rcases List.mem_append.mp hx with hx | hx
          · exact (hres x hx).ext h1
          · simp only [List.mem_singleton] at hx
            subst hx
            exact h2 _ rfl
        · rename_i s1 hfold
          have := foldH_inv (fun (acc : HS × Option Nat) (ms : Nat) => fetchValueH mid ms acc.1)
            (fun acc => HExt st.1 acc.1)
            (by
              intro a ms a' ha hs
              obtain ⟨a1, a2⟩ := a'
              obtain ⟨h1, _⟩ := fetchValueH_spec n0 (Nat.le_trans hlen ha.length_le) hs
              exact ha.trans h1)
            _ _ _ (HExt.refl _) hfold
          have h1 : HExt st.1 s1 := this
          split at hf
          · split at hf
            · cases hf
            · rename_i h2 c hcopy
              obtain ⟨n, hn, rfl, rfl⟩ := copy_eq hcopy
              simp only [Except.ok.injEq] at hf
              subst hf
              have hcell' := h1.get hcell
              rw [hcell'] at hn
              cases hn
              have h2 : HExt s1 { s1 with heap := s1.heap ++ [Node.defn mm mws mp] } := HExt.alloc s1 _
              refine ⟨(hext.trans h1).trans h2, ?_⟩
              intro x hx
              rcases List.mem_append.mp hx with hx | hx
              · exact ((hres x hx).ext h1).ext h2
              · simp only [List.mem_singleton] at hx
                subst hx
                refine .defn (Nat.le_trans hlen h1.length_le) (m := mm) (ws := mws) (p := mp) ?_
                show (s1.heap ++ [Node.defn mm mws mp])[s1.heap.length]? = _
                rw [List.getElem?_append_right (Nat.le_refl _), Nat.sub_self]
                rfl
          · simp only [Except.ok.injEq] at hf
            subst hf
            exact ⟨hext.trans h1, fun x hx => (hres x hx).ext h1⟩
      · -- a scope
        split at hf
        · cases hf
        · split at hf
          · cases hf
          · rename_i s1 r hr
            obtain ⟨h1, h2⟩ := hrec _ _ _ _ _ hlen hcl' hmid hr
            simp only [Except.ok.injEq] at hf
            subst hf
            refine ⟨hext.trans h1, ?_⟩
            intro x hx
            rcases List.mem_append.mp hx with hx | hx
            · exact (hres x hx).ext h1
            · simp only [List.mem_singleton] at hx
              subst hx
              exact h2
      · cases hf
    · -- .multiple
      split at hf
      · cases hf
      · rename_i s1 selfId hself
        have h1 : HExt st.1 s1 := selfFetchH_spec hrec hmid hlen hcl' hself
        have hext1 := hext.trans h1
        split at hf
        · cases hf
        · rename_i masterStr _
          unfold multiTailH at hf
          dsimp only at hf
          split at hf
          · cases hf
          · rename_i s2 robjs processed hfold
            have hlen1 : n0 ≤ s1.heap.length := Nat.le_trans hlen h1.length_le
            have hcl1 : ClosedBelow s1.heap n0 := h1.closed hcl' hlen
            have hqc := foldH_inv _ (QC n0 s1)
              (fun acc fm acc' hq hs => cstepH_spec e hrec fuel io.2 mid masterStr hmid s1 hlen1 hcl1 acc fm acc' hq hs)
              _ _ _ (show QC n0 s1 (s1, [], []) from ⟨HExt.refl _, by intro r hr; cases hr⟩) hfold
            obtain ⟨hext2, hres2⟩ := hqc
            simp only at hext2 hres2
            have h02 : HExt st.1 s2 := h1.trans hext2
            have hinst : ∀ x ∈ robjs.filterMap (fun (x : Option Nat) => x), ResShape n0 s2.heap x := by
              intro x hx
              obtain ⟨a, ha, hax⟩ := List.mem_filterMap.mp hx
              subst hax
              exact hres2 x ha
            split at hf
            · cases hf
            · rename_i h3 c hft
              obtain ⟨n, hn, rfl, rfl⟩ := fetchTemplate_eq' hft
              have h23 := HExt.alloc s2 [n.assign (.slot fun m => { m with tmpl :=
                if (io.2.attr "optional").mandatory then 0 else if processed.isEmpty then 1 else -1 })]
              split at hf
              · rename_i hcond
                split at hf
                · cases hf
                · rename_i s4 r hr
                  have h03 := h02.trans h23
                  obtain ⟨h34, hr4⟩ := hrec _ _ _ _ _ (Nat.le_trans hlen h03.length_le) (h03.closed hcl' hlen) hmid hr
                  simp only [Except.ok.injEq] at hf
                  subst hf
                  refine ⟨(hext.trans h03).trans h34, ?_⟩
                  intro x hx
                  simp only [List.mem_append, List.mem_singleton] at hx
                  rcases hx with (hx | hx) | hx
                  · exact ((hres x hx).ext h03).ext h34
                  · subst hx; exact hr4
                  · exact ((hinst x hx).ext h23).ext h34
              · rename_i hcond
                simp only [Except.ok.injEq] at hf
                subst hf
                refine ⟨(hext.trans h02).trans h23, ?_⟩
                intro x hx
                simp only [List.mem_append, List.mem_singleton] at hx
                rcases hx with (hx | hx) | hx
                · exact ((hres x hx).ext h02).ext h23
                · subst hx
                  have hge : n0 ≤ s2.heap.length := Nat.le_trans hlen h02.length_le
                  cases n with
                  | defn m ws p =>
                    refine .defn hge (m := { m with tmpl :=
                      if (io.2.attr "optional").mandatory then 0 else if processed.isEmpty then 1 else -1 }) (ws := ws) (p := p) ?_
                    show (s2.heap ++ _)[s2.heap.length]? = _
                    rw [List.getElem?_append_right (Nat.le_refl _), Nat.sub_self]
                    rfl
                  | scope m ks p =>
                    have hnd : isDefnAt s2.heap mid = false := by
                      unfold isDefnAt; rw [hn]; rfl
                    rw [hnd] at hcond
                    have hman : (io.2.attr "optional").mandatory = false := by
                      cases hm : (io.2.attr "optional").mandatory with
                      | false => rfl
                      | true => rw [hm] at hcond; simp at hcond
                    refine .tmpl (y := mid) (m := m) (ks := ks) (p := p)
                      (t := if processed.isEmpty then 1 else -1) hge hmid
                      (getElem?_append_some _ hn) ?_ ?_
                    · show (s2.heap ++ _)[s2.heap.length]? = _
                      rw [List.getElem?_append_right (Nat.le_refl _), Nat.sub_self, hman]
                      rfl
                    · cases processed.isEmpty <;> simp
                · exact (hinst x hx).ext h23

/-! ### `scope.fetch` -/

theorem fetchH_spec (e : Envs) (n0 : Nat) : ∀ (fuel : Nat), RecOK n0 (fetchH e fuel)
  | 0 => by
    intro self combined s s' r _ _ _ hf
    simp only [fetchH] at hf
    cases hf
  | fuel + 1 => by
    intro self combined s s' r hlen hcl hself hf
    have ih := fetchH_spec e n0 fuel
    simp only [fetchH] at hf
    split at hf
    · rename_i sm mk sp hcell
      have hmk : ∀ k ∈ mk, k < n0 := fun k hk => hcl self _ hself hcell k hk
      split at hf
      · cases hf
      · rename_i h1 src hcc
        obtain ⟨n, hn, rfl, rfl⟩ := customizedCopy_eq hcc
        split at hf
        · cases hf
        · split at hf
          · cases hf
          · rename_i actives _
            split at hf
            · cases hf
            · rename_i s2 out hfold
              split at hf
              · cases hf
              · rename_i h3 r' hres
                unfold fetchResult at hres
                obtain ⟨n', hn', rfl, rfl⟩ := customizedCopy_eq hres
                simp only [Except.ok.injEq, Prod.mk.injEq] at hf
                obtain ⟨rfl, rfl⟩ := hf
                have hA := HExt.alloc s [ccNode n none none (some combined)]
                have hq := foldH_inv _ (QS n0 { s with heap := s.heap ++ [ccNode n none none (some combined)] })
                  (fun st io st' hq hs => stepH_spec e ih fuel sm mk s.heap.length hmk _
                    (Nat.le_trans hlen hA.length_le) (hA.closed hcl hlen) st io st' hq hs)
                  _ _ _ ⟨HExt.refl _, by intro r hr; cases hr⟩ hfold
                obtain ⟨hext2, hres2⟩ := hq
                simp only at hext2 hres2
                have h02 := hA.trans hext2
                have hcell2 := h02.get hcell
                rw [hcell2] at hn'
                cases hn'
                have h23 := HExt.alloc s2 [ccNode (Node.scope sm mk sp) none none (some out)]
                refine ⟨h02.trans h23, ?_⟩
                refine .scope (m := { sm with tmpl := 0 }) (ks := out) (p := sp)
                  (Nat.le_trans hlen h02.length_le) ?_ (fun k hk => (hres2 k hk).append _)
                show (s2.heap ++ _)[s2.heap.length]? = _
                rw [List.getElem?_append_right (Nat.le_refl _), Nat.sub_self]
                rfl
    · cases hf

end Phil.Heap
