/-
  Denotational specification of `$variable` substitution (property C12) and the lemmas that connect
  it to the operational model Phil/Vars.lean (`lexicalGet`, `resolveWords`, `resolveAt`).

  Part A: the specification (`nearestEarlier`, `denote`, `Numbered`) — no fuel, no lookup loop.
  Part B: lemmas (suffix `_vs`).
-/
import Phil.Proofs.VarsLemmas
set_option linter.unusedSimpArgs false
set_option linter.unusedVariables false
namespace Phil.C12
open Phil

/-! # Part A — the specification -/

/-- the object at a tree position: `[i]` is the `i`-th object of the document, `i :: p` is position
    `p` inside the scope that is the `i`-th object -/
def objAt : List Obj → List Nat → Option Obj
  | _, [] => none
  | objs, [i] => objs[i]?
  | objs, i :: p =>
    match objs[i]? with
    | some (.scope _ kids) => objAt kids p
    | _ => none

/-- the id (document-order number) of the object at a position -/
def idAt (root : List Obj) (pos : List Nat) : Option Nat := (objAt root pos).bind (·.meta.id)

/-- `o` was numbered before `n`: it appears earlier in the source than the object with id `n` -/
def earlier (n : Nat) (o : Obj) : Bool :=
  match o.meta.id with
  | some i => decide (i < n)
  | none => false

/-- the result of `f i o` for the LAST index `i` (counted from `start`) at which it is defined -/
def lastSome {β : Type} (f : Nat → Obj → Option β) : Nat → List Obj → Option β
  | _, [] => none
  | i, o :: rest =>
    match lastSome f (i + 1) rest with
    | some b => some b
    | none => f i o

/-- **One scope.**  The position (relative to `objs`) of the nearest preceding object that the
    dotted name with components `comps` denotes inside the object list `objs`: only objects numbered
    before `n` count; a one-component name matches any object of that name; a longer name matches a
    scope named like its first component in which the remaining components are found; among several
    matches the LAST one in document order wins.  Structural recursion on the components. -/
def findIn (n : Nat) : List Str → List Obj → Option (List Nat)
  | [], _ => none
  | [c], objs =>
    lastSome (fun i o => if earlier n o && o.name == c then some [i] else none) 0 objs
  | c :: cs, objs =>
    lastSome (fun i o =>
      match o with
      | .scope m kids => if earlier n o && m.name == c then (findIn n cs kids).map (i :: ·) else none
      | .defn _ _ => none) 0 objs

/-- **Enclosing scopes, innermost first.**  `scopePos` is the position of a scope (`[]` = the root);
    the name is searched in that scope, and if it is not found there in the scope around it, and so
    on outward.  Structural recursion on the position: the result for the inner scopes is preferred. -/
def searchScopes (n : Nat) (comps : List Str) : List Obj → List Nat → Option (List Nat)
  | objs, [] => findIn n comps objs
  | objs, i :: p =>
    match objs[i]? with
    | some (.scope _ kids) =>
      (match searchScopes n comps kids p with
       | some q => some (i :: q)
       | none => findIn n comps objs)
    | _ => findIn n comps objs

/-- **The object a `$name` refers to.**  `pos` is the position of the referencing definition, `n` its
    id.  A name with a leading '.' is looked up in the root scope only; any other name in the
    enclosing scopes of `pos` from the innermost outward.  The result is the tree position of the
    nearest object that appears earlier in the source (id `< n`), `none` if there is no such object. -/
def nearestEarlier (root : List Obj) (pos : List Nat) (name : Str) : Option (List Nat) :=
  match idAt root pos with
  | none => none
  | some n =>
    if name.take 1 == ['.'] then findIn n (splitOn '.' (name.drop 1)) root
    else searchScopes n (splitOn '.' name) root pos.dropLast

/-- what a variable stands for -/
inductive VarRef
  /-- an earlier definition, with its value -/
  | value (r : R (List Word))
  /-- an earlier object that is a scope -/
  | notDefinition
  /-- no earlier object of that name -/
  | undefined

/-- the words a variable contributes to the word `w` -/
def varWords (env : Env) (diff : Bool) (ref : Str → VarRef) (w : Word) (name : Str) : R (List Word) :=
  match ref name with
  | .value r => r
  | .notDefinition => .error (.runtime "not_a_definition" w.line)
  | .undefined =>
    if diff then .ok [wordDq ('$' :: name)]
    else match env name with
      | some v => .ok [wordDq v]
      | none => .error (.runtime "undefined_variable" w.line)

/-- the text a fragment contributes to a mixture -/
def fragText (env : Env) (diff : Bool) (ref : Str → VarRef) (w : Word) : Fragment → R Str
  | .lit s => .ok s
  | .var name => (varWords env diff ref w name).map (fun ws => joinWith [' '] (ws.map (·.value)))

/-- **One word.**  Single-quoted words and words without variables are kept; a word that is exactly
    one unquoted variable is replaced by the words of that variable as they are; every other mixture
    becomes one double-quoted word: literal text and the blank-joined values of the variables,
    concatenated. -/
def substWord (env : Env) (diff : Bool) (ref : Str → VarRef) (w : Word) : R (List Word) :=
  if w.quote == some .s1 then .ok [w] else
  match fragments w.value with
  | .error site => .error (.runtime site w.line)
  | .ok (frags, haveVars) =>
    if !haveVars then .ok [w] else
    match w.quote, frags with
    | none, [.var name] => varWords env diff ref w name
    | _, _ => (frags.mapM (fragText env diff ref w)).map (fun texts => [wordDq texts.flatten])

/-! ### documents numbered by the parser -/

/-- `a` is numbered no later than `b` (both numbered) -/
def idLe (a b : Obj) : Bool :=
  match a.meta.id, b.meta.id with
  | some i, some j => decide (i ≤ j)
  | _, _ => false

/-- one object list: every object has an id, no name contains a '.', and the ids do not decrease
    in document order (`okObj` adds: the id of a scope is not larger than the ids of its objects) -/
def levelOk : List Obj → Bool
  | [] => true
  | o :: rest => o.meta.id.isSome && !o.name.contains '.' && rest.all (idLe o) && levelOk rest

mutual
def okObj : Obj → Bool
  | .defn _ _ => true
  | .scope m kids => levelOk kids && okList kids && kids.all (idLe (.scope m kids))
def okList : List Obj → Bool
  | [] => true
  | o :: rest => okObj o && okList rest
end

/-- at every level of the tree `levelOk` holds -/
def Numbered (root : List Obj) : Prop := levelOk root = true ∧ okList root = true

mutual
def idsLeObj (b : Nat) : Obj → Bool
  | .defn m _ => (match m.id with | some i => decide (i ≤ b) | none => true)
  | .scope m kids => (match m.id with | some i => decide (i ≤ b) | none => true) && idsLeList b kids
def idsLeList (b : Nat) : List Obj → Bool
  | [] => true
  | o :: rest => idsLeObj b o && idsLeList b rest
end

mutual
/-- number of objects (structural twin of `countObjs`, which the kernel cannot evaluate) -/
def sizeObj : Obj → Nat
  | .defn _ _ => 1
  | .scope _ kids => 1 + sizeList kids
def sizeList : List Obj → Nat
  | [] => 0
  | o :: rest => sizeObj o + sizeList rest
end

theorem sizeList_eq_countObjs_vs : ∀ (l : List Obj), sizeList l = countObjs l
  | [] => by simp [sizeList, countObjs]
  | .defn m ws :: r => by
    simp only [sizeList, sizeObj, countObjs, sizeList_eq_countObjs_vs r]
  | .scope m k :: r => by
    simp only [sizeList, sizeObj, countObjs, sizeList_eq_countObjs_vs r, sizeList_eq_countObjs_vs k]

/-- **Well-formedness of a parsed document** — what the document-order numbering of the parser
    (`primary_id` from a counter starting at 1, `scope.adopt` splitting dotted names into nested
    scopes that share the id of the object they wrap) guarantees:
    at every level of the tree every object has an id, no name contains a '.', and the ids of
    siblings do not decrease in document order, the id of a scope is not larger than the ids of
    its objects (`Numbered`); and no id exceeds the number of objects of the document.  Decidable: `docIdsB`. -/
def DocIds (root : List Obj) : Prop := Numbered root ∧ idsLeList (sizeList root) root = true

def docIdsB (root : List Obj) : Bool := levelOk root && okList root && idsLeList (sizeList root) root

theorem docIdsB_iff_vs (root : List Obj) : docIdsB root = true ↔ DocIds root := by
  simp [docIdsB, DocIds, Numbered, and_assoc]

instance (root : List Obj) : Decidable (DocIds root) :=
  decidable_of_iff _ (docIdsB_iff_vs root)

/-! ### what the lookup finds is an earlier object (this makes `denote` well founded) -/

theorem lastSome_some_vs {β : Type} (f : Nat → Obj → Option β) :
    ∀ (l : List Obj) (k : Nat) (b : β), lastSome f k l = some b →
      ∃ j o, l[j]? = some o ∧ f (k + j) o = some b := by
  intro l
  induction l with
  | nil => intro k b h; simp [lastSome] at h
  | cons o r ih =>
    intro k b h
    simp only [lastSome] at h
    split at h
    · rename_i b' hb'
      cases h
      obtain ⟨j, o', hj, hf⟩ := ih (k + 1) b hb'
      exact ⟨j + 1, o', by simpa using hj, by rw [← hf]; congr 1; omega⟩
    · exact ⟨0, o, by simp, by simpa using h⟩

theorem objAt_cons_vs (objs : List Obj) (i : Nat) (m : Meta) (kids : List Obj) (q : List Nat)
    (hq : q ≠ []) (hi : objs[i]? = some (.scope m kids)) : objAt objs (i :: q) = objAt kids q := by
  cases q with
  | nil => exact absurd rfl hq
  | cons a b => simp [objAt, hi]

theorem objAt_nil_vs (objs : List Obj) : objAt objs [] = none := by
  cases objs <;> rfl

theorem findIn_earlier_vs (n : Nat) : ∀ (comps : List Str) (objs : List Obj) (p : List Nat),
    findIn n comps objs = some p → ∃ o, objAt objs p = some o ∧ earlier n o = true := by
  intro comps
  induction comps with
  | nil => intro objs p h; simp [findIn] at h
  | cons c cs ih =>
    intro objs p h
    cases cs with
    | nil =>
      simp only [findIn] at h
      obtain ⟨j, o, hj, hf⟩ := lastSome_some_vs _ _ _ _ h
      split at hf
      · rename_i hc
        cases hf
        simp only [Bool.and_eq_true] at hc
        exact ⟨o, by simpa [objAt] using hj, hc.1⟩
      · cases hf
    | cons c' cs' =>
      simp only [findIn] at h
      obtain ⟨j, o, hj, hf⟩ := lastSome_some_vs _ _ _ _ h
      cases o with
      | defn m ws => cases hf
      | scope m kids =>
        simp only [] at hf
        split at hf
        · cases hq : findIn n (c' :: cs') kids with
          | none => simp [hq] at hf
          | some q =>
            simp only [hq, Option.map_some, Option.some.injEq] at hf
            subst hf
            obtain ⟨o', ho', he⟩ := ih kids q hq
            have hne : q ≠ [] := by
              intro e; subst e; rw [objAt_nil_vs] at ho'; cases ho'
            exact ⟨o', by rw [Nat.zero_add, objAt_cons_vs objs j m kids q hne hj]; exact ho', he⟩
        · cases hf

theorem searchScopes_earlier_vs (n : Nat) (comps : List Str) : ∀ (sp : List Nat) (objs : List Obj)
    (p : List Nat), searchScopes n comps objs sp = some p →
      ∃ o, objAt objs p = some o ∧ earlier n o = true := by
  intro sp
  induction sp with
  | nil => intro objs p h; exact findIn_earlier_vs n comps objs p (by simpa [searchScopes] using h)
  | cons i sp ih =>
    intro objs p h
    simp only [searchScopes] at h
    split at h
    · rename_i m kids hi
      split at h
      · rename_i q hq
        cases h
        obtain ⟨o', ho', he⟩ := ih kids q hq
        have hne : q ≠ [] := by
          intro e; subst e; rw [objAt_nil_vs] at ho'; cases ho'
        exact ⟨o', by rw [objAt_cons_vs objs i m kids q hne hi]; exact ho', he⟩
      · exact findIn_earlier_vs n comps objs p h
    · exact findIn_earlier_vs n comps objs p h

/-- what `nearestEarlier` designates exists and was numbered before the referencing definition -/
theorem nearestEarlier_earlier_vs (root : List Obj) (pos : List Nat) (name : Str) (p : List Nat)
    (h : nearestEarlier root pos name = some p) :
    ∃ n o, idAt root pos = some n ∧ objAt root p = some o ∧ earlier n o = true := by
  unfold nearestEarlier at h
  cases hn : idAt root pos with
  | none => simp [hn] at h
  | some n =>
    simp only [hn] at h
    split at h
    · obtain ⟨o, ho, he⟩ := findIn_earlier_vs n _ root p h
      exact ⟨n, o, rfl, ho, he⟩
    · obtain ⟨o, ho, he⟩ := searchScopes_earlier_vs n _ _ root p h
      exact ⟨n, o, rfl, ho, he⟩

theorem earlier_id_vs {n : Nat} {o : Obj} (h : earlier n o = true) : ∃ i, o.meta.id = some i ∧ i < n := by
  unfold earlier at h
  cases hid : o.meta.id with
  | none => simp [hid] at h
  | some i => exact ⟨i, rfl, by simpa [hid] using h⟩

theorem nearestEarlier_id_lt_vs (root : List Obj) (pos : List Nat) (name : Str) (p : List Nat)
    (h : nearestEarlier root pos name = some p) :
    (idAt root p).getD 0 < (idAt root pos).getD 0 := by
  obtain ⟨n, o, hn, ho, he⟩ := nearestEarlier_earlier_vs root pos name p h
  obtain ⟨i, hi, hlt⟩ := earlier_id_vs he
  simp [idAt, ho, hi] at hn ⊢
  rw [hn]
  simpa using hlt

/-- **The value of the definition at `pos`.**  Every word is substituted by `substWord`, where a
    variable refers to the object `nearestEarlier` designates and stands for the value (`denote`) of
    that definition.  The recursion is well founded: the referenced object has a strictly smaller id
    (`nearestEarlier_id_lt_vs`).  `diff` (the `diff_mode` of `resolve_variables`) only concerns the
    definition itself: undefined variables stay as the text `$name`; referenced definitions are
    always evaluated with `diff = false`. -/
def denote (env : Env) (root : List Obj) (pos : List Nat) (diff : Bool := false) : R (List Word) :=
  match objAt root pos with
  | some (.defn _ words) =>
    let ref : Str → VarRef := fun name =>
      match h : nearestEarlier root pos name with
      | none => .undefined
      | some p =>
        match objAt root p with
        | some (.defn _ _) => .value (denote env root p false)
        | _ => .notDefinition
    (words.mapM (substWord env diff ref)).map List.flatten
  | _ => .error (.unsupported "no definition at path")
termination_by (idAt root pos).getD 0
decreasing_by exact nearestEarlier_id_lt_vs _ _ _ _ h

/-! # Part B — lemmas -/

/-! ### splitting a dotted name -/

theorem splitOn_ne_nil_vs (sep : Char) (s : Str) : splitOn sep s ≠ [] := by
  induction s with
  | nil => simp [splitOn]
  | cons c cs ih =>
    unfold splitOn
    cases h : splitOn sep cs with
    | nil => simp
    | cons p ps => simp only []; split <;> simp

theorem splitOn_no_sep_vs (sep : Char) (s : Str) (h : sep ∉ s) : splitOn sep s = [s] := by
  induction s with
  | nil => rfl
  | cons c cs ih =>
    have hc : c ≠ sep := fun e => h (by simp [e])
    have hcs : sep ∉ cs := fun e => h (by simp [e])
    simp [splitOn, ih hcs, hc]

theorem splitOn_append_sep_vs (sep : Char) (c rest : Str) (h : sep ∉ c) :
    splitOn sep (c ++ sep :: rest) = c :: splitOn sep rest := by
  induction c with
  | nil =>
    cases hs : splitOn sep rest with
    | nil => exact absurd hs (splitOn_ne_nil_vs sep rest)
    | cons p ps => simp [splitOn, hs]
  | cons x xs ih =>
    have hx : x ≠ sep := fun e => h (by simp [e])
    have hxs : sep ∉ xs := fun e => h (by simp [e])
    simp [splitOn, ih hxs, hx]

/-- a path either has no '.' or splits at its first '.' -/
theorem path_decomp_vs (path : Str) :
    '.' ∉ path ∨ ∃ c rest, path = c ++ '.' :: rest ∧ '.' ∉ c := by
  induction path with
  | nil => left; simp
  | cons x xs ih =>
    by_cases hx : x = '.'
    · right; exact ⟨[], xs, by simp [hx], by simp⟩
    · cases ih with
      | inl h => left; simp [hx, h]; exact fun e => hx e.symm
      | inr h =>
        obtain ⟨c, rest, he, hc⟩ := h
        right
        refine ⟨x :: c, rest, by simp [he], ?_⟩
        simp [hc]; exact fun e => hx e.symm

/-- all components of the dotted path are non-empty -/
def GoodPath (path : Str) : Prop := ∀ c ∈ splitOn '.' path, c ≠ []

theorem goodPath_no_lead_vs {path : Str} (h : GoodPath path) : (path.take 1 == ['.']) = false := by
  cases path with
  | nil => rfl
  | cons x xs =>
    by_cases hx : x = '.'
    · subst hx
      have := splitOn_append_sep_vs '.' [] xs (by simp)
      simp only [List.nil_append] at this
      exact absurd rfl (h [] (by rw [this]; simp))
    · simp [hx]

theorem goodPath_rest_vs {c rest : Str} (hc : '.' ∉ c) (h : GoodPath (c ++ '.' :: rest)) :
    GoodPath rest := by
  intro x hx
  apply h
  rw [splitOn_append_sep_vs '.' c rest hc]
  simp [hx]

/-! ### the combinator `lastSome` -/

theorem lastSome_congr_vs {β : Type} (f g : Nat → Obj → Option β) :
    ∀ (l : List Obj) (k : Nat), (∀ j o, l[j]? = some o → f (k + j) o = g (k + j) o) →
      lastSome f k l = lastSome g k l := by
  intro l
  induction l with
  | nil => intro k _; rfl
  | cons o r ih =>
    intro k h
    simp only [lastSome]
    rw [ih (k + 1) (fun j o' hj => by
      have := h (j + 1) o' (by simpa using hj)
      rw [show k + 1 + j = k + (j + 1) by omega]; exact this)]
    have h0 := h 0 o (by simp)
    simp only [Nat.add_zero] at h0
    rw [h0]

theorem lastSome_bind_vs {β γ : Type} (f : Nat → Obj → Option β) (G : β → Option γ) :
    ∀ (l : List Obj) (k : Nat),
      (∀ j o b, l[j]? = some o → f (k + j) o = some b → (G b).isSome = true) →
      (lastSome f k l).bind G = lastSome (fun i o => (f i o).bind G) k l := by
  intro l
  induction l with
  | nil => intro k _; rfl
  | cons o r ih =>
    intro k hG
    have ih' := ih (k + 1) (fun j o' b hj hf => hG (j + 1) o' b (by simpa using hj)
      (by rw [show k + (j + 1) = k + 1 + j by omega]; exact hf))
    simp only [lastSome]
    rw [← ih']
    cases hl : lastSome f (k + 1) r with
    | none => simp
    | some b =>
      obtain ⟨j, o', hj, hf⟩ := lastSome_some_vs f r (k + 1) b hl
      have := hG (j + 1) o' b (by simpa using hj) (by rw [show k + (j + 1) = k + 1 + j by omega]; exact hf)
      cases hg : G b with
      | none => simp [hg] at this
      | some c => simp [hg]

/-- the operational candidate loop (`cands.reverse.findSome?`) is `lastSome` -/
theorem findSome_rev_filter_vs {β : Type} (p : Obj → Bool) (t : Obj → Option β) :
    ∀ (l : List Obj) (k : Nat),
      (l.filter p).reverse.findSome? t = lastSome (fun _ o => if p o then t o else none) k l := by
  intro l
  induction l with
  | nil => intro k; rfl
  | cons o r ih =>
    intro k
    simp only [lastSome, ← ih (k + 1), List.filter_cons]
    by_cases hp : p o = true
    · simp only [hp, ↓reduceIte, List.reverse_cons, List.findSome?_append]
      cases (r.filter p).reverse.findSome? t <;> simp [List.findSome?]
      cases t o <;> rfl
    · simp only [hp, Bool.false_eq_true, ↓reduceIte]
      cases (r.filter p).reverse.findSome? t <;> rfl

/-! ### numbered levels: the visible prefix is the set of earlier objects -/

theorem idLe_not_earlier_vs {n : Nat} {o x : Obj} (ho : earlier n o = false) (hid : o.meta.id.isSome = true)
    (hle : idLe o x = true) : earlier n x = false := by
  unfold idLe at hle
  unfold earlier at ho ⊢
  cases h1 : o.meta.id with
  | none => simp [h1] at hid
  | some i =>
    cases h2 : x.meta.id with
    | none => rfl
    | some j =>
      simp only [h1, h2, decide_eq_true_eq, decide_eq_false_iff_not] at hle ho ⊢
      omega

theorem vis_eq_earlier_vs {n : Nat} {o : Obj} (hid : o.meta.id.isSome = true) : vis n o = earlier n o := by
  unfold vis earlier
  cases h : o.meta.id with
  | none => simp [h] at hid
  | some i => rfl

theorem visiblePrefix_eq_filter_vs (n : Nat) : ∀ (l : List Obj), levelOk l = true →
    visiblePrefix n l = l.filter (earlier n) := by
  intro l
  induction l with
  | nil => intro _; rfl
  | cons o r ih =>
    intro h
    simp only [levelOk, Bool.and_eq_true] at h
    obtain ⟨⟨⟨hid, _⟩, hall⟩, hr⟩ := h
    unfold visiblePrefix at ih ⊢
    rw [List.takeWhile_cons, List.filter_cons, vis_eq_earlier_vs hid]
    by_cases he : earlier n o = true
    · simp only [he, ↓reduceIte, ih hr]
    · have he' : earlier n o = false := by simpa using he
      simp only [he', Bool.false_eq_true, ↓reduceIte]
      symm
      rw [List.filter_eq_nil_iff]
      intro x hx
      rw [List.all_eq_true] at hall
      simp [idLe_not_earlier_vs he' hid (hall x hx)]

theorem levelOk_mem_vs : ∀ (l : List Obj) (o : Obj), levelOk l = true → o ∈ l →
    o.meta.id.isSome = true ∧ '.' ∉ o.name := by
  intro l
  induction l with
  | nil => intro o _ h; cases h
  | cons a r ih =>
    intro o h ho
    simp only [levelOk, Bool.and_eq_true] at h
    obtain ⟨⟨⟨hid, hdot⟩, _⟩, hr⟩ := h
    cases ho with
    | head => exact ⟨hid, by simpa using hdot⟩
    | tail _ ho' => exact ih o hr ho'

theorem okList_mem_vs : ∀ (l : List Obj) (m : Meta) (kids : List Obj), okList l = true →
    Obj.scope m kids ∈ l → Numbered kids := by
  intro l
  induction l with
  | nil => intro m kids _ h; cases h
  | cons a r ih =>
    intro m kids h ho
    simp only [okList, Bool.and_eq_true] at h
    cases ho with
    | head =>
      simp only [okObj, Bool.and_eq_true] at h
      exact ⟨h.1.1.1, h.1.1.2⟩
    | tail _ ho' => exact ih m kids h.2 ho'

theorem okList_kids_le_vs : ∀ (l : List Obj) (m : Meta) (kids : List Obj), okList l = true →
    Obj.scope m kids ∈ l → kids.all (idLe (.scope m kids)) = true := by
  intro l
  induction l with
  | nil => intro m kids _ h; cases h
  | cons a r ih =>
    intro m kids h ho
    simp only [okList, Bool.and_eq_true] at h
    cases ho with
    | head =>
      simp only [okObj, Bool.and_eq_true] at h
      exact h.1.2
    | tail _ ho' => exact ih m kids h.2 ho'

/-! ### prefix stripping on names without dots -/

theorem strip_no_dot_vs (name path : Str) (h : '.' ∉ path) : stripPrefixDot name path = none := by
  unfold stripPrefixDot startsWith
  split
  · rename_i hs
    have he := eq_of_beq hs
    have : '.' ∈ path.take (name ++ ['.']).length := by rw [he]; simp
    exact absurd (List.mem_of_mem_take this) h
  · rfl

theorem take_prefix_eq_vs (rest : Str) : ∀ (name c : Str), '.' ∉ c → '.' ∉ name →
    (c ++ '.' :: rest).take (name.length + 1) = name ++ ['.'] → name = c := by
  intro name
  induction name with
  | nil =>
    intro c hc _ h
    cases c with
    | nil => rfl
    | cons x xs =>
      simp at h
      exact absurd (by simp [h]) hc
  | cons a as ih =>
    intro c hc hn h
    cases c with
    | nil =>
      simp at h
      exact absurd (by simp [← h.1]) hn
    | cons x xs =>
      simp only [List.cons_append, List.length_cons, List.take_succ_cons, List.cons.injEq] at h
      rw [h.1, ih xs (fun e => hc (by simp [e])) (fun e => hn (by simp [e])) h.2]

theorem strip_decomp_vs (name c rest : Str) (hc : '.' ∉ c) (hn : '.' ∉ name) :
    stripPrefixDot name (c ++ '.' :: rest) = if name = c then some rest else none := by
  unfold stripPrefixDot startsWith
  by_cases e : name = c
  · subst e
    have ht : (name ++ '.' :: rest).take (name ++ ['.']).length = name ++ ['.'] := by
      rw [show name ++ '.' :: rest = (name ++ ['.']) ++ rest by simp, List.take_left']
      rfl
    simp only [List.length_append, List.length_cons, List.length_nil] at ht
    simp [ht]
  · simp only [e, ↓reduceIte]
    split
    · rename_i hs
      have he := eq_of_beq hs
      simp only [List.length_append, List.length_cons, List.length_nil] at he
      exact absurd (take_prefix_eq_vs rest name c hc hn he) e
    · rfl

/-! ### positions and chains -/

theorem chainAt_single_vs (objs : List Obj) (i : Nat) (ch : Chain) :
    chainAt objs [i] ch = (objs[i]?).map (fun o => (o, objs :: ch)) := by
  simp [chainAt]

theorem chainAt_cons_vs (objs : List Obj) (i : Nat) (m : Meta) (kids : List Obj) (q : List Nat)
    (ch : Chain) (hq : q ≠ []) (hi : objs[i]? = some (.scope m kids)) :
    chainAt objs (i :: q) ch = chainAt kids q (objs :: ch) := by
  cases q with
  | nil => exact absurd rfl hq
  | cons a b => simp [chainAt, hi]

theorem objAt_chainAt_vs : ∀ (q : List Nat) (objs : List Obj) (ch : Chain) (o : Obj),
    objAt objs q = some o → ∃ c, chainAt objs q ch = some (o, c) := by
  intro q
  induction q with
  | nil => intro objs ch o h; rw [objAt_nil_vs] at h; cases h
  | cons i q ih =>
    intro objs ch o h
    cases q with
    | nil =>
      simp only [objAt] at h
      exact ⟨objs :: ch, by simp [chainAt, h]⟩
    | cons a b =>
      simp only [objAt] at h
      split at h
      · rename_i m kids hi
        obtain ⟨c, hc⟩ := ih kids (objs :: ch) o h
        exact ⟨c, by simp only [chainAt, hi]; exact hc⟩
      · cases h

theorem chainAt_objAt_vs : ∀ (q : List Nat) (objs : List Obj) (ch : Chain) (o : Obj) (c : Chain),
    chainAt objs q ch = some (o, c) → objAt objs q = some o := by
  intro q
  induction q with
  | nil => intro objs ch o c h; cases objs <;> simp [chainAt] at h
  | cons i q ih =>
    intro objs ch o c h
    cases q with
    | nil =>
      simp only [chainAt, Option.map_eq_some_iff] at h
      obtain ⟨o', ho', he⟩ := h
      cases he
      simpa [objAt] using ho'
    | cons a b =>
      simp only [chainAt] at h
      split at h
      · rename_i m kids hi
        simp only [objAt, hi]
        exact ih kids (objs :: ch) o c h
      · cases h

theorem reroot_good_vs {path : Str} (h : GoodPath path) (c : Chain) : reroot c path = (c, path) := by
  unfold reroot
  simp [goodPath_no_lead_vs h]

theorem lookupIn_noup_vs (fuel n : Nat) (objs : List Obj) (outer : Chain) (path : Str) :
    lookupIn fuel n false (objs :: outer) path
      = ((visiblePrefix n objs).filter (isCand path)).reverse.findSome?
          (tryOne fuel n path objs outer) := by
  simp only [lookupIn]
  cases ((visiblePrefix n objs).filter (isCand path)).reverse.findSome?
    (tryOne fuel n path objs outer) <;> rfl

/-! ### one scope: the operational lookup without `search_up` is `findIn` -/

theorem getElem_mem_vs {l : List Obj} {j : Nat} {o : Obj} (h : l[j]? = some o) : o ∈ l :=
  List.mem_of_getElem? h

theorem lexicalGet_findIn_vs (n : Nat) : ∀ (fuel : Nat) (path : Str) (objs : List Obj) (outer : Chain),
    2 * path.length + (outer.length + 1) < fuel → GoodPath path → Numbered objs →
    lexicalGet fuel (objs :: outer) path n false
      = (findIn n (splitOn '.' path) objs).bind (fun p => chainAt objs p outer) := by
  intro fuel
  induction fuel with
  | zero => intro path objs outer h; omega
  | succ f ih =>
    intro path objs outer hf hg hd
    rw [lexicalGet_succ, reroot_good_vs hg, lookupIn_noup_vs,
      visiblePrefix_eq_filter_vs n objs hd.1, List.filter_filter, findSome_rev_filter_vs _ _ objs 0]
    rcases path_decomp_vs path with hnd | ⟨c, rest, hp, hc⟩
    · -- a one-component name
      rw [splitOn_no_sep_vs '.' path hnd]
      simp only [findIn]
      rw [lastSome_bind_vs _ _ objs 0 (by
        intro j o b hj hb
        split at hb
        · cases hb; simp [chainAt_single_vs, hj]
        · cases hb)]
      apply lastSome_congr_vs
      intro j o hj
      have hstrip : stripPrefixDot o.name path = none := strip_no_dot_vs _ _ hnd
      have hcand : isCand path o = (o.name == path) := by
        unfold isCand
        cases o.isDefn <;> simp [hstrip]
      simp only [hcand, tryOne, hstrip]
      by_cases hname : (o.name == path) = true
      · by_cases he : earlier n o = true
        · simp [hname, he, chainAt_single_vs, hj]
        · simp [hname, he]
      · simp [hname]
    · -- `c.rest`
      subst hp
      have hsplit := splitOn_append_sep_vs '.' c rest hc
      rw [hsplit]
      cases hcs : splitOn '.' rest with
      | nil => exact absurd hcs (splitOn_ne_nil_vs '.' rest)
      | cons c' cs' =>
        simp only [findIn]
        have hkids : ∀ (j : Nat) (m : Meta) (kids : List Obj), objs[j]? = some (.scope m kids) →
            ∀ q, findIn n (c' :: cs') kids = some q →
              chainAt objs (j :: q) outer = chainAt kids q (objs :: outer) ∧
              (chainAt kids q (objs :: outer)).isSome = true := by
          intro j m kids hj q hq
          obtain ⟨o', ho', _⟩ := findIn_earlier_vs n _ kids q hq
          have hne : q ≠ [] := by
            intro e; subst e; rw [objAt_nil_vs] at ho'; cases ho'
          obtain ⟨cc, hcc⟩ := objAt_chainAt_vs q kids (objs :: outer) o' ho'
          exact ⟨chainAt_cons_vs objs j m kids q outer hne hj, by simp [hcc]⟩
        rw [lastSome_bind_vs _ _ objs 0 (by
          intro j o b hj hb
          cases o with
          | defn m ws => cases hb
          | scope m kids =>
            simp only [] at hb
            split at hb
            · cases hq : findIn n (c' :: cs') kids with
              | none => simp [hq] at hb
              | some q =>
                simp only [hq, Option.map_some, Option.some.injEq] at hb
                subst hb
                have := hkids j m kids (by simpa using hj) q hq
                simp only [Nat.zero_add]
                rw [this.1]; exact this.2
            · cases hb)]
        apply lastSome_congr_vs
        intro j o hj
        have hmem := getElem_mem_vs hj
        have hnd : '.' ∉ o.name := (levelOk_mem_vs objs o hd.1 hmem).2
        have hne : (o.name == c ++ '.' :: rest) = false := by
          apply beq_false_of_ne
          intro e
          exact hnd (by rw [e]; simp)
        have hstrip := strip_decomp_vs o.name c rest hc hnd
        cases o with
        | defn m ws =>
          have : isCand (c ++ '.' :: rest) (Obj.defn m ws) = false := by
            unfold isCand; simp [Obj.isDefn, hne]
          simp [this]
        | scope m kids =>
          have hnm : (Obj.scope m kids).name = m.name := rfl
          rw [hnm] at hne hstrip hnd
          have hcand : isCand (c ++ '.' :: rest) (Obj.scope m kids) = (m.name == c) := by
            unfold isCand
            simp only [Obj.isDefn, Bool.false_eq_true, ↓reduceIte, hnm, hne, Bool.false_or, hstrip]
            by_cases e : m.name = c <;> simp [e]
          simp only [hcand, Nat.zero_add]
          by_cases e : m.name = c
          · by_cases he : earlier n (Obj.scope m kids) = true
            · have hkd : Numbered kids := okList_mem_vs objs m kids hd.2 hmem
              have hfuel : 2 * rest.length + ((objs :: outer).length + 1) < f := by
                simp only [List.length_append, List.length_cons] at hf ⊢
                omega
              have := ih rest kids (objs :: outer) hfuel (goodPath_rest_vs hc hg) hkd
              subst e
              simp only [↓reduceIte] at hstrip
              simp only [he, beq_self_eq_true, Bool.and_self, ↓reduceIte, tryOne, hnm, hne,
                Bool.false_eq_true, hstrip, Obj.children]
              rw [this, hcs]
              cases hq : findIn n (c' :: cs') kids with
              | none => rfl
              | some q =>
                simp only [Option.bind_some, Option.map_some]
                exact ((hkids j m kids hj q hq).1).symm
            · simp [e, he]
          · simp [e]

/-! ### enclosing scopes: the operational lookup with `search_up` is `searchScopes` -/

/-- the chain of object lists along a scope position (innermost first), on top of `outer` -/
def chainDown : List Obj → List Nat → Chain → Option Chain
  | objs, [], outer => some (objs :: outer)
  | objs, i :: p, outer =>
    match objs[i]? with
    | some (.scope _ kids) => chainDown kids p (objs :: outer)
    | _ => none

theorem chainDown_length_vs : ∀ (sp : List Nat) (objs : List Obj) (outer c : Chain),
    chainDown objs sp outer = some c → c.length = sp.length + outer.length + 1 := by
  intro sp
  induction sp with
  | nil => intro objs outer c h; simp [chainDown] at h; subst h; simp
  | cons i p ih =>
    intro objs outer c h
    simp only [chainDown] at h
    split at h
    · have := ih _ _ _ h
      simp only [List.length_cons] at this ⊢
      omega
    · cases h

theorem lastLevel_cons_vs (a : List Obj) (b : List Obj) (c : Chain) :
    lastLevel (a :: b :: c) = lastLevel (b :: c) := by
  unfold lastLevel
  simp only [List.reverse_cons, List.append_assoc]
  cases h : c.reverse with
  | nil => simp
  | cons x xs => simp

theorem chainDown_lastLevel_vs : ∀ (sp : List Nat) (objs : List Obj) (outer c : Chain),
    chainDown objs sp outer = some c → lastLevel c = lastLevel (objs :: outer) := by
  intro sp
  induction sp with
  | nil => intro objs outer c h; simp [chainDown] at h; subst h; rfl
  | cons i p ih =>
    intro objs outer c h
    simp only [chainDown] at h
    split at h
    · rw [ih _ _ _ h, lastLevel_cons_vs]
    · cases h

theorem chainAt_chainDown_vs : ∀ (pos : List Nat) (objs : List Obj) (outer : Chain) (o : Obj) (c : Chain),
    chainAt objs pos outer = some (o, c) → chainDown objs pos.dropLast outer = some c := by
  intro pos
  induction pos with
  | nil => intro objs outer o c h; cases objs <;> simp [chainAt] at h
  | cons i q ih =>
    intro objs outer o c h
    cases q with
    | nil =>
      simp only [chainAt, Option.map_eq_some_iff] at h
      obtain ⟨o', _, he⟩ := h
      cases he
      simp [chainDown]
    | cons a b =>
      simp only [chainAt] at h
      split at h
      · rename_i m kids hi
        have := ih kids (objs :: outer) o c h
        simp only [List.dropLast_cons_cons, chainDown, hi]
        exact this
      · cases h

/-- continue the search in the scopes around (`search_up`) -/
def upFallback (fuel n : Nat) (path : Str) (outer : Chain) : Option (Obj × Chain) :=
  match outer with
  | [] => none
  | _ => lexicalGet fuel outer path n true

/-- the object and chain at a found position, else the fallback -/
def foundOr (objs : List Obj) (outer : Chain) (r : Option (List Nat)) (fb : Option (Obj × Chain)) :
    Option (Obj × Chain) :=
  match r with
  | some q => chainAt objs q outer
  | none => fb

/-- the scope `objs` itself, with `search_up`: the result of `findIn`, else continue in `outer` -/
theorem lexicalGet_level_up_vs (n : Nat) (fuel : Nat) (path : Str) (objs : List Obj) (outer : Chain)
    (hf : 2 * path.length + (outer.length + 1) < fuel) (hg : GoodPath path) (hd : Numbered objs) :
    lexicalGet fuel (objs :: outer) path n true
      = foundOr objs outer (findIn n (splitOn '.' path) objs) (upFallback fuel n path outer) := by
  unfold foundOr upFallback
  obtain ⟨f, rfl⟩ : ∃ k, fuel = k + 1 := ⟨fuel - 1, by omega⟩
  have hno := lexicalGet_findIn_vs n (f + 1) path objs outer hf hg hd
  rw [lexicalGet_succ, reroot_good_vs hg, lookupIn_noup_vs] at hno
  rw [lexicalGet_succ, reroot_good_vs hg]
  simp only [lookupIn, hno]
  cases hq : findIn n (splitOn '.' path) objs with
  | none =>
    simp only [Option.bind_none, Bool.not_true, Bool.false_eq_true, ↓reduceIte]
    cases outer with
    | nil => rfl
    | cons a b =>
      simp only []
      apply lexicalGet_fuel_irrelevant
      · simp only [List.length_cons] at hf ⊢; omega
      · simp only [List.length_cons] at hf ⊢; omega
  | some q =>
    obtain ⟨o', ho', _⟩ := findIn_earlier_vs n _ objs q hq
    obtain ⟨cc, hcc⟩ := objAt_chainAt_vs q objs outer o' ho'
    simp [hcc]

theorem lexicalGet_searchScopes_vs (n : Nat) (path : Str) (hg : GoodPath path) :
    ∀ (sp : List Nat) (objs : List Obj) (outer c : Chain) (fuel : Nat),
      chainDown objs sp outer = some c → Numbered objs → 2 * path.length + c.length < fuel →
      lexicalGet fuel c path n true
        = foundOr objs outer (searchScopes n (splitOn '.' path) objs sp)
            (upFallback fuel n path outer) := by
  intro sp
  induction sp with
  | nil =>
    intro objs outer c fuel hc hd hf
    simp only [chainDown, Option.some.injEq] at hc
    subst hc
    simp only [searchScopes]
    exact lexicalGet_level_up_vs n fuel path objs outer (by simp only [List.length_cons] at hf; omega) hg hd
  | cons i p ih =>
    intro objs outer c fuel hc hd hf
    simp only [chainDown] at hc
    split at hc
    · rename_i m kids hi
      have hlen := chainDown_length_vs _ _ _ _ hc
      have hkd : Numbered kids := okList_mem_vs objs m kids hd.2 (getElem_mem_vs hi)
      rw [ih kids (objs :: outer) c fuel hc hkd hf]
      simp only [searchScopes, hi]
      cases hs : searchScopes n (splitOn '.' path) kids p with
      | some q =>
        obtain ⟨o', ho', _⟩ := searchScopes_earlier_vs n _ p kids q hs
        have hne : q ≠ [] := by
          intro e; subst e; rw [objAt_nil_vs] at ho'; cases ho'
        simp only [foundOr]
        exact (chainAt_cons_vs objs i m kids q outer hne hi).symm
      | none =>
        simp only [foundOr, upFallback]
        exact lexicalGet_level_up_vs n fuel path objs outer
          (by simp only [List.length_cons] at hlen; omega) hg hd
    · cases hc

/-! ### the whole lookup of `resolve_variables` is `nearestEarlier` -/

/-- variable names produced by `fragments`: after an optional leading '.', non-empty components -/
def GoodName (name : Str) : Prop :=
  if (name.take 1 == ['.']) = true then GoodPath (name.drop 1) else GoodPath name

theorem idAt_of_chainAt_vs (root : List Obj) (pos : List Nat) (d : Obj) (ch : Chain) (n : Nat)
    (hc : chainAt root pos [] = some (d, ch)) (hid : d.meta.id = some n) : idAt root pos = some n := by
  simp [idAt, chainAt_objAt_vs pos root [] d ch hc, hid]

theorem lexicalGet_nearestEarlier_vs (root : List Obj) (hd : Numbered root) (pos : List Nat) (d : Obj)
    (ch : Chain) (n : Nat) (hc : chainAt root pos [] = some (d, ch)) (hid : d.meta.id = some n)
    (name : Str) (hg : GoodName name) :
    lexicalGet (2 * name.length + ch.length + 1) ch name n true
      = foundOr root [] (nearestEarlier root pos name) none := by
  have hdown := chainAt_chainDown_vs pos root [] d ch hc
  unfold nearestEarlier
  rw [idAt_of_chainAt_vs root pos d ch n hc hid]
  simp only []
  unfold GoodName at hg
  by_cases ha : (name.take 1 == ['.']) = true
  · simp only [ha, ↓reduceIte] at hg ⊢
    rw [lexicalGet_succ]
    have hr : reroot ch name = ([root], name.drop 1) := by
      unfold reroot
      simp only [ha, ↓reduceIte, chainDown_lastLevel_vs _ _ _ _ hdown]
      rfl
    rw [hr]
    have hlen : name.length = (name.drop 1).length + 1 := by
      cases name with
      | nil => simp at ha
      | cons x xs => simp
    have hback := lexicalGet_succ (2 * name.length + ch.length) [root] (name.drop 1) n true
    rw [reroot_good_vs hg] at hback
    rw [← hback, lexicalGet_level_up_vs n _ (name.drop 1) root [] (by simp only [List.length_nil]; omega) hg hd]
    rfl
  · simp only [ha, Bool.false_eq_true, ↓reduceIte] at hg ⊢
    rw [lexicalGet_searchScopes_vs n name hg pos.dropLast root [] ch _ hdown hd (by omega)]
    rfl

/-! ### the variable names `fragments` produces are good names -/

theorem isIdStart_ne_dot_vs {d : Char} (h : isIdStart d = true) : d ≠ '.' := by
  intro e; subst e; revert h; decide

theorem isStdIdent_goodPath_vs (s : Str) (h : isStdIdent s = true) : GoodPath s := by
  cases s with
  | nil => simp [isStdIdent] at h
  | cons c cs =>
    simp only [isStdIdent, Bool.and_eq_true, Bool.or_eq_true, decide_eq_true_eq] at h
    obtain ⟨⟨hc, _⟩, hparts⟩ := h
    have hcd : c ≠ '.' := isIdStart_ne_dot_vs hc
    intro x hx
    cases hparts with
    | inl hlen =>
      -- a single component, and it starts with `c`
      cases hs : splitOn '.' cs with
      | nil => exact absurd hs (splitOn_ne_nil_vs '.' cs)
      | cons p0 ps =>
        have hsp : splitOn '.' (c :: cs) = (c :: p0) :: ps := by
          simp [splitOn, hs, hcd]
        rw [hsp] at hx hlen
        cases ps with
        | nil => simp at hx; subst hx; simp
        | cons _ _ => simp at hlen
    | inr hall =>
      rw [List.all_eq_true] at hall
      have := hall x hx
      intro e; subst e; simp [isSimpleIdent] at this

def GoodFrag : Fragment → Prop
  | .var name => GoodName name
  | .lit _ => True

theorem goodName_paren_vs (name : Str)
    (h : isStdIdent (name.drop (if (name.take 1 == ['.']) = true then 1 else 0)) = true) :
    GoodName name := by
  unfold GoodName
  by_cases ha : (name.take 1 == ['.']) = true
  · simp only [ha, ↓reduceIte] at h ⊢
    exact isStdIdent_goodPath_vs _ h
  · simp only [ha, Bool.false_eq_true, ↓reduceIte, List.drop_zero] at h ⊢
    exact isStdIdent_goodPath_vs _ h

theorem goodName_ident_vs (d : Char) (rest : Str) (h : isIdStart d = true) :
    GoodName (d :: rest.takeWhile (fun x => x != '.' && isIdCont x)) := by
  have hd : d ≠ '.' := isIdStart_ne_dot_vs h
  have hnd : '.' ∉ d :: rest.takeWhile (fun x => x != '.' && isIdCont x) := by
    intro hm
    cases hm with
    | head => exact hd rfl
    | tail _ hm' =>
      have hall := List.all_takeWhile (l := rest) (p := fun x => x != '.' && isIdCont x)
      rw [List.all_eq_true] at hall
      have := hall _ hm'
      simp at this
  unfold GoodName
  have ha : ((d :: rest.takeWhile (fun x => x != '.' && isIdCont x)).take 1 == ['.']) = false := by
    simp [hd]
  simp only [ha, Bool.false_eq_true, ↓reduceIte]
  intro x hx
  rw [splitOn_no_sep_vs '.' _ hnd] at hx
  simp at hx
  subst hx
  simp

theorem except_map_ok_vs {α β : Type} (g : α → β) (r : Except String α) (b : β)
    (h : r.map g = .ok b) : ∃ a, r = .ok a ∧ g a = b := by
  cases r with
  | error e => cases h
  | ok a => exact ⟨a, rfl, by simpa [Except.map] using h⟩

theorem fragmentsAux_good_vs : ∀ (fuel : Nat) (cs cur : Str) (acc l : List Fragment) (b : Bool),
    fragmentsAux fuel cs cur acc = .ok (l, b) → (∀ f ∈ acc, GoodFrag f) → ∀ f ∈ l, GoodFrag f := by
  intro fuel
  induction fuel with
  | zero => intro cs cur acc l b h; simp [fragmentsAux] at h
  | succ fuel ih =>
    intro cs cur acc l b h hacc
    have hlit : ∀ f ∈ (if cur.isEmpty = true then acc else acc ++ [Fragment.lit cur]), GoodFrag f := by
      intro f hf
      split at hf
      · exact hacc f hf
      · simp only [List.mem_append, List.mem_singleton] at hf
        cases hf with
        | inl h1 => exact hacc f h1
        | inr h1 => subst h1; trivial
    cases cs with
    | nil =>
      simp only [fragmentsAux, Except.ok.injEq, Prod.mk.injEq] at h
      rw [← h.1]; exact hlit
    | cons c rest =>
      simp only [fragmentsAux] at h
      split at h
      · split at h
        · exact ih _ _ _ _ _ h hacc
        · exact ih _ _ _ _ _ h hacc
      · split at h
        · cases h
        · rename_i rest'
          generalize hnm : List.takeWhile (fun x => x != ')') rest' = name at h
          by_cases hcont : (!rest'.contains ')') = true
          · rw [if_pos hcont] at h; cases h
          · rw [if_neg hcont] at h
            by_cases hstd : (!isStdIdent (name.drop (if (name.take 1 == ['.']) = true then 1 else 0))) = true
            · rw [if_pos hstd] at h; cases h
            · rw [if_neg hstd] at h
              obtain ⟨a, ha, hg⟩ := except_map_ok_vs _ _ _ h
              obtain ⟨l', b'⟩ := a
              simp only [Prod.mk.injEq] at hg
              rw [← hg.1]
              apply ih _ _ _ _ _ ha
              intro f hf
              simp only [List.mem_append, List.mem_singleton] at hf
              cases hf with
              | inl h1 => exact hlit f h1
              | inr h1 =>
                subst h1
                apply goodName_paren_vs
                simpa using hstd
        · split at h
          · cases h
          · rename_i hids
            obtain ⟨a, ha, hg⟩ := except_map_ok_vs _ _ _ h
            obtain ⟨l', b'⟩ := a
            simp only [Prod.mk.injEq] at hg
            rw [← hg.1]
            apply ih _ _ _ _ _ ha
            intro f hf
            simp only [List.mem_append, List.mem_singleton] at hf
            cases hf with
            | inl h1 => exact hlit f h1
            | inr h1 =>
              subst h1
              exact goodName_ident_vs _ _ (by simpa using hids)

/-- every variable name `fragments` produces is a good name -/
theorem fragments_good_vs (value : Str) (frags : List Fragment) (hv : Bool)
    (h : fragments value = .ok (frags, hv)) : ∀ name, Fragment.var name ∈ frags → GoodName name := by
  unfold fragments at h
  split at h
  · cases h
  · rename_i l b hl
    simp only [Except.ok.injEq, Prod.mk.injEq] at h
    intro name hn
    rw [← h.1] at hn
    exact fragmentsAux_good_vs _ _ _ _ _ _ hl (by intro f hf; cases hf) _ hn

/-- fragments with a variable that do not force a string are exactly one variable -/
theorem fragments_sole_vs (value : Str) (frags : List Fragment)
    (h : fragments value = .ok (frags, true)) (hlen : frags.length ≤ 1) :
    ∃ name, frags = [.var name] := by
  unfold fragments at h
  split at h
  · cases h
  · simp only [Except.ok.injEq, Prod.mk.injEq] at h
    obtain ⟨h1, h2⟩ := h
    subst h1
    rename_i l _ _
    cases l with
    | nil => simp at h2
    | cons f r =>
      cases r with
      | nil =>
        cases f with
        | lit s => simp at h2
        | var name => exact ⟨name, rfl⟩
      | cons _ _ => simp at hlen

/-! ### one word: `resolveStep` is `substWord` -/

theorem mapM_nil_vs {α β : Type} (f : α → R β) : ([] : List α).mapM f = .ok [] := by
  simp [pure, Except.pure]

theorem mapM_cons_vs {α β : Type} (f : α → R β) (a : α) (l : List α) :
    (a :: l).mapM f =
      match f a with
      | .error e => .error e
      | .ok b =>
        match l.mapM f with
        | .error e => .error e
        | .ok bs => .ok (b :: bs) := by
  rw [List.mapM_cons]
  cases f a with
  | error e => rfl
  | ok b =>
    cases l.mapM f with
    | error e => rfl
    | ok bs => rfl

/-- what the operational `found` is for a reference -/
def refResult (w : Word) : VarRef → R (Option (List Word))
  | .value r => r.map some
  | .notDefinition => .error (.runtime "not_a_definition" w.line)
  | .undefined => .ok none

/-- the operational lookup-and-resolve of the variables of `w` agrees with `ref` -/
def RefAgrees (env : Env) (fuel : Nat) (chain : Chain) (id : Nat) (ref : Str → VarRef) (w : Word) : Prop :=
  ∀ name, GoodName name →
    foundOf env fuel w (lexicalGet (2 * name.length + chain.length + 1) chain name id true)
      = refResult w (ref name)

theorem resolveVar_spec_vs (env : Env) (fuel : Nat) (chain : Chain) (id : Nat) (diff : Bool) (w : Word)
    (force : Bool) (rs : List (List Word)) (name : Str) (ref : Str → VarRef)
    (h : foundOf env fuel w (lexicalGet (2 * name.length + chain.length + 1) chain name id true)
      = refResult w (ref name)) :
    resolveVar env fuel chain id diff w force rs name
      = (varWords env diff ref w name).map (fun vws =>
          rs ++ [if force then [wordDq (joinWith [' '] (vws.map (·.value)))] else vws]) := by
  unfold resolveVar varWords
  simp only [h]
  cases ref name with
  | value r =>
    cases r with
    | error e => rfl
    | ok v => rfl
  | notDefinition => rfl
  | undefined =>
    simp only [refResult]
    cases diff with
    | true => rfl
    | false =>
      simp only [Bool.false_eq_true, ↓reduceIte]
      cases env name <;> rfl

theorem foldl_texts_vs : ∀ (texts : List Str) (s0 : Str),
    (texts.map (fun t => [wordDq t])).foldl (fun s r => s ++ (r.headD (wordDq [])).value) s0
      = s0 ++ texts.flatten := by
  intro texts
  induction texts with
  | nil => intro s0; simp
  | cons t ts ih =>
    intro s0
    simp only [List.map_cons, List.foldl_cons, List.headD_cons, List.flatten_cons]
    rw [ih]
    simp [wordDq]

theorem foldlM_forced_vs (env : Env) (fuel : Nat) (chain : Chain) (id : Nat) (diff : Bool) (w : Word)
    (ref : Str → VarRef) : ∀ (frags : List Fragment) (rs : List (List Word)),
    (∀ name, Fragment.var name ∈ frags →
      foundOf env fuel w (lexicalGet (2 * name.length + chain.length + 1) chain name id true)
        = refResult w (ref name)) →
    frags.foldlM (resolveFrag env fuel chain id diff w true) rs
      = (frags.mapM (fragText env diff ref w)).map (fun texts => rs ++ texts.map (fun t => [wordDq t])) := by
  intro frags
  induction frags with
  | nil => intro rs _; simp [mapM_nil_vs, Except.map, pure, Except.pure]
  | cons f fs ih =>
    intro rs h
    rw [List.foldlM_cons, mapM_cons_vs]
    have ih' := fun rs' => ih rs' (fun name hn => h name (by simp [hn]))
    cases f with
    | lit s =>
      simp only [resolveFrag, fragText]
      show fs.foldlM _ (rs ++ [[wordDq s]]) = _
      rw [ih']
      cases fs.mapM (fragText env diff ref w) with
      | error e => rfl
      | ok bs => simp [Except.map]
    | var name =>
      simp only [resolveFrag, fragText]
      rw [resolveVar_spec_vs env fuel chain id diff w true rs name ref (h name (by simp))]
      cases varWords env diff ref w name with
      | error e => rfl
      | ok vws =>
        simp only [Except.map, ↓reduceIte]
        show fs.foldlM _ (rs ++ [[wordDq (joinWith [' '] (vws.map (·.value)))]]) = _
        rw [ih']
        cases fs.mapM (fragText env diff ref w) with
        | error e => rfl
        | ok bs => simp [Except.map]

theorem substWord_forced_vs (env : Env) (diff : Bool) (ref : Str → VarRef) (w : Word)
    (frags : List Fragment) (hq : ¬ (w.quote == some Quote.s1) = true)
    (hfr : fragments w.value = .ok (frags, true))
    (hforce : (w.quote.isSome || decide (frags.length > 1)) = true) :
    substWord env diff ref w
      = (frags.mapM (fragText env diff ref w)).map (fun texts => [wordDq texts.flatten]) := by
  unfold substWord
  simp only [hq, Bool.false_eq_true, ↓reduceIte, hfr, Bool.not_true]
  split
  · simp_all
  · rfl

theorem substWord_sole_vs (env : Env) (diff : Bool) (ref : Str → VarRef) (w : Word) (name : Str)
    (hqn : w.quote = none) (hfr : fragments w.value = .ok ([.var name], true)) :
    substWord env diff ref w = varWords env diff ref w name := by
  unfold substWord
  simp only [hqn, hfr, Bool.not_true, Bool.false_eq_true, ↓reduceIte]
  rfl

theorem resolveStep_spec_vs (env : Env) (fuel : Nat) (chain : Chain) (id : Nat) (diff : Bool)
    (ref : Str → VarRef) (acc : List Word) (w : Word) (h : RefAgrees env fuel chain id ref w) :
    resolveStep env fuel chain id diff acc w = (substWord env diff ref w).map (acc ++ ·) := by
  by_cases hq : (w.quote == some Quote.s1) = true
  · unfold resolveStep substWord
    simp [hq, Except.map]
  · cases hfr : fragments w.value with
    | error site =>
      unfold resolveStep substWord
      simp only [hq, Bool.false_eq_true, ↓reduceIte, hfr]
      rfl
    | ok p =>
      obtain ⟨frags, hv⟩ := p
      cases hv with
      | false =>
        unfold resolveStep substWord
        simp [hq, hfr, Except.map]
      | true =>
        have hgood := fragments_good_vs _ _ _ hfr
        have hH : ∀ name, Fragment.var name ∈ frags →
            foundOf env fuel w (lexicalGet (2 * name.length + chain.length + 1) chain name id true)
              = refResult w (ref name) := fun name hn => h name (hgood name hn)
        have hstep : resolveStep env fuel chain id diff acc w
            = resolveMix env fuel chain id diff w frags acc := by
          unfold resolveStep
          simp only [hq, Bool.false_eq_true, ↓reduceIte, hfr, Bool.not_true]
        rw [hstep]
        unfold resolveMix
        by_cases hforce : (w.quote.isSome || decide (frags.length > 1)) = true
        · -- a mixture: one double-quoted word
          rw [substWord_forced_vs env diff ref w frags hq hfr hforce]
          simp only [hforce]
          rw [foldlM_forced_vs env fuel chain id diff w ref frags [] hH]
          cases frags.mapM (fragText env diff ref w) with
          | error e => rfl
          | ok texts =>
            simp only [Except.map, Bool.not_true, Bool.false_eq_true, ↓reduceIte, List.nil_append,
              foldl_texts_vs]
        · -- exactly one unquoted variable
          have hforce' : (w.quote.isSome || decide (frags.length > 1)) = false := by simpa using hforce
          simp only [Bool.or_eq_false_iff, decide_eq_false_iff_not] at hforce'
          obtain ⟨hqn, hlen⟩ := hforce'
          obtain ⟨name, rfl⟩ := fragments_sole_vs _ _ hfr (by omega)
          have hqn' : w.quote = none := by
            cases hw : w.quote with
            | none => rfl
            | some q => simp [hw] at hqn
          rw [substWord_sole_vs env diff ref w name hqn' hfr]
          simp only [hqn', Option.isSome_none, List.length_cons, List.length_nil, Nat.zero_add,
            gt_iff_lt, Nat.lt_irrefl, decide_false, Bool.or_self, List.foldlM_cons, List.foldlM_nil,
            resolveFrag]
          rw [resolveVar_spec_vs env fuel chain id diff w false [] name ref (hH name (by simp))]
          cases varWords env diff ref w name with
          | error e => rfl
          | ok vws => simp [Except.map, bind, Except.bind, pure, Except.pure]

/-- all words: the accumulating fold is `mapM` + `flatten` -/
theorem foldlM_words_spec_vs (env : Env) (fuel : Nat) (chain : Chain) (id : Nat) (diff : Bool)
    (ref : Str → VarRef) (h : ∀ w, RefAgrees env fuel chain id ref w) :
    ∀ (words acc : List Word),
      words.foldlM (resolveStep env fuel chain id diff) acc
        = (words.mapM (substWord env diff ref)).map (fun xs => acc ++ xs.flatten) := by
  intro words
  induction words with
  | nil => intro acc; simp [mapM_nil_vs, Except.map, pure, Except.pure]
  | cons w ws ih =>
    intro acc
    rw [List.foldlM_cons, mapM_cons_vs, resolveStep_spec_vs env fuel chain id diff ref acc w (h w)]
    cases substWord env diff ref w with
    | error e => rfl
    | ok b =>
      simp only [Except.map]
      show ws.foldlM _ (acc ++ b) = _
      rw [ih]
      cases ws.mapM (substWord env diff ref) with
      | error e => rfl
      | ok bs => simp [Except.map]

/-! ### the main equality -/

/-- the meaning of the variables of the definition at `pos` (the `ref` inside `denote`) -/
def refOf (env : Env) (root : List Obj) (pos : List Nat) (name : Str) : VarRef :=
  match nearestEarlier root pos name with
  | none => .undefined
  | some p =>
    match objAt root p with
    | some (.defn _ _) => .value (denote env root p false)
    | _ => .notDefinition

theorem denote_defn_vs (env : Env) (root : List Obj) (pos : List Nat) (diff : Bool) (m : Meta)
    (ws : List Word) (h : objAt root pos = some (.defn m ws)) :
    denote env root pos diff
      = (ws.mapM (substWord env diff (refOf env root pos))).map List.flatten := by
  rw [denote]
  simp only [h]
  congr 2
  funext w
  congr 1
  funext name
  unfold refOf
  split <;> simp_all

theorem denote_other_vs (env : Env) (root : List Obj) (pos : List Nat) (diff : Bool)
    (h : ∀ m ws, objAt root pos ≠ some (.defn m ws)) :
    denote env root pos diff = .error (.unsupported "no definition at path") := by
  rw [denote]
  split
  · rename_i m ws hh; exact absurd hh (h m ws)
  · rfl

theorem resolveWords_eq_denote_vs (env : Env) (root : List Obj) (hd : Numbered root) :
    ∀ (n : Nat) (pos : List Nat) (m : Meta) (ws : List Word) (ch : Chain),
      chainAt root pos [] = some (.defn m ws, ch) → m.id = some n →
      ∀ (fuel : Nat) (diff : Bool), n < fuel →
        resolveWords env fuel ch n ws diff = denote env root pos diff := by
  intro n
  induction n using Nat.strongRecOn with
  | ind n ih =>
    intro pos m ws ch hc hid fuel diff hfuel
    obtain ⟨f, rfl⟩ : ∃ k, fuel = k + 1 := ⟨fuel - 1, by omega⟩
    have hobj := chainAt_objAt_vs pos root [] _ ch hc
    have hH : ∀ w, RefAgrees env f ch n (refOf env root pos) w := by
      intro w name hg
      rw [lexicalGet_nearestEarlier_vs root hd pos (.defn m ws) ch n hc hid name hg]
      unfold refOf foundOr
      cases hne : nearestEarlier root pos name with
      | none => rfl
      | some p =>
        obtain ⟨n', o, hn', ho, he⟩ := nearestEarlier_earlier_vs root pos name p hne
        rw [idAt_of_chainAt_vs root pos _ ch n hc hid] at hn'
        cases hn'
        obtain ⟨cc, hcc⟩ := objAt_chainAt_vs p root [] o ho
        simp only [hcc, ho]
        cases o with
        | scope m' k' => rfl
        | defn m' ws' =>
          obtain ⟨i, hi, hlt⟩ := earlier_id_vs he
          have hi' : m'.id = some i := hi
          simp only [foundOf, hi', refResult]
          rw [ih i hlt p m' ws' cc hcc hi' f false (by omega)]
    rw [resolveWords_succ, denote_defn_vs env root pos diff m ws hobj,
      foldlM_words_spec_vs env f ch n diff (refOf env root pos) hH ws []]
    cases ws.mapM (substWord env diff (refOf env root pos)) with
    | error e => rfl
    | ok xs => simp [Except.map]

/-! ### `resolveAt` -/

theorem idsLeList_get_vs (b : Nat) : ∀ (l : List Obj) (i : Nat) (o : Obj), idsLeList b l = true →
    l[i]? = some o → idsLeObj b o = true := by
  intro l
  induction l with
  | nil => intro i o _ h; simp at h
  | cons a r ih =>
    intro i o h hi
    simp only [idsLeList, Bool.and_eq_true] at h
    cases i with
    | zero => simp at hi; subst hi; exact h.1
    | succ j => exact ih j o h.2 (by simpa using hi)

theorem idsLe_objAt_vs (b : Nat) : ∀ (pos : List Nat) (objs : List Obj) (o : Obj) (n : Nat),
    idsLeList b objs = true → objAt objs pos = some o → o.meta.id = some n → n ≤ b := by
  intro pos
  induction pos with
  | nil => intro objs o n _ h; rw [objAt_nil_vs] at h; cases h
  | cons i q ih =>
    intro objs o n hb h hid
    cases q with
    | nil =>
      simp only [objAt] at h
      have := idsLeList_get_vs b objs i o hb h
      cases o with
      | defn m ws =>
        have hid' : m.id = some n := hid
        simpa [idsLeObj, hid'] using this
      | scope m k =>
        have hid' : m.id = some n := hid
        simp only [idsLeObj, hid', Bool.and_eq_true, decide_eq_true_eq] at this
        exact this.1
    | cons a c =>
      simp only [objAt] at h
      split at h
      · rename_i m kids hi
        have := idsLeList_get_vs b objs i _ hb hi
        simp only [idsLeObj, Bool.and_eq_true] at this
        exact ih kids o n this.2 h hid
      · cases h

theorem numbered_id_some_vs : ∀ (pos : List Nat) (objs : List Obj) (o : Obj),
    Numbered objs → objAt objs pos = some o → o.meta.id.isSome = true := by
  intro pos
  induction pos with
  | nil => intro objs o _ h; rw [objAt_nil_vs] at h; cases h
  | cons i q ih =>
    intro objs o hd h
    cases q with
    | nil =>
      simp only [objAt] at h
      exact (levelOk_mem_vs objs o hd.1 (getElem_mem_vs h)).1
    | cons a c =>
      simp only [objAt] at h
      split at h
      · rename_i m kids hi
        exact ih kids o (okList_mem_vs objs m kids hd.2 (getElem_mem_vs hi)) h
      · cases h

theorem resolveAt_eq_denote_vs (env : Env) (root : List Obj) (hd : DocIds root) (pos : List Nat)
    (diff : Bool) : resolveAt env root pos diff = denote env root pos diff := by
  unfold resolveAt
  cases hc : chainAt root pos [] with
  | none =>
    simp only []
    rw [denote_other_vs]
    intro m ws ho
    obtain ⟨c, hcc⟩ := objAt_chainAt_vs pos root [] _ ho
    rw [hc] at hcc; cases hcc
  | some r =>
    obtain ⟨o, ch⟩ := r
    have ho := chainAt_objAt_vs pos root [] o ch hc
    cases o with
    | scope m k =>
      simp only []
      rw [denote_other_vs]
      intro m' ws' ho'
      rw [ho] at ho'; cases ho'
    | defn m ws =>
      have hsome := numbered_id_some_vs pos root _ hd.1 ho
      cases hid : m.id with
      | none => simp [Obj.meta, hid] at hsome
      | some n =>
        simp only [hid]
        have hle := idsLe_objAt_vs (sizeList root) pos root _ n hd.2 ho hid
        rw [sizeList_eq_countObjs_vs] at hle
        exact resolveWords_eq_denote_vs env root hd.1 n pos m ws ch hc hid _ diff (by omega)

/-! ### later objects are irrelevant: pruned documents have pruned chains -/

theorem vis_of_idLe_vs {n : Nat} {a o : Obj} (hle : idLe a o = true) (hv : vis n o = true)
    (hid : o.meta.id.isSome = true) : vis n a = true := by
  unfold idLe at hle
  unfold vis at hv ⊢
  cases h1 : a.meta.id with
  | none => rfl
  | some i =>
    cases h2 : o.meta.id with
    | none => simp [h2] at hid
    | some j =>
      simp only [h1, h2, decide_eq_true_eq] at hle hv ⊢
      omega

theorem pruneList_get_vis_vs (n : Nat) : ∀ (l : List Obj) (i : Nat) (o : Obj), levelOk l = true →
    l[i]? = some o → vis n o = true → (pruneBeforeList n l)[i]? = some (pruneBeforeObj n o) := by
  intro l
  induction l with
  | nil => intro i o _ h; simp at h
  | cons a r ih =>
    intro i o hl hi hv
    simp only [levelOk, Bool.and_eq_true] at hl
    obtain ⟨⟨⟨_, _⟩, hall⟩, hr⟩ := hl
    cases i with
    | zero =>
      simp at hi; subst hi
      simp [pruneBeforeList, hv]
    | succ j =>
      have hj : r[j]? = some o := by simpa using hi
      have hmem := getElem_mem_vs hj
      rw [List.all_eq_true] at hall
      have hva : vis n a = true :=
        vis_of_idLe_vs (hall o hmem) hv (levelOk_mem_vs r o hr hmem).1
      simp only [pruneBeforeList, hva, ↓reduceIte, List.getElem?_cons_succ]
      exact ih j o hr hj hv

theorem pruneList_len_invis_vs (n : Nat) : ∀ (l : List Obj) (i : Nat) (o : Obj),
    l[i]? = some o → vis n o = false → (pruneBeforeList n l).length ≤ i := by
  intro l
  induction l with
  | nil => intro i o h; simp at h
  | cons a r ih =>
    intro i o hi hv
    by_cases hva : vis n a = true
    · cases i with
      | zero => simp at hi; subst hi; rw [hv] at hva; cases hva
      | succ j =>
        simp only [pruneBeforeList, hva, ↓reduceIte, List.length_cons]
        have := ih j o (by simpa using hi) hv
        omega
    · simp [pruneBeforeList, hva]

theorem pruneList_nil_of_le_vs (n : Nat) (s : Obj) (kids : List Obj) (hs : vis n s = false)
    (hsid : s.meta.id.isSome = true) (hall : kids.all (idLe s) = true) : pruneBeforeList n kids = [] := by
  cases kids with
  | nil => rfl
  | cons a r =>
    rw [List.all_eq_true] at hall
    have hle := hall a (by simp)
    have : vis n a = false := by
      cases hv : vis n a with
      | false => rfl
      | true =>
        have hida : a.meta.id.isSome = true := by
          unfold idLe at hle
          cases h1 : a.meta.id with
          | none => cases h2 : s.meta.id <;> simp [h1, h2] at hle
          | some j => rfl
        rw [vis_of_idLe_vs hle hv hida] at hs
        cases hs
    simp [pruneBeforeList, this]

/-- the same scope position in two documents that agree after pruning: the scopes' objects agree
    after pruning -/
theorem prune_kids_agree_vs (n : Nat) (objs1 objs2 : List Obj) (h1 : Numbered objs1)
    (h2 : Numbered objs2) (hp : pruneBeforeList n objs1 = pruneBeforeList n objs2) (i : Nat) (m1 m2 : Meta)
    (k1 k2 : List Obj) (hi1 : objs1[i]? = some (.scope m1 k1)) (hi2 : objs2[i]? = some (.scope m2 k2)) :
    pruneBeforeList n k1 = pruneBeforeList n k2 := by
  have hmem1 := getElem_mem_vs hi1
  have hmem2 := getElem_mem_vs hi2
  by_cases hv1 : vis n (.scope m1 k1) = true
  · have g1 := pruneList_get_vis_vs n objs1 i _ h1.1 hi1 hv1
    rw [hp] at g1
    by_cases hv2 : vis n (.scope m2 k2) = true
    · have g2 := pruneList_get_vis_vs n objs2 i _ h2.1 hi2 hv2
      rw [g1] at g2
      simp only [pruneBeforeObj, Option.some.injEq, Obj.scope.injEq] at g2
      exact g2.2
    · have := pruneList_len_invis_vs n objs2 i _ hi2 (by simpa using hv2)
      have hlt : i < (pruneBeforeList n objs2).length := by
        rcases Nat.lt_or_ge i (pruneBeforeList n objs2).length with h | h
        · exact h
        · rw [List.getElem?_eq_none h] at g1; cases g1
      omega
  · have hv1' : vis n (.scope m1 k1) = false := by simpa using hv1
    have hlen := pruneList_len_invis_vs n objs1 i _ hi1 hv1'
    rw [hp] at hlen
    have hv2' : vis n (.scope m2 k2) = false := by
      cases hv : vis n (.scope m2 k2) with
      | false => rfl
      | true =>
        have g2 := pruneList_get_vis_vs n objs2 i _ h2.1 hi2 hv
        have hlt : i < (pruneBeforeList n objs2).length := by
          rcases Nat.lt_or_ge i (pruneBeforeList n objs2).length with h | h
          · exact h
          · rw [List.getElem?_eq_none h] at g2; cases g2
        omega
    rw [pruneList_nil_of_le_vs n _ k1 hv1' (levelOk_mem_vs objs1 _ h1.1 hmem1).1
          (okList_kids_le_vs objs1 m1 k1 h1.2 hmem1),
        pruneList_nil_of_le_vs n _ k2 hv2' (levelOk_mem_vs objs2 _ h2.1 hmem2).1
          (okList_kids_le_vs objs2 m2 k2 h2.2 hmem2)]

theorem prune_chain_agree_vs (n : Nat) : ∀ (pos : List Nat) (objs1 objs2 : List Obj)
    (outer1 outer2 : Chain) (d1 d2 : Obj) (c1 c2 : Chain), Numbered objs1 → Numbered objs2 →
    pruneBeforeList n objs1 = pruneBeforeList n objs2 →
    outer1.map (pruneBeforeList n) = outer2.map (pruneBeforeList n) →
    chainAt objs1 pos outer1 = some (d1, c1) → chainAt objs2 pos outer2 = some (d2, c2) →
    c1.map (pruneBeforeList n) = c2.map (pruneBeforeList n) := by
  intro pos
  induction pos with
  | nil => intro objs1 objs2 outer1 outer2 d1 d2 c1 c2 _ _ _ _ h; cases objs1 <;> simp [chainAt] at h
  | cons i q ih =>
    intro objs1 objs2 outer1 outer2 d1 d2 c1 c2 h1 h2 hp ho hc1 hc2
    cases q with
    | nil =>
      simp only [chainAt, Option.map_eq_some_iff] at hc1 hc2
      obtain ⟨_, _, e1⟩ := hc1
      obtain ⟨_, _, e2⟩ := hc2
      cases e1; cases e2
      simp [hp, ho]
    | cons a b =>
      simp only [chainAt] at hc1 hc2
      split at hc1
      · rename_i m1 k1 hi1
        split at hc2
        · rename_i m2 k2 hi2
          exact ih k1 k2 (objs1 :: outer1) (objs2 :: outer2) d1 d2 c1 c2
            (okList_mem_vs objs1 m1 k1 h1.2 (getElem_mem_vs hi1))
            (okList_mem_vs objs2 m2 k2 h2.2 (getElem_mem_vs hi2))
            (prune_kids_agree_vs n objs1 objs2 h1 h2 hp i m1 m2 k1 k2 hi1 hi2)
            (by simp [hp, ho]) hc1 hc2
        · cases hc2
      · cases hc1

theorem resolveAt_defn_vs (env : Env) (root : List Obj) (hd : DocIds root) (pos : List Nat)
    (diff : Bool) (m : Meta) (ws : List Word) (n : Nat) (ho : objAt root pos = some (.defn m ws))
    (hid : m.id = some n) :
    ∃ ch, chainAt root pos [] = some (.defn m ws, ch) ∧
      denote env root pos diff = resolveWords env (n + 1) ch n ws diff := by
  obtain ⟨ch, hch⟩ := objAt_chainAt_vs pos root [] _ ho
  exact ⟨ch, hch, (resolveWords_eq_denote_vs env root hd.1 n pos m ws ch hch hid _ diff (by omega)).symm⟩

theorem later_irrelevant_vs (env : Env) (root1 root2 : List Obj) (hd1 : DocIds root1)
    (hd2 : DocIds root2) (pos : List Nat) (diff : Bool) (m1 m2 : Meta) (ws : List Word) (n : Nat)
    (h1 : objAt root1 pos = some (.defn m1 ws)) (h2 : objAt root2 pos = some (.defn m2 ws))
    (hid1 : m1.id = some n) (hid2 : m2.id = some n)
    (hp : pruneBeforeList n root1 = pruneBeforeList n root2) :
    denote env root1 pos diff = denote env root2 pos diff := by
  obtain ⟨c1, hc1, e1⟩ := resolveAt_defn_vs env root1 hd1 pos diff m1 ws n h1 hid1
  obtain ⟨c2, hc2, e2⟩ := resolveAt_defn_vs env root2 hd2 pos diff m2 ws n h2 hid2
  rw [e1, e2]
  exact resolveWords_frame env _ c1 c2 n ws diff
    (prune_chain_agree_vs n pos root1 root2 [] [] _ _ c1 c2 hd1.1 hd2.1 hp rfl hc1 hc2)

/-! ### the environment is only a fallback; untouched words -/

theorem env_closed_vs (env : Env) (root : List Obj) (hd : DocIds root) (pos : List Nat) (diff : Bool)
    (r : List Word) (h : denote (fun _ => none) root pos diff = .ok r) :
    denote env root pos diff = .ok r := by
  rw [← resolveAt_eq_denote_vs _ root hd] at h ⊢
  unfold resolveAt at h ⊢
  cases hc : chainAt root pos [] with
  | none => simp [hc] at h
  | some x =>
    obtain ⟨o, ch⟩ := x
    cases o with
    | scope m k => simp [hc] at h
    | defn m ws =>
      cases hid : m.id with
      | none => simp [hc, hid] at h
      | some n =>
        simp only [hc, hid] at h ⊢
        exact resolveWords_env_closed env _ _ _ _ _ _ h

theorem mapM_untouched_vs (env : Env) (diff : Bool) (ref : Str → VarRef) :
    ∀ (ws : List Word), (∀ w ∈ ws, w.quote = some .s1 ∨ '$' ∉ w.value) →
      ws.mapM (substWord env diff ref) = .ok (ws.map (fun w => [w])) := by
  intro ws
  induction ws with
  | nil => intro _; exact mapM_nil_vs _
  | cons w ws ih =>
    intro h
    rw [mapM_cons_vs, ih (fun x hx => h x (by simp [hx]))]
    have hw : substWord env diff ref w = .ok [w] := by
      unfold substWord
      cases h w (by simp) with
      | inl hq => simp [hq]
      | inr hd =>
        by_cases hq : (w.quote == some Quote.s1) = true
        · simp [hq]
        · simp [hq, no_dollar_no_vars _ hd]
    rw [hw]
    rfl

theorem flatten_singletons_vs (ws : List Word) : (ws.map (fun w => [w])).flatten = ws := by
  induction ws with
  | nil => rfl
  | cons w ws ih => simp [ih]

end Phil.C12
