/-
  Layout grammar, third part (C02 / C15): the spellings of property C02 that the grammar of
  Phil/Proofs/Layout.lean does not have —
    * continuation lines inside a value: a lone backslash at the end of a line (`Gap.bs`), a quoted
      word at the start of a later line (`Gap.ws` with newlines in front of a quoted word);
    * regions switched off with `#phil __OFF__` … `#phil __ON__` wherever filler lines are allowed
      (`OffRegion`, `Pre3`);
    * a document cut by `#phil __END__` (`DocEnd`).
  Everything carries the suffix `3`; the vocabulary `FillLine`, `Terminator`, `goodDef`, `reline` … is
  that of Phil/Proofs/Layout.lean and Phil/Proofs/PrintParse.lean.
-/
import Phil.Proofs.Layout
set_option linter.unusedSimpArgs false
set_option linter.unusedVariables false
namespace Phil

/-! ### gaps: what stands in front of a word -/

/-- every character is white space (`str.isspace()`), newlines included -/
def allSpace (sp : Str) : Bool := sp.all isSpace

theorem allSpace_space {sp : Str} (h : allSpace sp = true) : ∀ d ∈ sp, isSpace d = true := by
  simpa [allSpace, List.all_eq_true] using h

/-- The text in front of a word of a value.
    `bs = none`: white space `ws` only.  `bs = some b`: blanks `b`, a lone backslash, white space `ws`
    (the backslash continuation: `ws` normally holds the newline, but any white space will do). -/
structure Gap where
  bs : Option Str := none
  ws : Str
  deriving Repr, DecidableEq

def Gap.text (g : Gap) : Str :=
  match g.bs with
  | none => g.ws
  | some b => b ++ '\\' :: g.ws

/-- Well-formedness of the gap in front of word `w`.  `first`: it is the first word of the value;
    `same`: the previous word (or the name) ended on the line on which it started.
    * without backslash: white space, non-empty unless first; newlines only in front of a quoted word;
      an unquoted word needs `same` (the parser compares its line with the *start* line of the previous word);
    * with backslash: inline blanks (non-empty unless first), backslash, non-empty white space; needs
      `same` (the backslash itself is an unquoted word). -/
def gapOK (first same : Bool) (g : Gap) (w : Word) : Bool :=
  allSpace g.ws &&
  match g.bs with
  | none => (first || !g.ws.isEmpty) && (w.quote.isSome || (same && inlineB g.ws))
  | some b => inlineB b && (first || !b.isEmpty) && !g.ws.isEmpty && same

def gapsOK3 : Bool → Bool → List Gap → List Word → Bool
  | _, _, [], [] => true
  | first, same, g :: gs, w :: ws => gapOK first same g w && gapsOK3 false (nlCount w.value == 0) gs ws
  | _, _, _, _ => false

def wordsLay3 : List Gap → List Word → Str
  | g :: gs, w :: ws => g.text ++ (w.str ++ wordsLay3 gs ws)
  | _, _ => []

/-- the words as the parser returns them: each with the line on which it starts -/
def relineG : Nat → List Gap → List Word → List Word
  | l, g :: gs, w :: ws =>
    { w with line := some (l + nlCount g.text) } :: relineG (l + nlCount g.text + nlCount w.value) gs ws
  | _, _, _ => []

/-- the line on which the last word ends -/
def endLineG : Nat → List Gap → List Word → Nat
  | l, g :: gs, w :: ws => endLineG (l + nlCount g.text + nlCount w.value) gs ws
  | l, _, _ => l

theorem gapsOK3_nil_right {first same : Bool} {gaps : List Gap} (h : gapsOK3 first same gaps [] = true) :
    gaps = [] := by
  cases gaps with
  | nil => rfl
  | cons g gs => simp [gapsOK3] at h

theorem gapsOK3_cons_right {first same : Bool} {gaps : List Gap} {w : Word} {ws : List Word}
    (h : gapsOK3 first same gaps (w :: ws) = true) :
    ∃ g gs, gaps = g :: gs ∧ gapOK first same g w = true ∧
      gapsOK3 false (nlCount w.value == 0) gs ws = true := by
  cases gaps with
  | nil => simp [gapsOK3] at h
  | cons g gs =>
    simp only [gapsOK3, Bool.and_eq_true] at h
    exact ⟨g, gs, rfl, h.1, h.2⟩

theorem nlCount_backslash_cons (s : Str) : nlCount ('\\' :: s) = nlCount s :=
  nlCount_cons_ne _ _ (by decide)

/-- a non-first gap starts with a white-space character -/
theorem gap_text_head {same : Bool} {g : Gap} {w : Word} (h : gapOK false same g w = true) :
    ∃ d r, g.text = d :: r ∧ isSpace d = true := by
  unfold gapOK at h
  rw [Bool.and_eq_true] at h
  obtain ⟨hws, h⟩ := h
  cases hb : g.bs with
  | none =>
    rw [hb] at h
    simp only [Bool.false_or, Bool.and_eq_true, Bool.not_eq_true', List.isEmpty_eq_false_iff] at h
    cases hw : g.ws with
    | nil => exact absurd hw h.1
    | cons d r =>
      refine ⟨d, r, by simp [Gap.text, hb, hw], ?_⟩
      exact allSpace_space hws d (by simp [hw])
  | some b =>
    rw [hb] at h
    simp only [Bool.false_or, Bool.and_eq_true, Bool.not_eq_true', List.isEmpty_eq_false_iff] at h
    obtain ⟨⟨⟨h1, h2⟩, _⟩, _⟩ := h
    cases hbb : b with
    | nil => exact absurd hbb h2
    | cons d r =>
      refine ⟨d, r ++ '\\' :: g.ws, by simp [Gap.text, hb, hbb], ?_⟩
      exact inlineB_space h1 d (by simp [hbb])

theorem wordsLay3_tail (F : Str) (hF : GoodTail F) (same : Bool) (gs : List Gap) (ws : List Word)
    (h : gapsOK3 false same gs ws = true) : GoodTail (wordsLay3 gs ws ++ F) := by
  cases ws with
  | nil => rw [gapsOK3_nil_right h]; exact hF
  | cons w ws =>
    obtain ⟨g, gs', rfl, hg, _⟩ := gapsOK3_cons_right h
    obtain ⟨d, r, e, hd⟩ := gap_text_head hg
    simp only [wordsLay3, e, List.cons_append]
    exact GoodTail.cons_space d _ hd

theorem str_length_pos' {w : Word} (h : goodWord w = true) : 1 ≤ w.str.length := str_length_pos h

/-- the word iterator (value context) on blanks followed by the lone backslash -/
theorem nextWord_value_backslash (b rest : Str) (l : Nat) (hb : inlineB b = true)
    (hr : stopsAt valueSettings rest = true) :
    nextWord valueSettings ⟨b ++ '\\' :: rest, l⟩
      = .ok (some ({ value := ['\\'], quote := none, line := some l }, ⟨rest, l⟩)) := by
  unfold nextWord
  simp only []
  rw [nextWordAux_skip valueSettings b _ (inlineB_space hb), inlineB_nl hb, Nat.add_zero]
  exact nextWordAux_plain valueSettings '\\' [] rest l (by rfl) (by rfl) (by rfl) (by rfl)
    (by intro d hd; simp at hd) hr

/-- **The value collector on the words of a definition under the extended gaps**: every word is taken
    with its value, quote style and the line on which it starts, whatever continuation (backslash,
    quoted word on a later line, newlines inside quoted words) is used; then the collector is in front
    of the text `F` that follows the last word. -/
theorem cAA_layWords3 (F : Str) (P : CI → Prop) (hgt : GoodTail F) :
    ∀ (ws : List Word) (gaps : List Gap) (first : Bool) (fuel l l0 : Nat) (same : Bool) (last : Word)
      (acc : List Word),
      gapsOK3 first same gaps ws = true → (∀ w ∈ ws, goodWord w = true) →
      (wordsLay3 gaps ws ++ F).length + 1 ≤ fuel →
      last.line = some l0 → l0 ≤ l → (same = true → l0 = l) → isUnq last "\\" = false →
      (∀ (fuel' : Nat) (last' : Word) (acc' : List Word) (l0' : Nat), F.length + 1 ≤ fuel' →
          last'.line = some l0' → l0' ≤ endLineG l gaps ws → isUnq last' "\\" = false →
          ∃ ci4, collectAssignedAux fuel' ⟨F, endLineG l gaps ws⟩ last' false acc'
            = .ok (acc'.reverse, ci4) ∧ P ci4) →
      ∃ ci4, collectAssignedAux fuel ⟨wordsLay3 gaps ws ++ F, l⟩ last false acc
          = .ok (acc.reverse ++ relineG l gaps ws, ci4) ∧ P ci4 := by
  intro ws
  induction ws with
  | nil =>
    intro gaps first fuel l l0 same last acc hgaps _ hf hl hle _ hbs hF
    rw [gapsOK3_nil_right hgaps] at hf hF ⊢
    simp only [wordsLay3, List.nil_append, relineG, List.append_nil, endLineG] at hf hF ⊢
    exact hF fuel last acc l0 hf hl hle hbs
  | cons w ws ih =>
    intro gaps first fuel l l0 same last acc hgaps hgood hf hl hle hsame hbs hF
    obtain ⟨g, gs, rfl, hg, hgs⟩ := gapsOK3_cons_right hgaps
    have hgw := hgood w (by simp)
    have hgood' : ∀ v ∈ ws, goodWord v = true := fun v hv => hgood v (by simp [hv])
    have hwl := str_length_pos hgw
    have htail := wordsLay3_tail F hgt _ gs ws hgs
    unfold gapOK at hg
    rw [Bool.and_eq_true] at hg
    obtain ⟨hws, hg⟩ := hg
    have hwsp := allSpace_space hws
    cases hb : g.bs with
    | none =>
      rw [hb] at hg
      simp only [Bool.and_eq_true, Bool.or_eq_true] at hg
      obtain ⟨_, hq⟩ := hg
      have htxt : g.text = g.ws := by simp [Gap.text, hb]
      have htext : wordsLay3 (g :: gs) (w :: ws) ++ F = g.ws ++ w.str ++ (wordsLay3 gs ws ++ F) := by
        simp [wordsLay3, htxt]
      obtain ⟨f, rfl⟩ : ∃ f, fuel = f + 1 := ⟨fuel - 1, by omega⟩
      have hf' : (wordsLay3 gs ws ++ F).length + 1 ≤ f := by
        rw [htext] at hf
        simp only [List.length_append] at hf ⊢
        omega
      obtain ⟨hstep, hbs'⟩ := cAA_good_word' g.ws hwsp w hgw (wordsLay3 gs ws ++ F) htail f l last acc
        (by
          intro hqn
          right
          rcases hq with hq | hq
          · rw [hqn] at hq; cases hq
          · obtain ⟨hsm, hin⟩ := hq
            rw [hl, hsame hsm, inlineB_nl hin]; rfl)
      obtain ⟨ci4, h1, h2⟩ := ih gs false f (l + nlCount g.ws + nlCount w.value) (l + nlCount g.ws)
        (nlCount w.value == 0) _ ({ w with line := some (l + nlCount g.ws) } :: acc) hgs hgood' hf' rfl
        (by omega) (by intro h; simp at h; omega) hbs'
        (by simpa [endLineG, htxt] using hF)
      refine ⟨ci4, ?_, h2⟩
      rw [htext, hstep, h1]
      simp [relineG, htxt]
    | some b =>
      rw [hb] at hg
      simp only [Bool.and_eq_true, Bool.not_eq_true', List.isEmpty_eq_false_iff] at hg
      obtain ⟨⟨⟨hbi, _⟩, hwne⟩, hsm⟩ := hg
      have htxt : g.text = b ++ '\\' :: g.ws := by simp [Gap.text, hb]
      have hnl : nlCount g.text = nlCount g.ws := by
        rw [htxt, nlCount_append, inlineB_nl hbi, nlCount_backslash_cons]; omega
      have htext : wordsLay3 (g :: gs) (w :: ws) ++ F
          = b ++ '\\' :: (g.ws ++ w.str ++ (wordsLay3 gs ws ++ F)) := by
        simp [wordsLay3, htxt]
      obtain ⟨f, rfl⟩ : ∃ f, fuel = f + 2 := ⟨fuel - 2, by
        rw [htext] at hf
        simp only [List.length_append, List.length_cons] at hf
        omega⟩
      have hf' : (wordsLay3 gs ws ++ F).length + 1 ≤ f := by
        rw [htext] at hf
        simp only [List.length_append, List.length_cons] at hf ⊢
        have : 1 ≤ g.ws.length := by
          cases hw : g.ws with
          | nil => exact absurd hw hwne
          | cons d r => simp
        omega
      have hstop : stopsAt valueSettings (g.ws ++ w.str ++ (wordsLay3 gs ws ++ F)) = true := by
        cases hw : g.ws with
        | nil => exact absurd hw hwne
        | cons d r =>
          simp only [List.cons_append, stopsAt]
          exact ends_of_isSpace _ (hwsp d (by simp [hw]))
      have hbsw := nextWord_value_backslash b (g.ws ++ w.str ++ (wordsLay3 gs ws ++ F)) l hbi hstop
      have hll : l0 = l := hsame hsm
      obtain ⟨hstep, hbs'⟩ := cAA_good_word' g.ws hwsp w hgw (wordsLay3 gs ws ++ F) htail f l
        { value := ['\\'], quote := none, line := some l } acc (fun _ => Or.inl (by rfl))
      obtain ⟨ci4, h1, h2⟩ := ih gs false f (l + nlCount g.ws + nlCount w.value) (l + nlCount g.ws)
        (nlCount w.value == 0) _ ({ w with line := some (l + nlCount g.ws) } :: acc) hgs hgood' hf' rfl
        (by omega) (by intro h; simp at h; omega) hbs'
        (by simpa [endLineG, hnl] using hF)
      refine ⟨ci4, ?_, h2⟩
      rw [htext, cAA_continuation (f + 1) _ _ last _ acc hbsw rfl rfl hbs (by rw [hl, hll]), hstep, h1]
      simp [relineG, hnl]

/-! ### what may follow a value: a name, the end of the text, or a `#phil` directive -/

/-- `X` is a text in front of which (after white space with a newline) a value ends, and whose first
    non-blank character is not a quote -/
structure StopHead (X : Str) : Prop where
  ends : ∀ (sp : Str) (L l0 : Nat), (∀ d ∈ sp, isSpace d = true) → l0 < L + nlCount sp →
    EndsValue ⟨sp ++ X, L⟩ l0
  noq : ∀ c, firstNonSpace X = some c → isQuoteChar c = false

theorem StopHead_of_NameHead {X : Str} (h : NameHead X) : StopHead X where
  ends := fun sp L l0 hsp hl => EndsValue_name sp X L l0 hsp h hl
  noq := by
    intro c hc
    cases X with
    | nil => simp [firstNonSpace] at hc
    | cons x t =>
      have hx := h x t rfl
      simp only [firstNonSpace, idCont_not_space hx, Bool.false_eq_true, ↓reduceIte,
        Option.some.injEq] at hc
      subst hc
      exact idCont_not_quote hx

def philWord : Str := "#phil".toList

/-- the word iterator (either context) at `#phil` followed by white space -/
theorem nextWordAux_phil (st : Settings) (hst : st = valueSettings ∨ st = structSettings)
    (d : Char) (r : Str) (hd : isSpace d = true) (l : Nat) :
    nextWordAux st false (philWord ++ d :: r) l
      = .ok (some ({ value := philWord, quote := none, line := some l }, ⟨d :: r, l⟩)) := by
  have hsp : isSpace '#' = false := by rfl
  have hcs : isCommentStart st '#' ("phil".toList ++ d :: r) = false := by
    rcases hst with rfl | rfl
    · exact commentChars_value _ _
    · simp [isCommentStart, structSettings, Gen.structComment, Gen.structMeta]
  have e : philWord ++ d :: r = '#' :: ("phil".toList ++ d :: r) := rfl
  rw [e, nextWordAux_word st '#' _ l hsp hcs]
  have hl : startsLong st '#' = true := by rcases hst with rfl | rfl <;> rfl
  have hw : ∀ c ∈ "phil".toList, endsUnquoted st c = false := by
    rcases hst with rfl | rfl <;> decide
  have hr : stopsAt st (d :: r) = true := ends_of_isSpace st hd
  unfold wordAt
  have hq : ('#' == '"' || '#' == '\'') = false := by decide
  simp only [hq, Bool.false_eq_true, ↓reduceIte, hl, scanU_plain st _ _ hw hr]
  simp [Except.map, philWord]

theorem StopHead_phil (d : Char) (r : Str) (hd : isSpace d = true) : StopHead (philWord ++ d :: r) where
  ends := by
    intro sp L l0 hsp hl
    refine EndsValue_word sp _ { value := philWord, quote := none, line := some (L + nlCount sp) }
      ⟨d :: r, L + nlCount sp⟩ L l0 hsp ?_ rfl
      (by show philWord ≠ [';']; decide) (by show philWord ≠ ['#']; decide) ?_
    · exact nextWordAux_phil valueSettings (Or.inl rfl) d r hd _
    · intro e; simp only [Option.some.injEq] at e; omega
  noq := by
    intro c hc
    have : firstNonSpace (philWord ++ d :: r) = some '#' := by
      simp [philWord, firstNonSpace, isSpace_hash]
    rw [this] at hc
    simp only [Option.some.injEq] at hc
    subst hc
    rfl

theorem firstNonSpace_fill3 (ind X : Str) (hind : inlineB ind = true) (hX : StopHead X) :
    ∀ (ls : List FillLine), ls.all FillLine.wf = true →
      ∀ c, firstNonSpace (linesStr ls ++ (ind ++ X)) = some c → isQuoteChar c = false := by
  intro ls
  induction ls with
  | nil =>
    intro _ c hc
    rw [linesStr, List.nil_append, firstNonSpace_skip _ _ (inlineB_space hind)] at hc
    exact hX.noq c hc
  | cons f fs ih =>
    intro hls c hc
    simp only [List.all_cons, Bool.and_eq_true, FillLine.wf] at hls
    obtain ⟨⟨hfi, hfc⟩, hfs⟩ := hls
    rw [linesStr, FillLine.text, List.append_assoc, List.append_assoc,
      firstNonSpace_skip _ _ (inlineB_space hfi)] at hc
    cases hcm : f.cmt with
    | none =>
      rw [hcm] at hc
      simp only [cmtText, List.nil_append, List.cons_append, firstNonSpace, isSpace_nl,
        ↓reduceIte] at hc
      exact ih hfs c hc
    | some t =>
      rw [hcm] at hc
      simp only [cmtText, List.cons_append, firstNonSpace, isSpace_hash, Bool.false_eq_true,
        ↓reduceIte, Option.some.injEq] at hc
      subst hc
      rfl

/-- **The value collector in front of filler lines.**  After the last word of a value (which started on
    line `l0 ≤ L`) the text goes on with white space `sp` containing a newline, filler lines, blanks
    and then the next name or the end of the text.  The collector returns what it has, in a state
    from which the structure tokenizer reads the same next word as from the position of the name.
    (If the first comment line has a stand-alone `#`, it is the value collector that reads that line,
    in its comment mode; otherwise the collector backs up and the structure tokenizer skips it.) -/
theorem cAA_fill3 (ind X : Str) (hind : inlineB ind = true) (hX : StopHead X) (L : Nat) :
    ∀ (ls : List FillLine) (sp : Str), ls.all FillLine.wf = true →
      (∀ d ∈ sp, isSpace d = true) → 1 ≤ nlCount sp →
      ∀ (fuel : Nat) (last : Word) (acc : List Word) (l0 : Nat),
        (sp ++ (linesStr ls ++ (ind ++ X))).length + 1 ≤ fuel → last.line = some l0 → l0 ≤ L →
        isUnq last "\\" = false →
        ∃ ci4 : CI,
          collectAssignedAux fuel ⟨sp ++ (linesStr ls ++ (ind ++ X)), L⟩ last false acc
            = .ok (acc.reverse, ci4) ∧
          nextWord structSettings ci4
            = nextWordAux structSettings false (ind ++ X) (L + nlCount sp + ls.length) := by
  intro ls
  induction ls with
  | nil =>
    intro sp _ hsp hnl fuel last acc l0 hf hl hle hbs
    obtain ⟨f, rfl⟩ : ∃ f, fuel = f + 1 := ⟨fuel - 1, by omega⟩
    refine ⟨⟨sp ++ (linesStr [] ++ (ind ++ X)), L⟩, ?_, ?_⟩
    · apply cAA_stop f _ last acc l0 _ hl hbs
      have e : sp ++ (linesStr [] ++ (ind ++ X)) = (sp ++ ind) ++ X := by simp [linesStr]
      rw [e]
      have hsp' : ∀ d ∈ sp ++ ind, isSpace d = true := by
        intro d hd
        rcases List.mem_append.mp hd with h | h
        · exact hsp d h
        · exact inlineB_space hind d h
      exact hX.ends (sp ++ ind) L l0 hsp' (by rw [nlCount_append]; omega)
    · unfold nextWord
      simp only [linesStr, List.nil_append, List.length_nil, Nat.add_zero]
      rw [nextWordAux_skip structSettings sp _ hsp]
  | cons f fs ih =>
    intro sp hls hsp hnl fuel last acc l0 hf hl hle hbs
    simp only [List.all_cons, Bool.and_eq_true, FillLine.wf] at hls
    obtain ⟨⟨hfi, hfc⟩, hfs⟩ := hls
    cases hcm : f.cmt with
    | none =>
      -- a blank line: more white space
      have e : sp ++ (linesStr (f :: fs) ++ (ind ++ X))
          = (sp ++ (f.ind ++ ['\n'])) ++ (linesStr fs ++ (ind ++ X)) := by
        simp [linesStr, FillLine.text, hcm, cmtText]
      have hsp' : ∀ d ∈ sp ++ (f.ind ++ ['\n']), isSpace d = true := by
        intro d hd
        rcases List.mem_append.mp hd with h | h
        · exact hsp d h
        · rcases List.mem_append.mp h with h | h
          · exact inlineB_space hfi d h
          · simp at h; subst h; rfl
      have hn' : nlCount (sp ++ (f.ind ++ ['\n'])) = nlCount sp + 1 := by
        rw [nlCount_append, nlCount_append, inlineB_nl hfi, nlCount_nl]
      rw [e] at hf ⊢
      obtain ⟨ci4, h1, h2⟩ := ih _ hfs hsp' (by omega) fuel last acc l0 hf hl hle hbs
      refine ⟨ci4, h1, ?_⟩
      rw [h2, hn', List.length_cons]
      congr 1 <;> omega
    | some c =>
      rw [hcm] at hfc
      obtain ⟨hcnl, hphil, hok⟩ := cmtSafe_facts hfc
      have e : sp ++ (linesStr (f :: fs) ++ (ind ++ X))
          = (sp ++ f.ind) ++ '#' :: (c ++ '\n' :: (linesStr fs ++ (ind ++ X))) := by
        simp [linesStr, FillLine.text, hcm, cmtText]
      have hsp' : ∀ d ∈ sp ++ f.ind, isSpace d = true := by
        intro d hd
        rcases List.mem_append.mp hd with h | h
        · exact hsp d h
        · exact inlineB_space hfi d h
      have hn' : nlCount (sp ++ f.ind) = nlCount sp := by
        rw [nlCount_append, inlineB_nl hfi]; omega
      obtain ⟨f', rfl⟩ : ∃ f', fuel = f' + 1 := ⟨fuel - 1, by omega⟩
      by_cases hs : stopsAt valueSettings c = true
      · -- a stand-alone `#`: the collector itself reads the comment
        have hstop' : stopsAt valueSettings (c ++ '\n' :: (linesStr fs ++ (ind ++ X))) = true := by
          cases c with
          | nil => rfl
          | cons d r => exact hs
        have hhash : nextWord valueSettings ⟨(sp ++ f.ind) ++ '#' :: (c ++ '\n' :: (linesStr fs ++ (ind ++ X))), L⟩
            = .ok (some ({ value := ['#'], quote := none, line := some (L + nlCount sp) },
                ⟨c ++ '\n' :: (linesStr fs ++ (ind ++ X)), L + nlCount sp⟩)) := by
          unfold nextWord
          simp only []
          rw [nextWordAux_skip valueSettings _ _ hsp', hn']
          exact nextWordAux_plain valueSettings '#' [] _ _ (by rfl) (by rfl) (by rfl) (by rfl)
            (by intro d hd; simp at hd) hstop'
        have hflen : c.length + 1 ≤ f' := by
          rw [e] at hf
          simp only [List.length_append, List.length_cons] at hf; omega
        obtain ⟨tb, htb, hbody⟩ := cAA_comment_body (linesStr fs ++ (ind ++ X)) (L + nlCount sp)
          (firstNonSpace_fill3 ind X hind hX fs hfs) c.length c (Nat.le_refl _)
          { value := ['#'], quote := none, line := some (L + nlCount sp) } f' acc hflen rfl
          (by rw [isUnq_backslash]; exact hok hs)
        refine ⟨⟨tb ++ '\n' :: (linesStr fs ++ (ind ++ X)), L + nlCount sp⟩, ?_, ?_⟩
        · rw [e, cAA_hash f' _ _ last _ acc hhash rfl rfl, hbody]
        · rw [nextWord_inline_space structSettings tb _ _ htb, nextWord_newline,
            struct_skip_lines fs hfs, List.length_cons]
          congr 1; omega
      · -- `#text`: a word on another line; the collector backs up
        have hs' : stopsAt valueSettings c = false := by simpa using hs
        obtain ⟨c1, r, rfl⟩ : ∃ c1 r, c = c1 :: r := by
          cases c with
          | nil => simp [stopsAt] at hs'
          | cons c1 r => exact ⟨c1, r, rfl⟩
        have hc1 : endsUnquoted valueSettings c1 = false := hs'
        obtain ⟨v, rest', hw⟩ := wordAt_unquoted_two valueSettings '#' c1
          (r ++ '\n' :: (linesStr fs ++ (ind ++ X))) (L + nlCount (sp ++ f.ind)) isQuote_hash
          startsLong_hash hc1
        refine ⟨⟨sp ++ (linesStr (f :: fs) ++ (ind ++ X)), L⟩, ?_, ?_⟩
        · apply cAA_stop f' _ last acc l0 _ hl hbs
          rw [e]
          refine EndsValue_word (sp ++ f.ind) _
            { value := '#' :: c1 :: v, quote := none, line := some (L + nlCount (sp ++ f.ind)) }
            ⟨rest', L + nlCount (sp ++ f.ind)⟩ L l0 hsp' ?_ rfl ?_ ?_ ?_
          · rw [nextWordAux_word valueSettings '#' _ _ isSpace_hash (commentChars_value _ _)]
            rw [List.cons_append, hw]; rfl
          · intro e'; simp at e'
          · intro e'; simp at e'
          · intro e'; simp only [Option.some.injEq] at e'; omega
        · unfold nextWord
          simp only []
          rw [nextWordAux_skip structSettings sp _ hsp,
            struct_skip_lines (f :: fs) (by
              have : cmtWf f.cmt = true := by rw [hcm]; exact hfc
              simp [FillLine.wf, hfi, hfs, this])]


/-- **The value collector at the end of a definition.**  `t` is the terminator, then come filler
    lines, blanks and the next name `X` (or the end of the text).  The collector returns the words
    it has, in a state from which the structure tokenizer reads the same next word as from the
    position of the name, whose line is `L + newlines of the terminator + number of filler lines`. -/
theorem cAA_term3 (t : Terminator) (ht : t.wf = true) (ls : List FillLine)
    (hls : ls.all FillLine.wf = true) (ind X : Str) (hind : inlineB ind = true) (hX : StopHead X)
    (heof : t.isEof = true → ls = [] ∧ X = []) (L : Nat)
    (fuel : Nat) (last : Word) (acc : List Word) (l0 : Nat)
    (hf : (t.text ++ (linesStr ls ++ (ind ++ X))).length + 1 ≤ fuel) (hl : last.line = some l0)
    (hle : l0 ≤ L) (hbs : isUnq last "\\" = false) :
    ∃ ci4, collectAssignedAux fuel ⟨t.text ++ (linesStr ls ++ (ind ++ X)), L⟩ last false acc
        = .ok (acc.reverse, ci4) ∧
      nextWord structSettings ci4
        = nextWordAux structSettings false (ind ++ X) (L + nlCount t.text + ls.length) := by
  cases t with
  | nl tb =>
    have hsp : ∀ d ∈ tb ++ ['\n'], isSpace d = true := by
      intro d hd
      rcases List.mem_append.mp hd with h | h
      · exact inlineB_space ht d h
      · simp at h; subst h; rfl
    have hn : nlCount (tb ++ ['\n']) = 1 := by rw [nlCount_append, inlineB_nl ht, nlCount_nl]
    exact cAA_fill3 ind X hind hX L ls (tb ++ ['\n']) hls hsp (by omega) fuel last acc l0 hf hl hle hbs
  | semi sb =>
    obtain ⟨f, rfl⟩ : ∃ f, fuel = f + 1 := ⟨fuel - 1, by omega⟩
    have hsc := nextWord_value_semicolon sb (linesStr ls ++ (ind ++ X)) L (inlineB_space ht)
    refine ⟨⟨linesStr ls ++ (ind ++ X), L + nlCount sb⟩, ?_, ?_⟩
    · simp only [Terminator.text, List.append_assoc, List.cons_append, List.nil_append]
      exact cAA_semicolon f _ _ last _ acc hsc rfl rfl
    · unfold nextWord
      simp only [Terminator.text]
      rw [struct_skip_lines ls hls, nlCount_append, inlineB_nl ht]
      rfl
  | comment sb cmt =>
    simp only [Terminator.wf, Bool.and_eq_true, Bool.not_eq_true', List.isEmpty_eq_false_iff] at ht
    obtain ⟨⟨⟨h1, h2⟩, h3⟩, h4⟩ := ht
    obtain ⟨f, rfl⟩ : ∃ f, fuel = f + 1 := ⟨fuel - 1, by omega⟩
    have hstop' : stopsAt valueSettings (cmt ++ '\n' :: (linesStr ls ++ (ind ++ X))) = true := by
      cases cmt with
      | nil => rfl
      | cons d r => exact h3
    have e : (Terminator.comment sb cmt).text ++ (linesStr ls ++ (ind ++ X))
        = sb ++ '#' :: (cmt ++ '\n' :: (linesStr ls ++ (ind ++ X))) := by
      simp [Terminator.text]
    have hhash : nextWord valueSettings ⟨sb ++ '#' :: (cmt ++ '\n' :: (linesStr ls ++ (ind ++ X))), L⟩
        = .ok (some ({ value := ['#'], quote := none, line := some L },
            ⟨cmt ++ '\n' :: (linesStr ls ++ (ind ++ X)), L⟩)) := by
      unfold nextWord
      simp only []
      rw [nextWordAux_skip valueSettings _ _ (inlineB_space h1), inlineB_nl h1]
      exact nextWordAux_plain valueSettings '#' [] _ _ (by rfl) (by rfl) (by rfl) (by rfl)
        (by intro d hd; simp at hd) hstop'
    have hflen : cmt.length + 1 ≤ f := by
      rw [e] at hf
      simp only [List.length_append, List.length_cons] at hf; omega
    obtain ⟨tb, htb, hbody⟩ := cAA_comment_body (linesStr ls ++ (ind ++ X)) L
      (firstNonSpace_fill3 ind X hind hX ls hls) cmt.length cmt (Nat.le_refl _)
      { value := ['#'], quote := none, line := some L } f acc hflen rfl
      (by rw [isUnq_backslash]; exact h4)
    refine ⟨⟨tb ++ '\n' :: (linesStr ls ++ (ind ++ X)), L⟩, ?_, ?_⟩
    · rw [e, cAA_hash f _ _ last _ acc hhash rfl rfl, hbody]
    · have hn : nlCount (Terminator.comment sb cmt).text = 1 := by
        have hc : nlCount cmt = 0 := nlCount_of_not_mem (commentOk_no_nl cmt _ _ h4)
        simp only [Terminator.text]
        rw [nlCount_append, inlineB_nl h1, nlCount_cons_ne _ _ (by decide), nlCount_append, hc, nlCount_nl]
      rw [nextWord_inline_space structSettings tb _ _ htb, nextWord_newline,
        struct_skip_lines ls hls, hn]
  | eof =>
    obtain ⟨rfl, rfl⟩ := heof rfl
    obtain ⟨f, rfl⟩ : ∃ f, fuel = f + 1 := ⟨fuel - 1, by omega⟩
    refine ⟨⟨ind, L⟩, ?_, ?_⟩
    · simp only [Terminator.text, linesStr, List.nil_append, List.append_nil]
      exact cAA_end f _ last false acc (nextWordAux_blank_eof valueSettings ind L (inlineB_space hind))
    · simp only [Terminator.text, nlCount_nil, List.length_nil, Nat.add_zero, List.append_nil]
      rfl


/-- **`collect_assigned_words` on the value of a definition under the extended layout**: the words
    come back with value, quote style and the line on which each starts; afterwards the structure
    tokenizer is (as good as) at the next construct `X` (a name, a `#phil` directive, the end). -/
theorem collectAssigned_layout3 (ws : List Word) (gaps : List Gap) (t : Terminator)
    (ls : List FillLine) (ind X : Str) (l : Nat) (lead : Word)
    (hne : ws ≠ []) (hgood : ∀ w ∈ ws, goodWord w = true)
    (hgaps : gapsOK3 true true gaps ws = true) (ht : t.wf = true) (hls : ls.all FillLine.wf = true)
    (hind : inlineB ind = true) (hX : StopHead X) (heof : t.isEof = true → ls = [] ∧ X = [])
    (hlead : lead.line = some l) (hbs : isUnq lead "\\" = false) :
    ∃ ci4, collectAssigned ⟨wordsLay3 gaps ws ++ (t.text ++ (linesStr ls ++ (ind ++ X))), l⟩ lead
        = .ok (relineG l gaps ws, ci4) ∧
      nextWord structSettings ci4
        = nextWordAux structSettings false (ind ++ X) (endLineG l gaps ws + nlCount t.text + ls.length) := by
  have hgt : GoodTail (t.text ++ (linesStr ls ++ (ind ++ X))) :=
    term_tail t ht ind hind _ (by
      intro h
      obtain ⟨rfl, rfl⟩ := heof h
      simp [linesStr])
  obtain ⟨ci4, h1, h2⟩ := cAA_layWords3 (t.text ++ (linesStr ls ++ (ind ++ X)))
    (fun ci4 => nextWord structSettings ci4
        = nextWordAux structSettings false (ind ++ X) (endLineG l gaps ws + nlCount t.text + ls.length))
    hgt ws gaps true _ l l true lead [] hgaps hgood (Nat.le_refl _) hlead (Nat.le_refl _) (fun _ => rfl) hbs
    (fun fuel' last' acc' l0' hf' hl' hle' hbs' =>
      cAA_term3 t ht ls hls ind X hind hX heof (endLineG l gaps ws) fuel' last' acc' l0' hf' hl' hle' hbs')
  refine ⟨ci4, ?_, h2⟩
  unfold collectAssigned
  simp only []
  rw [h1]
  have : (relineG l gaps ws).isEmpty = false := by
    cases ws with
    | nil => exact absurd rfl hne
    | cons w ws =>
      obtain ⟨g, gs, rfl, _, _⟩ := gapsOK3_cons_right hgaps
      simp [relineG]
  simp [this]


/-! ### `scan_for_start` over a switched-off region -/

def offFollowups : List Str := ["__END__".toList, "__ON__".toList]

/-- inside a line: everything up to the newline is skipped -/
theorem scan_skip_line (i : Str) (fs : List Str) (t : Str) (line : Nat) :
    ∀ (s : Str) (fuel : Nat), '\n' ∉ s → s.length ≤ fuel →
      scanForStart i fs fuel (s ++ '\n' :: t) line = scanForStart i fs (fuel - s.length) ('\n' :: t) line := by
  intro s
  induction s with
  | nil => intro fuel _ _; simp
  | cons c s ih =>
    intro fuel hs hf
    obtain ⟨f, rfl⟩ : ∃ f, fuel = f + 1 := ⟨fuel - 1, by simp at hf; omega⟩
    have hc : c ≠ '\n' := fun e => hs (by simp [e])
    have hs' : '\n' ∉ s := fun e => hs (by simp [e])
    rw [List.cons_append, scanForStart]
    simp only [bne_iff_ne, ne_eq, hc, not_false_eq_true, ↓reduceIte]
    rw [ih f hs' (by simp at hf; omega)]
    simp

/-- an empty line -/
theorem scan_nl_nl (i : Str) (fs : List Str) (f : Nat) (t : Str) (line : Nat) :
    scanForStart i fs (f + 1) ('\n' :: '\n' :: t) line = scanForStart i fs (f + 1) ('\n' :: t) (line + 1) := by
  simp [scanForStart, scanForStart.nl]

/-- a line that does not start with the intro -/
theorem scan_line_nomatch (i : Str) (fs : List Str) (f : Nat) (d : Char) (u : Str) (line : Nat)
    (hd : d ≠ '\n') (hns : startsWith i (d :: u) = false) :
    scanForStart i fs (f + 1) ('\n' :: d :: u) line = scanForStart i fs f u (line + 1) := by
  simp [scanForStart, scanForStart.nl, hd, hns]

/-- a line that starts with the intro and holds an activating follow-up -/
theorem scan_directive (i : Str) (fs : List Str) (f : Nat) (c0 : Char) (t0 : Str) (line : Nat)
    (hc0 : c0 ≠ '\n') (hst : startsWith i (c0 :: t0) = true)
    (c3 : Char) (t3 : Str) (h3 : dropWhileNotSpace ((c0 :: t0).drop i.length) = c3 :: t3)
    (c4 : Char) (t4 : Str) (line4 : Nat) (h4 : dropSpaceCounting (c3 :: t3) (line + 1) = (c4 :: t4, line4))
    (k : Nat) (cs5 : Str) (h5 : matchFollowups fs (c4 :: t4) = some (k, cs5))
    (cs6 : Str) (line6 : Nat) (h6 : afterFollowup cs5 line4 = (true, cs6, line6)) :
    scanForStart i fs (f + 1) ('\n' :: c0 :: t0) line = (k, ⟨cs6, line6⟩) := by
  simp [scanForStart, scanForStart.nl, hc0, hst, h3, h4, h5, h6]

theorem dropWhileNotSpace_junk (d : Char) (r : Str) (hd : isSpace d = true) :
    ∀ (junk : Str), (∀ c ∈ junk, isSpace c = false) → dropWhileNotSpace (junk ++ d :: r) = d :: r := by
  intro junk
  induction junk with
  | nil => intro _; simp [dropWhileNotSpace, hd]
  | cons c cs ih =>
    intro h
    have hc := h c (by simp)
    rw [List.cons_append, dropWhileNotSpace]
    simp only [hc, Bool.false_eq_true, ↓reduceIte]
    exact ih (fun x hx => h x (by simp [hx]))

theorem dropSpaceCounting_inline (x : Char) (r : Str) (hx : isSpace x = false) (line : Nat) :
    ∀ (b : Str), inlineB b = true → dropSpaceCounting (b ++ x :: r) line = (x :: r, line) := by
  intro b
  induction b with
  | nil => intro _; simp [dropSpaceCounting, hx]
  | cons c cs ih =>
    intro h
    have hc := inlineB_space h c (by simp)
    have hcn : c ≠ '\n' := (inlineB_inline h c (by simp)).2
    have hcs : inlineB cs = true := by
      simp only [inlineB, List.all_cons, Bool.and_eq_true] at h ⊢
      exact h.2
    rw [List.cons_append, dropSpaceCounting]
    simp only [hc, ↓reduceIte]
    have : bump c line = line := by simp [bump, hcn]
    rw [this]
    exact ih hcs

theorem afterFollowup_inline (t : Str) (line : Nat) :
    ∀ (b : Str), inlineB b = true → afterFollowup (b ++ '\n' :: t) line = (true, t, line + 1) := by
  intro b
  induction b with
  | nil => intro _; simp [afterFollowup]
  | cons c cs ih =>
    intro h
    have hc := inlineB_space h c (by simp)
    have hcn : c ≠ '\n' := (inlineB_inline h c (by simp)).2
    have hcs : inlineB cs = true := by
      simp only [inlineB, List.all_cons, Bool.and_eq_true] at h ⊢
      exact h.2
    rw [List.cons_append, afterFollowup]
    simp only [beq_iff_eq, hcn, ↓reduceIte, hc, Bool.not_true, Bool.false_eq_true]
    exact ih hcs

theorem startsWith_append (p x : Str) : startsWith p (p ++ x) = true := by
  simp [startsWith]

theorem matchFollowups_on (X : Str) :
    matchFollowups offFollowups ("__ON__".toList ++ X) = some (1, X) := by
  simp [matchFollowups, matchFollowups.go, offFollowups, startsWith]

theorem matchFollowups_end (X : Str) :
    matchFollowups offFollowups ("__END__".toList ++ X) = some (0, X) := by
  simp [matchFollowups, matchFollowups.go, offFollowups, startsWith]

theorem startsWith_append_nl (p : Str) (hp : '\n' ∉ p) (t : Str) :
    ∀ (s : Str), startsWith p (s ++ '\n' :: t) = startsWith p s := by
  unfold startsWith
  induction p with
  | nil => intro s; simp
  | cons a p ih =>
    intro s
    have ha : a ≠ '\n' := fun e => hp (by simp [e])
    have hp' : '\n' ∉ p := fun e => hp (by simp [e])
    cases s with
    | nil =>
      have : ('\n' == a) = false := by simpa using fun e => ha e.symm
      simp [this]
    | cons c s =>
      have := ih hp' s
      simp only [List.cons_append, List.length_cons, List.take_succ_cons, List.cons_beq_cons] at this ⊢
      rw [this]

/-! ### lines inside a region that start with `#phil` but do not switch on -/

theorem scan_directive_inert1 (i : Str) (fs : List Str) (f : Nat) (c0 : Char) (t0 : Str) (line : Nat)
    (hc0 : c0 ≠ '\n') (hst : startsWith i (c0 :: t0) = true)
    (c3 : Char) (t3 : Str) (h3 : dropWhileNotSpace ((c0 :: t0).drop i.length) = c3 :: t3)
    (c4 : Char) (t4 : Str) (line4 : Nat) (h4 : dropSpaceCounting (c3 :: t3) (line + 1) = (c4 :: t4, line4))
    (h5 : matchFollowups fs (c4 :: t4) = none) :
    scanForStart i fs (f + 1) ('\n' :: c0 :: t0) line = scanForStart i fs f (c4 :: t4) line4 := by
  simp [scanForStart, scanForStart.nl, hc0, hst, h3, h4, h5]

theorem scan_directive_inert2 (i : Str) (fs : List Str) (f : Nat) (c0 : Char) (t0 : Str) (line : Nat)
    (hc0 : c0 ≠ '\n') (hst : startsWith i (c0 :: t0) = true)
    (c3 : Char) (t3 : Str) (h3 : dropWhileNotSpace ((c0 :: t0).drop i.length) = c3 :: t3)
    (c4 : Char) (t4 : Str) (line4 : Nat) (h4 : dropSpaceCounting (c3 :: t3) (line + 1) = (c4 :: t4, line4))
    (k : Nat) (cs5 : Str) (h5 : matchFollowups fs (c4 :: t4) = some (k, cs5))
    (cs6 : Str) (line6 : Nat) (h6 : afterFollowup cs5 line4 = (false, cs6, line6)) :
    scanForStart i fs (f + 1) ('\n' :: c0 :: t0) line = scanForStart i fs f cs6 line6 := by
  simp [scanForStart, scanForStart.nl, hc0, hst, h3, h4, h5, h6]

theorem dropWhileNotSpace_append_nl (t : Str) : ∀ (a : Str),
    dropWhileNotSpace (a ++ '\n' :: t) = dropWhileNotSpace a ++ '\n' :: t := by
  intro a
  induction a with
  | nil => simp [dropWhileNotSpace, isSpace_nl]
  | cons c a ih =>
    rw [List.cons_append, dropWhileNotSpace, dropWhileNotSpace]
    by_cases hc : isSpace c = true
    · simp [hc]
    · simp [hc, ih]

theorem dropSpaceCounting_append_nl (t : Str) (line : Nat) : ∀ (a : Str), '\n' ∉ a →
    ∀ y v, a.dropWhile isSpace = y :: v →
    dropSpaceCounting (a ++ '\n' :: t) line = (y :: v ++ '\n' :: t, line) := by
  intro a
  induction a with
  | nil => intro _ y v h; simp at h
  | cons c a ih =>
    intro hn y v h
    have hc : c ≠ '\n' := fun e => hn (by simp [e])
    have ha : '\n' ∉ a := fun e => hn (by simp [e])
    rw [List.cons_append, dropSpaceCounting]
    by_cases hs : isSpace c = true
    · simp only [hs, ↓reduceIte]
      have : bump c line = line := by simp [bump, hc]
      rw [this]
      rw [List.dropWhile_cons, if_pos hs] at h
      exact ih ha y v h
    · have hs' : isSpace c = false := by simpa using hs
      rw [List.dropWhile_cons, if_neg hs] at h
      simp only [hs', Bool.false_eq_true, ↓reduceIte]
      rw [← h]; simp

theorem afterFollowup_append_nl (t : Str) (line : Nat) : ∀ (a : Str), '\n' ∉ a →
    ∀ y v, a.dropWhile isSpace = y :: v →
    afterFollowup (a ++ '\n' :: t) line = (false, v ++ '\n' :: t, line) := by
  intro a
  induction a with
  | nil => intro _ y v h; simp at h
  | cons c a ih =>
    intro hn y v h
    have hc : c ≠ '\n' := fun e => hn (by simp [e])
    have ha : '\n' ∉ a := fun e => hn (by simp [e])
    rw [List.cons_append, afterFollowup]
    by_cases hs : isSpace c = true
    · rw [List.dropWhile_cons, if_pos hs] at h
      simp only [beq_iff_eq, hc, ↓reduceIte, hs, Bool.not_true, Bool.false_eq_true]
      exact ih ha y v h
    · have hs' : isSpace c = false := by simpa using hs
      rw [List.dropWhile_cons, if_neg hs] at h
      simp only [beq_iff_eq, hc, ↓reduceIte, hs', Bool.not_false]
      simp only [List.cons.injEq] at h
      rw [h.2]

theorem matchFollowups_off_eq (X : Str) :
    matchFollowups offFollowups X
      = if startsWith "__END__".toList X then some (0, X.drop 7)
        else if startsWith "__ON__".toList X then some (1, X.drop 6) else none := by
  rfl

theorem startsWith_length {p s : Str} (h : startsWith p s = true) : p.length ≤ s.length := by
  simp only [startsWith, beq_iff_eq] at h
  have := congrArg List.length h
  simp at this
  omega

theorem matchFollowups_append_nl (t : Str) (r : Str) :
    matchFollowups offFollowups (r ++ '\n' :: t)
      = (matchFollowups offFollowups r).map (fun p => (p.1, p.2 ++ '\n' :: t)) := by
  rw [matchFollowups_off_eq, matchFollowups_off_eq,
    startsWith_append_nl _ (by decide) t r, startsWith_append_nl _ (by decide) t r]
  by_cases h1 : startsWith "__END__".toList r = true
  · have := startsWith_length h1
    rw [if_pos h1, if_pos h1, Option.map_some, List.drop_append_of_le_length (by simpa using this)]
  · by_cases h2 : startsWith "__ON__".toList r = true
    · have := startsWith_length h2
      rw [if_neg h1, if_neg h1, if_pos h2, if_pos h2, Option.map_some,
        List.drop_append_of_le_length (by simpa using this)]
    · rw [if_neg h1, if_neg h1, if_neg h2, if_neg h2]; rfl

/-- a line that starts with `#phil` but does not switch on: after `#phil…` and blanks comes a word
    that is no follow-up, or a follow-up followed by more text on the line -/
def inertDirective (s : Str) : Bool :=
  startsWith philWord s &&
  match (dropWhileNotSpace (s.drop 5)).dropWhile isSpace with
  | [] => false
  | y :: v =>
    match matchFollowups offFollowups (y :: v) with
    | none => true
    | some (_, r) => !(r.dropWhile isSpace).isEmpty

theorem dropWhile_suffix_len (p : Char → Bool) (a : Str) : (a.dropWhile p).length ≤ a.length := by
  induction a with
  | nil => simp
  | cons c a ih => rw [List.dropWhile_cons]; split <;> simp <;> omega

theorem dropWhileNotSpace_len (a : Str) : (dropWhileNotSpace a).length ≤ a.length := by
  induction a with
  | nil => simp [dropWhileNotSpace]
  | cons c a ih => rw [dropWhileNotSpace]; split <;> simp <;> omega

theorem not_mem_dropWhile {p : Char → Bool} {a : Str} (h : '\n' ∉ a) : '\n' ∉ a.dropWhile p :=
  fun e => h ((List.dropWhile_sublist p).subset e)

theorem not_mem_dropWhileNotSpace {a : Str} (h : '\n' ∉ a) : '\n' ∉ dropWhileNotSpace a := by
  induction a with
  | nil => simp [dropWhileNotSpace]
  | cons c a ih =>
    rw [dropWhileNotSpace]
    split
    · exact h
    · exact ih (fun e => h (by simp [e]))

theorem matchFollowups_suffix {X : Str} {k : Nat} {r : Str} (h : matchFollowups offFollowups X = some (k, r)) :
    r.length ≤ X.length ∧ ('\n' ∉ X → '\n' ∉ r) := by
  rw [matchFollowups_off_eq] at h
  split at h
  · simp only [Option.some.injEq, Prod.mk.injEq] at h
    rw [← h.2]
    exact ⟨by simp, fun hn e => hn ((List.drop_sublist 7 X).subset e)⟩
  · split at h
    · simp only [Option.some.injEq, Prod.mk.injEq] at h
      rw [← h.2]
      exact ⟨by simp, fun hn e => hn ((List.drop_sublist 6 X).subset e)⟩
    · cases h

/-- **an inert `#phil` line inside a switched-off region is skipped** -/
theorem scan_inert_line (s t : Str) (hs : '\n' ∉ s) (hi : inertDirective s = true) (f line : Nat) :
    ∃ v, '\n' ∉ v ∧ v.length ≤ s.length ∧
      scanForStart philWord offFollowups (f + 1) ('\n' :: (s ++ '\n' :: t)) line
        = scanForStart philWord offFollowups f (v ++ '\n' :: t) (line + 1) := by
  simp only [inertDirective, Bool.and_eq_true] at hi
  obtain ⟨hst, hi⟩ := hi
  have hlen := startsWith_length hst
  obtain ⟨c0, t0, rfl⟩ : ∃ c0 t0, s = c0 :: t0 := by
    cases s with
    | nil => simp [philWord] at hlen
    | cons c0 t0 => exact ⟨c0, t0, rfl⟩
  have hc0 : c0 ≠ '\n' := fun e => hs (by simp [e])
  have hst' : startsWith philWord (c0 :: (t0 ++ '\n' :: t)) = true := by
    have := startsWith_append_nl philWord (by decide) t (c0 :: t0)
    rw [List.cons_append] at this
    rw [this]; exact hst
  have hdrop : (c0 :: (t0 ++ '\n' :: t)).drop philWord.length = (c0 :: t0).drop 5 ++ '\n' :: t := by
    have : c0 :: (t0 ++ '\n' :: t) = (c0 :: t0) ++ '\n' :: t := rfl
    rw [this, List.drop_append_of_le_length (by simpa [philWord] using hlen)]
    rfl
  generalize hA : dropWhileNotSpace ((c0 :: t0).drop 5) = A at hi
  have hAn : '\n' ∉ A := by
    rw [← hA]; exact not_mem_dropWhileNotSpace (fun e => hs ((List.drop_sublist 5 _).subset e))
  have hAl : A.length ≤ (c0 :: t0).length := by
    rw [← hA]
    have := dropWhileNotSpace_len ((c0 :: t0).drop 5)
    simp only [List.length_drop] at this ⊢; omega
  cases hB : A.dropWhile isSpace with
  | nil => rw [hB] at hi; cases hi
  | cons y v =>
    rw [hB] at hi
    simp only [] at hi
    have hBn : '\n' ∉ y :: v := by rw [← hB]; exact not_mem_dropWhile hAn
    have hBl : (y :: v).length ≤ A.length := by rw [← hB]; exact dropWhile_suffix_len _ _
    obtain ⟨c3, t3, hA3⟩ : ∃ c3 t3, A = c3 :: t3 := by
      cases A with
      | nil => simp at hB
      | cons c3 t3 => exact ⟨c3, t3, rfl⟩
    have h3 : dropWhileNotSpace ((c0 :: (t0 ++ '\n' :: t)).drop philWord.length)
        = c3 :: (t3 ++ '\n' :: t) := by
      rw [hdrop, dropWhileNotSpace_append_nl, hA, hA3]; rfl
    have h4 : dropSpaceCounting (c3 :: (t3 ++ '\n' :: t)) (line + 1)
        = (y :: (v ++ '\n' :: t), line + 1) := by
      have := dropSpaceCounting_append_nl t (line + 1) A hAn y v hB
      rw [hA3] at this
      simpa using this
    have hm := matchFollowups_append_nl t (y :: v)
    rw [List.cons_append] at hm
    cases hM : matchFollowups offFollowups (y :: v) with
    | none =>
      rw [hM] at hm
      refine ⟨y :: v, hBn, by omega, ?_⟩
      exact scan_directive_inert1 philWord offFollowups f c0 _ line hc0 hst' c3 _ h3 y _ (line + 1) h4
        (by simpa using hm)
    | some p =>
      obtain ⟨k, r⟩ := p
      rw [hM] at hm hi
      obtain ⟨hrl, hrn⟩ := matchFollowups_suffix hM
      simp only [Bool.not_eq_true', List.isEmpty_eq_false_iff] at hi
      cases hR : r.dropWhile isSpace with
      | nil => exact absurd hR hi
      | cons y2 v2 =>
        have h6 := afterFollowup_append_nl t (line + 1) r (hrn hBn) y2 v2 hR
        have hv2n : '\n' ∉ v2 := by
          have : '\n' ∉ y2 :: v2 := by rw [← hR]; exact not_mem_dropWhile (hrn hBn)
          exact fun e => this (by simp [e])
        have hv2l : (y2 :: v2).length ≤ r.length := by rw [← hR]; exact dropWhile_suffix_len _ _
        refine ⟨v2, hv2n, by simp only [List.length_cons] at hv2l hBl hAl hrl ⊢; omega, ?_⟩
        exact scan_directive_inert2 philWord offFollowups f c0 _ line hc0 hst' c3 _ h3 y _ (line + 1) h4
          k (r ++ '\n' :: t) (by simpa using hm) _ _ h6

/-- a switched-off region: `ind #phil b1 __OFF__ rest ⏎ body… #phil junk b2 __ON__ b3 ⏎` -/
structure OffRegion where
  /-- blanks in front of the opening `#phil` -/
  ind : Str := []
  /-- blanks between `#phil` and `__OFF__` (at least one) -/
  b1 : Str := [' ']
  /-- the rest of the opening line (anything without a newline that does not continue the word `__OFF__`) -/
  rest : Str := []
  /-- the lines that are switched off -/
  body : List Str := []
  /-- characters glued to the closing `#phil` (no white space) -/
  junk : Str := []
  /-- blanks between the closing `#phil…` and `__ON__` (at least one) -/
  b2 : Str := [' ']
  /-- blanks after `__ON__` -/
  b3 : Str := []
  deriving Repr, DecidableEq

def bodyStr : List Str → Str
  | [] => []
  | s :: ss => s ++ '\n' :: bodyStr ss

def OffRegion.closing (r : OffRegion) : Str :=
  philWord ++ (r.junk ++ (r.b2 ++ ("__ON__".toList ++ (r.b3 ++ ['\n']))))

/-- the text after the word `__OFF__` -/
def OffRegion.afterOff (r : OffRegion) : Str := r.rest ++ '\n' :: (bodyStr r.body ++ r.closing)

/-- the text from `#phil` on -/
def OffRegion.fromPhil (r : OffRegion) : Str := philWord ++ (r.b1 ++ ("__OFF__".toList ++ r.afterOff))

def OffRegion.text (r : OffRegion) : Str := r.ind ++ r.fromPhil

/-- a switched-off line of the proved class: any text without a newline that does not start (in
    column 0) with `#phil`, or that starts with `#phil` and is inert (`inertDirective`: `#phil __OFF__`,
    `#phil __ON__ x`, `#philfoo bar` …; excluded are the activating lines and `#phil…` followed by
    blanks only, which continues on the next line) -/
def offLineOk (s : Str) : Bool := !s.contains '\n' && (!startsWith philWord s || inertDirective s)

def OffRegion.wf (r : OffRegion) : Bool :=
  inlineB r.ind && inlineB r.b1 && !r.b1.isEmpty && !r.rest.contains '\n' && stopsAt structSettings r.rest &&
  r.body.all offLineOk && r.junk.all (fun c => !isSpace c) && inlineB r.b2 && !r.b2.isEmpty && inlineB r.b3

/-- number of newlines of a region: opening line, body lines, closing line -/
def OffRegion.nl (r : OffRegion) : Nat := r.body.length + 2

theorem scanOff_body (junk b2 b3 after : Str) (hj : ∀ c ∈ junk, isSpace c = false)
    (hb2 : inlineB b2 = true) (hb2n : b2 ≠ []) (hb3 : inlineB b3 = true) :
    ∀ (body : List Str), body.all offLineOk = true → ∀ (fuel line : Nat),
      ('\n' :: (bodyStr body ++
          (philWord ++ (junk ++ (b2 ++ ("__ON__".toList ++ (b3 ++ ['\n'])))) ++ after))).length + 1 ≤ fuel →
      scanForStart philWord offFollowups fuel ('\n' :: (bodyStr body ++
          (philWord ++ (junk ++ (b2 ++ ("__ON__".toList ++ (b3 ++ ['\n'])))) ++ after))) line
        = (1, ⟨after, line + body.length + 2⟩) := by
  intro body
  induction body with
  | nil =>
    intro _ fuel line hf
    obtain ⟨f, rfl⟩ : ∃ f, fuel = f + 1 := ⟨fuel - 1, by simp at hf; omega⟩
    obtain ⟨c3, t3, rfl⟩ : ∃ c3 t3, b2 = c3 :: t3 := by
      cases b2 with
      | nil => exact absurd rfl hb2n
      | cons c t => exact ⟨c, t, rfl⟩
    have hc3 := inlineB_space hb2 c3 (by simp)
    simp only [bodyStr, List.nil_append, List.length_nil, Nat.add_zero]
    have e : philWord ++ (junk ++ (c3 :: t3 ++ ("__ON__".toList ++ (b3 ++ ['\n'])))) ++ after
        = '#' :: ("phil".toList ++ (junk ++ (c3 :: (t3 ++ ("__ON__".toList ++ (b3 ++ '\n' :: after)))))) := by
      simp [philWord]
    rw [e]
    refine scan_directive philWord offFollowups f '#' _ line (by decide) ?_ c3
      (t3 ++ ("__ON__".toList ++ (b3 ++ '\n' :: after))) ?_ '_' ("_ON__".toList ++ (b3 ++ '\n' :: after))
      (line + 1) ?_ 1 (b3 ++ '\n' :: after) ?_ after (line + 2) ?_
    · exact startsWith_append philWord _
    · have : ('#' :: ("phil".toList ++ (junk ++ (c3 :: (t3 ++ ("__ON__".toList ++ (b3 ++ '\n' :: after))))))).drop
          philWord.length = junk ++ c3 :: (t3 ++ ("__ON__".toList ++ (b3 ++ '\n' :: after))) := by
        simp [philWord]
      rw [this]
      exact dropWhileNotSpace_junk c3 _ hc3 junk hj
    · have := dropSpaceCounting_inline '_' ("_ON__".toList ++ (b3 ++ '\n' :: after)) (by rfl) (line + 1)
        (c3 :: t3) hb2
      simpa using this
    · exact matchFollowups_on _
    · exact afterFollowup_inline after (line + 1) b3 hb3
  | cons s ss ih =>
    intro hbody fuel line hf
    simp only [List.all_cons, Bool.and_eq_true] at hbody
    obtain ⟨hs, hss⟩ := hbody
    simp only [offLineOk, Bool.and_eq_true, Bool.not_eq_true', List.contains_eq_mem,
      decide_eq_false_iff_not, Bool.or_eq_true] at hs
    obtain ⟨hsnl, hsp⟩ := hs
    obtain ⟨f, rfl⟩ : ∃ f, fuel = f + 1 := ⟨fuel - 1, by simp at hf; omega⟩
    cases s with
    | nil =>
      simp only [bodyStr, List.nil_append, List.cons_append]
      rw [scan_nl_nl, ih hss (f + 1) (line + 1) (by
        simp only [bodyStr, List.nil_append, List.cons_append, List.length_cons] at hf ⊢; omega)]
      simp only [List.length_cons]
      congr 2; omega
    | cons d u =>
      have hd : d ≠ '\n' := fun e => hsnl (by simp [e])
      have hu : '\n' ∉ u := fun e => hsnl (by simp [e])
      have ihR := ih hss
      have e : bodyStr ((d :: u) :: ss) ++
            (philWord ++ (junk ++ (b2 ++ ("__ON__".toList ++ (b3 ++ ['\n'])))) ++ after)
          = d :: (u ++ '\n' :: (bodyStr ss ++
            (philWord ++ (junk ++ (b2 ++ ("__ON__".toList ++ (b3 ++ ['\n'])))) ++ after))) := by
        simp [bodyStr]
      rw [e] at hf ⊢
      generalize bodyStr ss ++
        (philWord ++ (junk ++ (b2 ++ ("__ON__".toList ++ (b3 ++ ['\n'])))) ++ after) = R at hf ihR ⊢
      simp only [List.length_cons, List.length_append] at hf
      rcases hsp with hsp | hsp
      · have hns : startsWith philWord (d :: (u ++ '\n' :: R)) = false := by
          have := startsWith_append_nl philWord (by decide) R (d :: u)
          rw [List.cons_append] at this
          rw [this]; exact hsp
        rw [scan_line_nomatch philWord offFollowups f d _ line hd hns,
          scan_skip_line philWord offFollowups _ (line + 1) u f hu (by omega),
          ihR (f - u.length) (line + 1) (by simp only [List.length_cons]; omega)]
        simp only [List.length_cons]
        congr 2; omega
      · obtain ⟨v, hvn, hvl, heq⟩ := scan_inert_line (d :: u) R hsnl hsp f line
        rw [List.cons_append] at heq
        simp only [List.length_cons] at hvl
        rw [heq, scan_skip_line philWord offFollowups _ (line + 1) v f hvn (by omega),
          ihR (f - v.length) (line + 1) (by simp only [List.length_cons]; omega)]
        simp only [List.length_cons]
        congr 2; omega

theorem OffRegion.wf_facts {r : OffRegion} (h : r.wf = true) :
    inlineB r.ind = true ∧ inlineB r.b1 = true ∧ r.b1 ≠ [] ∧ '\n' ∉ r.rest ∧
    stopsAt structSettings r.rest = true ∧ r.body.all offLineOk = true ∧
    (∀ c ∈ r.junk, isSpace c = false) ∧ inlineB r.b2 = true ∧ r.b2 ≠ [] ∧ inlineB r.b3 = true := by
  simp only [OffRegion.wf, Bool.and_eq_true, Bool.not_eq_true', List.isEmpty_eq_false_iff,
    List.contains_eq_mem, decide_eq_false_iff_not] at h
  obtain ⟨⟨⟨⟨⟨⟨⟨⟨⟨h1, h2⟩, h3⟩, h4⟩, h5⟩, h6⟩, h7⟩, h8⟩, h9⟩, h10⟩ := h
  refine ⟨h1, h2, h3, h4, h5, h6, ?_, h8, h9, h10⟩
  intro c hc
  have := List.all_eq_true.mp h7 c hc
  simpa using this

/-- **`scan_for_start` over a switched-off region**, started right after the word `__OFF__`: it
    returns 1 (`__ON__`), stands at the first character after the closing line, and has counted one
    line for the opening line, one per switched-off line and one for the closing line. -/
theorem scanOff_region (r : OffRegion) (hwf : r.wf = true) (after : Str) (line : Nat) :
    scanForStart philWord offFollowups ((r.afterOff ++ after).length + 1) (r.afterOff ++ after) line
      = (1, ⟨after, line + r.nl⟩) := by
  obtain ⟨_, _, _, hrest, _, hbody, hj, hb2, hb2n, hb3⟩ := r.wf_facts hwf
  have e : r.afterOff ++ after = r.rest ++ '\n' :: (bodyStr r.body ++ (r.closing ++ after)) := by
    simp [OffRegion.afterOff]
  rw [e, scan_skip_line philWord offFollowups _ line r.rest _ hrest (by simp; omega)]
  have := scanOff_body r.junk r.b2 r.b3 after hj hb2 hb2n hb3 r.body hbody
    ((r.rest ++ '\n' :: (bodyStr r.body ++ (r.closing ++ after))).length + 1 - r.rest.length) line
    (by simp [OffRegion.closing]; omega)
  simp only [OffRegion.closing, OffRegion.nl] at this ⊢
  rw [this, Nat.add_assoc]

theorem nlCount_bodyStr (body : List Str) (h : body.all offLineOk = true) :
    nlCount (bodyStr body) = body.length := by
  induction body with
  | nil => rfl
  | cons s ss ih =>
    simp only [List.all_cons, Bool.and_eq_true] at h
    obtain ⟨hs, hss⟩ := h
    simp only [offLineOk, Bool.and_eq_true, Bool.not_eq_true', List.contains_eq_mem,
      decide_eq_false_iff_not, Bool.or_eq_true] at hs
    rw [bodyStr, nlCount_append, nlCount_of_not_mem hs.1, nlCount_cons_nl, ih hss, List.length_cons]
    omega

theorem nlCount_no_space (s : Str) (h : ∀ c ∈ s, isSpace c = false) : nlCount s = 0 :=
  nlCount_of_no_nl s (fun c hc => ne_nl_of_not_space (h c hc))

theorem nlCount_region (r : OffRegion) (hwf : r.wf = true) : nlCount r.text = r.nl := by
  obtain ⟨h1, h2, _, h4, _, h6, h7, h8, _, h10⟩ := r.wf_facts hwf
  have hp : nlCount philWord = 0 := by decide
  have ho : nlCount "__OFF__".toList = 0 := by decide
  have hn : nlCount "__ON__".toList = 0 := by decide
  simp only [OffRegion.text, OffRegion.fromPhil, OffRegion.afterOff, OffRegion.closing, OffRegion.nl,
    nlCount_append, nlCount_cons_nl, inlineB_nl h1, inlineB_nl h2, nlCount_of_not_mem h4,
    nlCount_bodyStr _ h6, nlCount_no_space _ h7, inlineB_nl h8, inlineB_nl h10, hp, ho, hn, nlCount_nl,
    nlCount_nil]
  omega

/-! ### `collect_objects` at a `#phil` directive -/

/-- one turn of `collect_objects` at `#phil __OFF__` whose region is closed by `#phil __ON__` -/
theorem collectObjects_off_step (fuel : Nat) (st : PState) (prevLine : Nat) (acc : List Obj)
    (pending : Option Obj) (lead w : Word) (ci1 ci2 ci3 : CI) (k : Nat)
    (h1 : nextWord structSettings st.ci = .ok (some (lead, ci1)))
    (hlq : lead.quote = none) (hlv : lead.value = philWord) (hll : lead.line ≠ some prevLine)
    (h2 : nextWord structSettings ci1 = .ok (some (w, ci2)))
    (hwq : w.quote = none) (hwv : w.value = "__OFF__".toList)
    (h3 : scanForStart philWord offFollowups (ci2.rest.length + 1) ci2.rest ci2.line = (k + 1, ci3)) :
    collectObjects (fuel + 1) st none prevLine acc pending
      = collectObjects fuel { st with ci := ci3 } none prevLine acc pending := by
  have e1 := tryPopUnquoted_of_next h1 hlq
  have e3 := popUnquoted_of_next h2 hwq
  have hlv' : lead.value = ['#', 'p', 'h', 'i', 'l'] := hlv
  have hwv' : w.value = ['_', '_', 'O', 'F', 'F', '_', '_'] := hwv
  have h3' : scanForStart ['#', 'p', 'h', 'i', 'l'] [['_', '_', 'E', 'N', 'D', '_', '_'], ['_', '_', 'O', 'N', '_', '_']]
      (ci2.rest.length + 1) ci2.rest ci2.line = (k + 1, ci3) := h3
  simp [collectObjects, e1, e3, hlv', hll, hwv', h3']

/-- one turn of `collect_objects` at `#phil __END__`: the rest of the text is ignored -/
theorem collectObjects_cut_step (fuel : Nat) (st : PState) (prevLine : Nat) (acc : List Obj)
    (pending : Option Obj) (lead w : Word) (ci1 ci2 : CI)
    (h1 : nextWord structSettings st.ci = .ok (some (lead, ci1)))
    (hlq : lead.quote = none) (hlv : lead.value = philWord) (hll : lead.line ≠ some prevLine)
    (h2 : nextWord structSettings ci1 = .ok (some (w, ci2)))
    (hwq : w.quote = none) (hwv : w.value = "__END__".toList) :
    collectObjects (fuel + 1) st none prevLine acc pending
      = .ok (flush acc pending, { st with ci := ci2 }) := by
  have e1 := tryPopUnquoted_of_next h1 hlq
  have e3 := popUnquoted_of_next h2 hwq
  have hlv' : lead.value = ['#', 'p', 'h', 'i', 'l'] := hlv
  have hwv' : w.value = ['_', '_', 'E', 'N', 'D', '_', '_'] := hwv
  simp [collectObjects, e1, e3, hlv', hll, hwv']

/-- the structure tokenizer at blanks, `#phil`, blanks and a directive word `__X__` -/
theorem nextWord_directive (ind b : Str) (word rest : Str) (c : Char) (wt : Str) (hword : word = c :: wt)
    (hind : inlineB ind = true) (hb : inlineB b = true) (hbn : b ≠ [])
    (hw : ∀ d ∈ word, endsUnquoted structSettings d = false) (hq : isQuoteChar c = false)
    (hcm : structSettings.commentChars.contains c = false)
    (hrest : stopsAt structSettings rest = true) (l : Nat) :
    nextWordAux structSettings false (ind ++ (philWord ++ (b ++ (word ++ rest)))) l
      = .ok (some ({ value := philWord, quote := none, line := some l }, ⟨b ++ (word ++ rest), l⟩)) ∧
    nextWord structSettings ⟨b ++ (word ++ rest), l⟩
      = .ok (some ({ value := word, quote := none, line := some l }, ⟨rest, l⟩)) := by
  obtain ⟨d, r, rfl⟩ : ∃ d r, b = d :: r := by
    cases b with
    | nil => exact absurd rfl hbn
    | cons d r => exact ⟨d, r, rfl⟩
  have hd := inlineB_space hb d (by simp)
  constructor
  · rw [nextWordAux_skip structSettings ind _ (inlineB_space hind), inlineB_nl hind, Nat.add_zero]
    exact nextWordAux_phil structSettings (Or.inr rfl) d _ hd l
  · unfold nextWord
    simp only []
    rw [nextWordAux_skip structSettings (d :: r) _ (inlineB_space hb), inlineB_nl hb, Nat.add_zero]
    subst hword
    have hc := hw c (by simp)
    exact nextWordAux_plain structSettings c wt rest l hc hq hcm (startsLong_of_not_ends rfl hc)
      (fun x hx => hw x (by simp [hx])) hrest

/-! ### filler with switched-off regions -/

/-- What stands in front of a name: any number of segments *filler lines, switched-off region*, then
    filler lines, then blanks on the line of the name. -/
structure Pre3 where
  segs : List (List FillLine × OffRegion) := []
  lines : List FillLine := []
  ind : Str := []
  deriving Repr, DecidableEq

def segsStr : List (List FillLine × OffRegion) → Str
  | [] => []
  | (ls, r) :: more => linesStr ls ++ (r.text ++ segsStr more)

def segWf (x : List FillLine × OffRegion) : Bool := x.1.all FillLine.wf && x.2.wf

def Pre3.text (p : Pre3) : Str := segsStr p.segs ++ (linesStr p.lines ++ p.ind)
def Pre3.wf (p : Pre3) : Bool := p.segs.all segWf && p.lines.all FillLine.wf && inlineB p.ind

def segsNl : List (List FillLine × OffRegion) → Nat
  | [] => 0
  | (ls, r) :: more => ls.length + r.nl + segsNl more

/-- the number of newlines of the filler -/
def Pre3.nl (p : Pre3) : Nat := segsNl p.segs + p.lines.length

/-- the filler lines up to the first directive (or the name) -/
def hLines3 (segs : List (List FillLine × OffRegion)) (lines : List FillLine) : List FillLine :=
  match segs with
  | [] => lines
  | (ls, _) :: _ => ls

def hInd3 (segs : List (List FillLine × OffRegion)) (ind : Str) : Str :=
  match segs with
  | [] => ind
  | (_, r) :: _ => r.ind

def hRest3 (segs : List (List FillLine × OffRegion)) (lines : List FillLine) (ind X : Str) : Str :=
  match segs with
  | [] => X
  | (_, r) :: more => r.fromPhil ++ (segsStr more ++ (linesStr lines ++ (ind ++ X)))

theorem pre3_split (segs : List (List FillLine × OffRegion)) (lines : List FillLine) (ind X : Str) :
    segsStr segs ++ (linesStr lines ++ (ind ++ X))
      = linesStr (hLines3 segs lines) ++ (hInd3 segs ind ++ hRest3 segs lines ind X) := by
  cases segs with
  | nil => simp [segsStr, hLines3, hInd3, hRest3]
  | cons x more =>
    obtain ⟨ls, r⟩ := x
    simp [segsStr, hLines3, hInd3, hRest3, OffRegion.text]

theorem hLines3_wf {segs : List (List FillLine × OffRegion)} {lines : List FillLine}
    (hs : segs.all segWf = true) (hl : lines.all FillLine.wf = true) :
    (hLines3 segs lines).all FillLine.wf = true := by
  cases segs with
  | nil => exact hl
  | cons x more =>
    obtain ⟨ls, r⟩ := x
    simp only [List.all_cons, Bool.and_eq_true, segWf] at hs
    exact hs.1.1

theorem hInd3_wf {segs : List (List FillLine × OffRegion)} {ind : Str}
    (hs : segs.all segWf = true) (hi : inlineB ind = true) : inlineB (hInd3 segs ind) = true := by
  cases segs with
  | nil => exact hi
  | cons x more =>
    obtain ⟨ls, r⟩ := x
    simp only [List.all_cons, Bool.and_eq_true, segWf] at hs
    exact (r.wf_facts hs.1.2).1

theorem fromPhil_stopHead (r : OffRegion) (hwf : r.wf = true) (T : Str) : StopHead (r.fromPhil ++ T) := by
  obtain ⟨_, h2, h3, _⟩ := r.wf_facts hwf
  cases hb : r.b1 with
  | nil => exact absurd hb h3
  | cons d t =>
    have hd := inlineB_space h2 d (by simp [hb])
    have : r.fromPhil ++ T = philWord ++ d :: (t ++ ("__OFF__".toList ++ r.afterOff) ++ T) := by
      simp [OffRegion.fromPhil, hb]
    rw [this]
    exact StopHead_phil d _ hd

theorem hRest3_stopHead {segs : List (List FillLine × OffRegion)} (lines : List FillLine) (ind : Str)
    {X : Str} (hs : segs.all segWf = true) (hX : StopHead X) : StopHead (hRest3 segs lines ind X) := by
  cases segs with
  | nil => exact hX
  | cons x more =>
    obtain ⟨ls, r⟩ := x
    simp only [List.all_cons, Bool.and_eq_true, segWf] at hs
    exact fromPhil_stopHead r hs.1.2 _

theorem hLines3_le (segs : List (List FillLine × OffRegion)) (lines : List FillLine) :
    (hLines3 segs lines).length ≤ segsNl segs + lines.length := by
  cases segs with
  | nil => simp [hLines3, segsNl]
  | cons x more => obtain ⟨ls, r⟩ := x; simp [hLines3, segsNl]; omega

/-- **`collect_objects` over the switched-off regions in front of a name**: one turn per region; the
    parser state is unchanged except for the position, nothing is added to the objects. -/
theorem collectObjects_segs (lines : List FillLine) (ind X : Str) (hlines : lines.all FillLine.wf = true)
    (prevLine : Nat) (acc : List Obj) (pending : Option Obj) :
    ∀ (segs : List (List FillLine × OffRegion)), segs.all segWf = true →
      ∀ (fuel : Nat) (st : PState) (L : Nat),
        (segs ≠ [] → prevLine < L + (hLines3 segs lines).length) →
        nextWord structSettings st.ci
          = nextWordAux structSettings false (hInd3 segs ind ++ hRest3 segs lines ind X)
              (L + (hLines3 segs lines).length) →
        ∃ st', collectObjects (fuel + segs.length) st none prevLine acc pending
            = collectObjects fuel st' none prevLine acc pending ∧ st'.nextId = st.nextId ∧
          nextWord structSettings st'.ci
            = nextWordAux structSettings false (ind ++ X) (L + segsNl segs + lines.length) := by
  intro segs
  induction segs with
  | nil =>
    intro _ fuel st L _ hci
    exact ⟨st, rfl, rfl, by simpa [hInd3, hRest3, hLines3, segsNl] using hci⟩
  | cons x more ih =>
    obtain ⟨ls, r⟩ := x
    intro hs fuel st L hprev hci
    simp only [List.all_cons, Bool.and_eq_true, segWf] at hs
    obtain ⟨⟨hls, hr⟩, hmore⟩ := hs
    obtain ⟨hri, hb1, hb1n, _, hrest, _⟩ := r.wf_facts hr
    have hprev' : prevLine < L + ls.length := hprev (by simp)
    simp only [hInd3, hRest3, hLines3] at hci
    -- the text after the region
    generalize hT : segsStr more ++ (linesStr lines ++ (ind ++ X)) = T at hci
    have hstop : stopsAt structSettings (r.afterOff ++ T) = true := by
      unfold OffRegion.afterOff
      cases hrr : r.rest with
      | nil => rfl
      | cons c t => rw [hrr] at hrest; exact hrest
    obtain ⟨hw1, hw2⟩ := nextWord_directive r.ind r.b1 "__OFF__".toList (r.afterOff ++ T) '_'
      "_OFF__".toList rfl hri hb1 hb1n (by decide) (by rfl) (by rfl) hstop (L + ls.length)
    have e : r.fromPhil ++ T = philWord ++ (r.b1 ++ ("__OFF__".toList ++ (r.afterOff ++ T))) := by
      simp [OffRegion.fromPhil]
    rw [e, hw1] at hci
    have hscan := scanOff_region r hr T (L + ls.length)
    have hstep := collectObjects_off_step (fuel + more.length) st prevLine acc pending _ _ _ _
      ⟨T, L + ls.length + r.nl⟩ 0 hci rfl rfl
      (by intro e'; simp only [Option.some.injEq] at e'; omega) hw2 rfl rfl hscan
    have hnext : nextWord structSettings (⟨T, L + ls.length + r.nl⟩ : CI)
        = nextWordAux structSettings false (hInd3 more ind ++ hRest3 more lines ind X)
            (L + ls.length + r.nl + (hLines3 more lines).length) := by
      unfold nextWord
      simp only []
      rw [← hT, pre3_split, struct_skip_lines _ (hLines3_wf hmore hlines)]
    obtain ⟨st', h1, h2, h3⟩ := ih hmore fuel { st with ci := ⟨T, L + ls.length + r.nl⟩ }
      (L + ls.length + r.nl) (by intro _; omega) hnext
    refine ⟨st', ?_, h2, ?_⟩
    · rw [List.length_cons, ← Nat.add_assoc, hstep, h1]
    · rw [h3]; simp only [segsNl]; congr 1; omega

/-! ### documents -/

/-- how the document ends: with the end of the text, or cut by `#phil __END__` (whatever follows is
    ignored) -/
inductive DocEnd
  | eof
  | cut (b1 : Str) (tail : Str)
  deriving Repr, DecidableEq

def DocEnd.text : DocEnd → Str
  | .eof => []
  | .cut b1 tail => philWord ++ (b1 ++ ("__END__".toList ++ tail))

/-- `tail` is arbitrary except that it must not continue the word `__END__` -/
def DocEnd.wf : DocEnd → Bool
  | .eof => true
  | .cut b1 tail => inlineB b1 && !b1.isEmpty && stopsAt structSettings tail

def DocEnd.isCut : DocEnd → Bool
  | .eof => false
  | .cut _ _ => true

/-- the layout of one definition `pre name sp1 = g1 w1 g2 w2 … term` -/
structure DefLayout3 where
  pre : Pre3 := {}
  sp1 : Str := [' ']
  gaps : List Gap
  term : Terminator := .nl []
  deriving Repr, DecidableEq

def defText3 (d : DefSpec) (L : DefLayout3) : Str :=
  d.1 ++ (L.sp1 ++ '=' :: (wordsLay3 L.gaps d.2 ++ L.term.text))

def render3 : List (DefSpec × DefLayout3) → Pre3 → DocEnd → Str
  | [], post, e => post.text ++ e.text
  | (d, L) :: rest, post, e => L.pre.text ++ (defText3 d L ++ render3 rest post e)

/-- name, at least one word, every word quoted (any content) or plain -/
def goodDef3 (d : DefSpec) : Bool := goodName d.1 && !d.2.isEmpty && d.2.all goodWord

def wfDef3 (d : DefSpec) (L : DefLayout3) : Bool :=
  L.pre.wf && inlineB L.sp1 && gapsOK3 true true L.gaps d.2 && L.term.wf

/-- the first directive of the filler (a region, or the cut that follows it when `cut`) is preceded by
    at least one filler line -/
def Pre3.lineFree (p : Pre3) (cut : Bool) : Bool :=
  match p.segs with
  | (ls, _) :: _ => !ls.isEmpty
  | [] => !cut || !p.lines.isEmpty

/-- terminator against what follows: `eof` only at the very end of an uncut text; after `;` a
    `#phil` directive must not stand on the same line -/
def termOK3 (t : Terminator) (next : Pre3) (last cut : Bool) : Bool :=
  match t with
  | .eof => last && next.segs.isEmpty && next.lines.isEmpty && !cut
  | .semi _ => next.lineFree (last && cut)
  | _ => true

def firstPre3 : List (DefSpec × DefLayout3) → Pre3 → Pre3
  | [], post => post
  | (_, L) :: _, _ => L.pre

def afterPre3 : List (DefSpec × DefLayout3) → Pre3 → DocEnd → Str
  | [], _, e => e.text
  | (d, L) :: rest, post, e => defText3 d L ++ render3 rest post e

def wfDoc3 : List (DefSpec × DefLayout3) → Pre3 → DocEnd → Bool
  | [], post, e => post.wf && e.wf
  | (d, L) :: rest, post, e =>
    goodDef3 d && wfDef3 d L && termOK3 L.term (firstPre3 rest post) rest.isEmpty e.isCut &&
      wfDoc3 rest post e

theorem render3_split (ds : List (DefSpec × DefLayout3)) (post : Pre3) (e : DocEnd) :
    render3 ds post e
      = linesStr (hLines3 (firstPre3 ds post).segs (firstPre3 ds post).lines) ++
          (hInd3 (firstPre3 ds post).segs (firstPre3 ds post).ind ++
            hRest3 (firstPre3 ds post).segs (firstPre3 ds post).lines (firstPre3 ds post).ind
              (afterPre3 ds post e)) := by
  rw [← pre3_split]
  cases ds with
  | nil => simp [render3, firstPre3, afterPre3, Pre3.text]
  | cons x rest =>
    obtain ⟨d, L⟩ := x
    simp [render3, firstPre3, afterPre3, Pre3.text]

theorem wfDoc3_cons {d : DefSpec} {L : DefLayout3} {rest : List (DefSpec × DefLayout3)} {post : Pre3}
    {e : DocEnd} (h : wfDoc3 ((d, L) :: rest) post e = true) :
    goodDef3 d = true ∧ wfDef3 d L = true ∧
      termOK3 L.term (firstPre3 rest post) rest.isEmpty e.isCut = true ∧ wfDoc3 rest post e = true := by
  simp only [wfDoc3, Bool.and_eq_true] at h
  exact ⟨h.1.1.1, h.1.1.2, h.1.2, h.2⟩

theorem wfDoc3_firstPre {ds : List (DefSpec × DefLayout3)} {post : Pre3} {e : DocEnd}
    (h : wfDoc3 ds post e = true) : (firstPre3 ds post).wf = true := by
  cases ds with
  | nil => simp only [wfDoc3, Bool.and_eq_true] at h; exact h.1
  | cons x rest =>
    obtain ⟨d, L⟩ := x
    obtain ⟨_, h2, _, _⟩ := wfDoc3_cons h
    simp only [wfDef3, Bool.and_eq_true] at h2
    exact h2.1.1.1

theorem Pre3.wf_facts {p : Pre3} (h : p.wf = true) :
    p.segs.all segWf = true ∧ p.lines.all FillLine.wf = true ∧ inlineB p.ind = true := by
  simp only [Pre3.wf, Bool.and_eq_true] at h
  exact ⟨h.1.1, h.1.2, h.2⟩

theorem goodDef3_facts {d : DefSpec} (h : goodDef3 d = true) :
    goodName d.1 = true ∧ d.2 ≠ [] ∧ ∀ w ∈ d.2, goodWord w = true := by
  simp only [goodDef3, Bool.and_eq_true, Bool.not_eq_true', List.all_eq_true] at h
  obtain ⟨⟨h1, h2⟩, h3⟩ := h
  refine ⟨h1, ?_, h3⟩
  intro e; rw [e] at h2; simp at h2

theorem DocEnd.stopHead {e : DocEnd} (h : e.wf = true) : StopHead e.text := by
  cases e with
  | eof => exact StopHead_of_NameHead (by intro c t e; cases e)
  | cut b1 tail =>
    simp only [DocEnd.wf, Bool.and_eq_true, Bool.not_eq_true', List.isEmpty_eq_false_iff] at h
    obtain ⟨⟨h1, h2⟩, _⟩ := h
    cases b1 with
    | nil => exact absurd rfl h2
    | cons d t =>
      have hd := inlineB_space h1 d (by simp)
      exact StopHead_phil d _ hd

theorem wfDoc3_stopHead {ds : List (DefSpec × DefLayout3)} {post : Pre3} {e : DocEnd}
    (h : wfDoc3 ds post e = true) : StopHead (afterPre3 ds post e) := by
  cases ds with
  | nil =>
    simp only [wfDoc3, Bool.and_eq_true] at h
    exact DocEnd.stopHead h.2
  | cons x rest =>
    obtain ⟨d, L⟩ := x
    obtain ⟨h1, _, _, _⟩ := wfDoc3_cons h
    obtain ⟨c0, w, e', hs, _, _, _⟩ := goodName_cases (goodDef3_facts h1).1
    apply StopHead_of_NameHead
    intro c t ec
    simp only [afterPre3, defText3, e', List.cons_append, List.cons.injEq] at ec
    rw [← ec.1]
    exact idStart_cont hs

/-- what the parser builds: ids in order from `i`; `l` is the line on which the filler in front of
    the first name starts -/
def parsedLay3 : Nat → Nat → List (DefSpec × DefLayout3) → List Obj
  | _, _, [] => []
  | l, i, (d, L) :: rest =>
    .defn { name := d.1, id := some i, line := some (l + L.pre.nl) }
        (relineG (l + L.pre.nl) L.gaps d.2)
      :: parsedLay3 (endLineG (l + L.pre.nl) L.gaps d.2 + nlCount L.term.text) (i + 1) rest

/-- turns of `collect_objects` a document needs: one per definition, one per region, one for the end -/
def docFuel : List (DefSpec × DefLayout3) → Pre3 → Nat
  | [], post => post.segs.length + 2
  | (_, L) :: rest, post => L.pre.segs.length + 1 + docFuel rest post

theorem endLineG_ge (ws : List Word) : ∀ (gaps : List Gap) (l : Nat), l ≤ endLineG l gaps ws := by
  induction ws with
  | nil => intro gaps l; cases gaps <;> simp [endLineG]
  | cons w ws ih =>
    intro gaps l
    cases gaps with
    | nil => simp [endLineG]
    | cons g gs =>
      have := ih gs (l + nlCount g.text + nlCount w.value)
      simp only [endLineG]; omega

theorem term_nl_pos {t : Terminator} (ht : t.wf = true) :
    (∃ tb, t = .nl tb) ∨ (∃ sb c, t = .comment sb c) → 1 ≤ nlCount t.text := by
  intro h
  rcases h with ⟨tb, rfl⟩ | ⟨sb, c, rfl⟩
  · simp only [Terminator.text, nlCount_append, nlCount_nl]; omega
  · simp only [Terminator.text, nlCount_append, nlCount_cons_ne '#' _ (by decide), nlCount_nl]; omega

theorem collectObjects_layout3 (post : Pre3) (e : DocEnd) :
    ∀ (ds : List (DefSpec × DefLayout3)) (fuel : Nat) (st : PState) (l prevLine : Nat) (acc : List Obj)
      (pending : Option Obj),
      wfDoc3 ds post e = true → docFuel ds post ≤ fuel →
      ((firstPre3 ds post).segs ≠ [] ∨ (ds = [] ∧ e.isCut = true) →
        prevLine < l + (hLines3 (firstPre3 ds post).segs (firstPre3 ds post).lines).length) →
      nextWord structSettings st.ci
        = nextWordAux structSettings false
            (hInd3 (firstPre3 ds post).segs (firstPre3 ds post).ind ++
              hRest3 (firstPre3 ds post).segs (firstPre3 ds post).lines (firstPre3 ds post).ind
                (afterPre3 ds post e))
            (l + (hLines3 (firstPre3 ds post).segs (firstPre3 ds post).lines).length) →
      ∃ st', collectObjects fuel st none prevLine acc pending
        = .ok (flush acc pending ++ parsedLay3 l st.nextId ds, st') := by
  intro ds
  induction ds with
  | nil =>
    intro fuel st l prevLine acc pending hwf hf hprev hci
    simp only [wfDoc3, Bool.and_eq_true] at hwf
    obtain ⟨hpost, he⟩ := hwf
    obtain ⟨hsegs, hlines, hind⟩ := Pre3.wf_facts hpost
    simp only [firstPre3, afterPre3] at hprev hci
    obtain ⟨f, rfl⟩ : ∃ f, fuel = f + 1 + post.segs.length :=
      ⟨fuel - 1 - post.segs.length, by simp only [docFuel] at hf; omega⟩
    obtain ⟨st1, h1, h2, h3⟩ := collectObjects_segs post.lines post.ind e.text hlines prevLine acc pending
      post.segs hsegs (f + 1) st l (fun hne => hprev (Or.inl hne)) hci
    rw [h1]
    cases e with
    | eof =>
      refine ⟨st1, ?_⟩
      rw [collectObjects_end f st1 prevLine acc pending (by
        rw [h3]
        simp only [DocEnd.text, List.append_nil]
        exact nextWordAux_blank_eof structSettings _ _ (inlineB_space hind))]
      simp [parsedLay3]
    | cut b1 tail =>
      simp only [DocEnd.wf, Bool.and_eq_true, Bool.not_eq_true', List.isEmpty_eq_false_iff] at he
      obtain ⟨⟨hb1, hb1n⟩, htail⟩ := he
      obtain ⟨hw1, hw2⟩ := nextWord_directive post.ind b1 "__END__".toList tail '_'
        "_END__".toList rfl hind hb1 hb1n (by decide) (by rfl) (by rfl) htail
        (l + segsNl post.segs + post.lines.length)
      simp only [DocEnd.text] at h3
      rw [hw1] at h3
      have hlt := hprev (by simp [DocEnd.isCut])
      have hle := hLines3_le post.segs post.lines
      refine ⟨{ st1 with ci := ⟨tail, l + segsNl post.segs + post.lines.length⟩ }, ?_⟩
      rw [collectObjects_cut_step f st1 prevLine acc pending _ _ _ _ h3 rfl rfl
        (by intro e'; simp only [Option.some.injEq] at e'; omega) hw2 rfl rfl]
      simp [parsedLay3]
  | cons x rest ih =>
    obtain ⟨d, L⟩ := x
    intro fuel st l prevLine acc pending hwf hf hprev hci
    obtain ⟨hgd, hwd, htok, hwr⟩ := wfDoc3_cons hwf
    obtain ⟨hname, hne, hgood⟩ := goodDef3_facts hgd
    simp only [wfDef3, Bool.and_eq_true] at hwd
    obtain ⟨⟨⟨hpre, hsp1⟩, hgaps⟩, hterm⟩ := hwd
    obtain ⟨hsegs, hlines, hpi⟩ := Pre3.wf_facts hpre
    simp only [firstPre3, afterPre3] at hprev hci
    obtain ⟨f, rfl⟩ : ∃ f, fuel = f + 1 + L.pre.segs.length :=
      ⟨fuel - 1 - L.pre.segs.length, by simp only [docFuel] at hf; omega⟩
    have hf' : docFuel rest post ≤ f := by simp only [docFuel] at hf; omega
    obtain ⟨st1, hs1, hs2, hs3⟩ := collectObjects_segs L.pre.lines L.pre.ind
      (defText3 d L ++ render3 rest post e) hlines prevLine acc pending
      L.pre.segs hsegs (f + 1) st l (fun hne => hprev (Or.inl hne)) hci
    rw [hs1]
    have hnl : l + segsNl L.pre.segs + L.pre.lines.length = l + L.pre.nl := by
      simp only [Pre3.nl]; omega
    rw [hnl] at hs3
    obtain ⟨c, w, ec, hs, hall, hpd, hdot⟩ := goodName_cases hname
    have hcont := idStart_cont hs
    obtain ⟨_, _, _, _, h5, _, _, h8, _⟩ := idCont_facts hcont
    have hpre' := Pre3.wf_facts (wfDoc3_firstPre hwr)
    -- the name
    have hc := idCont_not_ends (hall c (by simp))
    have hcm : structSettings.commentChars.contains c = false := by
      simp [structSettings, Gen.structComment, h5]
    have h1 : nextWord structSettings st1.ci
        = .ok (some ({ value := c :: w, quote := none, line := some (l + L.pre.nl) },
            ⟨L.sp1 ++ '=' :: (wordsLay3 L.gaps d.2 ++ (L.term.text ++ render3 rest post e)),
              l + L.pre.nl⟩)) := by
      rw [hs3]
      simp only [defText3, ec]
      rw [nextWordAux_skip structSettings _ _ (inlineB_space hpi), inlineB_nl hpi, Nat.add_zero]
      have := nextWordAux_plain structSettings c w
        (L.sp1 ++ '=' :: (wordsLay3 L.gaps d.2 ++ (L.term.text ++ render3 rest post e)))
        (l + L.pre.nl) hc (idCont_not_quote hcont) hcm (startsLong_of_not_ends rfl hc)
        (fun x hx => idCont_not_ends (hall x (by simp [hx])))
        (stopsAt_space_append _ _ _ (inlineB_space hsp1) (by rfl))
      simpa using this
    have h2 := nextWord_struct_eq L.sp1 (wordsLay3 L.gaps d.2 ++ (L.term.text ++ render3 rest post e))
      (l + L.pre.nl) (inlineB_space hsp1)
    rw [inlineB_nl hsp1, Nat.add_zero] at h2
    -- the value
    obtain ⟨ci4, h3, h4⟩ := collectAssigned_layout3 d.2 L.gaps L.term
      (hLines3 (firstPre3 rest post).segs (firstPre3 rest post).lines)
      (hInd3 (firstPre3 rest post).segs (firstPre3 rest post).ind)
      (hRest3 (firstPre3 rest post).segs (firstPre3 rest post).lines (firstPre3 rest post).ind
        (afterPre3 rest post e)) (l + L.pre.nl)
      { value := c :: w, quote := none, line := some (l + L.pre.nl) }
      hne hgood hgaps hterm (hLines3_wf hpre'.1 hpre'.2.1) (hInd3_wf hpre'.1 hpre'.2.2)
      (hRest3_stopHead _ _ hpre'.1 (wfDoc3_stopHead hwr))
      (by
        intro he
        cases ht : L.term with
        | eof =>
          rw [ht] at htok
          simp only [termOK3, Bool.and_eq_true, List.isEmpty_iff, Bool.not_eq_true'] at htok
          obtain ⟨⟨⟨hr, hsg⟩, hln⟩, hcut⟩ := htok
          subst hr
          simp only [firstPre3] at hsg hln ⊢
          cases e with
          | eof => simp [hsg, hln, hLines3, hRest3, afterPre3, DocEnd.text]
          | cut _ _ => simp [DocEnd.isCut] at hcut
        | nl _ => rw [ht] at he; cases he
        | semi _ => rw [ht] at he; cases he
        | comment _ _ => rw [ht] at he; cases he)
      rfl (by rw [isUnq_backslash]; simp [h8])
    rw [← render3_split rest post e] at h3
    rw [collectObjects_defn_step f st1 none prevLine acc pending _ _ _ _ ci4 _ h1 rfl
      (by rw [← ec]; exact hpd) h2 rfl rfl h3]
    have hge := endLineG_ge d.2 L.gaps (l + L.pre.nl)
    obtain ⟨st', hih⟩ := ih f { ci := ci4, nextId := st1.nextId + 1 }
      (endLineG (l + L.pre.nl) L.gaps d.2 + nlCount L.term.text)
      ((some (l + L.pre.nl)).getD 0) (flush acc pending)
      (some (.defn { name := c :: w, id := some st1.nextId, disabled := false,
                     line := some (l + L.pre.nl) } (relineG (l + L.pre.nl) L.gaps d.2)))
      hwr hf'
      (by
        intro hdir
        simp only [Option.getD_some]
        cases ht : L.term with
        | nl tb =>
          have := term_nl_pos hterm (Or.inl ⟨tb, ht⟩)
          rw [ht] at this; omega
        | comment sb cm =>
          have := term_nl_pos hterm (Or.inr ⟨sb, cm, ht⟩)
          rw [ht] at this; omega
        | eof =>
          exfalso
          rw [ht] at htok
          simp only [termOK3, Bool.and_eq_true, List.isEmpty_iff, Bool.not_eq_true'] at htok
          obtain ⟨⟨⟨hr, hsg⟩, hln⟩, hcut⟩ := htok
          subst hr
          simp only [firstPre3] at hsg hdir
          rcases hdir with hd | ⟨_, hd⟩
          · exact hd hsg
          · rw [hcut] at hd; cases hd
        | semi sb =>
          rw [ht] at htok
          simp only [termOK3, Pre3.lineFree] at htok
          cases hsg : (firstPre3 rest post).segs with
          | nil =>
            rw [hsg] at htok hdir
            rcases hdir with hd | ⟨hr, hcut⟩
            · exact absurd rfl hd
            · subst hr
              simp only [List.isEmpty_nil, hcut, Bool.and_self, Bool.not_true, Bool.false_or,
                Bool.not_eq_true', List.isEmpty_eq_false_iff] at htok
              have : 1 ≤ (firstPre3 [] post).lines.length := by
                cases hl : (firstPre3 [] post).lines with
                | nil => exact absurd hl htok
                | cons _ _ => simp
              simp only [hLines3]; omega
          | cons x more =>
            obtain ⟨ls, r⟩ := x
            rw [hsg] at htok
            simp only [Bool.not_eq_true', List.isEmpty_eq_false_iff] at htok
            have : 1 ≤ ls.length := by
              cases hl : ls with
              | nil => exact absurd hl htok
              | cons _ _ => simp
            simp only [hLines3]; omega)
      h4
    refine ⟨st', ?_⟩
    rw [hih, flush_some_undotted _ _ (by rw [← ec]; exact hdot)]
    simp [parsedLay3, ec, hs2]

theorem segsStr_length_ge (segs : List (List FillLine × OffRegion)) : segs.length ≤ (segsStr segs).length := by
  induction segs with
  | nil => simp
  | cons x more ih =>
    obtain ⟨ls, r⟩ := x
    simp only [segsStr, OffRegion.text, OffRegion.fromPhil, philWord, List.length_cons, List.length_append]
    simp; omega

theorem docFuel_le (post : Pre3) (e : DocEnd) (ds : List (DefSpec × DefLayout3)) :
    docFuel ds post ≤ (render3 ds post e).length + 2 := by
  induction ds with
  | nil =>
    have := segsStr_length_ge post.segs
    simp only [docFuel, render3, Pre3.text, List.length_append]; omega
  | cons x rest ih =>
    obtain ⟨d, L⟩ := x
    have := segsStr_length_ge L.pre.segs
    simp only [docFuel, render3, Pre3.text, defText3, List.length_cons, List.length_append]; omega

/-- `parse` of a document under the extended layout -/
theorem parseObjs_render3 (ds : List (DefSpec × DefLayout3)) (post : Pre3) (e : DocEnd)
    (h : wfDoc3 ds post e = true) :
    parseObjs (render3 ds post e) = .ok (parsedLay3 1 1 ds) := by
  have hpre := Pre3.wf_facts (wfDoc3_firstPre h)
  obtain ⟨st', hst⟩ := collectObjects_layout3 post e ds _
    { ci := ⟨render3 ds post e, 1⟩, nextId := 1 } 1 0 [] none h (docFuel_le post e ds)
    (by intro _; omega) (by
      unfold nextWord
      simp only []
      rw [render3_split, struct_skip_lines _ (hLines3_wf hpre.1 hpre.2.1)])
  unfold parseObjs
  rw [hst]
  simp [flush]

/-! ### the tree does not depend on the layout; ids -/

theorem gapsOK3_length (ws : List Word) : ∀ (gaps : List Gap) (first same : Bool),
    gapsOK3 first same gaps ws = true → gaps.length = ws.length := by
  induction ws with
  | nil => intro gaps first same h; rw [gapsOK3_nil_right h]; rfl
  | cons w ws ih =>
    intro gaps first same h
    obtain ⟨g, gs, rfl, _, hgs⟩ := gapsOK3_cons_right h
    simp [ih gs _ _ hgs]

theorem relineG_erase (ws : List Word) : ∀ (gaps : List Gap) (l : Nat), gaps.length = ws.length →
    (relineG l gaps ws).map Word.erase = ws.map Word.erase := by
  induction ws with
  | nil => intro gaps l h; cases gaps <;> simp [relineG]
  | cons w ws ih =>
    intro gaps l h
    cases gaps with
    | nil => simp at h
    | cons g gs =>
      simp only [relineG, List.map_cons, ih gs _ (by simpa using h)]
      simp [Word.erase]

theorem wfDoc3_get (post : Pre3) (e : DocEnd) (ds : List (DefSpec × DefLayout3)) :
    ∀ (k : Nat) (d : DefSpec) (L : DefLayout3), wfDoc3 ds post e = true → ds[k]? = some (d, L) →
      goodDef3 d = true ∧ wfDef3 d L = true := by
  induction ds with
  | nil => intro k d L _ h; simp at h
  | cons x rest ih =>
    obtain ⟨d0, L0⟩ := x
    intro k d L hwf h
    obtain ⟨h1, h2, _, h4⟩ := wfDoc3_cons hwf
    cases k with
    | zero =>
      simp only [List.getElem?_cons_zero, Option.some.injEq, Prod.mk.injEq] at h
      obtain ⟨rfl, rfl⟩ := h
      exact ⟨h1, h2⟩
    | succ k =>
      simp only [List.getElem?_cons_succ] at h
      exact ih k d L h4 h

theorem wfDef3_gaps_length {d : DefSpec} {L : DefLayout3} (h : wfDef3 d L = true) :
    L.gaps.length = d.2.length := by
  simp only [wfDef3, Bool.and_eq_true] at h
  exact gapsOK3_length d.2 L.gaps true true h.1.2

theorem parsedLay3_erase (post : Pre3) (e : DocEnd) (ds : List (DefSpec × DefLayout3)) :
    ∀ l i, wfDoc3 ds post e = true → eraseList (parsedLay3 l i ds) = treeOf (ds.map Prod.fst) := by
  induction ds with
  | nil => intro l i _; simp [parsedLay3, treeOf, eraseList]
  | cons x rest ih =>
    obtain ⟨d, L⟩ := x
    intro l i hwf
    obtain ⟨_, h2, _, h4⟩ := wfDoc3_cons hwf
    simp only [parsedLay3, eraseList_cons, ih _ _ h4, treeOf, List.map_cons]
    simp [Obj.erase, relineG_erase d.2 L.gaps _ (wfDef3_gaps_length h2), Meta.erase]

theorem parsedLay3_ids (ds : List (DefSpec × DefLayout3)) : ∀ l i,
    (parsedLay3 l i ds).map (fun x => x.meta.id) = (List.range' i ds.length).map some := by
  induction ds with
  | nil => intro l i; rfl
  | cons x rest ih =>
    obtain ⟨d, L⟩ := x
    intro l i
    simp only [parsedLay3, List.map_cons, List.length_cons, List.range'_succ, ih]
    rfl

/-! ### source lines in terms of the text in front -/

def linedWords3 (before : Str) : List Gap → List Word → List Word
  | g :: gs, w :: ws =>
    { w with line := some (1 + nlCount (before ++ g.text)) } :: linedWords3 (before ++ (g.text ++ w.str)) gs ws
  | _, _ => []

def linedObjs3 (before : Str) (i : Nat) : List (DefSpec × DefLayout3) → List Obj
  | [] => []
  | (d, L) :: rest =>
    .defn { name := d.1, id := some i, line := some (1 + nlCount (before ++ L.pre.text)) }
        (linedWords3 (before ++ L.pre.text ++ d.1 ++ L.sp1 ++ ['=']) L.gaps d.2)
      :: linedObjs3 (before ++ (L.pre.text ++ defText3 d L)) (i + 1) rest

theorem relineG_eq_linedWords3 (ws : List Word) : ∀ (gaps : List Gap) (b : Str),
    relineG (1 + nlCount b) gaps ws = linedWords3 b gaps ws := by
  induction ws with
  | nil => intro gaps b; cases gaps <;> rfl
  | cons w ws ih =>
    intro gaps b
    cases gaps with
    | nil => rfl
    | cons g gs =>
      have e : 1 + nlCount b + nlCount g.text + nlCount w.value = 1 + nlCount (b ++ (g.text ++ w.str)) := by
        rw [nlCount_append, nlCount_append, nlCount_str]; omega
      rw [relineG, linedWords3, e, ih gs, nlCount_append b g.text, Nat.add_assoc]

theorem endLineG_eq (ws : List Word) : ∀ (gaps : List Gap) (l : Nat), gaps.length = ws.length →
    endLineG l gaps ws = l + nlCount (wordsLay3 gaps ws) := by
  induction ws with
  | nil => intro gaps l h; cases gaps <;> simp [endLineG, wordsLay3]
  | cons w ws ih =>
    intro gaps l h
    cases gaps with
    | nil => simp at h
    | cons g gs =>
      rw [endLineG, ih gs _ (by simpa using h), wordsLay3, nlCount_append, nlCount_append, nlCount_str]
      omega

theorem nlCount_segs (segs : List (List FillLine × OffRegion)) (h : segs.all segWf = true) :
    nlCount (segsStr segs) = segsNl segs := by
  induction segs with
  | nil => rfl
  | cons x more ih =>
    obtain ⟨ls, r⟩ := x
    simp only [List.all_cons, Bool.and_eq_true, segWf] at h
    obtain ⟨⟨hls, hr⟩, hmore⟩ := h
    rw [segsStr, nlCount_append, nlCount_append, nlCount_linesStr _ hls, nlCount_region r hr, ih hmore, segsNl]
    omega

theorem nlCount_pre3 (p : Pre3) (hp : p.wf = true) : nlCount p.text = p.nl := by
  obtain ⟨h1, h2, h3⟩ := Pre3.wf_facts hp
  rw [Pre3.text, nlCount_append, nlCount_append, nlCount_segs _ h1, nlCount_linesStr _ h2, inlineB_nl h3,
    Pre3.nl]
  omega

theorem parsedLay3_eq_lined (post : Pre3) (e : DocEnd) (ds : List (DefSpec × DefLayout3)) :
    ∀ (before : Str) (i : Nat), wfDoc3 ds post e = true →
      parsedLay3 (1 + nlCount before) i ds = linedObjs3 before i ds := by
  induction ds with
  | nil => intro before i _; rfl
  | cons x rest ih =>
    obtain ⟨d, L⟩ := x
    intro before i hwf
    obtain ⟨hgd, hwd, _, hwr⟩ := wfDoc3_cons hwf
    obtain ⟨hname, _, _⟩ := goodDef3_facts hgd
    have hlen := wfDef3_gaps_length hwd
    simp only [wfDef3, Bool.and_eq_true] at hwd
    obtain ⟨⟨⟨hpre, hsp1⟩, hgaps⟩, hterm⟩ := hwd
    have hl : 1 + nlCount before + L.pre.nl = 1 + nlCount (before ++ L.pre.text) := by
      rw [nlCount_append, nlCount_pre3 _ hpre]; omega
    have hb : 1 + nlCount (before ++ L.pre.text)
        = 1 + nlCount (before ++ L.pre.text ++ d.1 ++ L.sp1 ++ ['=']) := by
      rw [nlCount_append _ ['='], nlCount_append _ L.sp1, nlCount_append _ d.1, goodName_nlCount hname,
        inlineB_nl hsp1, nlCount_eq]
      omega
    have hnext : endLineG (1 + nlCount (before ++ L.pre.text)) L.gaps d.2 + nlCount L.term.text
        = 1 + nlCount (before ++ (L.pre.text ++ defText3 d L)) := by
      have heq : '=' ≠ '\n' := by decide
      rw [endLineG_eq d.2 L.gaps _ hlen, defText3]
      simp only [nlCount_append, nlCount_cons_ne '=' _ heq]
      rw [goodName_nlCount hname, inlineB_nl hsp1]
      omega
    rw [parsedLay3, linedObjs3, hl, hnext, ih _ _ hwr]
    congr 2
    rw [hb]
    exact relineG_eq_linedWords3 d.2 L.gaps _

/-- the closed form of `parse` on a document under the extended layout -/
theorem parseObjs_render3_lined (ds : List (DefSpec × DefLayout3)) (post : Pre3) (e : DocEnd)
    (h : wfDoc3 ds post e = true) : parseObjs (render3 ds post e) = .ok (linedObjs3 [] 1 ds) := by
  rw [parseObjs_render3 ds post e h]
  have : parsedLay3 1 1 ds = linedObjs3 [] 1 ds := parsedLay3_eq_lined post e ds [] 1 h
  rw [this]

/-! ### explicit prefixes of the rendered text -/

/-- the text in front of the name of definition `k` -/
def beforeName3 : List (DefSpec × DefLayout3) → Nat → Str
  | [], _ => []
  | (_, L) :: _, 0 => L.pre.text
  | (d, L) :: rest, k + 1 => L.pre.text ++ (defText3 d L ++ beforeName3 rest k)

/-- inside a value: the text in front of word `j` -/
def beforeWordIn3 : List Gap → List Word → Nat → Str
  | g :: _, _ :: _, 0 => g.text
  | g :: gs, w :: ws, j + 1 => g.text ++ (w.str ++ beforeWordIn3 gs ws j)
  | _, _, _ => []

/-- the text in front of word `j` of definition `k` -/
def beforeWord3 (ds : List (DefSpec × DefLayout3)) (k j : Nat) : Str :=
  match ds[k]? with
  | some (d, L) => beforeName3 ds k ++ (d.1 ++ (L.sp1 ++ ('=' :: beforeWordIn3 L.gaps d.2 j)))
  | none => []

theorem beforeName3_prefix (post : Pre3) (e : DocEnd) (ds : List (DefSpec × DefLayout3)) :
    ∀ (k : Nat) (d : DefSpec) (L : DefLayout3), ds[k]? = some (d, L) →
      ∃ tail, render3 ds post e = beforeName3 ds k ++ (d.1 ++ tail) := by
  induction ds with
  | nil => intro k d L h; simp at h
  | cons x rest ih =>
    obtain ⟨d0, L0⟩ := x
    intro k d L h
    cases k with
    | zero =>
      simp only [List.getElem?_cons_zero, Option.some.injEq, Prod.mk.injEq] at h
      obtain ⟨rfl, rfl⟩ := h
      exact ⟨L0.sp1 ++ '=' :: (wordsLay3 L0.gaps d0.2 ++ (L0.term.text ++ render3 rest post e)),
        by simp [render3, beforeName3, defText3]⟩
    | succ k =>
      simp only [List.getElem?_cons_succ] at h
      obtain ⟨tail, ht⟩ := ih k d L h
      exact ⟨tail, by simp [render3, beforeName3, ht]⟩

theorem beforeWordIn3_prefix (ws : List Word) :
    ∀ (gaps : List Gap) (j : Nat) (w : Word), gaps.length = ws.length → ws[j]? = some w →
      ∃ tail, wordsLay3 gaps ws = beforeWordIn3 gaps ws j ++ (w.str ++ tail) := by
  induction ws with
  | nil => intro gaps j w _ h; simp at h
  | cons w0 ws ih =>
    intro gaps j w hlen h
    cases gaps with
    | nil => simp at hlen
    | cons g gs =>
      cases j with
      | zero =>
        simp only [List.getElem?_cons_zero, Option.some.injEq] at h
        subst h
        exact ⟨wordsLay3 gs ws, by simp [wordsLay3, beforeWordIn3]⟩
      | succ j =>
        simp only [List.getElem?_cons_succ] at h
        obtain ⟨tail, ht⟩ := ih gs j w (by simpa using hlen) h
        exact ⟨tail, by simp [wordsLay3, beforeWordIn3, ht]⟩

theorem beforeWord3_prefix (post : Pre3) (e : DocEnd) (ds : List (DefSpec × DefLayout3)) (k j : Nat)
    (d : DefSpec) (L : DefLayout3) (w : Word) (hk : ds[k]? = some (d, L))
    (hlen : L.gaps.length = d.2.length) (hj : d.2[j]? = some w) :
    ∃ tail, render3 ds post e = beforeWord3 ds k j ++ (w.str ++ tail) := by
  have key : ∀ (ds : List (DefSpec × DefLayout3)) (k : Nat), ds[k]? = some (d, L) →
      ∃ tail, render3 ds post e = beforeName3 ds k ++ (defText3 d L ++ tail) := by
    intro ds
    induction ds with
    | nil => intro k h; simp at h
    | cons x rest ih =>
      obtain ⟨d0, L0⟩ := x
      intro k h
      cases k with
      | zero =>
        simp only [List.getElem?_cons_zero, Option.some.injEq, Prod.mk.injEq] at h
        obtain ⟨rfl, rfl⟩ := h
        exact ⟨render3 rest post e, by simp [render3, beforeName3]⟩
      | succ k =>
        simp only [List.getElem?_cons_succ] at h
        obtain ⟨tail, ht⟩ := ih k h
        exact ⟨tail, by simp [render3, beforeName3, ht]⟩
  obtain ⟨tail, ht⟩ := key ds k hk
  obtain ⟨tail2, ht2⟩ := beforeWordIn3_prefix d.2 L.gaps j w hlen hj
  refine ⟨tail2 ++ (L.term.text ++ tail), ?_⟩
  rw [ht, beforeWord3, hk]
  simp [defText3, ht2]

theorem linedWords3_get (ws : List Word) :
    ∀ (gaps : List Gap) (b : Str) (j : Nat) (w' : Word), gaps.length = ws.length →
      (linedWords3 b gaps ws)[j]? = some w' →
      ∃ w, ws[j]? = some w ∧ w' = { w with line := some (1 + nlCount (b ++ beforeWordIn3 gaps ws j)) } := by
  induction ws with
  | nil =>
    intro gaps b j w' hlen h
    cases gaps <;> simp [linedWords3] at h
  | cons w0 ws ih =>
    intro gaps b j w' hlen h
    cases gaps with
    | nil => simp at hlen
    | cons g gs =>
      cases j with
      | zero =>
        simp only [linedWords3, List.getElem?_cons_zero, Option.some.injEq] at h
        exact ⟨w0, rfl, by rw [← h]; rfl⟩
      | succ j =>
        simp only [linedWords3, List.getElem?_cons_succ] at h
        obtain ⟨w, hw, e⟩ := ih gs _ j w' (by simpa using hlen) h
        refine ⟨w, by simpa using hw, ?_⟩
        rw [e]
        simp [beforeWordIn3]

theorem linedWords3_length (ws : List Word) : ∀ (gaps : List Gap) (b : Str),
    gaps.length = ws.length → (linedWords3 b gaps ws).length = ws.length := by
  induction ws with
  | nil => intro gaps b h; cases gaps <;> simp [linedWords3]
  | cons w ws ih =>
    intro gaps b h
    cases gaps with
    | nil => simp at h
    | cons g gs => simp [linedWords3, ih gs _ (by simpa using h)]

theorem linedObjs3_get (ds : List (DefSpec × DefLayout3)) :
    ∀ (before : Str) (i k : Nat) (d : DefSpec) (L : DefLayout3), ds[k]? = some (d, L) →
      (linedObjs3 before i ds)[k]? = some (.defn
        { name := d.1, id := some (i + k), line := some (1 + nlCount (before ++ beforeName3 ds k)) }
        (linedWords3 (before ++ beforeName3 ds k ++ d.1 ++ L.sp1 ++ ['=']) L.gaps d.2)) := by
  induction ds with
  | nil => intro before i k d L h; simp at h
  | cons x rest ih =>
    obtain ⟨d0, L0⟩ := x
    intro before i k d L h
    cases k with
    | zero =>
      simp only [List.getElem?_cons_zero, Option.some.injEq, Prod.mk.injEq] at h
      obtain ⟨rfl, rfl⟩ := h
      simp [linedObjs3, beforeName3]
    | succ k =>
      simp only [List.getElem?_cons_succ] at h
      rw [linedObjs3, List.getElem?_cons_succ, ih _ _ k d L h]
      simp only [beforeName3, List.append_assoc]
      have : i + 1 + k = i + (k + 1) := by omega
      rw [this]

theorem linedObjs3_length (ds : List (DefSpec × DefLayout3)) : ∀ (before : Str) (i : Nat),
    (linedObjs3 before i ds).length = ds.length := by
  induction ds with
  | nil => intro before i; rfl
  | cons x rest ih => obtain ⟨d, L⟩ := x; intro before i; simp [linedObjs3, ih]

/-- every definition and every word of the parsed document, by index -/
theorem linedObjs3_spec (post : Pre3) (e : DocEnd) (ds : List (DefSpec × DefLayout3))
    (hwf : wfDoc3 ds post e = true)
    (k : Nat) (d : DefSpec) (L : DefLayout3) (hk : ds[k]? = some (d, L)) :
    ∃ ws, (linedObjs3 [] 1 ds)[k]? = some (.defn
        { name := d.1, id := some (1 + k), line := some (1 + nlCount (beforeName3 ds k)) } ws) ∧
      ws.length = d.2.length ∧
      ∀ (j : Nat) (w' : Word), ws[j]? = some w' →
        ∃ w : Word, d.2[j]? = some w ∧
          w' = { w with line := some (1 + nlCount (beforeWord3 ds k j)) } := by
  obtain ⟨_, hwd⟩ := wfDoc3_get post e ds k d L hwf hk
  have hlen := wfDef3_gaps_length hwd
  have hget := linedObjs3_get ds [] 1 k d L hk
  refine ⟨linedWords3 ([] ++ beforeName3 ds k ++ d.1 ++ L.sp1 ++ ['=']) L.gaps d.2, hget,
    linedWords3_length d.2 L.gaps _ hlen, ?_⟩
  intro j w' hj
  obtain ⟨w, hw, e'⟩ := linedWords3_get d.2 L.gaps _ j w' hlen hj
  refine ⟨w, hw, ?_⟩
  rw [e', beforeWord3, hk]
  simp

/-! ### the extended grammar contains the grammar of Phil/Proofs/Layout.lean -/

theorem gapsOK3_chainOK (ws : List Word) : ∀ (gaps : List Gap) (first same : Bool),
    gapsOK3 first same gaps ws = true → chainOK same ws = true := by
  induction ws with
  | nil => intro _ _ _ _; rfl
  | cons w ws ih =>
    intro gaps first same h
    obtain ⟨g, gs, rfl, hg, hgs⟩ := gapsOK3_cons_right h
    rw [chainOK, Bool.and_eq_true]
    refine ⟨?_, ih gs _ _ hgs⟩
    unfold gapOK at hg
    rw [Bool.and_eq_true] at hg
    cases hb : g.bs with
    | none =>
      rw [hb] at hg
      simp only [Bool.and_eq_true, Bool.or_eq_true] at hg ⊢
      rcases hg.2.2 with h | h
      · exact Or.inl h
      · exact Or.inr h.1
    | some b =>
      rw [hb] at hg
      simp only [Bool.and_eq_true] at hg
      simp [hg.2.2]

def liftGaps (gs : List Str) : List Gap := gs.map (fun g => { ws := g })
def liftPre (p : Pre) : Pre3 := { lines := p.lines, ind := p.ind }
def liftLayout (L : DefLayout) : DefLayout3 :=
  { pre := liftPre L.pre, sp1 := L.sp1, gaps := liftGaps L.gaps, term := L.term }
def liftDoc (ds : List (DefSpec × DefLayout)) : List (DefSpec × DefLayout3) :=
  ds.map (fun x => (x.1, liftLayout x.2))

theorem wordsLay3_lift (ws : List Word) : ∀ (gs : List Str), wordsLay3 (liftGaps gs) ws = wordsLay gs ws := by
  induction ws with
  | nil => intro gs; cases gs <;> rfl
  | cons w ws ih =>
    intro gs
    cases gs with
    | nil => rfl
    | cons g gs =>
      have := ih gs
      simp only [liftGaps] at this
      simp [liftGaps, wordsLay3, wordsLay, Gap.text, this]

theorem liftPre_text (p : Pre) : (liftPre p).text = p.text := by
  simp [liftPre, Pre3.text, Pre.text, segsStr]

theorem render3_lift (ds : List (DefSpec × DefLayout)) (post : Pre) :
    render3 (liftDoc ds) (liftPre post) .eof = render ds post := by
  induction ds with
  | nil => simp [liftDoc, render3, render, liftPre_text, DocEnd.text]
  | cons x rest ih =>
    obtain ⟨d, L⟩ := x
    show render3 ((d, liftLayout L) :: liftDoc rest) (liftPre post) .eof = _
    rw [render3, render, ih]
    simp only [defText3, defText, liftLayout, liftPre_text, wordsLay3_lift]

theorem inlineB_allSpace {g : Str} (h : inlineB g = true) : allSpace g = true := by
  simp only [allSpace, List.all_eq_true]
  exact inlineB_space h

theorem gapsOK3_lift (ws : List Word) : ∀ (gs : List Str) (first same : Bool),
    gapsOK first gs ws = true → chainOK same ws = true → gapsOK3 first same (liftGaps gs) ws = true := by
  induction ws with
  | nil => intro gs first same h _; rw [gapsOK_nil_right h]; rfl
  | cons w ws ih =>
    intro gs first same h hc
    obtain ⟨g, gs', rfl, hg, hne, hgs⟩ := gapsOK_cons_right h
    rw [chainOK, Bool.and_eq_true] at hc
    have hrest := ih gs' false _ hgs hc.2
    simp only [liftGaps] at hrest
    simp only [liftGaps, List.map_cons, gapsOK3, Bool.and_eq_true]
    refine ⟨?_, hrest⟩
    simp only [gapOK, inlineB_allSpace hg, hg, Bool.true_and, Bool.and_true, Bool.and_eq_true,
      Bool.or_eq_true, Bool.not_eq_true', List.isEmpty_eq_false_iff]
    refine ⟨?_, ?_⟩
    · rcases hne with h | h
      · exact Or.inl h
      · exact Or.inr h
    · simpa using hc.1

theorem wfDoc3_lift (ds : List (DefSpec × DefLayout)) (post : Pre) (h : wfDoc ds post = true) :
    wfDoc3 (liftDoc ds) (liftPre post) .eof = true := by
  induction ds with
  | nil =>
    simp only [wfDoc, Pre.wf, Bool.and_eq_true] at h
    simp [liftDoc, wfDoc3, Pre3.wf, liftPre, DocEnd.wf, h.1, h.2]
  | cons x rest ih =>
    obtain ⟨d, L⟩ := x
    obtain ⟨hgd, hwd, heof, hwr⟩ := wfDoc_cons h
    have ih' := ih hwr
    simp only [liftDoc] at ih'
    simp only [goodDef, Bool.and_eq_true] at hgd
    simp only [wfDef, Bool.and_eq_true, Pre.wf] at hwd
    obtain ⟨⟨⟨⟨hpl, hpi⟩, hsp1⟩, hgaps⟩, hterm⟩ := hwd
    simp only [liftDoc, List.map_cons, wfDoc3, Bool.and_eq_true]
    refine ⟨⟨⟨?_, ?_⟩, ?_⟩, ih'⟩
    · simp [goodDef3, hgd.1.1.1, hgd.1.1.2, hgd.1.2]
    · simp only [wfDef3, liftLayout, Bool.and_eq_true]
      refine ⟨⟨⟨?_, hsp1⟩, gapsOK3_lift d.2 L.gaps true true hgaps hgd.2⟩, hterm⟩
      simp [Pre3.wf, liftPre, hpl, hpi]
    · cases ht : L.term with
      | eof =>
        obtain ⟨hr, hp⟩ := heof (by rw [ht]; rfl)
        subst hr
        simp [termOK3, liftLayout, ht, firstPre3, liftPre, hp, DocEnd.isCut]
      | nl tb => simp [termOK3, liftLayout, ht]
      | comment sb c => simp [termOK3, liftLayout, ht]
      | semi sb =>
        simp only [termOK3, liftLayout, ht, Pre3.lineFree, DocEnd.isCut, Bool.and_false]
        cases rest with
        | nil => simp [firstPre3, liftPre]
        | cons y more => simp [firstPre3, liftPre, liftLayout]

end Phil
