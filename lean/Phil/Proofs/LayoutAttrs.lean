/-
  Attributes inside the layout grammar (C02, C15): `.name = words` lines after a definition, `!` on an
  attribute, `!` on a definition that carries attributes; attribute lines between a scope's name and
  its `{`.

  Vocabulary (the flat layout vocabulary `Pre`, `FillLine`, `Terminator`, `DefLayout`, `defText`,
  `wfDef` is that of Phil/Proofs/Layout.lean; `bangText_l2`, `SafeHead_l2`,
  `collectAssigned_layout_l2` are those of Phil/Proofs/Layout2.lean):
    * `AItem`     — one item of a flat document: a definition `[!]name = words` or an attribute
                    assignment `[!].attr = words`, each with its own `DefLayout` (filler lines and
                    indentation in front, blanks around `=` and between the words, the terminator);
    * `renderA`   — the text; `wfDocA` — the decidable input class;
    * `parsedA`   — what `parse` returns (closed form by recursion over the items);
    * `ADef`, `flattenA`, `groupedObjs` — the same grouped by definition;
    * `treeC`     — the abstract tree (no ids, no lines) as a function of the *contents* only.
  Lemmas carry the suffix `_la`.
-/
import Phil.Proofs.Layout2
set_option linter.unusedSimpArgs false
set_option linter.unusedVariables false
namespace Phil

/-! ### flat documents with attributes: data -/

/-- the spelling of an attribute name in the text -/
def attrLead (n : String) : Str := '.' :: n.toList

/-- one item of a flat document with attributes -/
inductive AItem
  /-- `[!]name = words` -/
  | defn (d : DefSpec) (L : DefLayout) (b : Bool)
  /-- `[!].n = words` -/
  | attr (n : String) (ws : List Word) (L : DefLayout) (b : Bool)
  deriving Repr, DecidableEq

def AItem.lay : AItem → DefLayout
  | .defn _ L _ => L
  | .attr _ _ L _ => L

def AItem.bang : AItem → Bool
  | .defn _ _ b => b
  | .attr _ _ _ b => b

/-- head word and words of the item, as a `DefSpec` (so that `defText` renders both kinds) -/
def AItem.spec : AItem → DefSpec
  | .defn d _ _ => d
  | .attr n ws _ _ => (attrLead n, ws)

def AItem.isDefn : AItem → Bool
  | .defn .. => true
  | .attr .. => false

/-- the text of an item from its `!` (or first character of the head word) on -/
def AItem.body (x : AItem) : Str := bangText_l2 x.bang ++ defText x.spec x.lay

/-- the text of a flat document with attributes -/
def renderA : List AItem → Pre → Str
  | [], post => post.text
  | x :: rest, post => x.lay.pre.text ++ (x.body ++ renderA rest post)

/-- the value an attribute assignment gives (`definition.assign_attribute`), computed from the words
    without their source lines; `none` = the conversion raises -/
def attrValOf (n : String) (ws : List Word) : Option AttrVal :=
  (defAttrValue n (ws.map Word.erase)).toOption

/-- an attribute assignment the theorems are stated for: a known attribute name, a non-empty value of
    good words, and — unless the assignment is commented out by `!` — a value the converter accepts -/
def goodAttr (n : String) (ws : List Word) (b : Bool) : Bool :=
  defAttrNames.contains n && !ws.isEmpty && ws.all goodWord && chainOK true ws &&
    (b || (attrValOf n ws).isSome)

def AItem.wf : AItem → Bool
  | .defn d L _ => goodDef d && wfDef d L
  | .attr n ws L b => goodAttr n ws b && wfDef (attrLead n, ws) L

/-- every item good, every layout well formed, the end-of-text terminator only on the last item with
    nothing but blanks after it -/
def wfItems : List AItem → Pre → Bool
  | [], post => post.wf
  | x :: rest, post =>
    x.wf && (!x.lay.term.isEof || (rest.isEmpty && post.lines.isEmpty)) && wfItems rest post

/-- the first item (if any) is a definition -/
def startsDefn : List AItem → Bool
  | [] => true
  | x :: _ => x.isDefn

/-- the input class of the flat theorems -/
def wfDocA (xs : List AItem) (post : Pre) : Bool := wfItems xs post && startsDefn xs

/-- append one attribute assignment to an object -/
def Obj.addAttr (o : Obj) (n : String) (v : AttrVal) : Obj :=
  o.withMeta (fun m => { m with attrs := m.attrs ++ [(n, v)] })

/-- what an attribute item does to the active definition -/
def applyAttr (pending : Option Obj) (n : String) (ws : List Word) (b : Bool) : Option Obj :=
  if b then pending else pending.map (fun o => o.addAttr n ((attrValOf n ws).getD .none))

/-- **what the parser builds** from the items, by recursion over the items: `l` is the line on which
    the filler in front of the first item starts, `i` the next primary id, `pending` the active
    definition (it is emitted when the next definition starts or at the end) -/
def parsedA : Nat → Nat → Option Obj → List AItem → List Obj
  | _, _, pending, [] => pending.toList
  | l, i, pending, .defn d L b :: rest =>
    pending.toList ++
      parsedA (endLine (l + L.pre.lines.length) d.2 + nlCount L.term.text) (i + 1)
        (some (.defn { name := d.1, id := some i, disabled := b, line := some (l + L.pre.lines.length) }
          (reline (l + L.pre.lines.length) d.2))) rest
  | l, i, pending, .attr n ws L b :: rest =>
    parsedA (endLine (l + L.pre.lines.length) ws + nlCount L.term.text) i (applyAttr pending n ws b) rest

/-! ### grouped by definition -/

/-- one attribute assignment of a definition -/
structure AttrIt where
  n : String
  ws : List Word
  L : DefLayout
  b : Bool := false
  deriving Repr, DecidableEq

def AttrIt.item (t : AttrIt) : AItem := .attr t.n t.ws t.L t.b

/-- a definition with its attribute assignments -/
structure ADef where
  d : DefSpec
  L : DefLayout
  b : Bool := false
  attrs : List AttrIt := []
  deriving Repr, DecidableEq

def ADef.items (a : ADef) : List AItem := .defn a.d a.L a.b :: a.attrs.map AttrIt.item

def flattenA (ds : List ADef) : List AItem := ds.flatMap ADef.items

/-- the attribute list the assignments leave on the definition: the assignments not commented out,
    in order (the most recent last: `Attrs.get` reads the last one of a name) -/
def attrsOf : List AttrIt → Attrs
  | [] => []
  | t :: ts => (if t.b then [] else [(t.n, (attrValOf t.n t.ws).getD .none)]) ++ attrsOf ts

/-- the line on which the filler after the attribute assignments starts -/
def attrsEnd : Nat → List AttrIt → Nat
  | l, [] => l
  | l, t :: ts => attrsEnd (endLine (l + t.L.pre.lines.length) t.ws + nlCount t.L.term.text) ts

/-- the parsed document, one object per definition -/
def groupedObjs : Nat → Nat → List ADef → List Obj
  | _, _, [] => []
  | l, i, a :: rest =>
    .defn { name := a.d.1, id := some i, disabled := a.b, line := some (l + a.L.pre.lines.length),
            attrs := attrsOf a.attrs } (reline (l + a.L.pre.lines.length) a.d.2)
      :: groupedObjs
          (attrsEnd (endLine (l + a.L.pre.lines.length) a.d.2 + nlCount a.L.term.text) a.attrs)
          (i + 1) rest

/-! ### attribute values do not depend on the source lines of the words -/

theorem isPlainNone_erase_la (ws : List Word) : isPlainNone (ws.map Word.erase) = isPlainNone ws := by
  rcases ws with _ | ⟨w, _ | ⟨w', t⟩⟩ <;> simp [isPlainNone, Word.erase]

theorem isPlainAuto_erase_la (ws : List Word) : isPlainAuto (ws.map Word.erase) = isPlainAuto ws := by
  rcases ws with _ | ⟨w, _ | ⟨w', t⟩⟩ <;> simp [isPlainAuto, Word.erase]

theorem strFromWords_erase_la (ws : List Word) : strFromWords (ws.map Word.erase) = strFromWords ws := by
  unfold strFromWords
  rw [isPlainNone_erase_la, isPlainAuto_erase_la, List.map_map]
  rfl

theorem toOption_error_la {α : Type} (e : Err) : (Except.error e : R α).toOption = none := rfl

theorem boolFromWords_erase_la (ws : List Word) :
    (boolFromWords (ws.map Word.erase)).toOption = (boolFromWords ws).toOption := by
  unfold boolFromWords
  rw [strFromWords_erase_la]
  cases strFromWords ws <;> try rfl
  simp only []
  split
  · rfl
  · split
    · rfl
    · split <;> split <;> rfl

theorem intFromWordsLit_erase_la (ws : List Word) :
    (intFromWordsLit (ws.map Word.erase)).toOption = (intFromWordsLit ws).toOption := by
  unfold intFromWordsLit
  rw [strFromWords_erase_la]
  cases strFromWords ws <;> try rfl
  simp only []
  split
  · rfl
  · rfl

theorem convFromExpr_line_la (e : Str) (l l' : Option Nat) :
    (convFromExpr e l).toOption = (convFromExpr e l').toOption := by
  unfold convFromExpr
  split
  · rfl
  · dsimp only
    repeat' split
    all_goals first | rfl | skip

theorem toOption_map_la {α β : Type} (f : α → β) (x : R α) : (x.map f).toOption = x.toOption.map f := by
  cases x <;> rfl

theorem toOption_some_la {α : Type} {x : R α} {v : α} (h : x.toOption = some v) : x = .ok v := by
  cases x with
  | error e => cases h
  | ok a => simp only [Except.toOption, Option.some.injEq] at h; rw [h]

/-- `definition.assign_attribute` gives the same value (if any) whatever lines the words carry; only
    the line cited in an error message depends on them -/
theorem defAttrValue_erase_la (n : String) (ws : List Word) :
    (defAttrValue n (ws.map Word.erase)).toOption = (defAttrValue n ws).toOption := by
  unfold defAttrValue
  split
  · exact boolFromWords_erase_la ws
  · split
    · rw [isPlainNone_erase_la, isPlainAuto_erase_la, strFromWords_erase_la]
      split
      · rfl
      · split
        · rfl
        · cases strFromWords ws <;> try rfl
          simp only [toOption_map_la]
          rw [convFromExpr_line_la]
    · split
      · exact intFromWordsLit_erase_la ws
      · rw [strFromWords_erase_la]

/-- the parser's conversion of the words it collected (they carry their lines) gives the value of
    the specification -/
theorem defAttrValue_reline_la (n : String) (ws : List Word) (l : Nat) (v : AttrVal)
    (h : attrValOf n ws = some v) : defAttrValue n (reline l ws) = .ok v := by
  apply toOption_some_la
  rw [← defAttrValue_erase_la, reline_erase]
  exact h


/-! ### the structure tokenizer on `[!].name`; one turn of `collect_objects` for an attribute -/

theorem defAttrNames_chars_la : ∀ n ∈ defAttrNames, ∀ d ∈ n.toList, isIdCont d = true := by
  decide +kernel

theorem nextWordAux_bang_attr_la (b : Bool) (n : String) (rest : Str) (l : Nat)
    (hn : defAttrNames.contains n = true) (hstop : stopsAt structSettings rest = true) :
    nextWordAux structSettings false (bangText_l2 b ++ (attrLead n ++ rest)) l
      = .ok (some ({ value := bangText_l2 b ++ attrLead n, quote := none, line := some l }, ⟨rest, l⟩)) := by
  have hch := defAttrNames_chars_la n (by simpa using hn)
  cases b with
  | false =>
    have := nextWordAux_plain structSettings '.' n.toList rest l (by rfl) (by rfl) (by rfl) (by rfl)
      (fun x hx => idCont_not_ends (hch x hx)) hstop
    simpa [bangText_l2, attrLead] using this
  | true =>
    have := nextWordAux_plain structSettings '!' ('.' :: n.toList) rest l ends_bang_l2 (by rfl) (by rfl)
      (by rfl)
      (fun x hx => by
        rcases List.mem_cons.mp hx with rfl | hx
        · rfl
        · exact idCont_not_ends (hch x hx)) hstop
    simpa [bangText_l2, attrLead] using this

/-- One turn of `collect_objects` for `[!].n = value…` while a definition is active: the assignment is
    read; without `!` the converted value is appended to the attributes of the active definition, with
    `!` nothing changes.  No id is consumed and nothing is flushed. -/
theorem collectObjects_attr_step_la (fuel : Nat) (st : PState) (stop : Option Word) (prevLine : Nat)
    (acc : List Obj) (d : Obj) (lead eq : Word) (ci1 ci2 ci4 : CI) (ws : List Word)
    (n : String) (b : Bool) (v : AttrVal)
    (h1 : nextWord structSettings st.ci = .ok (some (lead, ci1)))
    (hlq : lead.quote = none) (hv : lead.value = bangText_l2 b ++ attrLead n)
    (hn : defAttrNames.contains n = true)
    (h2 : nextWord structSettings ci1 = .ok (some (eq, ci2)))
    (heq : eq.quote = none) (heqv : eq.value = ['='])
    (h3 : collectAssigned ci2 { lead with value := attrLead n } = .ok (ws, ci4))
    (hval : b = false → defAttrValue n ws = .ok v) :
    collectObjects (fuel + 1) st stop prevLine acc (some d)
      = collectObjects fuel { st with ci := ci4 } stop (lead.line.getD 0) acc
          (if b then some d else some (d.addAttr n v)) := by
  have e1 := tryPopUnquoted_of_next h1 hlq
  have e2 := pop_of_next h2
  have e3 := popUnquoted_of_next h2 heq
  have hofl : String.ofList n.toList = n := by simp
  have hn' : n ∈ defAttrNames := by simpa using hn
  cases b with
  | true =>
    have hv' : lead.value = '!' :: attrLead n := by simpa [bangText_l2] using hv
    have hsb := stripBang_bang_l2 lead (attrLead n) hv'
    have b1 : ¬ lead.value = ['#', 'p', 'h', 'i', 'l'] := by rw [hv']; simp
    have b2 : ¬ lead.value = ['}'] := by rw [hv']; simp
    have b3 : ¬ lead.value = ['{'] := by rw [hv']; simp
    simp only [attrLead] at h3
    cases stop <;>
      simp [collectObjects, e1, e2, e3, b1, b2, b3, hsb, heq, heqv, h3, attrLead, hn', hofl]
  | false =>
    have hv' : lead.value = attrLead n := by simpa [bangText_l2] using hv
    have hsb := stripBang_of_not_bang lead (by rw [hv']; simp [attrLead])
    have hl : ({ lead with value := attrLead n } : Word) = lead := by
      cases lead; simp only [Word.mk.injEq] at hv' ⊢; simp [hv']
    rw [hl] at h3
    have b1 : ¬ lead.value = ['#', 'p', 'h', 'i', 'l'] := by rw [hv']; simp [attrLead]
    have b2 : ¬ lead.value = ['}'] := by rw [hv']; simp [attrLead]
    have b3 : ¬ lead.value = ['{'] := by rw [hv']; simp [attrLead]
    have hval' := hval rfl
    simp only [attrLead] at hv'
    cases stop <;>
      simp [collectObjects, e1, e2, e3, b1, b2, b3, hsb, heq, heqv, h3, hv', attrLead, hn', hofl, hval',
        Obj.addAttr]


/-- **One turn of `collect_objects` for an attribute assignment under a layout**, with or without `!`
    (compare `defn_turn_l2`): the structure tokenizer is (as good as) at the blanks `ind` in front of
    `[!].n`, on line `l0`; after the assignment come filler lines `ls`, blanks `ind'` and the next
    construct `X`.  The active definition gets the value (or, with `!`, stays as it is). -/
theorem attr_turn_la (n : String) (ws : List Word) (L : DefLayout) (b : Bool) (ind : Str)
    (ls : List FillLine) (ind' X : Str) (hga : goodAttr n ws b = true) (hind : inlineB ind = true)
    (hsp1 : inlineB L.sp1 = true) (hgaps : gapsOK true L.gaps ws = true) (hterm : L.term.wf = true)
    (hls : ls.all FillLine.wf = true) (hind' : inlineB ind' = true) (hX : SafeHead_l2 X)
    (heof : L.term.isEof = true → ls = [] ∧ EofHead_l2 X)
    (fuel : Nat) (st : PState) (stop : Option Word) (prevLine : Nat) (acc : List Obj) (d : Obj) (l0 : Nat)
    (hci : nextWord structSettings st.ci
      = nextWordAux structSettings false
          (ind ++ (bangText_l2 b ++ (defText (attrLead n, ws) L ++ (linesStr ls ++ (ind' ++ X))))) l0) :
    ∃ ci4, collectObjects (fuel + 1) st stop prevLine acc (some d)
        = collectObjects fuel { ci := ci4, nextId := st.nextId } stop l0 acc (applyAttr (some d) n ws b) ∧
      nextWord structSettings ci4
        = nextWordAux structSettings false (ind' ++ X)
            (endLine l0 ws + nlCount L.term.text + ls.length) := by
  simp only [goodAttr, Bool.and_eq_true, Bool.not_eq_true', List.isEmpty_eq_false_iff,
    List.all_eq_true, Bool.or_eq_true] at hga
  obtain ⟨⟨⟨⟨hn, hne⟩, hgood⟩, hchain⟩, hval⟩ := hga
  have h1 : nextWord structSettings st.ci
      = .ok (some ({ value := bangText_l2 b ++ attrLead n, quote := none, line := some l0 },
          ⟨L.sp1 ++ '=' :: (wordsLay L.gaps ws ++ (L.term.text ++ (linesStr ls ++ (ind' ++ X)))), l0⟩)) := by
    rw [hci, nextWordAux_skip structSettings _ _ (inlineB_space hind), inlineB_nl hind, Nat.add_zero]
    have := nextWordAux_bang_attr_la b n
      (L.sp1 ++ '=' :: (wordsLay L.gaps ws ++ (L.term.text ++ (linesStr ls ++ (ind' ++ X))))) l0 hn
      (stopsAt_space_append _ _ _ (inlineB_space hsp1) (by rfl))
    simpa [defText] using this
  have h2 := nextWord_struct_eq L.sp1 (wordsLay L.gaps ws ++ (L.term.text ++ (linesStr ls ++ (ind' ++ X))))
    l0 (inlineB_space hsp1)
  rw [inlineB_nl hsp1, Nat.add_zero] at h2
  obtain ⟨ci4, h3, h4⟩ := collectAssigned_layout_l2 ws L.gaps L.term ls ind' X l0
    { value := attrLead n, quote := none, line := some l0 }
    hne hgood hchain hgaps hterm hls hind' hX heof rfl (by rw [isUnq_backslash]; simp [attrLead])
  refine ⟨ci4, ?_, h4⟩
  have hv : b = false → defAttrValue n (reline l0 ws) = .ok ((attrValOf n ws).getD .none) := by
    intro hb
    rcases hval with hval | hval
    · rw [hb] at hval; cases hval
    · obtain ⟨v, hv⟩ := Option.isSome_iff_exists.mp hval
      rw [hv]
      exact defAttrValue_reline_la n ws l0 v hv
  rw [collectObjects_attr_step_la fuel st stop prevLine acc d _ _ _ _ ci4 (reline l0 ws) n b
    ((attrValOf n ws).getD .none) h1 rfl rfl hn h2 rfl rfl h3 hv]
  cases b <;> rfl

/-! ### the loop of `collect_objects` over a flat document with attributes -/

/-- the filler in front of the first item (or, without items, the whole rest) -/
def firstPreA : List AItem → Pre → Pre
  | [], post => post
  | x :: _, _ => x.lay.pre

/-- the text from the first item on -/
def afterPreA : List AItem → Pre → Str
  | [], _ => []
  | x :: rest, post => x.body ++ renderA rest post

theorem renderA_split_la (xs : List AItem) (post : Pre) :
    renderA xs post
      = linesStr (firstPreA xs post).lines ++ ((firstPreA xs post).ind ++ afterPreA xs post) := by
  cases xs with
  | nil => simp [renderA, firstPreA, afterPreA, Pre.text]
  | cons x rest => simp [renderA, firstPreA, afterPreA, Pre.text]

theorem wfItems_cons_la {x : AItem} {rest : List AItem} {post : Pre}
    (h : wfItems (x :: rest) post = true) :
    x.wf = true ∧ (x.lay.term.isEof = true → rest = [] ∧ post.lines = []) ∧ wfItems rest post = true := by
  simp only [wfItems, Bool.and_eq_true, Bool.or_eq_true, Bool.not_eq_true', List.isEmpty_iff] at h
  obtain ⟨⟨h1, h3⟩, h4⟩ := h
  refine ⟨h1, ?_, h4⟩
  intro he
  rcases h3 with h3 | h3
  · rw [he] at h3; cases h3
  · exact h3

theorem AItem.wf_lay_la {x : AItem} (h : x.wf = true) : wfDef x.spec x.lay = true := by
  cases x with
  | defn d L b => simp only [AItem.wf, Bool.and_eq_true] at h; exact h.2
  | attr n ws L b => simp only [AItem.wf, Bool.and_eq_true] at h; exact h.2

theorem wfItems_firstPre_la {xs : List AItem} {post : Pre} (h : wfItems xs post = true) :
    (firstPreA xs post).wf = true := by
  cases xs with
  | nil => exact h
  | cons x rest =>
    obtain ⟨h1, _, _⟩ := wfItems_cons_la h
    have := AItem.wf_lay_la h1
    simp only [wfDef, Bool.and_eq_true] at this
    exact this.1.1.1

theorem safeHead_afterPreA_la {xs : List AItem} {post : Pre} (h : wfItems xs post = true) :
    SafeHead_l2 (afterPreA xs post) := by
  cases xs with
  | nil => exact SafeHead_nil_l2
  | cons x rest =>
    obtain ⟨h1, _, _⟩ := wfItems_cons_la h
    cases x with
    | defn d L b =>
      cases b with
      | true => exact SafeHead_bang_l2 _
      | false =>
        simp only [AItem.wf, Bool.and_eq_true] at h1
        obtain ⟨c0, w, e, hs, _, _, _⟩ := goodName_cases (goodDef_good h1.1).1
        apply SafeHead_of_NameHead_l2
        intro c t ec
        simp only [afterPreA, AItem.body, AItem.bang, AItem.spec, AItem.lay, bangText_l2, defText, e,
          List.nil_append, List.cons_append, List.cons.injEq] at ec
        rw [← ec.1]
        exact idStart_cont hs
    | attr n ws L b =>
      cases b with
      | true => exact SafeHead_bang_l2 _
      | false =>
        apply SafeHead_of_NameHead_l2
        intro c t ec
        simp only [afterPreA, AItem.body, AItem.bang, AItem.spec, AItem.lay, bangText_l2, defText,
          attrLead, List.nil_append, List.cons_append, List.cons.injEq] at ec
        rw [← ec.1]
        rfl

/-- the active definition, if any, has an undotted name; without one the items start with a definition -/
def PendOK_la (pending : Option Obj) (xs : List AItem) : Prop :=
  match pending with
  | none => startsDefn xs = true
  | some o => '.' ∉ o.name

theorem flush_pendOK_la (acc : List Obj) (pending : Option Obj) (xs : List AItem)
    (h : PendOK_la pending xs) : flush acc pending = acc ++ pending.toList := by
  cases pending with
  | none => simp [flush]
  | some o => rw [flush_some_undotted acc o h]; rfl

theorem collectObjects_itemsA_la (post : Pre) :
    ∀ (xs : List AItem) (fuel : Nat) (st : PState) (l prevLine : Nat) (acc : List Obj)
      (pending : Option Obj),
      wfItems xs post = true → PendOK_la pending xs → xs.length + 1 ≤ fuel →
      nextWord structSettings st.ci
        = nextWordAux structSettings false ((firstPreA xs post).ind ++ afterPreA xs post)
            (l + (firstPreA xs post).lines.length) →
      ∃ st', collectObjects fuel st none prevLine acc pending
        = .ok (acc ++ parsedA l st.nextId pending xs, st') := by
  intro xs
  induction xs with
  | nil =>
    intro fuel st l prevLine acc pending hwf hp hf hci
    obtain ⟨f, rfl⟩ : ∃ f, fuel = f + 1 := ⟨fuel - 1, by simp at hf; omega⟩
    refine ⟨st, ?_⟩
    simp only [wfItems, Pre.wf, Bool.and_eq_true] at hwf
    rw [collectObjects_end f st prevLine acc pending (by
      rw [hci]
      simp only [firstPreA, afterPreA, List.append_nil]
      exact nextWordAux_blank_eof structSettings _ _ (inlineB_space hwf.2)),
      flush_pendOK_la acc pending [] hp]
    rfl
  | cons x rest ih =>
    intro fuel st l prevLine acc pending hwf hp hf hci
    obtain ⟨f, rfl⟩ : ∃ f, fuel = f + 1 := ⟨fuel - 1, by simp at hf; omega⟩
    have hf' : rest.length + 1 ≤ f := by simp at hf; omega
    obtain ⟨hx, heof, hwr⟩ := wfItems_cons_la hwf
    have hpre' := wfItems_firstPre_la hwr
    simp only [Pre.wf, Bool.and_eq_true] at hpre'
    have heof' : x.lay.term.isEof = true →
        (firstPreA rest post).lines = [] ∧ EofHead_l2 (afterPreA rest post) := by
      intro he
      obtain ⟨hr, hpl⟩ := heof he
      subst hr
      exact ⟨by simp [firstPreA, hpl], Or.inl rfl⟩
    have hci' : nextWord structSettings st.ci
        = nextWordAux structSettings false
            (x.lay.pre.ind ++ (bangText_l2 x.bang ++ (defText x.spec x.lay ++
              (linesStr (firstPreA rest post).lines ++ ((firstPreA rest post).ind ++ afterPreA rest post)))))
            (l + x.lay.pre.lines.length) := by
      rw [hci, ← renderA_split_la rest post]
      simp [firstPreA, afterPreA, AItem.body]
    have hwd := AItem.wf_lay_la hx
    simp only [wfDef, Bool.and_eq_true, Pre.wf] at hwd
    obtain ⟨⟨⟨⟨_, hpi⟩, hsp1⟩, hgaps⟩, hterm⟩ := hwd
    cases x with
    | defn d L b =>
      simp only [AItem.wf, Bool.and_eq_true] at hx
      obtain ⟨hgd, _⟩ := hx
      obtain ⟨hname, _, _, _⟩ := goodDef_good hgd
      obtain ⟨_, _, _, _, _, _, hdot⟩ := goodName_cases hname
      obtain ⟨ci4, hstep, hnext⟩ := defn_turn_l2 d L b L.pre.ind (firstPreA rest post).lines
        (firstPreA rest post).ind (afterPreA rest post) (goodName_item_l2 hname)
        (goodDef_good hgd).2.1 (goodDef_good hgd).2.2.1 (goodDef_good hgd).2.2.2 hpi hsp1 hgaps hterm
        hpre'.1 hpre'.2 (safeHead_afterPreA_la hwr) heof'
        f st none prevLine acc pending (l + L.pre.lines.length) hci'
      obtain ⟨st', hih⟩ := ih f { ci := ci4, nextId := st.nextId + 1 }
        (endLine (l + L.pre.lines.length) d.2 + nlCount L.term.text)
        (l + L.pre.lines.length) (flush acc pending)
        (some (.defn { name := d.1, id := some st.nextId, disabled := b,
                       line := some (l + L.pre.lines.length) } (reline (l + L.pre.lines.length) d.2)))
        hwr hdot hf' hnext
      refine ⟨st', ?_⟩
      rw [hstep, hih, flush_pendOK_la acc pending _ hp]
      simp [parsedA]
    | attr n ws L b =>
      cases pending with
      | none => simp [PendOK_la, startsDefn, AItem.isDefn] at hp
      | some o =>
        simp only [AItem.wf, Bool.and_eq_true] at hx
        obtain ⟨hga, _⟩ := hx
        obtain ⟨ci4, hstep, hnext⟩ := attr_turn_la n ws L b L.pre.ind (firstPreA rest post).lines
          (firstPreA rest post).ind (afterPreA rest post) hga hpi hsp1 hgaps hterm
          hpre'.1 hpre'.2 (safeHead_afterPreA_la hwr) heof'
          f st none prevLine acc o (l + L.pre.lines.length) hci'
        have hp' : PendOK_la (applyAttr (some o) n ws b) rest := by
          cases b with
          | true => exact hp
          | false =>
            simp only [applyAttr, Bool.false_eq_true, ↓reduceIte, Option.map_some, PendOK_la]
            have : (o.addAttr n ((attrValOf n ws).getD .none)).name = o.name := by
              cases o <;> rfl
            rw [this]; exact hp
        obtain ⟨st', hih⟩ := ih f { ci := ci4, nextId := st.nextId }
          (endLine (l + L.pre.lines.length) ws + nlCount L.term.text)
          (l + L.pre.lines.length) acc (applyAttr (some o) n ws b) hwr hp' hf' hnext
        refine ⟨st', ?_⟩
        rw [hstep, hih]
        simp [parsedA]

theorem renderA_length_ge_la (post : Pre) (xs : List AItem) : xs.length ≤ (renderA xs post).length := by
  induction xs with
  | nil => simp
  | cons x rest ih =>
    simp only [renderA, AItem.body, defText, List.length_cons, List.length_append]; omega

/-- **`parse` of a laid-out flat document with attributes** -/
theorem parseObjs_renderA_la (xs : List AItem) (post : Pre) (h : wfDocA xs post = true) :
    parseObjs (renderA xs post) = .ok (parsedA 1 1 none xs) := by
  simp only [wfDocA, Bool.and_eq_true] at h
  have hlen : xs.length + 1 ≤ (renderA xs post).length + 2 := by
    have := renderA_length_ge_la post xs; omega
  have hpre := wfItems_firstPre_la h.1
  simp only [Pre.wf, Bool.and_eq_true] at hpre
  obtain ⟨st', hst⟩ := collectObjects_itemsA_la post xs _ { ci := ⟨renderA xs post, 1⟩, nextId := 1 } 1 0 []
    none h.1 h.2 hlen (by
      unfold nextWord
      simp only []
      rw [renderA_split_la, struct_skip_lines _ hpre.1])
  unfold parseObjs
  rw [hst]
  simp


/-! ### grouped by definition -/

/-- append attribute assignments to an object -/
def Obj.addAttrs (o : Obj) (as : Attrs) : Obj := o.withMeta (fun m => { m with attrs := m.attrs ++ as })

theorem addAttrs_nil_la (o : Obj) : o.addAttrs [] = o := by
  cases o <;> simp [Obj.addAttrs, Obj.withMeta]

theorem addAttrs_addAttrs_la (o : Obj) (a b : Attrs) : (o.addAttrs a).addAttrs b = o.addAttrs (a ++ b) := by
  cases o <;> simp [Obj.addAttrs, Obj.withMeta]

theorem addAttr_eq_addAttrs_la (o : Obj) (n : String) (v : AttrVal) : o.addAttr n v = o.addAttrs [(n, v)] := rfl

/-- the attribute items that follow a definition, in one step -/
theorem parsedA_attrs_la (ts : List AttrIt) (rest : List AItem) : ∀ (l i : Nat) (o : Obj),
    parsedA l i (some o) (ts.map AttrIt.item ++ rest)
      = parsedA (attrsEnd l ts) i (some (o.addAttrs (attrsOf ts))) rest := by
  induction ts with
  | nil => intro l i o; simp [attrsEnd, attrsOf, addAttrs_nil_la]
  | cons t ts ih =>
    intro l i o
    simp only [List.map_cons, List.cons_append, AttrIt.item, parsedA]
    cases hb : t.b with
    | true =>
      simp only [applyAttr, ↓reduceIte]
      have := ih (endLine (l + t.L.pre.lines.length) t.ws + nlCount t.L.term.text) i o
      rw [this]
      simp [attrsEnd, attrsOf, hb]
    | false =>
      simp only [applyAttr, Bool.false_eq_true, ↓reduceIte, Option.map_some]
      have := ih (endLine (l + t.L.pre.lines.length) t.ws + nlCount t.L.term.text) i
        (o.addAttr t.n ((attrValOf t.n t.ws).getD .none))
      rw [this, addAttr_eq_addAttrs_la, addAttrs_addAttrs_la]
      simp [attrsEnd, attrsOf, hb]

theorem parsedA_flatten_la (ds : List ADef) : ∀ (l i : Nat) (pending : Option Obj),
    parsedA l i pending (flattenA ds) = pending.toList ++ groupedObjs l i ds := by
  induction ds with
  | nil => intro l i p; simp [flattenA, parsedA, groupedObjs]
  | cons a rest ih =>
    intro l i p
    have e : flattenA (a :: rest) = .defn a.d a.L a.b :: (a.attrs.map AttrIt.item ++ flattenA rest) := by
      simp [flattenA, ADef.items]
    rw [e, parsedA, parsedA_attrs_la, ih]
    simp [groupedObjs, Obj.addAttrs, Obj.withMeta]

theorem startsDefn_flatten_la (ds : List ADef) : startsDefn (flattenA ds) = true := by
  cases ds with
  | nil => rfl
  | cons a rest => simp [flattenA, ADef.items, startsDefn, AItem.isDefn]

/-- the input class, grouped -/
def wfDocG (ds : List ADef) (post : Pre) : Bool := wfItems (flattenA ds) post

/-- **`parse` of a laid-out flat document whose definitions carry attribute assignments** -/
theorem parseObjs_renderG_la (ds : List ADef) (post : Pre) (h : wfDocG ds post = true) :
    parseObjs (renderA (flattenA ds) post) = .ok (groupedObjs 1 1 ds) := by
  rw [parseObjs_renderA_la _ post (by simp [wfDocA, startsDefn_flatten_la]; exact h), parsedA_flatten_la]
  rfl

/-! ### the abstract tree: a function of the contents only -/

/-- what an item says, without any layout: kind, name, words (without lines), `!` -/
inductive AContent
  | defn (name : Str) (ws : List Word) (b : Bool)
  | attr (n : String) (ws : List Word) (b : Bool)
  deriving Repr, DecidableEq

def AItem.content : AItem → AContent
  | .defn d _ b => .defn d.1 (d.2.map Word.erase) b
  | .attr n ws _ b => .attr n (ws.map Word.erase) b

/-- the tree without ids and lines, from the contents -/
def treeC : Option Obj → List AContent → List Obj
  | p, [] => p.toList
  | p, .defn nm ws b :: rest => p.toList ++ treeC (some (.defn { name := nm, disabled := b } ws)) rest
  | p, .attr n ws b :: rest => treeC (applyAttr p n ws b) rest

theorem erase_erase_words_la (ws : List Word) : (ws.map Word.erase).map Word.erase = ws.map Word.erase := by
  rw [List.map_map]; rfl

theorem attrValOf_erase_la (n : String) (ws : List Word) : attrValOf n (ws.map Word.erase) = attrValOf n ws := by
  simp only [attrValOf, erase_erase_words_la]

theorem eraseList_append_la (a b : List Obj) : eraseList (a ++ b) = eraseList a ++ eraseList b := by
  simp [eraseList_eq_map]

theorem eraseList_toList_la (p : Option Obj) : eraseList p.toList = (p.map Obj.erase).toList := by
  cases p <;> simp [eraseList]

theorem applyAttr_erase_la (p : Option Obj) (n : String) (ws : List Word) (b : Bool) :
    (applyAttr p n ws b).map Obj.erase = applyAttr (p.map Obj.erase) n (ws.map Word.erase) b := by
  cases b with
  | true => rfl
  | false =>
    cases p with
    | none => rfl
    | some o =>
      simp only [applyAttr, Bool.false_eq_true, ↓reduceIte, Option.map_some, attrValOf_erase_la]
      cases o <;> simp [Obj.addAttr, Obj.withMeta, Obj.erase, Meta.erase]

theorem parsedA_erase_la (xs : List AItem) : ∀ (l i : Nat) (p : Option Obj),
    eraseList (parsedA l i p xs) = treeC (p.map Obj.erase) (xs.map AItem.content) := by
  induction xs with
  | nil => intro l i p; simp [parsedA, treeC, eraseList_toList_la]
  | cons x rest ih =>
    intro l i p
    cases x with
    | defn d L b =>
      simp only [parsedA, List.map_cons, AItem.content, treeC, eraseList_append_la, eraseList_toList_la, ih]
      simp [Obj.erase, Meta.erase, reline_erase]
    | attr n ws L b =>
      simp only [parsedA, List.map_cons, AItem.content, treeC, ih, applyAttr_erase_la]

/-- a commented-out attribute assignment contributes nothing to the abstract tree -/
theorem treeC_drop_bang_attr_la (n : String) (ws : List Word) (cs2 : List AContent) :
    ∀ (cs1 : List AContent) (p : Option Obj),
      treeC p (cs1 ++ .attr n ws true :: cs2) = treeC p (cs1 ++ cs2) := by
  intro cs1
  induction cs1 with
  | nil => intro p; simp [treeC, applyAttr]
  | cons c cs ih =>
    intro p
    cases c with
    | defn nm ws' b => simp only [List.cons_append, treeC, ih]
    | attr n' ws' b => simp only [List.cons_append, treeC, ih]

/-! ### reading an attribute: the last assignment wins -/

theorem attrs_get_append_one_la (a : Attrs) (n n' : String) (v : AttrVal) :
    Attrs.get (a ++ [(n, v)]) n' = if n = n' then v else Attrs.get a n' := by
  unfold Attrs.get
  simp only [List.reverse_append, List.reverse_cons, List.reverse_nil, List.nil_append,
    List.singleton_append, List.find?_cons]
  by_cases h : n = n'
  · simp [h]
  · have : (n == n') = false := by simpa using h
    simp [this, h]

theorem attrs_get_append_la (a b : Attrs) (n : String) (hb : ∀ p ∈ b, p.1 ≠ n) :
    Attrs.get (a ++ b) n = Attrs.get a n := by
  induction b generalizing a with
  | nil => simp
  | cons p bs ih =>
    obtain ⟨m, v⟩ := p
    have e : a ++ (m, v) :: bs = (a ++ [(m, v)]) ++ bs := by simp
    rw [e, ih (a ++ [(m, v)]) (fun q hq => hb q (by simp [hq])), attrs_get_append_one_la]
    have hm : m ≠ n := hb (m, v) (by simp)
    simp only [hm, ↓reduceIte]


/-! ### `!` on definitions and on attributes, grouped form -/

def ADef.unbang (a : ADef) : ADef := { a with b := false }
def AttrIt.unbang (t : AttrIt) : AttrIt := { t with b := false }
def ADef.unbangAttrs (a : ADef) : ADef := { a with attrs := a.attrs.map AttrIt.unbang }

/-- an object without its attribute assignments -/
def Obj.noAttrs (o : Obj) : Obj := o.withMeta (fun m => { m with attrs := [] })

/-- `!` on definitions only sets `disabled`: ids, lines, words and the attribute assignments that
    follow are those of the document without these `!` -/
theorem groupedObjs_flags_la (ds : List ADef) : ∀ l i,
    groupedObjs l i ds = setFlags_l2 (ds.map (·.b)) (groupedObjs l i (ds.map ADef.unbang)) := by
  induction ds with
  | nil => intro l i; rfl
  | cons a rest ih =>
    intro l i
    simp only [List.map_cons, groupedObjs, setFlags_l2, ADef.unbang]
    rw [ih]
    simp [Obj.setDisabled_l2, Obj.withMeta, ADef.unbang]

theorem attrsEnd_unbang_la (ts : List AttrIt) : ∀ l, attrsEnd l (ts.map AttrIt.unbang) = attrsEnd l ts := by
  induction ts with
  | nil => intro l; rfl
  | cons t ts ih => intro l; simp only [List.map_cons, attrsEnd, AttrIt.unbang, ih]

/-- `!` on attribute assignments changes nothing but the attribute lists -/
theorem groupedObjs_noAttrs_la (ds : List ADef) : ∀ l i,
    (groupedObjs l i ds).map Obj.noAttrs = (groupedObjs l i (ds.map ADef.unbangAttrs)).map Obj.noAttrs := by
  induction ds with
  | nil => intro l i; rfl
  | cons a rest ih =>
    intro l i
    simp only [List.map_cons, groupedObjs, ADef.unbangAttrs, attrsEnd_unbang_la]
    rw [ih]
    simp [Obj.noAttrs, Obj.withMeta, ADef.unbangAttrs]

theorem attrsOf_append_la (ts1 ts2 : List AttrIt) : attrsOf (ts1 ++ ts2) = attrsOf ts1 ++ attrsOf ts2 := by
  induction ts1 with
  | nil => rfl
  | cons t ts ih => simp [attrsOf, ih]

theorem groupedObjs_length_la (ds : List ADef) : ∀ l i, (groupedObjs l i ds).length = ds.length := by
  induction ds with
  | nil => intro l i; rfl
  | cons a rest ih => intro l i; simp [groupedObjs, ih]

/-! ### well-formedness of parts -/

theorem wfItems_append_la (xs ys : List AItem) (post : Pre) (h : wfItems (xs ++ ys) post = true) :
    (∀ x ∈ xs, x.wf = true) ∧ wfItems ys post = true := by
  induction xs with
  | nil => exact ⟨by intro x hx; simp at hx, h⟩
  | cons x xs ih =>
    obtain ⟨h1, _, h3⟩ := wfItems_cons_la (show wfItems (x :: (xs ++ ys)) post = true from h)
    obtain ⟨h4, h5⟩ := ih h3
    refine ⟨?_, h5⟩
    intro y hy
    rcases List.mem_cons.mp hy with rfl | hy
    · exact h1
    · exact h4 y hy

theorem wfDocG_cons_la {a : ADef} {rest : List ADef} {post : Pre} (h : wfDocG (a :: rest) post = true) :
    goodDef a.d = true ∧ wfDef a.d a.L = true ∧ (∀ t ∈ a.attrs, t.item.wf = true) ∧
      wfDocG rest post = true := by
  have e : flattenA (a :: rest) = (.defn a.d a.L a.b :: a.attrs.map AttrIt.item) ++ flattenA rest := by
    simp [flattenA, ADef.items]
  unfold wfDocG at h
  rw [e] at h
  obtain ⟨h1, h2⟩ := wfItems_append_la _ _ post h
  have hd := h1 (.defn a.d a.L a.b) (by simp)
  simp only [AItem.wf, Bool.and_eq_true] at hd
  refine ⟨hd.1, hd.2, ?_, h2⟩
  intro t ht
  exact h1 t.item (by simp; exact Or.inr ⟨t, ht, rfl⟩)

/-! ### source lines in terms of the text in front -/

theorem attrLead_nlCount_la {n : String} (hn : defAttrNames.contains n = true) : nlCount (attrLead n) = 0 := by
  have hch := defAttrNames_chars_la n (by simpa using hn)
  apply nlCount_of_no_nl
  intro d hd
  rcases List.mem_cons.mp hd with rfl | hd
  · decide
  · exact ne_nl_of_not_space (idCont_not_space (hch d hd))

theorem AItem.spec_nlCount_la {x : AItem} (h : x.wf = true) : nlCount x.spec.1 = 0 := by
  cases x with
  | defn d L b =>
    simp only [AItem.wf, Bool.and_eq_true] at h
    exact goodName_nlCount (goodDef_good h.1).1
  | attr n ws L b =>
    simp only [AItem.wf, goodAttr, Bool.and_eq_true] at h
    exact attrLead_nlCount_la h.1.1.1.1.1

/-- the line after an item is the line in front of it plus the newlines of its text -/
theorem item_endLine_la (x : AItem) (hx : x.wf = true) (l : Nat) :
    endLine (l + x.lay.pre.lines.length) x.spec.2 + nlCount x.lay.term.text
      = l + nlCount (x.lay.pre.text ++ x.body) := by
  have hwd := AItem.wf_lay_la hx
  simp only [wfDef, Bool.and_eq_true] at hwd
  obtain ⟨⟨⟨hpre, hsp1⟩, hgaps⟩, _⟩ := hwd
  have heq : '=' ≠ '\n' := by decide
  rw [endLine_eq, AItem.body, defText]
  simp only [nlCount_append, nlCount_cons_ne '=' _ heq]
  rw [nlCount_wordsLay x.spec.2 x.lay.gaps true hgaps, AItem.spec_nlCount_la hx, inlineB_nl hsp1,
    nlCount_pre _ hpre, nlCount_bang_l2]
  omega

/-- the text of the attribute assignments of a definition -/
def attrsText : List AttrIt → Str
  | [] => []
  | t :: ts => t.L.pre.text ++ (t.item.body ++ attrsText ts)

/-- the text of a definition with its attribute assignments -/
def ADef.text (a : ADef) : Str :=
  a.L.pre.text ++ (bangText_l2 a.b ++ (defText a.d a.L ++ attrsText a.attrs))

theorem renderA_attrs_la (ts : List AttrIt) (rest : List AItem) (post : Pre) :
    renderA (ts.map AttrIt.item ++ rest) post = attrsText ts ++ renderA rest post := by
  induction ts with
  | nil => rfl
  | cons t ts ih =>
    simp only [List.map_cons, List.cons_append, renderA, attrsText, ih, List.append_assoc]
    rfl

theorem renderA_flatten_cons_la (a : ADef) (rest : List ADef) (post : Pre) :
    renderA (flattenA (a :: rest)) post = a.text ++ renderA (flattenA rest) post := by
  have e : flattenA (a :: rest) = .defn a.d a.L a.b :: (a.attrs.map AttrIt.item ++ flattenA rest) := by
    simp [flattenA, ADef.items]
  rw [e, renderA, renderA_attrs_la]
  simp [ADef.text, AItem.body, AItem.lay, AItem.bang, AItem.spec]

theorem attrsEnd_eq_la (ts : List AttrIt) (h : ∀ t ∈ ts, t.item.wf = true) :
    ∀ l, attrsEnd l ts = l + nlCount (attrsText ts) := by
  induction ts with
  | nil => intro l; rfl
  | cons t ts ih =>
    intro l
    have ht := h t (by simp)
    have := item_endLine_la t.item ht l
    simp only [AttrIt.item, AItem.lay, AItem.spec] at this
    rw [attrsEnd, this, ih (fun u hu => h u (by simp [hu])), attrsText, nlCount_append, nlCount_append,
      nlCount_append]
    simp only [AttrIt.item]
    omega

/-- the definitions of a document with attributes, each with the line computed from the text in front
    of its name (or its `!`) and its words with the lines computed from the text in front of each -/
def linedG (before : Str) (i : Nat) : List ADef → List Obj
  | [] => []
  | a :: rest =>
    .defn { name := a.d.1, id := some i, disabled := a.b,
            line := some (1 + nlCount (before ++ a.L.pre.text)), attrs := attrsOf a.attrs }
        (linedWords (before ++ a.L.pre.text ++ bangText_l2 a.b ++ a.d.1 ++ a.L.sp1 ++ ['=']) a.L.gaps a.d.2)
      :: linedG (before ++ a.text) (i + 1) rest

theorem groupedObjs_eq_lined_la (post : Pre) (ds : List ADef) :
    ∀ (before : Str) (i : Nat), wfDocG ds post = true →
      groupedObjs (1 + nlCount before) i ds = linedG before i ds := by
  induction ds with
  | nil => intro before i _; rfl
  | cons a rest ih =>
    intro before i hwf
    obtain ⟨hgd, hwd, hat, hwr⟩ := wfDocG_cons_la hwf
    obtain ⟨hname, _, _, _⟩ := goodDef_good hgd
    have hwd' := hwd
    simp only [wfDef, Bool.and_eq_true] at hwd'
    obtain ⟨⟨⟨hpre, hsp1⟩, hgaps⟩, hterm⟩ := hwd'
    have hl : 1 + nlCount before + a.L.pre.lines.length = 1 + nlCount (before ++ a.L.pre.text) := by
      rw [nlCount_append, nlCount_pre _ hpre]; omega
    have hb : 1 + nlCount (before ++ a.L.pre.text)
        = 1 + nlCount (before ++ a.L.pre.text ++ bangText_l2 a.b ++ a.d.1 ++ a.L.sp1 ++ ['=']) := by
      rw [nlCount_append _ ['='], nlCount_append _ a.L.sp1, nlCount_append _ a.d.1,
        nlCount_append _ (bangText_l2 a.b), goodName_nlCount hname, inlineB_nl hsp1, nlCount_eq,
        nlCount_bang_l2]
      omega
    have hitem := item_endLine_la (.defn a.d a.L a.b) (by simp [AItem.wf, hgd, hwd]) (1 + nlCount before)
    simp only [AItem.lay, AItem.spec, AItem.body, AItem.bang] at hitem
    have hnext : attrsEnd (endLine (1 + nlCount (before ++ a.L.pre.text)) a.d.2 + nlCount a.L.term.text) a.attrs
        = 1 + nlCount (before ++ a.text) := by
      rw [attrsEnd_eq_la _ hat, ← hl, hitem, ADef.text]
      simp only [nlCount_append]
      omega
    rw [groupedObjs, linedG, hl, hnext, ih _ _ hwr]
    congr 2
    rw [hb]
    exact reline_eq_linedWords a.d.2 a.L.gaps true _ hgaps

/-- the closed form of `parse` on a laid-out flat document with attributes, lines from the text -/
theorem parseObjs_renderG_lined_la (ds : List ADef) (post : Pre) (h : wfDocG ds post = true) :
    parseObjs (renderA (flattenA ds) post) = .ok (linedG [] 1 ds) := by
  rw [parseObjs_renderG_la ds post h]
  have : groupedObjs 1 1 ds = linedG [] 1 ds := groupedObjs_eq_lined_la post ds [] 1 h
  rw [this]

/-- the text in front of the name (or the `!`) of definition `k` -/
def beforeNameG : List ADef → Nat → Str
  | [], _ => []
  | a :: _, 0 => a.L.pre.text
  | a :: rest, k + 1 => a.text ++ beforeNameG rest k

/-- the text in front of word `j` of definition `k` -/
def beforeWordG (ds : List ADef) (k j : Nat) : Str :=
  match ds[k]? with
  | some a => beforeNameG ds k ++ (bangText_l2 a.b ++ (a.d.1 ++ (a.L.sp1 ++ ('=' :: beforeWordIn a.L.gaps a.d.2 j))))
  | none => []

theorem beforeNameG_prefix_la (post : Pre) (ds : List ADef) :
    ∀ (k : Nat) (a : ADef), ds[k]? = some a →
      ∃ tail, renderA (flattenA ds) post
        = beforeNameG ds k ++ (bangText_l2 a.b ++ (defText a.d a.L ++ tail)) := by
  induction ds with
  | nil => intro k a h; simp at h
  | cons a0 rest ih =>
    intro k a h
    rw [renderA_flatten_cons_la]
    cases k with
    | zero =>
      simp only [List.getElem?_cons_zero, Option.some.injEq] at h
      subst h
      exact ⟨attrsText a0.attrs ++ renderA (flattenA rest) post, by simp [beforeNameG, ADef.text]⟩
    | succ k =>
      simp only [List.getElem?_cons_succ] at h
      obtain ⟨tail, ht⟩ := ih k a h
      exact ⟨tail, by simp [beforeNameG, ht]⟩

theorem beforeWordG_prefix_la (post : Pre) (ds : List ADef) (k j : Nat) (a : ADef) (w : Word)
    (hk : ds[k]? = some a) (hlen : a.L.gaps.length = a.d.2.length) (hj : a.d.2[j]? = some w) :
    ∃ tail, renderA (flattenA ds) post = beforeWordG ds k j ++ (w.str ++ tail) := by
  obtain ⟨tail, ht⟩ := beforeNameG_prefix_la post ds k a hk
  obtain ⟨tail2, ht2⟩ := beforeWordIn_prefix a.d.2 a.L.gaps j w hlen hj
  refine ⟨tail2 ++ (a.L.term.text ++ tail), ?_⟩
  rw [ht, beforeWordG, hk]
  simp [defText, ht2]

theorem linedG_get_la (ds : List ADef) :
    ∀ (before : Str) (i k : Nat) (a : ADef), ds[k]? = some a →
      (linedG before i ds)[k]? = some (.defn
        { name := a.d.1, id := some (i + k), disabled := a.b,
          line := some (1 + nlCount (before ++ beforeNameG ds k)), attrs := attrsOf a.attrs }
        (linedWords (before ++ beforeNameG ds k ++ bangText_l2 a.b ++ a.d.1 ++ a.L.sp1 ++ ['='])
          a.L.gaps a.d.2)) := by
  induction ds with
  | nil => intro before i k a h; simp at h
  | cons a0 rest ih =>
    intro before i k a h
    cases k with
    | zero =>
      simp only [List.getElem?_cons_zero, Option.some.injEq] at h
      subst h
      simp [linedG, beforeNameG]
    | succ k =>
      simp only [List.getElem?_cons_succ] at h
      rw [linedG, List.getElem?_cons_succ, ih _ _ k a h]
      simp only [beforeNameG, List.append_assoc]
      have : i + 1 + k = i + (k + 1) := by omega
      rw [this]

theorem linedG_length_la (ds : List ADef) : ∀ (before : Str) (i : Nat),
    (linedG before i ds).length = ds.length := by
  induction ds with
  | nil => intro before i; rfl
  | cons a rest ih => intro before i; simp [linedG, ih]

theorem wfDocG_get_la (post : Pre) (ds : List ADef) :
    ∀ (k : Nat) (a : ADef), wfDocG ds post = true → ds[k]? = some a →
      goodDef a.d = true ∧ wfDef a.d a.L = true ∧ ∀ t ∈ a.attrs, t.item.wf = true := by
  induction ds with
  | nil => intro k a _ h; simp at h
  | cons a0 rest ih =>
    intro k a hwf h
    obtain ⟨h1, h2, h3, h4⟩ := wfDocG_cons_la hwf
    cases k with
    | zero =>
      simp only [List.getElem?_cons_zero, Option.some.injEq] at h
      subst h
      exact ⟨h1, h2, h3⟩
    | succ k =>
      simp only [List.getElem?_cons_succ] at h
      exact ih k a h4 h


/-! ### the input class does not look at `!` on definitions -/

def AItem.unbangDefn : AItem → AItem
  | .defn d L _ => .defn d L false
  | x => x

theorem flattenA_unbang_la (ds : List ADef) :
    flattenA (ds.map ADef.unbang) = (flattenA ds).map AItem.unbangDefn := by
  induction ds with
  | nil => rfl
  | cons a rest ih =>
    have e1 : flattenA (a :: rest) = a.items ++ flattenA rest := by simp [flattenA]
    have e2 : flattenA (ADef.unbang a :: rest.map ADef.unbang) = (ADef.unbang a).items ++ flattenA (rest.map ADef.unbang) := by
      simp [flattenA]
    rw [List.map_cons, e2, e1, List.map_append, ih]
    congr 1
    simp [ADef.items, ADef.unbang, AItem.unbangDefn, AttrIt.item]

theorem wfItems_map_la (f : AItem → AItem) (hwf : ∀ x, (f x).wf = x.wf) (hlay : ∀ x, (f x).lay = x.lay)
    (xs : List AItem) (post : Pre) : wfItems (xs.map f) post = wfItems xs post := by
  induction xs with
  | nil => rfl
  | cons x rest ih => simp [wfItems, hwf, hlay, ih]

theorem wfDocG_unbang_la (ds : List ADef) (post : Pre) : wfDocG (ds.map ADef.unbang) post = wfDocG ds post := by
  unfold wfDocG
  rw [flattenA_unbang_la]
  apply wfItems_map_la
  · intro x; cases x <;> rfl
  · intro x; cases x <;> rfl

theorem mem_attrsOf_la (ts : List AttrIt) (p : String × AttrVal) (h : p ∈ attrsOf ts) :
    ∃ t ∈ ts, t.b = false ∧ p.1 = t.n := by
  induction ts with
  | nil => simp [attrsOf] at h
  | cons t ts ih =>
    simp only [attrsOf, List.mem_append] at h
    rcases h with h | h
    · cases hb : t.b with
      | true => simp [hb] at h
      | false =>
        simp only [hb, Bool.false_eq_true, ↓reduceIte, List.mem_singleton] at h
        exact ⟨t, by simp, hb, by rw [h]⟩
    · obtain ⟨u, hu, h1, h2⟩ := ih h
      exact ⟨u, by simp [hu], h1, h2⟩

end Phil
